#!/venv/bin/python
"""Regenerate coq/theories/Gen/*.v from the CURRENT canopen source (tie (a) of DESIGN.md section 4.1).

Run in a fresh interpreter; imports canopen from $CANOPEN_REPO (default /repo).  Each module in
tools/tables/ reads constants / tables from the imported library and prints them as Gallina.
Fail-closed: a generator that does not recognise the shape of its table raises; its output file
is then removed, so everything that depends on it no longer builds and the properties concerned
are reported as no longer shown.
Usage: gen_tables.py [name ...]   (default: all)
"""
import importlib, os, pkgutil, sys, traceback

HERE = os.path.dirname(os.path.abspath(__file__))
REPO = os.environ.get("CANOPEN_REPO", "/repo")
sys.path.insert(0, REPO)
sys.path.insert(0, HERE)
import canopen  # noqa: E402
assert os.path.realpath(canopen.__file__).startswith(os.path.realpath(REPO) + "/"), canopen.__file__
OUTDIR = os.path.join(HERE, "..", "coq", "theories", "Gen")
os.makedirs(OUTDIR, exist_ok=True)

import tables  # noqa: E402
names = [m.name for m in pkgutil.iter_modules(tables.__path__) if not m.name.startswith("_")]
if len(sys.argv) > 1:
    names = [n for n in names if n in sys.argv[1:]]
failed = 0
for n in sorted(names):
    mod = importlib.import_module(f"tables.{n}")
    out = os.path.join(OUTDIR, mod.OUTPUT)
    try:
        text = mod.generate()
    except Exception:
        failed += 1
        print(f"FAILED {n}: {traceback.format_exc(limit=3)}")
        for p in (out, out + "o"):
            if os.path.exists(p): os.remove(p)
        continue
    old = open(out).read() if os.path.exists(out) else None
    if old != text:
        with open(out + ".tmp", "w") as f: f.write(text)
        os.replace(out + ".tmp", out)
        print(f"{mod.OUTPUT} regenerated (changed)")
    else:
        print(f"{mod.OUTPUT} unchanged")
print(f"tables: {len(names)} generators, {failed} failed")
sys.exit(0)
