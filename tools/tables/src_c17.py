"""C17: functions translated from the source text  ->  Gen/SrcC17.v"""
from ._src import generate_for, DT
OUTPUT = "SrcC17.v"

NO_PERIOD = "(orb (negb per_has) (Z.eqb per_ 0))"

SPECS = [
    # PeriodicMessageTask.update: is the new payload stored, and what happens to the bus task?
    #   act = 0 nothing, 1 modify_data, 3 stop followed by _start
    dict(module="canopen.network", qualname="PeriodicMessageTask.update", name="src_pt_update",
         params=[("has_modify", "bool"), ("same_data", "bool"), ("stored_", "bool"), ("act_", "Z")],
         ret="(bool * Z)", fallthrough="(stored_, act_)",
         calls={"hasattr(self._task, 'modify_data')": "has_modify", "new_data != old_data": "(negb same_data)"},
         stmts={"new_data = bytearray(data)": "let new_data := 0",
                "old_data = self.msg.data": "let old_data := 0",
                "self.msg.data = new_data": "let stored_ := true",
                "self.msg.dlc = len(new_data)": "let dlc_current_ := true",
                "self._task.modify_data(self.msg)": "let act_ := 1",
                "self._task.stop()": "let act_ := 2",
                "self._start()": "let act_ := Z.add act_ 1"}),
    # SyncProducer.start: (stop() called, period attribute, 1 = a task is created / 0 = ValueError)
    dict(module="canopen.sync", qualname="SyncProducer.start", name="src_sync_start",
         params=[("arg_given", "bool"), ("period", "Z"), ("per_has", "bool"), ("per_", "Z"), ("stopped_", "bool")],
         ret="(bool * bool * Z * Z)", fallthrough="(stopped_, per_has, per_, 1)",
         raise_value="(stopped_, per_has, per_, 0)",
         calls={"period is not None": "arg_given", "not self.period": NO_PERIOD},
         stmts={"self.period = period": "let '(per_has, per_) := (true, period)",
                "self.stop()": "let stopped_ := true",
                "self._task = self.network.send_periodic(self.cob_id, [], self.period)": "let created_ := true"}),
    # PdoMap.start: the same observations
    dict(module="canopen.pdo.base", qualname="PdoMap.start", name="src_pdo_start",
         params=[("arg_given", "bool"), ("period", "Z"), ("per_has", "bool"), ("per_", "Z"), ("stopped_", "bool")],
         ret="(bool * bool * Z * Z)", fallthrough="(stopped_, per_has, per_, 1)",
         raise_value="(stopped_, per_has, per_, 0)",
         calls={"period is not None": "arg_given", "not self.period": NO_PERIOD},
         stmts={"self.period = period": "let '(per_has, per_) := (true, period)",
                "self.stop()": "let stopped_ := true",
                "self._task = self.pdo_node.network.send_periodic(self.cob_id, self.data, self.period)":
                    "let created_ := true"}),
    # PdoMap.update / PdoMap.stop / SyncProducer.stop: guarded by "a task is held"
    dict(module="canopen.pdo.base", qualname="PdoMap.update", name="src_pdo_update_calls",
         params=[("has_task", "bool"), ("called_", "bool")], ret="bool", fallthrough="called_",
         calls={"self._task is not None": "has_task"},
         stmts={"self._task.update(self.data)": "let called_ := true"}),
    dict(module="canopen.pdo.base", qualname="PdoMap.stop", name="src_pdo_stop",
         params=[("has_task", "bool"), ("stopped_", "bool"), ("holds_", "bool")], ret="(bool * bool)",
         fallthrough="(stopped_, holds_)",
         calls={"self._task is not None": "has_task"},
         stmts={"self._task.stop()": "let stopped_ := true", "self._task = None": "let holds_ := false"}),
    dict(module="canopen.sync", qualname="SyncProducer.stop", name="src_sync_stop",
         params=[("has_task", "bool"), ("stopped_", "bool"), ("holds_", "bool")], ret="(bool * bool)",
         fallthrough="(stopped_, holds_)",
         calls={"self._task is not None": "has_task"},
         stmts={"self._task.stop()": "let stopped_ := true", "self._task = None": "let holds_ := false"}),
]


def generate():
    return generate_for(SPECS)
