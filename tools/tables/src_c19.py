"""C19: functions translated from the source text  ->  Gen/SrcC19.v"""
from ._src import generate_for, DT
OUTPUT = "SrcC19.v"

SPECS = [
    dict(module="canopen.profiles.p402", qualname="BaseNode402.state", name="src_p402_state",
         params=[("SW_MASK", "list (string * (Z * Z))"), ("statusword0", "Z")], ret="string",
         attrs={"self.statusword": "statusword0", "State402.SW_MASK.items()": "SW_MASK"}),
]


def generate():
    return generate_for(SPECS)
