"""network.py (NodeScanner.SERVICES), lss.py (LSS_RX_COBID subscribed by Network.__init__)  ->  Gen/NetTables.v"""
from ._util import z, zlist, HEADER
OUTPUT = "NetTables.v"


def generate():
    from canopen.network import NodeScanner, Network
    from canopen.lss import LssMaster
    sv = NodeScanner.SERVICES
    if not isinstance(sv, (tuple, list)) or not sv:
        raise TypeError(f"NodeScanner.SERVICES has an unknown shape: {sv!r}")
    rx = LssMaster.LSS_RX_COBID
    out = [HEADER,
           "(* network.py: NodeScanner.SERVICES (in source order) *)",
           f"Definition SERVICES : list Z := {zlist(list(sv))}.",
           "(* lss.py: LssMaster.LSS_RX_COBID, the id Network.__init__ subscribes LssMaster.on_message_received to *)",
           f"Definition LSS_RX_COBID : Z := {z(rx)}."]
    return "\n".join(out) + "\n"
