"""C05: functions translated from the source text  ->  Gen/SrcC05.v"""
from ._src import generate_for, DT
OUTPUT = "SrcC05.v"

SPECS = [
    dict(module="canopen.pdo.base", qualname="PdoVariable.get_data", name="src_pdo_get_data",
         params=[("frame", "list Z"), ("signed0", "bool"), ("od_bytes", "Z"), ("offset", "Z"), ("length", "Z")],
         ret="res (list Z)",
         attrs={"self.offset": "offset", "self.length": "length"},
         calls={"self.od.data_type in objectdictionary.SIGNED_TYPES": "signed0",
                "int.from_bytes(self.pdo_parent.data, 'little')": "(le_decode frame)",
                "data.to_bytes(len(self.od) // 8, 'little', signed=signed)": "(py_to_bytes od_bytes signed data)",
                "self.pdo_parent.data[byte_offset:byte_offset + len(self.od) // 8]":
                    "(Ok (py_slice frame byte_offset (Z.add byte_offset od_bytes)))"},
         bools=["signed"]),
    dict(module="canopen.pdo.base", qualname="PdoVariable.set_data", name="src_pdo_set_data",
         params=[("frame", "list Z"), ("offset", "Z"), ("length", "Z"), ("data", "list Z")],
         ret="res (list Z)", fallthrough="frame_out",
         attrs={"self.offset": "offset", "self.length": "length"},
         calls={"int.from_bytes(data, 'little')": "(le_decode data)",
                "int.from_bytes(self.pdo_parent.data, 'little')": "(le_decode frame)"},
         stmts={"self.pdo_parent.data[:] = msg_data.to_bytes(len(self.pdo_parent.data), 'little')":
                    "let frame_out := py_to_bytes (zlen frame) false msg_data",
                "self.pdo_parent.data[byte_offset:byte_offset + len(data)] = data":
                    "let frame_out := Ok (py_splice frame byte_offset data)"},
         skip_stmts=["self.pdo_parent.update()"]),
]


def generate():
    return generate_for(SPECS)
