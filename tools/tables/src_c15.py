"""C15: functions translated from the source text  ->  Gen/SrcC15.v"""
from ._src import generate_for, DT
OUTPUT = "SrcC15.v"

SPECS = [
    # PdoMap.on_message: is the frame taken, and what becomes of (period, timestamp)?
    dict(module="canopen.pdo.base", qualname="PdoMap.on_message", name="src_pdo_on_message",
         params=[("cob_id_", "Z"), ("task_running", "bool"), ("has_ts", "bool"), ("timestamp_", "Z"), ("period_", "Z"),
                 ("can_id", "Z"), ("timestamp", "Z"), ("accepted_", "bool")],
         ret="(bool * Z * Z)", fallthrough="(accepted_, period_, timestamp_)",
         attrs={"self.cob_id": "cob_id_", "self.period": "period_", "self.timestamp": "timestamp_"},
         calls={"self._task is not None": "task_running", "self.timestamp is not None": "has_ts"},
         bools=["is_transmitting"],
         stmts={"self.is_received = True": "let accepted_ := true", "self.data = bytearray(data)": "let data_ := 0"},
         skip_stmts=["self.receive_condition.notify_all()", "for callback in self.callbacks:\n    callback(self)"]),
    # PdoMap.remote_request: is a remote frame sent?
    dict(module="canopen.pdo.base", qualname="PdoMap.remote_request", name="src_pdo_remote_request_sends",
         params=[("enabled_", "bool"), ("rtr_allowed_", "bool"), ("sent_", "bool")], ret="bool", fallthrough="sent_",
         calls={"self.enabled": "enabled_", "self.rtr_allowed": "rtr_allowed_"},
         stmts={"self.pdo_node.network.send_message(self.cob_id, bytes(), remote=True)": "let sent_ := true"}),
    # PdoMap.subscribe: is Network.subscribe(self.cob_id, self.on_message) called?
    dict(module="canopen.pdo.base", qualname="PdoMap.subscribe", name="src_pdo_subscribe_calls",
         params=[("enabled_", "bool"), ("called_", "bool")], ret="bool", fallthrough="called_",
         calls={"self.enabled": "enabled_"},
         stmts={"self.pdo_node.network.subscribe(self.cob_id, self.on_message)": "let called_ := true"}),
    # Network.subscribe: is the callback appended to the list of this CAN id?
    dict(module="canopen.network", qualname="Network.subscribe", name="src_net_subscribe_adds",
         params=[("already_", "bool"), ("added_", "bool")], ret="bool", fallthrough="added_",
         calls={"callback not in self.subscribers[can_id]": "(negb already_)"},
         skip_stmts=["self.subscribers.setdefault(can_id, list())"],
         stmts={"self.subscribers[can_id].append(callback)": "let added_ := true"}),
    # PdoMap.transmit: one frame with the map's COB-ID and data
    dict(module="canopen.pdo.base", qualname="PdoMap.transmit", name="src_pdo_transmit_sends",
         params=[("sent_", "bool")], ret="bool", fallthrough="sent_",
         stmts={"self.pdo_node.network.send_message(self.cob_id, self.data)": "let sent_ := true"}),
]


def generate():
    return generate_for(SPECS)
