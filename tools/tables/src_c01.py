"""C01 / C07: decision logic of WritableStream and ReadableStream (canopen/sdo/client.py) translated from the source
text  ->  Gen/SrcC01.v

State skeletons as in src_c12.py: the attributes a function reads are parameters, what it writes and a few ghost
variables (byte 0 of the request, how many payload bytes are copied, was the size packed ...) are let-bound along the
control flow of the source and the result is the tuple of their final values.  I/O statements are mapped by their exact
source text; an edit of such a statement changes its text, the mapping no longer applies and the translation fails
closed.  A raise inside a `try` body whose handler catches it is translated as that handler (py2coq
try_raise_to_handler), so the latch `_done = True; _error = exc` is part of the translated text."""
from ._src import generate_for
OUTPUT = "SrcC01.v"

M = "canopen.sdo.client"

WTUP = "(byte0_, payload_, toggle_, done_, err_, pos_"
SPECS = [
    # WritableStream.__init__: (code: 1 = constructed, 0 = initiate exchange failed and latched;
    #   byte 0 of the initiate request / expedited header, size packed at offset 4?, expedited header prepared?,
    #   _done, _error set?, pos, _toggle)
    dict(module=M, qualname="WritableStream.__init__", name="src_ws_init",
         params=[("size_has", "bool"), ("size", "Z"), ("force_segment", "bool"), ("raised_", "bool"),
                 ("res_command", "Z")],
         ret="(Z * Z * bool * bool * bool * bool * Z * Z)",
         fallthrough="(1, byte0_, sized_, exp_, done_, err_, pos_, toggle_)",
         raise_value="(0, byte0_, sized_, exp_, done_, err_, pos_, toggle_)",
         attrs={"self.size": "size_", "self.pos": "pos_", "self._toggle": "toggle_", "self._done": "done_"},
         calls={"size is None": "(negb size_has)", "size is not None": "size_has"},
         skip_stmts=["self.sdo_client = sdo_client"],
         try_as_if={"response = sdo_client.request_response(request)": "raised_"}, try_raise_to_handler=True,
         stmts={"self._exp_header = None": "let '(exp_, byte0_, sized_) := (false, 0, false)",
                "self._error = None": "let err_ := false",
                "request = bytearray(8)": "let request := 0",
                "struct.pack_into('<L', request, 4, size)": "let sized_ := true",
                "SDO_STRUCT.pack_into(request, 0, command, index, subindex)": "let byte0_ := command",
                "response = sdo_client.request_response(request)": "let sent_ := true",
                "res_command, = struct.unpack_from('B', response)": "let byte_0 := true",
                "self._error = exc": "let err_ := true",
                "self._exp_header = SDO_STRUCT.pack(command, index, subindex)": "let '(exp_, byte0_) := (true, command)"}),
    # WritableStream.write: (code, byte 0 of the segment request, payload bytes copied from b, _toggle, _done,
    #   _error set by this call?, pos, return value)
    #   code: 0 RuntimeError | 1 returned bytes_sent | 2 returned 0 (nothing sent) | 3 AssertionError |
    #         4 SdoCommunicationError not latched (expedited) | 5 re-raise of the stored error | 6 failed and latched
    dict(module=M, qualname="WritableStream.write", name="src_ws_write",
         params=[("done_", "bool"), ("has_err", "bool"), ("exp_", "bool"), ("size_has", "bool"), ("size_", "Z"),
                 ("pos_", "Z"), ("toggle_", "Z"), ("blen", "Z"), ("raised_", "bool"), ("res_command", "Z"),
                 ("byte0_", "Z"), ("payload_", "Z"), ("err_", "bool")],
         ret="(Z * Z * Z * Z * bool * bool * Z * Z)", bools=["last"],
         raise_value="(4, " + WTUP[1:] + ", 0)",
         raises={"raise self._error": "(5, " + WTUP[1:] + ", 0)",
                 "raise RuntimeError('All expected data has already been transmitted')": "(0, " + WTUP[1:] + ", 0)",
                 "raise AssertionError('More data received than expected')": "(3, " + WTUP[1:] + ", 0)",
                 "raise": "(6, " + WTUP[1:] + ", 0)"},
         returns={"0": "(2, " + WTUP[1:] + ", 0)", "bytes_sent": "(1, " + WTUP[1:] + ", bytes_sent)"},
         attrs={"self._done": "done_", "self.size": "size_", "self.pos": "pos_", "self._toggle": "toggle_"},
         calls={"self._error is not None": "has_err", "self._exp_header is not None": "exp_",
                "self.size is not None": "size_has", "len(b)": "blen", "min(len(b), 7)": "(Z.min blen 7)"},
         try_as_if={"response = self.sdo_client.request_response(request)": "raised_"}, try_raise_to_handler=True,
         stmts={"data = b.tobytes() if isinstance(b, memoryview) else b": "let data := 0",
                "request = self._exp_header + data.ljust(4, b'\\x00')": "let header_and_padded_data := true",
                "response = self.sdo_client.request_response(request)": "let sent_ := true",
                "res_command, = struct.unpack_from('B', response)": "let byte_0 := true",
                "res_command, = struct.unpack('B', response[0:1])": "let byte_0 := true",
                "request = bytearray(8)": "let request := 0",
                "request[0] = command": "let byte0_ := command",
                "request[1:bytes_sent + 1] = b[0:bytes_sent]": "let payload_ := bytes_sent",
                "self._error = exc": "let err_ := true"}),
    # WritableStream.close: (closing segment sent?, its byte 0, _done)
    dict(module=M, qualname="WritableStream.close", name="src_ws_close",
         params=[("done_", "bool"), ("exp_", "bool"), ("toggle_", "Z"), ("sent_", "bool"), ("byte0_", "Z")],
         ret="(bool * Z * bool)", fallthrough="(sent_, byte0_, done_)",
         attrs={"self._done": "done_", "self._exp_header": "exp_", "self._toggle": "toggle_"},
         skip_calls=["super(WritableStream, self).close"],
         stmts={"request = bytearray(8)": "let request := 0",
                "request[0] = command": "let byte0_ := command",
                "self.sdo_client.request_response(request)": "let sent_ := true"}),
    # ReadableStream.__init__ after the initiate exchange: (code: 1 = constructed, 0 = unexpected command,
    #   2 = other multiplexer; size known?, size, exp_data: 0 = None / 1 = res_data[:size] / 2 = res_data, pos, _toggle, _done)
    dict(module=M, qualname="ReadableStream.__init__", name="src_rs_init",
         params=[("index", "Z"), ("subindex", "Z"), ("res_command", "Z"), ("res_index", "Z"), ("res_subindex", "Z"),
                 ("rdlen", "Z"), ("rd_u32", "Z"), ("size_has_", "bool"), ("size_", "Z"), ("exp_", "Z")],
         ret="(Z * bool * Z * Z * Z * Z * bool)",
         fallthrough="(1, size_has_, size_, exp_, pos_, toggle_, done_)",
         raise_value="(0, size_has_, size_, exp_, pos_, toggle_, done_)",
         raises={"raise SdoCommunicationError(f'Node returned a value for {pretty_index(res_index, res_subindex)} instead, "
                 "maybe there is another SDO client communicating on the same SDO channel?')":
                 "(2, size_has_, size_, exp_, pos_, toggle_, done_)"},
         attrs={"self._done": "done_", "self._toggle": "toggle_", "self.pos": "pos_", "self.size": "size_"},
         assign_also={"size_": "let size_has_ := true"},
         calls={"len(self.exp_data)": "(if Z.eqb exp_ 1 then Z.min (Z.max size_ 0) rdlen else rdlen)"},
         skip_stmts=["self.sdo_client = sdo_client"],
         stmts={"request = bytearray(8)": "let request := 0",
                "SDO_STRUCT.pack_into(request, 0, REQUEST_UPLOAD, index, subindex)": "let byte0_ := REQUEST_UPLOAD",
                "response = sdo_client.request_response(request)": "let sent_ := true",
                "res_command, res_index, res_subindex = SDO_STRUCT.unpack_from(response)": "let bytes_0_to_3 := true",
                "res_data = response[4:8]": "let res_data := 0",
                "self.exp_data = None": "let exp_ := 0",
                "self.exp_data = res_data[:self.size]": "let exp_ := 1",
                "self.exp_data = res_data": "let exp_ := 2",
                "self.size, = struct.unpack('<L', res_data)": "let '(size_has_, size_) := (true, rd_u32)"}),
    # ReadableStream.read: (code, byte 0 of the segment request, _toggle, _done, pos, length of the segment data)
    #   code: 1 pending + readall | 2 pending | 3 b'' (done) | 4 exp_data | 5 readall | 6 empty segment, read again |
    #         7 response[1:length+1] | 0 unexpected command | 8 toggle mismatch
    dict(module=M, qualname="ReadableStream.read", name="src_rs_read",
         params=[("pending_", "bool"), ("size_none", "bool"), ("size", "Z"), ("done_", "bool"), ("has_exp", "bool"),
                 ("toggle_", "Z"), ("pos_", "Z"), ("res_command", "Z"), ("byte0_", "Z"), ("length", "Z")],
         ret="(Z * Z * Z * bool * Z * Z)",
         raise_value="(0, byte0_, toggle_, done_, pos_, length)",
         raises={"raise SdoCommunicationError('Toggle bit mismatch')": "(8, byte0_, toggle_, done_, pos_, length)"},
         returns={"data + self.readall()": "(1, byte0_, toggle_, done_, pos_, length)",
                  "data": "(2, byte0_, toggle_, done_, pos_, length)",
                  "b''": "(3, byte0_, toggle_, done_, pos_, length)",
                  "self.exp_data": "(4, byte0_, toggle_, done_, pos_, length)",
                  "self.readall()": "(5, byte0_, toggle_, done_, pos_, length)",
                  "self.read(size)": "(6, byte0_, toggle_, done_, pos_, length)",
                  "response[1:length + 1]": "(7, byte0_, toggle_, done_, pos_, length)"},
         attrs={"self._pending": "pending_", "self._done": "done_", "self._toggle": "toggle_", "self.pos": "pos_"},
         calls={"size is None": "size_none", "self.exp_data is not None": "has_exp"},
         stmts={"data, self._pending = (self._pending, b'')": "let pending_ := false",
                "request = bytearray(8)": "let request := 0",
                "request[0] = command": "let byte0_ := command",
                "response = self.sdo_client.request_response(request)": "let sent_ := true",
                "res_command, = struct.unpack_from('B', response)": "let byte_0 := true"}),
    # SdoClient.upload after the stream was read: (data truncated?, to how many bytes).  Everything the function does
    # besides reading the stream and looking the variable up in the dictionary is in the translated text: any further
    # statement (a cache, another size source) is refused by the translator.
    dict(module=M, qualname="SdoClient.upload", name="src_upload",
         params=[("var_found", "bool"), ("in_struct", "bool"), ("var_bits", "Z"), ("rs_has", "bool"),
                 ("response_size", "Z"), ("trunc_", "bool"), ("n_", "Z")],
         ret="(bool * Z)",
         calls={"var is not None": "var_found", "var.data_type in var.STRUCT_TYPES": "in_struct", "len(var)": "var_bits",
                "response_size is None": "(negb rs_has)"},
         returns={"data": "(trunc_, n_)"},
         stmts={"response_size = fp.size": "let size_of_stream := true",
                "data = fp.read()": "let whole_stream := true",
                "var = self.od.get_variable(index, subindex)": "let var_of_this_index_subindex := true",
                "data = data[0:var_size]": "let '(trunc_, n_) := (true, var_size)"}),
    # SdoClient.read_response: (0 = queue.Empty -> SdoCommunicationError | 1 = SdoAbortedError(code at bytes 4..7) | 2 = the frame)
    dict(module=M, qualname="SdoClient.read_response", name="src_read_response",
         params=[("timed_out", "bool"), ("res_command", "Z")],
         ret="Z", raise_value="0",
         raises={"raise SdoAbortedError(abort_code)": "1"}, returns={"response": "2"},
         try_as_if={"response = self.responses.get(block=True, timeout=self.RESPONSE_TIMEOUT)": "timed_out"},
         stmts={"response = self.responses.get(block=True, timeout=self.RESPONSE_TIMEOUT)": "let response := 0",
                "res_command, = struct.unpack_from('B', response)": "let byte_0 := true",
                "abort_code, = struct.unpack_from('<L', response, 4)": "let abort_code_u32_at_4 := true"}),
    # SdoClient.request_response, first pass of its loop: (code: 0 = the loop sends the request again | 1 = returned the
    #   response | 2 = SdoCommunicationError re-raised; queue replaced by an empty one?, requests sent, abort code sent (0 = none),
    #   retries left)
    dict(module=M, qualname="SdoClient.request_response", name="src_request_response",
         params=[("max_retries", "Z"), ("q_empty", "bool"), ("raised_", "bool"), ("flushed_", "bool"), ("sent_", "Z"),
                 ("abort_", "Z")],
         ret="(Z * bool * Z * Z * Z)",
         while_true_step="(0, flushed_, sent_, abort_, retries_left)",
         raise_value="(2, flushed_, sent_, abort_, retries_left)",
         returns={"self.read_response()": "(1, flushed_, sent_, abort_, retries_left)"},
         attrs={"self.MAX_RETRIES": "max_retries"},
         calls={"self.responses.empty()": "q_empty"},
         try_as_if={"return self.read_response()": "raised_"},
         stmts={"self.responses = queue.Queue()": "let flushed_ := true",
                "self.send_request(sdo_request)": "let sent_ := Z.add sent_ 1",
                "self.abort(84148224)": "let abort_ := 84148224"}),
    # SdoClient.abort: (byte 0 of the frame, the code packed little-endian at offset 4, frames sent)
    dict(module=M, qualname="SdoClient.abort", name="src_abort",
         params=[("abort_code", "Z"), ("sent_", "Z")],
         ret="(Z * Z * Z)", fallthrough="(byte0_, code_at_4, sent_)",
         stmts={"request = bytearray(8)": "let request := 0",
                "request[0] = REQUEST_ABORTED": "let byte0_ := REQUEST_ABORTED",
                "struct.pack_into('<L', request, 4, abort_code)": "let code_at_4 := abort_code",
                "self.send_request(request)": "let sent_ := Z.add sent_ 1"}),
    # ReadableStream.readinto: (read(7) called?, count returned, bytes copied into b, len(_pending) afterwards)
    dict(module=M, qualname="ReadableStream.readinto", name="src_rs_readinto",
         params=[("plen", "Z"), ("cap", "Z"), ("read_len", "Z"), ("read7_", "bool"), ("copied_", "Z")],
         ret="(bool * Z * Z * Z)",
         calls={"not self._pending": "(Z.eqb plen 0)", "min(len(b), len(self._pending))": "(Z.min cap plen)"},
         returns={"count": "(read7_, count, copied_, plen)"},
         stmts={"self._pending = self.read(7)": "let '(plen, read7_) := (read_len, true)",
                "b[:count] = self._pending[:count]": "let copied_ := count",
                "self._pending = self._pending[count:]": "let plen := Z.sub plen count"}),
]


def generate():
    from canopen.sdo.client import SdoClient
    assert isinstance(SdoClient.MAX_RETRIES, int)
    return generate_for(SPECS) + ("\n(* canopen.sdo.client.SdoClient.MAX_RETRIES *)\n"
                                 f"Definition SDO_MAX_RETRIES : Z := {SdoClient.MAX_RETRIES}.\n")
