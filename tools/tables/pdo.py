"""pdo/base.py, pdo/__init__.py  ->  Gen/PdoTables.v

Constants: PDO_NOT_VALID, RTR_NOT_ALLOWED (module constants of pdo/base.py).
Derived by instantiation (PdoMaps.__init__ does not store its offsets): a RemoteNode over a
dictionary that holds an object at every index 0x1000..0x1FFF is built and the layout of
node.rpdo / node.tpdo is read off: number of maps, index of the communication record and of the
mapping record of map k, default COB-ID of the predefined connection set.  Fail-closed: anything
that is not the linear layout `base + (k - 1)` raises.
"""
from ._util import z, HEADER
OUTPUT = "PdoTables.v"


def _layout(maps, node_id):
    keys = sorted(maps.keys())
    n = len(keys)
    if n == 0 or keys != list(range(1, n + 1)):
        raise ValueError(f"PDO map keys are not 1..N: {keys[:5]}..{keys[-3:]}")
    com0 = maps[1].com_record.od.index
    map0 = maps[1].map_array.od.index
    npre = 0
    cob0 = maps[1].predefined_cob_id
    if not isinstance(cob0, int):
        raise ValueError(f"no predefined COB-ID for map 1: {cob0!r}")
    for k in keys:
        m = maps[k]
        if m.com_record.od.index != com0 + k - 1 or m.map_array.od.index != map0 + k - 1:
            raise ValueError(f"map {k}: indices {m.com_record.od.index:#x}/{m.map_array.od.index:#x} not linear")
        p = m.predefined_cob_id
        if p is None:
            continue
        if k != npre + 1 or p != cob0 + (k - 1) * 0x100:
            raise ValueError(f"map {k}: predefined COB-ID {p!r} does not follow base + (k-1)*0x100")
        npre = k
    return n, com0, map0, cob0 - node_id, npre


def generate():
    import logging
    import canopen
    from canopen.pdo import base
    from canopen import objectdictionary as odm
    logging.disable(logging.CRITICAL)
    od = odm.ObjectDictionary()
    for idx in range(0x1000, 0x2000):
        r = odm.ODRecord(f"o{idx:x}", idx)
        v = odm.ODVariable("n", idx, 0)
        v.data_type = odm.UNSIGNED8
        r.add_member(v)
        od.add_object(r)
    lay = {}
    for node_id in (5, 9):
        node = canopen.RemoteNode(node_id, od)
        lay[node_id] = (_layout(node.rpdo.map, node_id), _layout(node.tpdo.map, node_id))
    if lay[5] != lay[9]:
        raise ValueError(f"layout depends on the node id other than by + id: {lay}")
    (rn, rcom, rmap, rcob, rpre), (tn, tcom, tmap, tcob, tpre) = lay[5]
    if rn != tn or rpre != tpre:
        raise ValueError(f"RPDO/TPDO differ in size: {lay[5]}")
    out = [HEADER, "(* pdo/base.py *)"]
    out.append(f"Definition PDO_NOT_VALID : Z := {z(base.PDO_NOT_VALID)}.")
    out.append(f"Definition RTR_NOT_ALLOWED : Z := {z(base.RTR_NOT_ALLOWED)}.")
    out.append("(* pdo/__init__.py RPDO/TPDO + PdoMaps.__init__, read off a RemoteNode instance *)")
    out.append(f"Definition PDO_MAPS_MAX : Z := {z(rn)}.")
    out.append(f"Definition PDO_PREDEFINED_MAPS : Z := {z(rpre)}.")
    out.append(f"Definition RPDO_COM_OFFSET : Z := {z(rcom)}.")
    out.append(f"Definition RPDO_MAP_OFFSET : Z := {z(rmap)}.")
    out.append(f"Definition RPDO_COB_BASE : Z := {z(rcob)}.")
    out.append(f"Definition TPDO_COM_OFFSET : Z := {z(tcom)}.")
    out.append(f"Definition TPDO_MAP_OFFSET : Z := {z(tmap)}.")
    out.append(f"Definition TPDO_COB_BASE : Z := {z(tcob)}.")
    return "\n".join(out) + "\n"
