"""C13: decision logic of BlockUploadStream translated from the source text  ->  Gen/SrcC13.v

State skeletons as in src_c12.py.  read(): a response is represented by its command byte (cmd_d = what
read_response() returned, cmd_r / ack_r = the command byte of what _retransmit() returned and the value of _ackseq it
left behind); `timed_out` = read_response() raised SdoCommunicationError (try / except / else translated as an `if`)."""
from ._src import generate_for
OUTPUT = "SrcC13.v"

M, C = "canopen.sdo.client", "BlockUploadStream."

READ_OUT = "(code_, nretx_, ackseq_, acked_, res_command, hi_, done_, crcp_, pos_, error_, abort_)"

SPECS = [
    # read(size): code 10 = _pending + readall(), 11 = _pending, 12 = b"" (done), 13 = readall(),
    #             1 = a segment's data returned, 0 = SdoCommunicationError raised by read() itself (abort code in abort_);
    #   nretx_ = number of _retransmit() calls, ackseq_ = _ackseq before _ack_block, acked_ = _ack_block called,
    #   res_command = command byte of the segment used, hi_ = upper slice bound of data = response[1:hi_],
    #   done_, crcp_ = CRC fed, pos_, error_
    dict(module=M, qualname=C + "read", name="src_ul_read",
         params=[("pend_", "bool"), ("size_none", "bool"), ("size", "Z"), ("done_", "bool"), ("timed_out", "bool"),
                 ("cmd_d", "Z"), ("cmd_r", "Z"), ("ack_r", "Z"), ("ackseq_", "Z"), ("blksize_", "Z"), ("n_end", "Z"),
                 ("crcsup", "bool"), ("crc_match", "bool"), ("dlen", "Z"), ("pos_", "Z"), ("size_has", "bool"),
                 ("size_", "Z"), ("error_", "bool"),
                 ("code_", "Z"), ("nretx_", "Z"), ("acked_", "bool"), ("res_command", "Z"), ("hi_", "Z"), ("crcp_", "bool"),
                 ("abort_", "Z")],
         ret="(Z * Z * Z * bool * Z * Z * bool * bool * Z * bool * Z)",
         fallthrough=READ_OUT, raise_value="(0, nretx_, ackseq_, acked_, res_command, hi_, done_, crcp_, pos_, error_, abort_)",
         attrs={"self._pending": "pend_", "self._done": "done_", "self._ackseq": "ackseq_", "self.blksize": "blksize_",
                "self.crc_supported": "crcsup", "self.pos": "pos_", "self.size": "size_", "self._error": "error_"},
         calls={"size is None": "size_none", "self.size is not None": "size_has", "len(data)": "dlen",
                "self._server_crc != self._crc.final()": "(negb crc_match)"},
         returns={"data + self.readall()": "(10, nretx_, ackseq_, acked_, res_command, hi_, done_, crcp_, pos_, error_, abort_)",
                  "b''": "(12, nretx_, ackseq_, acked_, res_command, hi_, done_, crcp_, pos_, error_, abort_)",
                  "self.readall()": "(13, nretx_, ackseq_, acked_, res_command, hi_, done_, crcp_, pos_, error_, abort_)",
                  "data": "(code_, nretx_, ackseq_, acked_, res_command, hi_, done_, crcp_, pos_, error_, abort_)"},
         try_as_if={"response = self.sdo_client.read_response()": "timed_out"},
         stmts={"data, self._pending = (self._pending, b'')": "let code_ := 11",
                "response = self.sdo_client.read_response()": "let response := cmd_d",
                "response = self._retransmit()": "let '(response, ackseq_, nretx_) := (cmd_r, ack_r, Z.add nretx_ 1)",
                "res_command, = struct.unpack_from('B', response)": "let res_command := response",
                "self._ack_block()": "let acked_ := true",
                "n = self._end_upload()": "let n := n_end",
                "data = response[1:8 - n]": "let '(hi_, code_) := (Z.sub 8 n, 1)",
                "data = response[1:8]": "let '(hi_, code_) := (8, 1)",
                "self._crc.process(data)": "let crcp_ := true",
                "self.sdo_client.abort(84148228)": "let abort_ := 84148228",
                "self.sdo_client.abort(101122064)": "let abort_ := 101122064"}),
    # _ack_block(): (request bytes 0, 1, 2, _ackseq afterwards)
    dict(module=M, qualname=C + "_ack_block", name="src_ul_ack_block",
         params=[("ackseq_", "Z"), ("blksize_", "Z"), ("b0_", "Z"), ("b1_", "Z"), ("b2_", "Z"), ("sent_", "bool")],
         ret="(Z * Z * Z * bool * Z)", fallthrough="(b0_, b1_, b2_, sent_, ackseq_)",
         attrs={"self._ackseq": "ackseq_", "self.blksize": "blksize_"},
         stmts={"request = bytearray(8)": "let request := 0",
                "request[0] = REQUEST_BLOCK_UPLOAD | BLOCK_TRANSFER_RESPONSE":
                    "let b0_ := (Z.lor REQUEST_BLOCK_UPLOAD BLOCK_TRANSFER_RESPONSE)",
                "request[1] = self._ackseq": "let b1_ := ackseq_",
                "request[2] = self.blksize": "let b2_ := blksize_",
                "self.sdo_client.send_request(request)": "let sent_ := true"}),
    # _end_upload(): (1, n) = unused bytes of the last segment | (0, abort code) = SdoCommunicationError;
    dict(module=M, qualname=C + "_end_upload", name="src_ul_end_upload",
         params=[("res_command", "Z"), ("abort_", "Z")],
         ret="(Z * Z)", return_wrap="pair 1", raise_value="(0, abort_)",
         attrs={"self._error": "error_"},
         stmts={"response = self.sdo_client.read_response()": "let response := 0",
                "res_command, self._server_crc = struct.unpack_from('<BH', response)": "let byte0_and_bytes12 := true",
                "self.sdo_client.abort(84148225)": "let abort_ := 84148225"}),
    # readinto(b): (read(7) called?, bytes handed out, length of _pending afterwards)
    dict(module=M, qualname=C + "readinto", name="src_ul_readinto",
         params=[("blen", "Z"), ("plen", "Z"), ("rlen", "Z"), ("called_", "bool")],
         ret="(bool * Z * Z)", returns={"count": "(called_, count, plen)"},
         attrs={"self._pending": "(negb (Z.eqb plen 0))"},
         calls={"min(len(b), len(self._pending))": "(Z.min blen plen)"},
         stmts={"self._pending = self.read(7)": "let '(plen, called_) := (rlen, true)",
                "b[:count] = self._pending[:count]": "let copied_ := count",
                "self._pending = self._pending[count:]": "let plen := Z.sub plen count"}),
    # close(): is the end response sent?
    dict(module=M, qualname=C + "close", name="src_ul_close",
         params=[("closed_", "bool"), ("done_", "bool"), ("error_", "bool"), ("b0_", "Z"), ("sent_", "bool")],
         ret="(Z * bool)", bare_return=True, fallthrough="(b0_, sent_)",
         attrs={"self.closed": "closed_", "self._done": "done_", "self._error": "error_"},
         skip_calls=["super(BlockUploadStream, self).close"],
         stmts={"request = bytearray(8)": "let request := 0",
                "request[0] = REQUEST_BLOCK_UPLOAD | END_BLOCK_TRANSFER": "let b0_ := (Z.lor REQUEST_BLOCK_UPLOAD END_BLOCK_TRANSFER)",
                "self.sdo_client.send_request(request)": "let sent_ := true"}),
]


def generate():
    return generate_for(SPECS)
