"""C16: functions translated from the source text  ->  Gen/SrcC16.v"""
from ._src import generate_for, DT
OUTPUT = "SrcC16.v"

SPECS = [
    # EmcyConsumer.on_emcy: is this an error-reset frame?  (the branch taken for self.active)
    dict(module="canopen.emcy", qualname="EmcyConsumer.on_emcy", name="src_emcy_is_reset",
         params=[("code", "Z")], ret="bool", fallthrough="is_reset_",
         stmts={"code, register, data = EMCY_STRUCT.unpack(data)": "let register := 0",
                "entry = EmcyError(code, register, data, timestamp)": "let entry := 0",
                "self.active = []": "let is_reset_ := true",
                "self.active.append(entry)": "let is_reset_ := false",
                "self.log.append(entry)": "let logged_ := true"},
         skip_stmts=["self.emcy_received.notify_all()", "for callback in self.callbacks:\n    callback(entry)"]),
]


def generate():
    return generate_for(SPECS)
