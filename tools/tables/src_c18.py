"""C18: decision logic of canopen/lss.py (LssMaster) translated from the source text  ->  Gen/SrcC18.v

Decision skeletons (tools/py2coq.py): every I/O statement (frame construction, __send_command, struct.unpack_from,
queue operations) is mapped by its EXACT source text to the observation it stands for, so an edit of such a
statement makes the translation fail (fail closed); the control flow around them (comparisons, `in`, raise / return,
try / except) is translated.  while-loops are outside the translator's subset: the BODIES of fast_scan's two loops
and the two loop conditions are translated separately (own driver below), the iteration itself stays hand-written in
Model/Lss.v (scan_bits / scan_parts) and is tied step by step in Proofs/Src_eq_c18.v.

Conventions: a received frame is represented by the values struct.unpack_from takes from it (r0 = byte 0, r1 = the
second field); `silent` / `timed_out` = "the guarded call raised" (try / except translated as an `if`);
result code 0 = an exception was raised (the driver checks that every `raise` of a translated function raises
LssError), 1 = normal return."""
import ast
from ._src import py2coq
OUTPUT = "SrcC18.v"

M, C = "canopen.lss", "LssMaster._LssMaster"          # private methods are name-mangled on the class
PROBE = "self.__send_fast_scan_message(lss_id[lss_sub], lss_bit_check, lss_sub, lss_next)"

SPECS = [
    # __send_fast_scan_message: (the five values packed '<BIBBB' into message[0:8], answered?)
    dict(module=M, qualname=C + "__send_fast_scan_message", name="src_send_fast_scan_message",
         params=[("id_number", "Z"), ("bit_checker", "Z"), ("lss_sub", "Z"), ("lss_next", "Z"),
                 ("silent", "bool"), ("r0", "Z")],
         ret="(Z * Z * Z * Z * Z * bool)",
         returns={"False": "(p0_, p1_, p2_, p3_, p4_, false)", "True": "(p0_, p1_, p2_, p3_, p4_, true)"},
         try_as_if={"recv_msg = self.__send_command(message)": "silent"},
         stmts={"message = bytearray(8)": "let message := 0",
                "message[0:8] = struct.pack('<BIBBB', CS_FAST_SCAN, id_number, bit_checker, lss_sub, lss_next)":
                    "let '(p0_, p1_, p2_, p3_, p4_) := (CS_FAST_SCAN, id_number, bit_checker, lss_sub, lss_next)",
                "recv_msg = self.__send_command(message)": "let recv_msg := 0",
                "cs = struct.unpack_from('<B', recv_msg)[0]": "let cs := r0"}),
    # __send_inquire_node_id: (message[0], code, value)
    dict(module=M, qualname=C + "__send_inquire_node_id", name="src_send_inquire_node_id",
         params=[("r0", "Z"), ("r1", "Z"), ("b0_", "Z")],
         ret="(Z * Z * Z)", raise_value="(b0_, 0, 0)", returns={"current_node_id": "(b0_, 1, current_node_id)"},
         stmts={"message = bytearray(8)": "let message := 0",
                "message[0] = CS_INQUIRE_NODE_ID": "let b0_ := CS_INQUIRE_NODE_ID",
                "response = self.__send_command(message)": "let response := 0",
                "cs, current_node_id = struct.unpack_from('<BB', response)": "let '(cs, current_node_id) := (r0, r1)"}),
    # __send_inquire_lss_address(req_cs): (message[0], code, value); r1 = the '<I' field at offset 1
    dict(module=M, qualname=C + "__send_inquire_lss_address", name="src_send_inquire_lss_address",
         params=[("req_cs", "Z"), ("r0", "Z"), ("r1", "Z"), ("b0_", "Z")],
         ret="(Z * Z * Z)", raise_value="(b0_, 0, 0)", returns={"part_of_address": "(b0_, 1, part_of_address)"},
         stmts={"message = bytearray(8)": "let message := 0",
                "message[0] = req_cs": "let b0_ := req_cs",
                "response = self.__send_command(message)": "let response := 0",
                "res_cs, part_of_address = struct.unpack_from('<BI', response)": "let '(res_cs, part_of_address) := (r0, r1)"}),
    # __send_configure(req_cs, value1, value2): (message[0], message[1], message[2], code)
    dict(module=M, qualname=C + "__send_configure", name="src_send_configure",
         params=[("req_cs", "Z"), ("value1", "Z"), ("value2", "Z"), ("r0", "Z"), ("r1", "Z"),
                 ("b0_", "Z"), ("b1_", "Z"), ("b2_", "Z")],
         ret="(Z * Z * Z * Z)", raise_value="(b0_, b1_, b2_, 0)", fallthrough="(b0_, b1_, b2_, 1)",
         stmts={"message = bytearray(8)": "let message := 0",
                "message[0] = req_cs": "let b0_ := req_cs",
                "message[1] = value1": "let b1_ := value1",
                "message[2] = value2": "let b2_ := value2",
                "response = self.__send_command(message)": "let response := 0",
                "res_cs, error_code = struct.unpack_from('<BB', response)": "let '(res_cs, error_code) := (r0, r1)",
                "error_msg = f'LSS Error: {error_code}'": "let error_msg := 0"}),
    # __send_command: (queue replaced before the frame went out?, frame sent?, COB-ID, code)
    #   code 0 = LssError, 1 = returns None (no answer awaited), 2 = returns what responses.get() delivered
    dict(module=M, qualname=C + "__send_command", name="src_send_command",
         params=[("q_empty", "bool"), ("m0", "Z"), ("timed_out", "bool"),
                 ("flushed_", "bool"), ("sent_", "bool"), ("cob_", "Z")],
         ret="(bool * bool * Z * Z)", raise_value="(flushed_, sent_, cob_, 0)",
         returns={"response": "(flushed_, sent_, cob_, response)"},
         calls={"self.responses.empty()": "q_empty",
                "bool(message[0] in ListMessageNeedResponse)": "(zmem m0 ListMessageNeedResponse)"},
         try_as_if={"response = self.responses.get(block=True, timeout=self.RESPONSE_TIMEOUT)": "timed_out"},
         stmts={"response = None": "let response := 1",
                "self.responses = queue.Queue()": "let flushed_ := negb sent_",
                "self.network.send_message(self.LSS_TX_COBID, message)": "let '(sent_, cob_) := (true, LSS_TX_COBID)",
                "response = self.responses.get(block=True, timeout=self.RESPONSE_TIMEOUT)": "let response := 2"}),
    # the public configure services: the arguments handed to __send_configure
    dict(module=M, qualname="LssMaster.configure_node_id", name="src_configure_node_id",
         params=[("new_node_id", "Z")], ret="(Z * Z * Z)", fallthrough="(a0_, a1_, a2_)",
         stmts={"self.__send_configure(CS_CONFIGURE_NODE_ID, new_node_id)":
                    "let '(a0_, a1_, a2_) := (CS_CONFIGURE_NODE_ID, new_node_id, DEFAULT_VALUE2)"}),
    dict(module=M, qualname="LssMaster.configure_bit_timing", name="src_configure_bit_timing",
         params=[("new_bit_timing", "Z")], ret="(Z * Z * Z)", fallthrough="(a0_, a1_, a2_)",
         stmts={"self.__send_configure(CS_CONFIGURE_BIT_TIMING, 0, new_bit_timing)":
                    "let '(a0_, a1_, a2_) := (CS_CONFIGURE_BIT_TIMING, 0, new_bit_timing)"}),
    dict(module=M, qualname="LssMaster.store_configuration", name="src_store_configuration",
         params=[], ret="(Z * Z * Z)", fallthrough="(a0_, a1_, a2_)",
         stmts={"self.__send_configure(CS_STORE_CONFIGURATION)":
                    "let '(a0_, a1_, a2_) := (CS_STORE_CONFIGURATION, DEFAULT_VALUE1, DEFAULT_VALUE2)"}),
]

# ---- fast_scan: initial values, the two loop conditions and the two loop bodies
INIT_SPEC = dict(name="src_fast_scan_init", params=[], ret="(Z * Z * Z * Z)",
                 fallthrough="(lss_id0_, lss_bit_check, lss_sub, lss_next)",
                 stmts={"lss_id = [0] * 4": "let lss_id0_ := 0"})
# inner loop body: (lss_bit_check, lss_id[lss_sub]) afterwards; idn = lss_id[lss_sub], answered = result of the probe
BIT_SPEC = dict(name="src_scan_bit",
                params=[("idn", "Z"), ("lss_bit_check", "Z"), ("lss_sub", "Z"), ("lss_next", "Z"), ("answered", "bool")],
                ret="(Z * Z)", fallthrough="(lss_bit_check, idn)",
                attrs={"lss_id[lss_sub]": "idn"}, calls={PROBE: "answered"}, skip_calls=["time.sleep"])
# outer loop body before the inner loop
PART_PRE_SPEC = dict(name="src_scan_part_pre", params=[], ret="Z", fallthrough="lss_bit_check")
# outer loop body after the inner loop: (go on?, lss_sub, lss_next); confirmed = result of the confirmation probe
PART_POST_SPEC = dict(name="src_scan_part_post",
                      params=[("lss_sub", "Z"), ("lss_next", "Z"), ("confirmed", "bool")],
                      ret="(bool * Z * Z)", fallthrough="(true, lss_sub, lss_next)",
                      returns={"(False, None)": "(false, lss_sub, lss_next)"},
                      calls={PROBE: "confirmed"}, skip_calls=["time.sleep"])


def _define(spec, stmts, origin):
    tr = py2coq.Tr(spec)
    body = tr.block(list(stmts), spec["fallthrough"])
    params = " ".join(f"({n} : {t})" for n, t in spec["params"])
    return f"(* {origin} *)\nDefinition {spec['name']} {params} : {spec['ret']} :=\n  {body}.\n"


def _cond(name, param, test, origin):
    tr = py2coq.Tr(dict(params=[(param, "Z")]))
    return f"(* {origin} *)\nDefinition {name} ({param} : Z) : bool :=\n  {tr.cond(test)}.\n"


def _fail(msg):
    raise py2coq.TranslationError("LssMaster.fast_scan: " + msg)


def _fast_scan_parts():
    fn = py2coq.get_function(M, "LssMaster.fast_scan")
    body = [s for s in fn.body if not (isinstance(s, ast.Expr) and isinstance(s.value, ast.Constant))]
    # shape: <assignments> ; if <first probe>: sleep ; while lss_sub < 4: ... ; return True, lss_id ; return False, None
    if len(body) < 3 or not isinstance(body[-2], ast.If) or not isinstance(body[-1], ast.Return):
        _fail("unexpected top-level shape")
    init, first, last = body[:-2], body[-2], body[-1]
    if not all(isinstance(s, ast.Assign) for s in init):
        _fail("statements before the first probe are not plain assignments")
    if ast.unparse(first.test) != "self.__send_fast_scan_message(lss_id[0], lss_bit_check, lss_sub, lss_next)" or first.orelse:
        _fail("first probe: " + ast.unparse(first.test))
    if ast.unparse(last) != "return (False, None)":
        _fail("final return: " + ast.unparse(last))
    inside = [s for s in first.body if ast.unparse(s) != "time.sleep(0.01)"]
    if len(inside) != 2 or not isinstance(inside[0], ast.While) or ast.unparse(inside[1]) != "return (True, lss_id)" \
            or inside[0].orelse:
        _fail("body of the first probe's if")
    outer = inside[0]
    whiles = [i for i, s in enumerate(outer.body) if isinstance(s, ast.While)]
    if len(whiles) != 1 or outer.body[whiles[0]].orelse:
        _fail("outer loop does not contain exactly one inner loop")
    k = whiles[0]
    inner = outer.body[k]
    for loop in (outer, inner):
        for node in ast.walk(loop):
            if isinstance(node, (ast.Break, ast.Continue)):
                _fail("break / continue in a loop")
    o = f"{M}.LssMaster.fast_scan"
    return [_define(INIT_SPEC, init, o + ": assignments before the first probe (lss_id[0], lss_bit_check, lss_sub, lss_next)"),
            _cond("src_scan_parts_continue", "lss_sub", outer.test, o + ": condition of the outer loop"),
            _define(PART_PRE_SPEC, outer.body[:k], o + ": outer loop body before the inner loop"),
            _cond("src_scan_bits_continue", "lss_bit_check", inner.test, o + ": condition of the inner loop"),
            _define(BIT_SPEC, inner.body, o + ": inner loop body"),
            _define(PART_POST_SPEC, outer.body[k + 1:], o + ": outer loop body after the inner loop")]


def _check_raises():
    """every `raise` of the translated functions raises LssError (the skeletons only record that one was raised)"""
    for spec in SPECS:
        fn = py2coq.get_function(spec["module"], spec["qualname"])
        for node in ast.walk(fn):
            if isinstance(node, ast.Raise):
                if not (isinstance(node.exc, ast.Call) and ast.unparse(node.exc.func) == "LssError"):
                    raise py2coq.TranslationError(f"{spec['qualname']}: raises {ast.unparse(node)}")
            if isinstance(node, ast.ExceptHandler) and ast.unparse(node.type) not in ("LssError", "queue.Empty"):
                raise py2coq.TranslationError(f"{spec['qualname']}: handler for {ast.unparse(node.type)}")


def _defaults():
    """__send_configure(self, req_cs, value1=0, value2=0): the defaults used by the public services"""
    fn = py2coq.get_function(M, C + "__send_configure")
    names = [a.arg for a in fn.args.args]
    d = fn.args.defaults
    if names != ["self", "req_cs", "value1", "value2"] or len(d) != 2 or \
            not all(isinstance(x, ast.Constant) and type(x.value) is int for x in d) or fn.args.kwonlyargs or fn.args.vararg:
        raise py2coq.TranslationError("__send_configure signature: " + ast.unparse(fn.args))
    return (f"(* defaults of {M}.LssMaster.__send_configure({ast.unparse(fn.args)}) *)\n"
            f"Definition DEFAULT_VALUE1 : Z := {d[0].value}.\nDefinition DEFAULT_VALUE2 : Z := {d[1].value}.\n")


def generate():
    _check_raises()
    out = ["(* GENERATED by tools/gen_tables.py (tools/py2coq.py) from the source text of /repo -- do not edit. *)",
           "From Coq Require Import ZArith List Bool String.",
           "From CV Require Import Base.Val Base.Bytes Base.Tys Base.PyLib Gen.LssTables.",
           "Import ListNotations.", "Open Scope Z_scope.", "", _defaults()]
    for spec in SPECS:
        out.append(py2coq.translate(spec))
    out.extend(_fast_scan_parts())
    return "\n".join(out) + "\n"
