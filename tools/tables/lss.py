"""lss.py  ->  Gen/LssTables.v  (command specifiers, ListMessageNeedResponse, COB-IDs, state and error codes)"""
from ._util import z, zlist, HEADER
OUTPUT = "LssTables.v"

CS_NAMES = [
    "CS_SWITCH_STATE_GLOBAL", "CS_CONFIGURE_NODE_ID", "CS_CONFIGURE_BIT_TIMING", "CS_ACTIVATE_BIT_TIMING",
    "CS_STORE_CONFIGURATION", "CS_SWITCH_STATE_SELECTIVE_VENDOR_ID", "CS_SWITCH_STATE_SELECTIVE_PRODUCT_CODE",
    "CS_SWITCH_STATE_SELECTIVE_REVISION_NUMBER", "CS_SWITCH_STATE_SELECTIVE_SERIAL_NUMBER",
    "CS_SWITCH_STATE_SELECTIVE_RESPONSE", "CS_IDENTIFY_REMOTE_SLAVE_VENDOR_ID",
    "CS_IDENTIFY_REMOTE_SLAVE_PRODUCT_CODE", "CS_IDENTIFY_REMOTE_SLAVE_REVISION_NUMBER_LOW",
    "CS_IDENTIFY_REMOTE_SLAVE_REVISION_NUMBER_HIGH", "CS_IDENTIFY_REMOTE_SLAVE_SERIAL_NUMBER_LOW",
    "CS_IDENTIFY_REMOTE_SLAVE_SERIAL_NUMBER_HIGH", "CS_IDENTIFY_NON_CONFIGURED_REMOTE_SLAVE",
    "CS_IDENTIFY_SLAVE", "CS_IDENTIFY_NON_CONFIGURED_SLAVE", "CS_FAST_SCAN",
    "CS_INQUIRE_VENDOR_ID", "CS_INQUIRE_PRODUCT_CODE", "CS_INQUIRE_REVISION_NUMBER",
    "CS_INQUIRE_SERIAL_NUMBER", "CS_INQUIRE_NODE_ID",
]
ERR_NAMES = ["ERROR_NONE", "ERROR_INADMISSIBLE", "ERROR_STORE_NONE", "ERROR_STORE_NOT_SUPPORTED",
             "ERROR_STORE_ACCESS_PROBLEM", "ERROR_VENDOR_SPECIFIC"]
MASTER_NAMES = ["LSS_TX_COBID", "LSS_RX_COBID", "WAITING_STATE", "CONFIGURATION_STATE"]


def generate():
    import canopen.lss as L
    out = [HEADER, "(* lss.py: command specifiers *)"]
    for n in CS_NAMES:
        out.append(f"Definition {n} : Z := {z(getattr(L, n))}.")
    # every CS_* name of the module must be known here (fail closed on additions)
    unknown = sorted(n for n in dir(L) if n.startswith("CS_") and n not in CS_NAMES)
    if unknown:
        raise ValueError(f"unknown command specifier names in lss.py: {unknown}")
    out.append("(* lss.py: error codes *)")
    for n in ERR_NAMES:
        out.append(f"Definition {n} : Z := {z(getattr(L, n))}.")
    lst = L.ListMessageNeedResponse
    if not isinstance(lst, (list, tuple)):
        raise TypeError(f"ListMessageNeedResponse is {type(lst).__name__}")
    out.append(f"Definition ListMessageNeedResponse : list Z := {zlist(list(lst))}.")
    out.append("(* lss.py: class LssMaster *)")
    for n in MASTER_NAMES:
        out.append(f"Definition {n} : Z := {z(getattr(L.LssMaster, n))}.")
    return "\n".join(out) + "\n"
