"""sdo/constants.py, sdo/exceptions.py  ->  Gen/SdoTables.v"""
import struct
from ._util import z, zlist, cstr, HEADER
OUTPUT = "SdoTables.v"

def generate():
    from canopen.sdo import constants as c
    from canopen.sdo.exceptions import SdoAbortedError
    out = [HEADER, "(* sdo/constants.py *)"]
    names = ["REQUEST_SEGMENT_DOWNLOAD", "REQUEST_DOWNLOAD", "REQUEST_UPLOAD", "REQUEST_SEGMENT_UPLOAD",
             "REQUEST_ABORTED", "REQUEST_BLOCK_UPLOAD", "REQUEST_BLOCK_DOWNLOAD",
             "RESPONSE_SEGMENT_UPLOAD", "RESPONSE_SEGMENT_DOWNLOAD", "RESPONSE_UPLOAD", "RESPONSE_DOWNLOAD",
             "RESPONSE_ABORTED", "RESPONSE_BLOCK_DOWNLOAD", "RESPONSE_BLOCK_UPLOAD",
             "INITIATE_BLOCK_TRANSFER", "END_BLOCK_TRANSFER", "BLOCK_TRANSFER_RESPONSE", "START_BLOCK_UPLOAD",
             "EXPEDITED", "SIZE_SPECIFIED", "BLOCK_SIZE_SPECIFIED", "CRC_SUPPORTED", "NO_MORE_DATA",
             "NO_MORE_BLOCKS", "TOGGLE_BIT"]
    for n in names:
        out.append(f"Definition {n} : Z := {z(getattr(c, n))}.")
    if c.SDO_STRUCT.format != "<BHB": raise ValueError(c.SDO_STRUCT.format)
    out.append('Definition SDO_STRUCT_format : string := "<BHB".')
    out.append("(* sdo/exceptions.py: SdoAbortedError.CODES keys *)")
    out.append(f"Definition ABORT_CODES : list Z := {zlist(sorted(SdoAbortedError.CODES))}.")
    return "\n".join(out) + "\n"
