"""C10: functions translated from the source text  ->  Gen/SrcC10.v"""
from ._src import generate_for, DT
OUTPUT = "SrcC10.v"

SPECS = [
    dict(module="canopen.network", qualname="NodeScanner.on_message_received", name="src_scanner_step",
         params=[("SERVICES", "list Z"), ("nodes", "list Z"), ("can_id", "Z")], ret="list Z",
         attrs={"self.nodes": "nodes", "self.SERVICES": "SERVICES"}, fallthrough="nodes"),
]


def generate():
    return generate_for(SPECS)
