"""Pure decision logic translated from the source with tools/py2coq.py  ->  Gen/Src.v"""
import os, sys
sys.path.insert(0, os.path.dirname(os.path.dirname(os.path.abspath(__file__))))
import py2coq
OUTPUT = "Src.v"

DT = ["INTEGER8", "INTEGER16", "INTEGER24", "INTEGER32", "INTEGER40", "INTEGER48", "INTEGER56", "INTEGER64"]

SPECS = [
    dict(module="canopen.objectdictionary", qualname="ODVariable.decode_bits", name="src_decode_bits",
         params=[("value", "Z"), ("bits", "list Z")], ret="Z",
         ignore_try=["bits = self.bit_definitions[bits]"]),
    dict(module="canopen.objectdictionary", qualname="ODVariable.encode_bits", name="src_encode_bits",
         params=[("original_value", "Z"), ("bits", "list Z"), ("bit_value", "Z")], ret="Z",
         ignore_try=["bits = self.bit_definitions[bits]"]),
    dict(module="canopen.network", qualname="NodeScanner.on_message_received", name="src_scanner_step",
         params=[("SERVICES", "list Z"), ("nodes", "list Z"), ("can_id", "Z")], ret="list Z",
         attrs={"self.nodes": "nodes", "self.SERVICES": "SERVICES"}, fallthrough="nodes"),
    dict(module="canopen.objectdictionary.eds", qualname="_signed_int_from_hex", name="src_signed_int_from_hex",
         params=[("number0", "Z"), ("bit_length", "Z")], ret="Z", calls={"int(hex_str, 0)": "number0"}),
    dict(module="canopen.objectdictionary.eds", qualname="_calc_bit_length", name="src_calc_bit_length",
         params=[("data_type", "Z")], ret="option Z", return_wrap="Some", raise_value="None",
         attrs={f"datatypes.{n}": f"dt_{n}" for n in DT}),
    dict(module="canopen.profiles.p402", qualname="BaseNode402.state", name="src_p402_state",
         params=[("SW_MASK", "list (string * (Z * Z))"), ("statusword0", "Z")], ret="string",
         attrs={"self.statusword": "statusword0", "State402.SW_MASK.items()": "SW_MASK"}),
    dict(module="canopen.pdo.base", qualname="PdoVariable.get_data", name="src_pdo_get_data",
         params=[("frame", "list Z"), ("signed0", "bool"), ("od_bytes", "Z"), ("offset", "Z"), ("length", "Z")],
         ret="res (list Z)",
         attrs={"self.offset": "offset", "self.length": "length"},
         calls={"self.od.data_type in objectdictionary.SIGNED_TYPES": "signed0",
                "int.from_bytes(self.pdo_parent.data, 'little')": "(le_decode frame)",
                "data.to_bytes(len(self.od) // 8, 'little', signed=signed)": "(py_to_bytes od_bytes signed data)",
                "self.pdo_parent.data[byte_offset:byte_offset + len(self.od) // 8]":
                    "(Ok (py_slice frame byte_offset (Z.add byte_offset od_bytes)))"},
         bools=["signed"]),
    dict(module="canopen.pdo.base", qualname="PdoVariable.set_data", name="src_pdo_set_data",
         params=[("frame", "list Z"), ("offset", "Z"), ("length", "Z"), ("data", "list Z")],
         ret="res (list Z)", fallthrough="frame_out",
         attrs={"self.offset": "offset", "self.length": "length"},
         calls={"int.from_bytes(data, 'little')": "(le_decode data)",
                "int.from_bytes(self.pdo_parent.data, 'little')": "(le_decode frame)"},
         stmts={"self.pdo_parent.data[:] = msg_data.to_bytes(len(self.pdo_parent.data), 'little')":
                    "let frame_out := py_to_bytes (zlen frame) false msg_data",
                "self.pdo_parent.data[byte_offset:byte_offset + len(data)] = data":
                    "let frame_out := Ok (py_splice frame byte_offset data)"},
         skip_stmts=["self.pdo_parent.update()"]),
    # NmtMaster.on_heartbeat: the new (_state, _state_received) as functions of the first data byte
    dict(module="canopen.nmt", qualname="NmtMaster.on_heartbeat", name="src_nmt_heartbeat",
         params=[("byte0", "Z")], ret="(Z * Z)", fallthrough="(state_, state_received_)",
         attrs={"self._state": "state_", "self._state_received": "state_received_", "self.timestamp": "timestamp_"},
         stmts={"new_state, = struct.unpack_from('B', data)": "let new_state := byte0",
                "self.timestamp = timestamp": "let timestamp_ := 0"},
         skip_stmts=["for callback in self._callbacks:\n    callback(new_state)", "self.state_update.notify_all()"]),
    # EmcyConsumer.on_emcy: is this an error-reset frame?  (the branch taken for self.active)
    dict(module="canopen.emcy", qualname="EmcyConsumer.on_emcy", name="src_emcy_is_reset",
         params=[("code", "Z")], ret="bool", fallthrough="is_reset_",
         stmts={"code, register, data = EMCY_STRUCT.unpack(data)": "let register := 0",
                "entry = EmcyError(code, register, data, timestamp)": "let entry := 0",
                "self.active = []": "let is_reset_ := true",
                "self.active.append(entry)": "let is_reset_ := false",
                "self.log.append(entry)": "let logged_ := true"},
         skip_stmts=["self.emcy_received.notify_all()", "for callback in self.callbacks:\n    callback(entry)"]),
    # SdoServer.segmented_upload: response command byte and next toggle from (request command, toggle, bytes left)
    dict(module="canopen.sdo.server", qualname="SdoServer.segmented_upload", name="src_server_segmented_upload",
         params=[("command", "Z"), ("toggle_", "Z"), ("buflen_", "Z")], ret="option (Z * Z)",
         raise_value="None", fallthrough="Some (res_command, toggle_)",
         attrs={"self._toggle": "toggle_"},
         calls={"not self._buffer": "(Z.eqb buflen_ 0)"},
         stmts={"data = self._buffer[:7]": "let data := 0",
                "size = len(data)": "let size := Z.min buflen_ 7",
                "del self._buffer[:7]": "let buflen_ := Z.max 0 (Z.sub buflen_ 7)",
                "response = bytearray(8)": "let response := 0"},
         skip_stmts=["response[0] = res_command", "response[1:1 + size] = data", "self.send_response(response)"]),
    # IntegerN.pack / UnsignedN.pack: the range test that decides between struct.error and the sliced bytes
    dict(module="canopen.objectdictionary.datatypes", qualname="IntegerN.pack", name="src_integerN_accepts",
         params=[("v0", "Z"), ("width", "Z")], ret="bool", raise_value="false",
         attrs={"self.width": "width"}, calls={"v[0]": "v0"},
         stmts={"data = super().pack(*v)": "let data := 0"}, returns={"data[:self.size]": "true"}),
    dict(module="canopen.objectdictionary.datatypes", qualname="UnsignedN.pack", name="src_unsignedN_accepts",
         params=[("v0", "Z"), ("width", "Z")], ret="bool", raise_value="false",
         attrs={"self.width": "width"}, calls={"v[0]": "v0"},
         stmts={"data = super().pack(*v)": "let data := 0"}, returns={"data[:self.size]": "true"}),
]


def generate():
    out = ["(* GENERATED by tools/gen_tables.py (tools/tables/src.py, tools/py2coq.py) from the source text of /repo -- do not edit. *)",
           "From Coq Require Import ZArith List Bool String.",
           "From CV Require Import Base.Val Base.Bytes Base.Tys Base.PyLib Gen.Tables Gen.SdoTables.",
           "Import ListNotations.", "Open Scope Z_scope.", ""]
    for spec in SPECS:
        out.append(py2coq.translate(spec))
    return "\n".join(out) + "\n"
