"""C20: functions translated from the source text  ->  Gen/SrcC20.v"""
from ._src import generate_for, DT
OUTPUT = "SrcC20.v"

SPECS = [
    dict(module="canopen.objectdictionary", qualname="ODVariable.decode_bits", name="src_decode_bits",
         params=[("value", "Z"), ("bits", "list Z")], ret="Z",
         ignore_try=["bits = self.bit_definitions[bits]"]),
    dict(module="canopen.objectdictionary", qualname="ODVariable.encode_bits", name="src_encode_bits",
         params=[("original_value", "Z"), ("bits", "list Z"), ("bit_value", "Z")], ret="Z",
         ignore_try=["bits = self.bit_definitions[bits]"]),
]


def generate():
    return generate_for(SPECS)
