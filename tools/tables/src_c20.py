"""C20: functions translated from the source text  ->  Gen/SrcC20.v"""
from ._src import generate_for, DT
OUTPUT = "SrcC20.v"

SPECS = [
    dict(module="canopen.objectdictionary", qualname="ODVariable.decode_bits", name="src_decode_bits",
         params=[("value", "Z"), ("bits", "list Z")], ret="Z",
         ignore_try=["bits = self.bit_definitions[bits]"]),
    dict(module="canopen.objectdictionary", qualname="ODVariable.encode_bits", name="src_encode_bits",
         params=[("original_value", "Z"), ("bits", "list Z"), ("bit_value", "Z")], ret="Z",
         ignore_try=["bits = self.bit_definitions[bits]"]),
    # Variable.read / Variable.write: only the dispatch on fmt ("raw" = 0, "phys" = 1, "desc" = 2, other = 3);
    # the result is the property the method goes through (1 = raw, 2 = phys, 3 = desc, 0 = none).
    # Any other statement in these methods (e.g. a conversion done in place) does not translate.
    dict(module="canopen.variable", qualname="Variable.read", name="src_read_route",
         params=[("fmt", "Z")], ret="Z", fallthrough="0",
         calls={"fmt == 'raw'": "(Z.eqb fmt 0)", "fmt == 'phys'": "(Z.eqb fmt 1)", "fmt == 'desc'": "(Z.eqb fmt 2)"},
         returns={"self.raw": "1", "self.phys": "2", "self.desc": "3"}),
    dict(module="canopen.variable", qualname="Variable.write", name="src_write_route",
         params=[("fmt", "Z"), ("route", "Z")], ret="Z", fallthrough="route",
         calls={"fmt == 'raw'": "(Z.eqb fmt 0)", "fmt == 'phys'": "(Z.eqb fmt 1)", "fmt == 'desc'": "(Z.eqb fmt 2)"},
         stmts={"self.raw = value": "let route := 1", "self.phys = value": "let route := 2",
                "self.desc = value": "let route := 3"}),
]


def generate():
    return generate_for(SPECS)
