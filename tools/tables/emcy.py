"""emcy.py: EMCY_STRUCT format, EmcyError.DESCRIPTIONS  ->  Gen/EmcyTables.v

Fail-closed: the frame layout must be little endian `<HB<n>s` (16-bit code, 8-bit register,
n manufacturer bytes); every DESCRIPTIONS row must be (int, int, printable str)."""
import re
import struct
from ._util import z, cstr, HEADER
OUTPUT = "EmcyTables.v"


def generate():
    from canopen import emcy
    st = emcy.EMCY_STRUCT
    if type(st) is not struct.Struct:
        raise TypeError(f"EMCY_STRUCT is {type(st)!r}")
    fmt = st.format
    m = re.fullmatch(r"<HB(\d+)s", fmt)
    if not m:
        raise ValueError(f"unknown EMCY_STRUCT format {fmt!r}")
    n = int(m.group(1))
    if st.size != 3 + n:
        raise ValueError(f"size {st.size} of {fmt!r}")
    out = [HEADER, "(* emcy.py: EMCY_STRUCT *)",
           f"Definition EMCY_STRUCT_format : string := {cstr(fmt)}.",
           "(* layout derived from the format: little endian, H = 2-byte unsigned code, B = 1-byte unsigned",
           "   register, <n>s = n raw bytes (pack: zero-padded / truncated to n) *)",
           "Definition EMCY_CODE_BYTES : Z := 2.",
           "Definition EMCY_REG_BYTES : Z := 1.",
           f"Definition EMCY_DATA_BYTES : Z := {z(n)}.",
           f"Definition EMCY_SIZE : Z := {z(st.size)}.",
           "(* emcy.py: EmcyError.DESCRIPTIONS, in list order: (code, mask, description) *)"]
    rows = emcy.EmcyError.DESCRIPTIONS
    if not isinstance(rows, (list, tuple)):
        raise TypeError(f"DESCRIPTIONS is {type(rows)!r}")
    lines = []
    for row in rows:
        if not (isinstance(row, tuple) and len(row) == 3):
            raise ValueError(f"unknown DESCRIPTIONS row {row!r}")
        code, mask, desc = row
        lines.append(f"  ({z(code)}, {z(mask)}, {cstr(desc)})")
    out.append("Definition DESCRIPTIONS : list (Z * Z * string) := [")
    out.append(";\n".join(lines))
    out.append("].")
    return "\n".join(out) + "\n"
