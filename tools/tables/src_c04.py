"""C04: functions translated from the source text  ->  Gen/SrcC04.v"""
from ._src import generate_for, DT
OUTPUT = "SrcC04.v"

SPECS = [
    # IntegerN.pack / UnsignedN.pack: the range test that decides between struct.error and the sliced bytes
    dict(module="canopen.objectdictionary.datatypes", qualname="IntegerN.pack", name="src_integerN_accepts",
         params=[("v0", "Z"), ("width", "Z")], ret="bool", raise_value="false",
         attrs={"self.width": "width"}, calls={"v[0]": "v0"},
         stmts={"data = super().pack(*v)": "let data := 0"}, returns={"data[:self.size]": "true"}),
    dict(module="canopen.objectdictionary.datatypes", qualname="UnsignedN.pack", name="src_unsignedN_accepts",
         params=[("v0", "Z"), ("width", "Z")], ret="bool", raise_value="false",
         attrs={"self.width": "width"}, calls={"v[0]": "v0"},
         stmts={"data = super().pack(*v)": "let data := 0"}, returns={"data[:self.size]": "true"}),
]


def generate():
    return generate_for(SPECS)
