"""C14: decision logic of the export side translated from the source text  ->  Gen/SrcC14.v

Translated with tools/py2coq.py (fail-closed).  Three of the functions are NESTED in export_eds (export_common,
export_variable, export_record) and export_od wraps its body in try/finally; they are taken out of the syntax tree
here (the finally clause and the frame around them are checked by their exact text) and handed to py2coq's statement
translator.  Decision skeletons: attributes / tests on Python objects become parameters, every `eds.set(...)` becomes
a flag of the result, every statement that is not translated is mapped by its exact text, so an edit breaks the
translation.

 src_revert_variable value_none var_type value : Z     which text is produced for a value:
     0 = nothing (value None), 1 = bytes.hex(value), 2 = the value as it is (text and REAL types),
     4 = '-0x..' of -value, 5 = '0x..' of value
 src_export_od is_name ends_dcf ends_eds doc_type : res (option bool)
     doc_type coded 0 = None, 1 = 'eds', 2 = 'dcf', 3 = another non-empty string, 4 = '';
     Ok (Some dcf) = export_dcf / export_eds is called, Ok None = nothing is written, Err E_VALUE = ValueError
 src_export_common has_storage : (bool * bool)           (ParameterName written, StorageLocation written)
 src_var_head / _type / _default / _value / _fixed / _limits / _text : the keys written for one variable, in the
     order of the statements of export_variable (mode 0 = key not written, 1 = the original text, 2 = _revert_variable)
 src_export_record is_record nsubs : (Z * Z * bool)      (ObjectType code, SubNumber, members exported)
"""
import ast, inspect, textwrap, os, sys
sys.path.insert(0, os.path.dirname(os.path.dirname(os.path.abspath(__file__))))
import py2coq
OUTPUT = "SrcC14.v"

M = "canopen.objectdictionary.eds"

REVERT = dict(
    module=M, qualname="_revert_variable", name="src_revert_variable",
    params=[("value_none", "bool"), ("var_type", "Z"), ("value", "Z")], ret="Z",
    attrs={"datatypes.FLOAT_TYPES": "FLOAT_TYPES"},
    calls={"value is None": "value_none",
           "var_type in (datatypes.OCTET_STRING, datatypes.DOMAIN)":
               "(orb (Z.eqb var_type dt_OCTET_STRING) (Z.eqb var_type dt_DOMAIN))",
           "var_type in (datatypes.VISIBLE_STRING, datatypes.UNICODE_STRING)":
               "(orb (Z.eqb var_type dt_VISIBLE_STRING) (Z.eqb var_type dt_UNICODE_STRING))"},
    returns={"None": "0", "bytes.hex(value)": "1", "value": "2", "f'-0x{-value:02X}'": "4", "f'0x{value:02X}'": "5"})

# export_variable is translated in seven consecutive pieces (the translator copies the rest of a function into both
# branches of every `if`, 13 independent tests in a row would give 2^13 copies); generate() checks that the pieces
# are exactly the 14 statements of the body, in order.
VAR_CALLS = {"isinstance(var.parent, ObjectDictionary)": "is_top",
             "var.data_type": "(negb (Z.eqb dt 0))", "var.access_type": "has_access",
             "getattr(var, 'default_raw', None) is not None": "has_draw",
             "getattr(var, 'default', None) is not None": "has_default",
             "getattr(var, 'value_raw', None) is not None": "has_vraw",
             "getattr(var, 'value', None) is not None": "has_value",
             "getattr(var, 'min', None) is not None": "has_min",
             "getattr(var, 'max', None) is not None": "has_max",
             "getattr(var, 'description', '') != ''": "has_descr",
             "getattr(var, 'factor', 1) != 1": "factor_not1",
             "getattr(var, 'unit', '') != ''": "has_unit"}
VAR_STMTS = {"section = f'{var.index:04X}'": "let top_ := true",
             "section = f'{var.index:04X}sub{var.subindex:X}'": "let top_ := false",
             "export_common(var, eds, section)": "let named_ := true",
             "eds.set(section, 'ObjectType', f'0x{VAR:X}')": "let w_ot_ := OT_VAR",
             "eds.set(section, 'DataType', f'0x{var.data_type:04X}')": "let w_dt_ := true",
             "eds.set(section, 'AccessType', var.access_type)": "let w_acc_ := true",
             "eds.set(section, 'DefaultValue', var.default_raw)": "let mode_ := 1",
             "eds.set(section, 'DefaultValue', _revert_variable(var.data_type, var.default))": "let mode_ := 2",
             "eds.set(section, 'ParameterValue', var.value_raw)": "let mode_ := 1",
             "eds.set(section, 'ParameterValue', _revert_variable(var.data_type, var.value))": "let mode_ := 2",
             "eds.set(section, 'PDOMapping', hex(var.pdo_mappable))": "let w_pdo_ := true",
             "eds.set(section, 'LowLimit', var.min)": "let w_low_ := true",
             "eds.set(section, 'HighLimit', var.max)": "let w_high_ := true",
             "eds.set(section, 'Description', var.description)": "let w_descr_ := true",
             "eds.set(section, 'Factor', var.factor)": "let w_factor_ := true",
             "eds.set(section, 'Unit', var.unit)": "let w_unit_ := true"}


def piece(name, params, ret, fall):
    return dict(name=name, params=params, ret=ret, fallthrough=fall, bools=["device_commisioning"],
                calls=VAR_CALLS, stmts=VAR_STMTS)


# (slice of the body, spec)
VAR_PIECES = [
    ((0, 3), piece("src_var_head", [("is_top", "bool"), ("top_", "bool"), ("named_", "bool"), ("w_ot_", "Z")],
                   "(bool * bool * Z)", "(top_, named_, w_ot_)")),
    ((3, 5), piece("src_var_type", [("dt", "Z"), ("has_access", "bool"), ("w_dt_", "bool"), ("w_acc_", "bool")],
                   "(bool * bool)", "(w_dt_, w_acc_)")),
    ((5, 6), piece("src_var_default", [("has_draw", "bool"), ("has_default", "bool"), ("mode_", "Z")], "Z", "mode_")),
    ((6, 7), piece("src_var_value", [("device_commisioning", "bool"), ("has_vraw", "bool"), ("has_value", "bool"), ("mode_", "Z")],
                   "Z", "mode_")),
    ((7, 9), piece("src_var_fixed", [("w_dt_", "bool"), ("w_pdo_", "bool")], "(bool * bool)", "(w_dt_, w_pdo_)")),
    ((9, 11), piece("src_var_limits", [("has_min", "bool"), ("has_max", "bool"), ("w_low_", "bool"), ("w_high_", "bool")],
                    "(bool * bool)", "(w_low_, w_high_)")),
    ((11, 14), piece("src_var_text", [("has_descr", "bool"), ("factor_not1", "bool"), ("has_unit", "bool"),
                                      ("w_descr_", "bool"), ("w_factor_", "bool"), ("w_unit_", "bool")],
                     "(bool * bool * bool)", "(w_descr_, w_factor_, w_unit_)")),
]

EXPORT_COMMON = dict(
    name="src_export_common", params=[("has_storage", "bool"), ("w_name_", "bool"), ("w_sto_", "bool")],
    ret="(bool * bool)", fallthrough="(w_name_, w_sto_)",
    attrs={"var.storage_location": "has_storage"},
    stmts={"eds.add_section(section)": "let section_added_ := true",
           "eds.set(section, 'ParameterName', var.name)": "let w_name_ := true",
           "eds.set(section, 'StorageLocation', var.storage_location)": "let w_sto_ := true"})

EXPORT_RECORD = dict(
    name="src_export_record", params=[("is_record", "bool"), ("nsubs", "Z"), ("ot_", "Z"), ("subnumber_", "Z"), ("members_", "bool")],
    ret="(Z * Z * bool)", fallthrough="(ot_, subnumber_, members_)",
    calls={"isinstance(var, objectdictionary.ODRecord)": "is_record", "RECORD": "OT_RECORD", "ARR": "OT_ARR"},
    stmts={"section = f'{var.index:04X}'": "let top_ := true",
           "export_common(var, eds, section)": "let named_ := true",
           "eds.set(section, 'SubNumber', f'0x{len(var.subindices):X}')": "let subnumber_ := nsubs",
           "eds.set(section, 'ObjectType', f'0x{ot:X}')": "let ot_ := ot",
           "for i in var:\n    export_variable(var[i], eds)": "let members_ := true"})

# doc_type coded as a number: see the module docstring
IS_NONE, IS_EDS, IS_DCF = "(Z.eqb doc_type 0)", "(Z.eqb doc_type 1)", "(Z.eqb doc_type 2)"
EXPORT_OD = dict(
    name="src_export_od", params=[("is_name", "bool"), ("ends_dcf", "bool"), ("ends_eds", "bool"), ("doc_type", "Z")],
    ret="res (option bool)", fallthrough="(Ok None)", raise_value="(Err E_VALUE)",
    calls={"doc_type and doc_type not in supported_doctypes":
               f"(andb (negb (orb {IS_NONE} (Z.eqb doc_type 4))) (negb (orb {IS_EDS} {IS_DCF})))",
           "isinstance(dest, str)": "is_name", "doc_type is None": IS_NONE,
           "doc_type == 'eds'": IS_EDS, "doc_type == 'dcf'": IS_DCF},
    returns={"eds.export_eds(od, dest)": "(Ok (Some false))", "eds.export_dcf(od, dest)": "(Ok (Some true))"},
    skip_stmts=["from canopen.objectdictionary import eds"],
    stmts={"supported_doctypes = {'eds', 'dcf'}": "let supported_ := true",
           "supported = ', '.join(supported_doctypes)": "let message_ := true",
           "opened_here = False": "let opened_here := false",
           # the suffix search over the two supported types, with its for/else default
           "for t in supported_doctypes:\n    if dest.endswith(f'.{t}'):\n        doc_type = t\n        break\nelse:\n    doc_type = 'eds'":
               "let doc_type := (if ends_dcf then 2 else if ends_eds then 1 else 1)",
           "dest = open(dest, 'w')": "let opened_ := true",
           "opened_here = True": "let opened_here := true"})


def nested(outer, name):
    src = textwrap.dedent(inspect.getsource(outer))
    fn = ast.parse(src).body[0]
    found = [n for n in fn.body if isinstance(n, ast.FunctionDef) and n.name == name]
    if len(found) != 1:
        raise py2coq.TranslationError(f"{outer.__name__}: nested function {name} not found")
    return found[0]


def define(spec, stmts, where):
    tr = py2coq.Tr(spec)
    body = tr.block(list(stmts), spec.get("fallthrough", "None"))
    params = " ".join(f"({n} : {t})" for n, t in spec["params"])
    return f"(* {where} *)\nDefinition {spec['name']} {params} : {spec['ret']} :=\n  {body}.\n"


def generate():
    from canopen.objectdictionary import eds
    import canopen.objectdictionary as odm
    out = ["(* GENERATED by tools/gen_tables.py (tools/py2coq.py, tools/tables/src_c14.py) from the source text of /repo -- do not edit. *)",
           "From Coq Require Import ZArith List Bool String.",
           "From CV Require Import Base.Val Base.Bytes Base.Tys Base.PyLib Gen.Tables Gen.EdsTables.",
           "Import ListNotations.", "Open Scope Z_scope.", ""]
    out.append(py2coq.translate(REVERT))
    # the alias `export_array = export_record` must be there: arrays and records share one writer
    top = ast.parse(textwrap.dedent(inspect.getsource(eds.export_eds))).body[0]
    if "export_array = export_record" not in [ast.unparse(s) for s in top.body]:
        raise py2coq.TranslationError("export_eds: `export_array = export_record` not found")
    disp = nested(eds.export_eds, "export_object")
    want = ("if isinstance(obj, objectdictionary.ODVariable):\n    return export_variable(obj, eds)\n"
            "if isinstance(obj, objectdictionary.ODRecord):\n    return export_record(obj, eds)\n"
            "if isinstance(obj, objectdictionary.ODArray):\n    return export_array(obj, eds)")
    if "\n".join(ast.unparse(s) for s in disp.body) != want:
        raise py2coq.TranslationError("export_eds.export_object: dispatch on the object class changed")
    out.append(define(EXPORT_COMMON, nested(eds.export_eds, "export_common").body, M + ".export_eds.export_common"))
    vbody = nested(eds.export_eds, "export_variable").body
    if len(vbody) != 14:
        raise py2coq.TranslationError(f"export_eds.export_variable has {len(vbody)} statements, the pieces cover 14")
    for (lo, hi), spec in VAR_PIECES:
        out.append(define(spec, vbody[lo:hi], M + f".export_eds.export_variable, statements {lo}..{hi - 1}"))
    out.append(define(EXPORT_RECORD, nested(eds.export_eds, "export_record").body, M + ".export_eds.export_record"))
    # export_dcf = export_eds with device_commisioning = True
    dcf = ast.parse(textwrap.dedent(inspect.getsource(eds.export_dcf))).body[0]
    if [ast.unparse(s) for s in dcf.body] != ["return export_eds(od, dest, fileInfo, True)"]:
        raise py2coq.TranslationError("export_dcf is no longer export_eds(..., True)")
    # export_od: body = frame ; try: <decisions> finally: close
    fn = ast.parse(textwrap.dedent(inspect.getsource(odm.export_od))).body[0]
    body = [s for s in fn.body if not (isinstance(s, ast.Expr) and isinstance(s.value, ast.Constant))]
    tr_ = body[-1]
    if not (isinstance(tr_, ast.Try) and not tr_.handlers and not tr_.orelse and
            [ast.unparse(s) for s in tr_.finalbody] == ["if opened_here:\n    dest.close()"]):
        raise py2coq.TranslationError("export_od: try / finally frame changed")
    out.append(define(EXPORT_OD, body[:-1] + list(tr_.body), "canopen.objectdictionary.export_od"))
    return "\n".join(out) + "\n"
