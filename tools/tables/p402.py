"""profiles/p402.py (State402, OperationMode)  ->  Gen/P402Tables.v

Fail-closed: every table entry must have exactly the expected Python shape.  Dict order is kept
(the code iterates SW_MASK and NEXTSTATE2ANY in dict order and returns on the first match).
For NEXTSTATE2ANY the kind of each key is recorded: `_from in cond` is a SUBSTRING test when
`cond` is a str (the source writes ('START'), which is a str, not a tuple) and a MEMBERSHIP test
when it is a tuple.
"""
from ._util import z, cstr, HEADER
OUTPUT = "P402Tables.v"


def _int(n):
    if isinstance(n, bool) or not isinstance(n, int):
        raise TypeError(f"not an int: {n!r}")
    return z(n)


def _strlist(t):
    return "[" + "; ".join(cstr(s) for s in t) + "]"


def generate():
    from canopen.profiles import p402
    S, M = p402.State402, p402.OperationMode
    out = [HEADER, "(* canopen/profiles/p402.py : State402 *)",
           "Inductive n2a_key := KStr (s : string) | KTuple (l : list string)."]
    for n in ["CW_OPERATION_ENABLED", "CW_SHUTDOWN", "CW_SWITCH_ON", "CW_QUICK_STOP", "CW_DISABLE_VOLTAGE",
              "CW_SWITCH_ON_DISABLED"]:
        out.append(f"Definition {n} : Z := {_int(getattr(S, n))}.")

    if not isinstance(S.SW_MASK, dict): raise TypeError("SW_MASK")
    rows = []
    for k, v in S.SW_MASK.items():
        if not (isinstance(v, tuple) and len(v) == 2): raise TypeError(f"SW_MASK[{k!r}] = {v!r}")
        rows.append(f"  ({cstr(k)}, ({_int(v[0])}, {_int(v[1])}))")
    out.append("Definition SW_MASK : list (string * (Z * Z)) := [\n" + ";\n".join(rows) + "\n].")

    if not isinstance(S.NEXTSTATE2ANY, dict): raise TypeError("NEXTSTATE2ANY")
    rows = []
    for k, v in S.NEXTSTATE2ANY.items():
        if type(k) is str:
            key = f"KStr {cstr(k)}"
        elif type(k) is tuple and all(type(x) is str for x in k):
            key = f"KTuple {_strlist(k)}"
        else:
            raise TypeError(f"NEXTSTATE2ANY key {k!r}")
        rows.append(f"  ({key}, {cstr(v)})")
    out.append("Definition NEXTSTATE2ANY : list (n2a_key * string) := [\n" + ";\n".join(rows) + "\n].")

    if not isinstance(S.TRANSITIONTABLE, dict): raise TypeError("TRANSITIONTABLE")
    rows = []
    for k, v in S.TRANSITIONTABLE.items():
        if not (type(k) is tuple and len(k) == 2): raise TypeError(f"TRANSITIONTABLE key {k!r}")
        rows.append(f"  (({cstr(k[0])}, {cstr(k[1])}), {_int(v)})")
    out.append("Definition TRANSITIONTABLE : list ((string * string) * Z) := [\n" + ";\n".join(rows) + "\n].")

    out.append("(* canopen/profiles/p402.py : OperationMode *)")
    for nm, d, kf, vf, ty in (("OM_CODE2NAME", M.CODE2NAME, _int, cstr, "Z * string"),
                              ("OM_NAME2CODE", M.NAME2CODE, cstr, _int, "string * Z"),
                              ("OM_SUPPORTED", M.SUPPORTED, cstr, _int, "string * Z")):
        if not isinstance(d, dict): raise TypeError(nm)
        rows = [f"  ({kf(k)}, {vf(v)})" for k, v in d.items()]
        out.append(f"Definition {nm} : list ({ty}) := [\n" + ";\n".join(rows) + "\n].")
    return "\n".join(out) + "\n"
