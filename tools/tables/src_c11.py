"""C11: functions translated from the source text  ->  Gen/SrcC11.v"""
from ._src import generate_for, DT
OUTPUT = "SrcC11.v"

SPECS = [
    # NmtMaster.on_heartbeat: the new (_state, _state_received) as functions of the first data byte
    dict(module="canopen.nmt", qualname="NmtMaster.on_heartbeat", name="src_nmt_heartbeat",
         params=[("byte0", "Z")], ret="(Z * Z)", fallthrough="(state_, state_received_)",
         attrs={"self._state": "state_", "self._state_received": "state_received_", "self.timestamp": "timestamp_"},
         stmts={"new_state, = struct.unpack_from('B', data)": "let new_state := byte0",
                "self.timestamp = timestamp": "let timestamp_ := 0"},
         skip_stmts=["for callback in self._callbacks:\n    callback(new_state)", "self.state_update.notify_all()"]),
]


def generate():
    return generate_for(SPECS)
