"""C09: functions translated from the source text  ->  Gen/SrcC09.v

PdoMap.save and PdoMap.read (canopen/pdo/base.py), pure decision / encoding logic only:
  src_save_values   every value save() writes, translated expression by expression (COB-ID word first and last,
                    parameters, mapping word of each entry incl. the running sub-index), order-agnostic
  src_save_trace    the ORDER skeleton of save(): each write statement appends (index, sub, value) to a trace;
                    early return when cob_id is None; subscribe() call
  src_read_decode   read(): decoding of the COB-ID word, transmission type, which optional sub-entries are read
                    (the three try blocks are parameters: value after the attempt), subscribe() call
  src_read_entry    the body of read()'s entry loop as a function of the uploaded word: decoded
                    (index, subindex, size) and whether add_variable is called
  src_raw_from      the nested helper _raw_from of read(): DCF value, else default, else SDO
Statements outside the translator's subset (try blocks, the bare return, the nested def, the loop of read()) are
mapped by their FULL source text (`stmts`), so any edit of them makes the translation fail (fail-closed)."""
import ast

from ._src import py2coq
OUTPUT = "SrcC09.v"

M = "canopen.pdo.base"
CURTIS = "getattr(self.pdo_node.node, 'curtis_hack', False)"
FIRST_STMT = ("self.com_record[1].raw = self.cob_id | PDO_NOT_VALID | "
              "(RTR_NOT_ALLOWED if not self.rtr_allowed else 0)")
EARLY = ("if self.cob_id is None:\n    logger.info('Skip saving %s: COB-ID was never set', self.com_record.od.name)\n"
         "    return")
TRY_ZERO = ("try:\n    self.map_array[0].raw = 0\nexcept SdoAbortedError:\n"
            "    self._fill_map(self.map_array[0].raw)")
TRY_COUNT = ("try:\n    self.map_array[0].raw = len(self.map)\nexcept SdoAbortedError as e:\n"
             "    if e.code != 100728834:\n        raise")
ENTRY = "self.map_array[subindex].raw = var.index << 16 | var.subindex << 8 | var.length"
ENTRY_CURTIS = "self.map_array[subindex].raw = var.index | var.subindex << 16 | var.length << 24"
HAS = {"self.trans_type is not None": "tt_has", "self.inhibit_time is not None": "inh_has",
       "self.event_timer is not None": "ev_has", "self.sync_start_value is not None": "sy_has", CURTIS: "curtis"}
ATTRS = {"self.cob_id": "cob", "self.rtr_allowed": "rtr_allowed", "self.enabled": "enabled", "self.trans_type": "tt",
         "self.inhibit_time": "inh", "self.event_timer": "ev", "self.sync_start_value": "sy", "self.map": "map_"}
CFG_PARAMS = [("cob", "Z"), ("rtr_allowed", "bool"), ("enabled", "bool"), ("tt_has", "bool"), ("tt", "Z"),
              ("inh_has", "bool"), ("inh", "Z"), ("ev_has", "bool"), ("ev", "Z"), ("sy_has", "bool"), ("sy", "Z"),
              ("curtis", "bool"), ("map_", "list (Z * Z * Z)")]
VALS = "(w1_, w2_, w3_, w5_, w6_, we_, {sub}, wl_)"

RAW_FROM = ("def _raw_from(param):\n    if from_od:\n        if param.od.value is not None:\n"
            "            return param.od.value\n        else:\n            return param.od.default\n    return param.raw")


def _try(attr, sub, what, unit):
    return (f"try:\n    self.{attr} = _raw_from(self.com_record[{sub}])\nexcept (KeyError, SdoAbortedError) as e:\n"
            f"    logger.info('Could not read {what} (%s)', e)\nelse:\n"
            f"    logger.info('{what[0].upper() + what[1:]} is set to %d ms', self.{attr})")


TRY3 = _try("inhibit_time", 3, "inhibit time", "ms")
TRY5 = _try("event_timer", 5, "event timer", "ms")
TRY6 = _try("sync_start_value", 6, "SYNC start value", "ms")
READ_LOOP_ITER = "range(1, nof_entries + 1)"
READ_LOOP_BODY = ["value = _raw_from(self.map_array[subindex])", "index = value >> 16", "subindex = value >> 8 & 255",
                  "size = value & 127",
                  f"if {CURTIS}:\n    index = value & 65535\n    subindex = value >> 16 & 255\n    size = value >> 24 & 127",
                  "if index and size:\n    self.add_variable(index, subindex, size)"]
READ_LOOP = f"for subindex in {READ_LOOP_ITER}:\n" + "\n".join("    " + l for s in READ_LOOP_BODY for l in s.split("\n"))

SPECS = [
    dict(module=M, qualname="PdoMap.save", name="src_save_values",
         params=[("cob_none", "bool")] + CFG_PARAMS + [(n, "Z") for n in ("w1_", "w2_", "w3_", "w5_", "w6_", "we_", "wl_")],
         ret="(Z * Z * Z * Z * Z * Z * Z * Z)", fallthrough=VALS.format(sub="subindex"),
         attrs=dict(ATTRS, **{"self.com_record[1].raw": "w1_", "self.com_record[2].raw": "w2_",
                              "self.com_record[3].raw": "w3_", "self.com_record[5].raw": "w5_",
                              "self.com_record[6].raw": "w6_", "self.map_array[subindex].raw": "we_",
                              "var.index": "(fst (fst var))", "var.subindex": "(snd (fst var))", "var.length": "(snd var)"}),
         calls=HAS, skip_calls=["self.subscribe", "self._update_data_size"],
         stmts={EARLY: "if cob_none then " + VALS.format(sub="0") + " else let skip_ := 0",
                TRY_ZERO: "let skip_ := 0", TRY_COUNT: "let skip_ := 0",
                "self.com_record[1].raw = cob_id": "let wl_ := cob_id"}),
    dict(module=M, qualname="PdoMap.save", name="src_save_trace",
         params=[("cob_none", "bool"), ("com", "Z"), ("mp", "Z"), ("first_", "Z")] + CFG_PARAMS +
                [("word_", "Z * Z * Z -> Z"), ("cword_", "Z * Z * Z -> Z"), ("tr_", "list (Z * Z * Z)"), ("sub_", "bool")],
         ret="(list (Z * Z * Z) * bool)", fallthrough="(tr_, sub_)",
         attrs=dict(ATTRS, **{"self.map_array[subindex].raw": "tr_"}),
         calls=HAS, skip_calls=["self._update_data_size"],
         stmts={EARLY: "if cob_none then (tr_, sub_) else let skip_ := 0",
                FIRST_STMT: "let tr_ := app tr_ [(com, 1, first_)]",
                "self.com_record[2].raw = self.trans_type": "let tr_ := app tr_ [(com, 2, tt)]",
                "self.com_record[3].raw = self.inhibit_time": "let tr_ := app tr_ [(com, 3, inh)]",
                "self.com_record[5].raw = self.event_timer": "let tr_ := app tr_ [(com, 5, ev)]",
                "self.com_record[6].raw = self.sync_start_value": "let tr_ := app tr_ [(com, 6, sy)]",
                TRY_ZERO: "let tr_ := app tr_ [(mp, 0, 0)]",
                ENTRY: "let tr_ := app tr_ [(mp, subindex, word_ var)]",
                ENTRY_CURTIS: "let tr_ := app tr_ [(mp, subindex, cword_ var)]",
                TRY_COUNT: "let tr_ := app tr_ [(mp, 0, Z.of_nat (List.length map_))]",
                "self.com_record[1].raw = cob_id": "let tr_ := app tr_ [(com, 1, cob_id)]",
                "self.subscribe()": "let sub_ := true"}),
    dict(module=M, qualname="PdoMap.read", name="src_read_decode",
         params=[("raw1", "Z"), ("raw2", "Z"), ("rawn", "Z"), ("opt3", "option Z"), ("opt5", "option Z"),
                 ("opt6", "option Z"), ("inh_", "option Z"), ("ev_", "option Z"), ("sy_", "option Z"), ("sub_", "bool")],
         ret="(Z * bool * bool * Z * option Z * option Z * option Z * bool)",
         fallthrough="(cob_, en_, rtr_, tt_, inh_, ev_, sy_, sub_)",
         attrs={"self.cob_id": "cob_", "self.enabled": "en_", "self.rtr_allowed": "rtr_", "self.trans_type": "tt_"},
         calls={"_raw_from(self.com_record[1])": "raw1", "_raw_from(self.com_record[2])": "raw2",
                "_raw_from(self.map_array[0])": "rawn"},
         skip_calls=["self.clear"],
         stmts={RAW_FROM: "let skip_ := 0", TRY3: "let inh_ := opt3", TRY5: "let ev_ := opt5", TRY6: "let sy_ := opt6",
                READ_LOOP: "let looped_ := true", "self.subscribe()": "let sub_ := true"}),
]

# the body of read()'s entry loop, as a function of the uploaded word
ENTRY_SPEC = dict(name="src_read_entry", params=[("word", "Z"), ("curtis", "bool"), ("add_", "option (Z * Z * Z)")],
                  ret="option (Z * Z * Z)", fallthrough="add_",
                  calls={"_raw_from(self.map_array[subindex])": "word", CURTIS: "curtis"},
                  stmts={"self.add_variable(index, subindex, size)": "let add_ := Some (index, subindex, size)"})
# the nested helper of read()
RAW_SPEC = dict(name="src_raw_from", params=[("from_od", "bool"), ("val", "option Z"), ("dflt", "option Z"), ("raw", "option Z")],
                ret="option Z", fallthrough="None",
                attrs={"param.od.value": "val", "param.od.default": "dflt", "param.raw": "raw"},
                calls={"param.od.value is not None": "(match val with Some _ => true | None => false end)"})


def _define(spec, stmts, origin):
    tr = py2coq.Tr(spec)
    body = tr.block(list(stmts), spec["fallthrough"])
    params = " ".join(f"({n} : {t})" for n, t in spec["params"])
    return f"(* {origin} *)\nDefinition {spec['name']} {params} : {spec['ret']} :=\n  {body}.\n"


def _read_parts():
    fn = py2coq.get_function(M, "PdoMap.read")
    loops = [s for s in fn.body if isinstance(s, ast.For)]
    defs = [s for s in fn.body if isinstance(s, ast.FunctionDef)]
    if len(loops) != 1 or len(defs) != 1:
        raise py2coq.TranslationError("PdoMap.read: expected exactly one loop and one nested function")
    loop, inner = loops[0], defs[0]
    if ast.unparse(loop.target) != "subindex" or ast.unparse(loop.iter) != READ_LOOP_ITER or loop.orelse:
        raise py2coq.TranslationError(f"PdoMap.read: loop header {ast.unparse(loop.target)} in {ast.unparse(loop.iter)}")
    if inner.name != "_raw_from" or [a.arg for a in inner.args.args] != ["param"] or inner.decorator_list:
        raise py2coq.TranslationError("PdoMap.read: nested helper is not _raw_from(param)")
    return (_define(ENTRY_SPEC, loop.body, f"{M}.PdoMap.read: body of `for subindex in {READ_LOOP_ITER}`"),
            _define(RAW_SPEC, inner.body, f"{M}.PdoMap.read._raw_from"))


def generate():
    out = ["(* GENERATED by tools/gen_tables.py (tools/py2coq.py) from the source text of /repo -- do not edit. *)",
           "From Coq Require Import ZArith List Bool String.",
           "From CV Require Import Base.Val Base.Bytes Base.Tys Base.PyLib Gen.PdoTables.",
           "Import ListNotations.", "Open Scope Z_scope.", ""]
    for spec in SPECS:
        out.append(py2coq.translate(spec))
    out.extend(_read_parts())
    return "\n".join(out) + "\n"
