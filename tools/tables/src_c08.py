"""C08: functions translated from the source text  ->  Gen/SrcC08.v"""
from ._src import generate_for, DT
OUTPUT = "SrcC08.v"

SPECS = [
    dict(module="canopen.objectdictionary.eds", qualname="_signed_int_from_hex", name="src_signed_int_from_hex",
         params=[("number0", "Z"), ("bit_length", "Z")], ret="Z", calls={"int(hex_str, 0)": "number0"}),
    dict(module="canopen.objectdictionary.eds", qualname="_calc_bit_length", name="src_calc_bit_length",
         params=[("data_type", "Z")], ret="option Z", return_wrap="Some", raise_value="None",
         attrs={f"datatypes.{n}": f"dt_{n}" for n in DT}),
]


def generate():
    return generate_for(SPECS)
