"""objectdictionary/eds.py constants and in-function tables  ->  Gen/EdsTables.v

Read from the CURRENT source: module constants (DOMAIN VAR ARR RECORD), the behaviour of
_calc_bit_length on every data type number 0..255 (evaluated, not parsed), and - taken from the
syntax tree of import_eds / export_eds, because they are literals inside the functions - the
DeviceInfo property tables, the baud-rate list, the DummyUsage range and the attribute tuple that
ODArray.__getitem__ copies from the template.  Fail-closed: any unexpected shape raises.
Strings are printed as lists of code points (the model's string type)."""
import ast, inspect
from ._util import z, zlist, codepoints, HEADER
OUTPUT = "EdsTables.v"


def _func(tree, name):
    for n in ast.walk(tree):
        if isinstance(n, ast.FunctionDef) and n.name == name:
            return n
    raise ValueError(f"function {name} not found")


def _for_lists(fn):
    """all literal lists / sets iterated by `for` statements directly in fn (any depth)"""
    out = []
    for n in ast.walk(fn):
        if isinstance(n, ast.For) and isinstance(n.iter, ast.List):
            out.append(n.iter)
    return out


def _const(n):
    if isinstance(n, ast.Constant): return n.value
    if isinstance(n, ast.Name) and n.id in ("str", "int", "bool"): return n.id
    raise ValueError(f"unexpected element {ast.dump(n)}")


def generate():
    from canopen.objectdictionary import eds, ODArray
    import canopen.objectdictionary as odm
    out = [HEADER, "(* objectdictionary/eds.py *)"]
    for n in ("DOMAIN", "VAR", "ARR", "RECORD"):
        v = getattr(eds, n)
        out.append(f"Definition OT_{n} : Z := {z(v)}.")
    # _calc_bit_length, evaluated
    cbl = []
    for t in range(0, 256):
        try:
            w = eds._calc_bit_length(t)
        except ValueError:
            continue
        if isinstance(w, bool) or not isinstance(w, int) or not (0 < w <= 4096): raise ValueError((t, w))
        cbl.append((t, w))
    out.append("Definition CALC_BIT_LENGTH : list (Z * Z) := [" +
               "; ".join(f"({z(t)}, {z(w)})" for t, w in cbl) + "].")
    # import_eds: baud rates, DeviceInfo table
    tree = ast.parse(inspect.getsource(eds))
    imp = _func(tree, "import_eds")
    lists = _for_lists(imp)
    rates = [l for l in lists if l.elts and all(isinstance(e, ast.Constant) and isinstance(e.value, int) for e in l.elts)]
    props = [l for l in lists if l.elts and all(isinstance(e, ast.Tuple) and len(e.elts) == 3 for e in l.elts)]
    if len(rates) != 1 or len(props) != 1: raise ValueError("import_eds: cannot find the rate / DeviceInfo lists")
    rl = [e.value for e in rates[0].elts]
    out.append(f"Definition BAUD_RATES : list Z := {zlist(rl)}.")
    kinds = {"str": 0, "int": 1, "bool": 2}
    rows = []
    for e in props[0].elts:
        t, ep, op = (_const(x) for x in e.elts)
        if t not in kinds or not isinstance(ep, str) or not isinstance(op, str): raise ValueError(ast.dump(e))
        rows.append((kinds[t], ep, op))
    out.append("(* (kind, EDS key, attribute): kind 0 = str, 1 = int, 2 = bool *)")
    out.append("Definition DEVINFO_IMPORT : list (Z * (list Z * list Z)) := [\n" +
               ";\n".join(f"  ({k}, ({codepoints(ep)}, {codepoints(op)}))  (* {ep} {op} *)" for k, ep, op in rows) + "\n].")
    # the conversion applied is t(int(text, 0)) for int/bool: check the shape we model is what is there
    src = "".join(inspect.getsource(eds.import_eds).split())
    if 't(int(eds.get("DeviceInfo",eprop),0))' not in src or 'eds.get("DeviceInfo",eprop))' not in src:
        raise ValueError("import_eds: DeviceInfo conversion is not t(int(text, 0)) / text")
    exp = _func(tree, "export_eds")
    lists = _for_lists(exp)
    props = [l for l in lists if l.elts and all(isinstance(e, ast.Tuple) and len(e.elts) == 2 for e in l.elts)]
    if len(props) != 1: raise ValueError("export_eds: cannot find the DeviceInfo list")
    rows = []
    for e in props[0].elts:
        ep, op = (_const(x) for x in e.elts)
        if not isinstance(ep, str) or not isinstance(op, str): raise ValueError(ast.dump(e))
        rows.append((ep, op))
    out.append("Definition DEVINFO_EXPORT : list (list Z * list Z) := [\n" +
               ";\n".join(f"  ({codepoints(ep)}, {codepoints(op)})  (* {ep} {op} *)" for ep, op in rows) + "\n].")
    # export: standard rates always listed
    sets = [n for n in ast.walk(exp) if isinstance(n, ast.Set) and n.elts and
            all(isinstance(e, ast.Constant) and isinstance(e.value, float) for e in n.elts)]
    if len(sets) != 1: raise ValueError("export_eds: cannot find the standard rate set")
    std = sorted(e.value for e in sets[0].elts)
    if any(v != int(v) for v in std): raise ValueError(std)
    out.append(f"Definition EXPORT_STD_RATES : list Z := {zlist([int(v) for v in std])}.")
    # export: index classes
    out.append("(* mandatory_indices / manufacturer_idices of export_eds, evaluated on the boundaries *)")
    mand = [n for n in ast.walk(exp) if isinstance(n, ast.FunctionDef) and n.name == "mandatory_indices"]
    manu = [n for n in ast.walk(exp) if isinstance(n, ast.FunctionDef) and n.name == "manufacturer_idices"]
    if len(mand) != 1 or len(manu) != 1: raise ValueError("export_eds: index class functions")
    ms = [n for n in ast.walk(mand[0]) if isinstance(n, ast.Set)]
    if len(ms) != 1: raise ValueError("mandatory_indices shape")
    out.append(f"Definition MANDATORY_INDICES : list Z := {zlist(sorted(_const(e) for e in ms[0].elts))}.")
    rg = [n for n in ast.walk(manu[0]) if isinstance(n, ast.Call) and getattr(n.func, 'id', '') == "range"]
    if len(rg) != 1 or len(rg[0].args) != 2: raise ValueError("manufacturer_idices shape")
    out.append(f"Definition MANUF_LO : Z := {z(_const(rg[0].args[0]))}.")
    out.append(f"Definition MANUF_HI : Z := {z(_const(rg[0].args[1]))}.")
    # ODArray.__getitem__ template attributes
    arr = None
    for n in ast.walk(ast.parse(inspect.getsource(odm))):
        if isinstance(n, ast.ClassDef) and n.name == "ODArray":
            arr = n
    gi = _func(arr, "__getitem__")
    tups = [n.iter for n in ast.walk(gi) if isinstance(n, ast.For) and isinstance(n.iter, ast.Tuple)]
    if len(tups) != 1: raise ValueError("ODArray.__getitem__: template attribute tuple not found")
    attrs = [_const(e) for e in tups[0].elts]
    known = ["data_type", "unit", "factor", "min", "max", "default", "access_type", "description",
             "value_descriptions", "bit_definitions", "storage_location", "pdo_mappable", "value",
             "relative", "default_raw", "value_raw", "name", "index", "subindex", "parent"]
    for a in attrs:
        if a not in known: raise ValueError(f"unknown template attribute {a!r}")
    for a in known[:16]:
        out.append(f"Definition TEMPLATE_{a} : bool := {'true' if a in attrs else 'false'}.")
    return "\n".join(out) + "\n"
