"""sync.py: SyncProducer.cob_id  ->  Gen/PeriodicTables.v   (used by C17 only)

The heartbeat / node guarding identifier base 0x700 is a literal inside nmt.py, not a named
constant, so it cannot be regenerated; it is tied by the correspondence check instead."""
from ._util import z, HEADER
OUTPUT = "PeriodicTables.v"


def generate():
    from canopen.sync import SyncProducer
    cob = SyncProducer.cob_id
    if isinstance(cob, bool) or not isinstance(cob, int):
        raise TypeError(f"SyncProducer.cob_id is not an int: {cob!r}")
    out = [HEADER, "(* canopen/sync.py: SyncProducer.cob_id *)",
           f"Definition SYNC_COB_ID : Z := {z(cob)}."]
    return "\n".join(out) + "\n"
