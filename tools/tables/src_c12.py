"""C12: decision logic of BlockDownloadStream translated from the source text  ->  Gen/SrcC12.v

Every function is translated as a STATE SKELETON: the attributes it reads are parameters, the attributes it writes and
a few ghost variables (which request byte 0 is sent, is the CRC fed, is _block_ack / _retransmit called ...) are
let-bound along the control flow of the source, and the result is the tuple of their final values.  Calls that do I/O
are mapped (by their exact source text) to ghost assignments; an edit of such a statement changes its text, the mapping
no longer applies and the translation fails closed."""
from ._src import generate_for
OUTPUT = "SrcC12.v"

M, C = "canopen.sdo.client", "BlockDownloadStream."

SPECS = [
    # write(b): 0 = RuntimeError (already done), 1 = send(data, end=True), 2 = return None, 3 = send(data)
    dict(module=M, qualname=C + "write", name="src_dl_write",
         params=[("done_", "bool"), ("size_has", "bool"), ("size_", "Z"), ("pos_", "Z"), ("dlen", "Z"), ("act_", "Z")],
         ret="Z", raise_value="0",
         attrs={"self._done": "done_", "self.size": "size_", "self.pos": "pos_"},
         calls={"self.size is not None": "size_has", "len(data)": "dlen"},
         returns={"len(data)": "act_", "None": "2"},
         stmts={"data = b[0:7]": "let data := 0",
                "self.send(data, end=True)": "let act_ := 1",
                "self.send(data)": "let act_ := 3"}),
    # send(b, end): (byte 0 of the segment, _seqno, _done, _blksize, _last_bytes_sent, pos, CRC fed?, _block_ack called?)
    dict(module=M, qualname=C + "send", name="src_dl_send",
         params=[("end_", "bool"), ("seqno_", "Z"), ("blksize_", "Z"), ("blen", "Z"), ("last_", "Z"), ("pos_", "Z"),
                 ("done_", "bool"), ("crcsup", "bool"), ("retx", "bool"),
                 ("byte0_", "Z"), ("crcp_", "bool"), ("ack_", "bool")],
         ret="(Z * Z * bool * Z * Z * Z * bool * bool)",
         fallthrough="(byte0_, seqno_, done_, blksize_, last_, pos_, crcp_, ack_)",
         attrs={"self._seqno": "seqno_", "self._blksize": "blksize_", "self._done": "done_",
                "self._last_bytes_sent": "last_", "self.pos": "pos_", "self.crc_supported": "crcsup",
                "self._retransmitting": "retx"},
         calls={"end": "end_", "len(b)": "blen"},
         skip_stmts=["assert len(b) <= 7, 'Max 7 bytes can be sent'",
                     "assert len(b) == 7, 'Less than 7 bytes only allowed if last data'"],
         stmts={"request = bytearray(8)": "let request := 0",
                "request[0] = command": "let byte0_ := command",
                "request[1:len(b) + 1] = b": "let payload_at_1 := true",
                "self.sdo_client.send_request(request)": "let sent_ := true",
                "self._current_block.append(bytes(b))": "let kept_copy := true",
                "self._crc.process(b)": "let crcp_ := true",
                "self._block_ack()": "let ack_ := true"}),
    # _block_ack(): (0 = abort 0x05040001 + SdoCommunicationError | 2 = _retransmit(ackseq, blksize) | 3 = sub-block
    #                confirmed, abort code, _blksize, _seqno, _current_block cleared?)
    dict(module=M, qualname=C + "_block_ack", name="src_dl_block_ack",
         params=[("res_command", "Z"), ("ackseq", "Z"), ("blksize", "Z"), ("blksize_", "Z"), ("seqno_", "Z"),
                 ("code_", "Z"), ("abort_", "Z"), ("cleared_", "bool")],
         ret="(Z * Z * Z * Z * bool)", bare_return=True,
         fallthrough="(code_, abort_, blksize_, seqno_, cleared_)",
         raise_value="(0, abort_, blksize_, seqno_, cleared_)",
         attrs={"self._blksize": "blksize_", "self._seqno": "seqno_"},
         stmts={"response = self.sdo_client.read_response()": "let response := 0",
                "res_command, ackseq, blksize = struct.unpack_from('BBB', response)": "let bytes_0_1_2 := true",
                "self.sdo_client.abort(84148225)": "let abort_ := 84148225",
                "self._retransmit(ackseq, blksize)": "let code_ := 2",
                "self._current_block = []": "let '(code_, cleared_) := (3, true)"}),
    # close(): (0 = already closed, nothing sent | 1 = end request sent, answer accepted | 2 = sent, SdoCommunicationError;
    #           byte 0 of the end request, CRC written into bytes 1..2?, that CRC)
    dict(module=M, qualname=C + "close", name="src_dl_close",
         params=[("closed_", "bool"), ("done_", "bool"), ("last_", "Z"), ("crcsup", "bool"), ("crc_", "Z"),
                 ("res_command", "Z"), ("code_", "Z"), ("byte0_", "Z"), ("crch_", "bool"), ("crcf_", "Z")],
         ret="(Z * Z * bool * Z)", bare_return=True,
         fallthrough="(code_, byte0_, crch_, crcf_)", raise_value="(2, byte0_, crch_, crcf_)",
         attrs={"self.closed": "closed_", "self._done": "done_", "self._last_bytes_sent": "last_",
                "self.crc_supported": "crcsup"},
         skip_calls=["super(BlockDownloadStream, self).close"],
         stmts={"request = bytearray(8)": "let request := 0",
                "request[0] = command": "let byte0_ := command",
                "struct.pack_into('<H', request, 1, self._crc.final())": "let '(crch_, crcf_) := (true, crc_)",
                "response = self.sdo_client.request_response(request)": "let code_ := 1",
                "res_command, = struct.unpack_from('B', response)": "let byte_0 := true"}),
]


def generate():
    return generate_for(SPECS)
