"""nmt.py: NMT_STATES, NMT_COMMANDS, COMMAND_TO_STATE  ->  Gen/NmtTables.v

Strings are printed as lists of code points (the models use `list Z` for str), with the
text in a comment.  Dict order is kept.  Fail-closed on any unexpected shape."""
from ._util import z, codepoints, cstr, HEADER
OUTPUT = "NmtTables.v"


def _name(s):
    cstr(s)                      # printable ASCII only, raises otherwise
    if "*)" in s or "(*" in s: raise ValueError(s)
    return f"{codepoints(s)} (* {s} *)"


def generate():
    from canopen import nmt
    for n in ("NMT_STATES", "NMT_COMMANDS", "COMMAND_TO_STATE"):
        if type(getattr(nmt, n)) is not dict: raise TypeError(n)
    out = [HEADER, "(* canopen/nmt.py *)"]
    out.append("Definition NMT_STATES : list (Z * list Z) := [")
    out.append(";\n".join(f"  ({z(k)}, {_name(v)})" for k, v in nmt.NMT_STATES.items()))
    out.append("].")
    out.append("Definition NMT_COMMANDS : list (list Z * Z) := [")
    out.append(";\n".join(f"  ({_name(k)}, {z(v)})" for k, v in nmt.NMT_COMMANDS.items()))
    out.append("].")
    out.append("Definition COMMAND_TO_STATE : list (Z * Z) := [")
    out.append(";\n".join(f"  ({z(k)}, {z(v)})" for k, v in nmt.COMMAND_TO_STATE.items()))
    out.append("].")
    return "\n".join(out) + "\n"
