"""C06: the refusal logic of LocalNode / SdoServer translated from the source text  ->  Gen/SrcC06.v

Decision skeletons (cf. src_c13.py / src_c17.py): what a function reads becomes a parameter, what it does becomes
a flag / code in the result tuple, every call, store or raising statement is mapped by its exact source text, so that
an edit of the function either changes the generated definition (and breaks its equation with Model/SdoServer.v in
Proofs/Src_eq_c06.v) or makes the generation fail (fail-closed).

Two extensions local to this file (the shared translator has one `raise_value` per function and wants exactly one
`except` clause):
  spec["raises"]    = {source text of a raise statement: result}      - every raise must be listed
  spec["try_enter"] = {source text of the first statement of a try body: exact source text of its except clauses}
                      - the body is translated in place; the handlers are pinned by their text.
"""
import ast, inspect
from ._src import generate_for, py2coq
OUTPUT = "SrcC06.v"

L, S = "canopen.node.local", "canopen.sdo.server"

AB_NOOBJECT, AB_NOSUB, AB_WRITEONLY, AB_READONLY = 0x06020000, 0x06090011, 0x06010001, 0x06010002
AB_LENGTH, AB_NOVALUE, AB_TOGGLE, AB_COMMAND = 0x06070010, 0x060A0023, 0x05030000, 0x05040001


class Tr6(py2coq.Tr):
    def block(self, stmts, tail):
        if stmts:
            st = stmts[0]
            if isinstance(st, ast.Raise) and "raises" in self.spec:
                s = self.src(st)
                if s not in self.spec["raises"]:
                    raise py2coq.TranslationError(f"raise statement not listed: {s}")
                return self.spec["raises"][s]
            if isinstance(st, ast.Try) and st.body and self.src(st.body[0]) in self.spec.get("try_enter", {}):
                want = self.spec["try_enter"][self.src(st.body[0])]
                got = "\n".join(self.src(h) for h in st.handlers)
                if st.finalbody or st.orelse or got != want:
                    raise py2coq.TranslationError(f"except clauses changed: {got!r}")
                return self.block(list(st.body) + list(stmts[1:]), tail)
        return super().block(stmts, tail)


def translate(spec):
    fn = py2coq.get_function(spec["module"], spec["qualname"])
    tr = Tr6(spec)
    body = tr.block(list(fn.body), spec.get("fallthrough", "None"))
    params = " ".join(f"({n} : {t})" for n, t in spec["params"])
    return (f"(* {spec['module']}.{spec['qualname']} *)\n"
            f"Definition {spec['name']} {params} : {spec['ret']} :=\n  {body}.\n")


SET_OUT = "(code_, stored_, cbrun_, cbfirst_)"

SPECS = [
    # _find_object: 0 = the entry is returned, else the abort code.
    #   has_index = index in object_dictionary, is_var = it is an ODVariable, has_sub = subindex in obj (record / array)
    dict(module=L, qualname="LocalNode._find_object", name="src_find_object",
         params=[("has_index", "bool"), ("is_var", "bool"), ("has_sub", "bool"), ("subindex", "Z")], ret="Z",
         calls={"index not in self.object_dictionary": "(negb has_index)",
                "not isinstance(obj, objectdictionary.ODVariable)": "(negb is_var)",
                "subindex not in obj": "(negb has_sub)"},
         stmts={"obj = self.object_dictionary[index]": "let obj := 0", "obj = obj[subindex]": "let obj := 0"},
         returns={"obj": "0"},
         raises={f"raise SdoAbortedError({AB_NOOBJECT})": str(AB_NOOBJECT), f"raise SdoAbortedError({AB_NOSUB})": str(AB_NOSUB)}),
    # get_data: (abort code or 0, source of the value: 1 read callback, 2 data_store, 3 value, 4 default; 0 = none)
    #   find_code = what _find_object did (0 = returned an entry), cb_hit = a read callback returned something,
    #   cbrun_ = the read callbacks were consulted
    dict(module=L, qualname="LocalNode.get_data", name="src_get_data",
         params=[("find_code", "Z"), ("check_readable", "bool"), ("readable_", "bool"), ("cb_hit", "bool"), ("in_store", "bool"),
                 ("has_value", "bool"), ("has_default", "bool"), ("cbrun_", "bool")], ret="(Z * Z * bool)",
         attrs={"obj.readable": "readable_"},
         calls={"obj.value is not None": "has_value", "obj.default is not None": "has_default"},
         stmts={"obj = self._find_object(index, subindex)":
                    "if negb (Z.eqb find_code 0) then (find_code, 0, cbrun_) else let obj := 0",
                "for callback in self._read_callbacks:\n    result = callback(index=index, subindex=subindex, od=obj)\n"
                "    if result is not None:\n        return obj.encode_raw(result)":
                    "let cbrun_ := true in if cb_hit then (0, 1, cbrun_) else let result := 0"},
         try_as_if={"return self.data_store[index][subindex]": "(negb in_store)"},
         returns={"self.data_store[index][subindex]": "(0, 2, cbrun_)", "obj.encode_raw(obj.value)": "(0, 3, cbrun_)",
                  "obj.encode_raw(obj.default)": "(0, 4, cbrun_)"},
         raises={f"raise SdoAbortedError({AB_WRITEONLY})": f"({AB_WRITEONLY}, 0, cbrun_)",
                 f"raise SdoAbortedError({AB_NOVALUE})": f"({AB_NOVALUE}, 0, cbrun_)"}),
    # set_data: (abort code or 0, data_store written, write callbacks run, callbacks run BEFORE the store)
    dict(module=L, qualname="LocalNode.set_data", name="src_set_data",
         params=[("find_code", "Z"), ("check_writable", "bool"), ("writable_", "bool"), ("dt_", "Z"), ("dlen_", "Z"),
                 ("lenbits_", "Z"), ("code_", "Z"), ("stored_", "bool"), ("cbrun_", "bool"), ("cbfirst_", "bool")],
         ret="(Z * bool * bool * bool)", fallthrough=SET_OUT,
         attrs={"obj.writable": "writable_", "obj.data_type": "dt_", "objectdictionary.NUMBER_TYPES": "NUMBER_TYPES"},
         calls={"len(obj)": "lenbits_", "len(data)": "dlen_"},
         stmts={"obj = self._find_object(index, subindex)":
                    "if negb (Z.eqb find_code 0) then (find_code, stored_, cbrun_, cbfirst_) else let obj := 0",
                "for callback in self._write_callbacks:\n    callback(index=index, subindex=subindex, od=obj, data=data)":
                    "let '(cbrun_, cbfirst_) := (true, negb stored_)",
                "self.data_store[index][subindex] = bytes(data)": "let stored_ := true"},
         skip_calls=["self.data_store.setdefault"],
         raises={f"raise SdoAbortedError({AB_READONLY})": f"({AB_READONLY}, stored_, cbrun_, cbfirst_)",
                 f"raise SdoAbortedError({AB_LENGTH})": f"({AB_LENGTH}, stored_, cbrun_, cbfirst_)"}),
    # on_request: which handler the command specifier selects:
    #   1 init_upload, 2 segmented_upload, 3 init_download, 4 segmented_download, 5 block_upload, 6 block_download,
    #   7 request_aborted, 8 abort(0x05040001)
    dict(module=S, qualname="SdoServer.on_request", name="src_dispatch",
         params=[("command_", "Z"), ("h_", "Z")], ret="Z", fallthrough="h_",
         stmts={"command, = struct.unpack_from('B', data, 0)": "let command := command_",
                "self.init_upload(data)": "let h_ := 1", "self.segmented_upload(command)": "let h_ := 2",
                "self.init_download(data)": "let h_ := 3", "self.segmented_download(command, data)": "let h_ := 4",
                "self.block_upload(data)": "let h_ := 5", "self.block_download(data)": "let h_ := 6",
                "self.request_aborted(data)": "let h_ := 7", f"self.abort({AB_COMMAND})": "let h_ := 8"},
         try_enter={"if ccs == REQUEST_UPLOAD:\n    self.init_upload(data)\nelif ccs == REQUEST_SEGMENT_UPLOAD:\n    self.segmented_upload(command)\n"
                    "elif ccs == REQUEST_DOWNLOAD:\n    self.init_download(data)\nelif ccs == REQUEST_SEGMENT_DOWNLOAD:\n"
                    "    self.segmented_download(command, data)\nelif ccs == REQUEST_BLOCK_UPLOAD:\n    self.block_upload(data)\n"
                    "elif ccs == REQUEST_BLOCK_DOWNLOAD:\n    self.block_download(data)\nelif ccs == REQUEST_ABORTED:\n"
                    f"    self.request_aborted(data)\nelse:\n    self.abort({AB_COMMAND})":
                    "except SdoAbortedError as exc:\n    self.abort(exc.code)\n"
                    f"except KeyError as exc:\n    self.abort({AB_NOOBJECT})\n"
                    "except Exception as exc:\n    self.abort()\n    logger.exception(exc)"}),
    # block_upload falls back to init_upload (1); block_download aborts with this code
    dict(module=S, qualname="SdoServer.block_upload", name="src_block_upload", params=[("h_", "Z")], ret="Z", fallthrough="h_",
         stmts={"self.init_upload(data)": "let h_ := 1"}),
    dict(module=S, qualname="SdoServer.block_download", name="src_block_download", params=[("code_", "Z")], ret="Z",
         fallthrough="code_", stmts={f"self.abort({AB_COMMAND})": f"let code_ := {AB_COMMAND}"}),
    # segmented_download: (abort code or 0, buffer extended, last_byte, set_data called, response command, next toggle).
    #   set_code = what set_data does with the extended buffer (0 = stores)
    dict(module=S, qualname="SdoServer.segmented_download", name="src_segmented_download",
         params=[("command", "Z"), ("toggle_", "Z"), ("set_code", "Z"), ("extended_", "bool"), ("setcalled_", "bool")],
         ret="(Z * bool * Z * bool * Z * Z)", fallthrough="(0, extended_, last_byte, setcalled_, res_command, toggle_)",
         attrs={"self._toggle": "toggle_"},
         stmts={"self._buffer.extend(request[1:last_byte])": "let extended_ := true",
                "self._node.set_data(self._index, self._subindex, self._buffer, check_writable=True)":
                    "if negb (Z.eqb set_code 0) then (set_code, extended_, last_byte, true, 0, toggle_) else let setcalled_ := true",
                "response = bytearray(8)": "let response := 0"},
         skip_stmts=["response[0] = res_command", "self.send_response(response)"],
         raises={f"raise SdoAbortedError({AB_TOGGLE})": f"({AB_TOGGLE}, extended_, 0, setcalled_, 0, toggle_)"}),
    # abort: the frame (command byte, index, sub-index, code) that is packed as <BHBL and sent
    dict(module=S, qualname="SdoServer.abort", name="src_abort_frame",
         params=[("index_", "Z"), ("subindex_", "Z"), ("abort_code", "Z"), ("sent_", "bool")],
         ret="(Z * Z * Z * Z * bool)", fallthrough="(b0_, i_, s_, c_, sent_)",
         stmts={"data = struct.pack('<BHBL', RESPONSE_ABORTED, self._index, self._subindex, abort_code)":
                    "let '(b0_, i_, s_, c_) := (RESPONSE_ABORTED, index_, subindex_, abort_code)",
                "self.send_response(data)": "let sent_ := true"}),
]


def generate():
    import canopen.sdo.server as srv
    text = generate_for([])            # header only
    for spec in SPECS:
        text += translate(spec) + "\n"
    # abort() without argument (the `except Exception` clause of on_request): the default of its parameter
    default = inspect.signature(srv.SdoServer.abort).parameters["abort_code"].default
    if not isinstance(default, int) or isinstance(default, bool):
        raise py2coq.TranslationError(f"default of SdoServer.abort(abort_code): {default!r}")
    text += f"(* default of SdoServer.abort(abort_code=...) *)\nDefinition src_abort_default : Z := {default}.\n"
    return text
