"""objectdictionary/datatypes.py and ODVariable.STRUCT_TYPES  ->  Gen/Tables.v"""
import struct
from ._util import z, zlist, cbool, HEADER
OUTPUT = "Tables.v"

def generate():
    from canopen.objectdictionary import datatypes as dt
    from canopen.objectdictionary import ODVariable
    out = [HEADER, "(* objectdictionary/datatypes.py *)"]
    names = ["BOOLEAN", "INTEGER8", "INTEGER16", "INTEGER32", "UNSIGNED8", "UNSIGNED16", "UNSIGNED32",
             "REAL32", "VISIBLE_STRING", "OCTET_STRING", "UNICODE_STRING", "TIME_OF_DAY", "TIME_DIFFERENCE",
             "DOMAIN", "INTEGER24", "REAL64", "INTEGER40", "INTEGER48", "INTEGER56", "INTEGER64",
             "UNSIGNED24", "UNSIGNED40", "UNSIGNED48", "UNSIGNED56", "UNSIGNED64"]
    for n in names:
        out.append(f"Definition dt_{n} : Z := {z(getattr(dt, n))}.")
    for n in ["SIGNED_TYPES", "UNSIGNED_TYPES", "INTEGER_TYPES", "FLOAT_TYPES", "NUMBER_TYPES", "DATA_TYPES"]:
        v = getattr(dt, n)
        if not isinstance(v, tuple): raise TypeError(n)
        out.append(f"Definition {n} : list Z := {zlist(list(v))}.")
    fmts = {"b": (True, 8), "<h": (True, 16), "<l": (True, 32), "<q": (True, 64),
            "B": (False, 8), "<H": (False, 16), "<L": (False, 32), "<Q": (False, 64)}
    def packer(s):
        if type(s) is dt.IntegerN: return f"PIntN {z(s.width)}"
        if type(s) is dt.UnsignedN: return f"PUintN {z(s.width)}"
        if type(s) is struct.Struct:
            f = s.format
            if f == "?": return "PBool"
            if f == "<f": return "PReal 32"
            if f == "<d": return "PReal 64"
            e = fmts.get(f)
            if e is None: raise ValueError(f"unknown struct format {f!r}")
            if struct.calcsize(f) * 8 != e[1]: raise ValueError(f)
            return f"PStruct {cbool(e[0])} {e[1]}"
        raise TypeError(f"unknown packer {s!r}")
    out.append("Definition STRUCT_TYPES : list (Z * packer) := [")
    out.append(";\n".join(f"  ({z(k)}, {packer(v)})" for k, v in ODVariable.STRUCT_TYPES.items()))
    out.append("].")
    return "\n".join(out) + "\n"
