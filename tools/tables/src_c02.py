"""C02: functions translated from the source text  ->  Gen/SrcC02.v"""
from ._src import generate_for, DT
OUTPUT = "SrcC02.v"

SPECS = [
    # SdoServer.segmented_upload: response command byte and next toggle from (request command, toggle, bytes left)
    dict(module="canopen.sdo.server", qualname="SdoServer.segmented_upload", name="src_server_segmented_upload",
         params=[("command", "Z"), ("toggle_", "Z"), ("buflen_", "Z")], ret="option (Z * Z)",
         raise_value="None", fallthrough="Some (res_command, toggle_)",
         attrs={"self._toggle": "toggle_"},
         calls={"not self._buffer": "(Z.eqb buflen_ 0)"},
         stmts={"data = self._buffer[:7]": "let data := 0",
                "size = len(data)": "let size := Z.min buflen_ 7",
                "del self._buffer[:7]": "let buflen_ := Z.max 0 (Z.sub buflen_ 7)",
                "response = bytearray(8)": "let response := 0"},
         skip_stmts=["response[0] = res_command", "response[1:1 + size] = data", "self.send_response(response)"]),
]


def generate():
    return generate_for(SPECS)
