#!/venv/bin/python
"""A small fail-closed translator from (a subset of) Python to Gallina.

Tie (c) of DESIGN.md: the pure decision logic of selected functions of /repo is regenerated as Gallina
text from the CURRENT source (via `ast`) on every run, into coq/theories/Gen/Src.v, and
Proofs/Src_eq.v proves each generated definition equal to the hand-written model definition the
theorems are about.  A change of the code changes the generated definition and breaks that equation
(or changes the model the theorems speak about), whatever the correspondence generators happen to sample.

Supported subset (anything else raises TranslationError => generation fails => dependants do not build):
  statements : x = e ; x op= e ; a, b = divmod(e1, e2) ; if / elif / else ; return e ; raise ... ;
               for x in <list param>: <assignments / ifs without return>   (-> fold_left over a tuple)
               for ... : if c: return e                                   (-> find-first)
               expression statements that are logging calls (skipped) ; pass ; docstrings
               `with <ctx>:` blocks are entered (the context manager itself is ignored: locks)
               try: <single assignment> except (...): pass   only when listed in spec["ignore_try"]
               opt-in (state skeletons whose result is the tuple spec["fallthrough"] of the current values):
                 bare `return`                      only with spec["bare_return"] = True  (-> the fall-through tuple)
                 spec["raises"] = {text: value}       value of one particular raise statement (by its exact source text)
                 spec["try_raise_to_handler"]         with try_as_if: a raise inside the try body whose class the handler
                                                    names is translated as the handler (refused when a raise follows the body)
                 spec["assign_also"] = {target: let}  ghost binding emitted together with every assignment to target
                 spec["while_true_step"] = value      a trailing `while True:` (no break / continue / else) is translated as ONE
                                                    pass of its body; value = what "the loop goes round again" yields
                 try: B except E: H else: L          only when the source text of the first statement of B is a key of
                                                    spec["try_as_if"] = {text: flag}: translated as
                                                    `if flag then H else B; L` (flag = "the guarded call raised E");
                                                    no finally, exactly one handler
  expressions: int / bool constants, names, attribute reads mapped to parameters by spec["attrs"],
               + - * // % << >> & | ^ ~ unary- , comparisons (chains), and / or / not, conditional expr,
               x in <tuple/list param>, min(l), len(l) for list params, calls mapped by spec["calls"].
All integers are Z (Python int), `//` and `%` are Z.div / Z.modulo (same floor semantics), shifts are
Z.shiftl / Z.shiftr, bit operations Z.land / Z.lor / Z.lxor / Z.lnot.
"""
import ast, inspect, textwrap


class TranslationError(Exception):
    pass


BINOPS = {ast.Add: "Z.add", ast.Sub: "Z.sub", ast.Mult: "Z.mul", ast.FloorDiv: "Z.div", ast.Mod: "Z.modulo",
          ast.LShift: "Z.shiftl", ast.RShift: "Z.shiftr", ast.BitAnd: "Z.land", ast.BitOr: "Z.lor",
          ast.BitXor: "Z.lxor"}
CMPOPS = {ast.Eq: "Z.eqb", ast.Lt: "Z.ltb", ast.LtE: "Z.leb", ast.Gt: "Z.gtb", ast.GtE: "Z.geb"}


class Tr:
    def __init__(self, spec):
        self.spec = spec
        self.attrs = spec.get("attrs", {})       # "self.offset" -> ("off", "Z")
        self.calls = spec.get("calls", {})       # source text of call -> coq expression text / param name
        self.types = dict(spec.get("params", []))  # name -> "Z" | "list Z" | "bool"
        self.ret_err = spec.get("raise_value", "None")
        self.bool_names = set(n for n, t in self.types.items() if t == "bool") | set(spec.get("bools", ()))

    # ------------------------------------------------------------------ expressions
    def src(self, node):
        return ast.unparse(node)

    def expr(self, e):
        s = self.src(e)
        if s in self.calls:
            return self.calls[s]
        if s in self.attrs:
            return self.attrs[s]
        if isinstance(e, ast.Constant):
            if isinstance(e.value, bool):
                return "true" if e.value else "false"
            if isinstance(e.value, int):
                return f"({e.value})" if e.value < 0 else str(e.value)
            if isinstance(e.value, str) and all(32 <= ord(c) < 127 and c != '"' for c in e.value):
                return f'"{e.value}"%string'
            raise TranslationError(f"constant {e.value!r}")
        if isinstance(e, ast.Name):
            return e.id
        if isinstance(e, ast.BinOp):
            op = BINOPS.get(type(e.op))
            if op is None:
                raise TranslationError(f"operator {ast.dump(e.op)}")
            return f"({op} {self.expr(e.left)} {self.expr(e.right)})"
        if isinstance(e, ast.UnaryOp):
            if isinstance(e.op, ast.Invert): return f"(Z.lnot {self.expr(e.operand)})"
            if isinstance(e.op, ast.USub): return f"(Z.opp {self.expr(e.operand)})"
            if isinstance(e.op, ast.Not): return f"(negb {self.cond(e.operand)})"
            raise TranslationError(f"unary {ast.dump(e.op)}")
        if isinstance(e, ast.IfExp):
            return f"(if {self.cond(e.test)} then {self.expr(e.body)} else {self.expr(e.orelse)})"
        if isinstance(e, ast.Call):
            f = self.src(e.func)
            if f == "min" and len(e.args) == 1:
                return f"(list_min {self.expr(e.args[0])})"
            if f == "len" and len(e.args) == 1:
                return f"(Z.of_nat (length {self.expr(e.args[0])}))"
            if f == "int" and len(e.args) == 1:
                return self.expr(e.args[0])
            raise TranslationError(f"call {s}")
        if isinstance(e, (ast.Compare, ast.BoolOp)):
            return self.cond(e)
        raise TranslationError(f"expression {s}")

    def cond(self, e):
        s = self.src(e)
        if s in self.calls:
            return self.calls[s]
        if s in self.attrs:
            return self.attrs[s]
        if isinstance(e, ast.BoolOp):
            op = "andb" if isinstance(e.op, ast.And) else "orb"
            parts = [self.cond(v) for v in e.values]
            out = parts[-1]
            for p in reversed(parts[:-1]):
                out = f"({op} {p} {out})"
            return out
        if isinstance(e, ast.UnaryOp) and isinstance(e.op, ast.Not):
            return f"(negb {self.cond(e.operand)})"
        if isinstance(e, ast.Compare):
            terms = [e.left] + list(e.comparators)
            parts = []
            for (a, op, b) in zip(terms, e.ops, terms[1:]):
                if isinstance(op, ast.In): parts.append(f"(zmem {self.expr(a)} {self.expr(b)})")
                elif isinstance(op, ast.NotIn): parts.append(f"(negb (zmem {self.expr(a)} {self.expr(b)}))")
                elif isinstance(op, ast.NotEq): parts.append(f"(negb (Z.eqb {self.expr(a)} {self.expr(b)}))")
                elif type(op) in CMPOPS: parts.append(f"({CMPOPS[type(op)]} {self.expr(a)} {self.expr(b)})")
                else: raise TranslationError(f"comparison {ast.dump(op)}")
            out = parts[-1]
            for p in reversed(parts[:-1]):
                out = f"(andb {p} {out})"
            return out
        if isinstance(e, ast.Constant) and isinstance(e.value, bool):
            return "true" if e.value else "false"
        if isinstance(e, ast.Name) and e.id in self.bool_names:
            return e.id
        # Python truthiness of an int
        return f"(negb (Z.eqb {self.expr(e)} 0))"

    # ------------------------------------------------------------------ statements
    def assigned(self, stmts):
        out = []
        for st in stmts:
            if isinstance(st, ast.Assign):
                for t in st.targets:
                    for n in ([t] if isinstance(t, ast.Name) else (t.elts if isinstance(t, ast.Tuple) else [t])):
                        name = self.target(n)
                        if name not in out: out.append(name)
            elif isinstance(st, ast.AugAssign):
                name = self.target(st.target)
                if name not in out: out.append(name)
            elif isinstance(st, ast.If):
                for n in self.assigned(st.body) + self.assigned(st.orelse):
                    if n not in out: out.append(n)
            elif isinstance(st, ast.Expr) and self.is_append(st.value):
                name = self.target(st.value.func.value)
                if name not in out: out.append(name)
            elif isinstance(st, (ast.Expr, ast.Pass)):
                pass
            else:
                raise TranslationError(f"statement in loop/branch: {self.src(st)}")
        return out

    def target(self, t):
        s = self.src(t)
        if s in self.attrs: return self.attrs[s]
        if isinstance(t, ast.Name): return t.id
        raise TranslationError(f"assignment target {s}")

    def is_append(self, e):
        return (isinstance(e, ast.Call) and isinstance(e.func, ast.Attribute) and e.func.attr == "append"
                and self.src(e.func.value) in self.attrs and len(e.args) == 1)

    def is_skippable(self, st):
        if isinstance(st, ast.Pass): return True
        if self.src(st) in self.spec.get("skip_stmts", ()): return True
        if isinstance(st, ast.Expr):
            if isinstance(st.value, ast.Constant) and isinstance(st.value.value, str): return True
            if isinstance(st.value, ast.Call):
                f = self.src(st.value.func)
                if f.startswith("logger.") or f in self.spec.get("skip_calls", ()): return True
        return False

    def block(self, stmts, tail):
        """translate a statement list; `tail` is the Gallina text of what follows (the fall-through value)"""
        if not stmts:
            return tail
        st, rest = stmts[0], stmts[1:]
        if self.is_skippable(st):
            return self.block(rest, tail)
        if self.src(st) in self.spec.get("stmts", {}):     # whole-statement mapping: "let x := e"
            return f"{self.spec['stmts'][self.src(st)]} in\n  {self.block(rest, tail)}"
        if isinstance(st, ast.Return):
            if st.value is None:
                if self.spec.get("bare_return"):
                    return tail if self.spec.get("fallthrough") is None else self.spec["fallthrough"]
                raise TranslationError("bare return")
            return self.result(st.value)
        if isinstance(st, ast.Raise):
            if self.src(st) in self.spec.get("raises", {}):     # per-statement value of a raise (by its exact text)
                return self.spec["raises"][self.src(st)]
            if getattr(self, "in_try", None) is not None:
                # a raise inside the body of a try_as_if block whose handler catches it runs the handler
                names, handler = self.in_try
                exc = st.exc.func if isinstance(st.exc, ast.Call) else st.exc
                if exc is None or self.src(exc) not in names:
                    raise TranslationError(f"raise inside try not caught by its handler: {self.src(st)[:60]}")
                return handler
            return self.ret_err
        if isinstance(st, ast.With):
            return self.block(list(st.body) + rest, tail)
        if isinstance(st, ast.Try) and st.body and self.src(st.body[0]) in self.spec.get("try_as_if", {}):
            if st.finalbody or len(st.handlers) != 1:
                raise TranslationError("try_as_if: finally / several handlers")
            flag = self.spec["try_as_if"][self.src(st.body[0])]
            handler = self.block(list(st.handlers[0].body) + rest, tail)
            if self.spec.get("try_raise_to_handler"):
                # raises of the body are caught by the handler: only sound when nothing after the body can raise
                # and the handler names the exception classes it catches
                for later in list(st.orelse) + rest:
                    if any(isinstance(n, ast.Raise) for n in ast.walk(later)):
                        raise TranslationError("try_raise_to_handler: a raise follows the try body")
                if getattr(self, "in_try", None) is not None or st.handlers[0].type is None:
                    raise TranslationError("try_raise_to_handler: nested try / bare except")
                ht = st.handlers[0].type
                names = [self.src(e) for e in (ht.elts if isinstance(ht, ast.Tuple) else [ht])]
                self.in_try = (names, f"({handler})")
                try:
                    body = self.block(list(st.body) + list(st.orelse) + rest, tail)
                finally:
                    self.in_try = None
            else:
                body = self.block(list(st.body) + list(st.orelse) + rest, tail)
            return f"if {flag}\n  then ({handler})\n  else ({body})"
        if isinstance(st, ast.Try):
            if self.src(st) not in self.spec.get("ignore_try", ()) and ast.unparse(st.body[0]) not in self.spec.get("ignore_try", ()):
                raise TranslationError(f"try statement: {self.src(st)[:80]}")
            return self.block(rest, tail)
        if isinstance(st, ast.While) and self.spec.get("while_true_step") is not None:
            # `while True:` as the LAST statement: one pass of the body is translated; falling out of the body (the loop
            # goes round again) yields spec["while_true_step"]; break / else / anything after the loop are refused
            if self.src(st.test) != "True" or st.orelse or rest or any(isinstance(n, (ast.Break, ast.Continue)) for n in ast.walk(st)):
                raise TranslationError("while_true_step: only `while True:` without break/continue/else as the last statement")
            return self.block(list(st.body), self.spec["while_true_step"])
        if isinstance(st, ast.Assign):
            if len(st.targets) != 1: raise TranslationError("multiple targets")
            t = st.targets[0]
            if isinstance(t, ast.Tuple):
                if isinstance(st.value, ast.Call) and self.src(st.value.func) == "divmod" and len(t.elts) == 2:
                    a, b = (self.expr(x) for x in st.value.args)
                    q, r = (self.target(x) for x in t.elts)
                    return f"let {q} := Z.div {a} {b} in let {r} := Z.modulo {a} {b} in\n  {self.block(rest, tail)}"
                raise TranslationError(f"tuple assignment {self.src(st)}")
            also = self.spec.get("assign_also", {}).get(self.target(t))      # ghost set together with a target
            also = f"{also} in\n  " if also else ""
            return f"let {self.target(t)} := {self.expr(st.value)} in\n  {also}{self.block(rest, tail)}"
        if isinstance(st, ast.AugAssign):
            op = BINOPS.get(type(st.op))
            if op is None: raise TranslationError("augmented operator")
            n = self.target(st.target)
            return f"let {n} := ({op} {n} {self.expr(st.value)}) in\n  {self.block(rest, tail)}"
        if isinstance(st, ast.Expr) and self.is_append(st.value):
            n = self.target(st.value.func.value)
            return f"let {n} := (app {n} (cons {self.expr(st.value.args[0])} nil)) in\n  {self.block(rest, tail)}"
        if isinstance(st, ast.If):
            return (f"if {self.cond(st.test)}\n  then ({self.block(list(st.body) + rest, tail)})\n"
                    f"  else ({self.block(list(st.orelse) + rest, tail)})")
        if isinstance(st, ast.For):
            if st.orelse: raise TranslationError("for-else")
            it = self.expr(st.iter)
            x = self.loopvar(st.target)
            body = [s for s in st.body if not self.is_skippable(s)]
            # leading tuple unpacking of a loop variable:  a, b = pair
            unpack = ""
            while body and isinstance(body[0], ast.Assign) and isinstance(body[0].targets[0], ast.Tuple) \
                    and isinstance(body[0].value, ast.Name):
                unpack += f"let {self.loopvar(body[0].targets[0])} := {body[0].value.id} in "
                body = body[1:]
            # find-first:  for x in xs: if c: return e
            if len(body) == 1 and isinstance(body[0], ast.If) and not body[0].orelse and \
                    len(body[0].body) == 1 and isinstance(body[0].body[0], ast.Return):
                c = self.cond(body[0].test)
                e = self.result(body[0].body[0].value)
                return (f"match find (fun {x} => {unpack}{c}) {it} with\n  | Some {x[1:] if x.startswith(chr(39)) else x} => {unpack}{e}\n"
                        f"  | None => {self.block(rest, tail)}\n  end")
            if unpack: raise TranslationError("tuple unpacking in an accumulating loop")
            vs = self.assigned(body)
            if not vs: raise TranslationError("loop without effect")
            tup = vs[0] if len(vs) == 1 else "(" + ", ".join(vs) + ")"
            pat = vs[0] if len(vs) == 1 else "'(" + ", ".join(vs) + ")"
            inner = self.block(body, tup)
            return (f"let {pat} := fold_left (fun {pat if len(vs) > 1 else vs[0]} {x} => {inner}) {it} {tup} in\n"
                    f"  {self.block(rest, tail)}")
        raise TranslationError(f"statement {self.src(st)[:80]}")

    def loopvar(self, t):
        if isinstance(t, ast.Name): return t.id
        if isinstance(t, ast.Tuple):
            def pat(n):
                if isinstance(n, ast.Name): return n.id
                if isinstance(n, ast.Tuple): return "(" + ", ".join(pat(k) for k in n.elts) + ")"
                raise TranslationError("loop target")
            return "'" + pat(t)
        raise TranslationError("loop target")

    def result(self, e):
        wrap = self.spec.get("return_wrap")
        s = self.src(e)
        if s in self.spec.get("returns", {}):
            v = self.spec["returns"][s]
        elif self.spec.get("return_type") == "bool":
            v = self.cond(e)
        else:
            v = self.expr(e)
        return f"({wrap} {v})" if wrap else v


def get_function(mod, qual):
    import importlib
    o = importlib.import_module(mod)
    for part in qual.split("."):
        o = getattr(o, part)
    if isinstance(o, property):
        o = o.fget
    if isinstance(o, staticmethod):
        o = o.__func__
    src = textwrap.dedent(inspect.getsource(o))
    tree = ast.parse(src)
    fn = tree.body[0]
    if not isinstance(fn, ast.FunctionDef):
        raise TranslationError(f"{mod}:{qual} is not a function")
    return fn


def translate(spec):
    """spec: dict(module, qualname, name, params=[(name, type)], ret, attrs, calls, fallthrough, ...)"""
    fn = get_function(spec["module"], spec["qualname"])
    tr = Tr(spec)
    body = tr.block(list(fn.body), spec.get("fallthrough", "None"))
    params = " ".join(f"({n} : {t})" for n, t in spec["params"])
    return (f"(* {spec['module']}.{spec['qualname']} *)\n"
            f"Definition {spec['name']} {params} : {spec['ret']} :=\n  {body}.\n")
