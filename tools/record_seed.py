#!/venv/bin/python
"""Record a confirmed seeded change: seeded_pending/<id> -> seeded/<id> with a completed meta.json.
usage: record_seed.py <id> <try_seed log> [--by CXX] [--strengthened "what was added"] [--round N]
The log is the output of tools/try_seed.sh; the change is only recorded when the log shows that the pinned suite
passed, the demo failed with and passed without the patch, and the check printed a VIOLATION line."""
import json, os, re, shutil, sys

VERIF = os.path.dirname(os.path.dirname(os.path.abspath(__file__)))


def main():
    a = sys.argv[1:]
    sid, log = a[0], a[1]
    by = a[a.index("--by") + 1] if "--by" in a else None
    strengthened = a[a.index("--strengthened") + 1] if "--strengthened" in a else None
    rnd = int(a[a.index("--round") + 1]) if "--round" in a else 3
    text = open(log).read()
    prop = sid.split("-")[0]
    checks = [
        ("164 passed" in text, "pinned suite did not pass"),
        ("demo exit with patch: 0" not in text and "demo exit with patch:" in text, "demo does not fail with the patch"),
        ("demo exit without patch: 0" in text, "demo does not pass without the patch"),
        ("VIOLATION property=" in text, "no VIOLATION line"),
    ]
    for ok, why in checks:
        if not ok:
            print(f"{sid}: NOT recorded: {why}")
            return 1
    src = os.path.join(VERIF, "seeded_pending", sid)
    dst = os.path.join(VERIF, "seeded", sid)
    if not os.path.isdir(src):
        print(f"{sid}: no such pending seed")
        return 1
    m = json.load(open(os.path.join(src, "meta.json")))
    viol = re.findall(r"VIOLATION property=(\S+) replay=(\S+)( no-failing-input-found)?", text)
    sigs = []
    for p, rp, nf in viol:
        try:
            j = json.load(open(rp))
            sigs.append((j.get("kind"), j.get("signature") or (j.get("failing") and "proof/model: " + str(j.get("failing"))[:120]) or "",
                         str(j.get("what"))[:300], bool(nf)))
        except Exception:
            sigs.append(("?", "", "", bool(nf)))
    summ = re.findall(r"^\[C\d\d\] tier=.*$", text, re.M)
    checker = by or prop
    how = "; ".join(f"{k} VIOLATION {s}" + (" (no-failing-input-found)" if nf else "") + (f": {w}" if w and w != "None" else "")
                    for k, s, w, nf in sigs[:2])
    if strengthened:
        how = f"first run MISSED. {strengthened} Then: " + how
    if by and by != prop:
        how = f"not seen by the {prop} check alone (see DESIGN.md section 12); detected by the {by} check: " + how
    out = {
        "property": prop, "round": rnd,
        "breaks": m.get("summary") or m.get("breaks") or m.get("what") or "",
        "needs": m.get("needs", ""),
        "files": m.get("files", []),
        "author": f"independent sub-agent given only the property text and a scratch worktree (round {rnd})",
        "confirmed": "tools/try_seed.sh: applied in a scratch worktree of /repo HEAD, pinned suite passes (164 passed), "
                     "demo.py fails with the patch and passes without",
        "ran": f"tools/try_seed.sh {checker} seeded/{sid}",
        "result": "detected after strengthening" if strengthened else ("detected by another property's check" if by and by != prop else "detected"),
        "how": how,
        "check_summary": summ[-1][:300] if summ else "",
    }
    if m.get("kind"):
        out["kind"] = m["kind"]
    os.makedirs(os.path.dirname(dst), exist_ok=True)
    if os.path.isdir(dst):
        shutil.rmtree(dst)
    shutil.move(src, dst)
    with open(os.path.join(dst, "meta.json"), "w") as f:
        json.dump(out, f, indent=1)
    print(f"{sid}: recorded ({out['result']})")
    return 0


sys.exit(main())
