#!/bin/sh
# usage: tools/try_seed.sh CXX <dir with patch.diff and demo.py> [tier]
# Applies the change in a scratch worktree of /repo HEAD (outside /repo and /verif), confirms that the pinned suite
# passes and that demo.py fails with / passes without the change, then runs the check against the changed tree.
P=$1; D=$2; T=${3:-quick}
WT=/tmp/wt-seed-$$
git -C /repo worktree add --detach $WT ${SEED_BASE:-HEAD} -q || exit 2
trap 'git -C /repo worktree remove --force '$WT' >/dev/null 2>&1' EXIT
cd $WT
git apply "$D/patch.diff" || { echo "patch does not apply"; exit 2; }
mkdir -p out/1; cp "$D"/*.py out/1/ 2>/dev/null; cp "$D"/*.py out/ 2>/dev/null   # demos may use paths relative to WT/out/n
/venv/bin/python -m pytest -q -p no:cacheprovider test 2>&1 | tail -n 1
PYTHONPATH=$WT timeout 300 /venv/bin/python out/1/demo.py >/dev/null 2>&1; echo "demo exit with patch: $?"
(cd /verif && VERIF_SEED_EVIDENCE_DIR=/tmp/seed-evidence CANOPEN_REPO=$WT harness/vcheck run $P --tier $T | tail -n 3 | cut -c1-240)
git checkout -- .
PYTHONPATH=$WT timeout 300 /venv/bin/python out/1/demo.py >/dev/null 2>&1; echo "demo exit without patch: $?"
