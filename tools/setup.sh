#!/bin/sh
# MANIFEST.setup_cmd: build the whole Coq development from clean, offline.
set -e
cd "$(dirname "$0")/.."
python3 tools/lint_coq.py || { echo "forbidden construct in the development" >&2; exit 1; }
GT=$(PYTHONPATH=/repo PYTHONHASHSEED=0 /venv/bin/python tools/gen_tables.py); echo "$GT"
case "$GT" in *FAILED*) echo "table generation failed" >&2; exit 1;; esac
find coq/theories \( -name '*.vo' -o -name '*.vok' -o -name '*.vos' -o -name '*.glob' -o -name '.*.aux' \) -delete
rm -rf coq/cases; mkdir -p coq/cases evidence replays
rm -f coq/_CoqProject coq/Makefile coq/Makefile.conf
sh coq/mkproject.sh
timeout 3000 make -C coq -j16 2>&1 | grep -v '^COQDEP\|^COQC' || true
# every file must have compiled
for f in $(find coq/theories -name '*.v'); do [ -f "${f}o" ] || { echo "not built: $f" >&2; exit 1; }; done
echo "setup ok"
