#!/usr/bin/env python3
"""Write MANIFEST.json from the table below (kept here so the manifest is always valid)."""
import json, os
HERE = os.path.dirname(os.path.dirname(os.path.abspath(__file__)))

ALL = [f"C{i:02d}" for i in range(1, 21)]

# property -> (design section, level text, level note, technique)
CHECKS = {k: (v["design_ref"], v["text"], v["note"], v["technique"]) for k, v in json.load(open(os.path.join(HERE, "tools", "manifest_entries.json"))).items()}

NOT_YET = {p: "check not built yet (in progress; see DESIGN.md section 9 build order)" for p in ALL if p not in CHECKS}

m = {
 "version": 1,
 "setup_cmd": "sh tools/setup.sh",
 "hooks": {"guard": "CANOPEN_VERIF", "enable": "no source hooks are needed: every observation point is reachable through the public API",
           "baseline_off_cmd": "cd /repo && /venv/bin/python -m pytest -ra -q -p no:cacheprovider --timeout=900 --continue-on-collection-errors",
           "source_commits": [], "add_only": True},
 "engines": [{"name": "vcheck", "path": "harness/vcheck", "serves_properties": sorted(CHECKS),
              "kind_free_text": "Coq 8.16 proofs (coq/theories) + regenerated tables + model-vs-implementation correspondence and independent oracles (harness/)"}],
 "checks": [],
 "notes": "Technique: machine-checked proof in Coq over hand-written executable models; see DESIGN.md. Known findings: known_findings.json.",
 "not_applicable": [{"property_id": p, "reason": r} for p, r in sorted(NOT_YET.items())],
}
for p in sorted(CHECKS):
    ref, text, note, tech = CHECKS[p]
    m["checks"].append({
        "property_id": p,
        "quick_cmd": f"harness/vcheck run {p} --tier quick",
        "thorough_cmd": f"harness/vcheck run {p} --tier thorough",
        "evidence_file": f"/verif/evidence/{p}.json",
        "replay_cmd_template": "harness/vcheck replay {path}",
        "engine": "vcheck",
        "level_claimed": {"category": "proof", "text": text, "design_ref": ref},
        "level_note": note,
        "technique": tech,
    })
json.dump(m, open(os.path.join(HERE, "MANIFEST.json"), "w"), indent=1)
print("MANIFEST.json written:", len(m["checks"]), "checks,", len(m["not_applicable"]), "not yet claimed")
