#!/usr/bin/env python3
"""Write MANIFEST.json from the table below (kept here so the manifest is always valid)."""
import json, os
HERE = os.path.dirname(os.path.dirname(os.path.abspath(__file__)))

ALL = [f"C{i:02d}" for i in range(1, 21)]

# property -> (design section, level text, level note, technique)
CHECKS = {
 "C15": ("6/C15",
         "Coq theorems over Model/PdoLink.v (PdoMap.transmit / on_message / callbacks / remote_request / subscribe and the network's dispatch to PDO handlers) composed with the C05 bit-field theorems: for every layout, value, producer and consumer map, the value written and transmitted is the value the subscribed consumer reads together with the frame's timestamp; a frame updates exactly the maps subscribed to its COB-ID and invokes each of their callbacks once in order (for every history, by the no-duplicate-subscription invariant); transmit sends exactly COB-ID and data; RTR rule. Partial: the condition-variable wake-up of wait_for_reception is not modelled and only exercised with a real second thread",
         "trusted: Coq kernel + vm_compute, correspondence harness; threading.Condition and python-can Message are not modelled",
         "Coq proof (invariant over operation sequences + composition with C05) + model/implementation correspondence on random operation histories"),
 "C05": ("6/C05",
         "Coq theorems over Model/Pdo.v (PdoMap layout, PdoVariable.get_data/set_data composed with the C04 codec) for every layout, every well-formed frame, every entry kind the property names (integer objects with their own length, sub-byte fields of 8-bit objects, BOOLEAN as one bit, REAL32/64) at every bit offset and every value: the value read is exactly the bit field (sign-extended from the mapped length), a write changes exactly the field bits to the value low bits and keeps the frame length, read-after-write, non-interference with disjoint fields, out-of-range values refused; tied to /repo by the regenerated type table and by evaluating model and implementation on the same layouts, frames and operation sequences",
         "trusted: Coq kernel + vm_compute, gen_tables.py, correspondence harness; CPython int.from_bytes/to_bytes and bytearray slicing are modelled, not verified",
         "Coq proof (bit-field lemmas over Z, induction on byte lists) + regenerated tables + model/implementation correspondence"),
 "C04": ("6/C04",
         "Coq theorems over Model/Codec.v for every type of the regenerated STRUCT_TYPES table, every integer value and every byte string: exact little-endian two's-complement encoding, both round trips, rejection outside the range and for wrong lengths, BOOLEAN, REAL32/64 on bit patterns, ASCII and UTF-16 text round trips; the model is tied to /repo by the regenerated table and by evaluating model and implementation on the same cases",
         "trusted: Coq kernel + vm_compute, gen_tables.py, correspondence harness; CPython struct float rounding and codecs are modelled, not verified",
         "Coq proof (arithmetic, induction on byte lists) + regenerated tables + model/implementation correspondence"),
}

NOT_YET = {p: "check not built yet (in progress; see DESIGN.md section 9 build order)" for p in ALL if p not in CHECKS}

m = {
 "version": 1,
 "setup_cmd": "sh tools/setup.sh",
 "hooks": {"guard": "CANOPEN_VERIF", "enable": "no source hooks are needed: every observation point is reachable through the public API",
           "baseline_off_cmd": "cd /repo && /venv/bin/python -m pytest -ra -q -p no:cacheprovider --timeout=900 --continue-on-collection-errors",
           "source_commits": [], "add_only": True},
 "engines": [{"name": "vcheck", "path": "harness/vcheck", "serves_properties": sorted(CHECKS),
              "kind_free_text": "Coq 8.16 proofs (coq/theories) + regenerated tables + model-vs-implementation correspondence and independent oracles (harness/)"}],
 "checks": [],
 "notes": "Technique: machine-checked proof in Coq over hand-written executable models; see DESIGN.md. Known findings: known_findings.json.",
 "not_applicable": [{"property_id": p, "reason": r} for p, r in sorted(NOT_YET.items())],
}
for p in sorted(CHECKS):
    ref, text, note, tech = CHECKS[p]
    m["checks"].append({
        "property_id": p,
        "quick_cmd": f"harness/vcheck run {p} --tier quick",
        "thorough_cmd": f"harness/vcheck run {p} --tier thorough",
        "evidence_file": f"/verif/evidence/{p}.json",
        "replay_cmd_template": "harness/vcheck replay {path}",
        "engine": "vcheck",
        "level_claimed": {"category": "proof", "text": text, "design_ref": ref},
        "level_note": note,
        "technique": tech,
    })
json.dump(m, open(os.path.join(HERE, "MANIFEST.json"), "w"), indent=1)
print("MANIFEST.json written:", len(m["checks"]), "checks,", len(m["not_applicable"]), "not yet claimed")
