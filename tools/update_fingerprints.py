#!/venv/bin/python
"""Record the AST fingerprints of the modelled functions of the CURRENT /repo (run after a deliberate
change of /repo, e.g. a fix: commit, once the models have been re-aligned).  Usage: update_fingerprints.py [CXX ...]"""
import importlib, json, os, sys
HERE = os.path.dirname(os.path.dirname(os.path.abspath(__file__)))
sys.path[:0] = [os.environ.get("CANOPEN_REPO", "/repo"), os.path.join(HERE, "harness")]
from vlib import coqrun
path = os.path.join(HERE, "fingerprints.json")
data = json.load(open(path)) if os.path.exists(path) else {}
props = sys.argv[1:] or [f[:-3].upper() for f in sorted(os.listdir(os.path.join(HERE, "harness", "props"))) if f.startswith("c") and f.endswith(".py")]
for p in props:
    mod = importlib.import_module(f"props.{p.lower()}")
    anchors = getattr(mod, "ANCHORS", [])
    if anchors:
        data[p] = coqrun.fingerprints(anchors)
json.dump(data, open(path, "w"), indent=1, sort_keys=True)
print("fingerprints.json:", {k: len(v) for k, v in data.items()})
