#!/usr/bin/env python3
"""Fail if the development declares an axiom or switches off a kernel check.
Comments and string literals are stripped first (Coq comments nest)."""
import os, re, sys
ROOT = os.path.join(os.path.dirname(os.path.dirname(os.path.abspath(__file__))), "coq", "theories")
BAD = re.compile(r"\b(Admitted|admit|give_up|Axiom|Axioms|Parameter|Parameters|Conjecture|Conjectures|Hypothesis|Hypotheses|"
                 r"Variable|Variables|Admit\s+Obligations)\b|Unset\s+Guard|Unset\s+Positivity|Unset\s+Universe|bypass_check|"
                 r"type-in-type|impredicative-set|native_compute|Program\s+Fixpoint|funelim")

def strip(src):
    out, i, depth, n = [], 0, 0, len(src)
    while i < n:
        if src.startswith("(*", i):
            depth += 1; i += 2; continue
        if depth and src.startswith("*)", i):
            depth -= 1; i += 2; continue
        if depth:
            if src[i] == "\n": out.append("\n")
            i += 1; continue
        if src[i] == '"':
            j = i + 1
            while j < n and src[j] != '"': j += 1
            out.append('""'); i = j + 1; continue
        out.append(src[i]); i += 1
    return "".join(out)

bad = 0
for d, _, fs in os.walk(ROOT):
    for f in fs:
        if not f.endswith(".v"): continue
        p = os.path.join(d, f)
        for k, line in enumerate(strip(open(p).read()).split("\n"), 1):
            m = BAD.search(line)
            if m:
                # `Context` is the only way hypotheses enter (inside Sections); flag everything else
                print(f"{p}:{k}: forbidden construct: {m.group(0)}: {line.strip()[:100]}")
                bad += 1
sys.exit(1 if bad else 0)
