import sys, logging, struct, random
sys.path.insert(0, '/repo')
import canopen
from canopen import objectdictionary as odm
from canopen.objectdictionary import ODVariable, ODRecord, ODArray, ObjectDictionary
logging.disable(logging.CRITICAL)
class Net(canopen.Network):
    def __init__(s): super().__init__(); s.out=[]
    def send_message(s, can_id, data, remote=False): s.out.append((can_id,bytes(data)))
def feed(net, d):
    net.out.clear()
    try: net.notify(0x605, bytearray(d), 0.0)
    except Exception as e: return "RAISED "+repr(e)
    return [x for _,x in net.out]
def ref_upload(net, idx, sub):
    """conformant client; returns bytes or ('abort',code) or ('viol',msg)"""
    r=feed(net, struct.pack("<BHB4x",0x40,idx,sub))
    if not isinstance(r,list) or len(r)!=1 or len(r[0])!=8: return ('viol',"resp count/len %r"%(r,))
    f=r[0]
    if f[0]==0x80: 
        if f[1:4]!=struct.pack("<HB",idx,sub): return ('viol','abort mux')
        return ('abort',struct.unpack_from("<L",f,4)[0])
    if f[0]>>5!=2 or f[1:4]!=struct.pack("<HB",idx,sub): return ('viol',"init resp %s"%f.hex())
    if f[0]&0x10: return ('viol',"reserved bit set in %s"%f.hex())
    e=(f[0]>>1)&1; s=f[0]&1; n=(f[0]>>2)&3
    if e:
        ln=4-n if s else 4
        if any(f[4+ln:]): return ('viol','exp padding')
        return f[4:4+ln]
    if n: return ('viol','n in seg init')
    size=struct.unpack_from("<L",f,4)[0] if s else None
    buf=b''; t=0
    for _ in range(100000):
        r=feed(net, bytes([0x60|(t<<4)])+bytes(7))
        if not isinstance(r,list) or len(r)!=1 or len(r[0])!=8: return ('viol',"seg resp %r"%(r,))
        f=r[0]
        if f[0]>>5!=0 or ((f[0]>>4)&1)!=t: return ('viol',"seg hdr %s"%f.hex())
        n=(f[0]>>1)&7; c=f[0]&1
        if any(f[8-n:]): return ('viol','seg padding')
        buf+=f[1:8-n]; t^=1
        if c:
            if size is not None and size!=len(buf): return ('viol','size %d vs %d'%(size,len(buf)))
            return buf
    return ('viol','endless')
def ref_download(net, idx, sub, data, mode):
    mux=struct.pack("<HB",idx,sub)
    if mode=='exp' and 1<=len(data)<=4:
        r=feed(net, bytes([0x23|((4-len(data))<<2)])+mux+data.ljust(4,b'\0'))
    else:
        r=feed(net, b'\x21'+mux+struct.pack("<L",len(data)))
        if isinstance(r,list) and len(r)==1 and r[0][0]==0x60:
            t=0; rest=data
            while True:
                chunk=rest[:7]; rest=rest[7:]; c=0 if rest else 1
                r=feed(net, bytes([(t<<4)|((7-len(chunk))<<1)|c])+chunk.ljust(7,b'\0'))
                if not (isinstance(r,list) and len(r)==1 and len(r[0])==8): return ('viol',"seg ack %r"%(r,))
                if r[0][0]==0x80: break
                if r[0][0]!=(0x20|(t<<4)): return ('viol','seg ack hdr %s'%r[0].hex())
                t^=1
                if c: return 'ok'
    if not (isinstance(r,list) and len(r)==1 and len(r[0])==8): return ('viol',"resp %r"%(r,))
    f=r[0]
    if f[0]==0x80: return ('abort',struct.unpack_from("<L",f,4)[0]) if f[1:4]==mux else ('viol','abort mux')
    if f[0]!=0x60 or f[1:4]!=mux: return ('viol','dl resp %s'%f.hex())
    return 'ok'
rng=random.Random(7); issues={}
def note(k,ex): issues.setdefault(k,[0,ex]); issues[k][0]+=1
for n in range(0,65):
    od=ObjectDictionary()
    for i,(nm,src) in enumerate((("store",'store'),("default",'default'),("value",'value'),("cb",'cb'))):
        v=ODVariable(nm,0x2000+i); v.data_type=odm.DOMAIN; od.add_object(v)
    data=bytes(rng.randrange(256) for _ in range(n))
    od[0x2001].default=data; od[0x2002].value=data; od[0x2002].default=b'zzz'
    net=Net(); node=net.create_node(5,od)
    node.data_store[0x2000]={0:data}
    seen=[]
    node.add_read_callback(lambda index,subindex,od,**k: data if index==0x2003 else None)
    node.add_write_callback(lambda index,subindex,od,data,**k: seen.append((index,subindex,bytes(data))))
    for i in range(4):
        r=ref_upload(net,0x2000+i,0)
        if r!=data: note("upload n=%d%s"%(n if n in (0,) else -1, ""), (n,i,r if isinstance(r,tuple) else r.hex()))
    for mode in ('exp','seg'):
        d2=bytes(rng.randrange(256) for _ in range(n))
        r=ref_download(net,0x2000,0,d2,mode)
        if r!='ok' or node.data_store[0x2000][0]!=d2 or seen[-1:]!=[(0x2000,0,d2)]: note("download",(n,mode,r))
        r=ref_upload(net,0x2000,0)
        if r!=d2: note("upload-after-download n0" if n==0 else "upload-after-download",(n,mode,r))
# garbage histories after one valid transfer
od=ObjectDictionary(); v=ODVariable("d",0x2000); v.data_type=odm.DOMAIN; v.default=b'0123456789abcdef'; od.add_object(v)
for trial in range(3000):
    net=Net(); node=net.create_node(5,od)
    ref_upload(net,0x2000,0)
    for step in range(rng.randrange(1,12)):
        k=rng.random()
        if k<0.4: fr=bytes(rng.randrange(256) for _ in range(rng.randrange(1,9)))
        elif k<0.6: fr=bytes([rng.choice([0x40,0x60,0x70,0x00,0x10,0x21,0x23,0x2F,0xA0,0xC0,0xE0,0x80])])+struct.pack("<HB",rng.choice([0x2000,0x3000]),rng.choice([0,1]))+bytes(rng.randrange(256) for _ in range(4))
        else: fr=bytes([rng.choice([0x60,0x70,0x40])])+struct.pack("<HB",0x2000,0)+bytes(4)
        r=feed(net,fr)
        is_abort = (fr[0]>>5)==4
        if isinstance(r,str): note("garbage RAISED", (fr.hex(), r)); break
        if is_abort and r: note("response to abort len=%d"%len(fr),(fr.hex(),))
        if not is_abort and (len(r)!=1 or len(r[0])!=8): note("garbage resp count", (fr.hex(), [x.hex() for x in r])); break
for k,(c,ex) in issues.items(): print(c,k,ex)
print("done")
