import sys, io, logging, struct, random, binascii
sys.path.insert(0, '/repo')
import canopen
from canopen import objectdictionary as odm
from canopen.objectdictionary import ODVariable, ObjectDictionary
logging.disable(logging.CRITICAL)
od = ObjectDictionary()
v=ODVariable("dom",0x2000); v.data_type=odm.DOMAIN; od.add_object(v)

class BlockUlServer(canopen.Network):
    def __init__(s, value, crc=True, drop=(), flip=(), badcrc=False, badend=False):
        super().__init__(); s.value=value; s.crc=crc; s.drop=set(drop); s.flip=dict(flip); s.badcrc=badcrc; s.badend=badend
        s.state='idle'; s.errors=[]; s.log=[]; s.nseg=0; s.acks=[]; s.ended=False; s.aborted=None
    def reply(s,d): s.notify(0x581, bytearray(d), 0.0)
    def send_block(s):
        # send up to blksize segments starting at s.pos
        s.blockstart=s.pos; seq=0
        while seq<s.blksize and (s.blockstart+seq*7 < len(s.value)):
            off=s.blockstart+seq*7; chunk=s.value[off:off+7]; seq+=1
            last = off+7>=len(s.value)
            fr=bytearray([seq|(0x80 if last else 0)])+chunk.ljust(7,b'\0')
            s.nseg+=1
            if s.nseg in s.flip: 
                byte,bit=s.flip[s.nseg]; fr[byte]^=1<<bit
            if s.nseg in s.drop: continue
            s.reply(fr)
        s.sent=seq
    def send_message(s, can_id, data, remote=False):
        d=bytes(data); s.log.append(d.hex())
        if len(d)!=8: s.errors.append("len")
        cs=d[0]&0xE0; sub=d[0]&3
        if cs==0x80: s.aborted=d; s.state='idle'; return
        if cs!=0xA0: s.errors.append("unexpected "+d.hex()); return
        if sub==0 and s.state=='idle':
            s.cc=bool(d[0]&4) and s.crc; s.blksize=d[4]; s.pos=0
            if not 1<=s.blksize<=127: s.errors.append("blksize")
            s.state='started'
            s.reply(struct.pack("<B3sL",0xC2|(4 if s.cc else 0),d[1:4],len(s.value)))
        elif sub==3 and s.state=='started':
            s.state='data'; s.send_block()
        elif sub==2 and s.state=='data':
            ackseq=d[1]; s.blksize=d[2]; s.acks.append((ackseq,s.sent))
            if ackseq>s.sent: s.errors.append("ackseq>sent")
            s.pos=s.blockstart+ackseq*7
            if s.pos>=len(s.value):
                n=(7-len(s.value)%7)%7
                crc=binascii.crc_hqx(s.value,0) if s.cc else 0
                if s.badcrc: crc^=0x0100
                s.state='end'
                s.reply(struct.pack("<BH5x",(0xC1 if not s.badend else 0xC2)|(n<<2),crc))
            else:
                s.send_block()
        elif sub==1 and s.state=='end':
            s.ended=True; s.state='idle'
        else: s.errors.append("unexpected "+d.hex()+" in "+s.state)

def run_ul(n, crc=True, **kw):
    value=bytes((i*13+5)&0xFF for i in range(n))
    net=BlockUlServer(value,crc,**kw); node=net.add_node(1,od); node.sdo.RESPONSE_TIMEOUT=0.005
    try:
        with node.sdo.open(0x2000,0,"rb",block_transfer=True,request_crc_support=crc) as f:
            got=f.read()
        out="ok"
    except Exception as e: out=type(e).__name__+":"+str(e); got=None
    return out, got==value, got, net
bad=0
for n in list(range(1,40))+[888,889,890,1777,1778,1779,5000]:
    for crc in (True,False):
        out,same,got,net=run_ul(n,crc)
        if out!="ok" or not same or net.errors or not net.ended:
            bad+=1
            if bad<8: print("UNDISTURBED FAIL n",n,"crc",crc,out,same,net.errors[:2],"ended",net.ended, "acks",net.acks[:3])
print("undisturbed bad",bad)
wrong=0; errs=0; oks=0
for n in (30, 100, 900):
    nseg=(n+6)//7
    for k in range(1,min(nseg,140)+1):
        for kw in (dict(drop=(k,)), dict(flip={k:(1,0)}), dict(flip={k:(7,7)})):
            out,same,got,net=run_ul(n,True,**kw)
            if out=="ok" and not same: wrong+=1; print("SILENT WRONG n",n,kw)
            elif out=="ok": oks+=1
            else: errs+=1
for kw in (dict(badcrc=True), dict(badend=True)):
    out,same,got,net=run_ul(50,True,**kw); print(kw,out,same)
print("with CRC: ok",oks,"errors",errs,"silent wrong",wrong)
