import sys, io, logging, struct, random, itertools
sys.path.insert(0, '/repo')
import canopen
from canopen import objectdictionary as odm
from canopen.objectdictionary import ODVariable, ObjectDictionary
from canopen.profiles.p402 import BaseNode402, State402
logging.disable(logging.CRITICAL)
od = ObjectDictionary()
for idx,name,dt in ((0x6040,"cw",odm.UNSIGNED16),(0x6041,"sw",odm.UNSIGNED16),(0x6060,"mode",odm.INTEGER8),(0x6061,"moded",odm.INTEGER8),(0x6502,"supp",odm.UNSIGNED32)):
    v=ODVariable(name,idx); v.data_type=dt; od.add_object(v)
SW = {'NOT READY TO SWITCH ON':0x00,'SWITCH ON DISABLED':0x40,'READY TO SWITCH ON':0x21,'SWITCHED ON':0x23,'OPERATION ENABLED':0x27,'FAULT':0x08,'FAULT REACTION ACTIVE':0x0F,'QUICK STOP ACTIVE':0x07}
class Drive:
    def __init__(s, state, sched, extra=0):
        s.state=state; s.sched=list(sched); s.extra=extra; s.cws=[]; s.trace=[state]
    def auto(s):
        if s.state=='NOT READY TO SWITCH ON': s.state='SWITCH ON DISABLED'; s.trace.append(s.state)
        elif s.state=='FAULT REACTION ACTIVE': s.state='FAULT'; s.trace.append(s.state)
    def maybe_auto(s):
        if s.sched and s.sched.pop(0): s.auto()
        elif not s.sched: s.auto()   # eventually always fires
    def upload(s, idx, sub):
        if idx==0x6041:
            s.maybe_auto()
            return struct.pack("<H", SW[s.state]|s.extra)
        raise KeyError
    def download(s, idx, sub, data, force_segment=False):
        assert idx==0x6040
        cw,=struct.unpack("<H",data); s.cws.append(cw)
        st=s.state; new=st
        if cw & 0x80 and st=='FAULT': new='SWITCH ON DISABLED'   # fault reset (level, simplified edge)
        elif cw&0x82==0x00 and st in('READY TO SWITCH ON','SWITCHED ON','OPERATION ENABLED','QUICK STOP ACTIVE'): new='SWITCH ON DISABLED'  # disable voltage (bit1=0)
        elif cw&0x86==0x02 and st in('READY TO SWITCH ON','SWITCHED ON'): new='SWITCH ON DISABLED'  # quick stop in these -> SOD
        elif cw&0x86==0x02 and st=='OPERATION ENABLED': new='QUICK STOP ACTIVE'
        elif cw&0x87==0x06 and st in('SWITCH ON DISABLED','SWITCHED ON','OPERATION ENABLED'): new='READY TO SWITCH ON'
        elif cw&0x8F==0x07 and st in('READY TO SWITCH ON','OPERATION ENABLED'): new='SWITCHED ON'
        elif cw&0x8F==0x0F and st=='READY TO SWITCH ON': new='SWITCHED ON'  # switch on + enable: at least switched on (conservative)
        elif cw&0x8F==0x0F and st in('SWITCHED ON','QUICK STOP ACTIVE'): new='OPERATION ENABLED'
        if new!=st: s.state=new; s.trace.append(new)
class Net(canopen.Network):
    def send_message(self,*a,**k): pass
states=list(SW)
bad=0
for frm in states:
  for tgt in states:
    for sched in ([],[0],[1],[0,0],[0,1],[1,0],[0,0,0,1],[0,0,1]):
      for extra in (0, 0x8000|0x0400|0x10, 0x0080):
        node=BaseNode402(3, od); Net().add_node(node)
        node.TIMEOUT_SWITCH_STATE_FINAL=0.05; node.TIMEOUT_SWITCH_STATE_SINGLE=0.02
        d=Drive(frm, sched, extra); node.sdo.upload=d.upload; node.sdo.download=d.download
        try:
            node.state = tgt; out="ok"
        except Exception as e: out=type(e).__name__+":"+str(e)
        commandable = tgt not in ('NOT READY TO SWITCH ON','FAULT','FAULT REACTION ACTIVE')
        enabled_op = 'OPERATION ENABLED' in d.trace[1:]
        if commandable:
            ok = out=="ok" and d.state==tgt and not (enabled_op and tgt not in('OPERATION ENABLED','QUICK STOP ACTIVE'))
        else:
            ok = (out.startswith("ValueError") and not d.cws) or (frm==tgt and out=="ok")
        if not ok:
            bad+=1
            if True: print("FAIL", frm,"->",tgt,"sched",sched,"extra",hex(extra),"out",out,"trace",d.trace,"cws",[hex(c) for c in d.cws])
print("bad",bad)
