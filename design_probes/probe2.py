import sys, io, logging
sys.path.insert(0, '/repo')
import canopen, struct
from canopen import objectdictionary as odm
from canopen.objectdictionary import ODVariable, ODRecord, ODArray, ObjectDictionary
logging.disable(logging.CRITICAL)
class Net(canopen.Network):
    def __init__(self):
        super().__init__()
        self.sent=[]
    def send_message(self, can_id, data, remote=False):
        self.sent.append((can_id, bytes(data)))
od = ObjectDictionary()
v = ODVariable("s", 0x2000); v.data_type = odm.VISIBLE_STRING; v.default=""; od.add_object(v)
v = ODVariable("d", 0x2001); v.data_type = odm.DOMAIN; od.add_object(v)
v = ODVariable("u", 0x2002); v.data_type = odm.UNSIGNED16; v.access_type="ro"; v.default=7; od.add_object(v)
v = ODVariable("w", 0x2003); v.data_type = odm.UNSIGNED16; v.access_type="wo"; od.add_object(v)
def fresh():
    net = Net(); n = net.create_node(5, od); return net, n
def feed(net, data):
    net.sent.clear()
    try:
        net.notify(0x605, bytearray(data), 0.0)
        return [d.hex() for _,d in net.sent]
    except Exception as e:
        return "RAISED "+repr(e)
net,n = fresh()
print("fresh unknown cmd e0:", feed(net, bytes([0xE0,0,0,0,0,0,0,0])))
net,n = fresh()
print("fresh seg upload 60:", feed(net, bytes([0x60,0,0,0,0,0,0,0])))
net,n = fresh()
print("fresh seg download 00:", feed(net, bytes([0x00,0,0,0,0,0,0,0])))
net,n = fresh()
print("fresh 1 byte 40:", feed(net, bytes([0x40])))
net,n = fresh()
print("upload empty string:", feed(net, struct.pack("<BHB4x",0x40,0x2000,0)))
print("then seg:", feed(net, bytes([0x60,0,0,0,0,0,0,0])))
print("upload ro:", feed(net, struct.pack("<BHB4x",0x40,0x2002,0)))
print("upload wo:", feed(net, struct.pack("<BHB4x",0x40,0x2003,0)))
print("dl to ro exp:", feed(net, struct.pack("<BHB4x",0x2B,0x2002,0)), n.data_store)
print("dl seg init to ro:", feed(net, struct.pack("<BHBL",0x21,0x2002,0,2)))
print("   seg:", feed(net, bytes([0x0B,1,2,0,0,0,0,0])), n.data_store)
print("dl wrong len exp 1 byte to u16 wo:", feed(net, struct.pack("<BHB4x",0x2F,0x2003,0)), n.data_store)
print("missing idx:", feed(net, struct.pack("<BHB4x",0x40,0x3000,0)))
print("missing sub on var:", feed(net, struct.pack("<BHB4x",0x40,0x2002,5)))
print("unknown cmd e0 after:", feed(net, bytes([0xE0,0,0,0,0,0,0,0])))
print("block dl c0:", feed(net, struct.pack("<BHB4x",0xC0,0x2001,0)))
print("short frame 3 bytes 40:", feed(net, bytes([0x40,0,0x20])))
# domain download of 0 bytes then upload
print("dl domain 0 init:", feed(net, struct.pack("<BHBL",0x21,0x2001,0,0)))
print("   seg:", feed(net, bytes([0x0F,0,0,0,0,0,0,0])), n.data_store)
print("ul domain:", feed(net, struct.pack("<BHB4x",0x40,0x2001,0)))
# toggle error
n.data_store[0x2001]={0:b'0123456789'}
print("ul domain10:", feed(net, struct.pack("<BHB4x",0x40,0x2001,0)))
print("seg wrong toggle:", feed(net, bytes([0x70,0,0,0,0,0,0,0])))
print("seg right toggle:", feed(net, bytes([0x60,0,0,0,0,0,0,0])))
print("seg :", feed(net, bytes([0x70,0,0,0,0,0,0,0])))
print("seg after end:", feed(net, bytes([0x60,0,0,0,0,0,0,0])))
