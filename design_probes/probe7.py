import sys, io, logging, struct, random
sys.path.insert(0, '/repo')
import canopen
from canopen import objectdictionary as odm
from canopen.objectdictionary import ODVariable, ODRecord, ODArray, ObjectDictionary
from canopen.sdo import SdoAbortedError
logging.disable(logging.CRITICAL)

def mkod(opt_subs=True):
    od = ObjectDictionary()
    for i,dt in enumerate([odm.UNSIGNED8, odm.INTEGER16, odm.UNSIGNED32, odm.BOOLEAN, odm.INTEGER8, odm.UNSIGNED16, odm.UNSIGNED8, odm.UNSIGNED8]):
        v = ODVariable(f"v{i}", 0x2000+i); v.data_type = dt; v.pdo_mappable=True; od.add_object(v)
    r = ODRecord("rec", 0x2100)
    for s in range(0,4):
        m = ODVariable(f"m{s}", 0x2100, s); m.data_type = odm.UNSIGNED8; r.add_member(m)
    od.add_object(r)
    for com,mp in ((0x1400,0x1600),(0x1800,0x1A00)):
        for n in (0, 1, 511):
            c = ODRecord(f"com{com+n:x}", com+n)
            subs = [(0,odm.UNSIGNED8),(1,odm.UNSIGNED32),(2,odm.UNSIGNED8)]
            if opt_subs: subs += [(3,odm.UNSIGNED16),(5,odm.UNSIGNED16),(6,odm.UNSIGNED8)]
            for s,dt in subs:
                m = ODVariable(f"c{s}", com+n, s); m.data_type=dt; c.add_member(m)
            od.add_object(c)
            a = ODRecord(f"map{mp+n:x}", mp+n)
            for s in range(0,9):
                m = ODVariable(f"e{s}", mp+n, s); m.data_type = odm.UNSIGNED8 if s==0 else odm.UNSIGNED32; a.add_member(m)
            od.add_object(a)
    return od

class StrictDevice:
    """regs[(idx,sub)] -> int ; refuses out-of-order PDO config writes"""
    def __init__(self, od):
        self.od=od; self.regs={}; self.log=[]; self.violations=[]
    def width(self, idx, sub):
        return len(self.od.get_variable(idx, sub))//8
    def upload(self, idx, sub):
        if (idx,sub) not in self.regs: raise SdoAbortedError(0x06090011)
        return self.regs[(idx,sub)].to_bytes(self.width(idx,sub),'little')
    def download(self, idx, sub, data, force_segment=False):
        val=int.from_bytes(data,'little'); self.log.append((idx,sub,val))
        if len(data)!=self.width(idx,sub): raise SdoAbortedError(0x06070010)
        com = idx if (0x1400<=idx<0x1600 or 0x1800<=idx<0x1A00) else None
        mp = idx if (0x1600<=idx<0x1800 or 0x1A00<=idx<0x1C00) else None
        if com is not None:
            valid = not (self.regs.get((com,1),1<<31) >> 31)
            if sub==1:
                # may change only bit31 while valid
                if valid and (val & 0x7FFFFFFF) != (self.regs[(com,1)] & 0x7FFFFFFF) and not (val>>31):
                    self.violations.append(("cobid changed while valid",idx,sub,val)); raise SdoAbortedError(0x06090030)
            elif valid:
                self.violations.append(("comm param while valid",idx,sub,val)); raise SdoAbortedError(0x06010000)
        if mp is not None:
            com = mp-0x200
            valid = not (self.regs.get((com,1),1<<31) >> 31)
            if valid:
                self.violations.append(("mapping while valid",idx,sub,val)); raise SdoAbortedError(0x06010000)
            if sub>0 and self.regs.get((mp,0),0)!=0:
                self.violations.append(("entry while count!=0",idx,sub,val)); raise SdoAbortedError(0x06010000)
            if sub==0 and val>0:
                for s in range(1,val+1):
                    if (mp,s) not in self.regs:
                        self.violations.append(("count beyond entries",idx,sub,val)); raise SdoAbortedError(0x06040042)
        self.regs[(idx,sub)]=val

def attach(node, dev):
    node.sdo.upload = dev.upload; node.sdo.download = dev.download
class Net(canopen.Network):
    def send_message(self,*a,**k): pass

rng = random.Random(1)
bad=0
for trial in range(3000):
    opt = rng.random()<0.7
    od = mkod(opt)
    net=Net(); node=canopen.RemoteNode(5, od); net.add_node(node)
    dev=StrictDevice(od)
    # prior state: random, possibly enabled with different mapping
    for com,mp in ((0x1400,0x1600),(0x1800,0x1A00)):
        for n in (0,1,511):
            dev.regs[(com+n,1)] = rng.choice([0x80000000|0x200, 0x185, 0x40000301])
            dev.regs[(com+n,2)] = rng.randrange(256)
            if opt: dev.regs[(com+n,3)]=rng.randrange(65536); dev.regs[(com+n,5)]=rng.randrange(65536); dev.regs[(com+n,6)]=rng.randrange(256)
            cnt=rng.randrange(0,3); dev.regs[(mp+n,0)]=cnt
            for s in range(1,9): dev.regs[(mp+n,s)] = (0x2000<<16|8) if s<=cnt else 0
    attach(node, dev)
    which = rng.choice(['rpdo','tpdo']); num = rng.choice([1,2,512])
    pm = getattr(node, which)[num]
    cob = rng.choice([rng.randrange(1,0x800), rng.randrange(0x800, 1<<29), 0x7FF, 0x1FFFFFFF, 1])
    pm.cob_id = cob; pm.enabled = rng.random()<0.6; pm.rtr_allowed = rng.random()<0.5
    pm.trans_type = rng.choice([0,1,240,252,253,254,255, rng.randrange(256)])
    if opt and rng.random()<0.6:
        pm.inhibit_time=rng.randrange(65536); pm.event_timer=rng.randrange(65536); pm.sync_start_value=rng.randrange(256)
    pm.clear()
    total=0; mapping=[]
    for k in range(rng.randrange(0,9)):
        idx = 0x2000+rng.randrange(8); var=od[idx]; ln=len(var) if var.data_type!=odm.BOOLEAN else 1
        if total+ln>64: break
        pm.add_variable(idx, 0, ln); total+=ln; mapping.append((idx,0,ln))
    dev.log.clear()
    try:
        pm.save()
    except Exception as e:
        print("SAVE RAISED", trial, repr(e), dev.violations, dev.log); bad+=1; continue
    if dev.violations: print("ORDER VIOLATION", trial, dev.violations); bad+=1; continue
    # read back into fresh node
    net2=Net(); node2=canopen.RemoteNode(5, od); net2.add_node(node2); attach(node2, dev)
    pm2 = getattr(node2, which)[num]
    pm2.read()
    got = (pm2.cob_id, pm2.enabled, pm2.rtr_allowed, pm2.trans_type, [(v.index,v.subindex,v.length) for v in pm2.map])
    exp = (cob, pm.enabled, pm.rtr_allowed, pm.trans_type, mapping)
    if got!=exp: print("READBACK MISMATCH", trial, got, exp); bad+=1
    sub = cob in net2.subscribers and pm2.on_message in net2.subscribers[cob]
    if sub != pm.enabled: print("SUBSCRIBE MISMATCH", trial, sub, pm.enabled); bad+=1
    if pm.trans_type>=254 and pm.inhibit_time is not None:
        if (pm2.inhibit_time,pm2.event_timer,pm2.sync_start_value)!=(pm.inhibit_time,pm.event_timer,pm.sync_start_value):
            print("TIMER MISMATCH", trial); bad+=1
    if bad>8: break
print("bad", bad)
