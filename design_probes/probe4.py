import sys, io, logging
sys.path.insert(0, '/repo')
import canopen, struct
from canopen import objectdictionary as odm
from canopen.objectdictionary import ODVariable, ODRecord, ODArray, ObjectDictionary
logging.disable(logging.CRITICAL)
# 1 sync restart leak
class Task:
    live=[]
    def __init__(s,msg,period): s.msg=msg; s.period=period; Task.live.append(s)
    def stop(s):
        if s in Task.live: Task.live.remove(s)
class Bus:
    channel_info="fake"
    def send(self,msg): pass
    def send_periodic(self,msg,period): return Task(msg,period)
    def shutdown(self): pass
net = canopen.Network(Bus())
net.sync.start(0.1); net.sync.start(0.2)
print("live sync tasks after 2 starts:", len(Task.live))
net.sync.stop(); print("after stop:", len(Task.live))
# 5 unknown datatype truncation
od = ObjectDictionary()
v = ODVariable("tod", 0x2000); v.data_type = odm.TIME_OF_DAY; od.add_object(v)
class Net2(canopen.Network):
    def send_message(self, can_id, data, remote=False):
        d=bytes(data)
        if d[0]==0x40: self.notify(0x581, bytearray(struct.pack("<BHBL",0x41,0x2000,0,6)),0)
        elif d[0]==0x60: self.notify(0x581, bytearray(b'\x03abcdef\x00'),0)
n2=Net2(); node=n2.add_node(1, od)
print("TIME_OF_DAY upload:", node.sdo.upload(0x2000,0))
# 6,7 EDS
eds_text = """[FileInfo]
FileName=x.eds
[DeviceInfo]
VendorName=V
Granularity=8
NrOfRXPDO=2
[MandatoryObjects]
SupportedObjects=0
[2000]
ParameterName=i24
ObjectType=0x7
DataType=0x0010
AccessType=rw
LowLimit=0x800000
HighLimit=0x7FFFFF
DefaultValue=-5
PDOMapping=0
"""
f = io.StringIO(eds_text); f.name="x.eds"
od2 = canopen.import_od(f, 1)
print("I24 min/max:", od2[0x2000].min, od2[0x2000].max, "granularity:", od2.device_information.granularity)
