import sys, io, logging, struct, random, binascii
sys.path.insert(0, '/repo')
import canopen
from canopen import objectdictionary as odm
from canopen.objectdictionary import ODVariable, ObjectDictionary
logging.disable(logging.CRITICAL)
od = ObjectDictionary()
v=ODVariable("dom",0x2000); v.data_type=odm.DOMAIN; od.add_object(v)

class BlockDlServer(canopen.Network):
    """conformant CiA301 block download server; blks: iterator of block sizes; drop: set of global segment ordinals to lose"""
    def __init__(s, blks, crc=True, drop=()):
        super().__init__(); s.blks=list(blks); s.crc=crc; s.drop=set(drop); s.state='idle'; s.store=None; s.errors=[]; s.nseg=0; s.log=[]
    def nextblk(s): return s.blks.pop(0) if len(s.blks)>1 else s.blks[0]
    def reply(s,d): s.notify(0x581, bytearray(d), 0.0)
    def send_message(s, can_id, data, remote=False):
        d=bytes(data); s.log.append(d.hex())
        if len(d)!=8: s.errors.append("len"); return
        if s.state=='data':
            s.nseg+=1
            seq=d[0]&0x7F; last=d[0]>>7
            if s.nseg in s.drop:
                s.lost_in_block=True   # frame lost; block end below models the server's own time-out
            elif seq==s.ackseq+1 and not s.lost_in_block:
                s.ackseq=seq; s.buf+=d[1:8]; s.lastflag=last
            else:
                s.lost_in_block=True
            # end of block when seq==blksize or last flag seen (server knows by count received)
            if seq==s.blksize or last:
                if s.lastflag and s.ackseq==seq:
                    s.state='end'
                else:
                    s.lastflag=0
                s.committed+=s.buf[:]; s.buf=b''
                s.blksize=s.nextblk(); ack=s.ackseq; s.ackseq=0; s.lost_in_block=False
                s.reply(struct.pack("<BBB5x",0xA2,ack,s.blksize))
            return
        cs=d[0]&0xE0
        if cs==0xC0 and d[0]&1==0 and s.state=='idle':
            s.cc=bool(d[0]&4) and s.crc; s.sizeind=bool(d[0]&2); s.size=struct.unpack_from("<L",d,4)[0]
            s.mux=d[1:4]; s.blksize=s.nextblk(); s.ackseq=0; s.buf=b''; s.committed=b''; s.lastflag=0; s.lost_in_block=False
            s.state='data'
            s.reply(bytes([0xA0|(4 if s.cc else 0)])+s.mux+bytes([s.blksize,0,0,0]))
        elif cs==0xC0 and d[0]&1==1 and s.state=='end':
            n=(d[0]>>2)&7; data=s.committed[:len(s.committed)-n]
            crc,=struct.unpack_from("<H",d,1)
            if s.cc and crc!=binascii.crc_hqx(data,0): s.errors.append("crc"); s.reply(struct.pack("<B3xL",0x80,0x05040004)); s.state='idle'; return
            if s.sizeind and len(data)!=s.size: s.errors.append("size"); s.reply(struct.pack("<B3xL",0x80,0x06070010)); s.state='idle'; return
            s.store=data; s.state='idle'; s.reply(b'\xA1'+bytes(7))
        elif cs==0x80: s.state='idle'; s.aborted=d
        else:
            s.errors.append("unexpected "+d.hex()+" in "+s.state); s.reply(struct.pack("<B3xL",0x80,0x05040001)); s.state='idle'

def run_dl(n, blks, crc=True, drop=()):
    net=BlockDlServer(blks,crc,drop); node=net.add_node(1,od); node.sdo.RESPONSE_TIMEOUT=0.005
    data=bytes((i*7+3)&0xFF for i in range(n))
    try:
        with node.sdo.open(0x2000,0,"wb",size=n,block_transfer=True,request_crc_support=crc) as f:
            f.write(data)
        out="ok"
    except Exception as e: out=type(e).__name__+":"+str(e)
    return out, net.store==data, net

bad=0
rng=random.Random(2)
for n in list(range(1,60))+[888,889,890,127*7*2-1,127*7*2,127*7*2+1,2000]:
    for blks in ([127],[1],[2],[3,5,1,7],[4],[126,1]):
        for crc in (True,False):
            out,same,net=run_dl(n,blks,crc)
            if out!="ok" or not same or net.errors:
                bad+=1
                if bad<8: print("UNDISTURBED FAIL n",n,"blks",blks,"crc",crc,out,same,net.errors[:2])
print("undisturbed bad",bad)
bad2=0; wrong=0
for n in (30, 100, 200):
    nseg=(n+6)//7
    for blks in ([4],[3,5,2],[127]):
        for k in range(1,nseg+1):
            out,same,net=run_dl(n,blks,True,drop=(k,))
            if out=="ok" and not same: wrong+=1; print("SILENT WRONG n",n,blks,"drop",k)
            # is k in final sub-block? approximate: report failures
            # position of k: which sub-block, is it final?
            sizes=list(blks); pos=0; final=False
            while True:
                b=sizes.pop(0) if len(sizes)>1 else sizes[0]
                if k<=pos+b: final = (pos+b>=nseg); break
                pos+=b
            if out!="ok" and not final: bad2+=1
            if out!="ok" and not final and bad2<10: print("loss n",n,"blks",blks,"drop seg",k,"of",nseg,"->",out,"store ok" if same else "store differs/none")
print("single-loss failures",bad2,"silent wrong",wrong)
