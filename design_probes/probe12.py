import sys, logging, struct, random, io
sys.path.insert(0, '/repo')
import canopen
from canopen import objectdictionary as odm
from canopen.objectdictionary import ODVariable, ObjectDictionary
logging.disable(logging.CRITICAL)
class RefServer(canopen.Network):
    """strict CiA301 server for node 1. style: dict(size_ind=True, exp_size=True, seglens=None)"""
    def __init__(s, store=None, style=None):
        super().__init__(); s.store=dict(store or {}); s.style=dict(size_ind=True,exp_size=True,seg=7); s.style.update(style or {})
        s.st=None; s.viol=[]; s.frames=[]
    def reply(s,d): assert len(d)==8; s.notify(0x581, bytearray(d), 0.0)
    def abort(s,mux,code): s.st=None; s.reply(b'\x80'+mux+struct.pack("<L",code))
    def send_message(s, can_id, data, remote=False):
        d=bytes(data); s.frames.append(d)
        if can_id!=0x601: s.viol.append("cobid"); return
        if len(d)!=8: s.viol.append("len %d"%len(d)); return
        cs=d[0]>>5; mux=d[1:4]
        if cs==1:   # initiate download
            e=(d[0]>>1)&1; sz=d[0]&1; n=(d[0]>>2)&3
            if d[0]&0x10: s.viol.append("reserved bit")
            if e:
                if not sz and n: s.viol.append("n without s")
                ln=4-n if sz else 4
                if any(d[4+ln:]): s.viol.append("exp padding")
                s.store[mux]=d[4:4+ln]; s.st=None
            else:
                if n: s.viol.append("n in segmented init")
                size=struct.unpack_from("<L",d,4)[0] if sz else None
                if not sz and any(d[4:]): s.viol.append("reserved nonzero")
                s.st=dict(kind='dl',mux=mux,size=size,buf=b'',t=0)
            s.reply(b'\x60'+mux+bytes(4))
        elif cs==0:  # download segment
            if not s.st or s.st['kind']!='dl': s.viol.append("seg without dl"); return s.abort(bytes(3),0x05040001)
            t=(d[0]>>4)&1; n=(d[0]>>1)&7; c=d[0]&1
            if t!=s.st['t']: s.viol.append("toggle"); return s.abort(s.st['mux'],0x05030000)
            if any(d[8-n:]): s.viol.append("seg padding")
            s.st['buf']+=d[1:8-n]; s.st['t']^=1
            if c:
                if s.st['size'] is not None and s.st['size']!=len(s.st['buf']): s.viol.append("size mismatch %s vs %d"%(s.st['size'],len(s.st['buf'])))
                s.store[s.st['mux']]=s.st['buf']; 
            s.reply(bytes([0x20|(t<<4)])+bytes(7))
            if c: s.st=None
        elif cs==2:  # initiate upload
            if d[0]&0x1F or any(d[4:]): s.viol.append("upload req reserved")
            if mux not in s.store: return s.abort(mux,0x06020000)
            v=s.store[mux]
            if 1<=len(v)<=4 and s.style.get('expedite',True):
                if s.style['exp_size']: s.reply(bytes([0x43|((4-len(v))<<2)])+mux+v.ljust(4,b'\0'))
                else: s.reply(b'\x42'+mux+v.ljust(4,b'\0'))
                s.st=None
            else:
                s.st=dict(kind='ul',mux=mux,rest=v,t=0)
                if s.style['size_ind']: s.reply(b'\x41'+mux+struct.pack("<L",len(v)))
                else: s.reply(b'\x40'+mux+bytes(4))
        elif cs==3:  # upload segment
            if not s.st or s.st['kind']!='ul': s.viol.append("seg without ul"); return s.abort(bytes(3),0x05040001)
            t=(d[0]>>4)&1
            if d[0]&0x0F or any(d[1:]): s.viol.append("ul seg reserved")
            if t!=s.st['t']: s.viol.append("toggle"); return s.abort(s.st['mux'],0x05030000)
            k=s.style['seg'] if isinstance(s.style['seg'],int) else s.style['seg'](len(s.st['rest']))
            chunk=s.st['rest'][:k]; s.st['rest']=s.st['rest'][k:]; c=0 if s.st['rest'] else 1
            s.reply(bytes([(t<<4)|((7-len(chunk))<<1)|c])+chunk.ljust(7,b'\0')); s.st['t']^=1
            if c: s.st=None
        elif cs==4: s.st=None
        else: s.viol.append("unknown cs"); s.abort(mux,0x05040001)
od=ObjectDictionary()
v=ODVariable("dom",0x2000); v.data_type=odm.DOMAIN; od.add_object(v)
v=ODVariable("u16",0x2001); v.data_type=odm.UNSIGNED16; od.add_object(v)
bad=0
def data(n,seed=0): return bytes(((i*31+seed*7+1)&0xFF) or 1 for i in range(n))
mux=lambda i,s: struct.pack("<HB",i,s)
for n in range(0,65):
    for cfg in ("download","force","open_nosize_b0","open_nosize_b1024","open_size_b7_split"):
        net=RefServer(); node=net.add_node(1,od); node.sdo.RESPONSE_TIMEOUT=0.01
        d=data(n)
        try:
            if cfg=="download": node.sdo.download(0x3000,7,d)
            elif cfg=="force": node.sdo.download(0x3000,7,d,force_segment=True)
            elif cfg=="open_nosize_b0":
                with node.sdo.open(0x3000,7,"wb",buffering=0) as f:
                    rest=d
                    while rest: k=f.write(rest); rest=rest[k:]
            elif cfg=="open_nosize_b1024":
                with node.sdo.open(0x3000,7,"wb") as f:
                    for i in range(0,n,5): f.write(d[i:i+5])
            else:
                with node.sdo.open(0x3000,7,"wb",buffering=7,size=n) as f:
                    for i in range(0,n,3): f.write(d[i:i+3])
            out="ok"
        except Exception as e: out=type(e).__name__+":"+str(e)
        got=net.store.get(mux(0x3000,7))
        if out!="ok" or got!=d or net.viol:
            bad+=1
            if bad<10: print("DL FAIL n",n,cfg,out,"store",None if got is None else got.hex(),net.viol[:3])
print("download bad",bad)
bad=0
for n in range(0,65):
    for style in (dict(),dict(size_ind=False),dict(exp_size=False),dict(expedite=False),dict(seg=1),dict(seg=lambda r: 3 if r>10 else 7)):
        for mode in ("upload","open_b0_read","open_b1024_read5"):
            d=data(n,1)
            net=RefServer({mux(0x3000,7):d},style); node=net.add_node(1,od); node.sdo.RESPONSE_TIMEOUT=0.01
            try:
                if mode=="upload": got=node.sdo.upload(0x3000,7)
                elif mode=="open_b0_read":
                    with node.sdo.open(0x3000,7,"rb",buffering=0) as f: got=f.read()
                else:
                    with node.sdo.open(0x3000,7,"rb") as f:
                        got=b''
                        while True:
                            c=f.read(5)
                            if not c: break
                            got+=c
                out="ok"
            except Exception as e: out=type(e).__name__+":"+str(e); got=None
            exp=d
            if style.get('exp_size')==False and 1<=n<=4 and style.get('expedite',True): exp=d.ljust(4,b'\0')
            if n==0 and False: pass
            if out!="ok" or got!=exp or net.viol:
                bad+=1
                if bad<10: print("UL FAIL n",n,style,mode,out,None if got is None else got.hex(),"exp",exp.hex(),net.viol[:3])
print("upload bad",bad)
