From Coq Require Import ZArith List Lia Bool.
Import ListNotations.
Open Scope Z_scope.
Definition set_field (old off len v : Z) : Z :=
  Z.lor (Z.land old (Z.lnot (Z.shiftl (Z.ones len) off))) (Z.shiftl (Z.land v (Z.ones len)) off).
Definition get_field (w off len : Z) : Z := Z.land (Z.shiftr w off) (Z.ones len).
Lemma set_field_spec old off len v i : 0 <= off -> 0 <= len -> 0 <= i ->
  Z.testbit (set_field old off len v) i =
  if (off <=? i) && (i <? off + len) then Z.testbit v (i - off) else Z.testbit old i.
Proof.
  intros Ho Hl Hi. unfold set_field.
  rewrite Z.lor_spec, Z.land_spec, Z.lnot_spec by lia.
  rewrite !Z.shiftl_spec by lia. rewrite Z.land_spec.
  destruct (off <=? i) eqn:E1; destruct (i <? off + len) eqn:E2; cbn [andb].
  - rewrite Z.ones_spec_low by lia. cbn. rewrite andb_false_r. cbn. now rewrite andb_true_r.
  - rewrite Z.ones_spec_high by lia. cbn. now rewrite andb_true_r, andb_false_r, orb_false_r.
  - rewrite (Z.testbit_neg_r _ (i-off)) by lia. cbn. rewrite andb_true_r. rewrite (Z.testbit_neg_r _ (i-off)) by lia. now rewrite orb_false_r.
  - rewrite (Z.testbit_neg_r _ (i-off)) by lia. cbn. rewrite andb_true_r. rewrite (Z.testbit_neg_r _ (i-off)) by lia. now rewrite orb_false_r.
Qed.
Lemma get_set old off len v : 0 <= off -> 0 <= len -> get_field (set_field old off len v) off len = Z.land v (Z.ones len).
Proof.
  intros. apply Z.bits_inj'. intros i Hi. unfold get_field.
  rewrite !Z.land_spec, Z.shiftr_spec by lia. rewrite set_field_spec by lia.
  destruct (i <? len) eqn:E.
  - replace (off <=? i+off) with true by lia. replace (i + off <? off + len) with true by lia. cbn. now replace (i+off-off) with i by lia.
  - rewrite Z.ones_spec_high by lia. now rewrite !andb_false_r.
Qed.
Print Assumptions get_set.
