import sys, io, logging
sys.path.insert(0, '/repo')
import canopen, struct
from canopen.sdo import client as C
logging.disable(logging.CRITICAL)
calls=[]
class FakeClient:
    rx_cobid=0x601
    def request_response(self, req):
        r=bytes(req); cs=r[0]&0xE0
        if cs==0x20: return b'\x60'+r[1:4]+bytes(4)
        if cs==0x00: return bytes([0x20|(r[0]&0x10)])+bytes(7)
        raise AssertionError(r.hex())
orig_write = C.WritableStream.write
def logged(self,b):
    n = orig_write(self,b); calls.append((len(b), n)); return n
C.WritableStream.write = logged
def run(buffering, size, writes, data_len):
    calls.clear()
    data=bytes(range(data_len))
    raw = C.WritableStream(FakeClient(), 0x2000, 0, size, False)
    fp = io.BufferedWriter(raw, buffer_size=buffering if buffering>1 else io.DEFAULT_BUFFER_SIZE) if buffering else raw
    pos=0
    try:
        for w in writes:
            chunk=data[pos:pos+w]; pos+=w
            if buffering: fp.write(chunk)
            else:
                while chunk:
                    n=fp.write(chunk); chunk=chunk[n:]
        fp.close()
        print(f"buf={buffering} size={size} writes={writes}: raw calls (offered,accepted)={calls}")
    except Exception as e:
        print(f"buf={buffering} size={size} writes={writes}: ERR {type(e).__name__} {e} calls={calls}")
run(7, 20, [20], 20)
run(7, 3, [3], 3)
run(7, 4, [1,1,1,1], 4)
run(1024, 20, [3,3,3,3,3,3,2], 20)
run(1024, None, [10, 10], 20)
run(7, None, [5,5,5,5], 20)
run(0, 20, [20], 20)
run(0, None, [9,11], 20)
run(1024, 2000, [2000], 2000) if False else None
run(8, 30, [5]*6, 30)
run(5, 30, [4]*7+[2], 30)
