import sys, io, logging
sys.path.insert(0, '/repo')
import canopen, struct
from canopen import objectdictionary as odm
from canopen.objectdictionary import ODVariable, ObjectDictionary
logging.disable(logging.CRITICAL)
od = ObjectDictionary()
v = ODVariable("dom", 0x2000); v.data_type = odm.DOMAIN; od.add_object(v)
class Net2(canopen.Network):
    step=0
    def send_message(self, can_id, data, remote=False):
        d=bytes(data); self.log.append(d.hex())
        if d[0]==0x40: self.notify(0x581, bytearray(struct.pack("<BHBL",0x41,0x2000,0,10)),0)
        elif d[0]&0xE0==0x60:
            segs=[b'\x00abcdefg', b'\x1e\0\0\0\0\0\0\0', b'\x0bhij\0\0\0\0']
            self.notify(0x581, bytearray(segs[self.step]),0); self.step+=1
n2=Net2(); n2.log=[]; node=n2.add_node(1, od); node.sdo.RESPONSE_TIMEOUT=0.01
print("upload with empty middle segment:", node.sdo.upload(0x2000,0), n2.log)
# block download lost ack
class Net3(canopen.Network):
    def send_message(self, can_id, data, remote=False):
        d=bytes(data); self.log.append(d.hex())
        if d[0]&0xE1==0xC0 and len(self.log)==1: self.notify(0x581, bytearray(struct.pack("<BHBB3x",0xA4,0x2000,0,4)),0)
n3=Net3(); n3.log=[]; node=n3.add_node(1, od); node.sdo.RESPONSE_TIMEOUT=0.01
try:
    with node.sdo.open(0x2000,0,"wb",size=60,block_transfer=True) as f:
        f.write(bytes(range(60)))
    print("returned normally")
except Exception as e: print("raised", type(e).__name__, e)
print(n3.log)
