From Coq Require Import ZArith List Bool Lia Arith.
Import ListNotations.
Open Scope Z_scope.

(* ---------- client: WritableStream.write (segmented branch) ---------- *)
Record cst := { c_toggle : bool; c_pos : nat; c_done : bool }.
Definition b2z (b:bool) : Z := if b then 1 else 0.
Definition pad (l : list Z) (n : nat) := l ++ repeat 0 (n - length l).

Definition seg_write (size : option nat) (c : cst) (b : list Z) : cst * list Z * nat :=
  let n := Nat.min (length b) 7 in
  let last := match size with Some s => (s <=? c_pos c + n)%nat | None => false end in
  let cmd := 16 * b2z (c_toggle c) + b2z last + 2 * (7 - Z.of_nat n) in
  ({| c_toggle := negb (c_toggle c); c_pos := (c_pos c + n)%nat; c_done := last |},
   cmd :: pad (firstn n b) 7, n).

(* ---------- reference server: segment download step ---------- *)
Record sst := { s_toggle : bool; s_buf : list Z; s_commit : option (list Z); s_bad : bool }.
Definition srv_seg (s : sst) (fr : list Z) : sst :=
  match fr with
  | cmd :: data =>
      let t := Z.testbit cmd 4 in
      let c := Z.testbit cmd 0 in
      let n := Z.to_nat (Z.land (Z.shiftr cmd 1) 7) in
      if negb (Z.shiftr cmd 5 =? 0) || negb (Bool.eqb t (s_toggle s)) || negb (length fr =? 8)%nat
         || negb (forallb (fun x => x =? 0) (skipn (7 - n) data))
      then {| s_toggle := s_toggle s; s_buf := s_buf s; s_commit := s_commit s; s_bad := true |}
      else
        let buf := s_buf s ++ firstn (7 - n) data in
        {| s_toggle := negb (s_toggle s); s_buf := buf;
           s_commit := if c then Some buf else s_commit s; s_bad := s_bad s |}
  | [] => {| s_toggle := s_toggle s; s_buf := s_buf s; s_commit := s_commit s; s_bad := true |}
  end.

(* ---------- driver: schedule = offered sizes ---------- *)
Fixpoint drive (size : option nat) (sched : list nat) (data : list Z) (c : cst) (s : sst) : cst * sst * list Z :=
  match sched with
  | [] => (c, s, data)
  | k :: ks =>
      let '(c', fr, a) := seg_write size c (firstn k data) in
      drive size ks (skipn a data) c' (srv_seg s fr)
  end.

Fixpoint valid_sched (sched : list nat) (len : nat) : Prop :=
  match sched with
  | [] => len = 0%nat
  | k :: ks => (1 <= k <= len)%nat /\ valid_sched ks (len - Nat.min k 7)
  end.

Definition bytes_ok (l : list Z) := Forall (fun b => 0 <= b < 256) l.

Lemma cmd_bits (t last : bool) (n : nat) : (n <= 7)%nat ->
  let cmd := 16 * b2z t + b2z last + 2 * (7 - Z.of_nat n) in
  Z.shiftr cmd 5 = 0 /\ Z.testbit cmd 4 = t /\ Z.testbit cmd 0 = last /\
  Z.to_nat (Z.land (Z.shiftr cmd 1) 7) = (7 - n)%nat.
Proof.
  intros Hn. destruct t, last; cbn [b2z];
  do 8 (destruct n as [|n]; [cbn; repeat split; reflexivity|]); lia.
Qed.

Lemma pad_len l n : (length l <= n)%nat -> length (pad l n) = n.
Proof. intros. unfold pad. rewrite app_length, repeat_length. lia. Qed.

Lemma firstn_pad l n : firstn (length l) (pad l n) = l.
Proof. unfold pad. rewrite firstn_app, firstn_all, Nat.sub_diag. cbn. now rewrite app_nil_r. Qed.

Lemma skipn_pad_zero l n : forallb (fun x => x =? 0) (skipn (length l) (pad l n)) = true.
Proof.
  unfold pad. rewrite skipn_app, skipn_all, Nat.sub_diag. cbn.
  induction (n - length l)%nat; cbn; auto.
Qed.

(* one step: server accepts the client's frame and appends exactly the accepted bytes *)
Lemma step_ok size c s b : b <> [] -> c_toggle c = s_toggle s ->
  let '(c', fr, a) := seg_write size c b in
  let s' := srv_seg s fr in
  a = Nat.min (length b) 7 /\ c_toggle c' = s_toggle s' /\ s_bad s' = s_bad s /\
  s_buf s' = s_buf s ++ firstn a b /\
  s_commit s' = (if c_done c' then Some (s_buf s') else s_commit s) /\
  c_pos c' = (c_pos c + a)%nat.
Proof.
  intros Hb Ht. unfold seg_write.
  set (n := Nat.min (length b) 7).
  set (last := match size with Some s0 => (s0 <=? c_pos c + n)%nat | None => false end).
  assert (Hn : (n <= 7)%nat) by (unfold n; lia).
  destruct (cmd_bits (c_toggle c) last n Hn) as (H5 & H4 & H0 & Hnn).
  cbn zeta in *. unfold srv_seg.
  assert (Hl : length (firstn n b) = n) by (rewrite firstn_length; unfold n; lia).
  rewrite H5, H4, H0, Hnn. cbn [length].
  rewrite pad_len by lia.
  replace (7 - (7 - n))%nat with n by lia.
  rewrite Ht, Bool.eqb_reflx. cbn [negb orb Z.eqb Nat.eqb].
  assert (Hz : forallb (fun x => x =? 0) (skipn n (pad (firstn n b) 7)) = true)
    by (rewrite <- Hl at 1; apply skipn_pad_zero).
  assert (Hf : firstn n (pad (firstn n b) 7) = firstn n b)
    by (rewrite <- Hl at 1; apply firstn_pad).
  rewrite Hz, Hf. cbn [negb orb].
  cbn [c_toggle c_pos c_done s_toggle s_buf s_commit s_bad].
  repeat split; reflexivity.
Qed.

Theorem drive_delivers size : forall sched data c s,
  valid_sched sched (length data) -> c_toggle c = s_toggle s -> s_bad s = false ->
  let '(c', s', rest) := drive size sched data c s in
  rest = [] /\ s_bad s' = false /\ s_buf s' = s_buf s ++ data /\ c_toggle c' = s_toggle s' /\
  c_pos c' = (c_pos c + length data)%nat.
Proof.
  induction sched as [|k ks IH]; intros data c s Hv Ht Hb; cbn [drive valid_sched] in *.
  - destruct data; [|discriminate]. cbn. rewrite app_nil_r. repeat split; auto.
  - destruct Hv as [Hk Hv].
    assert (Hne : firstn k data <> []) by (destruct data, k; cbn in *; try lia; discriminate).
    pose proof (step_ok size c s (firstn k data) Hne Ht) as Hs.
    destruct (seg_write size c (firstn k data)) as [[c' fr] a].
    destruct Hs as (Ha & Ht' & Hb' & Hbuf & _ & Hpos).
    rewrite firstn_length in Ha. replace (Nat.min (Nat.min k (length data)) 7) with (Nat.min k 7) in Ha by lia.
    specialize (IH (skipn a data) c' (srv_seg s fr)).
    rewrite skipn_length in IH. subst a.
    specialize (IH Hv Ht' (eq_trans Hb' Hb)).
    destruct (drive size ks (skipn (Nat.min k 7) data) c' (srv_seg s fr)) as [[c'' s''] rest].
    destruct IH as (Hr & Hbad & Hbuf2 & Htog & Hpos2).
    repeat split; auto.
    + rewrite Hbuf2, Hbuf, <- app_assoc. f_equal.
      rewrite firstn_firstn. replace (Nat.min (Nat.min k 7) k) with (Nat.min k 7) by lia.
      apply firstn_skipn.
    + rewrite Hpos2, Hpos. lia.
Qed.
Print Assumptions drive_delivers.
