import sys, logging, struct, random
sys.path.insert(0, '/repo')
import canopen, canopen.lss as L
logging.disable(logging.CRITICAL)
class NoSleep:
    def sleep(self, t): pass
    def time(self): import time; return time.time()
L.time = NoSleep()
class Slave(canopen.Network):
    def __init__(s, ident=None):
        super().__init__(); s.ident=ident; s.pos=0; s.config=False; s.frames=[]; s.node_id=0xFF; s.sel=[None]*4
    def reply(s,d): s.notify(0x7E4, bytearray(d), 0.0)
    def send_message(s, can_id, data, remote=False):
        d=bytes(data); s.frames.append((can_id,d))
        assert can_id==0x7E5 and len(d)==8, (can_id,d)
        if s.ident is None: return
        cs=d[0]
        if cs==0x51:
            idn,bitchk,sub,nxt=struct.unpack_from("<IBBB",d,1)
            if bitchk==128: s.pos=0; s.reply(b'\x4f'+bytes(7)); return
            if sub!=s.pos: return
            mask=(0xFFFFFFFF<<bitchk)&0xFFFFFFFF
            if (s.ident[sub]&mask)==(idn&mask):
                s.reply(b'\x4f'+bytes(7)); s.pos=nxt
                if bitchk==0 and nxt<sub: s.config=True
        elif cs==0x04: s.config=bool(d[1])
        elif 0x40<=cs<=0x43:
            s.sel[cs-0x40]=struct.unpack_from("<I",d,1)[0]
            if cs==0x43 and s.sel==list(s.ident): s.config=True; s.reply(b'\x44'+bytes(7))
        elif s.config and cs==0x5E: s.reply(bytes([0x5E,s.node_id])+bytes(6))
        elif s.config and 0x5A<=cs<=0x5D: s.reply(bytes([cs])+struct.pack("<I",s.ident[cs-0x5A])+bytes(3))
        elif s.config and cs==0x11:
            ok = 1<=d[1]<=127 or d[1]==255
            if ok: s.node_id=d[1]
            s.reply(bytes([0x11, 0 if ok else 1])+bytes(6))
        elif s.config and cs==0x13: s.reply(bytes([0x13, 0 if d[2]<=8 else 1])+bytes(6))
        elif s.config and cs==0x17: s.reply(bytes([0x17,0])+bytes(6))
rng=random.Random(3); bad=0
idents=[[0,0,0,0],[0xFFFFFFFF]*4]+[[ (1<<b) if p==q else 0 for q in range(4)] for p in range(4) for b in (0,1,15,31)]+[[0xFFFFFFFF^(1<<b) if p==q else 0xFFFFFFFF for q in range(4)] for p in range(4) for b in (0,31)]+[[rng.getrandbits(32) for _ in range(4)] for _ in range(40)]
for ident in idents:
    net=Slave(ident); net.lss.RESPONSE_TIMEOUT=0.0
    ok,got=net.lss.fast_scan()
    if not ok or got!=ident or not net.config: bad+=1; print("FAIL",ident,ok,got,net.config)
net=Slave(None); net.lss.RESPONSE_TIMEOUT=0.0; print("no slave:", net.lss.fast_scan())
net=Slave([1,2,3,4]); net.lss.RESPONSE_TIMEOUT=0.0
print("selective:", net.lss.send_switch_state_selective(1,2,3,4), "inq node", net.lss.inquire_node_id(), "vendor", net.lss.inquire_lss_address(L.CS_INQUIRE_VENDOR_ID), net.lss.inquire_lss_address(L.CS_INQUIRE_SERIAL_NUMBER))
for nid in (5,0,200):
    try: net.lss.configure_node_id(nid); print("cfg",nid,"ok")
    except Exception as e: print("cfg",nid,type(e).__name__,e)
try: net.lss.configure_bit_timing(9)
except Exception as e: print("bt 9",type(e).__name__,e)
net.lss.store_configuration(); net.lss.activate_bit_timing(500); net.lss.send_switch_state_global(0)
print([f[1].hex() for f in net.frames[-3:]])
print("bad",bad)
