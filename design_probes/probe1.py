import sys, io
sys.path.insert(0, '/repo')
import canopen, struct
from canopen import objectdictionary as odm
from canopen.objectdictionary import ODVariable, ODRecord, ODArray, ObjectDictionary

# ---- C05 probes
def mkod(specs):
    od = ObjectDictionary()
    for i,(dt,) in enumerate(specs):
        v = ODVariable(f"v{i}", 0x2000+i); v.data_type = dt; od.add_object(v)
    # PDO comm/map
    for base in (0x1400,0x1600,0x1800,0x1A00):
        r = ODRecord("r%x"%base, base)
        for s in range(0,9):
            m = ODVariable("m%d"%s, base, s); m.data_type = odm.UNSIGNED32; r.add_member(m)
        od.add_object(r)
    return od
od = mkod([(odm.BOOLEAN,),(odm.UNSIGNED16,),(odm.INTEGER8,),(odm.UNSIGNED8,)])
node = canopen.RemoteNode(1, od)
pm = node.tpdo[1]
pm.add_variable(0x2000, 0, 1)
pm.add_variable(0x2001, 0)
print("len", pm.length, len(pm.data))
pm.data = bytearray(b'\xff\xff\xff')
print("U16@1 read", hex(pm[1].raw), "expected 0xffff")
pm.data = bytearray(3)
try:
    pm[1].raw = 0xffff
    print("after write", pm.data.hex(), "expected feff01")
except Exception as e: print("write error", repr(e))

pm.clear()
pm.add_variable(0x2002, 0, 4)   # I8 4 bits at 0
pm.add_variable(0x2003, 0, 4)   # U8 4 bits at 4
pm.data = bytearray(b'\x08')
print("I4 most negative read", pm[0].raw, "expected -8")
pm.data = bytearray(b'\x80')
try:
    pm[0].raw = 3
    print("after write", pm.data.hex(), "expected 83")
except Exception as e: print("write error", repr(e))
pm.data = bytearray(b'\x80')
try:
    pm[0].raw = -2
    print("after write", pm.data.hex(), "expected 8e")
except Exception as e: print("write error", repr(e))
