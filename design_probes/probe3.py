import sys, io, logging
sys.path.insert(0, '/repo')
import canopen, struct
from canopen import objectdictionary as odm
from canopen.objectdictionary import ODVariable, ODRecord, ODArray, ObjectDictionary
logging.disable(logging.CRITICAL)
od = ObjectDictionary()
v = ODVariable("u", 0x2002); v.data_type = odm.UNSIGNED32; v.default=0; od.add_object(v)
v.add_bit_definition("F", [2,3,4])
n = canopen.LocalNode(1, od)
x = n.sdo[0x2002]
x.raw = 0xFFFF0000
for key in (3, [2,3,4], "F", slice(2,5), slice(2,5,1)):
    try:
        x.bits[key] = 5
        print(key, "->", hex(x.raw), x.bits[key])
    except Exception as e:
        print(key, "ERR", repr(e))
# codec
I24 = ODVariable("i24", 0x2003); I24.data_type = odm.INTEGER24
U24 = ODVariable("u24", 0x2004); U24.data_type = odm.UNSIGNED24
for var,val in ((I24, 2**23), (I24, -2**23-1), (U24, 2**24), (U24,-1)):
    try: print(var.name, val, var.encode_raw(val).hex())
    except Exception as e: print(var.name, val, "ERR", repr(e))
for L in range(0,6):
    try: print("I24 decode len",L, I24.decode_raw(bytes(range(1,L+1))))
    except Exception as e: print("I24 decode len",L,"ERR", type(e).__name__)
# phys
v.factor=0.1
x.phys = 12.34
print(x.raw, x.phys)
# eds revert negative
from canopen.objectdictionary import eds
print(eds._revert_variable(odm.INTEGER16, -5))
# scanner
net = canopen.Network()
net.notify(0x981, b'', 0); print("scanner", net.scanner.nodes)
