import sys, logging, io, random, collections
sys.path.insert(0, '/repo')
import canopen
from canopen import objectdictionary as odm
from canopen.objectdictionary import ODVariable, ODRecord, ODArray, ObjectDictionary
logging.disable(logging.CRITICAL)
rng=random.Random(5)
INT={odm.INTEGER8:8,odm.INTEGER16:16,odm.INTEGER24:24,odm.INTEGER32:32,odm.INTEGER40:40,odm.INTEGER48:48,odm.INTEGER56:56,odm.INTEGER64:64}
UNS={odm.UNSIGNED8:8,odm.UNSIGNED16:16,odm.UNSIGNED24:24,odm.UNSIGNED32:32,odm.UNSIGNED40:40,odm.UNSIGNED48:48,odm.UNSIGNED56:56,odm.UNSIGNED64:64}
names=iter("obj %d %s"%(i,s) for i in range(10000) for s in ("x","a % b","k=v","plain name"))
def mkvar(index, sub, top):
    dt=rng.choice(list(INT)+list(UNS)+[odm.BOOLEAN,odm.REAL32,odm.REAL64,odm.VISIBLE_STRING,odm.OCTET_STRING,odm.UNICODE_STRING,odm.DOMAIN])
    v=ODVariable(next(names), index, sub); v.data_type=dt
    v.access_type=rng.choice(["rw","ro","wo","const"]); v.pdo_mappable=rng.random()<0.5
    if dt in INT:
        w=INT[dt]; lo,hi=-(1<<(w-1)),(1<<(w-1))-1
        v.default=rng.choice([lo,hi,-1,0,1,rng.randint(lo,hi)]); 
        if rng.random()<0.5: v.min=lo; v.max=hi
    elif dt in UNS:
        w=UNS[dt]; v.default=rng.choice([0,(1<<w)-1,rng.randrange(1<<w)])
        if rng.random()<0.5: v.min=0; v.max=(1<<w)-1
    elif dt==odm.BOOLEAN: v.default=rng.choice([True,False])
    elif dt in (odm.REAL32,odm.REAL64): v.default=rng.choice([0.5,-2.25,1e10])
    elif dt in (odm.VISIBLE_STRING,odm.UNICODE_STRING): v.default=rng.choice(["abc","hello world","x"])
    elif dt==odm.OCTET_STRING: v.default=bytes(rng.randrange(256) for _ in range(rng.randrange(1,6)))
    if rng.random()<0.3: v.value=v.default
    if rng.random()<0.3: v.storage_location="RAM"
    if rng.random()<0.3 and dt in INT|UNS.keys()|INT.keys() if False else rng.random()<0.3: v.factor=0.25; v.unit="mm"; v.description="some text"
    return v
def mkod():
    od=ObjectDictionary(); od.node_id=rng.choice([None,5]); od.bitrate=rng.choice([None,250000])
    od.comments="first line\nsecond line"
    di=od.device_information; di.vendor_name="ACME"; di.vendor_number=0x123; di.product_name="P"; di.product_number=7; di.revision_number=3; di.order_code="OC"
    di.simple_boot_up_master=False; di.simple_boot_up_slave=True; di.granularity=8; di.dynamic_channels_supported=False; di.group_messaging=False; di.nr_of_RXPDO=2; di.nr_of_TXPDO=3; di.LSS_supported=True
    di.allowed_baudrates={125000,500000}
    for index in sorted(rng.sample(range(0x1000,0x1200),3)+rng.sample(range(0x2000,0x2100),4)+rng.sample(range(0x6000,0x6100),3)):
        kind=rng.choice("vra")
        if kind=="v": od.add_object(mkvar(index,0,True))
        else:
            c=(ODRecord if kind=="r" else ODArray)(next(names), index)
            if rng.random()<0.3: c.storage_location="ROM"
            n0=ODVariable(next(names),index,0); n0.data_type=odm.UNSIGNED8; n0.access_type="ro"; c.add_member(n0)
            for s in range(1,rng.randrange(2,6)): c.add_member(mkvar(index,s,False))
            n0.default=len(c.subindices)-1
            od.add_object(c)
    return od
ATTRS=["name","index","subindex","data_type","access_type","pdo_mappable","default","min","max","storage_location","factor","unit","description"]
diffs=collections.Counter(); examples={}
for t in range(60):
    od=mkod()
    for doc in ("eds","dcf"):
        buf=io.StringIO(); canopen.export_od(od,buf,doc); txt=buf.getvalue()
        src=io.StringIO(txt); src.name="x."+doc
        try: od2=canopen.import_od(src, od.node_id)
        except Exception as e: diffs["IMPORT RAISED "+type(e).__name__]+=1; examples.setdefault("IMPORT RAISED "+type(e).__name__, str(e)); continue
        if sorted(od.indices)!=sorted(od2.indices): diffs["index set"]+=1
        for idx,o in od.indices.items():
            o2=od2.indices.get(idx)
            if o2 is None: continue
            if type(o)!=type(o2): diffs["kind"]+=1; continue
            vs=[(o,o2)] if isinstance(o,ODVariable) else [(o.subindices[s], o2.subindices.get(s)) for s in o.subindices]
            if not isinstance(o,ODVariable):
                if o.name!=o2.name: diffs["container name"]+=1
                if o.storage_location!=o2.storage_location: diffs["container storage"]+=1
                if set(o.subindices)!=set(o2.subindices): diffs["sub set"]+=1
            for a,b in vs:
                if b is None: continue
                for at in ATTRS+(["value"] if doc=="dcf" else []):
                    x,y=getattr(a,at),getattr(b,at)
                    if x!=y:
                        key=f"{at} dt=0x{a.data_type:X}" + (" neg" if isinstance(x,int) and not isinstance(x,bool) and x<0 else "")
                        diffs[key]+=1; examples.setdefault(key,(x,y))
        d1,d2=od.device_information,od2.device_information
        for at in vars(d1):
            if getattr(d1,at)!=getattr(d2,at): diffs["devinfo "+at]+=1; examples.setdefault("devinfo "+at,(getattr(d1,at),getattr(d2,at)))
        if od.comments!=od2.comments: diffs["comments"]+=1
        if doc=="dcf" and (od.bitrate!=od2.bitrate or od.node_id!=od2.node_id): diffs["dcf bitrate/nodeid"]+=1; examples.setdefault("dcf bitrate/nodeid",(od.bitrate,od2.bitrate,od.node_id,od2.node_id))
for k,v in sorted(diffs.items()): print(v,k,examples.get(k))
