(* Tie (c): the definitions translated from the CURRENT source text (Gen/Src.v, tools/py2coq.py)
   are equal to the hand-written model definitions the C05 theorems are about. *)
From Coq Require Import ZArith List Bool Lia.
From CV Require Import Base.Val Base.Bytes Base.Bits Base.Tys Base.PyLib Gen.Tables Gen.SrcC05 Model.Codec Model.Pdo.
Import ListNotations.
Open Scope Z_scope.

Lemma shiftl1_ones n : 0 <= n -> Z.shiftl 1 n - 1 = Z.ones n.
Proof. intros. rewrite Z.shiftl_1_l, Z.ones_equiv. lia. Qed.

Lemma py_to_bytes_eq size s v : py_to_bytes size s v = to_bytes size s v.
Proof. unfold py_to_bytes, to_bytes, in_range. destruct s; reflexivity. Qed.

Lemma land_pow2_testbit d n : 0 <= n -> negb (Z.land d (Z.shiftl 1 n) =? 0) = Z.testbit d n.
Proof.
  intros Hn. rewrite Z.shiftl_1_l.
  destruct (Z.testbit d n) eqn:T.
  - assert (Z.testbit (Z.land d (2 ^ n)) n = true) by (rewrite Z.land_spec, T, Z.pow2_bits_true; auto).
    destruct (Z.land d (2 ^ n) =? 0) eqn:E; [|reflexivity].
    assert (Z.land d (2 ^ n) = 0) by lia. rewrite H0, Z.bits_0 in H. discriminate.
  - assert (Z.land d (2 ^ n) = 0); [|rewrite H; reflexivity].
    apply Z.bits_inj'. intros k Hk. rewrite Z.land_spec, Z.bits_0.
    destruct (Z.eq_dec k n) as [->|Hkn].
    + rewrite T. reflexivity.
    + rewrite Z.pow2_bits_false by lia. apply andb_false_r.
Qed.

(* PdoVariable.get_data, as translated from the source, is the model's pdo_get_data *)
Theorem src_pdo_get_data_eq frame dt off len : 0 <= off -> 1 <= len ->
  src_pdo_get_data frame (is_signed dt) (od_size dt) off len = pdo_get_data frame dt off len.
Proof.
  intros Ho Hl. unfold src_pdo_get_data, pdo_get_data, get_field.
  cbv zeta. rewrite shiftl1_ones by lia.
  destruct (negb (off mod 8 =? 0) || negb (len mod 8 =? 0)); [|reflexivity].
  rewrite land_pow2_testbit by lia. rewrite Z.shiftl_1_l.
  destruct (is_signed dt && Z.testbit (Z.land (Z.shiftr (le_decode frame) off) (Z.ones len)) (len - 1));
    now rewrite py_to_bytes_eq.
Qed.

(* PdoVariable.set_data, as translated from the source, is the model's pdo_set_data *)
Theorem src_pdo_set_data_eq frame off len data : 0 <= off -> 0 <= len ->
  src_pdo_set_data frame off len data = pdo_set_data frame off len data.
Proof.
  intros Ho Hl. unfold src_pdo_set_data, pdo_set_data, set_field, py_splice.
  cbv zeta. rewrite shiftl1_ones by lia.
  destruct (negb (off mod 8 =? 0) || negb (len mod 8 =? 0)); [|reflexivity].
  now rewrite py_to_bytes_eq.
Qed.
