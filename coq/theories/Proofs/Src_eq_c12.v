(* Tie (c) for C12: BlockDownloadStream.write / send / _block_ack / close as translated from the CURRENT source text
   (Gen/SrcC12.v, state skeletons) determine the model functions of Model/BlockDl.v: which branch is taken, which
   byte 0 goes on the bus (sequence number, c bit 0x80, end request with the unused-byte count), when the CRC is fed,
   when the acknowledge is awaited, when _retransmit is called and what _seqno / _blksize / _done / pos are afterwards. *)
From Coq Require Import ZArith List Bool Lia.
From CV Require Import Base.Val Base.Bytes Gen.SdoTables Gen.SrcC12 Model.Crc Model.RefBlockServer Model.BlockDl.
Import ListNotations.
Open Scope Z_scope.

Definition zsome (o : option Z) : bool := match o with Some _ => true | None => false end.
Definition zget (o : option Z) : Z := match o with Some x => x | None => 0 end.

Section Eq.
  Context {S : Type} (srv : S -> frame -> S * list frame).
  Context (rec_write : dl -> @net S -> list Z -> @R S (option Z)).

  Definition lift_send (n : Z) (r : @R S unit) : @R S (option Z) :=
    match r with
    | (Ok _, c', w') => (Ok (Some n), c', w')
    | (Err k, c', w') => (Err k, c', w')
    | (Abort a, c', w') => (Abort a, c', w')
    end.

  Theorem src_dl_write_eq c w b :
    write_body srv rec_write c w b =
    let data := firstn 7 b in
    let act := src_dl_write (d_done c) (zsome (d_size c)) (zget (d_size c)) (d_pos c) (zlen data) 0 in
    if act =? 0 then (Err E_RUNTIME, c, w)
    else if act =? 1 then lift_send (zlen data) (send srv rec_write c w data true)
    else if act =? 2 then (Ok None, c, w)
    else lift_send (zlen data) (send srv rec_write c w data false).
  Proof.
    unfold write_body, src_dl_write, lift_send. destruct (d_done c); [reflexivity|].
    destruct (d_size c) as [s|]; cbn [zsome zget andb].
    - rewrite Z.geb_leb. destruct (s <=? d_pos c + zlen (firstn 7 b)); [reflexivity|].
      destruct (zlen (firstn 7 b) <? 7); reflexivity.
    - destruct (zlen (firstn 7 b) <? 7); reflexivity.
  Qed.

  Theorem src_dl_send_eq c w b e :
    send srv rec_write c w b e =
    let '(byte0, seqno, done, blksize, last, pos, crcp, ack) :=
      src_dl_send e (d_seqno c) (d_blksize c) (zlen b) (d_last c) (d_pos c) (d_done c) (d_crcsup c) (d_retx c) 0 false false in
    let w1 := send_request srv w (pad8 (byte0 :: b)) in
    let c1 := mkdl (d_size c) pos done seqno (if crcp then crc_from (d_crc c) b else d_crc c) last (d_cur c ++ [b])
                   (d_retx c) blksize (d_crcsup c) (d_closed c) in
    if ack then block_ack srv rec_write c1 w1 else (Ok tt, c1, w1).
  Proof.
    unfold send, src_dl_send.
    destruct e, (d_crcsup c), (d_retx c); cbn [negb andb]; rewrite ?Z.geb_leb;
      match goal with |- context [?a <=? ?b] => destruct (a <=? b) end; reflexivity.
  Qed.

  Theorem src_dl_block_ack_eq c w :
    block_ack srv rec_write c w =
    match read_response w with
    | (Err k, w1) => (Err k, c, w1)
    | (Abort a, w1) => (Abort a, c, w1)
    | (Ok r, w1) =>
        let '(code, abort, blksize, seqno, cleared) :=
          src_dl_block_ack (fb r 0) (fb r 1) (fb r 2) (d_blksize c) (d_seqno c) 0 0 false in
        if code =? 0 then (Err E_SDOCOMM, c, client_abort srv w1 abort)
        else if code =? 2 then retransmit rec_write c w1 (fb r 1) (fb r 2)
        else (Ok tt, mkdl (d_size c) (d_pos c) (d_done c) seqno (d_crc c) (d_last c) (if cleared then [] else d_cur c)
                          (d_retx c) blksize (d_crcsup c) (d_closed c), w1)
    end.
  Proof.
    unfold block_ack, src_dl_block_ack. destruct (read_response w) as [[r|k|a] w1]; try reflexivity.
    destruct (negb (Z.land (fb r 0) 224 =? RESPONSE_BLOCK_DOWNLOAD)); [reflexivity|].
    destruct (negb (Z.land (fb r 0) 3 =? BLOCK_TRANSFER_RESPONSE)); [reflexivity|].
    destruct (negb (fb r 1 =? d_blksize c)); reflexivity.
  Qed.

  Theorem src_dl_close_eq c w :
    dl_close srv c w =
    let sk rc := src_dl_close (d_closed c) (d_done c) (d_last c) (d_crcsup c) (d_crc c) rc 0 0 false 0 in
    let '(code0, byte0, crch, crcf) := sk 1 in
    if code0 =? 0 then (Ok tt, w)
    else
      match request_response srv w (byte0 :: (if crch then [crcf mod 256; crcf / 256] else [0; 0]) ++ [0; 0; 0; 0; 0]) with
      | (Err k, w1) => (Err k, w1)
      | (Abort a, w1) => (Abort a, w1)
      | (Ok r, w1) => let '(code, _, _, _) := sk (fb r 0) in
                      if code =? 1 then (Ok tt, w1) else (Err E_SDOCOMM, w1)
      end.
  Proof.
    unfold dl_close, src_dl_close, dl_end_request.
    destruct (d_closed c); [reflexivity|].
    change (Z.land 1 END_BLOCK_TRANSFER =? 0) with false.
    destruct (d_done c), (d_crcsup c); cbn [negb app Z.eqb];
      (destruct (request_response srv w _) as [[r|k|a] w1]; try reflexivity;
       match goal with |- context [Z.land ?x END_BLOCK_TRANSFER =? 0] => destruct (Z.land x END_BLOCK_TRANSFER =? 0) end;
       reflexivity).
  Qed.
End Eq.
