(* Proofs about Model/Codec.v (C04). *)
From Coq Require Import ZArith List Bool Lia ZifyBool.
From CV Require Import Base.Val Base.Bytes Base.Tys Gen.Tables Model.Codec.
Import ListNotations.
Open Scope Z_scope.
Ltac Zify.zify_post_hook ::= Z.to_euclidean_division_equations.

(* ------------------------------------------------------------------ table facts *)
Definition int_packer (p : packer) : option (bool * Z) :=
  match p with
  | PStruct s w => Some (s, w)
  | PIntN w => Some (true, w)
  | PUintN w => Some (false, w)
  | _ => None
  end.

Definition width_ok (w : Z) : bool := (w mod 8 =? 0) && (0 <? w) && (w <=? 64).
Definition struct_width_ok (w : Z) : bool := (w =? 8) || (w =? 16) || (w =? 32) || (w =? 64).

Definition entry_ok (e : Z * packer) : bool :=
  let '(t, p) := e in
  negb (t =? dt_VISIBLE_STRING) && negb (t =? dt_UNICODE_STRING) && negb (t =? dt_DOMAIN) && negb (t =? dt_OCTET_STRING) &&
  match p with
  | PStruct s w => struct_width_ok w && Bool.eqb s (zmem t SIGNED_TYPES) && zmem t INTEGER_TYPES
  | PIntN w => width_ok w && zmem t SIGNED_TYPES && zmem t INTEGER_TYPES
  | PUintN w => width_ok w && negb (zmem t SIGNED_TYPES) && zmem t INTEGER_TYPES
  | PBool => true
  | PReal w => (w =? 32) || (w =? 64)
  end.

Lemma table_ok : forallb entry_ok STRUCT_TYPES = true.
Proof. vm_compute. reflexivity. Qed.

Lemma zassoc_In {A} t (p : A) l : zassoc t l = Some p -> In (t, p) l.
Proof.
  induction l as [|[k a] r IH]; cbn; [discriminate|].
  destruct (t =? k) eqn:E; intros H.
  - injection H as ->. left. f_equal. lia.
  - right. auto.
Qed.

Lemma entry_ok_of t p : zassoc t STRUCT_TYPES = Some p -> entry_ok (t, p) = true.
Proof.
  intros H. apply zassoc_In in H.
  pose proof table_ok as T. rewrite forallb_forall in T. exact (T _ H).
Qed.

(* ------------------------------------------------------------------ list facts *)
Lemma firstn_le_encode n m v : (n <= m)%nat -> firstn n (le_encode m v) = le_encode n v.
Proof.
  revert m v. induction n as [|n IH]; intros m v H; [reflexivity|].
  destruct m as [|m]; [lia|]. cbn. f_equal. apply IH. lia.
Qed.

Lemma le_decode_repeat0 k : le_decode (repeat 0 k) = 0.
Proof. induction k as [|k IH]; cbn [repeat le_decode]; [reflexivity|]. rewrite IH. reflexivity. Qed.

Lemma le_decode_repeat255 k : le_decode (repeat 255 k) = 2 ^ (8 * Z.of_nat k) - 1.
Proof.
  induction k as [|k IH]; [reflexivity|].
  cbn [repeat le_decode]. rewrite IH, pow8S. ring.
Qed.

Lemma zlen_app {A} (a b : list A) : zlen (a ++ b) = zlen a + zlen b.
Proof. unfold zlen. rewrite app_length. lia. Qed.

Lemma zlen_repeat {A} (x : A) k : zlen (repeat x k) = Z.of_nat k.
Proof. unfold zlen. now rewrite repeat_length. Qed.

Lemma zlen_le_encode n v : zlen (le_encode n v) = Z.of_nat n.
Proof. unfold zlen. now rewrite le_encode_length. Qed.

(* ------------------------------------------------------------------ range facts *)
Lemma pow_split w : 0 < w -> 2 ^ w = 2 * 2 ^ (w - 1).
Proof. intros. replace w with (1 + (w - 1)) at 1 by lia. rewrite Z.pow_add_r by lia. reflexivity. Qed.

Lemma in_range_mono s w W v : 0 < w -> w <= W -> in_range s w v = true -> in_range s W v = true.
Proof.
  intros Hw HW H. unfold in_range in *.
  assert (2 ^ (w - 1) <= 2 ^ (W - 1)) by (apply Z.pow_le_mono_r; lia).
  assert (2 ^ w <= 2 ^ W) by (apply Z.pow_le_mono_r; lia).
  destruct s; lia.
Qed.

Lemma wider_ge w : w <= 64 -> w <= wider w.
Proof. unfold wider. intros. destruct (w <=? 8) eqn:A; [lia|]. destruct (w <=? 16) eqn:B; [lia|]. destruct (w <=? 32) eqn:C; lia. Qed.

Lemma wider_cases w : wider w = 8 \/ wider w = 16 \/ wider w = 32 \/ wider w = 64.
Proof. unfold wider. destruct (w <=? 8); auto. destruct (w <=? 16); auto. destruct (w <=? 32); auto. Qed.

Lemma width_div w : width_ok w = true -> 0 < w / 8 /\ w = 8 * (w / 8) /\ w <= 64.
Proof. unfold width_ok. lia. Qed.

(* ------------------------------------------------------------------ integer packers, generically *)
Definition ipack (p : packer) (v : Z) : res (list Z) :=
  match p with
  | PStruct s w => pack_struct s w v
  | PIntN w => packN true w v
  | PUintN w => packN false w v
  | _ => Err E_FUEL
  end.

Definition iunpack (p : packer) (bs : list Z) : res Z :=
  match p with
  | PStruct s w => unpack_struct s w bs
  | PIntN w => unpack_intN w bs
  | PUintN w => unpack_uintN w bs
  | _ => Err E_FUEL
  end.

Definition packer_wf (p : packer) : bool :=
  match p with
  | PStruct _ w => struct_width_ok w
  | PIntN w | PUintN w => width_ok w
  | _ => false
  end.

Lemma struct_width_is_width w : struct_width_ok w = true -> width_ok w = true.
Proof. unfold struct_width_ok, width_ok. intros H. assert (Hc : w = 8 \/ w = 16 \/ w = 32 \/ w = 64) by lia. destruct Hc as [Hc|[Hc|[Hc|Hc]]]; subst w; reflexivity. Qed.

Lemma packN_in s w v : width_ok w = true -> in_range s w v = true ->
  packN s w v = Ok (le_encode (Z.to_nat (w / 8)) v).
Proof.
  intros Hw Hr. pose proof (width_div w Hw) as (Hd & He & H64).
  unfold packN, pack_struct.
  rewrite (in_range_mono s w (wider w) v) by (try apply wider_ge; lia || assumption).
  cbn [rbind]. rewrite Hr. f_equal. apply firstn_le_encode.
  pose proof (wider_ge w H64). apply Z2Nat.inj_le; lia.
Qed.

Lemma packN_out s w v : in_range s w v = false -> packN s w v = Err E_STRUCT.
Proof.
  intros Hr. unfold packN, pack_struct.
  destruct (in_range s (wider w) v); cbn [rbind]; [now rewrite Hr|reflexivity].
Qed.

Lemma ipack_in p s w v : packer_wf p = true -> int_packer p = Some (s, w) -> in_range s w v = true ->
  ipack p v = Ok (le_encode (Z.to_nat (w / 8)) v).
Proof.
  destruct p; cbn; intros Hwf Hp Hr; try discriminate; injection Hp as <- <-.
  - unfold pack_struct. now rewrite Hr.
  - now apply packN_in.
  - now apply packN_in.
Qed.

Lemma ipack_out p s w v : int_packer p = Some (s, w) -> in_range s w v = false -> ipack p v = Err E_STRUCT.
Proof.
  destruct p; cbn; intros Hp Hr; try discriminate; injection Hp as <- <-.
  - unfold pack_struct. now rewrite Hr.
  - now apply packN_out.
  - now apply packN_out.
Qed.

(* unsigned unpack of exactly n = w/8 bytes *)
Lemma unpack_uintN_ok w bs : width_ok w = true -> zlen bs = w / 8 ->
  unpack_uintN w bs = Ok (le_decode bs).
Proof.
  intros Hw Hl. pose proof (width_div w Hw) as (Hd & He & H64). pose proof (wider_ge w H64) as Hg.
  unfold unpack_uintN, unpack_struct.
  assert (Hwd : 0 <= wider w / 8 - w / 8) by (destruct (wider_cases w) as [E|[E|[E|E]]]; rewrite E in *; lia).
  rewrite zlen_app, zlen_repeat, Z2Nat.id by lia.
  replace (zlen bs + (wider w / 8 - w / 8) =? wider w / 8) with true by lia.
  rewrite le_decode_app, le_decode_repeat0. f_equal. lia.
Qed.

Lemma unpack_uintN_bad w bs : width_ok w = true -> zlen bs <> w / 8 ->
  unpack_uintN w bs = Err E_STRUCT.
Proof.
  intros Hw Hl. pose proof (width_div w Hw) as (Hd & He & H64). pose proof (wider_ge w H64) as Hg.
  unfold unpack_uintN, unpack_struct.
  assert (Hwd : 0 <= wider w / 8 - w / 8) by (destruct (wider_cases w) as [E|[E|[E|E]]]; rewrite E in *; lia).
  rewrite zlen_app, zlen_repeat, Z2Nat.id by lia.
  replace (zlen bs + (wider w / 8 - w / 8) =? wider w / 8) with false by lia. reflexivity.
Qed.

(* the top byte decides the sign *)
Lemma land128 t : 0 <= t < 256 -> (0 <? Z.land t 128) = (128 <=? t).
Proof.
  intros H.
  assert (A : forallb (fun n => Bool.eqb (0 <? Z.land (Z.of_nat n) 128) (128 <=? Z.of_nat n)) (seq 0 256) = true)
    by (vm_compute; reflexivity).
  rewrite forallb_forall in A. specialize (A (Z.to_nat t)). rewrite Z2Nat.id in A by lia.
  apply eqb_prop, A, in_seq. lia.
Qed.

Lemma le_decode_top bs top : bytes_ok bs -> bs <> [] -> nth_error bs (length bs - 1) = Some top ->
  (0 <? Z.land top 128) = (2 ^ (8 * zlen bs - 1) <=? le_decode bs).
Proof.
  intros Hok Hne Hn.
  destruct (exists_last Hne) as (pre & lastb & ->).
  rewrite app_length in Hn. cbn in Hn. replace (length pre + 1 - 1)%nat with (length pre) in Hn by lia.
  rewrite nth_error_app2, Nat.sub_diag in Hn by lia. cbn in Hn. injection Hn as ->.
  apply Forall_app in Hok as [Hpre Hl]. inversion Hl as [|? ? Ht _]; subst. unfold byte_ok in Ht.
  rewrite le_decode_app. cbn [le_decode]. rewrite zlen_app.
  change (zlen [top]) with 1.
  pose proof (le_decode_range pre Hpre) as Hr.
  assert (Hzl : 0 <= zlen pre) by (unfold zlen; lia).
  replace (8 * (zlen pre + 1) - 1) with (7 + 8 * zlen pre) by lia.
  rewrite Z.pow_add_r by lia.
  set (x := 2 ^ (8 * zlen pre)) in *.
  assert (Hx : 0 < x) by (apply Z.pow_pos_nonneg; lia).
  change (2 ^ 7) with 128.
  assert (Hb : (0 <? Z.land top 128) = (128 <=? top)) by (apply land128; lia).
  rewrite Hb. nia.
Qed.

Lemma unpack_intN_ok w bs : width_ok w = true -> bytes_ok bs -> zlen bs = w / 8 ->
  unpack_intN w bs = Ok (sext w (le_decode bs)).
Proof.
  intros Hw Hok Hl. pose proof (width_div w Hw) as (Hd & He & H64). pose proof (wider_ge w H64) as Hg.
  unfold unpack_intN.
  assert (Hne : bs <> []) by (intros ->; unfold zlen in Hl; cbn in Hl; lia).
  replace (Z.to_nat (w / 8 - 1)) with (length bs - 1)%nat by (unfold zlen in Hl; lia).
  destruct (nth_error bs (length bs - 1)) as [top|] eqn:Hn.
  2:{ apply nth_error_None in Hn. destruct bs; [congruence|cbn in Hn; lia]. }
  rewrite (le_decode_top bs top Hok Hne Hn).
  unfold unpack_struct.
  assert (Hwd : 0 <= wider w / 8 - w / 8) by (destruct (wider_cases w) as [E|[E|[E|E]]]; rewrite E in *; lia).
  rewrite zlen_app, zlen_repeat, Z2Nat.id by lia.
  replace (zlen bs + (wider w / 8 - w / 8) =? wider w / 8) with true by lia.
  f_equal. rewrite le_decode_app.
  pose proof (le_decode_range bs Hok) as Hr.
  replace (8 * zlen bs) with w in * by lia.
  set (W := wider w) in *. set (k := W / 8 - w / 8) in *.
  assert (HW : W = w + 8 * k) by (unfold k; destruct (wider_cases w) as [E|[E|[E|E]]]; fold W in E; rewrite E in *; lia).
  assert (Hpw : 2 ^ W = 2 ^ w * 2 ^ (8 * k)) by (rewrite HW, Z.pow_add_r by lia; reflexivity).
  assert (Hpw1 : 2 ^ (W - 1) = 2 ^ (w - 1) * 2 ^ (8 * k)).
  { replace (W - 1) with ((w - 1) + 8 * k) by lia. rewrite Z.pow_add_r by lia. reflexivity. }
  pose proof (pow_split w ltac:(lia)) as Hs.
  assert (Hk : 0 < 2 ^ (8 * k)) by (apply Z.pow_pos_nonneg; lia).
  assert (Hw1 : 0 < 2 ^ (w - 1)) by (apply Z.pow_pos_nonneg; lia).
  unfold sext.
  destruct (2 ^ (w - 1) <=? le_decode bs) eqn:Neg.
  - rewrite le_decode_repeat255, Z2Nat.id by lia.
    replace (le_decode bs <? 2 ^ (w - 1)) with false by lia.
    replace (le_decode bs + 2 ^ w * (2 ^ (8 * k) - 1) <? 2 ^ (W - 1)) with false by nia.
    nia.
  - rewrite le_decode_repeat0.
    replace (le_decode bs <? 2 ^ (w - 1)) with true by lia.
    replace (le_decode bs + 2 ^ w * 0 <? 2 ^ (W - 1)) with true by nia.
    lia.
Qed.

Lemma unpack_intN_bad w bs : width_ok w = true -> zlen bs <> w / 8 ->
  exists k, unpack_intN w bs = Err k.
Proof.
  intros Hw Hl. pose proof (width_div w Hw) as (Hd & He & H64). pose proof (wider_ge w H64) as Hg.
  unfold unpack_intN. destruct (nth_error bs (Z.to_nat (w / 8 - 1))); [|eauto].
  unfold unpack_struct.
  assert (Hwd : 0 <= wider w / 8 - w / 8) by (destruct (wider_cases w) as [E|[E|[E|E]]]; rewrite E in *; lia).
  rewrite zlen_app, zlen_repeat, Z2Nat.id by lia.
  replace (zlen bs + (wider w / 8 - w / 8) =? wider w / 8) with false by lia. eauto.
Qed.

Lemma iunpack_ok p s w bs : packer_wf p = true -> int_packer p = Some (s, w) -> bytes_ok bs -> zlen bs = w / 8 ->
  iunpack p bs = Ok (if s then sext w (le_decode bs) else le_decode bs).
Proof.
  destruct p; cbn; intros Hwf Hp Hok Hl; try discriminate; injection Hp as <- <-.
  - unfold unpack_struct. replace (zlen bs =? bits / 8) with true by lia. reflexivity.
  - now apply unpack_intN_ok.
  - now apply unpack_uintN_ok.
Qed.

Lemma iunpack_bad p s w bs : packer_wf p = true -> int_packer p = Some (s, w) -> zlen bs <> w / 8 ->
  exists k, iunpack p bs = Err k.
Proof.
  destruct p; cbn; intros Hwf Hp Hl; try discriminate; injection Hp as <- <-.
  - unfold unpack_struct. replace (zlen bs =? bits / 8) with false by lia. eauto.
  - now apply unpack_intN_bad.
  - rewrite unpack_uintN_bad by assumption. eauto.
Qed.

(* value-level facts *)
Lemma decoded_in_range (s : bool) w bs : width_ok w = true -> bytes_ok bs -> zlen bs = w / 8 ->
  in_range s w (if s then sext w (le_decode bs) else le_decode bs) = true.
Proof.
  intros Hw Hok Hl. pose proof (width_div w Hw) as (Hd & He & H64).
  pose proof (le_decode_range bs Hok) as Hr. replace (8 * zlen bs) with w in Hr by lia.
  unfold in_range. destruct s.
  - pose proof (sext_range w (le_decode bs) ltac:(lia) Hr). lia.
  - lia.
Qed.

Lemma le_encode_of_decoded (s : bool) w bs : width_ok w = true -> bytes_ok bs -> zlen bs = w / 8 ->
  le_encode (Z.to_nat (w / 8)) (if s then sext w (le_decode bs) else le_decode bs) = bs.
Proof.
  intros Hw Hok Hl. pose proof (width_div w Hw) as (Hd & He & H64).
  pose proof (le_decode_range bs Hok) as Hr. replace (8 * zlen bs) with w in Hr by lia.
  replace (Z.to_nat (w / 8)) with (length bs) by (unfold zlen in Hl; lia).
  rewrite <- le_encode_mod. replace (8 * Z.of_nat (length bs)) with w by (unfold zlen in Hl; lia).
  destruct s.
  - rewrite mod_sext by lia. now apply le_encode_decode.
  - rewrite Z.mod_small by lia. now apply le_encode_decode.
Qed.

Lemma decode_of_encoded (s : bool) w v : width_ok w = true -> in_range s w v = true ->
  (if s then sext w (le_decode (le_encode (Z.to_nat (w / 8)) v)) else le_decode (le_encode (Z.to_nat (w / 8)) v)) = v.
Proof.
  intros Hw Hr. pose proof (width_div w Hw) as (Hd & He & H64).
  rewrite le_decode_encode. replace (8 * Z.of_nat (Z.to_nat (w / 8))) with w by lia.
  unfold in_range in Hr. destruct s.
  - apply sext_mod; lia.
  - apply Z.mod_small; lia.
Qed.

(* ------------------------------------------------------------------ encode_raw / decode_raw on integer types *)
Lemma packer_wf_of t p s w : zassoc t STRUCT_TYPES = Some p -> int_packer p = Some (s, w) ->
  packer_wf p = true /\ width_ok w = true.
Proof.
  intros Ht Hp. pose proof (entry_ok_of t p Ht) as E. unfold entry_ok in E.
  destruct p; cbn in Hp; try discriminate; injection Hp as <- <-; cbn [packer_wf];
    cbv beta iota in E; rewrite !andb_true_iff in E.
  - assert (struct_width_ok bits = true) by tauto. split; [assumption|now apply struct_width_is_width].
  - assert (width_ok bits = true) by tauto. auto.
  - assert (width_ok bits = true) by tauto. auto.
Qed.

Lemma not_text t p : zassoc t STRUCT_TYPES = Some p ->
  (t =? dt_VISIBLE_STRING) = false /\ (t =? dt_UNICODE_STRING) = false /\ (t =? dt_DOMAIN) = false /\ (t =? dt_OCTET_STRING) = false.
Proof.
  intros Ht. pose proof (entry_ok_of t p Ht) as E. unfold entry_ok in E.
  rewrite !andb_true_iff, !negb_true_iff in E. tauto.
Qed.

Lemma encode_raw_int t p v : zassoc t STRUCT_TYPES = Some p -> (exists s w, int_packer p = Some (s, w)) ->
  encode_raw (Some t) (PInt v) = match ipack p v with Err k => if k =? E_STRUCT then Err E_VALUE else Err k | r => r end.
Proof.
  intros Ht (s & w & Hp). destruct (not_text t p Ht) as (A & B & C & D).
  unfold encode_raw. rewrite A, B, C, D, Ht. cbn [orb].
  destruct p; cbn in Hp; try discriminate; reflexivity.
Qed.

Lemma decode_raw_int t p bs : zassoc t STRUCT_TYPES = Some p -> (exists s w, int_packer p = Some (s, w)) ->
  decode_raw (Some t) bs = match iunpack p bs with Ok z => Ok (PInt z) | Err k => if k =? E_STRUCT then Err E_OD else Err k | Abort c => Abort c end.
Proof.
  intros Ht (s & w & Hp). destruct (not_text t p Ht) as (A & B & C & D).
  unfold decode_raw. rewrite A, B, Ht.
  destruct p; cbn in Hp; try discriminate; cbn [unpack iunpack].
  - destruct (unpack_struct signed bits bs); reflexivity.
  - destruct (unpack_intN bits bs); reflexivity.
  - destruct (unpack_uintN bits bs); reflexivity.
Qed.

Theorem encode_exact t p s w v :
  zassoc t STRUCT_TYPES = Some p -> int_packer p = Some (s, w) -> in_range s w v = true ->
  encode_raw (Some t) (PInt v) = Ok (le_encode (Z.to_nat (w / 8)) v).
Proof.
  intros Ht Hp Hr. destruct (packer_wf_of t p s w Ht Hp) as (Hwf & Hw).
  rewrite (encode_raw_int t p v Ht) by eauto. now rewrite (ipack_in p s w v Hwf Hp Hr).
Qed.

Theorem encode_rejects t p s w v :
  zassoc t STRUCT_TYPES = Some p -> int_packer p = Some (s, w) -> in_range s w v = false ->
  encode_raw (Some t) (PInt v) = Err E_VALUE.
Proof.
  intros Ht Hp Hr. rewrite (encode_raw_int t p v Ht) by eauto. now rewrite (ipack_out p s w v Hp Hr).
Qed.

Theorem decode_encode t p s w v :
  zassoc t STRUCT_TYPES = Some p -> int_packer p = Some (s, w) -> in_range s w v = true ->
  decode_raw (Some t) (le_encode (Z.to_nat (w / 8)) v) = Ok (PInt v).
Proof.
  intros Ht Hp Hr. destruct (packer_wf_of t p s w Ht Hp) as (Hwf & Hw).
  pose proof (width_div w Hw) as (Hd & He & H64).
  rewrite (decode_raw_int t p _ Ht) by eauto.
  rewrite (iunpack_ok p s w _ Hwf Hp) by (try apply le_encode_ok; rewrite zlen_le_encode; lia).
  now rewrite decode_of_encoded.
Qed.

Theorem encode_decode t p s w bs :
  zassoc t STRUCT_TYPES = Some p -> int_packer p = Some (s, w) -> bytes_ok bs -> zlen bs = w / 8 ->
  exists v, decode_raw (Some t) bs = Ok (PInt v) /\ in_range s w v = true /\ encode_raw (Some t) (PInt v) = Ok bs.
Proof.
  intros Ht Hp Hok Hl. destruct (packer_wf_of t p s w Ht Hp) as (Hwf & Hw).
  exists (if s then sext w (le_decode bs) else le_decode bs). split; [|split].
  - rewrite (decode_raw_int t p _ Ht) by eauto. now rewrite (iunpack_ok p s w bs Hwf Hp Hok Hl).
  - now apply decoded_in_range.
  - rewrite (encode_exact t p s w _ Ht Hp) by now apply decoded_in_range.
    now rewrite le_encode_of_decoded.
Qed.

Theorem decode_rejects t p s w bs :
  zassoc t STRUCT_TYPES = Some p -> int_packer p = Some (s, w) -> zlen bs <> w / 8 ->
  exists k, decode_raw (Some t) bs = Err k.
Proof.
  intros Ht Hp Hl. destruct (packer_wf_of t p s w Ht Hp) as (Hwf & Hw).
  rewrite (decode_raw_int t p _ Ht) by eauto.
  destruct (iunpack_bad p s w bs Hwf Hp Hl) as (k & ->).
  destruct (k =? E_STRUCT); eauto.
Qed.

(* encoded length and well-formedness *)
Theorem encode_length t p s w v bs :
  zassoc t STRUCT_TYPES = Some p -> int_packer p = Some (s, w) ->
  encode_raw (Some t) (PInt v) = Ok bs -> zlen bs = w / 8 /\ bytes_ok bs /\ le_decode bs = v mod 2 ^ w /\ in_range s w v = true.
Proof.
  intros Ht Hp He. destruct (packer_wf_of t p s w Ht Hp) as (Hwf & Hw).
  pose proof (width_div w Hw) as (Hd & Hee & H64).
  destruct (in_range s w v) eqn:Hr.
  - rewrite (encode_exact t p s w v Ht Hp Hr) in He. injection He as <-.
    rewrite zlen_le_encode, le_decode_encode. repeat split; try lia. apply le_encode_ok.
    f_equal. f_equal. lia.
  - rewrite (encode_rejects t p s w v Ht Hp Hr) in He. discriminate.
Qed.

(* ------------------------------------------------------------------ the table is the CiA 301 one *)
(* CiA 301 basic data types: number -> (signed, width); written here from the standard *)
Definition cia301_int_types : list (Z * (bool * Z)) :=
  [(2, (true, 8)); (3, (true, 16)); (4, (true, 32)); (5, (false, 8)); (6, (false, 16)); (7, (false, 32));
   (16, (true, 24)); (18, (true, 40)); (19, (true, 48)); (20, (true, 56)); (21, (true, 64));
   (22, (false, 24)); (24, (false, 40)); (25, (false, 48)); (26, (false, 56)); (27, (false, 64))].

Definition pair_eqb (a b : bool * Z) : bool := Bool.eqb (fst a) (fst b) && (snd a =? snd b).

Lemma types_are_cia301_b :
  forallb (fun e => match zassoc (fst e) STRUCT_TYPES with
                    | Some p => match int_packer p with Some sw => pair_eqb sw (snd e) | None => false end
                    | None => false end) cia301_int_types = true.
Proof. vm_compute. reflexivity. Qed.

Theorem types_are_cia301 t s w : In (t, (s, w)) cia301_int_types ->
  exists p, zassoc t STRUCT_TYPES = Some p /\ int_packer p = Some (s, w).
Proof.
  intros H. pose proof types_are_cia301_b as T. rewrite forallb_forall in T. specialize (T _ H). cbn [fst snd] in T.
  destruct (zassoc t STRUCT_TYPES) as [p|]; [|discriminate]. exists p. split; [reflexivity|].
  destruct (int_packer p) as [[s' w']|]; [|discriminate].
  unfold pair_eqb in T. cbn [fst snd] in T. apply andb_prop in T as [A B].
  apply eqb_prop in A. subst s'. f_equal. f_equal. lia.
Qed.

(* ------------------------------------------------------------------ BOOLEAN and REAL *)
Theorem bool_codec (b : bool) :
  zassoc dt_BOOLEAN STRUCT_TYPES = Some PBool ->
  encode_raw (Some dt_BOOLEAN) (PInt (if b then 1 else 0)) = Ok [if b then 1 else 0] /\
  decode_raw (Some dt_BOOLEAN) [if b then 1 else 0] = Ok (PInt (if b then 1 else 0)).
Proof.
  intros Ht. destruct (not_text _ _ Ht) as (A & B & C & D).
  unfold encode_raw, decode_raw. rewrite A, B, C, D, Ht. destruct b; cbn; auto.
Qed.

Theorem bool_decode_rejects bs : zassoc dt_BOOLEAN STRUCT_TYPES = Some PBool -> zlen bs <> 1 ->
  decode_raw (Some dt_BOOLEAN) bs = Err E_OD.
Proof.
  intros Ht Hl. destruct (not_text _ _ Ht) as (A & B & C & D).
  unfold decode_raw. rewrite A, B, Ht. cbn [unpack].
  replace (zlen bs =? 1) with false by lia. reflexivity.
Qed.

Theorem real_codec t w bits : zassoc t STRUCT_TYPES = Some (PReal w) -> 0 <= bits < 2 ^ w ->
  encode_raw (Some t) (PFloat bits) = Ok (le_encode (Z.to_nat (w / 8)) bits) /\
  decode_raw (Some t) (le_encode (Z.to_nat (w / 8)) bits) = Ok (PFloat bits).
Proof.
  intros Ht Hb. destruct (not_text _ _ Ht) as (A & B & C & D).
  pose proof (entry_ok_of _ _ Ht) as E. unfold entry_ok in E. rewrite !andb_true_iff in E.
  destruct E as (_ & E).
  unfold encode_raw, decode_raw. rewrite A, B, C, D, Ht. cbn [orb pack unpack]. split; [reflexivity|].
  rewrite zlen_le_encode, le_decode_encode.
  assert (Hw : w = 32 \/ w = 64) by lia.
  replace (8 * Z.of_nat (Z.to_nat (w / 8))) with w by lia.
  replace (Z.of_nat (Z.to_nat (w / 8)) =? w / 8) with true by lia.
  rewrite Z.mod_small by lia. reflexivity.
Qed.

Theorem real_decode_rejects t w bs : zassoc t STRUCT_TYPES = Some (PReal w) -> zlen bs <> w / 8 ->
  decode_raw (Some t) bs = Err E_OD.
Proof.
  intros Ht Hl. destruct (not_text _ _ Ht) as (A & B & C & D).
  unfold decode_raw. rewrite A, B, Ht. cbn [unpack].
  replace (zlen bs =? w / 8) with false by lia. reflexivity.
Qed.

(* ------------------------------------------------------------------ text *)
Lemma rstrip0_id s : last s 1 <> 0 -> rstrip0 s = s.
Proof.
  induction s as [|c r IH]; [reflexivity|].
  intros H. cbn [rstrip0]. destruct r as [|d r'].
  - cbn in *. destruct (c =? 0) eqn:E; [lia|reflexivity].
  - rewrite IH by exact H. reflexivity.
Qed.

Lemma filter_id {A} (f : A -> bool) l : forallb f l = true -> filter f l = l.
Proof.
  induction l as [|x r IH]; cbn; [reflexivity|]. intros H. apply andb_prop in H as [H1 H2].
  rewrite H1, IH by assumption. reflexivity.
Qed.

Definition is_ascii (c : Z) : bool := (0 <=? c) && (c <? 128).

Theorem ascii_roundtrip s : forallb is_ascii s = true -> last s 1 <> 0 ->
  encode_raw (Some dt_VISIBLE_STRING) (PStr s) = Ok s /\
  decode_raw (Some dt_VISIBLE_STRING) s = Ok (PStr s).
Proof.
  intros Ha Hl. unfold encode_raw, decode_raw. rewrite Z.eqb_refl. unfold ascii_encode, ascii_decode.
  fold is_ascii. change (fun c => (0 <=? c) && (c <? 128)) with is_ascii. rewrite Ha. split; [reflexivity|].
  rewrite filter_id, rstrip0_id; auto.
  rewrite forallb_forall in *. intros x Hx. specialize (Ha x Hx). unfold is_ascii in Ha. lia.
Qed.

Theorem ascii_rejects s : forallb is_ascii s = false ->
  encode_raw (Some dt_VISIBLE_STRING) (PStr s) = Err E_VALUE.
Proof.
  intros Ha. unfold encode_raw. rewrite Z.eqb_refl. unfold ascii_encode.
  change (fun c => (0 <=? c) && (c <? 128)) with is_ascii. now rewrite Ha.
Qed.

(* Unicode scalar values: 0..0x10FFFF without the surrogate range *)
Definition is_scalar (c : Z) : bool := (0 <=? c) && (c <? 1114112) && negb (is_hi c) && negb (is_lo c).

Lemma utf16_units_ok s : forallb is_scalar s = true ->
  exists us, utf16_units s = Ok us /\ Forall (fun u => 0 <= u < 65536) us /\ utf16_dec_units us = s.
Proof.
  induction s as [|c r IH]; intros H.
  - exists []. cbn. auto.
  - cbn [forallb] in H. apply andb_prop in H as [Hc Hr]. destruct (IH Hr) as (us & E & F & D).
    cbn [utf16_units]. rewrite E. cbn [rbind].
    unfold is_scalar in Hc. rewrite !andb_true_iff, !negb_true_iff in Hc. destruct Hc as (((C0 & C1) & C2) & C3).
    replace ((c <? 0) || (1114112 <=? c) || is_hi c || is_lo c) with false by (rewrite C2, C3; lia).
    destruct (c <? 65536) eqn:B.
    + exists (c :: us). split; [reflexivity|]. split; [constructor; [lia|assumption]|].
      cbn [utf16_dec_units]. rewrite C2, C3, D. reflexivity.
    + set (c' := c - 65536).
      exists ((55296 + c' / 1024) :: (56320 + c' mod 1024) :: us). split; [reflexivity|].
      assert (R : 0 <= c' < 1048576) by (unfold c'; lia).
      split; [repeat constructor; try lia; assumption|].
      cbn [utf16_dec_units].
      replace (is_hi (55296 + c' / 1024)) with true by (unfold is_hi; lia).
      replace (is_lo (56320 + c' mod 1024)) with true by (unfold is_lo; lia).
      rewrite D. f_equal. unfold c'. lia.
Qed.

Lemma pair_units_flat us : Forall (fun u => 0 <= u < 65536) us ->
  pair_units (flat_map (fun u => [u mod 256; u / 256]) us) = us.
Proof.
  induction 1 as [|u r Hu Hr IH]; [reflexivity|].
  cbn [flat_map app pair_units]. rewrite IH. f_equal. lia.
Qed.

Theorem utf16_roundtrip s : forallb is_scalar s = true -> last s 1 <> 0 ->
  exists bs, encode_raw (Some dt_UNICODE_STRING) (PStr s) = Ok bs /\
             decode_raw (Some dt_UNICODE_STRING) bs = Ok (PStr s).
Proof.
  intros Hs Hl. destruct (utf16_units_ok s Hs) as (us & E & F & D).
  exists (flat_map (fun u => [u mod 256; u / 256]) us).
  assert (V : (dt_UNICODE_STRING =? dt_VISIBLE_STRING) = false) by reflexivity.
  unfold encode_raw, decode_raw. rewrite V, Z.eqb_refl. unfold utf16_encode, utf16_decode. rewrite E. cbn [rbind].
  split; [reflexivity|]. rewrite pair_units_flat, D, rstrip0_id by assumption. reflexivity.
Qed.
