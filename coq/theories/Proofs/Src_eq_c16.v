(* Tie (c): the error-reset test of EmcyConsumer.on_emcy as translated from the CURRENT source text (Gen/SrcC16.v)
   equals the model (C16). *)
From Coq Require Import ZArith List Bool Lia.
From CV Require Import Base.Val Base.Tys Base.PyLib Gen.SrcC16 Model.Emcy.
Import ListNotations.
Open Scope Z_scope.

Theorem src_emcy_is_reset_eq code : src_emcy_is_reset code = is_reset_code code.
Proof. unfold src_emcy_is_reset, is_reset_code. cbv zeta. destruct (Z.land code 65280 =? 0); reflexivity. Qed.
