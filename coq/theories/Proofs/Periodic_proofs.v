(* Proofs about Model/Periodic.v (C17). *)
From Coq Require Import ZArith List Bool Lia ZifyBool Arith PeanoNat.
From CV Require Import Base.Val Base.Tys Gen.NmtTables Gen.PeriodicTables Model.Periodic.
Import ListNotations.
Open Scope Z_scope.
Ltac Zify.zify_post_hook ::= Z.to_euclidean_division_equations.

Lemma prod_eq_dec (p q : prod) : {p = q} + {p <> q}.
Proof. decide equality. apply Nat.eq_dec. Qed.

(* ------------------------------------------------------------------ list facts *)
Lemma upd_length {A} (f : A -> A) l n : length (upd f l n) = length l.
Proof. revert n. induction l as [|x r IH]; intros [|n]; cbn; auto. Qed.

Lemma nth_upd_eq {A} (f : A -> A) l n d : (n < length l)%nat -> nth n (upd f l n) d = f (nth n l d).
Proof. revert n. induction l as [|x r IH]; intros [|n] H; cbn in *; try lia; auto. apply IH. lia. Qed.

Lemma nth_upd_neq {A} (f : A -> A) l n m d : m <> n -> nth m (upd f l n) d = nth m l d.
Proof. revert n m. induction l as [|x r IH]; intros [|n] [|m] H; cbn; auto; try congruence. Qed.

Lemma upd_oob {A} (f : A -> A) l n : (length l <= n)%nat -> upd f l n = l.
Proof. revert n. induction l as [|x r IH]; intros [|n] H; cbn in *; auto; try lia. f_equal. apply IH. lia. Qed.

Lemma nth_error_upd_eq {A} (f : A -> A) l n : nth_error (upd f l n) n = option_map f (nth_error l n).
Proof. revert n. induction l as [|x r IH]; intros [|n]; cbn; auto. Qed.

Lemma nth_error_upd_neq {A} (f : A -> A) l n m : m <> n -> nth_error (upd f l n) m = nth_error l m.
Proof. revert n m. induction l as [|x r IH]; intros [|n] [|m] H; cbn; auto; try congruence. Qed.

Lemma list_Z_eqb_eq a b : list_Z_eqb a b = true -> a = b.
Proof.
  revert b. induction a as [|x a IH]; intros [|y b]; cbn; try discriminate; auto.
  intros H. apply andb_true_iff in H as [H1 H2]. f_equal; [lia|auto].
Qed.

(* ------------------------------------------------------------------ bus facts *)
Lemma alive_lt b t : bus_alive b t = true -> (t < length b)%nat.
Proof.
  unfold bus_alive, bus_get. intros H. destruct (Nat.lt_ge_cases t (length b)); auto.
  rewrite nth_overflow in H by lia. discriminate.
Qed.

Lemma get_stop_neq b t t' : t' <> t -> bus_get (bus_stop b t) t' = bus_get b t'.
Proof. intros. unfold bus_get, bus_stop. apply nth_upd_neq; auto. Qed.

Lemma alive_stop_eq b t : bus_alive (bus_stop b t) t = false.
Proof.
  unfold bus_alive, bus_get, bus_stop. destruct (Nat.lt_ge_cases t (length b)).
  - rewrite nth_upd_eq by auto. reflexivity.
  - rewrite nth_overflow; [reflexivity|]. rewrite upd_length. lia.
Qed.

Lemma alive_stop b t t' : bus_alive (bus_stop b t) t' = true -> bus_alive b t' = true /\ t' <> t.
Proof.
  intros H. destruct (Nat.eq_dec t' t) as [->|N].
  - rewrite alive_stop_eq in H. discriminate.
  - unfold bus_alive in *. rewrite get_stop_neq in H by auto. auto.
Qed.

Lemma get_app_old b x t : (t < length b)%nat -> bus_get (b ++ [x]) t = bus_get b t.
Proof. intros. unfold bus_get. apply app_nth1. auto. Qed.

Lemma get_app_new b x : bus_get (b ++ [x]) (length b) = x.
Proof. unfold bus_get. rewrite app_nth2 by lia. rewrite Nat.sub_diag. reflexivity. Qed.

Lemma alive_app b x t : bus_alive (b ++ [x]) t = true -> bus_alive b t = true \/ t = length b.
Proof.
  intros H. pose proof (alive_lt _ _ H) as L. rewrite app_length in L. cbn in L.
  destruct (Nat.eq_dec t (length b)); auto. left.
  unfold bus_alive in *. rewrite get_app_old in H by lia. auto.
Qed.

Lemma get_modify_neq b t t' d : t' <> t -> bus_get (bus_modify b t d) t' = bus_get b t'.
Proof. intros. unfold bus_get, bus_modify. apply nth_upd_neq; auto. Qed.

Lemma get_modify_eq b t d : (t < length b)%nat -> bus_get (bus_modify b t d) t = set_data d (bus_get b t).
Proof. intros. unfold bus_get, bus_modify. apply nth_upd_eq; auto. Qed.

Lemma alive_modify b t d t' : bus_alive (bus_modify b t d) t' = bus_alive b t'.
Proof.
  destruct (Nat.eq_dec t' t) as [->|N].
  - unfold bus_alive. destruct (Nat.lt_ge_cases t (length b)).
    + rewrite get_modify_eq by auto. reflexivity.
    + unfold bus_modify. rewrite upd_oob by auto. reflexivity.
  - unfold bus_alive. rewrite get_modify_neq by auto. reflexivity.
Qed.

Lemma stop_length b t : length (bus_stop b t) = length b.
Proof. apply upd_length. Qed.

Lemma carries_alive b pt : carries (bus_get b (pt_tid pt)) pt -> bus_alive b (pt_tid pt) = true.
Proof. intros [H _]. exact H. Qed.

(* ------------------------------------------------------------------ abstract invariant: primitive actions *)
Lemma AInv_ext b tk tk' : AInv b tk -> (forall q, tk' q = tk q) -> AInv b tk'.
Proof.
  intros (C & D & N) E. split; [|split].
  - intros q qt Hq. rewrite E in Hq. eauto.
  - intros q r qt rt Hq Hr. rewrite E in Hq, Hr. eauto.
  - intros t Ht. destruct (N t Ht) as (q & qt & Hq & Et). exists q, qt. rewrite E. auto.
Qed.

Lemma AInv_stop b tk tk' p pt :
  AInv b tk -> tk p = Some pt -> tk' p = None -> (forall q, q <> p -> tk' q = tk q) ->
  AInv (bus_stop b (pt_tid pt)) tk'.
Proof.
  intros (C & D & N) Hp Hp' Ho. split; [|split].
  - intros q qt Hq. destruct (prod_eq_dec q p) as [->|Nq]; [congruence|]. rewrite Ho in Hq by auto.
    assert (pt_tid qt <> pt_tid pt) as NE. { intros E. apply Nq. eapply D; eauto. }
    rewrite get_stop_neq by auto. eauto.
  - intros q r qt rt Hq Hr E.
    destruct (prod_eq_dec q p) as [->|Nq]; [congruence|]. destruct (prod_eq_dec r p) as [->|Nr]; [congruence|].
    rewrite Ho in Hq, Hr by auto. eauto.
  - intros t Ht. apply alive_stop in Ht as [Ht Nt]. destruct (N t Ht) as (q & qt & Hq & E).
    exists q, qt. split; auto. rewrite Ho; auto. intros ->. congruence.
Qed.

Lemma AInv_stop_opt b tk tk' p :
  AInv b tk -> tk' p = None -> (forall q, q <> p -> tk' q = tk q) -> AInv (stop_opt b (tk p)) tk'.
Proof.
  intros A Hp' Ho. destruct (tk p) as [pt|] eqn:Hp; cbn.
  - eapply AInv_stop; eauto.
  - eapply AInv_ext; eauto. intros q. destruct (prod_eq_dec q p) as [->|Nq]; [congruence|auto].
Qed.

Lemma stop_opt_length b o : length (stop_opt b o) = length b.
Proof. destruct o; cbn; auto. apply stop_length. Qed.

Lemma AInv_start b tk tk' p id d per r :
  AInv b tk -> tk p = None -> tk' p = Some (mkP (length b) id d per r) -> (forall q, q <> p -> tk' q = tk q) ->
  AInv (b ++ [mkB id d per r true]) tk'.
Proof.
  intros (C & D & N) Hp Hp' Ho.
  assert (forall q qt, q <> p -> tk' q = Some qt -> (pt_tid qt < length b)%nat) as LT.
  { intros q qt Nq Hq. rewrite Ho in Hq by auto. apply alive_lt. eapply carries_alive; eauto. }
  split; [|split].
  - intros q qt Hq. destruct (prod_eq_dec q p) as [->|Nq].
    + rewrite Hp' in Hq. injection Hq as <-. cbn [pt_tid]. rewrite get_app_new. repeat split.
    + rewrite get_app_old by eauto. rewrite Ho in Hq by auto. eauto.
  - intros q q' qt qt' Hq Hq' E.
    destruct (prod_eq_dec q p) as [->|Nq]; destruct (prod_eq_dec q' p) as [->|Nq']; auto.
    + rewrite Hp' in Hq. injection Hq as <-. cbn in E. specialize (LT _ _ Nq' Hq'). lia.
    + rewrite Hp' in Hq'. injection Hq' as <-. cbn in E. specialize (LT _ _ Nq Hq). lia.
    + rewrite Ho in Hq, Hq' by auto. eauto.
  - intros t Ht. apply alive_app in Ht as [Ht| ->].
    + destruct (N t Ht) as (q & qt & Hq & E). exists q, qt. split; auto. rewrite Ho; auto. intros ->. congruence.
    + exists p, (mkP (length b) id d per r). auto.
Qed.

Lemma AInv_restart b tk tk' p id d per r :
  AInv b tk -> tk' p = Some (mkP (length b) id d per r) -> (forall q, q <> p -> tk' q = tk q) ->
  AInv (stop_opt b (tk p) ++ [mkB id d per r true]) tk'.
Proof.
  intros A Hp' Ho.
  set (tk1 := fun q => if prod_eq_dec q p then None else tk q).
  assert (AInv (stop_opt b (tk p)) tk1) as A1.
  { apply AInv_stop_opt; auto; unfold tk1.
    - destruct (prod_eq_dec p p); congruence.
    - intros q Nq. destruct (prod_eq_dec q p); congruence. }
  apply (AInv_start (stop_opt b (tk p)) tk1 tk' p id d per r A1); unfold tk1.
  - destruct (prod_eq_dec p p); congruence.
  - rewrite stop_opt_length. auto.
  - intros q Nq. rewrite Ho by auto. destruct (prod_eq_dec q p); [congruence|auto].
Qed.

Lemma AInv_modify b tk tk' p pt d :
  AInv b tk -> tk p = Some pt ->
  tk' p = Some (mkP (pt_tid pt) (pt_can pt) d (pt_period pt) (pt_remote pt)) ->
  (forall q, q <> p -> tk' q = tk q) ->
  AInv (bus_modify b (pt_tid pt) d) tk'.
Proof.
  intros (C & D & N) Hp Hp' Ho. split; [|split].
  - intros q qt Hq. destruct (prod_eq_dec q p) as [->|Nq].
    + rewrite Hp' in Hq. injection Hq as <-. cbn [pt_tid].
      pose proof (C _ _ Hp) as (c1 & c2 & c3 & c4 & c5).
      rewrite get_modify_eq by (apply alive_lt; exact c1). repeat split; cbn; auto.
    + rewrite Ho in Hq by auto.
      assert (pt_tid qt <> pt_tid pt) as NE. { intros E. apply Nq. eapply D; eauto. }
      rewrite get_modify_neq by auto. eauto.
  - intros q q' qt qt' Hq Hq' E.
    destruct (prod_eq_dec q p) as [->|Nq]; destruct (prod_eq_dec q' p) as [->|Nq']; auto.
    + rewrite Hp' in Hq. injection Hq as <-. cbn in E. rewrite Ho in Hq' by auto. symmetry. eapply D; eauto.
    + rewrite Hp' in Hq'. injection Hq' as <-. cbn in E. rewrite Ho in Hq by auto. eapply D; eauto.
    + rewrite Ho in Hq, Hq' by auto. eauto.
  - intros t Ht. rewrite alive_modify in Ht. destruct (N t Ht) as (q & qt & Hq & E).
    destruct (prod_eq_dec q p) as [->|Nq].
    + exists p. eexists. split; [exact Hp'|]. cbn. congruence.
    + exists q, qt. rewrite Ho; auto.
Qed.

Lemma AInv_update m b tk tk' p pt d b' pt' :
  AInv b tk -> tk p = Some pt -> pt_update m b pt d = (b', pt') -> tk' p = Some pt' ->
  (forall q, q <> p -> tk' q = tk q) -> AInv b' tk'.
Proof.
  intros A Hp U Hp' Ho. unfold pt_update in U. destruct m.
  - injection U as <- <-. eapply AInv_modify; eauto.
  - destruct (list_Z_eqb d (pt_data pt)) eqn:E.
    + injection U as <- <-. apply list_Z_eqb_eq in E. subst d.
      eapply AInv_ext; eauto. intros q. destruct (prod_eq_dec q p) as [->|Nq]; auto.
      rewrite Hp', Hp. destruct pt; reflexivity.
    + injection U as <- <-.
      pose proof (AInv_restart b tk tk' p (pt_can pt) d (pt_period pt) (pt_remote pt) A Hp' Ho) as R.
      rewrite Hp in R. exact R.
Qed.

(* what pt_update leaves in the PeriodicMessageTask *)
Lemma pt_update_fields m b pt d b' pt' :
  pt_update m b pt d = (b', pt') ->
  pt_can pt' = pt_can pt /\ pt_data pt' = d /\ pt_period pt' = pt_period pt /\ pt_remote pt' = pt_remote pt.
Proof.
  unfold pt_update. destruct m; [|destruct (list_Z_eqb d (pt_data pt))]; intros U; injection U as <- <-; cbn; auto.
Qed.

Section Inv.
Context (X : prod -> Prop).

(* ------------------------------------------------------------------ frame lemmas for the state setters *)
Lemma inv_frame s s' p :
  inv X s ->
  (forall q, q <> p -> task_of s' q = task_of s q) ->
  (forall q pt, q <> p -> current X s q pt -> current X s' q pt) ->
  AInv (st_bus s') (task_of s') ->
  (forall pt, task_of s' p = Some pt -> current X s' p pt) ->
  inv X s'.
Proof.
  intros [A C] T K A' C'. split; auto. intros q pt Hq. destruct (prod_eq_dec q p) as [->|N]; auto.
  apply K; auto. apply C. rewrite <- T; auto.
Qed.

Lemma frame_sync s b y q : q <> PSync ->
  task_of (set_sync s b y) q = task_of s q /\ forall pt, current X s q pt -> current X (set_sync s b y) q pt.
Proof. destruct q; try congruence; intros _; split; auto. Qed.

Lemma frame_hb s b h q : q <> PHb ->
  task_of (set_hb s b h) q = task_of s q /\ forall pt, current X s q pt -> current X (set_hb s b h) q pt.
Proof. destruct q; try congruence; intros _; split; auto. Qed.

Lemma frame_guard s b g q : q <> PGuard ->
  task_of (set_guard s b g) q = task_of s q /\ forall pt, current X s q pt -> current X (set_guard s b g) q pt.
Proof. destruct q; try congruence; intros _; split; auto. Qed.

Lemma frame_pdo s b i pd q : q <> PPdo i ->
  task_of (set_pdo s b i pd) q = task_of s q /\ forall pt, current X s q pt -> current X (set_pdo s b i pd) q pt.
Proof.
  destruct q as [| | |j]; intros N; try (split; auto; fail).
  assert (j <> i) by congruence. unfold set_pdo, current; cbn. rewrite nth_error_upd_neq by auto. split; auto.
Qed.

Lemma task_set_pdo s b i pd pd0 : nth_error (st_pdos s) i = Some pd0 ->
  task_of (set_pdo s b i pd) (PPdo i) = pd_task pd /\ nth_error (st_pdos (set_pdo s b i pd)) i = Some pd.
Proof. intros H. cbn. rewrite nth_error_upd_eq, H. cbn. auto. Qed.

Ltac framed L := first [ intros ? ? ; apply L; assumption | intros ? ? ? ; apply L; assumption ].

(* ------------------------------------------------------------------ SyncProducer *)
Lemma inv_sync_stop s : inv X s -> inv X (sync_stop s).
Proof.
  intros I. unfold sync_stop. apply inv_frame with (s := s) (p := PSync); auto; try framed frame_sync.
  - destruct I as [A _]. change (st_bus (set_sync s ?b ?y)) with b.
    apply (AInv_stop_opt (st_bus s) (task_of s) _ PSync A); [reflexivity|]. intros; apply frame_sync; auto.
  - cbn. discriminate.
Qed.

Lemma inv_sync_start s p : inv X s -> inv X (fst (sync_start s p)).
Proof.
  intros I. unfold sync_start.
  destruct (match p with Some x => Some x | None => sy_period (st_sync s) end) as [x|] eqn:P; [|exact I].
  destruct (x =? 0) eqn:Z; cbn [fst].
  - apply inv_frame with (s := s) (p := PSync); auto; try framed frame_sync.
    + destruct I as [A _]. eapply AInv_ext; [exact A|]. intros q; destruct q; reflexivity.
    + intros pt H. destruct I as [_ C]. specialize (C PSync pt H). destruct C as [C _].
      split; [exact C|]. intros _. cbn. exists x. split; auto. intros; lia.
  - unfold send_periodic. destruct (st_conn s) eqn:Cn; cbn [fst].
    + apply inv_frame with (s := s) (p := PSync); auto; try framed frame_sync.
      * destruct I as [A _]. change (st_bus (set_sync s ?b ?y)) with b. rewrite stop_opt_length.
        apply (AInv_restart (st_bus s) (task_of s) _ PSync _ _ _ _ A); [reflexivity|]. intros; apply frame_sync; auto.
      * intros pt H. cbn in H. injection H as <-. split; [cbn; repeat split; auto; lia|].
        intros _. cbn. exists x. split; auto.
    + apply inv_frame with (s := s) (p := PSync); auto; try framed frame_sync.
      * destruct I as [A _]. change (st_bus (set_sync s ?b ?y)) with b.
        apply (AInv_stop_opt (st_bus s) (task_of s) _ PSync A); [reflexivity|]. intros; apply frame_sync; auto.
      * cbn. discriminate.
Qed.

(* ------------------------------------------------------------------ NmtMaster node guarding *)
Lemma inv_guard_stop s : inv X s -> inv X (guard_stop s).
Proof.
  intros I. unfold guard_stop. apply inv_frame with (s := s) (p := PGuard); auto; try framed frame_guard.
  - destruct I as [A _]. change (st_bus (set_guard s ?b ?y)) with b.
    apply (AInv_stop_opt (st_bus s) (task_of s) _ PGuard A); [reflexivity|]. intros; apply frame_guard; auto.
  - cbn. discriminate.
Qed.

Lemma inv_guard_start s p : inv X s -> inv X (fst (guard_start s p)).
Proof.
  intros I. unfold guard_start, send_periodic. destruct (st_conn s) eqn:Cn; cbn [fst].
  - apply inv_frame with (s := s) (p := PGuard); auto; try framed frame_guard.
    + destruct I as [A _]. change (st_bus (set_guard s ?b ?y)) with b. rewrite stop_opt_length.
      apply (AInv_restart (st_bus s) (task_of s) _ PGuard _ _ _ _ A); [reflexivity|]. intros; apply frame_guard; auto.
    + intros pt H. cbn in H. injection H as <-. split; cbn; auto.
  - apply inv_frame with (s := s) (p := PGuard); auto; try framed frame_guard.
    + destruct I as [A _]. change (st_bus (set_guard s ?b ?y)) with b.
      apply (AInv_stop_opt (st_bus s) (task_of s) _ PGuard A); [reflexivity|]. intros; apply frame_guard; auto.
    + cbn. discriminate.
Qed.

(* ------------------------------------------------------------------ NmtSlave heartbeat *)
(* [h0] is the heartbeat record as the method finds it: same handle and node as in [s], possibly a new NMT state *)
Lemma inv_hb_start s h0 ms b1 h1 r :
  inv X s -> hb_task h0 = hb_task (st_hb s) -> hb_node h0 = hb_node (st_hb s) ->
  hb_start1 (st_conn s) (st_bus s) h0 ms = (b1, h1, r) -> inv X (set_hb s b1 h1).
Proof.
  intros I Ht Hn. unfold hb_start1, send_periodic.
  destruct (0 <? ms) eqn:P; [destruct (st_conn s) eqn:Cn|]; intros E; injection E as <- <- <-.
  - apply inv_frame with (s := s) (p := PHb); auto; try framed frame_hb.
    + destruct I as [A _]. change (st_bus (set_hb s ?b ?y)) with b. rewrite stop_opt_length, Ht.
      apply (AInv_restart (st_bus s) (task_of s) _ PHb _ _ _ _ A); [reflexivity|]. intros; apply frame_hb; auto.
    + intros pt H. cbn in H. injection H as <-. split; [cbn; repeat split; auto; lia|cbn; auto].
  - apply inv_frame with (s := s) (p := PHb); auto; try framed frame_hb.
    + destruct I as [A _]. change (st_bus (set_hb s ?b ?y)) with b. rewrite Ht.
      apply (AInv_stop_opt (st_bus s) (task_of s) _ PHb A); [reflexivity|]. intros; apply frame_hb; auto.
    + cbn. discriminate.
  - apply inv_frame with (s := s) (p := PHb); auto; try framed frame_hb.
    + destruct I as [A _]. change (st_bus (set_hb s ?b ?y)) with b. rewrite Ht.
      apply (AInv_stop_opt (st_bus s) (task_of s) _ PHb A); [reflexivity|]. intros; apply frame_hb; auto.
    + cbn. discriminate.
Qed.

Lemma inv_hb_stop s h0 b1 h1 :
  inv X s -> hb_task h0 = hb_task (st_hb s) ->
  hb_stop1 (st_bus s) h0 = (b1, h1) -> inv X (set_hb s b1 h1).
Proof.
  intros I Ht. unfold hb_stop1. intros E; injection E as <- <-.
  apply inv_frame with (s := s) (p := PHb); auto; try framed frame_hb.
  - destruct I as [A _]. change (st_bus (set_hb s ?b ?y)) with b. rewrite Ht.
    apply (AInv_stop_opt (st_bus s) (task_of s) _ PHb A); [reflexivity|]. intros; apply frame_hb; auto.
  - cbn. discriminate.
Qed.

Lemma inv_hb_update s h0 b1 h1 :
  inv X s -> hb_task h0 = hb_task (st_hb s) -> hb_node h0 = hb_node (st_hb s) -> hb_ms h0 = hb_ms (st_hb s) ->
  hb_update1 (st_modify s) (st_bus s) h0 = (b1, h1) -> inv X (set_hb s b1 h1).
Proof.
  intros I Ht Hn Hm. unfold hb_update1. destruct (hb_task h0) as [pt|] eqn:T.
  - destruct (pt_update (st_modify s) (st_bus s) pt [hb_state h0]) as [b' pt'] eqn:U.
    intros E; injection E as <- <-.
    assert (task_of s PHb = Some pt) as H0 by (cbn; congruence).
    apply inv_frame with (s := s) (p := PHb); auto; try framed frame_hb.
    + destruct I as [A _]. change (st_bus (set_hb s ?b ?y)) with b.
      apply (AInv_update (st_modify s) (st_bus s) (task_of s) _ PHb pt [hb_state h0] b' pt' A H0 U); [reflexivity|].
      intros; apply frame_hb; auto.
    + intros qt H. cbn in H. injection H as <-.
      destruct I as [_ C].
      specialize (C PHb pt H0). destruct C as [C _]. cbn in C. destruct C as (c1 & c2 & c3 & c4 & _).
      apply pt_update_fields in U as (u1 & u2 & u3 & u4). split; [|cbn; auto].
      cbn. rewrite u1, u2, u3, u4, Hn, Hm. auto.
  - intros E; injection E as <- <-.
    apply inv_frame with (s := s) (p := PHb); auto; try framed frame_hb.
    + destruct I as [A _]. eapply AInv_ext; [exact A|]. intros q; destruct q; cbn; auto. congruence.
    + cbn. rewrite T. discriminate.
Qed.

(* the NMT state alone changes while the network is disconnected (boot-up message raises) *)
Lemma inv_hb_state_disconnected s st :
  inv X s -> st_conn s = false ->
  inv X (set_hb s (st_bus s) (hb_set (st_hb s) st (hb_ms (st_hb s)) (hb_obj (st_hb s)) (hb_task (st_hb s)))).
Proof.
  intros I Cn. apply inv_frame with (s := s) (p := PHb); auto; try framed frame_hb.
  - destruct I as [A _]. eapply AInv_ext; [exact A|]. intros q; destruct q; reflexivity.
  - intros pt H. destruct I as [_ C]. specialize (C PHb pt H). destruct C as [C _]. cbn in C.
    destruct C as (c1 & c2 & c3 & c4 & _). split; [|cbn; auto]. cbn. repeat split; auto. rewrite Cn. discriminate.
Qed.

Lemma inv_nmt_cmd s code : inv X s -> inv X (fst (nmt_cmd s code)).
Proof.
  intros I. unfold nmt_cmd.
  destruct ((new_state code (hb_state (st_hb s)) =? 0) && negb (st_conn s)) eqn:B.
  - cbn [fst]. apply inv_hb_state_disconnected; auto.
    apply andb_true_iff in B as [_ B]. destruct (st_conn s); auto; discriminate.
  - destruct ((hb_state (st_hb s) =? 0) && (new_state code (hb_state (st_hb s)) =? 127)).
    + destruct (hb_start1 _ _ _ _) as [[b1 h1] r] eqn:E. cbn [fst]. eapply inv_hb_start; [exact I| | |exact E]; reflexivity.
    + destruct (hb_update1 _ _ _) as [b1 h1] eqn:E. cbn [fst]. eapply inv_hb_update; [exact I| | | |exact E]; reflexivity.
Qed.

Lemma inv_nmt_recv s code node : inv X s -> inv X (fst (nmt_recv s code node)).
Proof.
  intros I. unfold nmt_recv. destruct (hb_update1 _ _ _) as [b1 h1] eqn:E. cbn [fst]. eapply inv_hb_update; [exact I| | | |exact E]; reflexivity.
Qed.

Lemma inv_hb_obj s b h obj : inv X (set_hb s b h) ->
  inv X (set_hb s b (hb_set h (hb_state h) (hb_ms h) obj (hb_task h))).
Proof.
  intros I. apply inv_frame with (s := set_hb s b h) (p := PHb).
  - exact I.
  - intros q N. destruct q; try congruence; reflexivity.
  - intros q pt N. destruct q; try congruence; auto.
  - destruct I as [A _]. eapply AInv_ext; [exact A|]. intros q; destruct q; reflexivity.
  - intros pt H. destruct I as [_ C]. apply (C PHb pt H).
Qed.

Lemma inv_obj_write s idx v : inv X s -> inv X (fst (obj_write s idx v)).
Proof.
  intros I. unfold obj_write. destruct ((v <? 0) || (65535 <? v)); [exact I|].
  destruct (idx =? HB_TIME_INDEX); [|exact I]. destruct (v =? 0).
  - destruct (hb_stop1 _ _) as [b1 h1] eqn:E. cbn [fst]. apply inv_hb_obj. eapply inv_hb_stop; [exact I| |exact E]; reflexivity.
  - destruct (hb_start1 _ _ _ _) as [[b1 h1] r] eqn:E.
    assert (inv X (set_hb s b1 h1)) by (eapply inv_hb_start; [exact I| | |exact E]; reflexivity).
    destruct r; cbn [fst]; [exact H | apply inv_hb_obj; exact H].
Qed.

(* ------------------------------------------------------------------ PdoMap *)
(* [pd0] is the map as the method finds it: same handle as stored in [s] (its payload may differ) *)
Lemma inv_pdo_start s i pd pd0 p b1 pd1 r :
  inv X s -> nth_error (st_pdos s) i = Some pd -> pd_task pd0 = pd_task pd ->
  pdo_start1 (st_conn s) (st_bus s) pd0 p = (b1, pd1, r) -> inv X (set_pdo s b1 i pd1).
Proof.
  intros I Hi Ht. unfold pdo_start1, send_periodic.
  assert (task_of s (PPdo i) = pd_task pd0) as T0 by (cbn; rewrite Hi; auto).
  assert (forall per, inv X (set_pdo s (stop_opt (st_bus s) (pd_task pd0)) i
                             (mkPd (pd_cob pd0) (pd_nvars pd0) (pd_data pd0) per None))) as STOP.
  { intros per. apply inv_frame with (s := s) (p := PPdo i); auto; try framed frame_pdo.
    - destruct I as [A _]. change (st_bus (set_pdo s ?b ?j ?y)) with b. rewrite <- T0.
      apply (AInv_stop_opt (st_bus s) (task_of s) _ (PPdo i) A).
      + rewrite (proj1 (task_set_pdo s _ i _ pd Hi)); reflexivity.
      + intros; apply frame_pdo; auto.
    - intros pt H. rewrite (proj1 (task_set_pdo s _ i _ pd Hi)) in H. discriminate. }
  destruct (match p with Some x => Some x | None => pd_period pd0 end) as [x|] eqn:P.
  - destruct (x =? 0) eqn:Z; [intros E; injection E as <- <- <-; apply STOP|].
    destruct (st_conn s) eqn:Cn; intros E; injection E as <- <- <-; [|apply STOP].
    apply inv_frame with (s := s) (p := PPdo i); auto; try framed frame_pdo.
    + destruct I as [A _]. change (st_bus (set_pdo s ?b ?j ?y)) with b. rewrite stop_opt_length, <- T0.
      apply (AInv_restart (st_bus s) (task_of s) _ (PPdo i) _ _ _ _ A).
      * rewrite (proj1 (task_set_pdo s _ i _ pd Hi)); reflexivity.
      * intros; apply frame_pdo; auto.
    + intros pt H. destruct (task_set_pdo s (stop_opt (st_bus s) (pd_task pd0) ++
          [mkB (pd_cob pd0) (pd_data pd0) x false true]) i
          (mkPd (pd_cob pd0) (pd_nvars pd0) (pd_data pd0) (Some x)
             (Some (mkP (length (stop_opt (st_bus s) (pd_task pd0))) (pd_cob pd0) (pd_data pd0) x false))) pd Hi) as [T1 N1].
      rewrite T1 in H. injection H as <-. split; [cbn; split; auto; lia|].
      intros _. cbn [attrs_current]. eexists. split; [exact N1|]. cbn. auto.
  - intros E; injection E as <- <- <-. apply STOP.
Qed.

Lemma inv_pdo_stop s i pd b1 pd1 :
  inv X s -> nth_error (st_pdos s) i = Some pd ->
  pdo_stop1 (st_bus s) pd = (b1, pd1) -> inv X (set_pdo s b1 i pd1).
Proof.
  intros I Hi. unfold pdo_stop1. intros E; injection E as <- <-.
  assert (task_of s (PPdo i) = pd_task pd) as T0 by (cbn; rewrite Hi; auto).
  apply inv_frame with (s := s) (p := PPdo i); auto; try framed frame_pdo.
  - destruct I as [A _]. change (st_bus (set_pdo s ?b ?j ?y)) with b. rewrite <- T0.
    apply (AInv_stop_opt (st_bus s) (task_of s) _ (PPdo i) A).
    + rewrite (proj1 (task_set_pdo s _ i _ pd Hi)); reflexivity.
    + intros; apply frame_pdo; auto.
  - intros pt H. rewrite (proj1 (task_set_pdo s _ i _ pd Hi)) in H. discriminate.
Qed.

Lemma inv_pdo_update s i pd pd0 b1 pd1 :
  inv X s -> nth_error (st_pdos s) i = Some pd ->
  pd_task pd0 = pd_task pd -> pd_cob pd0 = pd_cob pd -> pd_period pd0 = pd_period pd ->
  pdo_update1 (st_modify s) (st_bus s) pd0 = (b1, pd1) -> inv X (set_pdo s b1 i pd1).
Proof.
  intros I Hi Ht Hc Hp. unfold pdo_update1.
  assert (task_of s (PPdo i) = pd_task pd0) as T0 by (cbn; rewrite Hi; auto).
  destruct (pd_task pd0) as [pt|] eqn:T.
  - destruct (pt_update (st_modify s) (st_bus s) pt (pd_data pd0)) as [b' pt'] eqn:U.
    intros E; injection E as <- <-.
    apply inv_frame with (s := s) (p := PPdo i); auto; try framed frame_pdo.
    + destruct I as [A _]. change (st_bus (set_pdo s ?b ?j ?y)) with b.
      apply (AInv_update (st_modify s) (st_bus s) (task_of s) _ (PPdo i) pt (pd_data pd0) b' pt' A T0 U).
      * rewrite (proj1 (task_set_pdo s _ i _ pd Hi)); reflexivity.
      * intros; apply frame_pdo; auto.
    + intros qt H.
      destruct (task_set_pdo s b' i (mkPd (pd_cob pd0) (pd_nvars pd0) (pd_data pd0) (pd_period pd0) (Some pt')) pd Hi) as [T1 N1].
      rewrite T1 in H. injection H as <-.
      destruct I as [_ C]. specialize (C (PPdo i) pt T0). destruct C as [[c1 c2] CA].
      apply pt_update_fields in U as (u1 & u2 & u3 & u4).
      split; [cbn; rewrite u3, u4; auto|].
      intros NX. destruct (CA NX) as (pd' & e1 & a1 & a2). rewrite Hi in e1. injection e1 as <-.
      cbn [attrs_current]. eexists. split; [exact N1|]. cbn. rewrite u1, u3, Hc, Hp. auto.
  - intros E; injection E as <- <-.
    apply inv_frame with (s := s) (p := PPdo i); auto; try framed frame_pdo.
    + destruct I as [A _]. eapply AInv_ext; [exact A|]. intros q.
      destruct (prod_eq_dec q (PPdo i)) as [->|N].
      * rewrite (proj1 (task_set_pdo s _ i _ pd Hi)). congruence.
      * apply frame_pdo; auto.
    + intros pt H. rewrite (proj1 (task_set_pdo s _ i _ pd Hi)) in H. congruence.
Qed.

Lemma inv_pdo_data s i pd d :
  inv X s -> nth_error (st_pdos s) i = Some pd -> inv X (set_pdo s (st_bus s) i (pd_set_data pd d)).
Proof.
  intros I Hi.
  apply inv_frame with (s := s) (p := PPdo i); auto; try framed frame_pdo.
  - destruct I as [A _]. eapply AInv_ext; [exact A|]. intros q.
    destruct (prod_eq_dec q (PPdo i)) as [->|N].
    + rewrite (proj1 (task_set_pdo s _ i _ pd Hi)). cbn. rewrite Hi. reflexivity.
    + apply frame_pdo; auto.
  - intros pt H. destruct (task_set_pdo s (st_bus s) i (pd_set_data pd d) pd Hi) as [T1 N1].
    rewrite T1 in H. cbn in H.
    destruct I as [_ C]. assert (task_of s (PPdo i) = Some pt) as T0 by (cbn; rewrite Hi; auto).
    specialize (C (PPdo i) pt T0). destruct C as [CF CA]. split; [exact CF|].
    intros NX. destruct (CA NX) as (pd' & e1 & a1 & a2). rewrite Hi in e1. injection e1 as <-.
    cbn [attrs_current]. eexists. split; [exact N1|]. cbn. auto.
Qed.

(* attribute assignments: the producer concerned must be exempted *)
Lemma inv_pdo_attr s i pd c per :
  X (PPdo i) -> inv X s -> nth_error (st_pdos s) i = Some pd ->
  inv X (set_pdo s (st_bus s) i (mkPd c (pd_nvars pd) (pd_data pd) per (pd_task pd))).
Proof.
  intros HX I Hi.
  apply inv_frame with (s := s) (p := PPdo i); auto; try framed frame_pdo.
  - destruct I as [A _]. eapply AInv_ext; [exact A|]. intros q.
    destruct (prod_eq_dec q (PPdo i)) as [->|N].
    + rewrite (proj1 (task_set_pdo s _ i _ pd Hi)). cbn. rewrite Hi. reflexivity.
    + apply frame_pdo; auto.
  - intros pt H. rewrite (proj1 (task_set_pdo s _ i _ pd Hi)) in H. cbn in H.
    destruct I as [_ C]. assert (task_of s (PPdo i) = Some pt) as T0 by (cbn; rewrite Hi; auto).
    specialize (C (PPdo i) pt T0). destruct C as [CF _]. split; [exact CF|]. intros NX. contradiction.
Qed.

Lemma inv_sync_attr s p :
  X PSync -> inv X s -> inv X (set_sync s (st_bus s) (mkSy p (sy_task (st_sync s)))).
Proof.
  intros HX I.
  apply inv_frame with (s := s) (p := PSync); auto; try framed frame_sync.
  - destruct I as [A _]. eapply AInv_ext; [exact A|]. intros q; destruct q; reflexivity.
  - intros pt H. destruct I as [_ C]. specialize (C PSync pt H). destruct C as [CF _].
    split; [exact CF|]. intros NX. contradiction.
Qed.

(* ------------------------------------------------------------------ Network.disconnect *)
Definition pd_clear (pd : pdo_st) : pdo_st := mkPd (pd_cob pd) (pd_nvars pd) (pd_data pd) (pd_period pd) None.

Definition held_by_pdo (l : list pdo_st) (t : nat) : Prop :=
  exists j pd pt, nth_error l j = Some pd /\ pd_task pd = Some pt /\ pt_tid pt = t.

Lemma stop_all_spec l : forall b b' l', stop_all b l = (b', l') ->
  l' = map pd_clear l /\
  (forall t, bus_get b' t = bus_get b t \/ held_by_pdo l t) /\
  (forall t, held_by_pdo l t -> bus_alive b' t = false).
Proof.
  induction l as [|pd r IH]; intros b b' l' E; cbn in E.
  - injection E as <- <-. split; [reflexivity|]. split; [auto|].
    intros t (j & pd & pt & H & _). destruct j; discriminate.
  - destruct (stop_all (stop_opt b (pd_task pd)) r) as [b2 r'] eqn:E2. injection E as <- <-.
    destruct (IH _ _ _ E2) as (L & G & K). subst r'.
    assert (forall t, bus_alive b2 t = true -> bus_alive (stop_opt b (pd_task pd)) t = true) as MONO.
    { intros t Ht. destruct (G t) as [Eq|Hd]; [unfold bus_alive in *; congruence|].
      rewrite (K t Hd) in Ht. discriminate. }
    split; [reflexivity|]. split.
    + intros t. destruct (G t) as [Eq|(j & pd' & pt & H1 & H2 & H3)].
      * destruct (pd_task pd) as [pt|] eqn:T; cbn in Eq; [|auto].
        destruct (Nat.eq_dec t (pt_tid pt)) as [->|N].
        -- right. exists O, pd, pt. auto.
        -- left. rewrite Eq. unfold pt_stop. apply get_stop_neq; auto.
      * right. exists (S j), pd', pt. auto.
    + intros t (j & pd' & pt & H1 & H2 & H3). destruct j as [|j]; cbn in H1.
      * injection H1 as <-. destruct (bus_alive b2 t) eqn:Al; auto.
        apply MONO in Al. rewrite H2 in Al. cbn in Al. unfold pt_stop in Al. rewrite H3 in Al.
        rewrite alive_stop_eq in Al. discriminate.
      * apply K. exists j, pd', pt. auto.
Qed.

Lemma inv_disconnect s : inv X s -> inv X (disconnect s).
Proof.
  intros [(C & D & N) K]. unfold disconnect.
  destruct (stop_all (st_bus s) (st_pdos s)) as [b1 l1] eqn:E.
  destruct (stop_all_spec _ _ _ _ E) as (L & G & Kd). subst l1.
  assert (forall i, task_of (mkS (st_modify s) false b1 (st_sync s) (map pd_clear (st_pdos s)) (st_hb s) (st_guard s)) (PPdo i) = None) as PN.
  { intros i. cbn. rewrite nth_error_map. destruct (nth_error (st_pdos s) i); reflexivity. }
  assert (forall q, (forall i, q <> PPdo i) ->
            task_of (mkS (st_modify s) false b1 (st_sync s) (map pd_clear (st_pdos s)) (st_hb s) (st_guard s)) q = task_of s q) as SAME.
  { intros q Hq. destruct q; try reflexivity. exfalso. eapply Hq; reflexivity. }
  assert (forall t, held_by_pdo (st_pdos s) t -> forall q qt, task_of s q = Some qt -> pt_tid qt = t -> exists j, q = PPdo j) as OWN.
  { intros t (j & pd & pt & H1 & H2 & H3) q qt Hq Et. exists j. apply (D q (PPdo j) qt pt Hq).
    - cbn. rewrite H1. exact H2.
    - congruence. }
  split; [split; [|split]|].
  - intros q qt Hq. destruct q as [| | |i]; try (rewrite PN in Hq; discriminate);
      (rewrite SAME in Hq by discriminate; cbn [st_bus];
       destruct (G (pt_tid qt)) as [Eq|Hd];
       [rewrite Eq; eauto | destruct (OWN _ Hd _ _ Hq eq_refl) as [j Ej]; discriminate]).
  - intros q q' qt qt' Hq Hq' Et.
    destruct q as [| | |i]; try (rewrite PN in Hq; discriminate);
    destruct q' as [| | |i']; try (rewrite PN in Hq'; discriminate);
      rewrite SAME in Hq, Hq' by discriminate; eauto.
  - intros t Ht. cbn [st_bus] in Ht.
    destruct (G t) as [Eq|Hd]; [|rewrite (Kd t Hd) in Ht; discriminate].
    assert (bus_alive (st_bus s) t = true) as Al by (unfold bus_alive in *; congruence).
    destruct (N t Al) as (q & qt & Hq & Et). exists q, qt. split; auto.
    destruct q as [| | |i]; try (rewrite SAME by discriminate; auto).
    exfalso. cbn in Hq. destruct (nth_error (st_pdos s) i) as [pd|] eqn:Hi; [|discriminate].
    assert (held_by_pdo (st_pdos s) t) as Hd by (exists i, pd, qt; auto).
    rewrite (Kd t Hd) in Ht. discriminate.
  - intros q qt Hq. destruct q as [| | |i]; try (rewrite PN in Hq; discriminate);
      rewrite SAME in Hq by discriminate; specialize (K _ _ Hq); destruct K as [KF KA];
      (split; [|exact KA]); cbn in KF |- *; auto.
    destruct KF as (k1 & k2 & k3 & k4 & _). repeat split; auto. discriminate.
Qed.

(* ------------------------------------------------------------------ the invariant *)
Lemma inv_init c : inv X (init c).
Proof.
  split; [split; [|split]|].
  - intros p pt H. destruct p; cbn in H; try discriminate.
    rewrite nth_error_map in H. destruct (nth_error (cf_pdos c) i); discriminate.
  - intros p q pt qt H. destruct p; cbn in H; try discriminate.
    rewrite nth_error_map in H. destruct (nth_error (cf_pdos c) i); discriminate.
  - intros t H. unfold bus_alive, bus_get in H. cbn in H. destruct t; discriminate.
  - intros p pt H. destruct p; cbn in H; try discriminate.
    rewrite nth_error_map in H. destruct (nth_error (cf_pdos c) i); discriminate.
Qed.

Lemma step_inv s o : (forall p, touches o p = true -> X p) -> inv X s -> inv X (step_st s o).
Proof.
  intros HX I. unfold step_st. destruct o; cbn [step].
  - apply inv_sync_start; auto.
  - cbn [fst]. apply inv_sync_stop; auto.
  - destruct (nth_error (st_pdos s) i) as [pd|] eqn:Hi; [|exact I].
    destruct (pdo_start1 _ _ _ _) as [[b1 pd1] r] eqn:E. cbn [fst].
    eapply inv_pdo_start; [exact I|exact Hi| |exact E]; reflexivity.
  - destruct (nth_error (st_pdos s) i) as [pd|] eqn:Hi; [|exact I].
    destruct (pdo_stop1 _ _) as [b1 pd1] eqn:E. cbn [fst]. eapply inv_pdo_stop; eauto.
  - destruct (nth_error (st_pdos s) i) as [pd|] eqn:Hi; [|exact I].
    destruct (pdo_update1 _ _ _) as [b1 pd1] eqn:E. cbn [fst].
    eapply inv_pdo_update; [exact I|exact Hi| | | |exact E]; reflexivity.
  - destruct (nth_error (st_pdos s) i) as [pd|] eqn:Hi; [|exact I].
    destruct (negb _); [exact I|]. destruct (negb _); [exact I|]. cbn [fst]. apply inv_pdo_data; auto.
  - destruct (nth_error (st_pdos s) i) as [pd|] eqn:Hi; [|exact I]. cbn [fst]. apply inv_pdo_data; auto.
  - destruct (nth_error (st_pdos s) i) as [pd|] eqn:Hi; [|exact I].
    destruct (negb _); [exact I|]. destruct (negb _); [exact I|].
    destruct (pdo_update1 _ _ _) as [b1 pd1] eqn:E. cbn [fst].
    eapply inv_pdo_update; [exact I|exact Hi| | | |exact E]; reflexivity.
  - destruct (hb_start1 _ _ _ _) as [[b1 h1] r] eqn:E. cbn [fst]. eapply inv_hb_start; [exact I| | |exact E]; reflexivity.
  - destruct (hb_stop1 _ _) as [b1 h1] eqn:E. cbn [fst]. eapply inv_hb_stop; [exact I| |exact E]; reflexivity.
  - destruct (hb_update1 _ _ _) as [b1 h1] eqn:E. cbn [fst]. eapply inv_hb_update; [exact I| | | |exact E]; reflexivity.
  - apply inv_nmt_cmd; auto.
  - apply inv_nmt_recv; auto.
  - apply inv_obj_write; auto.
  - apply inv_guard_start; auto.
  - cbn [fst]. apply inv_guard_stop; auto.
  - cbn [fst]. apply inv_disconnect; auto.
  - cbn [fst]. apply inv_sync_attr; auto.
  - destruct (nth_error (st_pdos s) i) as [pd|] eqn:Hi; [|exact I]. cbn [fst].
    apply inv_pdo_attr; auto. apply HX. cbn. apply Nat.eqb_refl.
  - destruct (nth_error (st_pdos s) i) as [pd|] eqn:Hi; [|exact I]. cbn [fst].
    apply inv_pdo_attr; auto. apply HX. cbn. apply Nat.eqb_refl.
Qed.

Lemma run_inv ops : forall s, (forall o p, In o ops -> touches o p = true -> X p) -> inv X s -> inv X (run s ops).
Proof.
  induction ops as [|o r IH]; intros s HX I; cbn; auto. apply IH.
  - intros o' p Hin. apply HX. right. auto.
  - apply step_inv; auto. intros p. apply HX. left. auto.
Qed.
End Inv.

(* no producer exempted from nothing: the invariant that holds for every call sequence, attribute
   assignments included, leaves the attribute clause out for all producers *)
Definition XT : prod -> Prop := fun _ => True.

Lemma reachable_inv c ops : inv XT (run (init c) ops).
Proof. apply run_inv; [intros; exact I|apply inv_init]. Qed.

Lemma step_inv_T s o : inv XT s -> inv XT (step_st s o).
Proof. apply step_inv. intros; exact I. Qed.

Lemma inv_exempt X1 X2 s : inv X1 s ->
  (forall q pt, task_of s q = Some pt -> ~ X2 q -> attrs_current s q pt) -> inv X2 s.
Proof.
  intros [A C] H. split; auto. intros q pt Hq. destruct (C q pt Hq) as [CF _]. split; auto.
Qed.


(* ------------------------------------------------------------------ consequences for single calls *)
Lemma none_running_of X s p : inv X s -> task_of s p = None -> none_running s p.
Proof.
  intros [(_ & _ & N) _] H. split; auto. intros t Ht. destruct (N t Ht) as (q & qt & Hq & E).
  exists q, qt. repeat split; auto. intros ->. congruence.
Qed.

Lemma task_after_stop s p : task_of (step_st s (stop_op p)) p = None.
Proof.
  destruct p as [| | |i]; try reflexivity. unfold step_st. cbn [stop_op step].
  destruct (nth_error (st_pdos s) i) as [pd|] eqn:Hi.
  - cbn [pdo_stop1 fst]. rewrite (proj1 (task_set_pdo s _ i _ pd Hi)). reflexivity.
  - cbn. rewrite Hi. reflexivity.
Qed.

Lemma stopped_means_none c ops p :
  none_running (step_st (run (init c) ops) (stop_op p)) p.
Proof. apply (none_running_of XT); [apply step_inv_T, reachable_inv|apply task_after_stop]. Qed.

Lemma heartbeat_zero_stops c ops :
  let s := run (init c) ops in
  none_running (step_st s (ObjWrite HB_TIME_INDEX 0)) PHb /\
  (forall ms, ms <= 0 -> none_running (step_st s (HbStart ms)) PHb) /\
  (forall pt, task_of s PHb = Some pt ->
     0 < hb_ms (st_hb s) /\ bt_period (bus_get (st_bus s) (pt_tid pt)) = hb_ms (st_hb s)).
Proof.
  intros s. pose proof (reachable_inv c ops) as I. fold s in I. split; [|split].
  - apply (none_running_of XT); [apply step_inv_T; auto|reflexivity].
  - intros ms Hms. apply (none_running_of XT); [apply step_inv_T; auto|].
    unfold step_st. cbn [step]. unfold hb_start1. replace (0 <? ms) with false by lia. reflexivity.
  - intros pt H. destruct I as [(C & _) K]. specialize (C _ _ H). specialize (K _ _ H).
    destruct K as [K _]. cbn in K. destruct C as (_ & _ & _ & c4 & _). destruct K as (_ & _ & k3 & k4 & _). split; auto. congruence.
Qed.

Lemma old_dead b old x : (pt_tid old < length b)%nat ->
  bus_alive (stop_opt b (Some old) ++ [x]) (pt_tid old) = false.
Proof.
  intros L. unfold bus_alive. rewrite get_app_old by (rewrite stop_opt_length; auto).
  cbn. unfold pt_stop. apply alive_stop_eq.
Qed.

Lemma started_intro X s s' p id d per r :
  inv X s ->
  st_bus s' = stop_opt (st_bus s) (task_of s p) ++ [mkB id d per r true] ->
  task_of s' p = Some (mkP (length (st_bus s)) id d per r) ->
  started s s' p id d per r.
Proof.
  intros [(C & _) _] B T. split; [exact T|]. split.
  - rewrite B. rewrite <- (stop_opt_length (st_bus s) (task_of s p)). apply get_app_new.
  - intros old H. rewrite B, H. apply old_dead. apply alive_lt. eapply carries_alive; eauto.
Qed.

Definition eff_period (arg attr : option Z) : option Z := match arg with Some x => Some x | None => attr end.

Lemma restart_leaves_one c ops :
  let s := run (init c) ops in
  (forall p x, eff_period p (sy_period (st_sync s)) = Some x -> snd (step s (SyncStart p)) = None ->
     started s (step_st s (SyncStart p)) PSync SYNC_COB_ID [] x false) /\
  (forall i p x pd, nth_error (st_pdos s) i = Some pd -> eff_period p (pd_period pd) = Some x ->
     snd (step s (PdoStart i p)) = None ->
     started s (step_st s (PdoStart i p)) (PPdo i) (pd_cob pd) (pd_data pd) x false) /\
  (forall ms, 0 < ms -> snd (step s (HbStart ms)) = None ->
     started s (step_st s (HbStart ms)) PHb (HB_BASE + hb_node (st_hb s)) [hb_state (st_hb s)] ms false) /\
  (forall x, snd (step s (GuardStart x)) = None ->
     started s (step_st s (GuardStart x)) PGuard (HB_BASE + gd_node (st_guard s)) [] x true).
Proof.
  intros s. pose proof (reachable_inv c ops) as I. fold s in I. split; [|split; [|split]].
  - intros p x. unfold step_st, eff_period. cbn [step]. unfold sync_start, send_periodic. intros ->.
    destruct (x =? 0); [discriminate|]. destruct (st_conn s); [|discriminate]. intros _. cbn [fst].
    apply (started_intro XT); auto. cbn. rewrite stop_opt_length. reflexivity.
  - intros i p x pd Hi. unfold step_st, eff_period. cbn [step]. rewrite Hi. unfold pdo_start1, send_periodic. intros ->.
    destruct (x =? 0); [discriminate|]. destruct (st_conn s); [|discriminate]. intros _. cbn [fst].
    apply (started_intro XT); auto.
    + cbn. rewrite Hi. reflexivity.
    + rewrite (proj1 (task_set_pdo s _ i _ pd Hi)). cbn. rewrite stop_opt_length. reflexivity.
  - intros ms Hms. unfold step_st. cbn [step]. unfold hb_start1, send_periodic.
    replace (0 <? ms) with true by lia. destruct (st_conn s); [|discriminate]. intros _. cbn [fst].
    apply (started_intro XT); auto. cbn. rewrite stop_opt_length. reflexivity.
  - intros x. unfold step_st. cbn [step]. unfold guard_start, send_periodic.
    destruct (st_conn s); [|discriminate]. intros _. cbn [fst].
    apply (started_intro XT); auto. cbn. rewrite stop_opt_length. reflexivity.
Qed.

(* a start that returns normally re-synchronises the task with the assignable attributes *)
Lemma start_sets_attrs s :
  (forall p, snd (step s (SyncStart p)) = None ->
     forall pt, task_of (step_st s (SyncStart p)) PSync = Some pt -> attrs_current (step_st s (SyncStart p)) PSync pt) /\
  (forall i p, snd (step s (PdoStart i p)) = None ->
     forall pt, task_of (step_st s (PdoStart i p)) (PPdo i) = Some pt ->
                attrs_current (step_st s (PdoStart i p)) (PPdo i) pt).
Proof.
  split.
  - intros p. unfold step_st. cbn [step]. unfold sync_start, send_periodic.
    destruct (match p with Some x => Some x | None => sy_period (st_sync s) end) as [x|]; [|discriminate].
    destruct (x =? 0); [discriminate|]. destruct (st_conn s); [|discriminate]. intros _ pt. cbn.
    intros H; injection H as <-. exists x. auto.
  - intros i p. unfold step_st. cbn [step].
    destruct (nth_error (st_pdos s) i) as [pd|] eqn:Hi; [|discriminate].
    unfold pdo_start1, send_periodic.
    destruct (match p with Some x => Some x | None => pd_period pd end) as [x|]; [|discriminate].
    destruct (x =? 0); [discriminate|]. destruct (st_conn s); [|discriminate]. intros _ pt. cbn [fst].
    match goal with |- task_of (set_pdo s ?b i ?pd1) _ = _ -> _ =>
      destruct (task_set_pdo s b i pd1 pd Hi) as [T1 N1] end.
    rewrite T1. cbn [pd_task]. intros H; injection H as <-.
    cbn [attrs_current]. eexists. split; [exact N1|]. cbn. auto.
Qed.

(* ... and it stays synchronised until the application assigns one of those attributes again *)
Lemma attrs_stay_current c ops1 ops2 p :
  let s := run (init c) ops1 in
  (forall pt, task_of s p = Some pt -> attrs_current s p pt) ->
  (forall o, In o ops2 -> touches o p = false) ->
  forall pt, task_of (run s ops2) p = Some pt -> attrs_current (run s ops2) p pt.
Proof.
  intros s H0 HT pt Hpt.
  assert (inv (fun q => q <> p) s) as I.
  { apply (inv_exempt XT); [apply reachable_inv|]. intros q qt Hq NX.
    destruct (prod_eq_dec q p) as [->|N]; [auto|]. exfalso. apply NX. exact N. }
  assert (inv (fun q => q <> p) (run s ops2)) as I2.
  { apply run_inv; auto. intros o q Hin Tq ->. rewrite (HT o Hin) in Tq. discriminate. }
  destruct I2 as [_ C]. destruct (C p pt Hpt) as [_ CA]. apply CA. intros N. apply N. reflexivity.
Qed.

Lemma frames_current c ops :
  let s := run (init c) ops in forall p pt, task_of s p = Some pt -> frame_current s p pt.
Proof. intros s p pt H. destruct (reachable_inv c ops) as [_ C]. apply (C p pt H). Qed.

Lemma disconnect_stops_pdo_tasks c ops :
  let s' := step_st (run (init c) ops) Disconnect in
  (forall i, task_of s' (PPdo i) = None) /\
  (forall t, bus_alive (st_bus s') t = true ->
     exists q qt, (forall i, q <> PPdo i) /\ task_of s' q = Some qt /\ pt_tid qt = t).
Proof.
  intros s'. assert (inv XT s') as I by (apply step_inv_T, reachable_inv).
  assert (forall i, task_of s' (PPdo i) = None) as PN.
  { intros i. unfold s', step_st. cbn [step fst]. unfold disconnect.
    destruct (stop_all _ _) as [b1 l1] eqn:E. destruct (stop_all_spec _ _ _ _ E) as (L & _). subst l1.
    cbn. rewrite nth_error_map. destruct (nth_error _ i); reflexivity. }
  split; auto. intros t Ht. destruct I as [(_ & _ & N) _]. destruct (N t Ht) as (q & qt & Hq & E).
  exists q, qt. repeat split; auto. intros i ->. rewrite PN in Hq. discriminate.
Qed.

(* the payload handed over by start() / update() / a variable write is the one on the wire *)
Definition synced (pd : pdo_st) : Prop := forall pt, pd_task pd = Some pt -> pt_data pt = pd_data pd.

Lemma pdo_start1_synced conn b pd p b1 pd1 r : pdo_start1 conn b pd p = (b1, pd1, r) -> synced pd1.
Proof.
  unfold pdo_start1, send_periodic.
  destruct (match p with Some x => Some x | None => pd_period pd end) as [x|];
    [destruct (x =? 0); [|destruct conn]|]; intros E; injection E as <- <- <-; intros pt H; cbn in H;
    try discriminate. injection H as <-. reflexivity.
Qed.

Lemma pdo_update1_synced m b pd b1 pd1 : pdo_update1 m b pd = (b1, pd1) -> synced pd1.
Proof.
  unfold pdo_update1. destruct (pd_task pd) as [pt|] eqn:T.
  - destruct (pt_update m b pt (pd_data pd)) as [b' pt'] eqn:U. intros E; injection E as <- <-.
    intros qt H. cbn in H. injection H as <-. cbn. apply pt_update_fields in U. tauto.
  - intros E; injection E as <- <-. intros pt H. congruence.
Qed.

Lemma wire_of_synced X s i pd pt :
  inv X s -> nth_error (st_pdos s) i = Some pd -> synced pd -> pd_task pd = Some pt ->
  bt_data (bus_get (st_bus s) (pt_tid pt)) = pd_data pd.
Proof.
  intros [(C & _) _] Hi S T. assert (task_of s (PPdo i) = Some pt) as H by (cbn; rewrite Hi; auto).
  destruct (C _ _ H) as (_ & _ & c3 & _). rewrite c3. auto.
Qed.

Definition commits (o : op) (i : nat) : Prop :=
  (exists p, o = PdoStart i p) \/ o = PdoUpdate i \/ (exists k v, o = PdoSetVar i k v).

Lemma pdo_payload_current c ops o i :
  commits o i ->
  let s := run (init c) ops in
  snd (step s o) = None ->
  forall pd pt, nth_error (st_pdos (step_st s o)) i = Some pd -> pd_task pd = Some pt ->
    bt_data (bus_get (st_bus (step_st s o)) (pt_tid pt)) = pd_data pd.
Proof.
  intros Hc s R pd pt Hi T.
  assert (inv XT (step_st s o)) as I by (apply step_inv_T, reachable_inv).
  apply (wire_of_synced XT _ i pd pt I Hi); auto. clear I T pt.
  unfold step_st in Hi. destruct Hc as [[p ->]|[->|(k & v & ->)]]; cbn [step] in Hi, R.
  - destruct (nth_error (st_pdos s) i) as [pd0|] eqn:H0; [|discriminate].
    destruct (pdo_start1 _ _ _ _) as [[b1 pd1] r] eqn:E. cbn [fst] in Hi.
    rewrite (proj2 (task_set_pdo s b1 i pd1 pd0 H0)) in Hi. injection Hi as <-. eapply pdo_start1_synced; eauto.
  - destruct (nth_error (st_pdos s) i) as [pd0|] eqn:H0; [|discriminate].
    destruct (pdo_update1 _ _ _) as [b1 pd1] eqn:E. cbn [fst] in Hi.
    rewrite (proj2 (task_set_pdo s b1 i pd1 pd0 H0)) in Hi. injection Hi as <-. eapply pdo_update1_synced; eauto.
  - destruct (nth_error (st_pdos s) i) as [pd0|] eqn:H0; [|discriminate].
    destruct (negb _); [discriminate|]. destruct (negb _); [discriminate|].
    destruct (pdo_update1 _ _ _) as [b1 pd1] eqn:E. cbn [fst] in Hi.
    rewrite (proj2 (task_set_pdo s b1 i pd1 pd0 H0)) in Hi. injection Hi as <-. eapply pdo_update1_synced; eauto.
Qed.

Lemma no_leak_invariant c ops :
  let s := run (init c) ops in
  AInv (st_bus s) (task_of s) /\ (forall p pt, task_of s p = Some pt -> frame_current s p pt).
Proof. intros s. split; [apply reachable_inv|apply frames_current]. Qed.
