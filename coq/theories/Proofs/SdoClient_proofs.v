(* Proofs about Model/SdoClient.v run against Model/RefServer.v (C01, C07). *)
From Coq Require Import ZArith List Bool Lia ZifyBool Arith.
From CV Require Import Base.Val Base.Bytes Base.Tys Gen.SdoTables Gen.Tables Model.RefServer Model.SdoClient.
Import ListNotations.
Open Scope Z_scope.
Ltac Zify.zify_post_hook ::= Z.to_euclidean_division_equations.

Notation rr := (request_response net_step).

(* ------------------------------------------------------------------ lists *)
Lemma zlen_app {A} (a b : list A) : zlen (a ++ b) = zlen a + zlen b.
Proof. unfold zlen. rewrite app_length. lia. Qed.
Lemma zlen_nonneg {A} (a : list A) : 0 <= zlen a.
Proof. unfold zlen. lia. Qed.
Lemma zlen_firstn {A} n (a : list A) : zlen (firstn n a) = Z.min (Z.of_nat n) (zlen a).
Proof. unfold zlen. rewrite firstn_length. lia. Qed.
Lemma zlen_skipn {A} n (a : list A) : zlen (skipn n a) = zlen a - Z.min (Z.of_nat n) (zlen a).
Proof. unfold zlen. rewrite skipn_length. lia. Qed.
Lemma zlen_nil_inv {A} (a : list A) : zlen a = 0 -> a = [].
Proof. destruct a; cbn; [auto|]. unfold zlen. cbn. lia. Qed.

Lemma pad_to_length n l : (length l <= n)%nat -> length (pad_to n l) = n.
Proof. intros. unfold pad_to. rewrite app_length, repeat_length. lia. Qed.
Lemma firstn_pad_to n l : firstn (length l) (pad_to n l) = l.
Proof. unfold pad_to. rewrite firstn_app, firstn_all, Nat.sub_diag. cbn. apply app_nil_r. Qed.
Lemma all_zero_repeat n : all_zero (repeat 0 n) = true.
Proof. induction n; cbn; auto. Qed.
Lemma skipn_pad_to_zero n l : all_zero (skipn (length l) (pad_to n l)) = true.
Proof. unfold pad_to. rewrite skipn_app, skipn_all, Nat.sub_diag. cbn. apply all_zero_repeat. Qed.

Lemma b2z_range b : 0 <= b2z b <= 1.
Proof. destruct b; cbn; lia. Qed.

(* ------------------------------------------------------------------ multiplexer *)
Lemma mux_decode idx sub : mux_ok idx sub -> le_decode (mux_bytes idx sub) = mux_key idx sub.
Proof. unfold mux_ok, mux_bytes, mux_key. intros [H1 H2]. cbn [le_decode]. lia. Qed.

Lemma pack_sdo_ok cmd idx sub : 0 <= cmd < 256 -> mux_ok idx sub ->
  pack_sdo cmd idx sub = Ok (cmd :: mux_bytes idx sub).
Proof.
  unfold mux_ok, pack_sdo, mux_bytes. intros Hc [H1 H2].
  replace ((0 <=? cmd) && (cmd <? 256) && (0 <=? idx) && (idx <? 65536) && (0 <=? sub) && (sub <? 256))
    with true by lia. reflexivity.
Qed.

(* ------------------------------------------------------------------ request_response *)
Definition decode_resp (r : frame) : res frame :=
  match r with
  | [] => Err E_STRUCT
  | c :: _ => if c =? 128 then if (length r <? 8)%nat then Err E_STRUCT
                               else Abort (le_decode (firstn 4 (skipn 4 r)))
              else Ok r
  end.

Lemma rr_body (w0 : cworld) req : w_q w0 = [] ->
  let '(n1, rs) := net_step (w_s w0) req in
  match rs with
  | [] =>
      let '(n2, rs2) := net_step n1 (abort_frame TIMEOUT_ABORT) in
      exists w',
        (let w1 := send_request net_step w0 req in
         let '(w2, r) := read_response w1 in
         match r with
         | Err k => if k =? E_SDOCOMM then (send_request net_step w2 (abort_frame TIMEOUT_ABORT), r) else (w2, r)
         | _ => (w2, r)
         end) = (w', Err E_SDOCOMM) /\ w_s w' = n2 /\ w_q w' = rs2 /\
        w_log w' = rev (map (cons 1) rs2) ++ (0 :: abort_frame TIMEOUT_ABORT) :: (0 :: req) :: w_log w0
  | r :: q =>
      exists w',
        (let w1 := send_request net_step w0 req in
         let '(w2, r) := read_response w1 in
         match r with
         | Err k => if k =? E_SDOCOMM then (send_request net_step w2 (abort_frame TIMEOUT_ABORT), r) else (w2, r)
         | _ => (w2, r)
         end) = (w', decode_resp r) /\ w_s w' = n1 /\ w_q w' = q /\
        w_log w' = rev (map (cons 1) (r :: q)) ++ (0 :: req) :: w_log w0
  end.
Proof.
  intros Hq. destruct w0 as [s0 q0 l0]. cbn in Hq. subst q0. cbn [w_s].
  unfold send_request at 1 3. cbn [w_s w_q w_log].
  destruct (net_step s0 req) as [n1 rs] eqn:E1. cbn [app].
  destruct rs as [|r q].
  - unfold read_response. cbn [w_q].
    change (E_SDOCOMM =? E_SDOCOMM) with true. cbn iota.
    unfold send_request. cbn [w_s w_q w_log].
    destruct (net_step n1 (abort_frame TIMEOUT_ABORT)) as [n2 rs2] eqn:E2.
    eexists. split; [reflexivity|]. cbn. repeat split; reflexivity.
  - unfold read_response. cbn [w_q].
    destruct r as [|c t].
    + cbn. eexists. split; [reflexivity|]. cbn. auto.
    + unfold decode_resp. change RESPONSE_ABORTED with 128.
      destruct (c =? 128) eqn:Ec.
      * destruct (length (c :: t) <? 8)%nat eqn:El.
        -- cbn. eexists. split; [reflexivity|]. cbn. auto.
        -- eexists. split; [reflexivity|]. cbn. auto.
      * eexists. split; [reflexivity|]. cbn. auto.
Qed.

Lemma rr_spec (w : cworld) req :
  let '(n1, rs) := net_step (w_s w) req in
  match rs with
  | [] =>
      let '(n2, rs2) := net_step n1 (abort_frame TIMEOUT_ABORT) in
      exists w', rr w req = (w', Err E_SDOCOMM) /\ w_s w' = n2 /\ w_q w' = rs2 /\
                 w_log w' = rev (map (cons 1) rs2) ++ (0 :: abort_frame TIMEOUT_ABORT) :: (0 :: req) :: w_log w
  | r :: q =>
      exists w', rr w req = (w', decode_resp r) /\ w_s w' = n1 /\ w_q w' = q /\
                 w_log w' = rev (map (cons 1) (r :: q)) ++ (0 :: req) :: w_log w
  end.
Proof.
  unfold request_response.
  destruct (w_q w) eqn:Eq.
  - apply (rr_body w req Eq).
  - pose proof (rr_body (set_q [] w) req eq_refl) as H. cbn [set_q w_s w_log] in H. exact H.
Qed.

(* results a transfer may end with *)
Definition rclass {A} (r : res A) : Prop := (exists a, r = Ok a) \/ sdo_error r.

Lemma decode_resp_class r : frame8 r -> rclass (decode_resp r).
Proof.
  unfold frame8, decode_resp, rclass, sdo_error. intros H. destruct r as [|c t]; [discriminate|].
  destruct (c =? 128).
  - replace (length (c :: t) <? 8)%nat with false by (rewrite H; reflexivity). right. right. eauto.
  - left. eauto.
Qed.

(* ------------------------------------------------------------------ the reference server answers with 8 bytes *)
Lemma srv_abort_len (mux : list Z) c : length mux = 3%nat -> frame8 (srv_abort mux c).
Proof. intros H. unfold frame8, srv_abort. cbn. rewrite app_length, H. reflexivity. Qed.

Lemma frame8_cons_mux c (mux tl : list Z) : length mux = 3%nat -> length tl = 4%nat -> frame8 (c :: mux ++ tl).
Proof. intros H1 H2. unfold frame8. cbn [length]. rewrite app_length, H1, H2. reflexivity. Qed.

Lemma mux_of_frame (fr : frame) : length fr = 8%nat -> length (firstn 3 (skipn 1 fr)) = 3%nat.
Proof. intros H. rewrite firstn_length, skipn_length. lia. Qed.

Lemma clamp7_le x : (clamp7 x <= 7)%nat.
Proof. unfold clamp7. lia. Qed.

Lemma ref_step_wf s fr s' o : xfer_wf (s_x s) -> ref_step s fr = (s', o) ->
  xfer_wf (s_x s') /\ (forall r, o = Some r -> frame8 r).
Proof.
  intros Hx. unfold ref_step.
  destruct (negb (length fr =? 8)%nat) eqn:El.
  { intros H; inversion H; subst. cbn. split; [auto|discriminate]. }
  assert (L : length fr = 8%nat) by (apply negb_false_iff, Nat.eqb_eq in El; auto).
  pose proof (mux_of_frame fr L) as Lm.
  destruct (nth 0 fr 0 / 32 =? 1).
  { unfold srv_init_download.
    destruct (Z.testbit (nth 0 fr 0) 1); intros H; inversion H; subst; cbn;
      (split; [auto | intros r Hr; inversion Hr; apply frame8_cons_mux; auto]). }
  destruct (nth 0 fr 0 / 32 =? 0).
  { unfold srv_download_segment. destruct (s_x s) as [|mux size buf t|mux rest t segs] eqn:Ex; cbn [xfer_wf] in Hx.
    - intros H; inversion H; subst; cbn. split; [auto|]. intros r Hr; inversion Hr. apply srv_abort_len; reflexivity.
    - destruct (negb (Bool.eqb (Z.testbit (nth 0 fr 0) 4) t)).
      + intros H; inversion H; subst; cbn. split; [auto|]. intros r Hr; inversion Hr. apply srv_abort_len; auto.
      + destruct (Z.testbit (nth 0 fr 0) 0); intros H; inversion H; subst; cbn;
          (split; [auto | intros r Hr; inversion Hr; reflexivity]).
    - intros H; inversion H; subst; cbn. split; [auto|]. intros r Hr; inversion Hr. apply srv_abort_len; reflexivity. }
  destruct (nth 0 fr 0 / 32 =? 2).
  { unfold srv_init_upload.
    destruct (zassoc (le_decode (firstn 3 (skipn 1 fr))) (s_store s)) as [v|].
    - destruct (st_expedite (s_style s) && (1 <=? zlen v) && (zlen v <=? 4)) eqn:Ee.
      + intros H; inversion H; subst; cbn. split; [auto|]. intros r Hr; inversion Hr.
        apply frame8_cons_mux; auto. apply pad_to_length. unfold zlen in Ee. lia.
      + intros H; inversion H; subst; cbn. split; [auto|]. intros r Hr; inversion Hr.
        apply frame8_cons_mux; auto. destruct (st_size_ind (s_style s)); reflexivity.
    - intros H; inversion H; subst; cbn. split; [auto|]. intros r Hr; inversion Hr. apply srv_abort_len; auto. }
  destruct (nth 0 fr 0 / 32 =? 3).
  { unfold srv_upload_segment. destruct (s_x s) as [|mux size buf t|mux rest t segs] eqn:Ex; cbn [xfer_wf] in Hx.
    - intros H; inversion H; subst; cbn. split; [auto|]. intros r Hr; inversion Hr. apply srv_abort_len; reflexivity.
    - intros H; inversion H; subst; cbn. split; [auto|]. intros r Hr; inversion Hr. apply srv_abort_len; reflexivity.
    - destruct (negb (Bool.eqb (Z.testbit (nth 0 fr 0) 4) t)).
      + intros H; inversion H; subst; cbn. split; [auto|]. intros r Hr; inversion Hr. apply srv_abort_len; auto.
      + set (k := match segs with [] => 7%nat | x :: _ => clamp7 x end).
        assert (Hk : (k <= 7)%nat) by (unfold k; destruct segs; [lia|apply clamp7_le]).
        assert (Hr8 : forall c, frame8 (c :: pad_to 7 (firstn k rest))).
        { intros c. unfold frame8. cbn. rewrite pad_to_length; [reflexivity|]. rewrite firstn_length. lia. }
        destruct (if st_lazy_end (s_style s) then is_nil rest else is_nil (skipn k rest));
          intros H; inversion H; subst; cbn; (split; [auto | intros r Hr; inversion Hr; apply Hr8]). }
  destruct (nth 0 fr 0 / 32 =? 4).
  { intros H; inversion H; subst; cbn. split; [auto|discriminate]. }
  intros H; inversion H; subst; cbn. split; [auto|]. intros r Hr; inversion Hr. apply srv_abort_len; auto.
Qed.

Lemma apply_fault_wf f rs : fault_wf f -> Forall frame8 rs -> Forall frame8 (apply_fault f rs).
Proof.
  intros Hf Hr. destruct f; cbn [apply_fault fault_wf] in *; auto.
  - induction Hr as [|r rs Hr1 Hr2 IH]; cbn [map]; constructor; auto.
    destruct r; [discriminate|]. unfold frame8 in *. cbn [length] in *. auto.
  - induction Hr as [|r rs Hr1 Hr2 IH]; cbn [map]; constructor; auto.
    destruct r as [|c t]; [discriminate|]. unfold frame8 in *. cbn [length] in *.
    rewrite app_length, skipn_length, Hf. lia.
  - apply Forall_app; auto.
Qed.

Lemma olist_wf (o : option frame) : (forall r, o = Some r -> frame8 r) -> Forall frame8 (olist o).
Proof. destruct o; cbn; intros H; constructor; auto. Qed.

Lemma net_step_wf n req n' rs : net_wf n -> net_step n req = (n', rs) -> net_wf n' /\ Forall frame8 rs.
Proof.
  unfold net_wf, net_step. intros [Hx Hf].
  destruct (ref_step (n_srv n) req) as [s' o] eqn:E.
  destruct (ref_step_wf _ _ _ _ Hx E) as [Hx' Ho].
  destruct (n_fault n) as [[[|k] f]|].
  - pose proof (fun g (Hg : fault_wf g) => apply_fault_wf g (olist o) Hg (olist_wf o Ho)) as Haf.
    destruct f as [| |frs|m|m| |fr|]; intros H; inversion H; subst; cbn [n_srv n_fault]; (split; [split; auto|]);
      try (constructor; fail).
    + exact (Haf _ Hf).
    + exact (Haf _ Hf).
    + exact (Haf _ Hf).
    + exact (Haf _ Hf).
    + exact (Haf _ Hf).
    + destruct o; cbn; auto.
  - intros H; inversion H; subst; cbn. split; [split; auto|]. apply olist_wf; auto.
  - intros H; inversion H; subst; cbn. split; [split; auto|]. apply olist_wf; auto.
Qed.

Lemma abort_frame_len c : length (abort_frame c) = 8%nat.
Proof. unfold abort_frame. cbn [app length]. rewrite le_encode_length. reflexivity. Qed.

(* what every request/response exchange guarantees, whatever the medium does *)
Lemma rr_any (w : cworld) req : net_wf (w_s w) ->
  let '(w', r) := rr w req in
  net_wf (w_s w') /\ rclass r /\
  (forall resp, r = Ok resp -> n_srv (w_s w') = fst (ref_step (n_srv (w_s w)) req)).
Proof.
  intros Hwf. pose proof (rr_spec w req) as H.
  destruct (net_step (w_s w) req) as [n1 rs] eqn:E1.
  destruct (net_step_wf _ _ _ _ Hwf E1) as [Hwf1 Hrs].
  destruct rs as [|r q].
  - destruct (net_step n1 (abort_frame TIMEOUT_ABORT)) as [n2 rs2] eqn:E2.
    destruct H as (w' & Hr & Hs & _). rewrite Hr.
    destruct (net_step_wf _ _ _ _ Hwf1 E2) as [Hwf2 _].
    rewrite Hs. split; [auto|]. split; [right; left; reflexivity|]. discriminate.
  - destruct H as (w' & Hr & Hs & _). rewrite Hr, Hs. split; [auto|].
    inversion Hrs; subst. split; [apply decode_resp_class; auto|].
    intros resp Hresp. clear Hr.
    unfold net_step in E1. destruct (ref_step (n_srv (w_s w)) req) as [s' o] eqn:E.
    destruct (n_fault (w_s w)) as [[[|k] f]|].
    + destruct f; inversion E1; subst; try reflexivity.
    + inversion E1; subst. reflexivity.
    + inversion E1; subst. reflexivity.
Qed.

(* undisturbed medium: the exchange returns the server's answer *)
Lemma rr_clean (w : cworld) req s' r : n_fault (w_s w) = None ->
  ref_step (n_srv (w_s w)) req = (s', Some r) ->
  exists w', rr w req = (w', decode_resp r) /\ w_s w' = net_of s' /\ w_q w' = [].
Proof.
  intros Hf E. pose proof (rr_spec w req) as H.
  unfold net_step in H. rewrite Hf, E in H. cbn [olist] in H.
  destruct H as (w' & H1 & H2 & H3 & _). exists w'. auto.
Qed.

(* ================================================================== download *)
Lemma ref_dl_init_sized s m1 m2 m3 d0 d1 d2 d3 :
  ref_step s [33; m1; m2; m3; d0; d1; d2; d3] =
  (set_x (XDl [m1; m2; m3] (Some (le_decode [d0; d1; d2; d3])) [] false) s, Some [96; m1; m2; m3; 0; 0; 0; 0]).
Proof. reflexivity. Qed.

Lemma ref_dl_init_unsized s m1 m2 m3 :
  ref_step s [32; m1; m2; m3; 0; 0; 0; 0] =
  (set_x (XDl [m1; m2; m3] None [] false) s, Some [96; m1; m2; m3; 0; 0; 0; 0]).
Proof. reflexivity. Qed.

Lemma ref_dl_init_exp s m1 m2 m3 (b : list Z) : 1 <= zlen b <= 4 ->
  ref_step s (Z.lor (Z.lor (Z.lor 32 2) 1) (Z.shiftl (4 - zlen b) 2) :: m1 :: m2 :: m3 :: pad_to 4 b) =
  (set_x XNone (store_put [m1; m2; m3] b s), Some [96; m1; m2; m3; 0; 0; 0; 0]).
Proof.
  intros H. destruct b as [|b0 [|b1 [|b2 [|b3 [|b4 b]]]]]; unfold zlen in H; cbn [length] in H; try lia; reflexivity.
Qed.

(* command byte of a download segment *)
Definition seg_cmd (t last : bool) (n : Z) : Z :=
  Z.lor (if last then Z.lor (Z.lor 0 (16 * b2z t)) 1 else Z.lor 0 (16 * b2z t)) (Z.shiftl (7 - n) 1).

Lemma seg_cmd_bits t last n : 0 <= n <= 7 ->
  let c := seg_cmd t last n in
  c / 32 = 0 /\ Z.testbit c 4 = t /\ Z.testbit c 0 = last /\ (c / 2) mod 8 = 7 - n.
Proof.
  intros H. assert (E : n = 0 \/ n = 1 \/ n = 2 \/ n = 3 \/ n = 4 \/ n = 5 \/ n = 6 \/ n = 7) by lia.
  destruct t, last; decompose [or] E; subst; vm_compute; repeat split; reflexivity.
Qed.

Lemma toggle_flip t : Z.lxor (16 * b2z t) 16 = 16 * b2z (negb t).
Proof. destruct t; reflexivity. Qed.

Lemma ref_dl_seg s mux size buf t last (b : list Z) :
  s_x s = XDl mux size buf t -> (length b <= 7)%nat ->
  ref_step s (seg_cmd t last (zlen b) :: pad_to 7 b) =
  (let buf' := buf ++ b in
   if last then set_x XNone (store_put mux buf'
                  (flag_if (match size with Some z => negb (z =? zlen buf') | None => false end) V_SIZE s))
   else set_x (XDl mux size buf' (negb t)) s,
   Some [32 + 16 * b2z t; 0; 0; 0; 0; 0; 0; 0]).
Proof.
  intros Hx Hl.
  assert (Hn : 0 <= zlen b <= 7) by (unfold zlen; lia).
  destruct (seg_cmd_bits t last (zlen b) Hn) as (H5 & H4 & H0 & Hnn).
  unfold ref_step. cbn [length nth].
  rewrite pad_to_length by auto. cbn [Nat.eqb negb].
  rewrite H5. cbn [Z.eqb]. unfold srv_download_segment. cbn [nth]. rewrite Hx, H4, H0, Hnn.
  rewrite Bool.eqb_reflx. cbn [negb].
  replace (7 - Z.to_nat (7 - zlen b))%nat with (length b) by (unfold zlen; lia).
  cbn [skipn]. rewrite skipn_pad_to_zero, firstn_pad_to. cbn [negb flag_if].
  destruct last; reflexivity.
Qed.


Lemma rclass_err_cast {A B} k : @rclass A (Err k) -> @rclass B (Err k).
Proof. intros [[a H]|[H|[c H]]]; [discriminate| right; left; inversion H; reflexivity | discriminate]. Qed.
Lemma rclass_abort {A} c : @rclass A (Abort c).
Proof. right; right; eauto. Qed.
Lemma rclass_ok {A} (a : A) : rclass (Ok a).
Proof. left; eauto. Qed.
Lemma rclass_comm {A} : @rclass A (Err E_SDOCOMM).
Proof. right; left; reflexivity. Qed.

Definition srv_after_seg (s : sst) mux size buf (t last : bool) (chunk : list Z) : sst :=
  let buf' := buf ++ chunk in
  if last then set_x XNone (store_put mux buf'
                 (flag_if (match size with Some z => negb (z =? zlen buf') | None => false end) V_SIZE s))
  else set_x (XDl mux size buf' (negb t)) s.

Lemma zlen_firstn_min (b : list Z) : zlen (firstn (Z.to_nat (Z.min (zlen b) 7)) b) = Z.min (zlen b) 7.
Proof. rewrite zlen_firstn. unfold zlen. lia. Qed.

Lemma ws_write_seg_any (w : cworld) st b mux size buf t :
  net_wf (w_s w) -> s_x (n_srv (w_s w)) = XDl mux size buf t ->
  ws_exp st = None -> ws_done st = false -> ws_toggle st = 16 * b2z t -> ws_pos st = zlen buf -> ws_size st = size ->
  let n := Z.min (zlen b) 7 in
  let last := match size with Some z => z <=? zlen buf + n | None => false end in
  let '(w', st', r) := ws_write net_step w st b in
  net_wf (w_s w') /\ rclass r /\
  (forall k, r = Ok k -> k = n /\
     st' = {| ws_size := size; ws_pos := zlen buf + n; ws_toggle := 16 * b2z (negb t); ws_exp := None; ws_done := last;
              ws_error := ws_error st |} /\
     n_srv (w_s w') = srv_after_seg (n_srv (w_s w)) mux size buf t last (firstn (Z.to_nat n) b)).
Proof.
  intros Hwf Hx He Hd Ht Hp Hs n last.
  unfold ws_write. rewrite Hd, He, Ht, Hp, Hs. fold n. fold last. rewrite toggle_flip.
  unfold REQUEST_SEGMENT_DOWNLOAD, NO_MORE_DATA, TOGGLE_BIT, RESPONSE_SEGMENT_DOWNLOAD.
  change (Z.lor (if last then Z.lor (Z.lor 0 (16 * b2z t)) 1 else Z.lor 0 (16 * b2z t)) (Z.shiftl (7 - n) 1))
    with (seg_cmd t last n).
  set (chunk := firstn (Z.to_nat n) b).
  assert (Hcl : zlen chunk = n) by apply zlen_firstn_min.
  assert (Hc7 : (length chunk <= 7)%nat) by (unfold zlen, n in *; lia).
  set (req := seg_cmd t last n :: pad_to 7 chunk).
  pose proof (rr_any w req Hwf) as Hrr.
  destruct (rr w req) as [w1 r1]. destruct Hrr as (Hwf1 & Hc1 & Hsrv).
  destruct r1 as [resp|k|c].
  - destruct (Z.land (nth 0 resp 0) 224 =? 32) eqn:Echk.
    + split; [auto|]. split; [apply rclass_ok|]. intros k Hk. inversion Hk; subst k.
      split; [reflexivity|]. split; [reflexivity|].
      rewrite (Hsrv resp eq_refl). unfold req. rewrite <- Hcl.
      rewrite (ref_dl_seg _ mux size buf t last chunk Hx Hc7). reflexivity.
    + split; [auto|]. split; [apply rclass_comm|]. discriminate.
  - destruct (k =? E_SDOCOMM); (split; [auto|]; split; [apply (rclass_err_cast k Hc1)|]; discriminate).
  - split; [auto|]. split; [apply rclass_abort|]. discriminate.
Qed.

Lemma ws_write_seg_clean (w : cworld) st b mux size buf t :
  n_fault (w_s w) = None -> s_x (n_srv (w_s w)) = XDl mux size buf t ->
  ws_exp st = None -> ws_done st = false -> ws_toggle st = 16 * b2z t -> ws_pos st = zlen buf -> ws_size st = size ->
  exists w' st' k, ws_write net_step w st b = (w', st', Ok k) /\ n_fault (w_s w') = None.
Proof.
  intros Hf Hx He Hd Ht Hp Hs.
  unfold ws_write. rewrite Hd, He, Ht, Hp, Hs.
  set (n := Z.min (zlen b) 7).
  set (last := match size with Some z => z <=? zlen buf + n | None => false end).
  unfold REQUEST_SEGMENT_DOWNLOAD, NO_MORE_DATA, TOGGLE_BIT, RESPONSE_SEGMENT_DOWNLOAD.
  change (Z.lor (if last then Z.lor (Z.lor 0 (16 * b2z t)) 1 else Z.lor 0 (16 * b2z t)) (Z.shiftl (7 - n) 1))
    with (seg_cmd t last n).
  set (chunk := firstn (Z.to_nat n) b).
  assert (Hcl : zlen chunk = n) by apply zlen_firstn_min.
  assert (Hc7 : (length chunk <= 7)%nat) by (unfold zlen, n in *; lia).
  rewrite <- Hcl.
  destruct (rr_clean w _ _ _ Hf (ref_dl_seg _ mux size buf t last chunk Hx Hc7)) as (w1 & Hr & Hs1 & _).
  rewrite Hr. replace (decode_resp [32 + 16 * b2z t; 0; 0; 0; 0; 0; 0; 0]) with (@Ok frame [32 + 16 * b2z t; 0; 0; 0; 0; 0; 0; 0])
    by (destruct t; reflexivity).
  cbn [nth]. replace (Z.land (32 + 16 * b2z t) 224 =? 32) with true by (destruct t; reflexivity).
  do 3 eexists. split; [reflexivity|]. rewrite Hs1. reflexivity.
Qed.

(* ---- WritableStream.__init__ ---- *)
Definition size_ok (size : option Z) : Prop := match size with Some z => 0 <= z < 2 ^ 32 | None => True end.

Lemma le_decode_encode4 z : 0 <= z < 2 ^ 32 -> le_decode (le_encode 4 z) = z.
Proof. intros H. rewrite le_decode_encode. change (2 ^ (8 * Z.of_nat 4)) with (2 ^ 32). apply Z.mod_small. lia. Qed.

Lemma ref_dl_init s idx sub size : size_ok size ->
  ref_step s ((match size with None => 32 | Some _ => 33 end :: mux_bytes idx sub) ++
              match size with None => [0; 0; 0; 0] | Some z => le_encode 4 z end) =
  (set_x (XDl (mux_bytes idx sub) size [] false) s, Some (96 :: mux_bytes idx sub ++ [0; 0; 0; 0])).
Proof.
  intros Hs. destruct size as [z|]; unfold mux_bytes.
  - cbn [le_encode app]. rewrite ref_dl_init_sized.
    change [z mod 256; z / 256 mod 256; z / 256 / 256 mod 256; z / 256 / 256 / 256 mod 256] with (le_encode 4 z).
    rewrite le_decode_encode4 by exact Hs. reflexivity.
  - cbn [app]. apply ref_dl_init_unsized.
Qed.

Lemma ws_init_seg_any (w : cworld) idx sub size force :
  net_wf (w_s w) -> mux_ok idx sub -> size_ok size -> expedited size force = false ->
  let '(w', st', r) := ws_init net_step w idx sub size force in
  net_wf (w_s w') /\ rclass r /\ (r = Ok tt -> st' = ws_new size) /\
  (r = Ok tt -> n_srv (w_s w') = set_x (XDl (mux_bytes idx sub) size [] false) (n_srv (w_s w))).
Proof.
  intros Hwf Hm Hs He. unfold ws_init.
  replace (match size with None => true | Some z => (z <? 1) || (4 <? z) || force end) with true
    by (unfold expedited in He; destruct size; [destruct force|]; lia).
  unfold REQUEST_DOWNLOAD, SIZE_SPECIFIED, RESPONSE_DOWNLOAD.
  assert (Hszb : match size with None => Ok [0; 0; 0; 0]
                 | Some z => if (0 <=? z) && (z <? 2 ^ 32) then Ok (le_encode 4 z) else Err E_STRUCT end =
                 Ok (match size with None => [0; 0; 0; 0] | Some z => le_encode 4 z end)).
  { destruct size as [z|]; [|reflexivity]. cbn in Hs. replace ((0 <=? z) && (z <? 2 ^ 32)) with true by lia. reflexivity. }
  rewrite Hszb.
  replace (match size with None => 32 | Some _ => Z.lor 32 1 end) with (match size with None => 32 | Some _ => 33 end)
    by (destruct size; reflexivity).
  rewrite pack_sdo_ok by (auto; destruct size; lia).
  set (req := (_ :: mux_bytes idx sub) ++ _).
  pose proof (rr_any w req Hwf) as Hrr.
  destruct (rr w req) as [w1 r1]. destruct Hrr as (Hwf1 & Hc1 & Hsrv).
  destruct r1 as [resp|k|c].
  - destruct (nth 0 resp 0 =? 96).
    + split; [auto|]. split; [apply rclass_ok|]. split; [reflexivity|]. intros _.
      rewrite (Hsrv resp eq_refl). unfold req. rewrite ref_dl_init by auto. reflexivity.
    + split; [auto|]. split; [apply rclass_comm|]. split; discriminate.
  - destruct (k =? E_SDOCOMM); (split; [auto|]; split; [apply (rclass_err_cast k Hc1)|]; split; discriminate).
  - split; [auto|]. split; [apply rclass_abort|]. split; discriminate.
Qed.

Lemma ws_init_seg_clean (w : cworld) idx sub size force :
  n_fault (w_s w) = None -> mux_ok idx sub -> size_ok size -> expedited size force = false ->
  exists w' st', ws_init net_step w idx sub size force = (w', st', Ok tt) /\ n_fault (w_s w') = None.
Proof.
  intros Hf Hm Hs He. unfold ws_init.
  replace (match size with None => true | Some z => (z <? 1) || (4 <? z) || force end) with true
    by (unfold expedited in He; destruct size; [destruct force|]; lia).
  unfold REQUEST_DOWNLOAD, SIZE_SPECIFIED, RESPONSE_DOWNLOAD.
  assert (Hszb : match size with None => Ok [0; 0; 0; 0]
                 | Some z => if (0 <=? z) && (z <? 2 ^ 32) then Ok (le_encode 4 z) else Err E_STRUCT end =
                 Ok (match size with None => [0; 0; 0; 0] | Some z => le_encode 4 z end)).
  { destruct size as [z|]; [|reflexivity]. cbn in Hs. replace ((0 <=? z) && (z <? 2 ^ 32)) with true by lia. reflexivity. }
  rewrite Hszb.
  replace (match size with None => 32 | Some _ => Z.lor 32 1 end) with (match size with None => 32 | Some _ => 33 end)
    by (destruct size; reflexivity).
  rewrite pack_sdo_ok by (auto; destruct size; lia).
  destruct (rr_clean w _ _ _ Hf (ref_dl_init (n_srv (w_s w)) idx sub size Hs)) as (w1 & Hr & Hs1 & _).
  rewrite Hr. cbn [decode_resp Z.eqb nth]. do 2 eexists. split; [reflexivity|]. rewrite Hs1. reflexivity.
Qed.

(* ---- WritableStream.close ---- *)
Lemma close_cmd t : Z.lor (Z.lor (Z.lor 0 1) (16 * b2z t)) (Z.shiftl 7 1) = seg_cmd t true 0.
Proof. destruct t; reflexivity. Qed.

Lemma ws_close_gen (w : cworld) st : net_wf (w_s w) ->
  let '(w', st', r) := ws_close net_step w st in net_wf (w_s w') /\ rclass r.
Proof.
  intros Hwf. unfold ws_close.
  destruct (negb (ws_done st) && negb match ws_exp st with Some _ => true | None => false end).
  - set (req := _ :: [0; 0; 0; 0; 0; 0; 0]).
    pose proof (rr_any w req Hwf) as Hrr. destruct (rr w req) as [w1 r1]. destruct Hrr as (Hwf1 & Hc1 & _).
    destruct r1 as [resp|k|c]; (split; [auto|]).
    + apply rclass_ok. + apply (rclass_err_cast k Hc1). + apply rclass_abort.
  - split; [auto|apply rclass_ok].
Qed.

Lemma ws_close_open (w : cworld) st mux size buf t :
  net_wf (w_s w) -> s_x (n_srv (w_s w)) = XDl mux size buf t ->
  ws_exp st = None -> ws_done st = false -> ws_toggle st = 16 * b2z t ->
  let '(w', st', r) := ws_close net_step w st in
  (r = Ok tt -> n_srv (w_s w') = srv_after_seg (n_srv (w_s w)) mux size buf t true []) /\
  (n_fault (w_s w) = None -> r = Ok tt /\ n_fault (w_s w') = None).
Proof.
  intros Hwf Hx He Hd Ht. unfold ws_close. rewrite Hd, He, Ht. cbn [negb andb].
  unfold REQUEST_SEGMENT_DOWNLOAD, NO_MORE_DATA. rewrite close_cmd.
  change [0; 0; 0; 0; 0; 0; 0] with (pad_to 7 []). change 0 with (zlen (@nil Z)) at 1.
  assert (Hr := ref_dl_seg (n_srv (w_s w)) mux size buf t true [] Hx ltac:(cbn; lia)).
  set (req := seg_cmd t true (zlen []) :: pad_to 7 []) in *.
  pose proof (rr_any w req Hwf) as Hrr.
  destruct (rr w req) as [w1 r1] eqn:Err. destruct Hrr as (Hwf1 & Hc1 & Hsrv).
  assert (Hclean : n_fault (w_s w) = None -> r1 = Ok [32 + 16 * b2z t; 0; 0; 0; 0; 0; 0; 0] /\ n_fault (w_s w1) = None).
  { intros Hf. destruct (rr_clean w _ _ _ Hf Hr) as (w2 & Hr2 & Hs2 & _).
    rewrite Err in Hr2. injection Hr2 as Hw2 Hr1. subst w2 r1.
    split; [destruct t; reflexivity|]. rewrite Hs2. reflexivity. }
  destruct r1 as [resp|k|c].
  - split; [intros _; rewrite (Hsrv resp eq_refl), Hr; reflexivity|].
    intros Hf. split; [reflexivity|apply Hclean; auto].
  - split; [discriminate|]. intros Hf. destruct (Hclean Hf) as [H1 _]. discriminate.
  - split; [discriminate|]. intros Hf. destruct (Hclean Hf) as [H1 _]. discriminate.
Qed.

(* ---- expedited ---- *)
Definition exp_cmd (z : Z) : Z := Z.lor (Z.lor (Z.lor 32 2) 1) (Z.shiftl (4 - z) 2).

Lemma ws_init_exp (w : cworld) idx sub z : mux_ok idx sub -> 1 <= z <= 4 ->
  ws_init net_step w idx sub (Some z) false =
  (w, {| ws_size := Some z; ws_pos := 0; ws_toggle := 0; ws_exp := Some (exp_cmd z :: mux_bytes idx sub); ws_done := false;
         ws_error := None |}, Ok tt).
Proof.
  intros Hm Hz. unfold ws_init. replace ((z <? 1) || (4 <? z) || false) with false by lia.
  unfold REQUEST_DOWNLOAD, EXPEDITED, SIZE_SPECIFIED. fold (exp_cmd z).
  rewrite pack_sdo_ok; [reflexivity| |auto].
  assert (E : z = 1 \/ z = 2 \/ z = 3 \/ z = 4) by lia. decompose [or] E; subst; unfold exp_cmd; cbn; lia.
Qed.

Lemma ws_write_exp (w : cworld) st b idx sub :
  net_wf (w_s w) -> 1 <= zlen b <= 4 ->
  ws_exp st = Some (exp_cmd (zlen b) :: mux_bytes idx sub) -> ws_size st = Some (zlen b) -> ws_done st = false ->
  let '(w', st', r) := ws_write net_step w st b in
  net_wf (w_s w') /\ rclass r /\
  (forall k, r = Ok k -> k = zlen b /\ ws_done st' = true /\ ws_exp st' = ws_exp st /\
     n_srv (w_s w') = set_x XNone (store_put (mux_bytes idx sub) b (n_srv (w_s w)))) /\
  (n_fault (w_s w) = None -> (exists k, r = Ok k) /\ n_fault (w_s w') = None).
Proof.
  intros Hwf Hb He Hs Hd. unfold ws_write. rewrite Hd, He, Hs.
  replace (zlen b <? zlen b) with false by lia. replace (4 <? zlen b) with false by lia.
  unfold RESPONSE_DOWNLOAD.
  assert (Hr := ref_dl_init_exp (n_srv (w_s w)) (idx mod 256) (idx / 256) sub b Hb).
  fold (exp_cmd (zlen b)) in Hr.
  change ((exp_cmd (zlen b) :: mux_bytes idx sub) ++ pad_to 4 b)
    with (exp_cmd (zlen b) :: idx mod 256 :: idx / 256 :: sub :: pad_to 4 b).
  set (req := exp_cmd (zlen b) :: idx mod 256 :: idx / 256 :: sub :: pad_to 4 b) in *.
  pose proof (rr_any w req Hwf) as Hrr.
  destruct (rr w req) as [w1 r1] eqn:Err. destruct Hrr as (Hwf1 & Hc1 & Hsrv).
  assert (Hclean : n_fault (w_s w) = None -> r1 = Ok [96; idx mod 256; idx / 256; sub; 0; 0; 0; 0] /\ n_fault (w_s w1) = None).
  { intros Hf. destruct (rr_clean w _ _ _ Hf Hr) as (w2 & Hr2 & Hs2 & _).
    rewrite Err in Hr2. injection Hr2 as Hw2 Hr1. subst w2 r1. split; [reflexivity|]. rewrite Hs2. reflexivity. }
  destruct r1 as [resp|k|c].
  - destruct (Z.land (nth 0 resp 0) 224 =? 96) eqn:Ec.
    + split; [auto|]. split; [apply rclass_ok|]. split.
      * intros k Hk. inversion Hk; subst. cbn [ws_done ws_exp]. repeat split; auto.
        rewrite (Hsrv resp eq_refl), Hr. reflexivity.
      * intros Hf. split; [eauto|]. apply Hclean; auto.
    + split; [auto|]. split; [apply rclass_comm|]. split; [discriminate|].
      intros Hf. destruct (Hclean Hf) as [H1 H2]. inversion H1; subst. cbn in Ec. discriminate.
  - split; [auto|]. split; [apply (rclass_err_cast k Hc1)|]. split; [discriminate|].
    intros Hf. destruct (Hclean Hf) as [H1 _]. discriminate.
  - split; [auto|]. split; [apply rclass_abort|]. split; [discriminate|].
    intros Hf. destruct (Hclean Hf) as [H1 _]. discriminate.
Qed.

(* ---- the write loop ---- *)
Lemma valid_seg_nil sched : valid_seg_sched sched 0 -> sched = [].
Proof. destruct sched; cbn; [auto|]. intros [H _]. lia. Qed.

Lemma write_sched_seg mux size : forall sched data (w : cworld) st buf t,
  net_wf (w_s w) ->
  s_x (n_srv (w_s w)) = XDl mux size buf t -> ws_exp st = None -> ws_done st = false ->
  ws_toggle st = 16 * b2z t -> ws_pos st = zlen buf -> ws_size st = size ->
  valid_seg_sched sched (zlen data) -> (size = None \/ size = Some (zlen buf + zlen data)) ->
  let '(w', st', r) := write_sched net_step w st data sched in
  net_wf (w_s w') /\ rclass r /\
  (r = Ok tt -> s_viol (n_srv (w_s w')) = s_viol (n_srv (w_s w)) /\ s_style (n_srv (w_s w')) = s_style (n_srv (w_s w)) /\
     ((s_store (n_srv (w_s w')) = s_store (n_srv (w_s w)) /\ (size = None \/ data = []) /\
       exists t', s_x (n_srv (w_s w')) = XDl mux size (buf ++ data) t' /\ ws_exp st' = None /\ ws_done st' = false /\
                  ws_toggle st' = 16 * b2z t')
      \/ (s_store (n_srv (w_s w')) = (le_decode mux, buf ++ data) :: s_store (n_srv (w_s w)) /\
          s_x (n_srv (w_s w')) = XNone /\ ws_done st' = true /\ ws_exp st' = None))) /\
  (n_fault (w_s w) = None -> r = Ok tt /\ n_fault (w_s w') = None).
Proof.
  induction sched as [|k ks IH]; intros data w st buf t Hwf Hx He Hd Ht Hp Hs Hv Hsz.
  - cbn [valid_seg_sched] in Hv. apply zlen_nil_inv in Hv. subst data. cbn [write_sched].
    split; [auto|]. split; [apply rclass_ok|]. split; [|auto].
    intros _. split; [auto|]. split; [auto|]. left. split; [auto|]. split; [auto|].
    exists t. rewrite app_nil_r. auto.
  - cbn [valid_seg_sched] in Hv. destruct Hv as [Hk Hv]. cbn [write_sched].
    set (b := firstn (Z.to_nat k) data).
    assert (Hb : zlen b = k) by (unfold b; rewrite zlen_firstn; lia).
    pose proof (ws_write_seg_any w st b mux size buf t Hwf Hx He Hd Ht Hp Hs) as Hany.
    pose proof (fun Hf => ws_write_seg_clean w st b mux size buf t Hf Hx He Hd Ht Hp Hs) as Hclean.
    cbv zeta in Hany. rewrite Hb in Hany.
    set (n := Z.min k 7) in *.
    set (last := match size with Some z => z <=? zlen buf + n | None => false end) in *.
    destruct (ws_write net_step w st b) as [[w1 st1] r1].
    destruct Hany as (Hwf1 & Hc1 & Hok).
    assert (Hcl1 : n_fault (w_s w) = None -> (exists k', r1 = Ok k') /\ n_fault (w_s w1) = None).
    { intros Hf. destruct (Hclean Hf) as (w1' & st1' & k' & E & Hf1). injection E as H1 H2 H3. subst w1' st1'.
      split; [eauto|auto]. }
    destruct r1 as [k'|e|c].
    2:{ split; [auto|]. split; [apply (rclass_err_cast e Hc1)|]. split; [discriminate|].
        intros Hf. destruct (Hcl1 Hf) as [[k' H] _]. discriminate. }
    2:{ split; [auto|]. split; [apply rclass_abort|]. split; [discriminate|].
        intros Hf. destruct (Hcl1 Hf) as [[k' H] _]. discriminate. }
    destruct (Hok k' eq_refl) as (Hk' & Hst1 & Hsrv1). subst k'.
    set (chunk := firstn (Z.to_nat n) b) in *.
    assert (Hchunk : chunk = firstn (Z.to_nat n) data).
    { unfold chunk, b. rewrite firstn_firstn. f_equal. unfold n. lia. }
    assert (Hcz : zlen chunk = n) by (rewrite Hchunk, zlen_firstn; unfold n; lia).
    assert (Hn : 1 <= n <= zlen data) by (unfold n; lia).
    destruct last eqn:Elast.
    + (* last segment: everything has been sent *)
      assert (Hz : size = Some (zlen buf + zlen data) /\ zlen data = n).
      { unfold last in Elast. destruct size as [z|]; [|discriminate]. destruct Hsz as [Hsz|Hsz]; [discriminate|].
        inversion Hsz; subst z. split; [reflexivity|]. lia. }
      destruct Hz as [Hsize Hdn].
      replace (zlen data - n) with 0 in Hv by lia. apply valid_seg_nil in Hv. subst ks. cbn [write_sched].
      assert (Hcd : chunk = data).
      { rewrite Hchunk. apply firstn_all2. unfold zlen in *. lia. }
      unfold srv_after_seg in Hsrv1. rewrite Hcd in Hsrv1.
      assert (Hnf : match size with Some z => negb (z =? zlen (buf ++ data)) | None => false end = false).
      { rewrite Hsize, zlen_app. lia. }
      rewrite Hnf in Hsrv1. cbn [flag_if] in Hsrv1.
      split; [auto|]. split; [apply rclass_ok|]. split.
      * intros _. rewrite Hsrv1. cbn [set_x store_put s_viol s_style s_store s_x].
        split; [auto|]. split; [auto|]. right. rewrite Hst1. cbn [ws_done ws_exp]. auto.
      * intros Hf. split; [reflexivity|]. apply Hcl1; auto.
    + (* more to come *)
      unfold srv_after_seg in Hsrv1.
      assert (Hx1 : s_x (n_srv (w_s w1)) = XDl mux size (buf ++ chunk) (negb t)) by (rewrite Hsrv1; reflexivity).
      assert (Hlen' : zlen (skipn (Z.to_nat n) data) = zlen data - n) by (rewrite zlen_skipn; lia).
      assert (Hsz' : size = None \/ size = Some (zlen (buf ++ chunk) + zlen (skipn (Z.to_nat n) data))).
      { destruct Hsz as [Hsz|Hsz]; [auto|right]. rewrite Hsz, zlen_app, Hcz, Hlen'. f_equal. lia. }
      assert (Hv' : valid_seg_sched ks (zlen (skipn (Z.to_nat n) data))) by (rewrite Hlen'; exact Hv).
      specialize (IH (skipn (Z.to_nat n) data) w1 st1 (buf ++ chunk) (negb t) Hwf1 Hx1).
      rewrite Hst1 in IH. cbn [ws_exp ws_done ws_toggle ws_pos ws_size] in IH.
      specialize (IH eq_refl eq_refl eq_refl). rewrite zlen_app, Hcz in IH.
      specialize (IH eq_refl eq_refl Hv'). rewrite zlen_app, Hcz in Hsz'. specialize (IH Hsz').
      rewrite <- Hst1 in IH.
      destruct (write_sched net_step w1 st1 (skipn (Z.to_nat n) data) ks) as [[w2 st2] r2].
      destruct IH as (Hwf2 & Hc2 & Hok2 & Hcl2).
      assert (Hjoin : (buf ++ chunk) ++ skipn (Z.to_nat n) data = buf ++ data).
      { rewrite <- app_assoc, Hchunk, firstn_skipn. reflexivity. }
      assert (Hne : skipn (Z.to_nat n) data = [] -> size = None).
      { intros H0. rewrite H0 in Hlen'. unfold last in Elast. destruct size as [z|]; [|auto].
        destruct Hsz as [Hsz|Hsz]; [discriminate|]. inversion Hsz; subst z. unfold zlen in Hlen' at 1. cbn in Hlen'. lia. }
      split; [auto|]. split; [auto|]. split.
      * intros Hr2. destruct (Hok2 Hr2) as (Hv2 & Hs2 & Hcase).
        rewrite Hsrv1 in Hv2, Hs2, Hcase. cbn [set_x s_viol s_style s_store] in Hv2, Hs2, Hcase.
        split; [auto|]. split; [auto|]. rewrite Hjoin in Hcase.
        destruct Hcase as [(H1 & H2 & H3)|H1]; [left|right; auto].
        split; [auto|]. split; [|auto]. destruct H2 as [H2|H2]; [auto|left; auto].
      * intros Hf. destruct (Hcl1 Hf) as [_ Hf1]. apply Hcl2; auto.
Qed.

(* ---- a whole download through the file-like interface ---- *)
Lemma expedited_inv size force : expedited size force = true ->
  exists z, size = Some z /\ 1 <= z <= 4 /\ force = false.
Proof.
  unfold expedited. destruct size as [z|]; [|discriminate]. destruct force; intros H; [lia|].
  exists z. repeat split; lia.
Qed.

Lemma with_write_spec (w : cworld) idx sub data size force sched :
  net_wf (w_s w) -> mux_ok idx sub -> zlen data < 2 ^ 32 ->
  (size = None \/ size = Some (zlen data)) ->
  valid_sched (expedited size force) sched (zlen data) ->
  let '(w', r) := with_write net_step w idx sub size force data sched in
  net_wf (w_s w') /\ rclass r /\
  (r = Ok tt ->
     s_store (n_srv (w_s w')) = (mux_key idx sub, data) :: s_store (n_srv (w_s w)) /\
     s_viol (n_srv (w_s w')) = s_viol (n_srv (w_s w)) /\ s_style (n_srv (w_s w')) = s_style (n_srv (w_s w)) /\
     s_x (n_srv (w_s w')) = XNone) /\
  (n_fault (w_s w) = None -> r = Ok tt /\ n_fault (w_s w') = None).
Proof.
  intros Hwf Hm Hlen Hsz Hv. unfold with_write.
  pose proof (zlen_nonneg data) as Hd0.
  destruct (expedited size force) eqn:Eexp; unfold valid_sched in Hv.
  - (* expedited *)
    destruct (expedited_inv _ _ Eexp) as (z & Hs & Hz & Hforce). subst size force sched.
    destruct Hsz as [Hsz|Hsz]; [discriminate|]. inversion Hsz; subst z.
    rewrite ws_init_exp by auto. cbn [write_sched].
    replace (firstn (Z.to_nat (zlen data)) data) with data by (symmetry; apply firstn_all2; unfold zlen; lia).
    set (st0 := {| ws_size := Some (zlen data); ws_pos := 0; ws_toggle := 0;
                   ws_exp := Some (exp_cmd (zlen data) :: mux_bytes idx sub); ws_done := false; ws_error := None |}).
    pose proof (ws_write_exp w st0 data idx sub Hwf Hz eq_refl eq_refl eq_refl) as H.
    destruct (ws_write net_step w st0 data) as [[w1 st1] r1].
    destruct H as (Hwf1 & Hc1 & Hok & Hcl).
    destruct r1 as [k|e|c].
    + destruct (Hok k eq_refl) as (Hk & Hdone & Hexp & Hsrv).
      unfold ws_close. rewrite Hdone. cbn [negb andb].
      split; [auto|]. split; [apply rclass_ok|]. split.
      * intros _. rewrite Hsrv. cbn [set_x store_put s_store s_viol s_style s_x].
        rewrite mux_decode by auto. auto.
      * intros Hf. split; [reflexivity|]. apply Hcl; auto.
    + assert (Hst1 : ws_close net_step w1 st1 = (w1, st1, Ok tt) \/ True) by auto.
      pose proof (ws_close_gen w1 st1 Hwf1) as Hcg.
      destruct (ws_close net_step w1 st1) as [[w2 st2] r2]. destruct Hcg as [Hwf2 Hc2].
      split; [auto|]. split; [destruct r2; auto; apply (rclass_err_cast e Hc1)|]. split.
      * destruct r2; discriminate.
      * intros Hf. destruct (Hcl Hf) as [[k Hk] _]. discriminate.
    + pose proof (ws_close_gen w1 st1 Hwf1) as Hcg.
      destruct (ws_close net_step w1 st1) as [[w2 st2] r2]. destruct Hcg as [Hwf2 Hc2].
      split; [auto|]. split; [destruct r2; auto; apply rclass_abort|]. split.
      * destruct r2; discriminate.
      * intros Hf. destruct (Hcl Hf) as [[k Hk] _]. discriminate.
  - (* segmented *)
    assert (Hso : size_ok size) by (destruct Hsz as [Hsz|Hsz]; subst size; cbn; auto; lia).
    pose proof (ws_init_seg_any w idx sub size force Hwf Hm Hso Eexp) as Hi.
    pose proof (fun Hf => ws_init_seg_clean w idx sub size force Hf Hm Hso Eexp) as Hic.
    destruct (ws_init net_step w idx sub size force) as [[w0 st0] r0].
    destruct Hi as (Hwf0 & Hc0 & Hst0 & Hsrv0).
    assert (Hcl0 : n_fault (w_s w) = None -> r0 = Ok tt /\ n_fault (w_s w0) = None).
    { intros Hf. destruct (Hic Hf) as (w0' & st0' & E & Hf0). injection E as H1 H2 H3. subst w0'. auto. }
    destruct r0 as [[]|e|c].
    2:{ pose proof (ws_close_gen w0 st0 Hwf0) as Hcg.
        destruct (ws_close net_step w0 st0) as [[w1 st1] r1]. destruct Hcg as [Hwf1 _].
        split; [auto|]. split; [auto|]. split; [discriminate|].
        intros Hf. destruct (Hcl0 Hf) as [H _]. discriminate. }
    2:{ pose proof (ws_close_gen w0 st0 Hwf0) as Hcg.
        destruct (ws_close net_step w0 st0) as [[w1 st1] r1]. destruct Hcg as [Hwf1 _].
        split; [auto|]. split; [auto|]. split; [discriminate|].
        intros Hf. destruct (Hcl0 Hf) as [H _]. discriminate. }
    specialize (Hsrv0 eq_refl). specialize (Hst0 eq_refl).
    assert (Hx0 : s_x (n_srv (w_s w0)) = XDl (mux_bytes idx sub) size [] false) by (rewrite Hsrv0; reflexivity).
    subst st0.
    pose proof (write_sched_seg (mux_bytes idx sub) size sched data w0 (ws_new size) [] false Hwf0 Hx0
                  eq_refl eq_refl eq_refl eq_refl eq_refl Hv) as Hw.
    cbn [zlen length Z.of_nat Z.add] in Hw. change (zlen []) with 0 in Hw. specialize (Hw Hsz).
    destruct (write_sched net_step w0 (ws_new size) data sched) as [[w1 st1] r1].
    destruct Hw as (Hwf1 & Hc1 & Hok1 & Hcl1).
    cbn [app] in Hok1.
    destruct r1 as [[]|e|c].
    + destruct (Hok1 eq_refl) as (Hv1 & Hs1 & Hcase).
      rewrite Hsrv0 in Hv1, Hs1, Hcase. cbn [set_x s_viol s_style s_store] in Hv1, Hs1, Hcase.
      destruct Hcase as [(Hst & Hnd & t' & Hx1 & He1 & Hd1 & Ht1)|(Hst & Hx1 & Hd1 & He1)].
      * (* still open: close sends the final empty segment *)
        pose proof (ws_close_open w1 st1 (mux_bytes idx sub) size data t' Hwf1 Hx1 He1 Hd1 Ht1) as Hc.
        pose proof (ws_close_gen w1 st1 Hwf1) as Hcg.
        destruct (ws_close net_step w1 st1) as [[w2 st2] r2]. destruct Hcg as [Hwf2 Hc2].
        destruct Hc as [Hcok Hccl].
        split; [auto|]. split; [destruct r2; auto; apply rclass_ok|]. split.
        -- intros Hr. destruct r2 as [[]|e|c]; try discriminate. rewrite (Hcok eq_refl).
           unfold srv_after_seg. rewrite app_nil_r.
           assert (Hnf : match size with Some z => negb (z =? zlen data) | None => false end = false).
           { destruct Hsz as [Hsz|Hsz]; subst size; [reflexivity|]. lia. }
           rewrite Hnf. cbn [flag_if set_x store_put s_store s_viol s_style s_x].
           rewrite mux_decode by auto. rewrite Hst, Hv1, Hs1. auto.
        -- intros Hf. destruct (Hcl0 Hf) as [_ Hf0]. destruct (Hcl1 Hf0) as [_ Hf1].
           destruct (Hccl Hf1) as [Hr2 Hf2]. subst r2. auto.
      * (* already committed by the last data segment *)
        unfold ws_close. rewrite Hd1. cbn [negb andb].
        split; [auto|]. split; [apply rclass_ok|]. split.
        -- intros _. rewrite Hst, Hv1, Hs1, mux_decode by auto. auto.
        -- intros Hf. destruct (Hcl0 Hf) as [_ Hf0]. destruct (Hcl1 Hf0) as [_ Hf1]. auto.
    + pose proof (ws_close_gen w1 st1 Hwf1) as Hcg.
      destruct (ws_close net_step w1 st1) as [[w2 st2] r2]. destruct Hcg as [Hwf2 Hc2].
      split; [auto|]. split; [destruct r2; auto|]. split.
      * destruct r2; discriminate.
      * intros Hf. destruct (Hcl0 Hf) as [_ Hf0]. destruct (Hcl1 Hf0) as [H _]. discriminate.
    + pose proof (ws_close_gen w1 st1 Hwf1) as Hcg.
      destruct (ws_close net_step w1 st1) as [[w2 st2] r2]. destruct Hcg as [Hwf2 Hc2].
      split; [auto|]. split; [destruct r2; auto|]. split.
      * destruct r2; discriminate.
      * intros Hf. destruct (Hcl0 Hf) as [_ Hf0]. destruct (Hcl1 Hf0) as [H _]. discriminate.
Qed.

(* ================================================================== upload *)
(* ---- any exchange, seen from the client: what arrives instead of the genuine response ---- *)
Definition slot_after (o : option (nat * fault)) : option (nat * fault) :=
  match o with Some (Datatypes.S j, f) => Some (j, f) | _ => None end.

Lemma exchange (w : cworld) req s' r0 :
  net_wf (w_s w) -> ref_step (n_srv (w_s w)) req = (s', Some r0) -> nth 0 r0 0 <> 128 -> r0 <> [] ->
  let '(w', r) := rr w req in
  net_wf (w_s w') /\ rclass r /\
  (forall resp, r = Ok resp ->
     n_srv (w_s w') = s' /\ n_fault (w_s w') = slot_after (n_fault (w_s w)) /\
     match n_fault (w_s w) with
     | Some (O, f) => hd_error (apply_fault f [r0]) = Some resp
     | _ => resp = r0
     end) /\
  (match n_fault (w_s w) with Some (O, _) => False | _ => True end -> r = Ok r0).
Proof.
  intros Hwf Hr Hc Hne.
  pose proof (rr_any w req Hwf) as Hany. pose proof (rr_spec w req) as Hspec.
  assert (Hd0 : decode_resp r0 = Ok r0).
  { destruct r0 as [|c t]; [congruence|]. cbn in Hc. unfold decode_resp. replace (c =? 128) with false by lia. reflexivity. }
  destruct (rr w req) as [w' r]. destruct Hany as (Hwf' & Hcl & _).
  split; [auto|]. split; [auto|].
  destruct (net_step (w_s w) req) as [n1 rs] eqn:En.
  assert (Hto : rs = [] -> forall resp, r <> Ok resp).
  { intros -> resp ->. destruct (net_step n1 (abort_frame TIMEOUT_ABORT)) as [n2 rs2].
    destruct Hspec as (w2 & E & _). discriminate. }
  assert (Hhd : forall x q resp, rs = x :: q -> r = Ok resp -> resp = x /\ w_s w' = n1).
  { intros x q resp -> ->. destruct Hspec as (w2 & E & Hs & _). injection E as <- Hd. split; [|auto].
    destruct x as [|c t]; [discriminate|]. unfold decode_resp in Hd.
    destruct (c =? 128); [destruct (length (c :: t) <? 8)%nat; discriminate|]. congruence. }
  unfold net_step in En. rewrite Hr in En.
  destruct (n_fault (w_s w)) as [[[|j] f]|] eqn:Ef.
  - split; [|intros []].
    intros resp Hresp.
    destruct f as [| |frs|m|m| |fr|]; injection En as <- <-; cbn [apply_fault olist] in *;
      try (exfalso; apply (Hto eq_refl resp Hresp)).
    + destruct frs as [|fr frs]; [exfalso; apply (Hto eq_refl resp Hresp)|].
      destruct (Hhd _ _ _ eq_refl Hresp) as [-> ->]. cbn. auto.
    + cbn [map] in *. destruct (Hhd _ _ _ eq_refl Hresp) as [-> ->]. cbn. auto.
    + cbn [map] in *. destruct (Hhd _ _ _ eq_refl Hresp) as [-> ->]. cbn. auto.
    + cbn [app] in *. destruct (Hhd _ _ _ eq_refl Hresp) as [-> ->]. cbn. auto.
    + destruct (Hhd _ _ _ eq_refl Hresp) as [-> ->]. cbn. auto.
  - injection En as <- <-. cbn [olist] in *. split.
    + intros resp Hresp. destruct (Hhd _ _ _ eq_refl Hresp) as [-> ->]. cbn. auto.
    + intros _. destruct Hspec as (w2 & E & _). injection E as _ ->. exact Hd0.
  - injection En as <- <-. cbn [olist] in *. split.
    + intros resp Hresp. destruct (Hhd _ _ _ eq_refl Hresp) as [-> ->]. cbn. auto.
    + intros _. destruct Hspec as (w2 & E & _). injection E as _ ->. exact Hd0.
Qed.

(* ---- ReadableStream.__init__: what the client makes of an initiate-upload response ---- *)
Definition init_decode (idx sub : Z) (resp : frame) : rstream * res unit :=
  if (length resp <? 4)%nat then (rs_new, Err E_STRUCT)
  else
    let c := nth 0 resp 0 in
    let ridx := nth 1 resp 0 + 256 * nth 2 resp 0 in
    let rsub := nth 3 resp 0 in
    let res_data := firstn 4 (skipn 4 resp) in
    if negb (Z.land c 224 =? 64) then (rs_new, Err E_SDOCOMM)
    else if negb ((ridx =? idx) && (rsub =? sub)) then (rs_new, Err E_SDOCOMM)
    else if negb (Z.land c 2 =? 0) then
      if negb (Z.land c 1 =? 0) then
        let size := 4 - Z.land (Z.shiftr c 2) 3 in
        let d := firstn (Z.to_nat size) res_data in
        ({| rs_done := false; rs_toggle := 0; rs_pos := zlen d; rs_size := Some size;
            rs_exp := Some d; rs_pending := [] |}, Ok tt)
      else
        ({| rs_done := false; rs_toggle := 0; rs_pos := zlen res_data; rs_size := None;
            rs_exp := Some res_data; rs_pending := [] |}, Ok tt)
    else if negb (Z.land c 1 =? 0) then
      if (length res_data =? 4)%nat then
        ({| rs_done := false; rs_toggle := 0; rs_pos := 0;
            rs_size := Some (le_decode res_data); rs_exp := None; rs_pending := [] |}, Ok tt)
      else (rs_new, Err E_STRUCT)
    else (rs_new, Ok tt).

Definition ul_init_req (idx sub : Z) : frame := 64 :: mux_bytes idx sub ++ [0; 0; 0; 0].

Lemma rs_init_unfold (w : cworld) idx sub : mux_ok idx sub ->
  rs_init net_step w idx sub =
  let '(w1, r) := rr w (ul_init_req idx sub) in
  match r with
  | Ok resp => let '(st, r') := init_decode idx sub resp in (w1, st, r')
  | Err k => (w1, rs_new, Err k)
  | Abort c => (w1, rs_new, Abort c)
  end.
Proof.
  intros Hm. unfold rs_init, REQUEST_UPLOAD, RESPONSE_UPLOAD, EXPEDITED, SIZE_SPECIFIED.
  rewrite pack_sdo_ok by (auto; lia).
  change ((64 :: mux_bytes idx sub) ++ [0; 0; 0; 0]) with (ul_init_req idx sub).
  destruct (rr w (ul_init_req idx sub)) as [w1 [resp|k|c]]; try reflexivity.
  unfold init_decode.
  repeat match goal with |- context [if ?c then _ else _] => destruct c end; reflexivity.
Qed.

(* the server's answer to an initiate-upload request *)
Definition ul_init_resp (st : style) (idx sub : Z) (v : list Z) : frame :=
  if st_expedite st && (1 <=? zlen v) && (zlen v <=? 4) then
    (if st_exp_size st then 67 + 4 * (4 - zlen v) else 66) :: mux_bytes idx sub ++ pad_to 4 v
  else (if st_size_ind st then 65 else 64) :: mux_bytes idx sub ++
       (if st_size_ind st then le_encode 4 (zlen v) else [0; 0; 0; 0]).

Definition ul_init_srv (s : sst) (idx sub : Z) (v : list Z) : sst :=
  if st_expedite (s_style s) && (1 <=? zlen v) && (zlen v <=? 4) then set_x XNone s
  else set_x (XUl (mux_bytes idx sub) v false (st_segs (s_style s))) s.

Lemma ref_ul_init s idx sub v : mux_ok idx sub -> store_get idx sub s = Some v ->
  ref_step s (ul_init_req idx sub) = (ul_init_srv s idx sub v, Some (ul_init_resp (s_style s) idx sub v)).
Proof.
  intros Hm Hg. unfold store_get in Hg. rewrite <- (mux_decode idx sub Hm) in Hg.
  unfold ul_init_req, mux_bytes in *. cbn [app].
  unfold ref_step. cbn [length Nat.eqb negb nth]. change (64 / 32 =? 1) with false. change (64 / 32 =? 0) with false.
  change (64 / 32 =? 2) with true. cbn iota.
  unfold srv_init_upload. cbn [nth skipn firstn]. rewrite Hg.
  change (negb ((64 mod 32 =? 0) && all_zero [0; 0; 0; 0])) with false. cbn [flag_if].
  unfold ul_init_srv, ul_init_resp, mux_bytes.
  destruct (st_expedite (s_style s) && (1 <=? zlen v) && (zlen v <=? 4)); reflexivity.
Qed.

Lemma ref_ul_init_missing s idx sub : mux_ok idx sub -> store_get idx sub s = None ->
  ref_step s (ul_init_req idx sub) = (set_x XNone s, Some (srv_abort (mux_bytes idx sub) 100794368)).
Proof.
  intros Hm Hg. unfold store_get in Hg. rewrite <- (mux_decode idx sub Hm) in Hg.
  unfold ul_init_req, mux_bytes in *. cbn [app].
  unfold ref_step. cbn [length Nat.eqb negb nth]. change (64 / 32 =? 1) with false. change (64 / 32 =? 0) with false.
  change (64 / 32 =? 2) with true. cbn iota.
  unfold srv_init_upload. cbn [nth skipn firstn]. rewrite Hg. reflexivity.
Qed.

(* what the client makes of the genuine answer *)
Definition init_state (st : style) (v : list Z) : rstream :=
  if st_expedite st && (1 <=? zlen v) && (zlen v <=? 4) then
    if st_exp_size st then
      {| rs_done := false; rs_toggle := 0; rs_pos := zlen v; rs_size := Some (zlen v); rs_exp := Some v; rs_pending := [] |}
    else
      {| rs_done := false; rs_toggle := 0; rs_pos := 4; rs_size := None; rs_exp := Some (pad_to 4 v); rs_pending := [] |}
  else
    {| rs_done := false; rs_toggle := 0; rs_pos := 0; rs_size := if st_size_ind st then Some (zlen v) else None;
       rs_exp := None; rs_pending := [] |}.

Lemma mux_idx idx sub : mux_ok idx sub -> (idx mod 256 + 256 * (idx / 256) =? idx) && (sub =? sub) = true.
Proof. unfold mux_ok. lia. Qed.

Lemma init_decode_genuine st idx sub v : mux_ok idx sub -> zlen v < 2 ^ 32 ->
  init_decode idx sub (ul_init_resp st idx sub v) = (init_state st v, Ok tt).
Proof.
  intros Hm Hv. unfold ul_init_resp, init_state.
  destruct (st_expedite st && (1 <=? zlen v) && (zlen v <=? 4)) eqn:Ee.
  - assert (Hl : 1 <= zlen v <= 4) by lia.
    destruct v as [|v0 [|v1 [|v2 [|v3 [|v4 v]]]]]; unfold zlen in Hl; cbn [length] in Hl; try lia;
      destruct (st_exp_size st); unfold init_decode, mux_bytes; cbn [app length Nat.ltb Nat.leb nth];
      rewrite (mux_idx idx sub Hm); reflexivity.
  - pose proof (zlen_nonneg v).
    destruct (st_size_ind st); unfold init_decode, mux_bytes; cbn [app length Nat.ltb Nat.leb nth le_encode];
      rewrite (mux_idx idx sub Hm); cbn [negb Z.land Z.eqb andb skipn firstn length Nat.eqb].
    + change [zlen v mod 256; zlen v / 256 mod 256; zlen v / 256 / 256 mod 256; zlen v / 256 / 256 / 256 mod 256]
        with (le_encode 4 (zlen v)). rewrite le_decode_encode4 by lia. reflexivity.
    + reflexivity.
Qed.

(* ---- upload segments ---- *)
Definition seg_resp (t : bool) (chunk : list Z) (last : bool) : frame :=
  (16 * b2z t + 2 * (7 - zlen chunk) + b2z last) :: pad_to 7 chunk.
Definition ul_seg_req (t : bool) : frame := Z.lor 96 (16 * b2z t) :: [0; 0; 0; 0; 0; 0; 0].
Definition seg_k (segs : list Z) : nat := match segs with [] => 7%nat | x :: _ => clamp7 x end.
Definition seg_last (lazy : bool) (rest : list Z) (k : nat) : bool :=
  if lazy then is_nil rest else is_nil (skipn k rest).

Lemma seg_k_le segs : (seg_k segs <= 7)%nat.
Proof. unfold seg_k. destruct segs; [lia|apply clamp7_le]. Qed.

Lemma ref_ul_seg s mux rest t segs : s_x s = XUl mux rest t segs ->
  ref_step s (ul_seg_req t) =
  (let k := seg_k segs in
   let last := seg_last (st_lazy_end (s_style s)) rest k in
   (if last then set_x XNone s else set_x (XUl mux (skipn k rest) (negb t) (tl segs)) s,
    Some (seg_resp t (firstn k rest) last))).
Proof.
  intros Hx. unfold ul_seg_req, ref_step. cbn [length Nat.eqb negb nth].
  replace (Z.lor 96 (16 * b2z t) / 32 =? 1) with false by (destruct t; reflexivity).
  replace (Z.lor 96 (16 * b2z t) / 32 =? 0) with false by (destruct t; reflexivity).
  replace (Z.lor 96 (16 * b2z t) / 32 =? 2) with false by (destruct t; reflexivity).
  replace (Z.lor 96 (16 * b2z t) / 32 =? 3) with true by (destruct t; reflexivity).
  unfold srv_upload_segment. cbn [nth]. rewrite Hx.
  replace (negb ((Z.lor 96 (16 * b2z t) mod 16 =? 0) && all_zero (skipn 1 [Z.lor 96 (16 * b2z t); 0; 0; 0; 0; 0; 0; 0])))
    with false by (destruct t; reflexivity).
  cbn [flag_if]. replace (Z.testbit (Z.lor 96 (16 * b2z t)) 4) with t by (destruct t; reflexivity).
  rewrite Bool.eqb_reflx. cbn [negb]. fold (seg_k segs). unfold seg_last, seg_resp.
  destruct (if st_lazy_end (s_style s) then is_nil rest else is_nil (skipn (seg_k segs) rest)); reflexivity.
Qed.

Lemma seg_resp_bits t (chunk : list Z) last : (length chunk <= 7)%nat ->
  let c := 16 * b2z t + 2 * (7 - zlen chunk) + b2z last in
  Z.land c 224 = 0 /\ Z.land c 16 = 16 * b2z t /\ 7 - Z.land (Z.shiftr c 1) 7 = zlen chunk /\
  (Z.land c 1 =? 0) = negb last /\ c <> 128.
Proof.
  intros H. assert (E : zlen chunk = 0 \/ zlen chunk = 1 \/ zlen chunk = 2 \/ zlen chunk = 3 \/ zlen chunk = 4 \/
                        zlen chunk = 5 \/ zlen chunk = 6 \/ zlen chunk = 7) by (unfold zlen; lia).
  destruct t, last; decompose [or] E; match goal with H : zlen chunk = _ |- _ => rewrite H end;
    vm_compute; repeat split; congruence.
Qed.

Definition seg_checks (tg : Z) (resp : frame) : bool :=
  (Z.land (nth 0 resp 0) 224 =? 0) && (Z.land (nth 0 resp 0) 16 =? tg).

Lemma land16_testbit c t : Z.testbit c 4 <> t -> (Z.land c 16 =? 16 * b2z t) = false.
Proof.
  intros Ht. assert (H : Z.land c 16 = 16 * b2z (Z.testbit c 4)).
  { apply Z.bits_inj'. intros n Hn. rewrite Z.land_spec.
    destruct (Z.eq_dec n 4) as [->|Hne].
    - change (Z.testbit 16 4) with true. rewrite andb_true_r. destruct (Z.testbit c 4); reflexivity.
    - replace (Z.testbit 16 n) with false.
      + rewrite andb_false_r. destruct (Z.testbit c 4); cbn [b2z]; [|rewrite Z.mul_0_r; symmetry; apply Z.bits_0].
        change (16 * 1) with (2 ^ 4). symmetry. apply Z.pow2_bits_false. lia.
      + change 16 with (2 ^ 4). symmetry. apply Z.pow2_bits_false. lia. }
  rewrite H. destruct (Z.testbit c 4), t; cbn; congruence.
Qed.

(* a disturbed segment response either is the genuine one or fails the client's checks *)
Lemma seg_fault_resp t f (chunk : list Z) last resp : (length chunk <= 7)%nat ->
  seg_fault_ok t f -> hd_error (apply_fault f [seg_resp t chunk last]) = Some resp ->
  resp = seg_resp t chunk last \/ seg_checks (16 * b2z t) resp = false.
Proof.
  intros Hl Hf Hh. destruct (seg_resp_bits t chunk last Hl) as (B1 & B2 & _).
  destruct f as [| |frs|m|m| |fr|]; cbn [apply_fault seg_fault_ok] in *; try discriminate.
  - destruct frs as [|fr frs]; [discriminate|]. injection Hh as <-. destruct Hf as [_ H128].
    right. unfold seg_checks. rewrite H128. reflexivity.
  - cbn [map hd_error seg_resp] in Hh. injection Hh as <-. right. unfold seg_checks. cbn [nth].
    destruct Hf as [Hm Hm16].
    assert (E : exists q, m = 16 * q /\ 1 <= q <= 15) by (exists (m / 16); lia).
    destruct E as (q & -> & Hq).
    assert (Eq : q = 1 \/ q = 2 \/ q = 3 \/ q = 4 \/ q = 5 \/ q = 6 \/ q = 7 \/ q = 8 \/ q = 9 \/ q = 10 \/ q = 11 \/
                 q = 12 \/ q = 13 \/ q = 14 \/ q = 15) by lia.
    assert (E : zlen chunk = 0 \/ zlen chunk = 1 \/ zlen chunk = 2 \/ zlen chunk = 3 \/ zlen chunk = 4 \/
                zlen chunk = 5 \/ zlen chunk = 6 \/ zlen chunk = 7) by (unfold zlen; lia).
    clear B1 B2 Hm Hm16 Hq.
    destruct t, last; decompose [or] E; match goal with H : zlen chunk = _ |- _ => rewrite H end;
      decompose [or] Eq; subst q; reflexivity.
  - destruct Hf.
  - cbn [app hd_error] in Hh. injection Hh as <-. auto.
  - cbn [hd_error] in Hh. injection Hh as <-. right. unfold seg_checks. destruct Hf as [_ [H|H]].
    + replace (Z.land (nth 0 fr 0) 224 =? 0) with false by lia. reflexivity.
    + rewrite (land16_testbit _ _ H). apply andb_false_r.
Qed.

Definition ul_inv (s : sst) (st : rstream) mux rest (t : bool) segs : Prop :=
  s_x s = XUl mux rest t segs /\ rs_done st = false /\ rs_exp st = None /\ rs_pending st = [] /\
  rs_toggle st = 16 * b2z t.
Definition slot_ok (t : bool) (o : option (nat * fault)) : Prop :=
  match o with Some (j, f) => seg_fault_ok (xorb t (Nat.odd j)) f | None => True end.

Lemma slot_ok_after t o : slot_ok t o -> slot_ok (negb t) (slot_after o).
Proof.
  destruct o as [[[|j] f]|]; cbn; auto.
  rewrite Nat.odd_succ, <- Nat.negb_odd. destruct t, (Nat.odd j); cbn; auto.
Qed.

Lemma is_nil_true {A} (l : list A) : is_nil l = true -> l = [].
Proof. destruct l; [auto|discriminate]. Qed.
Lemma is_nil_false {A} (l : list A) : is_nil l = false -> l <> [].
Proof. destruct l; [discriminate|intros _; discriminate]. Qed.

Lemma rs_read_spec : forall fuel (w : cworld) st mux rest t segs,
  net_wf (w_s w) -> ul_inv (n_srv (w_s w)) st mux rest t segs -> slot_ok t (n_fault (w_s w)) ->
  (length segs < fuel)%nat ->
  let '(w', st', r) := rs_read net_step fuel w st in
  net_wf (w_s w') /\ rclass r /\
  (forall d, r = Ok d ->
     s_store (n_srv (w_s w')) = s_store (n_srv (w_s w)) /\ s_viol (n_srv (w_s w')) = s_viol (n_srv (w_s w)) /\
     s_style (n_srv (w_s w')) = s_style (n_srv (w_s w)) /\
     rs_exp st' = None /\ rs_pending st' = [] /\ rs_size st' = rs_size st /\
     exists rest', rest = d ++ rest' /\
       ((rs_done st' = true /\ rest' = [] /\ s_x (n_srv (w_s w')) = XNone) \/
        (d <> [] /\ exists t' segs', ul_inv (n_srv (w_s w')) st' mux rest' t' segs' /\
                     slot_ok t' (n_fault (w_s w')) /\ (length segs' <= length segs)%nat))) /\
  (n_fault (w_s w) = None -> (exists d, r = Ok d) /\ n_fault (w_s w') = None).
Proof.
  induction fuel as [|fuel IH]; intros w st mux rest t segs Hwf Hinv Hslot Hfuel; [lia|].
  destruct Hinv as (Hx & Hd & He & Hp & Ht).
  cbn [rs_read]. rewrite Hp, Hd, He, Ht. cbn [is_nil negb].
  unfold REQUEST_SEGMENT_UPLOAD, RESPONSE_SEGMENT_UPLOAD, TOGGLE_BIT, NO_MORE_DATA.
  fold (ul_seg_req t).
  pose proof (ref_ul_seg (n_srv (w_s w)) mux rest t segs Hx) as Href. cbv zeta in Href.
  set (k := seg_k segs) in *. set (last := seg_last (st_lazy_end (s_style (n_srv (w_s w)))) rest k) in *.
  set (chunk := firstn k rest) in *.
  assert (Hck : (length chunk <= 7)%nat) by (unfold chunk; rewrite firstn_length; pose proof (seg_k_le segs); fold k in H; lia).
  destruct (seg_resp_bits t chunk last Hck) as (B1 & B2 & B3 & B4 & B5).
  pose proof (exchange w (ul_seg_req t) _ _ Hwf Href) as Hex.
  cbn [seg_resp nth] in Hex. specialize (Hex B5 ltac:(discriminate)).
  destruct (rr w (ul_seg_req t)) as [w1 r1]. destruct Hex as (Hwf1 & Hc1 & Hok1 & Hq1).
  destruct r1 as [resp|e|c].
  2:{ split; [auto|]. split; [apply (rclass_err_cast e Hc1)|]. split; [discriminate|].
      intros Hf. rewrite Hf in Hq1. specialize (Hq1 I). discriminate. }
  2:{ split; [auto|]. split; [apply rclass_abort|]. split; [discriminate|].
      intros Hf. rewrite Hf in Hq1. specialize (Hq1 I). discriminate. }
  destruct (Hok1 resp eq_refl) as (Hs1 & Hf1 & Hresp).
  assert (Hcases : resp = seg_resp t chunk last \/ seg_checks (16 * b2z t) resp = false).
  { destruct (n_fault (w_s w)) as [[[|j] f]|]; auto.
    apply (seg_fault_resp t f chunk last resp Hck); auto.
    cbn in Hslot. destruct t; exact Hslot. }
  destruct Hcases as [->|Hbad].
  2:{ unfold seg_checks in Hbad.
      destruct (Z.land (nth 0 resp 0) 224 =? 0) eqn:E1; cbn [negb].
      - cbn [andb] in Hbad. rewrite Hbad. cbn [negb].
        split; [auto|]. split; [apply rclass_comm|]. split; [discriminate|].
        intros Hf. rewrite Hf in Hq1. specialize (Hq1 I). injection Hq1 as Hq1. subst resp.
        cbn [seg_resp nth] in Hbad. rewrite B2 in Hbad. lia.
      - split; [auto|]. split; [apply rclass_comm|]. split; [discriminate|].
        intros Hf. rewrite Hf in Hq1. specialize (Hq1 I). injection Hq1 as Hq1. subst resp.
        cbn [seg_resp nth] in E1. rewrite B1 in E1. discriminate. }
  cbn [seg_resp nth]. rewrite B1, B2, B3, B4. cbn [Z.eqb negb]. rewrite Z.eqb_refl. cbn [negb].
  rewrite negb_involutive. rewrite toggle_flip.
  assert (Hsl1 : slot_ok (negb t) (n_fault (w_s w1))) by (rewrite Hf1; apply slot_ok_after; auto).
  assert (Hclean1 : n_fault (w_s w) = None -> n_fault (w_s w1) = None) by (intros Hf; rewrite Hf1, Hf; reflexivity).
  assert (Hsplit : rest = chunk ++ skipn k rest) by (unfold chunk; symmetry; apply firstn_skipn).
  destruct ((zlen chunk =? 0) && negb last) eqn:Eempty.
  - (* empty segment that is not the last one: read on *)
    assert (Hce : chunk = []) by (apply zlen_nil_inv; lia).
    assert (Hl : last = false) by (destruct last; [cbn in Eempty; lia|reflexivity]).
    rewrite Hl in Hs1.
    assert (Hsegs : segs <> [] /\ skipn k rest = rest).
    { unfold last, seg_last in Hl. unfold chunk in Hce.
      destruct rest as [|x rest'].
      - destruct (st_lazy_end _); [discriminate|]. rewrite skipn_nil in Hl. discriminate.
      - destruct k eqn:Ek; [|discriminate]. split; [|reflexivity]. intros ->. unfold k, seg_k in Ek. discriminate. }
    destruct Hsegs as [Hsegs Hskip]. rewrite Hskip in Hs1.
    set (st1 := {| rs_done := last; rs_toggle := 16 * b2z (negb t); rs_pos := rs_pos st + zlen chunk;
                   rs_size := rs_size st; rs_exp := None; rs_pending := [] |}).
    assert (Hinv1 : ul_inv (n_srv (w_s w1)) st1 mux rest (negb t) (tl segs)).
    { rewrite Hs1. unfold ul_inv, st1. cbn. rewrite Hl. auto. }
    assert (Hfuel1 : (length (tl segs) < fuel)%nat) by (destruct segs; [congruence|cbn in *; lia]).
    specialize (IH w1 st1 mux rest (negb t) (tl segs) Hwf1 Hinv1 Hsl1 Hfuel1).
    rewrite ?negb_involutive. fold st1.
    destruct (rs_read net_step fuel w1 st1) as [[w2 st2] r2].
    destruct IH as (Hwf2 & Hc2 & Hok2 & Hcl2).
    split; [auto|]. split; [auto|]. split.
    + intros d Hd2. destruct (Hok2 d Hd2) as (A1 & A2 & A3 & A4 & A5 & A6 & rest' & Hr & Hcase).
      rewrite Hs1 in A1, A2, A3. cbn [set_x s_store s_viol s_style] in A1, A2, A3.
      do 6 (split; [auto|]). exists rest'. split; [auto|].
      destruct Hcase as [Hc|(Hdn & t' & segs' & Hi & Hso & Hls)]; [left; auto|right].
      split; [auto|]. exists t', segs'. split; [auto|]. split; [auto|].
      destruct segs; cbn in *; lia.
    + intros Hf. apply Hcl2. auto.
  - (* a segment with data, or the last one *)
    split; [auto|]. split; [apply rclass_ok|]. split.
    + intros d Hd1. injection Hd1 as <-.
      cbn [skipn]. replace (firstn (Z.to_nat (zlen chunk)) (pad_to 7 chunk)) with chunk
        by (unfold zlen; rewrite Nat2Z.id; symmetry; apply firstn_pad_to).
      rewrite ?negb_involutive.
      cbn [rs_exp rs_pending rs_size rs_done].
      destruct last eqn:El.
      * rewrite Hs1. cbn [set_x s_store s_viol s_style s_x]. do 6 (split; [auto|]).
        exists (skipn k rest). split; [auto|]. left. split; [auto|]. split; [|auto].
        unfold last, seg_last in El. destruct (st_lazy_end _).
        -- apply is_nil_true in El. rewrite El. apply skipn_nil.
        -- apply is_nil_true in El. auto.
      * rewrite Hs1. cbn [set_x s_store s_viol s_style s_x]. do 6 (split; [auto|]).
        exists (skipn k rest). split; [auto|]. right.
        split; [intros Hc0; rewrite Hc0 in Eempty; cbn in Eempty; discriminate|].
        exists (negb t), (tl segs). split; [|split; [auto|destruct segs; cbn; lia]].
        unfold ul_inv. cbn. auto.
    + intros Hf. split; [eauto|auto].
Qed.

(* ---- disturbed initiate response ---- *)
Lemma ul_init_resp_shape st idx sub v : 0 <= zlen v ->
  exists c0 d, ul_init_resp st idx sub v = c0 :: mux_bytes idx sub ++ d /\ length d = 4%nat /\
               In c0 [64; 65; 66; 67; 71; 75; 79].
Proof.
  intros _. unfold ul_init_resp.
  destruct (st_expedite st && (1 <=? zlen v) && (zlen v <=? 4)) eqn:Ee.
  - assert (Hl : 1 <= zlen v <= 4) by lia.
    eexists _, (pad_to 4 v). split; [reflexivity|]. split; [apply pad_to_length; unfold zlen in Hl; lia|].
    destruct (st_exp_size st); [|cbn; auto].
    assert (E : zlen v = 1 \/ zlen v = 2 \/ zlen v = 3 \/ zlen v = 4) by lia.
    decompose [or] E; match goal with H : zlen v = _ |- _ => rewrite H end; cbn; auto 10.
  - eexists _, _. split; [reflexivity|]. destruct (st_size_ind st); (split; [reflexivity|cbn; auto]).
Qed.

Lemma init_decode_bad_cs idx sub c tl : (3 <= length tl)%nat -> Z.land c 224 <> 64 ->
  init_decode idx sub (c :: tl) = (rs_new, Err E_SDOCOMM).
Proof.
  intros Hl Hc. unfold init_decode. cbn [length nth].
  replace (S (length tl) <? 4)%nat with false by (symmetry; apply Nat.ltb_ge; lia).
  replace (Z.land c 224 =? 64) with false by lia. reflexivity.
Qed.

Lemma init_decode_bad_mux idx sub c m1 m2 m3 d : Z.land c 224 = 64 ->
  (m1 + 256 * m2 =? idx) && (m3 =? sub) = false ->
  init_decode idx sub (c :: m1 :: m2 :: m3 :: d) = (rs_new, Err E_SDOCOMM).
Proof.
  intros Hc Hm. unfold init_decode. cbn [length nth Nat.ltb Nat.leb].
  rewrite Hc, Hm. reflexivity.
Qed.

Lemma init_decode_cmd_ext idx sub c c' tl :
  Z.land c 224 = Z.land c' 224 -> Z.land c 2 = Z.land c' 2 -> Z.land c 1 = Z.land c' 1 ->
  Z.land (Z.shiftr c 2) 3 = Z.land (Z.shiftr c' 2) 3 ->
  init_decode idx sub (c :: tl) = init_decode idx sub (c' :: tl).
Proof. intros H1 H2 H3 H4. unfold init_decode. cbn [length nth skipn]. rewrite H1, H2, H3, H4. reflexivity. Qed.

Lemma mux_differs idx sub m1 m2 m3 : mux_ok idx sub ->
  0 <= m1 < 256 -> 0 <= m2 < 256 -> 0 <= m3 < 256 -> [m1; m2; m3] <> mux_bytes idx sub ->
  (m1 + 256 * m2 =? idx) && (m3 =? sub) = false.
Proof.
  unfold mux_ok, mux_bytes. intros Hm H1 H2 H3 Hne.
  destruct ((m1 + 256 * m2 =? idx) && (m3 =? sub)) eqn:E; [|reflexivity].
  exfalso. apply Hne. assert (m1 = idx mod 256) by lia. assert (m2 = idx / 256) by lia. assert (m3 = sub) by lia.
  congruence.
Qed.

Lemma init_decode_fault st idx sub v f resp : mux_ok idx sub -> zlen v < 2 ^ 32 ->
  init_fault_ok idx sub f -> hd_error (apply_fault f [ul_init_resp st idx sub v]) = Some resp ->
  init_decode idx sub resp = (init_state st v, Ok tt) \/ init_decode idx sub resp = (rs_new, Err E_SDOCOMM).
Proof.
  intros Hm Hv Hf Hh.
  pose proof (init_decode_genuine st idx sub v Hm Hv) as Hgen.
  destruct (ul_init_resp_shape st idx sub v (zlen_nonneg v)) as (c0 & d & Hshape & Hd & Hc0).
  rewrite Hshape in *. unfold mux_bytes in Hgen, Hh. cbn [app] in Hgen, Hh.
  destruct f as [| |frs|m|m| |fr|]; cbn [apply_fault init_fault_ok] in *; try discriminate.
  - destruct frs as [|fr frs]; [discriminate|]. injection Hh as <-. destruct Hf as [H8 H128].
    right. destruct fr as [|c tl]; [discriminate|]. cbn in H128. subst c.
    apply init_decode_bad_cs; [unfold frame8 in H8; cbn in H8; lia|cbn; lia].
  - cbn [map hd_error] in Hh. injection Hh as <-. destruct Hf as [Hm0 Hm16].
    assert (E : exists q, m = 16 * q /\ 1 <= q <= 15) by (exists (m / 16); lia).
    destruct E as (q & -> & Hq).
    destruct (Z.eq_dec q 1) as [->|Hq1].
    + left. rewrite <- Hgen. apply init_decode_cmd_ext;
        cbn in Hc0; decompose [or] Hc0; try contradiction; subst c0; reflexivity.
    + right. apply init_decode_bad_cs; [cbn; rewrite Hd; lia|].
      assert (Eq : q = 2 \/ q = 3 \/ q = 4 \/ q = 5 \/ q = 6 \/ q = 7 \/ q = 8 \/ q = 9 \/ q = 10 \/ q = 11 \/
                   q = 12 \/ q = 13 \/ q = 14 \/ q = 15) by lia.
      cbn in Hc0. decompose [or] Hc0; try contradiction; subst c0; decompose [or] Eq; subst q; vm_compute; congruence.
  - cbn [map hd_error] in Hh. injection Hh as <-. destruct Hf as (Hl3 & Hne & Hr).
    destruct m as [|m1 [|m2 [|m3 [|m4 m]]]]; try discriminate. cbn [app skipn].
    right. apply init_decode_bad_mux.
    + cbn in Hc0. decompose [or] Hc0; try contradiction; subst c0; reflexivity.
    + inversion Hr as [|? ? R1 Hr2]; subst. inversion Hr2 as [|? ? R2 Hr3]; subst. inversion Hr3 as [|? ? R3 _]; subst.
      apply mux_differs; auto.
  - cbn [app hd_error] in Hh. injection Hh as <-. left. exact Hgen.
  - cbn [hd_error] in Hh. injection Hh as <-. destruct Hf as (H8 & Hr & Hor).
    right. destruct fr as [|c [|m1 [|m2 [|m3 tl]]]]; try (unfold frame8 in H8; cbn in H8; lia).
    destruct (Z.eq_dec (Z.land c 224) 64) as [Hc64|Hc64].
    + apply init_decode_bad_mux; [auto|]. destruct Hor as [Hor|Hor]; [cbn in Hor; congruence|].
      cbn [skipn firstn] in Hor.
      inversion Hr as [|? ? R0 Hr1]; subst. inversion Hr1 as [|? ? R1 Hr2]; subst.
      inversion Hr2 as [|? ? R2 Hr3]; subst. inversion Hr3 as [|? ? R3 _]; subst.
      apply mux_differs; auto.
    + apply init_decode_bad_cs; [cbn; lia|auto].
Qed.

(* ---- ReadableStream.__init__ against the server ---- *)
Lemma ul_init_resp_hd st idx sub v : nth 0 (ul_init_resp st idx sub v) 0 <> 128 /\ ul_init_resp st idx sub v <> [].
Proof.
  destruct (ul_init_resp_shape st idx sub v (zlen_nonneg v)) as (c0 & d & -> & _ & Hc0).
  split; [|discriminate]. cbn in *. decompose [or] Hc0; try contradiction; subst; discriminate.
Qed.

Lemma rs_init_spec (w : cworld) idx sub v :
  net_wf (w_s w) -> mux_ok idx sub -> store_get idx sub (n_srv (w_s w)) = Some v -> zlen v < 2 ^ 32 ->
  ul_fault_ok idx sub (n_fault (w_s w)) ->
  let '(w', st', r) := rs_init net_step w idx sub in
  net_wf (w_s w') /\ rclass r /\
  (r = Ok tt -> st' = init_state (s_style (n_srv (w_s w))) v /\
                n_srv (w_s w') = ul_init_srv (n_srv (w_s w)) idx sub v /\
                n_fault (w_s w') = slot_after (n_fault (w_s w))) /\
  (n_fault (w_s w) = None -> r = Ok tt).
Proof.
  intros Hwf Hm Hg Hv Hfo. rewrite rs_init_unfold by auto.
  pose proof (ref_ul_init (n_srv (w_s w)) idx sub v Hm Hg) as Href.
  destruct (ul_init_resp_hd (s_style (n_srv (w_s w))) idx sub v) as [Hn128 Hne].
  pose proof (exchange w (ul_init_req idx sub) _ _ Hwf Href Hn128 Hne) as Hex.
  destruct (rr w (ul_init_req idx sub)) as [w1 r1]. destruct Hex as (Hwf1 & Hc1 & Hok1 & Hq1).
  pose proof (init_decode_genuine (s_style (n_srv (w_s w))) idx sub v Hm Hv) as Hgen.
  destruct r1 as [resp|e|c].
  2:{ split; [auto|]. split; [apply (rclass_err_cast e Hc1)|]. split; [discriminate|].
      intros Hf. rewrite Hf in Hq1. specialize (Hq1 I). discriminate. }
  2:{ split; [auto|]. split; [apply rclass_abort|]. split; [discriminate|].
      intros Hf. rewrite Hf in Hq1. specialize (Hq1 I). discriminate. }
  destruct (Hok1 resp eq_refl) as (Hs1 & Hf1 & Hresp).
  assert (Hcases : init_decode idx sub resp = (init_state (s_style (n_srv (w_s w))) v, Ok tt) \/
                   init_decode idx sub resp = (rs_new, Err E_SDOCOMM)).
  { destruct (n_fault (w_s w)) as [[[|j] f]|]; try (subst resp; auto).
    apply (init_decode_fault _ idx sub v f resp); auto. }
  destruct Hcases as [Hdec|Hdec]; rewrite Hdec.
  - split; [auto|]. split; [apply rclass_ok|]. split; [auto|auto].
  - split; [auto|]. split; [apply rclass_comm|]. split; [discriminate|].
    intros Hf. rewrite Hf in Hq1. specialize (Hq1 I). injection Hq1 as ->. rewrite Hgen in Hdec. discriminate.
Qed.

(* ---- readall ---- *)
Lemma rs_read_done fuel (w : cworld) st : rs_pending st = [] -> rs_done st = true ->
  rs_read net_step fuel w st = (w, st, Ok []).
Proof. intros Hp Hd. destruct fuel; cbn [rs_read]; rewrite Hp, Hd; reflexivity. Qed.

Lemma readall_spec rf : forall fuel (w : cworld) st mux rest t segs acc,
  net_wf (w_s w) -> ul_inv (n_srv (w_s w)) st mux rest t segs -> slot_ok t (n_fault (w_s w)) ->
  (length segs < rf)%nat -> (length rest + 2 <= fuel)%nat ->
  let '(w', st', r) := readall net_step rf fuel w st acc in
  net_wf (w_s w') /\ rclass r /\
  (forall out, r = Ok out -> out = acc ++ rest /\
     s_store (n_srv (w_s w')) = s_store (n_srv (w_s w)) /\ s_viol (n_srv (w_s w')) = s_viol (n_srv (w_s w)) /\
     s_style (n_srv (w_s w')) = s_style (n_srv (w_s w)) /\ s_x (n_srv (w_s w')) = XNone) /\
  (n_fault (w_s w) = None -> (exists out, r = Ok out) /\ n_fault (w_s w') = None).
Proof.
  induction fuel as [|fuel IH]; intros w st mux rest t segs acc Hwf Hinv Hslot Hrf Hfuel; [lia|].
  cbn [readall].
  pose proof (rs_read_spec rf w st mux rest t segs Hwf Hinv Hslot Hrf) as Hrd.
  destruct (rs_read net_step rf w st) as [[w1 st1] r1]. destruct Hrd as (Hwf1 & Hc1 & Hok1 & Hcl1).
  destruct r1 as [d|e|c].
  2:{ split; [auto|]. split; [auto|]. split; [discriminate|].
      intros Hf. destruct (Hcl1 Hf) as [[d H] _]. discriminate. }
  2:{ split; [auto|]. split; [auto|]. split; [discriminate|].
      intros Hf. destruct (Hcl1 Hf) as [[d H] _]. discriminate. }
  destruct (Hok1 d eq_refl) as (A1 & A2 & A3 & A4 & A5 & A6 & rest' & Hr & Hcase).
  destruct d as [|x d].
  - destruct Hcase as [(Hdn & Hr' & Hx1)|[Hne _]]; [|congruence].
    subst rest' rest. split; [auto|]. split; [apply rclass_ok|]. split.
    + intros out Ho. injection Ho as <-. rewrite app_nil_r. auto.
    + intros Hf. split; [eauto|apply Hcl1; auto].
  - destruct Hcase as [(Hdn & Hr' & Hx1)|(_ & t' & segs' & Hinv1 & Hsl1 & Hls)].
    + (* that was the last segment: the next read returns b"" *)
      subst rest'. rewrite app_nil_r in Hr. subst rest.
      destruct fuel as [|fuel]; [cbn in Hfuel; lia|]. cbn [readall].
      rewrite rs_read_done by auto.
      split; [auto|]. split; [apply rclass_ok|]. split.
      * intros out Ho. injection Ho as <-. auto.
      * intros Hf. split; [eauto|apply Hcl1; auto].
    + assert (Hfuel' : (length rest' + 2 <= fuel)%nat) by (subst rest; rewrite app_length in Hfuel; cbn in Hfuel; lia).
      specialize (IH w1 st1 mux rest' t' segs' (acc ++ x :: d) Hwf1 Hinv1 Hsl1 ltac:(lia) Hfuel').
      destruct (readall net_step rf fuel w1 st1 (acc ++ x :: d)) as [[w2 st2] r2].
      destruct IH as (Hwf2 & Hc2 & Hok2 & Hcl2).
      split; [auto|]. split; [auto|]. split.
      * intros out Ho. destruct (Hok2 out Ho) as (B0 & B1 & B2 & B3 & B4).
        rewrite B0, Hr, <- app_assoc. split; [reflexivity|]. rewrite B1, B2, B3. auto.
      * intros Hf. destruct (Hcl1 Hf) as [_ Hf1]. apply Hcl2; auto.
Qed.

(* ---- upload() / open(buffering=0).read() ---- *)
Lemma read_whole_spec fuel (w : cworld) idx sub v :
  net_wf (w_s w) -> mux_ok idx sub -> store_get idx sub (n_srv (w_s w)) = Some v -> zlen v < 2 ^ 32 ->
  ul_fault_ok idx sub (n_fault (w_s w)) ->
  (length (st_segs (s_style (n_srv (w_s w)))) < fuel)%nat -> (length v + 2 <= fuel)%nat ->
  let '(w', size, r) := read_whole net_step fuel w idx sub in
  net_wf (w_s w') /\ rclass r /\
  (forall out, r = Ok out ->
     out = wire_value (s_style (n_srv (w_s w))) v /\
     size = (if size_indicated (s_style (n_srv (w_s w))) v then Some (zlen v) else None) /\
     s_store (n_srv (w_s w')) = s_store (n_srv (w_s w)) /\ s_viol (n_srv (w_s w')) = s_viol (n_srv (w_s w)) /\
     s_style (n_srv (w_s w')) = s_style (n_srv (w_s w)) /\ s_x (n_srv (w_s w')) = XNone) /\
  (n_fault (w_s w) = None -> (exists out, r = Ok out) /\ n_fault (w_s w') = None).
Proof.
  intros Hwf Hm Hg Hv Hfo Hf1 Hf2. unfold read_whole.
  pose proof (rs_init_spec w idx sub v Hwf Hm Hg Hv Hfo) as Hi.
  destruct (rs_init net_step w idx sub) as [[w0 st0] r0]. destruct Hi as (Hwf0 & Hc0 & Hok0 & Hcl0).
  destruct r0 as [[]|e|c].
  2:{ split; [auto|]. split; [apply (rclass_err_cast e Hc0)|]. split; [discriminate|].
      intros Hf. specialize (Hcl0 Hf). discriminate. }
  2:{ split; [auto|]. split; [apply rclass_abort|]. split; [discriminate|].
      intros Hf. specialize (Hcl0 Hf). discriminate. }
  destruct (Hok0 eq_refl) as (Hst0 & Hs0 & Hfl0). subst st0.
  unfold init_state, ul_init_srv, wire_value, size_indicated in *.
  set (sty := s_style (n_srv (w_s w))) in *.
  destruct (st_expedite sty && (1 <=? zlen v) && (zlen v <=? 4)) eqn:Ee.
  - destruct (st_exp_size sty) eqn:Es; cbn [rs_exp rs_size andb negb].
    + split; [auto|]. split; [apply rclass_ok|]. split.
      * intros out Ho. injection Ho as <-. rewrite Hs0. cbn. repeat split; reflexivity.
      * intros Hf. split; [eauto|]. rewrite Hfl0, Hf. reflexivity.
    + split; [auto|]. split; [apply rclass_ok|]. split.
      * intros out Ho. injection Ho as <-. rewrite Hs0. cbn. repeat split; reflexivity.
      * intros Hf. split; [eauto|]. rewrite Hfl0, Hf. reflexivity.
  - cbn [rs_exp rs_size andb].
    set (st0 := {| rs_done := false; rs_toggle := 0; rs_pos := 0;
                   rs_size := if st_size_ind sty then Some (zlen v) else None; rs_exp := None; rs_pending := [] |}).
    assert (Hinv : ul_inv (n_srv (w_s w0)) st0 (mux_bytes idx sub) v false (st_segs sty)).
    { rewrite Hs0. unfold ul_inv. cbn. auto. }
    assert (Hsl : slot_ok false (n_fault (w_s w0))).
    { rewrite Hfl0. destruct (n_fault (w_s w)) as [[[|j] f]|]; cbn; auto. cbn in Hfo.
      destruct (Nat.odd j); exact Hfo. }
    pose proof (readall_spec fuel fuel w0 st0 (mux_bytes idx sub) v false (st_segs sty) [] Hwf0 Hinv Hsl Hf1 Hf2) as Hra.
    destruct (readall net_step fuel fuel w0 st0 []) as [[w1 st1] r1]. destruct Hra as (Hwf1 & Hc1 & Hok1 & Hcl1).
    split; [auto|]. split; [auto|]. split.
    + intros out Ho. destruct (Hok1 out Ho) as (B0 & B1 & B2 & B3 & B4).
      rewrite Hs0 in B1, B2, B3. cbn in B0, B1, B2, B3. subst out. auto 10.
    + intros Hf. apply Hcl1. rewrite Hfl0, Hf. reflexivity.
Qed.

Lemma sdo_upload_spec fuel (w : cworld) idx sub odt v :
  net_wf (w_s w) -> mux_ok idx sub -> store_get idx sub (n_srv (w_s w)) = Some v -> zlen v < 2 ^ 32 ->
  ul_fault_ok idx sub (n_fault (w_s w)) ->
  (length (st_segs (s_style (n_srv (w_s w)))) < fuel)%nat -> (length v + 2 <= fuel)%nat ->
  let '(w', r) := sdo_upload net_step fuel w idx sub odt in
  net_wf (w_s w') /\ rclass r /\
  (forall out, r = Ok out ->
     out = expected_upload (s_style (n_srv (w_s w))) odt v /\
     s_store (n_srv (w_s w')) = s_store (n_srv (w_s w)) /\ s_viol (n_srv (w_s w')) = s_viol (n_srv (w_s w)) /\
     s_style (n_srv (w_s w')) = s_style (n_srv (w_s w)) /\ s_x (n_srv (w_s w')) = XNone) /\
  (n_fault (w_s w) = None -> (exists out, r = Ok out) /\ n_fault (w_s w') = None).
Proof.
  intros Hwf Hm Hg Hv Hfo Hf1 Hf2. unfold sdo_upload.
  pose proof (read_whole_spec fuel w idx sub v Hwf Hm Hg Hv Hfo Hf1 Hf2) as H.
  destruct (read_whole net_step fuel w idx sub) as [[w1 size] r1]. destruct H as (Hwf1 & Hc1 & Hok1 & Hcl1).
  destruct r1 as [data|e|c].
  - split; [auto|]. split; [apply rclass_ok|]. split.
    + intros out Ho. injection Ho as <-. destruct (Hok1 data eq_refl) as (B0 & B1 & B2). subst data size.
      unfold expected_upload. auto.
    + intros Hf. split; [eauto|]. apply Hcl1; auto.
  - split; [auto|]. split; [auto|]. split; [discriminate|]. intros Hf. destruct (Hcl1 Hf) as [[o H] _]. discriminate.
  - split; [auto|]. split; [auto|]. split; [discriminate|]. intros Hf. destruct (Hcl1 Hf) as [[o H] _]. discriminate.
Qed.

(* the dictionary truncation: declared leading bytes of a fixed-size numeric entry, everything otherwise *)
Lemma expected_upload_plain st odt v :
  (odt = None \/ exists t, odt = Some t /\ od_var_size t = None) -> expected_upload st odt v = wire_value st v.
Proof. unfold expected_upload, truncate. intros [->|(t & -> & ->)]; reflexivity. Qed.

Lemma firstn_pad_to_le n k (l : list Z) : (k <= length l)%nat -> firstn k (pad_to n l) = firstn k l.
Proof. intros H. unfold pad_to. rewrite firstn_app. replace (k - length l)%nat with 0%nat by lia. cbn. apply app_nil_r. Qed.

Lemma expected_upload_numeric st t k v : od_var_size t = Some k -> 0 <= k <= zlen v ->
  expected_upload st (Some t) v = firstn (Z.to_nat k) v.
Proof.
  intros Hk Hkv. unfold expected_upload, truncate. rewrite Hk. unfold wire_value, size_indicated.
  assert (Hall : k = zlen v -> firstn (Z.to_nat k) v = v) by (intros ->; apply firstn_all2; unfold zlen; lia).
  destruct (st_expedite st && (1 <=? zlen v) && (zlen v <=? 4)) eqn:Ee; cbn [andb].
  - destruct (st_exp_size st); cbn [negb].
    + destruct (k <? zlen v) eqn:E; [reflexivity|]. symmetry. apply Hall. lia.
    + apply firstn_pad_to_le. unfold zlen in Hkv. lia.
  - rewrite andb_false_l || idtac. destruct (st_size_ind st).
    + destruct (k <? zlen v) eqn:E; [reflexivity|]. symmetry. apply Hall. lia.
    + reflexivity.
Qed.

(* ================================================================== buffered reads (undisturbed) *)
(* R = the bytes the stream has still to hand out *)
Definition rem_inv (rf : nat) (s : sst) (st : rstream) (R : list Z) : Prop :=
  (rs_pending st = [] /\ rs_done st = false /\ rs_exp st = Some R) \/
  (rs_done st = true /\ R = rs_pending st) \/
  (exists mux rest t segs, ul_inv s (set_pending [] st) mux rest t segs /\ R = rs_pending st ++ rest /\
                           (length segs < rf)%nat).

Lemma set_pending_id st : rs_pending st = [] -> set_pending [] st = st.
Proof. destruct st; cbn. intros ->. reflexivity. Qed.

Definition same_srv (s s' : sst) : Prop :=
  s_store s' = s_store s /\ s_viol s' = s_viol s /\ s_style s' = s_style s.

Lemma read_step rf (w : cworld) st R :
  net_wf (w_s w) -> n_fault (w_s w) = None -> rem_inv rf (n_srv (w_s w)) st R ->
  exists w' st' d R', rs_read net_step rf w st = (w', st', Ok d) /\ R = d ++ R' /\
    rs_pending st' = [] /\ rem_inv rf (n_srv (w_s w')) st' R' /\ net_wf (w_s w') /\ n_fault (w_s w') = None /\
    same_srv (n_srv (w_s w)) (n_srv (w_s w')) /\ (R <> [] -> d <> []).
Proof.
  intros Hwf Hf Hinv.
  assert (Hsame : same_srv (n_srv (w_s w)) (n_srv (w_s w))) by (unfold same_srv; auto).
  destruct (rs_pending st) as [|p0 p] eqn:Ep.
  - destruct Hinv as [(_ & Hd & He)|[(Hd & HR)|(mux & rest & t & segs & Hi & HR & Hrf)]].
    + exists w, {| rs_done := true; rs_toggle := rs_toggle st; rs_pos := rs_pos st; rs_size := rs_size st;
                   rs_exp := rs_exp st; rs_pending := rs_pending st |}, R, [].
      split. { destruct rf; cbn [rs_read]; rewrite Ep, Hd, He; reflexivity. }
      rewrite app_nil_r. cbn [rs_pending].
      split; [reflexivity|]. split; [auto|]. split; [right; left; cbn; auto|]. auto.
    + exists w, st, [], []. rewrite rs_read_done by auto. subst R. rewrite Ep.
      split; [reflexivity|]. split; [reflexivity|]. split; [auto|]. split; [right; left; auto|].
      split; [auto|]. split; [auto|]. split; [auto|]. intros H; congruence.
    + rewrite set_pending_id in Hi by auto. rewrite Ep in HR. cbn [app] in HR. subst R.
      pose proof (rs_read_spec rf w st mux rest t segs Hwf Hi) as H. rewrite Hf in H. specialize (H I Hrf).
      destruct (rs_read net_step rf w st) as [[w1 st1] r1]. destruct H as (Hwf1 & _ & Hok & Hcl).
      destruct (Hcl eq_refl) as [[d ->] Hf1]. destruct (Hok d eq_refl) as (A1 & A2 & A3 & A4 & A5 & A6 & rest' & Hr & Hcase).
      exists w1, st1, d, rest'.
      split; [reflexivity|]. split; [auto|]. split; [auto|]. split.
      { destruct Hcase as [(Hdn & -> & Hx)|(Hne & t' & segs' & Hi' & _ & Hl)].
        - right. left. rewrite A5. auto.
        - right. right. exists mux, rest', t', segs'. rewrite set_pending_id by auto. rewrite A5.
          split; [auto|]. split; [auto|lia]. }
      split; [auto|]. split; [auto|]. split; [unfold same_srv; auto|].
      intros Hne. destruct Hcase as [(Hdn & -> & Hx)|(Hne' & _)]; [|auto]. rewrite app_nil_r in Hr. congruence.
  - (* bytes left over from a readinto with a small buffer come first *)
    assert (Hrd : rs_read net_step rf w st = (w, set_pending [] st, Ok (p0 :: p))).
    { destruct rf; cbn [rs_read]; rewrite Ep; reflexivity. }
    destruct Hinv as [(Hp & _)|[(Hd & HR)|(mux & rest & t & segs & Hi & HR & Hrf)]]; [congruence| |].
    + exists w, (set_pending [] st), (p0 :: p), []. rewrite app_nil_r. rewrite Ep in HR.
      split; [auto|]. split; [auto|]. split; [reflexivity|]. split; [right; left; cbn; auto|].
      split; [auto|]. split; [auto|]. split; [auto|]. discriminate.
    + exists w, (set_pending [] st), (p0 :: p), rest. rewrite Ep in HR.
      split; [auto|]. split; [auto|]. split; [reflexivity|]. split.
      { right. right. exists mux, rest, t, segs. cbn. auto. }
      split; [auto|]. split; [auto|]. split; [auto|]. discriminate.
Qed.

Lemma rem_inv_set_pending rf s st p rest :
  rs_pending st = [] -> rem_inv rf s st rest -> rs_exp st = None \/ rs_done st = true ->
  rem_inv rf s (set_pending p st) (p ++ rest).
Proof.
  intros Hp Hinv Hne. destruct Hinv as [(_ & Hd & He)|[(Hd & HR)|(mux & r & t & segs & Hi & HR & Hrf)]].
  - destruct Hne as [H|H]; congruence.
  - right. left. cbn. rewrite HR, Hp, app_nil_r. auto.
  - right. right. exists mux, r, t, segs. cbn [rs_pending set_pending]. rewrite Hp in HR. cbn in HR. subst rest.
    split; [exact Hi|auto].
Qed.

Lemma readinto_step rf cap (w : cworld) st R :
  net_wf (w_s w) -> n_fault (w_s w) = None -> rem_inv rf (n_srv (w_s w)) st R ->
  exists w' st' d R', rs_readinto net_step rf cap w st = (w', st', Ok d) /\ R = d ++ R' /\
    rem_inv rf (n_srv (w_s w')) st' R' /\ net_wf (w_s w') /\ n_fault (w_s w') = None /\
    same_srv (n_srv (w_s w)) (n_srv (w_s w')) /\ (cap <> 0 -> R <> [] -> d <> []).
Proof.
  intros Hwf Hf Hinv. unfold rs_readinto.
  destruct (cap <? 0) eqn:Ecap.
  { destruct (read_step rf w st R Hwf Hf Hinv) as (w' & st' & d & R' & E & HR & _ & Hi & Hw & Hf' & Hs & Hne).
    exists w', st', d, R'. auto 10. }
  destruct (rs_pending st) as [|p0 p] eqn:Ep.
  - destruct (read_step rf w st R Hwf Hf Hinv) as (w' & st' & d & R' & E & HR & Hp' & Hi & Hw & Hf' & Hs & Hne).
    rewrite E. set (count := Z.to_nat (Z.min cap (zlen d))).
    exists w', (set_pending (skipn count d) st'), (firstn count d), (skipn count d ++ R').
    split; [reflexivity|]. split; [rewrite app_assoc, firstn_skipn; auto|]. split.
    { destruct (skipn count d) eqn:Esk.
      - cbn [app]. replace (set_pending [] st') with st' by (symmetry; apply set_pending_id; auto). auto.
      - rewrite <- Esk. apply rem_inv_set_pending; auto.
        (* the stream has moved past its expedited data *)
        destruct Hi as [(_ & Hd & He)|[(Hd & _)|(mux & r & t & segs & (_ & _ & He & _) & _)]]; auto.
        exfalso.
        (* an unread expedited stream cannot be the state after a read that returned data *)
        destruct Hinv as [(Hp0 & Hd0 & He0)|[(Hd0 & HR0)|(mux & r & t & segs & Hi0 & HR0 & Hrf)]].
        + destruct rf; cbn [rs_read] in E; rewrite Hp0, Hd0, He0 in E; cbn in E; injection E as _ <- _; cbn in Hd; discriminate.
        + rewrite rs_read_done in E by auto. injection E as _ <- <-. rewrite skipn_nil in Esk. discriminate.
        + rewrite set_pending_id in Hi0 by auto.
          pose proof (rs_read_spec rf w st mux r t segs Hwf Hi0) as H. rewrite Hf in H. specialize (H I Hrf).
          rewrite E in H. destruct H as (_ & _ & Hok & _). destruct (Hok d eq_refl) as (_ & _ & _ & A4 & _). congruence. }
    split; [auto|]. split; [auto|]. split; [auto|].
    intros Hc HRne. specialize (Hne HRne). unfold count. destruct d as [|x d]; [congruence|].
    unfold zlen. cbn [length]. destruct (Z.to_nat (Z.min cap (Z.of_nat (S (length d))))) eqn:En; [lia|]. discriminate.
  - set (count := Z.to_nat (Z.min cap (zlen (p0 :: p)))).
    exists w, (set_pending (skipn count (p0 :: p)) st), (firstn count (p0 :: p)).
    destruct Hinv as [(Hp & _)|[(Hd & HR)|(mux & rest & t & segs & Hi & HR & Hrf)]]; [congruence| |].
    + exists (skipn count (p0 :: p)). rewrite firstn_skipn. rewrite Ep in HR.
      split; [reflexivity|]. split; [auto|]. split; [right; left; cbn; auto|].
      split; [auto|]. split; [auto|]. split; [unfold same_srv; auto|].
      intros Hc _. unfold count, zlen. cbn [length]. destruct (Z.to_nat (Z.min cap (Z.of_nat (S (length p))))) eqn:En; [lia|]. discriminate.
    + exists (skipn count (p0 :: p) ++ rest). rewrite Ep in HR.
      split; [reflexivity|]. split; [rewrite app_assoc, firstn_skipn; auto|]. split.
      { right. right. exists mux, rest, t, segs. cbn. auto. }
      split; [auto|]. split; [auto|]. split; [unfold same_srv; auto|].
      intros Hc _. unfold count, zlen. cbn [length]. destruct (Z.to_nat (Z.min cap (Z.of_nat (S (length p))))) eqn:En; [lia|]. discriminate.
Qed.

Lemma read_caps_spec rf : forall caps (w : cworld) st R acc,
  net_wf (w_s w) -> n_fault (w_s w) = None -> rem_inv rf (n_srv (w_s w)) st R ->
  exists w' st' out R', read_caps net_step rf caps w st acc = (w', st', Ok (acc ++ out)) /\ R = out ++ R' /\
    net_wf (w_s w') /\ n_fault (w_s w') = None /\ same_srv (n_srv (w_s w)) (n_srv (w_s w')) /\
    (Nat.min (length R) (active_caps caps) <= length out)%nat.
Proof.
  induction caps as [|cap caps IH]; intros w st R acc Hwf Hf Hinv.
  - exists w, st, [], R. cbn [read_caps app]. rewrite app_nil_r. unfold same_srv, active_caps. cbn [filter length].
    split; [reflexivity|]. split; [reflexivity|]. split; [auto|]. split; [auto|]. split; [auto|]. lia.
  - cbn [read_caps].
    destruct (readinto_step rf cap w st R Hwf Hf Hinv) as (w1 & st1 & d & R1 & E & HR & Hi1 & Hwf1 & Hf1 & Hs1 & Hne).
    rewrite E.
    destruct (IH w1 st1 R1 (acc ++ d) Hwf1 Hf1 Hi1) as (w2 & st2 & out & R2 & E2 & HR2 & Hwf2 & Hf2 & Hs2 & Hlen).
    exists w2, st2, (d ++ out), R2. rewrite E2, <- app_assoc.
    split; [reflexivity|]. split; [subst R R1; rewrite app_assoc; reflexivity|].
    split; [auto|]. split; [auto|]. split.
    { unfold same_srv in *. destruct Hs1 as (A & B & C), Hs2 as (A' & B' & C'). rewrite A', B', C'. auto. }
    unfold active_caps in *. cbn [filter]. subst R. rewrite !app_length in *.
    destruct (cap =? 0) eqn:Ec; cbn [negb length].
    + lia.
    + destruct (Nat.eq_dec (length (d ++ R1)) 0) as [H0|H0].
      * rewrite app_length in H0. lia.
      * assert (d <> []). { apply Hne; [lia|]. intros H. rewrite H in H0. cbn in H0. lia. }
        destruct d; [congruence|]. cbn [length] in *. lia.
Qed.

Lemma open_read_spec fuel caps (w : cworld) idx sub v :
  net_wf (w_s w) -> n_fault (w_s w) = None -> mux_ok idx sub -> store_get idx sub (n_srv (w_s w)) = Some v ->
  zlen v < 2 ^ 32 -> (length (st_segs (s_style (n_srv (w_s w)))) < fuel)%nat ->
  exists w' out rest, open_read net_step fuel caps w idx sub = (w', Ok out) /\
    wire_value (s_style (n_srv (w_s w))) v = out ++ rest /\
    (Nat.min (length (wire_value (s_style (n_srv (w_s w))) v)) (active_caps caps) <= length out)%nat /\
    net_wf (w_s w') /\ n_fault (w_s w') = None /\ same_srv (n_srv (w_s w)) (n_srv (w_s w')).
Proof.
  intros Hwf Hf Hm Hg Hv Hfuel. unfold open_read.
  pose proof (rs_init_spec w idx sub v Hwf Hm Hg Hv) as Hi. rewrite Hf in Hi. specialize (Hi I).
  destruct (rs_init net_step w idx sub) as [[w0 st0] r0]. destruct Hi as (Hwf0 & _ & Hok0 & Hcl0).
  rewrite (Hcl0 eq_refl) in *. destruct (Hok0 eq_refl) as (Hst0 & Hs0 & Hf0). cbn in Hf0.
  set (sty := s_style (n_srv (w_s w))) in *.
  assert (Hinv : rem_inv fuel (n_srv (w_s w0)) st0 (wire_value sty v)).
  { subst st0. unfold init_state, wire_value. rewrite Hs0. unfold ul_init_srv. fold sty.
    destruct (st_expedite sty && (1 <=? zlen v) && (zlen v <=? 4)) eqn:Ee; cbn [andb].
    - left. destruct (st_exp_size sty); cbn; auto.
    - right. right. exists (mux_bytes idx sub), v, false, (st_segs sty).
      split; [unfold ul_inv; cbn; auto|]. split; [reflexivity|exact Hfuel]. }
  destruct (read_caps_spec fuel caps w0 st0 _ [] Hwf0 Hf0 Hinv) as (w1 & st1 & out & R' & E & HR & Hwf1 & Hf1 & Hs1 & Hlen).
  rewrite E. exists w1, out, R'. cbn [app].
  split; [reflexivity|]. split; [auto|]. split; [auto|]. split; [auto|]. split; [auto|].
  unfold same_srv in *. rewrite Hs0 in Hs1. unfold ul_init_srv in Hs1.
  destruct (st_expedite (s_style (n_srv (w_s w))) && (1 <=? zlen v) && (zlen v <=? 4)); cbn in Hs1; exact Hs1.
Qed.

(* ================================================================== properties kept by every exchange *)
Definition rr_closed (P : cworld -> Prop) : Prop := forall w req, P w -> P (fst (rr w req)).

Ltac rr_step HP :=
  match goal with
  | |- context [request_response net_step ?w ?req] =>
      let w1 := fresh "w1" in let r1 := fresh "r1" in let E := fresh "E" in
      let H := fresh "Hrr" in
      pose proof (HP w req) as H; destruct (request_response net_step w req) as [w1 r1] eqn:E; cbn [fst] in H
  end.

Section Closed.
  Context (P : cworld -> Prop) (HP : rr_closed P).

  Lemma ws_init_closed w idx sub size force : P w -> P (fst (fst (ws_init net_step w idx sub size force))).
  Proof.
    intros Hw. unfold ws_init.
    repeat match goal with
           | |- context [if ?c then _ else _] => destruct c
           | |- context [match ?x with None => _ | Some _ => _ end] => destruct x
           | |- context [match pack_sdo ?a ?b ?c with _ => _ end] => destruct (pack_sdo a b c)
           end; cbn [fst]; auto;
    try (rr_step HP; destruct r1; repeat match goal with |- context [if ?c then _ else _] => destruct c end; cbn [fst]; auto).
  Qed.

  Lemma ws_write_closed w st b : P w -> P (fst (fst (ws_write net_step w st b))).
  Proof.
    intros Hw. unfold ws_write.
    destruct (ws_done st); [auto|]. destruct (ws_exp st).
    - destruct (zlen b <? _); [auto|]. destruct (4 <? zlen b); [auto|].
      rr_step HP. destruct r1; repeat match goal with |- context [if ?c then _ else _] => destruct c end; cbn [fst]; auto.
    - rr_step HP. destruct r1; repeat match goal with |- context [if ?c then _ else _] => destruct c end; cbn [fst]; auto.
  Qed.

  Lemma ws_close_closed w st : P w -> P (fst (fst (ws_close net_step w st))).
  Proof.
    intros Hw. unfold ws_close. destruct (negb (ws_done st) && _); [|auto].
    rr_step HP. destruct r1; cbn [fst]; auto.
  Qed.

  Lemma write_sched_closed sched : forall w st data, P w -> P (fst (fst (write_sched net_step w st data sched))).
  Proof.
    induction sched as [|k ks IH]; intros w st data Hw; cbn [write_sched]; [auto|].
    pose proof (ws_write_closed w st (firstn (Z.to_nat k) data) Hw) as H.
    destruct (ws_write net_step w st (firstn (Z.to_nat k) data)) as [[w1 st1] r1]. cbn [fst] in H.
    destruct r1; cbn [fst]; auto.
  Qed.

  Lemma with_write_closed w idx sub size force data sched :
    P w -> P (fst (with_write net_step w idx sub size force data sched)).
  Proof.
    intros Hw. unfold with_write.
    pose proof (ws_init_closed w idx sub size force Hw) as H0.
    destruct (ws_init net_step w idx sub size force) as [[w0 st0] r0]. cbn [fst] in H0.
    destruct r0.
    - pose proof (write_sched_closed sched w0 st0 data H0) as H1.
      destruct (write_sched net_step w0 st0 data sched) as [[w1 st1] r1]. cbn [fst] in H1.
      pose proof (ws_close_closed w1 st1 H1) as H2.
      destruct (ws_close net_step w1 st1) as [[w2 st2] r2]. cbn [fst] in *. auto.
    - pose proof (ws_close_closed w0 st0 H0) as H2.
      destruct (ws_close net_step w0 st0) as [[w2 st2] r2]. cbn [fst] in *. auto.
    - pose proof (ws_close_closed w0 st0 H0) as H2.
      destruct (ws_close net_step w0 st0) as [[w2 st2] r2]. cbn [fst] in *. auto.
  Qed.

  Lemma rs_init_closed w idx sub : P w -> P (fst (fst (rs_init net_step w idx sub))).
  Proof.
    intros Hw. unfold rs_init. destruct (pack_sdo _ idx sub); cbn [fst]; auto.
    rr_step HP. destruct r1; repeat match goal with |- context [if ?c then _ else _] => destruct c end; cbn [fst]; auto.
  Qed.

  Lemma rs_read_closed fuel : forall w st, P w -> P (fst (fst (rs_read net_step fuel w st))).
  Proof.
    induction fuel as [|fuel IH]; intros w st Hw; cbn [rs_read].
    - destruct (negb _); [auto|]. destruct (rs_done st); [auto|]. destruct (rs_exp st); auto.
    - destruct (negb _); [auto|]. destruct (rs_done st); [auto|]. destruct (rs_exp st); [auto|].
      rr_step HP. destruct r1; cbn [fst]; auto.
      repeat match goal with |- context [if ?c then _ else _] => destruct c end; cbn [fst]; auto.
  Qed.

  Lemma readall_closed rf fuel : forall w st acc, P w -> P (fst (fst (readall net_step rf fuel w st acc))).
  Proof.
    induction fuel as [|fuel IH]; intros w st acc Hw; cbn [readall]; [auto|].
    pose proof (rs_read_closed rf w st Hw) as H.
    destruct (rs_read net_step rf w st) as [[w1 st1] r1]. cbn [fst] in H.
    destruct r1 as [[|x d]| |]; cbn [fst]; auto.
  Qed.

  Lemma read_whole_closed fuel w idx sub : P w -> P (fst (fst (read_whole net_step fuel w idx sub))).
  Proof.
    intros Hw. unfold read_whole.
    pose proof (rs_init_closed w idx sub Hw) as H0.
    destruct (rs_init net_step w idx sub) as [[w0 st0] r0]. cbn [fst] in H0.
    destruct r0; cbn [fst]; auto. destruct (rs_exp st0); cbn [fst]; auto.
    pose proof (readall_closed fuel fuel w0 st0 [] H0) as H1.
    destruct (readall net_step fuel fuel w0 st0 []) as [[w1 st1] r1]. cbn [fst] in *. auto.
  Qed.

  Lemma sdo_upload_closed fuel w idx sub odt : P w -> P (fst (sdo_upload net_step fuel w idx sub odt)).
  Proof.
    intros Hw. unfold sdo_upload.
    pose proof (read_whole_closed fuel w idx sub Hw) as H.
    destruct (read_whole net_step fuel w idx sub) as [[w1 size] r1]. cbn [fst] in H.
    destruct r1; cbn [fst]; auto.
  Qed.
End Closed.

(* ================================================================== a lost response is followed by the time-out abort *)
Lemma lost_seen_closed f : lost_like f -> rr_closed (lost_seen f).
Proof.
  intros Hl w req Hw. pose proof (rr_spec w req) as H.
  destruct (net_step (w_s w) req) as [n1 rs] eqn:En.
  destruct rs as [|r q].
  - destruct (net_step n1 (abort_frame TIMEOUT_ABORT)) as [n2 rs2].
    destruct H as (w' & E & _ & _ & Hlog). rewrite E. cbn [fst]. right. rewrite Hlog.
    apply in_or_app. right. left. reflexivity.
  - destruct H as (w' & E & Hs & _ & Hlog). rewrite E. cbn [fst].
    destruct Hw as [[j Hj]|Hin].
    + unfold net_step in En. rewrite Hj in En. destruct (ref_step (n_srv (w_s w)) req) as [s' o].
      destruct j as [|j].
      * exfalso. destruct f as [| |frs|m|m| |fr|]; cbn in Hl; try contradiction; try discriminate.
        destruct frs; [|contradiction]. discriminate.
      * injection En as <- _. left. exists j. rewrite Hs. reflexivity.
    + right. rewrite Hlog. apply in_or_app. right. right. exact Hin.
Qed.

(* ================================================================== buffered writes: replayed raw calls *)
Lemma replay_err_sticky : forall ops (w : cworld) st data (r : res unit),
  r <> Ok tt -> snd (replay_ops net_step w st data ops r) <> Ok tt.
Proof.
  induction ops as [|k ks IH]; intros w st data r Hr; cbn [replay_ops]; [exact Hr|].
  destruct (k <? 0).
  - destruct (ws_close net_step w st) as [[w1 st1] r1]. apply IH. destruct r1 as [[]| |]; [exact Hr|discriminate|discriminate].
  - destruct (ws_write net_step w st (firstn (Z.to_nat k) data)) as [[w1 st1] r1].
    destruct r1; apply IH; [exact Hr|discriminate|discriminate].
Qed.

(* when nothing fails the replayed calls are those of the with-block: writes, then close *)
Lemma replay_ok_iff : forall sched (w : cworld) st data w',
  Forall (fun k => 0 <= k) sched ->
  (replay_ops net_step w st data (sched ++ [-1]) (Ok tt) = (w', Ok tt) <->
   (let '(w1, st1, r1) := write_sched net_step w st data sched in
    let '(w2, _, r2) := ws_close net_step w1 st1 in
    (w2, match r2 with Ok _ => r1 | _ => r2 end)) = (w', Ok tt)).
Proof.
  induction sched as [|k ks IH]; intros w st data w' Hk.
  - cbn [app replay_ops write_sched]. change (-1 <? 0) with true. cbn iota.
    destruct (ws_close net_step w st) as [[w1 st1] r1]. cbn [replay_ops].
    destruct r1 as [[]| |]; reflexivity.
  - inversion Hk as [|? ? Hk0 Hks]; subst. cbn [app replay_ops write_sched].
    replace (k <? 0) with false by lia.
    destruct (ws_write net_step w st (firstn (Z.to_nat k) data)) as [[w1 st1] r1].
    destruct r1 as [n|e|c].
    + apply IH; auto.
    + split.
      * intros H. exfalso. apply (replay_err_sticky (ks ++ [-1]) w1 st1 data (Err e)); [discriminate|].
        rewrite H. reflexivity.
      * destruct (ws_close net_step w1 st1) as [[w2 st2] r2]. destruct r2 as [[]| |]; intros H; discriminate.
    + split.
      * intros H. exfalso. apply (replay_err_sticky (ks ++ [-1]) w1 st1 data (Abort c)); [discriminate|].
        rewrite H. reflexivity.
      * destruct (ws_close net_step w1 st1) as [[w2 st2] r2]. destruct r2 as [[]| |]; intros H; discriminate.
Qed.

Lemma replay_write_ok_iff (w : cworld) idx sub size force data sched w' :
  Forall (fun k => 0 <= k) sched ->
  (replay_write net_step w idx sub size force data (sched ++ [-1]) = (w', Ok tt) <->
   with_write net_step w idx sub size force data sched = (w', Ok tt)).
Proof.
  intros Hk. unfold replay_write, with_write.
  destruct (ws_init net_step w idx sub size force) as [[w0 st0] r0].
  destruct r0 as [[]|e|c].
  - apply replay_ok_iff; auto.
  - destruct (ws_close net_step w0 st0) as [[w1 st1] r1]. split; intros H; discriminate.
  - destruct (ws_close net_step w0 st0) as [[w1 st1] r1]. split; intros H; discriminate.
Qed.

Lemma valid_sched_nonneg exp sched len : valid_sched exp sched len -> 0 <= len -> Forall (fun k => 0 <= k) sched.
Proof.
  unfold valid_sched. destruct exp.
  - intros -> H. constructor; auto.
  - revert len. induction sched as [|k ks IH]; intros len Hv Hl; [constructor|].
    cbn in Hv. destruct Hv as [Hk Hv]. constructor; [lia|]. apply (IH _ Hv). lia.
Qed.


(* ================================================================== transfers back to back *)
Lemma rs_init_missing (w : cworld) idx sub :
  n_fault (w_s w) = None -> mux_ok idx sub -> store_get idx sub (n_srv (w_s w)) = None ->
  exists w', rs_init net_step w idx sub = (w', rs_new, Abort 100794368) /\
             w_s w' = net_of (set_x XNone (n_srv (w_s w))).
Proof.
  intros Hf Hm Hg. rewrite rs_init_unfold by auto.
  destruct (rr_clean w _ _ _ Hf (ref_ul_init_missing (n_srv (w_s w)) idx sub Hm Hg)) as (w1 & E & Hs & _).
  rewrite E. exists w1. split; [|auto]. unfold mux_bytes. reflexivity.
Qed.

Lemma set_style_wf n sty : net_wf n -> n_fault n = None -> net_wf (arm None (with_srv (set_style sty) n)).
Proof. unfold net_wf. intros [H1 _] _. cbn. auto. Qed.

Lemma run_tcase_clean full (w : cworld) t :
  net_wf (w_s w) -> n_fault (w_s w) = None -> t_fault t = None ->
  xfer_ok (t_style t) (s_store (n_srv (w_s w))) (t_x t) ->
  exists w' o, run_tcase full w t = (w', o) /\
    obs_result o = snd (spec_xfer (t_style t) (s_store (n_srv (w_s w))) (t_x t)) /\
    net_wf (w_s w') /\ n_fault (w_s w') = None /\
    s_store (n_srv (w_s w')) = fst (spec_xfer (t_style t) (s_store (n_srv (w_s w))) (t_x t)) /\
    s_viol (n_srv (w_s w')) = s_viol (n_srv (w_s w)).
Proof.
  intros Hwf Hf Htf Hok. unfold run_tcase. rewrite Htf.
  set (w0 := {| w_s := arm None (with_srv (set_style (t_style t)) (w_s w)); w_q := w_q w ++ t_pre t; w_log := [] |}).
  assert (Hwf0 : net_wf (w_s w0)) by (apply set_style_wf; auto).
  assert (Hf0 : n_fault (w_s w0) = None) by reflexivity.
  assert (Hst0 : s_store (n_srv (w_s w0)) = s_store (n_srv (w_s w))) by reflexivity.
  assert (Hv0 : s_viol (n_srv (w_s w0)) = s_viol (n_srv (w_s w))) by reflexivity.
  assert (Hsty0 : s_style (n_srv (w_s w0)) = t_style t) by reflexivity.
  clearbody w0.
  assert (Harm : forall n, n_fault n = None -> arm None n = n) by (intros [nf ns]; cbn; intros ->; reflexivity).
  destruct (t_x t) as [idx sub data size force sched|idx sub data size force ops|idx sub odt mode|idx sub v];
    cbn [run_xfer xfer_ok spec_xfer fst snd] in *.
  2:{ destruct Hok as (Hm & Hl & Hsz & sched & -> & Hnn & Hv).
      pose proof (with_write_spec w0 idx sub data size force sched Hwf0 Hm Hl Hsz Hv) as H.
      destruct (with_write net_step w0 idx sub size force data sched) as [w1 r] eqn:Ew. destruct H as (Hwf1 & _ & Hok1 & Hcl1).
      destruct (Hcl1 Hf0) as [-> Hf1]. destruct (Hok1 eq_refl) as (A1 & A2 & A3 & A4).
      apply (replay_write_ok_iff w0 idx sub size force data sched w1 Hnn) in Ew. rewrite Ew.
      eexists _, _. split; [reflexivity|]. cbn [w_s obs_result res_val]. rewrite Harm by auto.
      split; [reflexivity|]. split; [auto|]. split; [auto|]. rewrite A1, A2, Hst0, Hv0. auto. }
  - destruct Hok as (Hm & Hl & Hsz & Hv).
    pose proof (with_write_spec w0 idx sub data size force sched Hwf0 Hm Hl Hsz Hv) as H.
    destruct (with_write net_step w0 idx sub size force data sched) as [w1 r]. destruct H as (Hwf1 & _ & Hok1 & Hcl1).
    destruct (Hcl1 Hf0) as [-> Hf1]. destruct (Hok1 eq_refl) as (A1 & A2 & A3 & A4).
    eexists _, _. split; [reflexivity|]. cbn [w_s obs_result res_val]. rewrite Harm by auto.
    split; [reflexivity|]. split; [auto|]. split; [auto|]. rewrite A1, A2, Hst0, Hv0. auto.
  - destruct Hok as (Hm & Hval). unfold store_get in *.
    destruct (zassoc (mux_key idx sub) (s_store (n_srv (w_s w)))) as [v|] eqn:Eg.
    + destruct Hval as (Hv & Hfu1 & Hfu2 & Hmode).
      assert (Hg : store_get idx sub (n_srv (w_s w0)) = Some v) by (unfold store_get; rewrite Hst0; auto).
      rewrite <- Hsty0 in Hfu1.
      destruct mode as [| |caps].
      * pose proof (sdo_upload_spec FUEL w0 idx sub (od_get_type odt sub) v Hwf0 Hm Hg Hv) as H. rewrite Hf0 in H.
        specialize (H I Hfu1 Hfu2).
        destruct (sdo_upload net_step FUEL w0 idx sub (od_get_type odt sub)) as [w1 r]. destruct H as (Hwf1 & _ & Hok1 & Hcl1).
        destruct (Hcl1 eq_refl) as [[out ->] Hf1]. destruct (Hok1 out eq_refl) as (-> & A1 & A2 & _).
        eexists _, _. split; [reflexivity|]. cbn [w_s obs_result res_val]. rewrite Harm by auto. rewrite Hsty0.
        split; [reflexivity|]. split; [auto|]. split; [auto|]. rewrite A1, A2, Hst0, Hv0. auto.
      * pose proof (read_whole_spec FUEL w0 idx sub v Hwf0 Hm Hg Hv) as H. rewrite Hf0 in H.
        specialize (H I Hfu1 Hfu2).
        destruct (read_whole net_step FUEL w0 idx sub) as [[w1 size] r]. destruct H as (Hwf1 & _ & Hok1 & Hcl1).
        destruct (Hcl1 eq_refl) as [[out ->] Hf1]. destruct (Hok1 out eq_refl) as (-> & _ & A1 & A2 & _).
        eexists _, _. split; [reflexivity|]. cbn [w_s obs_result res_val]. rewrite Harm by auto. rewrite Hsty0.
        split; [reflexivity|]. split; [auto|]. split; [auto|]. rewrite A1, A2, Hst0, Hv0. auto.
      * destruct (open_read_spec FUEL caps w0 idx sub v Hwf0 Hf0 Hm Hg Hv Hfu1)
          as (w1 & out & rest & E & Hw & Hlen & Hwf1 & Hf1 & (A1 & A2 & _)).
        rewrite E. rewrite Hsty0 in *.
        assert (Hout : out = wire_value (t_style t) v).
        { assert (length rest = 0)%nat by (rewrite Hw, app_length in *; lia).
          destruct rest; [|discriminate]. rewrite app_nil_r in Hw. auto. }
        eexists _, _. split; [reflexivity|]. cbn [w_s obs_result res_val]. rewrite Harm by auto. rewrite Hout.
        split; [reflexivity|]. split; [auto|]. split; [auto|]. rewrite A1, A2, Hst0, Hv0. auto.
    + assert (Hg : store_get idx sub (n_srv (w_s w0)) = None) by (unfold store_get; rewrite Hst0; auto).
      destruct (rs_init_missing w0 idx sub Hf0 Hm Hg) as (w1 & E & Hs1).
      assert (Hw1 : net_wf (w_s w1) /\ n_fault (w_s w1) = None /\ s_store (n_srv (w_s w1)) = s_store (n_srv (w_s w)) /\
                    s_viol (n_srv (w_s w1)) = s_viol (n_srv (w_s w))).
      { rewrite Hs1. cbn. rewrite Hst0, Hv0. unfold net_wf. cbn. auto. }
      destruct Hw1 as (Hwf1 & Hf1 & A1 & A2).
      destruct mode as [| |caps]; unfold sdo_upload, read_whole, open_read; rewrite E;
        (eexists _, _; split; [reflexivity|]; cbn [w_s obs_result res_val]; rewrite Harm by auto; auto).
  - destruct Hok as [Hi Hs].
    eexists _, _. split; [reflexivity|].
    unfold net_wf. cbn [w_s obs_result arm with_srv n_srv n_fault store_put s_store s_viol s_x].
    change [idx mod 256; idx / 256; sub] with (mux_bytes idx sub). rewrite mux_decode by (split; auto).
    rewrite Hst0, Hv0. destruct Hwf0 as [Hx _]. auto.
Qed.

Lemma run_tcases_clean full : forall ts (w : cworld),
  net_wf (w_s w) -> n_fault (w_s w) = None -> seq_ok (s_store (n_srv (w_s w))) ts ->
  exists w' os, run_tcases full w ts = (w', os) /\
    map obs_result os = snd (spec_seq (s_store (n_srv (w_s w))) ts) /\
    s_store (n_srv (w_s w')) = fst (spec_seq (s_store (n_srv (w_s w))) ts) /\
    s_viol (n_srv (w_s w')) = s_viol (n_srv (w_s w)) /\ net_wf (w_s w') /\ n_fault (w_s w') = None.
Proof.
  induction ts as [|t ts IH]; intros w Hwf Hf Hok.
  - exists w, []. cbn. auto 10.
  - cbn [seq_ok] in Hok. destruct Hok as (Htf & Hx & Hrest). cbn [run_tcases spec_seq].
    destruct (run_tcase_clean full w t Hwf Hf Htf Hx) as (w1 & o & E & Ho & Hwf1 & Hf1 & Hst1 & Hv1).
    rewrite E. rewrite <- Hst1 in Hrest.
    destruct (IH w1 Hwf1 Hf1 Hrest) as (w2 & os & E2 & Hos & Hst2 & Hv2 & Hwf2 & Hf2).
    rewrite E2. exists w2, (o :: os).
    destruct (spec_xfer (t_style t) (s_store (n_srv (w_s w))) (t_x t)) as [st1 v] eqn:Es. cbn [fst snd] in *.
    rewrite Hst1 in *. destruct (spec_seq st1 ts) as [st2 vs]. cbn [fst snd map] in *.
    split; [reflexivity|]. split; [rewrite Ho, Hos; reflexivity|]. split; [auto|]. split; [congruence|auto].
Qed.

(* ================================================================== the statements of Properties/C01.v, C07.v *)
Lemma store_get_put idx sub data (s s' : sst) :
  s_store s' = (mux_key idx sub, data) :: s_store s ->
  store_get idx sub s' = Some data /\
  (forall i j, mux_key i j <> mux_key idx sub -> store_get i j s' = store_get i j s).
Proof.
  intros H. unfold store_get. rewrite H. cbn [zassoc]. rewrite Z.eqb_refl. split; [reflexivity|].
  intros i j Hne. replace (mux_key i j =? mux_key idx sub) with false by lia. reflexivity.
Qed.

Lemma net_wf_init store : net_wf (w_s (init_world store)) /\ n_fault (w_s (init_world store)) = None.
Proof. unfold net_wf. cbn. auto. Qed.

Lemma download_delivers (w : cworld) idx sub data size force sched :
  net_wf (w_s w) -> n_fault (w_s w) = None ->
  mux_ok idx sub -> zlen data < 2 ^ 32 -> (size = None \/ size = Some (zlen data)) ->
  valid_sched (expedited size force) sched (zlen data) ->
  exists w', with_write net_step w idx sub size force data sched = (w', Ok tt) /\
    store_get idx sub (n_srv (w_s w')) = Some data /\
    (forall i j, mux_key i j <> mux_key idx sub -> store_get i j (n_srv (w_s w')) = store_get i j (n_srv (w_s w))) /\
    s_viol (n_srv (w_s w')) = s_viol (n_srv (w_s w)) /\
    s_x (n_srv (w_s w')) = XNone /\ net_wf (w_s w') /\ n_fault (w_s w') = None.
Proof.
  intros Hwf Hf Hm Hl Hsz Hv.
  pose proof (with_write_spec w idx sub data size force sched Hwf Hm Hl Hsz Hv) as H.
  destruct (with_write net_step w idx sub size force data sched) as [w' r]. destruct H as (Hwf' & _ & Hok & Hcl).
  destruct (Hcl Hf) as [-> Hf']. destruct (Hok eq_refl) as (A1 & A2 & A3 & A4).
  destruct (store_get_put idx sub data _ _ A1) as [B1 B2].
  exists w'. auto 10.
Qed.

Lemma download_api (w : cworld) idx sub data force sched :
  net_wf (w_s w) -> n_fault (w_s w) = None -> mux_ok idx sub -> zlen data < 2 ^ 32 ->
  valid_sched (expedited (Some (zlen data)) force) sched (zlen data) ->
  exists w', sdo_download net_step w idx sub data force sched = (w', Ok tt) /\
    store_get idx sub (n_srv (w_s w')) = Some data /\
    s_viol (n_srv (w_s w')) = s_viol (n_srv (w_s w)).
Proof.
  intros Hwf Hf Hm Hl Hv. unfold sdo_download.
  destruct (download_delivers w idx sub data (Some (zlen data)) force sched Hwf Hf Hm Hl (or_intror eq_refl) Hv)
    as (w' & E & A & _ & B & _). exists w'. auto.
Qed.

Lemma upload_returns (w : cworld) idx sub odt v :
  net_wf (w_s w) -> n_fault (w_s w) = None -> mux_ok idx sub ->
  store_get idx sub (n_srv (w_s w)) = Some v -> zlen v < 2 ^ 32 ->
  (length (st_segs (s_style (n_srv (w_s w)))) < FUEL)%nat -> (length v + 2 <= FUEL)%nat ->
  exists w', sdo_upload net_step FUEL w idx sub odt = (w', Ok (expected_upload (s_style (n_srv (w_s w))) odt v)) /\
    s_store (n_srv (w_s w')) = s_store (n_srv (w_s w)) /\ s_viol (n_srv (w_s w')) = s_viol (n_srv (w_s w)) /\
    s_x (n_srv (w_s w')) = XNone /\ net_wf (w_s w') /\ n_fault (w_s w') = None.
Proof.
  intros Hwf Hf Hm Hg Hv H1 H2.
  pose proof (sdo_upload_spec FUEL w idx sub odt v Hwf Hm Hg Hv) as H. rewrite Hf in H. specialize (H I H1 H2).
  destruct (sdo_upload net_step FUEL w idx sub odt) as [w' r]. destruct H as (Hwf' & _ & Hok & Hcl).
  destruct (Hcl eq_refl) as [[out ->] Hf']. destruct (Hok out eq_refl) as (-> & A1 & A2 & A3 & A4).
  exists w'. auto 10.
Qed.

Lemma array_member_declared ms t sub :
  zassoc 1 ms = Some (Some t) -> 0 < sub < 256 -> zassoc sub ms = None ->
  od_get_type (OArrT ms) sub = Some t.
Proof.
  intros H1 Hs Hn. unfold od_get_type. rewrite Hn, H1. replace ((0 <? sub) && (sub <? 256)) with true by lia. reflexivity.
Qed.

Lemma raw_read_returns (w : cworld) idx sub v :
  net_wf (w_s w) -> n_fault (w_s w) = None -> mux_ok idx sub ->
  store_get idx sub (n_srv (w_s w)) = Some v -> zlen v < 2 ^ 32 ->
  (length (st_segs (s_style (n_srv (w_s w)))) < FUEL)%nat -> (length v + 2 <= FUEL)%nat ->
  exists w' size, read_whole net_step FUEL w idx sub = (w', size, Ok (wire_value (s_style (n_srv (w_s w))) v)) /\
    s_viol (n_srv (w_s w')) = s_viol (n_srv (w_s w)) /\ n_fault (w_s w') = None.
Proof.
  intros Hwf Hf Hm Hg Hv H1 H2.
  pose proof (read_whole_spec FUEL w idx sub v Hwf Hm Hg Hv) as H. rewrite Hf in H. specialize (H I H1 H2).
  destruct (read_whole net_step FUEL w idx sub) as [[w' size] r]. destruct H as (Hwf' & _ & Hok & Hcl).
  destruct (Hcl eq_refl) as [[out ->] Hf']. destruct (Hok out eq_refl) as (-> & _ & A1 & A2 & _).
  exists w', size. auto.
Qed.

Lemma buffered_read_returns (w : cworld) idx sub v caps :
  net_wf (w_s w) -> n_fault (w_s w) = None -> mux_ok idx sub ->
  store_get idx sub (n_srv (w_s w)) = Some v -> zlen v < 2 ^ 32 ->
  (length (st_segs (s_style (n_srv (w_s w)))) < FUEL)%nat ->
  exists w' out rest, open_read net_step FUEL caps w idx sub = (w', Ok out) /\
    wire_value (s_style (n_srv (w_s w))) v = out ++ rest /\
    (Nat.min (length (wire_value (s_style (n_srv (w_s w))) v)) (active_caps caps) <= length out)%nat /\
    s_viol (n_srv (w_s w')) = s_viol (n_srv (w_s w)) /\ n_fault (w_s w') = None.
Proof.
  intros Hwf Hf Hm Hg Hv H1.
  destruct (open_read_spec FUEL caps w idx sub v Hwf Hf Hm Hg Hv H1) as (w' & out & rest & E & A & B & _ & C & (_ & D & _)).
  exists w', out, rest. auto.
Qed.

Lemma back_to_back full store ts : seq_ok store ts ->
  exists w' os, run_tcases full (init_world store) ts = (w', os) /\
    map obs_result os = snd (spec_seq store ts) /\
    s_store (n_srv (w_s w')) = fst (spec_seq store ts) /\ s_viol (n_srv (w_s w')) = [].
Proof.
  intros Hok. destruct (net_wf_init store) as [Hwf Hf].
  destruct (run_tcases_clean full ts (init_world store) Hwf Hf Hok) as (w' & os & E & A & B & C & _).
  exists w', os. auto.
Qed.

(* ---- a refused / unanswered initiation ends the transfer: close() of the discarded stream sends nothing ---- *)
Lemma ws_init_failed_done {S} (peer : S -> frame -> S * list frame) (w : @world S) idx sub size force w0 st0 r0 :
  ws_init peer w idx sub size force = (w0, st0, r0) -> sdo_error r0 -> ws_done st0 = true.
Proof.
  unfold ws_init. intros H Herr.
  assert (Hne : forall k, k <> E_SDOCOMM -> ~ @sdo_error unit (Err k)).
  { intros k Hk [H1|[c H1]]; [inversion H1; contradiction|discriminate]. }
  repeat match type of H with
         | context [if ?c then _ else _] => destruct c eqn:?
         | context [match ?x with None => _ | Some _ => _ end] => destruct x eqn:?
         | context [match pack_sdo ?a ?b ?c with _ => _ end] => destruct (pack_sdo a b c) eqn:?
         | context [let '(_, _) := request_response ?p ?w ?r in _] => destruct (request_response p w r) as [? [?|?|?]] eqn:?
         end;
    try (injection H as <- <- <-); try reflexivity;
    try (exfalso; destruct Herr as [He|[c He]]; discriminate);
    try (exfalso; unfold pack_sdo in *;
         repeat match goal with H : (if ?c then _ else _) = _ |- _ => destruct c; try discriminate end;
         match goal with H : _ = Err ?k |- _ => injection H as <- end;
         destruct Herr as [He|[c He]]; discriminate).
  all: try (exfalso; apply (Hne k); [lia|exact Herr]).
Qed.

Lemma failed_initiation_silent {S} (peer : S -> frame -> S * list frame) (w : @world S) idx sub size force data sched w0 st0 r0 :
  ws_init peer w idx sub size force = (w0, st0, r0) -> sdo_error r0 ->
  with_write peer w idx sub size force data sched = (w0, r0) /\
  forall ops, replay_write peer w idx sub size force data ops = (w0, r0).
Proof.
  intros Hi Herr. pose proof (ws_init_failed_done peer w idx sub size force w0 st0 r0 Hi Herr) as Hd.
  unfold with_write, replay_write. rewrite Hi.
  assert (Hc : ws_close peer w0 st0 = (w0, st0, Ok tt)) by (unfold ws_close; rewrite Hd; reflexivity).
  destruct r0 as [[]|k|c]; [destruct Herr as [H|[c H]]; discriminate| |]; rewrite Hc; auto.
Qed.

(* ---- C07 ---- *)
Definition disturb (w : cworld) (k : nat) (f : fault) (pre : list frame) : cworld :=
  {| w_s := arm (Some (k, f)) (w_s w); w_q := w_q w ++ pre; w_log := w_log w |}.

Lemma disturb_wf w k f pre : net_wf (w_s w) -> fault_wf f -> net_wf (w_s (disturb w k f pre)).
Proof. unfold net_wf. intros [H _] Hf. cbn. auto. Qed.

Lemma rclass_cases {A} (r : res A) : rclass r -> (exists a, r = Ok a) \/ sdo_error r.
Proof. auto. Qed.

Lemma disturbed_download (w : cworld) idx sub data size force sched k f pre :
  net_wf (w_s w) -> fault_wf f ->
  mux_ok idx sub -> zlen data < 2 ^ 32 -> (size = None \/ size = Some (zlen data)) ->
  valid_sched (expedited size force) sched (zlen data) ->
  let '(w', r) := with_write net_step (disturb w k f pre) idx sub size force data sched in
  (r = Ok tt /\ store_get idx sub (n_srv (w_s w')) = Some data) \/ sdo_error r.
Proof.
  intros Hwf Hff Hm Hl Hsz Hv.
  pose proof (with_write_spec (disturb w k f pre) idx sub data size force sched (disturb_wf w k f pre Hwf Hff) Hm Hl Hsz Hv) as H.
  destruct (with_write net_step (disturb w k f pre) idx sub size force data sched) as [w' r].
  destruct H as (_ & Hc & Hok & _). destruct Hc as [[[] ->]|He]; [left|right; auto].
  destruct (Hok eq_refl) as (A1 & _). split; [reflexivity|]. apply (store_get_put idx sub data _ _ A1).
Qed.

Lemma disturbed_upload (w : cworld) idx sub odt v k f pre :
  net_wf (w_s w) -> fault_wf f -> ul_fault_ok idx sub (Some (k, f)) ->
  mux_ok idx sub -> store_get idx sub (n_srv (w_s w)) = Some v -> zlen v < 2 ^ 32 ->
  (length (st_segs (s_style (n_srv (w_s w)))) < FUEL)%nat -> (length v + 2 <= FUEL)%nat ->
  let '(w', r) := sdo_upload net_step FUEL (disturb w k f pre) idx sub odt in
  r = Ok (expected_upload (s_style (n_srv (w_s w))) odt v) \/ sdo_error r.
Proof.
  intros Hwf Hff Hfo Hm Hg Hv H1 H2.
  pose proof (sdo_upload_spec FUEL (disturb w k f pre) idx sub odt v (disturb_wf w k f pre Hwf Hff) Hm Hg Hv Hfo H1 H2) as H.
  destruct (sdo_upload net_step FUEL (disturb w k f pre) idx sub odt) as [w' r].
  destruct H as (_ & Hc & Hok & _). destruct Hc as [[out ->]|He]; [left|right; auto].
  destruct (Hok out eq_refl) as (-> & _). reflexivity.
Qed.

Lemma disturbed_raw_read (w : cworld) idx sub v k f pre :
  net_wf (w_s w) -> fault_wf f -> ul_fault_ok idx sub (Some (k, f)) ->
  mux_ok idx sub -> store_get idx sub (n_srv (w_s w)) = Some v -> zlen v < 2 ^ 32 ->
  (length (st_segs (s_style (n_srv (w_s w)))) < FUEL)%nat -> (length v + 2 <= FUEL)%nat ->
  let '(w', _, r) := read_whole net_step FUEL (disturb w k f pre) idx sub in
  r = Ok (wire_value (s_style (n_srv (w_s w))) v) \/ sdo_error r.
Proof.
  intros Hwf Hff Hfo Hm Hg Hv H1 H2.
  pose proof (read_whole_spec FUEL (disturb w k f pre) idx sub v (disturb_wf w k f pre Hwf Hff) Hm Hg Hv Hfo H1 H2) as H.
  destruct (read_whole net_step FUEL (disturb w k f pre) idx sub) as [[w' size] r].
  destruct H as (_ & Hc & Hok & _). destruct Hc as [[out ->]|He]; [left|right; auto].
  destruct (Hok out eq_refl) as (-> & _). reflexivity.
Qed.

(* the mechanism, for every request of every transfer *)
Lemma lost_response_aborts_step (w : cworld) req n1 :
  net_step (w_s w) req = (n1, []) ->
  exists w' late, rr w req = (w', Err E_SDOCOMM) /\
    w_log w' = late ++ timeout_abort_frame :: (0 :: req) :: w_log w.
Proof.
  intros E. pose proof (rr_spec w req) as H. rewrite E in H.
  destruct (net_step n1 (abort_frame TIMEOUT_ABORT)) as [n2 rs2].
  destruct H as (w' & Hr & _ & _ & Hl). exists w', (rev (map (cons 1) rs2)). auto.
Qed.

Lemma disturb_lost_seen w k f pre : lost_seen f (disturb w k f pre).
Proof. left. exists k. reflexivity. Qed.

Lemma lost_response_aborts_download (w : cworld) idx sub data size force sched k f pre : lost_like f ->
  lost_seen f (fst (with_write net_step (disturb w k f pre) idx sub size force data sched)).
Proof. intros Hl. apply with_write_closed; [apply lost_seen_closed; auto|apply disturb_lost_seen]. Qed.

Lemma lost_response_aborts_upload (w : cworld) idx sub odt k f pre : lost_like f ->
  lost_seen f (fst (sdo_upload net_step FUEL (disturb w k f pre) idx sub odt)).
Proof. intros Hl. apply sdo_upload_closed; [apply lost_seen_closed; auto|apply disturb_lost_seen]. Qed.

(* after any disturbed transfer (whatever is left in the response queue, whatever the server was doing)
   the next undisturbed transfer is a correct one *)
Definition settle (w : cworld) (late : list frame) : cworld :=
  {| w_s := arm None (w_s w); w_q := w_q w ++ late; w_log := [] |}.

Lemma settle_wf w late : net_wf (w_s w) -> net_wf (w_s (settle w late)) /\ n_fault (w_s (settle w late)) = None.
Proof. unfold net_wf. intros [H _]. cbn. auto. Qed.

Lemma with_write_wf (w : cworld) idx sub size force data sched : net_wf (w_s w) ->
  net_wf (w_s (fst (with_write net_step w idx sub size force data sched))).
Proof.
  intros Hwf. apply (with_write_closed (fun w => net_wf (w_s w))); [|auto].
  intros w0 req H0. pose proof (rr_any w0 req H0) as H. destruct (rr w0 req) as [w1 r]. apply H.
Qed.

Lemma sdo_upload_wf (w : cworld) fuel idx sub odt : net_wf (w_s w) ->
  net_wf (w_s (fst (sdo_upload net_step fuel w idx sub odt))).
Proof.
  intros Hwf. apply (sdo_upload_closed (fun w => net_wf (w_s w))); [|auto].
  intros w0 req H0. pose proof (rr_any w0 req H0) as H. destruct (rr w0 req) as [w1 r]. apply H.
Qed.

Lemma next_download_clean_after_download (w : cworld) k f pre late idx1 sub1 data1 size1 force1 sched1
    idx sub data size force sched :
  net_wf (w_s w) -> fault_wf f ->
  mux_ok idx sub -> zlen data < 2 ^ 32 -> (size = None \/ size = Some (zlen data)) ->
  valid_sched (expedited size force) sched (zlen data) ->
  let w1 := settle (fst (with_write net_step (disturb w k f pre) idx1 sub1 size1 force1 data1 sched1)) late in
  exists w', with_write net_step w1 idx sub size force data sched = (w', Ok tt) /\
    store_get idx sub (n_srv (w_s w')) = Some data /\ s_viol (n_srv (w_s w')) = s_viol (n_srv (w_s w1)).
Proof.
  intros Hwf Hff Hm Hl Hsz Hv w1.
  destruct (settle_wf (fst (with_write net_step (disturb w k f pre) idx1 sub1 size1 force1 data1 sched1)) late
              (with_write_wf _ _ _ _ _ _ _ (disturb_wf w k f pre Hwf Hff))) as [Hwf1 Hf1].
  destruct (download_delivers w1 idx sub data size force sched Hwf1 Hf1 Hm Hl Hsz Hv) as (w' & E & A & _ & B & _).
  exists w'. auto.
Qed.

Lemma next_upload_clean_after_upload (w : cworld) k f pre late idx1 sub1 odt1 idx sub odt v :
  net_wf (w_s w) -> fault_wf f -> mux_ok idx sub ->
  let w1 := settle (fst (sdo_upload net_step FUEL (disturb w k f pre) idx1 sub1 odt1)) late in
  store_get idx sub (n_srv (w_s w1)) = Some v -> zlen v < 2 ^ 32 ->
  (length (st_segs (s_style (n_srv (w_s w1)))) < FUEL)%nat -> (length v + 2 <= FUEL)%nat ->
  exists w', sdo_upload net_step FUEL w1 idx sub odt = (w', Ok (expected_upload (s_style (n_srv (w_s w1))) odt v)) /\
    s_viol (n_srv (w_s w')) = s_viol (n_srv (w_s w1)).
Proof.
  intros Hwf Hff Hm w1 Hg Hv H1 H2.
  destruct (settle_wf (fst (sdo_upload net_step FUEL (disturb w k f pre) idx1 sub1 odt1)) late
              (sdo_upload_wf _ _ _ _ _ (disturb_wf w k f pre Hwf Hff))) as [Hwf1 Hf1].
  destruct (upload_returns w1 idx sub odt v Hwf1 Hf1 Hm Hg Hv H1 H2) as (w' & E & _ & A & _).
  exists w'. auto.
Qed.

(* the general form: from ANY well-formed state of client and server with no disturbance pending *)
Lemma next_transfer_clean_download (w : cworld) idx sub data size force sched :
  net_wf (w_s w) -> n_fault (w_s w) = None ->
  mux_ok idx sub -> zlen data < 2 ^ 32 -> (size = None \/ size = Some (zlen data)) ->
  valid_sched (expedited size force) sched (zlen data) ->
  exists w', with_write net_step w idx sub size force data sched = (w', Ok tt) /\
    store_get idx sub (n_srv (w_s w')) = Some data /\ s_viol (n_srv (w_s w')) = s_viol (n_srv (w_s w)).
Proof.
  intros Hwf Hf Hm Hl Hsz Hv.
  destruct (download_delivers w idx sub data size force sched Hwf Hf Hm Hl Hsz Hv) as (w' & E & A & _ & B & _).
  exists w'. auto.
Qed.

(* never success with other data, whatever the buffer re-offers after a failure: success means that
   no raw call failed, and then the raw calls were those of the with-block *)
Lemma disturbed_buffered_download (w : cworld) idx sub data size force sched k f pre :
  net_wf (w_s w) -> fault_wf f ->
  mux_ok idx sub -> zlen data < 2 ^ 32 -> (size = None \/ size = Some (zlen data)) ->
  valid_sched (expedited size force) sched (zlen data) ->
  let '(w', r) := replay_write net_step (disturb w k f pre) idx sub size force data (sched ++ [-1]) in
  r = Ok tt -> store_get idx sub (n_srv (w_s w')) = Some data.
Proof.
  intros Hwf Hff Hm Hl Hsz Hv.
  destruct (replay_write net_step (disturb w k f pre) idx sub size force data (sched ++ [-1])) as [w' r] eqn:E.
  intros ->. apply replay_write_ok_iff in E; [|apply (valid_sched_nonneg _ _ _ Hv (zlen_nonneg data))].
  pose proof (disturbed_download w idx sub data size force sched k f pre Hwf Hff Hm Hl Hsz Hv) as H.
  rewrite E in H. destruct H as [[_ H]|[H|[c H]]]; [auto|discriminate|discriminate].
Qed.
