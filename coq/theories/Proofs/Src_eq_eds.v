(* Tie (c): eds._signed_int_from_hex and eds._calc_bit_length as translated from the CURRENT source text
   (Gen/Src.v) equal the model of Model/Eds.v and the regenerated CALC_BIT_LENGTH table (C08). *)
From Coq Require Import ZArith List Bool Lia.
From CV Require Import Base.Tys Base.PyLib Gen.Tables Gen.SrcC08 Gen.EdsTables Model.Eds.
Import ListNotations.
Open Scope Z_scope.

Theorem src_signed_int_from_hex_eq t bits n : 1 <= bits -> int0 t = Some n ->
  signed_int_from_hex t bits = Some (src_signed_int_from_hex n bits).
Proof.
  intros Hb Hn. unfold signed_int_from_hex, src_signed_int_from_hex. rewrite Hn. cbv zeta.
  rewrite !Z.shiftl_1_l. reflexivity.
Qed.

(* the translated if-chain and the table evaluated from the running code agree on every data type 0..255 *)
Theorem src_calc_bit_length_eq : forall dt, 0 <= dt < 256 ->
  src_calc_bit_length dt = zassoc dt CALC_BIT_LENGTH.
Proof.
  intros dt H.
  assert (A : forallb (fun n => match src_calc_bit_length (Z.of_nat n), zassoc (Z.of_nat n) CALC_BIT_LENGTH with
                                | Some a, Some b => a =? b | None, None => true | _, _ => false end) (seq 0 256) = true)
    by (vm_compute; reflexivity).
  rewrite forallb_forall in A. specialize (A (Z.to_nat dt)). rewrite Z2Nat.id in A by lia.
  assert (In (Z.to_nat dt) (seq 0 256)) by (apply in_seq; lia). specialize (A H0).
  destruct (src_calc_bit_length dt), (zassoc dt CALC_BIT_LENGTH); try discriminate; try reflexivity.
  f_equal. lia.
Qed.
