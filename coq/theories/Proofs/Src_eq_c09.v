(* Tie (c) for C09: PdoMap.save and PdoMap.read as translated from the CURRENT source text (Gen/SrcC09.v)
   determine the model functions of Model/PdoCfg.v:
     src_save_values  -> the values of save_writes (COB-ID word first / last, parameters, mapping words, sub-indices)
     src_save_trace   -> the order of save_writes, the early return for cob_id None, the subscribe() call
     src_read_decode  -> the fields of the configuration read_cfg returns, which timers are read, subscribe()
     src_read_entry   -> one step of read_entries (decoding of a mapping word, the `if index and size` filter)
     src_raw_from     -> od_pick (DCF value, else default) / the SDO value *)
From Coq Require Import ZArith List Bool Lia.
From CV Require Import Base.Val Base.Bytes Base.Tys Base.PyLib Gen.PdoTables Gen.SrcC09 Model.StrictDevice Model.PdoCfg.
Import ListNotations.
Open Scope Z_scope.

Definition osome {A} (o : option A) : bool := match o with Some _ => true | None => false end.
Definition oget (o : option Z) : Z := match o with Some x => x | None => 0 end.
Definition oelse (o : option Z) (d : Z) : Z := match o with Some x => x | None => d end.

(* the mapping word of the last entry (d if there is none) *)
Definition last_entry_word (m : list entry) (d : Z) : Z := fold_left (fun _ e => entry_word e) m d.

Lemma last_entry_word_app m e d : last_entry_word (m ++ [e]) d = entry_word e.
Proof. unfold last_entry_word. now rewrite fold_left_app. Qed.

Lemma fold_words (f : Z * Z -> entry -> Z * Z) :
  (forall a k e, f (a, k) e = (entry_word e, k + 1)) ->
  forall m a k, fold_left f m (a, k) = (last_entry_word m a, k + zlen m).
Proof.
  intros H. unfold zlen, last_entry_word. induction m as [|e m IH]; intros a k; cbn [fold_left length].
  - f_equal. lia.
  - rewrite H, IH. f_equal. lia.
Qed.

Lemma fold_trace mp (f : list write * Z -> entry -> list write * Z) :
  (forall t k e, f (t, k) e = (t ++ [(mp, k, entry_word e)], k + 1)) ->
  forall m t k, fold_left f m (t, k) = (t ++ entry_writes mp k m, k + zlen m).
Proof.
  intros H. unfold zlen. induction m as [|e m IH]; intros t k; cbn [fold_left length entry_writes].
  - rewrite app_nil_r. f_equal. lia.
  - rewrite H, IH. rewrite <- app_assoc. cbn [app]. f_equal. lia.
Qed.

Lemma rtr_bit_src c : (if negb (c_rtr c) then RTR_NOT_ALLOWED else 0) = rtr_bit c.
Proof. unfold rtr_bit. destruct (c_rtr c); reflexivity. Qed.

(* ---- save(): every value written, expression by expression *)
Theorem src_save_values_eq : forall c cob w1 w2 w3 w5 w6 we wl,
  c_cob c = Some cob ->
  src_save_values false cob (c_rtr c) (c_enabled c)
    (osome (c_tt c)) (oget (c_tt c)) (osome (c_inhibit c)) (oget (c_inhibit c))
    (osome (c_event c)) (oget (c_event c)) (osome (c_sync c)) (oget (c_sync c))
    false (c_map c) w1 w2 w3 w5 w6 we wl =
  (Z.lor (Z.lor cob PDO_NOT_VALID) (rtr_bit c),
   oelse (c_tt c) w2, oelse (c_inhibit c) w3, oelse (c_event c) w5, oelse (c_sync c) w6,
   last_entry_word (c_map c) we, 1 + zlen (c_map c),
   if c_enabled c then Z.lor cob (rtr_bit c) else wl).
Proof.
  intros c cob w1 w2 w3 w5 w6 we wl _. unfold src_save_values.
  rewrite rtr_bit_src.
  assert (F : forall a k, fold_left (fun '(we_, subindex) var =>
              if false
              then (let we_ := Z.lor (Z.lor (fst (fst var)) (Z.shiftl (snd (fst var)) 16)) (Z.shiftl (snd var) 24) in
                    let subindex := Z.add subindex 1 in (we_, subindex))
              else (let we_ := Z.lor (Z.lor (Z.shiftl (fst (fst var)) 16) (Z.shiftl (snd (fst var)) 8)) (snd var) in
                    let subindex := Z.add subindex 1 in (we_, subindex))) (c_map c) (a, k) =
            (last_entry_word (c_map c) a, k + zlen (c_map c))).
  { apply fold_words. intros a k [[i s] l]. reflexivity. }
  destruct (c_tt c), (c_inhibit c), (c_event c), (c_sync c); cbn [osome oget oelse];
    rewrite F; destruct (c_enabled c); reflexivity.
Qed.

(* ---- save(): the order of the writes, the early return, the subscribe() call *)
Theorem src_save_trace_eq : forall com mp c cw,
  src_save_trace (negb (osome (c_cob c))) com mp
    (Z.lor (Z.lor (oget (c_cob c)) PDO_NOT_VALID) (rtr_bit c)) (oget (c_cob c)) (c_rtr c) (c_enabled c)
    (osome (c_tt c)) (oget (c_tt c)) (osome (c_inhibit c)) (oget (c_inhibit c))
    (osome (c_event c)) (oget (c_event c)) (osome (c_sync c)) (oget (c_sync c))
    false (c_map c) entry_word cw [] false =
  (save_writes com mp c, osome (c_cob c) && c_enabled c).
Proof.
  intros com mp c cw. unfold src_save_trace, save_writes.
  destruct (c_cob c) as [cob|]; cbn [osome oget negb andb]; [|reflexivity].
  rewrite rtr_bit_src.
  assert (F : forall t k, fold_left (fun '(tr_, subindex) var =>
              if false
              then (let tr_ := tr_ ++ [(mp, subindex, cw var)] in let subindex := Z.add subindex 1 in (tr_, subindex))
              else (let tr_ := tr_ ++ [(mp, subindex, entry_word var)] in let subindex := Z.add subindex 1 in (tr_, subindex)))
              (c_map c) (t, k) = (t ++ entry_writes mp k (c_map c), k + zlen (c_map c))).
  { apply fold_trace. intros t k e. reflexivity. }
  unfold param_writes, final_writes, zlen.
  destruct (c_tt c), (c_inhibit c), (c_event c), (c_sync c); cbn [osome oget opt_write app];
    rewrite F; destruct (c_enabled c); cbn [app];
    repeat (rewrite <- app_assoc; cbn [app]); reflexivity.
Qed.

(* ---- read(): decoding of the communication parameters, which timers are read, subscribe() *)
Definition after_try (r : res (option Z)) (prev : option Z) : option Z :=
  match r with Ok o => o | _ => prev end.

Theorem src_read_decode_eq : forall get objs com mp old subs raw1 raw2 c' s',
  get com 1 = Ok (Some raw1) -> get com 2 = Ok (Some raw2) ->
  read_cfg get objs com mp old subs = Ok (c', s') ->
  let '(cob, en, rtr, ty, inh, ev, sy, sub) :=
    src_read_decode raw1 raw2 0
      (after_try (get com 3) (c_inhibit old)) (after_try (get com 5) (c_event old)) (after_try (get com 6) (c_sync old))
      (c_inhibit old) (c_event old) (c_sync old) false in
  c_cob c' = Some cob /\ c_enabled c' = en /\ c_rtr c' = rtr /\ c_tt c' = Some ty /\
  c_inhibit c' = inh /\ c_event c' = ev /\ c_sync c' = sy /\
  s' = (if sub then subscribe c' subs else subs).
Proof.
  intros get objs com mp old subs raw1 raw2 c' s' G1 G2 H.
  unfold read_cfg in H. rewrite G1, G2 in H. cbn [rbind need_int] in H.
  unfold src_read_decode. change (Z.geb raw2 254) with (raw2 >=? 254).
  assert (T : forall k prev o, read_opt get com k prev = Ok o -> o = after_try (get com k) prev).
  { intros k prev o. unfold read_opt, after_try. destruct (get com k) as [x|e|a].
    - now intros [= ->].
    - destruct (e =? E_KEY); [now intros [= ->]|discriminate].
    - now intros [= ->]. }
  destruct (raw2 >=? 254).
  - destruct (read_opt get com 3 (c_inhibit old)) as [o3| |] eqn:E3; cbn [rbind] in H; try discriminate.
    destruct (read_opt get com 5 (c_event old)) as [o5| |] eqn:E5; cbn [rbind] in H; try discriminate.
    destruct (read_opt get com 6 (c_sync old)) as [o6| |] eqn:E6; cbn [rbind] in H; try discriminate.
    apply T in E3, E5, E6. subst o3 o5 o6.
    destruct (get mp 0) as [[n|]| |]; cbn [rbind need_int] in H; try discriminate.
    destruct (read_entries get objs mp 1 (Z.to_nat n) []) as [m| |]; cbn [rbind] in H; try discriminate.
    inversion H; subst c' s'. cbn [c_cob c_enabled c_rtr c_tt c_inhibit c_event c_sync]. repeat split; reflexivity.
  - cbn [rbind] in H.
    destruct (get mp 0) as [[n|]| |]; cbn [rbind need_int] in H; try discriminate.
    destruct (read_entries get objs mp 1 (Z.to_nat n) []) as [m| |]; cbn [rbind] in H; try discriminate.
    inversion H; subst c' s'. cbn [c_cob c_enabled c_rtr c_tt c_inhibit c_event c_sync]. repeat split; reflexivity.
Qed.

(* ---- read(): one pass of the entry loop *)
Theorem src_read_entry_eq : forall get objs mp k f m v,
  get mp k = Ok (Some v) ->
  read_entries get objs mp k (S f) m =
  read_entries get objs mp (k + 1) f
    (match src_read_entry v false None with
     | Some (index, subindex, size) => add_variable objs m index subindex (Some size)
     | None => m
     end).
Proof.
  intros get objs mp k f m v G. cbn [read_entries]. rewrite G. cbn [rbind need_int].
  unfold src_read_entry. change 0xFF with 255. change 0x7F with 127.
  destruct (Z.shiftr v 16 =? 0); destruct (Z.land v 127 =? 0); reflexivity.
Qed.

(* ---- read(): where a raw value comes from *)
Theorem src_raw_from_eq : forall v d raw,
  src_raw_from true v d raw = od_pick v d /\ src_raw_from false v d raw = raw.
Proof. intros [x|] d raw; split; reflexivity. Qed.
