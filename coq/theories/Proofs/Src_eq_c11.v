(* Tie (c): NmtMaster.on_heartbeat as translated from the CURRENT source text (Gen/SrcC11.v) equals the model (C11). *)
From Coq Require Import ZArith List Bool Lia.
From CV Require Import Base.Val Base.Tys Base.PyLib Gen.SrcC11 Model.Nmt.
Import ListNotations.
Open Scope Z_scope.

Theorem src_nmt_heartbeat_eq m b rest :
  on_heartbeat m (b :: rest) =
  Ok ((fst (src_nmt_heartbeat b), Some (snd (src_nmt_heartbeat b))), snd (src_nmt_heartbeat b)).
Proof.
  unfold on_heartbeat, src_nmt_heartbeat, hb_state. cbv zeta.
  destruct (Z.land b 127 =? 0); reflexivity.
Qed.
