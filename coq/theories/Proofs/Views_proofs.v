(* Proofs about Model/Views.v (C20). *)
From Coq Require Import ZArith QArith Qabs List Bool Lia Lqa ZifyBool.
From CV Require Import Base.Val Base.Bytes Base.Bits Base.Tys Gen.Tables Model.Codec Model.Views
  Proofs.Codec_proofs.
Import ListNotations.
Open Scope Z_scope.
Ltac Zify.zify_post_hook ::= Z.to_euclidean_division_equations.

(* ------------------------------------------------------------------ small list facts *)
Lemma list_Z_eqb_eq a : forall b, list_Z_eqb a b = true <-> a = b.
Proof.
  induction a as [|x a IH]; intros [|y b]; cbn; split; intro H; try reflexivity; try discriminate.
  - apply andb_true_iff in H as [H1 H2]. apply Z.eqb_eq in H1. apply IH in H2. now subst.
  - inversion H; subst. rewrite Z.eqb_refl. cbn. now apply IH.
Qed.

Lemma list_Z_eqb_refl a : list_Z_eqb a a = true.
Proof. now apply list_Z_eqb_eq. Qed.

Lemma list_Z_eqb_neq a b : list_Z_eqb a b = false <-> a <> b.
Proof.
  split.
  - intros H E. subst. rewrite list_Z_eqb_refl in H. discriminate.
  - intros H. destruct (list_Z_eqb a b) eqn:E; [|reflexivity]. apply list_Z_eqb_eq in E. contradiction.
Qed.

Lemma zmem_In k l : zmem k l = true <-> In k l.
Proof.
  induction l as [|x l IH]; cbn; [split; [discriminate|tauto]|].
  destruct (k =? x) eqn:E.
  - split; [intros _; left; lia|reflexivity].
  - rewrite IH. split; [tauto|]. intros [H|H]; [lia|assumption].
Qed.

Lemma zmem_false k l : zmem k l = false <-> ~ In k l.
Proof.
  rewrite <- zmem_In. destruct (zmem k l); split; intro H; try reflexivity; try discriminate.
  exfalso. now apply H.
Qed.

(* ------------------------------------------------------------------ mask and minimum *)
Definition nonneg_bits (l : list Z) : Prop := Forall (fun b => 0 <= b) l.

Lemma mask_of_spec l : forall acc, nonneg_bits l ->
  exists m, mask_of l acc = Ok m /\
            forall i, 0 <= i -> Z.testbit m i = Z.testbit acc i || zmem i l.
Proof.
  induction l as [|b l IH]; intros acc H.
  - exists acc. split; [reflexivity|]. intros. cbn. now rewrite orb_false_r.
  - inversion H as [|? ? Hb Hl]; subst. cbn [mask_of].
    replace (b <? 0) with false by lia.
    destruct (IH (Z.lor acc (Z.shiftl 1 b)) Hl) as (m & Hm & Hs).
    exists m. split; [assumption|]. intros i Hi. rewrite Hs by assumption.
    rewrite Z.lor_spec, Z.shiftl_1_l, Z.pow2_bits_eqb by assumption. cbn [zmem].
    rewrite (Z.eqb_sym b i). destruct (i =? b); cbn; [now rewrite orb_true_r|now rewrite orb_false_r].
Qed.

Lemma mask_of_negative l : forall acc, ~ nonneg_bits l -> mask_of l acc = Err E_VALUE.
Proof.
  induction l as [|b l IH]; intros acc H.
  - exfalso. apply H. constructor.
  - cbn [mask_of]. destruct (b <? 0) eqn:E; [reflexivity|].
    apply IH. intro Hl. apply H. constructor; [cbn beta; lia|assumption].
Qed.

Lemma fold_min_spec l : forall x, let m := fold_left Z.min l x in
  (m = x \/ In m l) /\ m <= x /\ forall b, In b l -> m <= b.
Proof.
  induction l as [|y l IH]; intros x; cbn.
  - repeat split; [now left|lia|tauto].
  - destruct (IH (Z.min x y)) as (H1 & H2 & H3). repeat split.
    + destruct H1 as [H1|H1]; [|now right; right].
      destruct (Z.min_spec x y) as [[_ E]|[_ E]]; [left; lia|right; left; lia].
    + lia.
    + intros b [Hb|Hb]; [subst; lia|now apply H3].
Qed.

Lemma list_min_spec l : l <> [] -> exists m, list_min l = Ok m /\ In m l /\ forall b, In b l -> m <= b.
Proof.
  destruct l as [|x l]; [congruence|]. intros _. exists (fold_left Z.min l x).
  destruct (fold_min_spec l x) as (H1 & H2 & H3). split; [reflexivity|]. split.
  - destruct H1 as [H1|H1]; [left; now rewrite H1|now right].
  - intros b [Hb|Hb]; [subst; assumption|now apply H3].
Qed.

(* ------------------------------------------------------------------ encode / decode on any bit list *)
(* bit i of the result: the old bit unless i is listed, OR-ed with the value shifted by the
   smallest listed bit.  The value is NOT masked and NOT spread over the listed bits. *)
Lemma encode_bits_list_spec raw l v : nonneg_bits l -> l <> [] ->
  exists m r, list_min l = Ok m /\ In m l /\ (forall b, In b l -> m <= b) /\
    encode_bits_list raw l v = Ok r /\
    forall i, 0 <= i -> Z.testbit r i = (Z.testbit raw i && negb (zmem i l)) || Z.testbit v (i - m).
Proof.
  intros Hn Hne. destruct (mask_of_spec l 0 Hn) as (mask & Hm & Hs).
  destruct (list_min_spec l Hne) as (m & Hmin & Hin & Hle).
  exists m, (Z.lor (Z.land raw (Z.lnot mask)) (Z.shiftl v m)). repeat split; try assumption.
  - unfold encode_bits_list. rewrite Hm, Hmin. reflexivity.
  - intros i Hi. rewrite Z.lor_spec, Z.land_spec, Z.lnot_spec, Z.shiftl_spec, Hs by assumption.
    now rewrite Z.bits_0.
Qed.

Lemma decode_bits_list_spec raw l : nonneg_bits l -> l <> [] ->
  exists m d, list_min l = Ok m /\ decode_bits_list raw l = Ok d /\
    forall j, 0 <= j -> Z.testbit d j = Z.testbit raw (j + m) && zmem (j + m) l.
Proof.
  intros Hn Hne. destruct (mask_of_spec l 0 Hn) as (mask & Hm & Hs).
  destruct (list_min_spec l Hne) as (m & Hmin & Hin & Hle).
  assert (0 <= m) by (unfold nonneg_bits in Hn; rewrite Forall_forall in Hn; now apply Hn).
  exists m, (Z.shiftr (Z.land raw mask) m). repeat split; try assumption.
  - unfold decode_bits_list. rewrite Hm, Hmin. reflexivity.
  - intros j Hj. rewrite Z.shiftr_spec, Z.land_spec, Hs by lia. now rewrite Z.bits_0.
Qed.

(* a value has the shape of the list: every set bit of v, moved up by the smallest listed
   bit, is a listed bit *)
Definition fits (l : list Z) (m v : Z) : Prop :=
  0 <= v /\ forall j, 0 <= j -> Z.testbit v j = true -> In (j + m) l.

Lemma bits_general raw l v : nonneg_bits l -> l <> [] ->
  exists m r, list_min l = Ok m /\ encode_bits_list raw l v = Ok r /\
    (forall i, 0 <= i -> Z.testbit r i = (Z.testbit raw i && negb (zmem i l)) || Z.testbit v (i - m)) /\
    (fits l m v ->
       (forall i, 0 <= i -> Z.testbit r i = if zmem i l then Z.testbit v (i - m) else Z.testbit raw i) /\
       decode_bits_list r l = Ok v).
Proof.
  intros Hn Hne. destruct (encode_bits_list_spec raw l v Hn Hne) as (m & r & Hmin & Hin & Hle & He & Hs).
  assert (Hm0 : 0 <= m) by (unfold nonneg_bits in Hn; rewrite Forall_forall in Hn; now apply Hn).
  exists m, r. repeat split; try assumption.
  - intros i Hi. rewrite Hs by assumption. destruct H as [Hv Hf].
    destruct (zmem i l) eqn:Ez; cbn; [now rewrite andb_false_r|].
    rewrite andb_true_r. destruct (Z.testbit v (i - m)) eqn:Eb; [|now rewrite orb_false_r].
    exfalso. destruct (Z_lt_le_dec (i - m) 0) as [L|L]; [rewrite Z.testbit_neg_r in Eb by lia; discriminate|].
    specialize (Hf (i - m) L Eb). replace (i - m + m) with i in Hf by lia.
    apply zmem_In in Hf. congruence.
  - destruct H as [Hv Hf].
    destruct (decode_bits_list_spec r l Hn Hne) as (m' & d & Hmin' & Hd & Hds).
    rewrite Hmin in Hmin'. inversion Hmin'; subst m'. rewrite Hd. f_equal.
    apply Z.bits_inj'. intros j Hj. rewrite Hds, Hs by lia. replace (j + m - m) with j by lia.
    destruct (Z.testbit v j) eqn:Eb.
    + rewrite orb_true_r. cbn. apply zmem_In. now apply Hf.
    + rewrite orb_false_r. destruct (zmem (j + m) l); cbn; [now rewrite andb_false_r|now rewrite andb_false_r].
Qed.

(* the value leaks outside the listed bits when it does not have their shape *)
Lemma bits_leak_example :
  encode_bits_list 0 [0; 2] 2 = Ok 2 /\ zmem 1 [0; 2] = false /\ Z.testbit 2 1 = true.
Proof. vm_compute. repeat split; reflexivity. Qed.

(* ------------------------------------------------------------------ contiguous ranges *)
Definition covers (l : list Z) (lo hi : Z) : Prop := forall b, In b l <-> lo <= b <= hi.

Lemma covers_zmem l lo hi i : covers l lo hi -> zmem i l = (lo <=? i) && (i <=? hi).
Proof.
  intros H. destruct ((lo <=? i) && (i <=? hi)) eqn:E.
  - apply zmem_In, H. lia.
  - apply zmem_false. intro Hi. apply H in Hi. lia.
Qed.

Lemma covers_nonneg l lo hi : covers l lo hi -> 0 <= lo -> nonneg_bits l.
Proof. intros H Hlo. apply Forall_forall. intros b Hb. apply H in Hb. lia. Qed.

Lemma covers_nonempty l lo hi : covers l lo hi -> lo <= hi -> l <> [].
Proof. intros H Hl E. subst. assert (In lo []) by (apply H; lia). contradiction. Qed.

Lemma small_bits_high v n j : 0 <= v < 2 ^ n -> n <= j -> Z.testbit v j = false.
Proof.
  intros Hv Hj. destruct (Z.eq_dec v 0) as [->|Hne]; [apply Z.bits_0|].
  assert (0 <= n) by (destruct (Z_lt_le_dec n 0); [rewrite Z.pow_neg_r in Hv by lia; lia|lia]).
  apply Z.bits_above_log2; [lia|]. assert (Z.log2 v < n) by (apply Z.log2_lt_pow2; lia). lia.
Qed.

Lemma fits_contiguous l lo hi v : covers l lo hi -> 0 <= v < 2 ^ (hi - lo + 1) -> fits l lo v.
Proof.
  intros Hc Hv. split; [lia|]. intros j Hj Hb. apply Hc.
  destruct (Z_lt_le_dec j (hi - lo + 1)) as [L|L]; [lia|].
  rewrite (small_bits_high v (hi - lo + 1) j) in Hb by lia. discriminate.
Qed.

(* the central fact: on a list that covers lo..hi the code computes set_field / get_field *)
Lemma bits_contiguous raw l lo hi v : covers l lo hi -> 0 <= lo <= hi -> 0 <= v < 2 ^ (hi - lo + 1) ->
  let r := set_field raw lo (hi - lo + 1) v in
  encode_bits_list raw l v = Ok r /\
  (forall i, 0 <= i -> Z.testbit r i = if (lo <=? i) && (i <=? hi) then Z.testbit v (i - lo) else Z.testbit raw i) /\
  decode_bits_list r l = Ok v.
Proof.
  intros Hc Hl Hv r.
  pose proof (covers_nonneg l lo hi Hc ltac:(lia)) as Hn.
  pose proof (covers_nonempty l lo hi Hc ltac:(lia)) as Hne.
  destruct (bits_general raw l v Hn Hne) as (m & r' & Hmin & He & Hs & Hf).
  destruct (list_min_spec l Hne) as (m' & Hmin' & Hin & Hle). rewrite Hmin in Hmin'. inversion Hmin'; subst m'.
  assert (m = lo).
  { apply Hc in Hin. assert (In lo l) by (apply Hc; lia). specialize (Hle lo H). lia. }
  subst m. destruct (Hf (fits_contiguous l lo hi v Hc Hv)) as [Hbits Hdec].
  assert (Hr : r' = r).
  { apply Z.bits_inj'. intros i Hi. unfold r. rewrite Hbits, set_field_spec by lia.
    rewrite (covers_zmem l lo hi i Hc). replace (i <? lo + (hi - lo + 1)) with (i <=? hi) by lia. reflexivity. }
  subst r'. repeat split; try assumption.
  intros i Hi. rewrite Hbits by assumption. now rewrite (covers_zmem l lo hi i Hc).
Qed.

(* bits outside the field width of v are what the caller passed: an over-wide value spills *)
Lemma bits_overflow_example : encode_bits_list 0 [0; 1] 7 = Ok 7.
Proof. reflexivity. Qed.

(* ------------------------------------------------------------------ the four spellings *)
Lemma zrange_In s n : forall b, In b (zrange s 1 n) <-> s <= b < s + Z.of_nat n.
Proof.
  revert s. induction n as [|n IH]; intros s b; cbn [zrange In].
  - lia.
  - rewrite IH. lia.
Qed.

Lemma py_range_step1 lo hi : lo <= hi + 1 -> covers (py_range lo (hi + 1) 1) lo hi.
Proof.
  intros H b. unfold py_range. cbn [Z.ltb Z.compare]. rewrite zrange_In.
  replace ((hi + 1 - lo + 1 - 1) / 1) with (hi + 1 - lo) by (rewrite Z.div_1_r; lia).
  rewrite Z2Nat.id by lia. lia.
Qed.

(* how a key names the range lo..hi *)
Inductive spells (defs : list (list Z * list Z)) : bkey -> Z -> Z -> Prop :=
| sp_int b : spells defs (KInt b) b b
| sp_list l lo hi : covers l lo hi -> spells defs (KList l) lo hi
| sp_slice start step lo hi :
    (start = Some lo \/ (start = None /\ lo = 0)) ->
    (step = None \/ step = Some 1) ->
    spells defs (KSlice start (Some (hi + 1)) step) lo hi
| sp_name s l lo hi : sassoc s defs = Some l -> covers l lo hi -> spells defs (KName s) lo hi.

Lemma spells_resolves defs key lo hi : spells defs key lo hi -> lo <= hi ->
  exists sel l, get_bits key = Ok sel /\ resolve defs sel = Ok l /\ covers l lo hi.
Proof.
  intros H Hl. destruct H as [b|l lo hi Hc|start step lo hi Hs Hst|s l lo hi Ha Hc].
  - exists (BList [b]), [b]. split; [reflexivity|]. split; [reflexivity|]. intro x. cbn. lia.
  - exists (BList l), l. split; [reflexivity|]. split; [reflexivity|]. exact Hc.
  - exists (BList (py_range lo (hi + 1) 1)), (py_range lo (hi + 1) 1). split; [|split; [reflexivity|apply py_range_step1; lia]].
    cbn [get_bits].
    assert (py_or start 0 = lo) as ->.
    { destruct Hs as [->|[-> ->]]; [|reflexivity]. cbn. destruct (lo =? 0) eqn:E; lia. }
    assert (py_or step 1 = 1) as -> by (destruct Hst as [->| ->]; reflexivity).
    reflexivity.
  - exists (BName s), l. split; [reflexivity|]. split; [|exact Hc]. cbn. now rewrite Ha.
Qed.

(* var.bits[key] = v  and  var.bits[key]  on the raw value, without the store *)
Definition bits_write (defs : list (list Z * list Z)) (raw : Z) (key : bkey) (v : Z) : res Z :=
  rbind (get_bits key) (fun sel => encode_bits defs raw sel v).
Definition bits_read (defs : list (list Z * list Z)) (raw : Z) (key : bkey) : res Z :=
  rbind (get_bits key) (fun sel => decode_bits defs raw sel).

Theorem bits_set_exact defs key lo hi raw v :
  spells defs key lo hi -> 0 <= lo <= hi -> 0 <= v < 2 ^ (hi - lo + 1) ->
  exists r, bits_write defs raw key v = Ok r /\
    r = set_field raw lo (hi - lo + 1) v /\
    (forall i, 0 <= i ->
       Z.testbit r i = if (lo <=? i) && (i <=? hi) then Z.testbit v (i - lo) else Z.testbit raw i) /\
    (0 <= raw -> 0 <= r) /\
    (forall n, 0 <= raw < 2 ^ n -> hi < n -> 0 <= r < 2 ^ n).
Proof.
  intros Hsp Hl Hv. destruct (spells_resolves defs key lo hi Hsp ltac:(lia)) as (sel & l & Hg & Hr & Hc).
  destruct (bits_contiguous raw l lo hi v Hc Hl Hv) as (He & Hb & Hd).
  exists (set_field raw lo (hi - lo + 1) v).
  split. { unfold bits_write, encode_bits. rewrite Hg. cbn [rbind]. rewrite Hr. exact He. }
  split; [reflexivity|]. split; [exact Hb|]. split.
  - intros. apply set_field_nonneg; lia.
  - intros n Hn Hh. apply set_field_bound; lia.
Qed.

Theorem bits_get_after_set defs key lo hi raw v :
  spells defs key lo hi -> 0 <= lo <= hi -> 0 <= v < 2 ^ (hi - lo + 1) ->
  exists r, bits_write defs raw key v = Ok r /\ bits_read defs r key = Ok v.
Proof.
  intros Hsp Hl Hv. destruct (spells_resolves defs key lo hi Hsp ltac:(lia)) as (sel & l & Hg & Hr & Hc).
  destruct (bits_contiguous raw l lo hi v Hc Hl Hv) as (He & Hb & Hd).
  exists (set_field raw lo (hi - lo + 1) v). split.
  - unfold bits_write, encode_bits. rewrite Hg. cbn [rbind]. rewrite Hr. exact He.
  - unfold bits_read, decode_bits. rewrite Hg. cbn [rbind]. rewrite Hr. exact Hd.
Qed.

(* reading a range of any raw value returns exactly those bits *)
Theorem bits_get_exact defs key lo hi raw :
  spells defs key lo hi -> 0 <= lo <= hi ->
  bits_read defs raw key = Ok (get_field raw lo (hi - lo + 1)).
Proof.
  intros Hsp Hl. destruct (spells_resolves defs key lo hi Hsp ltac:(lia)) as (sel & l & Hg & Hr & Hc).
  pose proof (covers_nonneg l lo hi Hc ltac:(lia)) as Hn.
  pose proof (covers_nonempty l lo hi Hc ltac:(lia)) as Hne.
  destruct (decode_bits_list_spec raw l Hn Hne) as (m & d & Hmin & Hd & Hs).
  destruct (list_min_spec l Hne) as (m' & Hmin' & Hin & Hle). rewrite Hmin in Hmin'. inversion Hmin'; subst m'.
  assert (m = lo).
  { apply Hc in Hin. assert (In lo l) by (apply Hc; lia). specialize (Hle lo H). lia. }
  subst m. unfold bits_read, decode_bits. rewrite Hg. cbn [rbind]. rewrite Hr. cbn [rbind]. rewrite Hd. f_equal.
  apply Z.bits_inj'. intros j Hj. rewrite Hs, get_field_spec by lia. rewrite (covers_zmem l lo hi _ Hc).
  destruct (j <? hi - lo + 1) eqn:E.
  - replace ((lo <=? j + lo) && (j + lo <=? hi)) with true by lia. now rewrite andb_true_r.
  - replace ((lo <=? j + lo) && (j + lo <=? hi)) with false by lia. now rewrite andb_false_r.
Qed.

(* any list of bit numbers, contiguous or not: the exact result, and when it is a field *)
Theorem bits_set_general raw l v : nonneg_bits l -> l <> [] ->
  exists m r, list_min l = Ok m /\ encode_bits_list raw l v = Ok r /\
    (forall i, 0 <= i -> Z.testbit r i = (Z.testbit raw i && negb (zmem i l)) || Z.testbit v (i - m)) /\
    (fits l m v ->
       (forall i, 0 <= i -> Z.testbit r i = if zmem i l then Z.testbit v (i - m) else Z.testbit raw i) /\
       decode_bits_list r l = Ok v).
Proof. exact (bits_general raw l v). Qed.

(* the error cases of a key *)
Lemma bits_errors defs raw v :
  (forall l, ~ nonneg_bits l -> encode_bits defs raw (BList l) v = Err E_VALUE /\ decode_bits defs raw (BList l) = Err E_VALUE) /\
  encode_bits defs raw (BList []) v = Err E_VALUE /\ decode_bits defs raw (BList []) = Err E_VALUE /\
  (forall c s, sassoc (c :: s) defs = None ->
     encode_bits defs raw (BName (c :: s)) v = Err E_TYPE /\ decode_bits defs raw (BName (c :: s)) = Err E_TYPE) /\
  (forall a st, get_bits (KSlice a None st) = Err E_TYPE).
Proof.
  split; [|split; [reflexivity|split; [reflexivity|split]]].
  - intros l H. cbn. unfold encode_bits_list, decode_bits_list. now rewrite mask_of_negative.
  - intros c s H. unfold encode_bits, decode_bits. cbn [resolve]. now rewrite H.
  - reflexivity.
Qed.

(* ------------------------------------------------------------------ descriptions *)
Lemma zassoc_nodup (t : list (Z * list Z)) v d : NoDup (map fst t) ->
  (zassoc v t = Some d <-> In (v, d) t).
Proof.
  induction t as [|[k a] r IH]; cbn; intros Hn; [split; [discriminate|tauto]|].
  inversion Hn as [|? ? Hk Hr]; subst. destruct (v =? k) eqn:E.
  - apply Z.eqb_eq in E. subst k. split.
    + intros H. inversion H. now left.
    + intros [H|H]; [now inversion H|]. exfalso. apply Hk. now apply (in_map fst) in H.
  - rewrite (IH Hr). split; [tauto|]. intros [H|H]; [inversion H; lia|assumption].
Qed.

Lemma find_desc_In d t v : find_desc d t = Some v -> In (v, d) t.
Proof.
  induction t as [|[k a] r IH]; cbn; [discriminate|].
  destruct (list_Z_eqb a d) eqn:E.
  - apply list_Z_eqb_eq in E. intros H. inversion H. subst. now left.
  - intros H. right. now apply IH.
Qed.

Lemma find_desc_first d t v :
  find_desc d t = Some v <->
  exists t1 t2, t = t1 ++ (v, d) :: t2 /\ forall e, In e t1 -> snd e <> d.
Proof.
  induction t as [|[k a] r IH]; cbn.
  - split; [discriminate|]. intros (t1 & t2 & H & _). destruct t1; discriminate.
  - destruct (list_Z_eqb a d) eqn:E.
    + apply list_Z_eqb_eq in E. subst a. split.
      * intros H. inversion H. subst. exists [], r. split; [reflexivity|]. intros e [].
      * intros (t1 & t2 & H & Hf). destruct t1 as [|e t1]; cbn in H.
        -- now inversion H.
        -- inversion H. subst e. exfalso. apply (Hf (k, d)); [now left|reflexivity].
    + apply list_Z_eqb_neq in E. rewrite IH. split.
      * intros (t1 & t2 & H & Hf). exists ((k, a) :: t1), t2. split; [cbn; now rewrite H|].
        intros e [He|He]; [subst e; exact E|now apply Hf].
      * intros (t1 & t2 & H & Hf). destruct t1 as [|e t1]; cbn in H.
        -- inversion H. subst. contradiction.
        -- inversion H. subst e. exists t1, t2. split; [reflexivity|]. intros e He. apply Hf. now right.
Qed.

Lemma find_desc_none d t : find_desc d t = None <-> ~ In d (map snd t).
Proof.
  induction t as [|[k a] r IH]; cbn; [split; [tauto|reflexivity]|].
  destruct (list_Z_eqb a d) eqn:E.
  - apply list_Z_eqb_eq in E. split; [discriminate|]. intros H. exfalso. apply H. now left.
  - apply list_Z_eqb_neq in E. rewrite IH. tauto.
Qed.

Lemma find_desc_nodup d t v : NoDup (map snd t) -> In (v, d) t -> find_desc d t = Some v.
Proof.
  induction t as [|[k a] r IH]; cbn; intros Hn Hin; [contradiction|].
  inversion Hn as [|? ? Ha Hr]; subst. destruct (list_Z_eqb a d) eqn:E.
  - apply list_Z_eqb_eq in E. subst a. destruct Hin as [H|H]; [now inversion H|].
    exfalso. apply Ha. now apply (in_map snd) in H.
  - apply list_Z_eqb_neq in E. destruct Hin as [H|H]; [inversion H; contradiction|]. now apply IH.
Qed.

(* the table that add_value_description builds never has a value twice *)
Lemma zdict_set_keys_in {A} k (a : A) t x : In x (map fst (zdict_set k a t)) -> x = k \/ In x (map fst t).
Proof.
  induction t as [|[k' a'] r IH]; cbn.
  - intros [H|[]]. now left.
  - destruct (k =? k') eqn:E; cbn.
    + intros [H|H]; [now left|right; now right].
    + intros [H|H]; [right; now left|]. destruct (IH H); [now left|right; now right].
Qed.

Lemma zdict_set_nodup {A} k (a : A) t : NoDup (map fst t) -> NoDup (map fst (zdict_set k a t)).
Proof.
  induction t as [|[k' a'] r IH]; cbn; intros Hn.
  - constructor; [intros []|constructor].
  - inversion Hn as [|? ? Hk Hr]; subst. destruct (k =? k') eqn:E; cbn.
    + apply Z.eqb_eq in E. subst k'. now constructor.
    + constructor; [|now apply IH]. intros H. apply zdict_set_keys_in in H. destruct H; [lia|contradiction].
Qed.

Lemma zdict_set_same {A} k (a : A) t : zassoc k (zdict_set k a t) = Some a.
Proof.
  induction t as [|[k' a'] r IH]; cbn; [now rewrite Z.eqb_refl|].
  destruct (k =? k') eqn:E; cbn; [now rewrite Z.eqb_refl|now rewrite E].
Qed.

Lemma zdict_set_other {A} k (a : A) t k2 : k2 <> k -> zassoc k2 (zdict_set k a t) = zassoc k2 t.
Proof.
  intros Hne. induction t as [|[k' a'] r IH]; cbn.
  - now replace (k2 =? k) with false by lia.
  - destruct (k =? k') eqn:E; cbn.
    + apply Z.eqb_eq in E. subst k'. now replace (k2 =? k) with false by lia.
    + now rewrite IH.
Qed.

Lemma build_descs_nodup adds : NoDup (map fst (build_descs adds)).
Proof.
  unfold build_descs. assert (G : forall t, NoDup (map fst t) ->
    NoDup (map fst (fold_left (fun t e => zdict_set (fst e) (snd e) t) adds t))).
  { induction adds as [|e adds IH]; intros t Ht; cbn; [assumption|]. apply IH. now apply zdict_set_nodup. }
  apply G. constructor.
Qed.

(* the last description given for a value is the one in force *)
Lemma build_descs_last adds v d : zassoc v (build_descs (adds ++ [(v, d)])) = Some d.
Proof. unfold build_descs. rewrite fold_left_app. cbn. apply zdict_set_same. Qed.

Theorem desc_roundtrip t : NoDup (map fst t) ->
  (forall d v, encode_desc t d = Ok v -> decode_desc t v = Ok d) /\
  (NoDup (map snd t) -> forall v d, decode_desc t v = Ok d -> encode_desc t d = Ok v) /\
  (forall v d, In (v, d) t ->
     decode_desc t v = Ok d /\ (NoDup (map snd t) -> encode_desc t d = Ok v)).
Proof.
  intros Hk. split; [|split].
  - intros d v. unfold encode_desc, decode_desc. destruct t as [|e t']; [discriminate|].
    destruct (find_desc d (e :: t')) eqn:F; [|discriminate]. intros H. inversion H. subst z.
    apply find_desc_In in F. apply (zassoc_nodup _ _ _ Hk) in F. now rewrite F.
  - intros Hd v d. unfold encode_desc, decode_desc. destruct t as [|e t']; [discriminate|].
    destruct (zassoc v (e :: t')) eqn:F; [|discriminate]. intros H. inversion H. subst l.
    apply (zassoc_nodup _ _ _ Hk) in F. now rewrite (find_desc_nodup d _ v Hd F).
  - intros v d Hin. unfold encode_desc, decode_desc. destruct t as [|e t']; [contradiction|]. split.
    + apply (zassoc_nodup _ _ _ Hk) in Hin. now rewrite Hin.
    + intros Hd. now rewrite (find_desc_nodup d _ v Hd Hin).
Qed.

(* without distinct descriptions: the first entry, in insertion order, that carries the text *)
Theorem desc_encode_first t d v :
  encode_desc t d = Ok v <->
  exists t1 t2, t = t1 ++ (v, d) :: t2 /\ forall e, In e t1 -> snd e <> d.
Proof.
  rewrite <- find_desc_first. unfold encode_desc. destruct t as [|e t']; [split; discriminate|].
  destruct (find_desc d (e :: t')); split; intros H; try discriminate; now inversion H.
Qed.

Theorem desc_errors t :
  (forall d, encode_desc [] d = Err E_OD) /\ (forall v, decode_desc [] v = Err E_OD) /\
  (t <> [] -> forall d, ~ In d (map snd t) -> encode_desc t d = Err E_VALUE) /\
  (forall v, ~ In v (map fst t) -> decode_desc t v = Err E_OD).
Proof.
  split; [reflexivity|split; [reflexivity|split]].
  - intros Hne d Hd. unfold encode_desc. destruct t; [congruence|]. apply find_desc_none in Hd. now rewrite Hd.
  - intros v Hv. unfold decode_desc. destruct t as [|e t']; [reflexivity|].
    destruct (zassoc v (e :: t')) eqn:F; [|reflexivity]. apply zassoc_In in F. exfalso. apply Hv.
    now apply (in_map fst) in F.
Qed.

(* ------------------------------------------------------------------ scaling over Q *)
Lemma rhe_Z n D : 0 < D ->
  let fl := n / D in
  let R := match 2 * (n mod D) ?= D with Lt => fl | Gt => fl + 1
           | Eq => if Z.even fl then fl else fl + 1 end in
  (2 * R - 1) * D <= 2 * n <= (2 * R + 1) * D /\
  ((2 * n = (2 * R - 1) * D \/ 2 * n = (2 * R + 1) * D) -> Z.even R = true).
Proof.
  intros HD. cbv zeta.
  pose proof (Z.div_mod n D ltac:(lia)) as E. pose proof (Z.mod_pos_bound n D HD) as B.
  set (fl := n / D) in *. set (r := n mod D) in *.
  destruct (Z.compare_spec (2 * r) D) as [C|C|C].
  - destruct (Z.even fl) eqn:Ev.
    + split; [nia|intros _; exact Ev].
    + split; [nia|intros _]. replace (fl + 1) with (Z.succ fl) by lia. rewrite Z.even_succ.
      rewrite <- Z.negb_even. now rewrite Ev.
  - split; [nia|]. intros [H|H]; exfalso; nia.
  - split; [nia|]. intros [H|H]; exfalso; nia.
Qed.

Lemma round_half_even_bound q :
  (inject_Z (round_half_even q) - (1 # 2) <= q /\ q <= inject_Z (round_half_even q) + (1 # 2))%Q.
Proof.
  destruct q as [n d]. unfold round_half_even. cbn [Qnum Qden].
  destruct (rhe_Z n (Zpos d) ltac:(lia)) as [[H1 H2] _].
  set (R := match 2 * (n mod Z.pos d) ?= Z.pos d with Lt => n / Z.pos d | Gt => n / Z.pos d + 1
            | Eq => if Z.even (n / Z.pos d) then n / Z.pos d else n / Z.pos d + 1 end) in *.
  unfold Qle, Qminus, Qplus, Qopp, inject_Z. cbn [Qnum Qden]. split; lia.
Qed.

Lemma round_half_even_abs q : (Qabs (q - inject_Z (round_half_even q)) <= 1 # 2)%Q.
Proof.
  destruct (round_half_even_bound q) as [H1 H2]. apply Qabs_Qle_condition. split; lra.
Qed.

Lemma round_half_even_tie q :
  (Qabs (q - inject_Z (round_half_even q)) == 1 # 2)%Q -> Z.even (round_half_even q) = true.
Proof.
  destruct q as [n d]. unfold round_half_even. cbn [Qnum Qden].
  destruct (rhe_Z n (Zpos d) ltac:(lia)) as [_ H].
  set (R := match 2 * (n mod Z.pos d) ?= Z.pos d with Lt => n / Z.pos d | Gt => n / Z.pos d + 1
            | Eq => if Z.even (n / Z.pos d) then n / Z.pos d else n / Z.pos d + 1 end) in *.
  intros HA. apply H. revert HA.
  unfold Qeq, Qabs, Qminus, Qplus, Qopp, inject_Z. cbn [Qnum Qden]. lia.
Qed.

Lemma round_half_even_nearest q k :
  (Qabs (q - inject_Z (round_half_even q)) <= Qabs (q - inject_Z k))%Q.
Proof.
  pose proof (round_half_even_abs q) as HA.
  destruct (round_half_even_bound q) as [H1 H2].
  set (R := round_half_even q) in *.
  destruct (Z.eq_dec k R) as [->|Hne]; [apply Qle_refl|].
  eapply Qle_trans; [exact HA|].
  destruct (Z_lt_le_dec k R) as [L|L].
  - assert (inject_Z k <= inject_Z R - 1)%Q.
    { replace (inject_Z R - 1)%Q with (inject_Z R + inject_Z (-1))%Q by reflexivity.
      rewrite <- inject_Z_plus, <- Zle_Qle. lia. }
    eapply Qle_trans; [|apply Qle_Qabs]. lra.
  - assert (inject_Z R + 1 <= inject_Z k)%Q.
    { replace (inject_Z R + 1)%Q with (inject_Z R + inject_Z 1)%Q by reflexivity.
      rewrite <- inject_Z_plus, <- Zle_Qle. lia. }
    rewrite <- Qabs_opp. eapply Qle_trans; [|apply Qle_Qabs]. lra.
Qed.

Lemma even_succ_false a : Z.even a = true -> Z.even (a + 1) = true -> False.
Proof. intros H1 H2. rewrite Z.even_add, H1 in H2. cbn in H2. discriminate. Qed.

(* round_half_even does not depend on how the fraction is written *)
Lemma round_half_even_unique q R :
  (Qabs (q - inject_Z R) <= 1 # 2)%Q ->
  ((Qabs (q - inject_Z R) == 1 # 2)%Q -> Z.even R = true) ->
  R = round_half_even q.
Proof.
  intros HA HT. pose proof (round_half_even_abs q) as HB. pose proof (round_half_even_tie q) as HU.
  set (R' := round_half_even q) in *.
  apply Qabs_Qle_condition in HA. apply Qabs_Qle_condition in HB.
  destruct (Z.eq_dec R R') as [|Hne]; [assumption|exfalso].
  destruct (Z_lt_le_dec R R') as [L|L].
  - assert (inject_Z R + 1 <= inject_Z R')%Q.
    { replace (inject_Z R + 1)%Q with (inject_Z R + inject_Z 1)%Q by reflexivity.
      rewrite <- inject_Z_plus, <- Zle_Qle. lia. }
    assert (E1 : (q - inject_Z R == 1 # 2)%Q) by lra.
    assert (E2 : (q - inject_Z R' == - (1 # 2))%Q) by lra.
    assert (inject_Z R' == inject_Z R + 1)%Q by lra.
    assert (R' = R + 1).
    { replace (inject_Z R + 1)%Q with (inject_Z R + inject_Z 1)%Q in H0 by reflexivity.
      rewrite <- inject_Z_plus in H0. unfold Qeq, inject_Z in H0; cbn in H0; lia. }
    assert (Z.even R = true) by (apply HT; rewrite E1; reflexivity).
    assert (Z.even R' = true) by (apply HU; rewrite E2; reflexivity).
    rewrite H1 in H3. exact (even_succ_false R H2 H3).
  - assert (inject_Z R' + 1 <= inject_Z R)%Q.
    { replace (inject_Z R' + 1)%Q with (inject_Z R' + inject_Z 1)%Q by reflexivity.
      rewrite <- inject_Z_plus, <- Zle_Qle. lia. }
    assert (E1 : (q - inject_Z R == - (1 # 2))%Q) by lra.
    assert (E2 : (q - inject_Z R' == 1 # 2)%Q) by lra.
    assert (inject_Z R == inject_Z R' + 1)%Q by lra.
    assert (R = R' + 1).
    { replace (inject_Z R' + 1)%Q with (inject_Z R' + inject_Z 1)%Q in H0 by reflexivity.
      rewrite <- inject_Z_plus in H0. unfold Qeq, inject_Z in H0; cbn in H0; lia. }
    assert (Z.even R = true) by (apply HT; rewrite E1; reflexivity).
    assert (Z.even R' = true) by (apply HU; rewrite E2; reflexivity).
    rewrite H1 in H2. exact (even_succ_false R' H3 H2).
Qed.

Lemma round_half_even_proper q q' : (q == q')%Q -> round_half_even q = round_half_even q'.
Proof.
  intros E. apply round_half_even_unique.
  - rewrite <- E. apply round_half_even_abs.
  - rewrite <- E. apply round_half_even_tie.
Qed.

Lemma phys_half_step_Q (v f : Q) : ~ (f == 0)%Q ->
  let raw := round_half_even (v / f) in
  (Qabs (v - inject_Z raw * f) <= Qabs f * (1 # 2))%Q.
Proof.
  intros Hf raw.
  assert (E : (v - inject_Z raw * f == f * (v / f - inject_Z raw))%Q) by (field; assumption).
  rewrite E, Qabs_Qmult. rewrite (Qmult_comm (Qabs f)), (Qmult_comm (Qabs f)).
  apply Qmult_le_compat_r; [apply round_half_even_abs|apply Qabs_nonneg].
Qed.

Lemma round_half_even_int z : round_half_even (inject_Z z) = z.
Proof.
  unfold round_half_even, inject_Z. cbn [Qnum Qden]. rewrite Z.mod_1_r, Z.div_1_r. reflexivity.
Qed.

Definition int_od (od : odvar) : Prop := zmem (od_dt od) INTEGER_TYPES = true.

Lemma factor_nonzero od : ~ (od_factor od == 0)%Q -> Qeq_bool (od_factor od) 0 = false.
Proof.
  intros H. destruct (Qeq_bool (od_factor od) 0) eqn:E; [|reflexivity].
  apply Qeq_bool_eq in E. contradiction.
Qed.

Theorem phys_half_step od v : int_od od -> ~ (od_factor od == 0)%Q ->
  let f := od_factor od in
  exists raw, encode_phys od v = Ok raw /\
    raw = round_half_even (v / f) /\
    (forall k, Qabs (v / f - inject_Z raw) <= Qabs (v / f - inject_Z k))%Q /\
    ((Qabs (v / f - inject_Z raw) == 1 # 2)%Q -> Z.even raw = true) /\
    decode_phys od raw = Ok (inject_Z raw * f)%Q /\
    (Qabs (v - inject_Z raw * f) <= Qabs f * (1 # 2))%Q.
Proof.
  intros Hi Hf f. exists (round_half_even (v / f)).
  unfold encode_phys, decode_phys. unfold int_od in Hi. rewrite Hi, (factor_nonzero od Hf).
  split; [reflexivity|]. split; [reflexivity|]. split; [apply round_half_even_nearest|].
  split; [apply round_half_even_tie|]. split; [reflexivity|]. now apply phys_half_step_Q.
Qed.

(* the physical value of a raw value scales back to that raw value, whatever the factor *)
Theorem phys_raw_roundtrip od raw : int_od od -> ~ (od_factor od == 0)%Q ->
  exists p, decode_phys od raw = Ok p /\ encode_phys od p = Ok raw.
Proof.
  intros Hi Hf. exists (inject_Z raw * od_factor od)%Q.
  unfold encode_phys, decode_phys. unfold int_od in Hi. rewrite Hi, (factor_nonzero od Hf).
  split; [reflexivity|]. f_equal. rewrite <- (round_half_even_int raw) at 2.
  apply round_half_even_proper. field. assumption.
Qed.

Lemma phys_zero_factor od v : int_od od -> (od_factor od == 0)%Q -> encode_phys od v = Err E_OTHER.
Proof.
  intros Hi Hf. unfold encode_phys. unfold int_od in Hi. rewrite Hi. now rewrite (Qeq_eq_bool _ _ Hf).
Qed.

(* ------------------------------------------------------------------ the accessor layer over any store *)
Section Store.
  Context {S : Type} (get_raw : S -> res Z) (set_raw : S -> Z -> res S).
  Context (law : forall s v s', set_raw s v = Ok s' -> get_raw s' = Ok v).
  Context (od : odvar).

  Lemma bits_set_unfold s raw key v : get_raw s = Ok raw ->
    bits_set get_raw set_raw od s key v = rbind (bits_write (od_bitdefs od) raw key v) (set_raw s).
  Proof.
    intros H. unfold bits_set, bits_write. rewrite H. cbn [rbind].
    destruct (get_bits key); reflexivity.
  Qed.

  Lemma bits_get_unfold s raw key : get_raw s = Ok raw ->
    bits_get get_raw od s key = bits_read (od_bitdefs od) raw key.
  Proof. intros H. unfold bits_get, bits_read. now rewrite H. Qed.

  Lemma store_bits s raw key lo hi v :
    get_raw s = Ok raw -> spells (od_bitdefs od) key lo hi -> 0 <= lo <= hi -> 0 <= v < 2 ^ (hi - lo + 1) ->
    let r := set_field raw lo (hi - lo + 1) v in
    bits_get get_raw od s key = Ok (get_field raw lo (hi - lo + 1)) /\
    bits_set get_raw set_raw od s key v = set_raw s r /\
    (forall i, 0 <= i ->
       Z.testbit r i = if (lo <=? i) && (i <=? hi) then Z.testbit v (i - lo) else Z.testbit raw i) /\
    forall s', set_raw s r = Ok s' -> get_raw s' = Ok r /\ bits_get get_raw od s' key = Ok v.
  Proof.
    intros Hg Hsp Hl Hv r.
    destruct (bits_set_exact _ key lo hi raw v Hsp Hl Hv) as (r' & Hw & Hr & Hb & _).
    destruct (bits_get_after_set _ key lo hi raw v Hsp Hl Hv) as (r'' & Hw' & Hrd).
    rewrite Hw in Hw'. inversion Hw'; subst r''. subst r'. fold r in Hw, Hb, Hrd.
    split; [rewrite (bits_get_unfold s raw key Hg); now apply bits_get_exact|].
    split; [rewrite (bits_set_unfold s raw key v Hg), Hw; reflexivity|].
    split; [exact Hb|]. intros s' Hs. pose proof (law _ _ _ Hs) as Hg'. split; [exact Hg'|].
    now rewrite (bits_get_unfold s' r key Hg').
  Qed.

  (* the same Bits object read after the assignment returns the value, whatever the store does *)
  Lemma store_bits_held s raw key lo hi v :
    get_raw s = Ok raw -> spells (od_bitdefs od) key lo hi -> 0 <= lo <= hi -> 0 <= v < 2 ^ (hi - lo + 1) ->
    bits_held get_raw set_raw od s key v =
    rbind (set_raw s (set_field raw lo (hi - lo + 1) v)) (fun s' => Ok (s', Ok v)).
  Proof.
    intros Hg Hsp Hl Hv.
    destruct (bits_set_exact _ key lo hi raw v Hsp Hl Hv) as (r' & Hw & Hr & _).
    destruct (bits_get_after_set _ key lo hi raw v Hsp Hl Hv) as (r'' & Hw' & Hrd).
    rewrite Hw in Hw'. inversion Hw'; subst r''. subst r'.
    unfold bits_held. rewrite Hg. cbn [rbind]. unfold bits_write in Hw. unfold bits_read in Hrd.
    destruct (get_bits key) as [sel|k|a]; cbn [rbind] in *; try discriminate.
    rewrite Hw. cbn [rbind]. destruct (set_raw s _); cbn [rbind]; try reflexivity. now rewrite Hrd.
  Qed.

  (* a store whose read fails: the failure comes out of every getter and out of the read-modify-write
     of a bit field unchanged, and no write is computed (the result carries no new store) *)
  Lemma store_read_fails s :
    (forall a, get_raw s = Abort a ->
       (forall key, bits_get get_raw od s key = Abort a) /\
       (forall key v, bits_set get_raw set_raw od s key v = Abort a) /\
       (forall key v, bits_held get_raw set_raw od s key v = Abort a) /\
       phys_get get_raw od s = Abort a /\ desc_get get_raw od s = Abort a) /\
    (forall k, get_raw s = Err k ->
       (forall key, bits_get get_raw od s key = Err k) /\
       (forall key v, bits_set get_raw set_raw od s key v = Err k) /\
       (forall key v, bits_held get_raw set_raw od s key v = Err k) /\
       phys_get get_raw od s = Err k /\ desc_get get_raw od s = Err k).
  Proof.
    split; intros x He; unfold bits_get, bits_set, bits_held, phys_get, desc_get; rewrite He; repeat split; reflexivity.
  Qed.

  (* a key that the code refuses never reaches the store *)
  Lemma store_bits_error s raw key v k : get_raw s = Ok raw ->
    bits_write (od_bitdefs od) raw key v = Err k -> bits_set get_raw set_raw od s key v = Err k.
  Proof. intros Hg He. now rewrite (bits_set_unfold s raw key v Hg), He. Qed.

  Lemma store_desc s raw : get_raw s = Ok raw -> NoDup (map fst (od_descs od)) ->
    desc_get get_raw od s = decode_desc (od_descs od) raw /\
    (forall d k, encode_desc (od_descs od) d = Err k -> desc_set set_raw od s d = Err k) /\
    forall d v, encode_desc (od_descs od) d = Ok v ->
      desc_set set_raw od s d = set_raw s v /\
      forall s', set_raw s v = Ok s' -> get_raw s' = Ok v /\ desc_get get_raw od s' = Ok d.
  Proof.
    intros Hg Hn. split; [unfold desc_get; now rewrite Hg|]. split.
    - intros d k He. unfold desc_set. now rewrite He.
    - intros d v He. split; [unfold desc_set; now rewrite He|].
      intros s' Hs. pose proof (law _ _ _ Hs) as Hg'. split; [exact Hg'|].
      unfold desc_get. rewrite Hg'. cbn [rbind]. destruct (desc_roundtrip _ Hn) as (H1 & _). now apply H1.
  Qed.

  Lemma store_phys s v : int_od od -> ~ (od_factor od == 0)%Q ->
    let f := od_factor od in
    let raw := round_half_even (v / f) in
    phys_set set_raw od s v = set_raw s raw /\
    forall s', set_raw s raw = Ok s' ->
      get_raw s' = Ok raw /\
      phys_get get_raw od s' = Ok (inject_Z raw * f)%Q /\
      (Qabs (v - inject_Z raw * f) <= Qabs f * (1 # 2))%Q.
  Proof.
    intros Hi Hf f raw. destruct (phys_half_step od v Hi Hf) as (raw' & He & Hr & _ & _ & Hd & Hb).
    fold f in Hr, Hd, Hb. fold raw in Hr. subst raw'.
    split; [unfold phys_set; now rewrite He|].
    intros s' Hs. pose proof (law _ _ _ Hs) as Hg'. split; [exact Hg'|]. split; [|exact Hb].
    unfold phys_get. rewrite Hg'. exact Hd.
  Qed.
End Store.

(* ------------------------------------------------------------------ the byte cell is such a store *)
Lemma cell_set_spec t p s w c v : zassoc t STRUCT_TYPES = Some p -> int_packer p = Some (s, w) ->
  if in_range s w v
  then cell_set t c v = Ok {| c_pre := c_pre c; c_cur := le_encode (Z.to_nat (w / 8)) v; c_post := c_post c |}
  else cell_set t c v = Err E_VALUE.
Proof.
  intros Ht Hp. unfold cell_set. destruct (in_range s w v) eqn:E.
  - now rewrite (encode_exact t p s w v Ht Hp E).
  - now rewrite (encode_rejects t p s w v Ht Hp E).
Qed.

Lemma cell_law t p s w : zassoc t STRUCT_TYPES = Some p -> int_packer p = Some (s, w) ->
  forall c v c', cell_set t c v = Ok c' -> cell_get t c' = Ok v.
Proof.
  intros Ht Hp c v c' H. pose proof (cell_set_spec t p s w c v Ht Hp) as Hs.
  destruct (in_range s w v) eqn:E; rewrite Hs in H; [|discriminate]. inversion H; subst c'.
  unfold cell_get. cbn [c_cur]. now rewrite (decode_encode t p s w v Ht Hp E).
Qed.

Lemma cell_get_encoded t p s w pre post v : zassoc t STRUCT_TYPES = Some p -> int_packer p = Some (s, w) ->
  in_range s w v = true ->
  cell_get t {| c_pre := pre; c_cur := le_encode (Z.to_nat (w / 8)) v; c_post := post |} = Ok v.
Proof. intros Ht Hp E. unfold cell_get. cbn [c_cur]. now rewrite (decode_encode t p s w v Ht Hp E). Qed.

(* bit-field write on an unsigned object held in a buffer: always accepted when the range lies
   inside the object's width; the neighbours in the buffer are untouched *)
Theorem bits_on_cell od t p w pre post raw key lo hi v :
  zassoc t STRUCT_TYPES = Some p -> int_packer p = Some (false, w) ->
  0 <= raw < 2 ^ w -> spells (od_bitdefs od) key lo hi -> 0 <= lo <= hi -> hi < w -> 0 <= v < 2 ^ (hi - lo + 1) ->
  let n := Z.to_nat (w / 8) in
  let c := {| c_pre := pre; c_cur := le_encode n raw; c_post := post |} in
  let r := set_field raw lo (hi - lo + 1) v in
  let c' := {| c_pre := pre; c_cur := le_encode n r; c_post := post |} in
  bits_set (cell_get t) (cell_set t) od c key v = Ok c' /\
  bits_get (cell_get t) od c' key = Ok v /\
  cell_get t c' = Ok r /\ 0 <= r < 2 ^ w.
Proof.
  intros Ht Hp Hraw Hsp Hl Hh Hv n c r c'.
  assert (Hin : in_range false w raw = true) by (unfold in_range; lia).
  assert (Hr : 0 <= r < 2 ^ w) by (apply set_field_bound; lia).
  assert (Hin' : in_range false w r = true) by (unfold in_range; lia).
  pose proof (cell_get_encoded t p false w pre post raw Ht Hp Hin) as Hg. fold n c in Hg.
  destruct (store_bits (cell_get t) (cell_set t) (cell_law t p false w Ht Hp) od c raw key lo hi v Hg Hsp Hl Hv)
    as (_ & Hset & _ & Hafter).
  fold r in Hset, Hafter.
  pose proof (cell_set_spec t p false w c r Ht Hp) as Hcs. rewrite Hin' in Hcs. cbn [c_pre c_post c] in Hcs.
  fold n c' in Hcs. destruct (Hafter c' Hcs) as [Hg' Hb].
  split; [now rewrite Hset|]. split; [exact Hb|]. split; [exact Hg'|exact Hr].
Qed.

(* every CiA 301 integer type is scaled (the regenerated INTEGER_TYPES contains it) *)
Lemma integer_types_b : forallb (fun e => zmem (fst e) INTEGER_TYPES) cia301_int_types = true.
Proof. vm_compute. reflexivity. Qed.

Theorem integer_types_scaled t s w : In (t, (s, w)) cia301_int_types -> zmem t INTEGER_TYPES = true.
Proof. intros H. pose proof integer_types_b as T. rewrite forallb_forall in T. exact (T _ H). Qed.

(* ------------------------------------------------------------------ read(fmt) / write(value, fmt) *)
(* the method route is the attribute route: same observation, same store afterwards *)
Theorem rw_agrees od c :
  (forall v, step_op od c (OWrite FMT_RAW (OSetRaw v)) = step_op od c (OSetRaw v)) /\
  (forall n d, step_op od c (OWrite FMT_PHYS (OSetPhys n d)) = step_op od c (OSetPhys n d)) /\
  (forall d, step_op od c (OWrite FMT_DESC (OSetDesc d)) = step_op od c (OSetDesc d)) /\
  step_op od c (ORead FMT_RAW) = step_op od c OGetRaw /\
  step_op od c (ORead FMT_PHYS) = step_op od c OGetPhys /\
  step_op od c (ORead FMT_DESC) = step_op od c OGetDesc /\
  (forall fmt o, rw_route fmt = 0 -> step_op od c (OWrite fmt o) = (VNone, c) /\ step_op od c (ORead fmt) = (VNone, c)).
Proof.
  repeat split; intros; try reflexivity.
  - unfold step_op. cbn [step_op_g]. now rewrite H.
  - unfold step_op. cbn [step_op_g]. now rewrite H.
Qed.
