(* Tie (c) for C18: the decision logic of LssMaster as translated from the CURRENT source text of canopen/lss.py
   (Gen/SrcC18.v, tools/tables/src_c18.py) determines the model functions of Model/Lss.v: the probe frame of
   __send_fast_scan_message and its "answered iff a 0x4F frame arrived" decision, one step of each of fast_scan's two
   loops and their conditions, the initial values of the scan, the response checks of __send_inquire_node_id /
   __send_inquire_lss_address / __send_configure, the queue clean-up / need-response / time-out decisions of
   __send_command, and the arguments the public configure services hand to __send_configure.
   while-loops are outside the translator's subset: the iteration (scan_bits, scan_parts) is hand-written; what is
   proved here is that one unfolding of it is the translated loop body under the translated loop condition. *)
From Coq Require Import ZArith List Bool Lia ZifyBool.
From CV Require Import Base.Val Base.Bytes Base.Tys Gen.LssTables Gen.SrcC18 Model.RefLssSlave Model.Lss Proofs.Lss_proofs.
Import ListNotations.
Open Scope Z_scope.

Section AnyPeer.
  Context {P : Type} (peer : P -> Z -> list Z -> P * list (Z * list Z)).
  Notation M := (mstate P).

  (* ---- __send_fast_scan_message: frame layout '<BIBBB' = (0x51, id number, bit_check, lss_sub, lss_next) and the
          decision: silence (LssError) = no, otherwise yes iff byte 0 of the reply is CS_IDENTIFY_SLAVE ---- *)
  Lemma src_send_fast_scan_message_eq (st : M) idn bc sub nxt : u32 idn -> u8 bc -> u8 sub -> u8 nxt ->
    let '(p0, p1, p2, p3, p4, _) := src_send_fast_scan_message idn bc sub nxt true 0 in
    send_fast_scan_message peer st idn bc sub nxt =
    match send_command peer st (p0 :: le_encode 4 p1 ++ [p2; p3; p4]) with
    | (st1, Err k) =>
        if k =? E_LSS then (st1, Ok (snd (src_send_fast_scan_message idn bc sub nxt true 0))) else (st1, Err k)
    | (st1, Abort c) => (st1, Abort c)
    | (st1, Ok None) => (st1, Err E_TYPE)
    | (st1, Ok (Some [])) => (st1, Err E_STRUCT)
    | (st1, Ok (Some (r0 :: _))) => (st1, Ok (snd (src_send_fast_scan_message idn bc sub nxt false r0)))
    end.
  Proof.
    intros Hi Hb Hs Hn. unfold src_send_fast_scan_message, send_fast_scan_message. cbn [snd].
    rewrite pack_fast_scan_ok by assumption. cbn [sbind].
    destruct (send_command peer st (CS_FAST_SCAN :: le_encode 4 idn ++ [bc; sub; nxt])) as [st1 [[[|r0 t]|]|k|c]];
      try reflexivity.
    cbn [unpack_B sbind]. destruct (r0 =? CS_IDENTIFY_SLAVE); reflexivity.
  Qed.

  (* ---- fast_scan, inner loop: condition and body ---- *)
  Lemma src_scan_bits_continue_eq n :
    src_scan_bits_continue (Z.of_nat n) = match n with O => false | S _ => true end.
  Proof. unfold src_scan_bits_continue. destruct n; lia. Qed.

  (* one unfolding of scan_bits = the translated loop body: lss_bit_check -= 1, the probe with the new bit_check,
     lss_id[lss_sub] |= 1 << lss_bit_check iff the probe was not answered *)
  Lemma src_scan_bit_eq k (st : M) idn sub nxt :
    fst (src_scan_bit idn (Z.of_nat (S k)) sub nxt true) = Z.of_nat k /\
    scan_bits peer (S k) st idn sub nxt =
    sbind (send_fast_scan_message peer st idn (fst (src_scan_bit idn (Z.of_nat (S k)) sub nxt true)) sub nxt)
          (fun st found => scan_bits peer k st (snd (src_scan_bit idn (Z.of_nat (S k)) sub nxt found)) sub nxt).
  Proof.
    unfold src_scan_bit. cbn [negb fst snd].
    replace (Z.of_nat (S k) - 1) with (Z.of_nat k) by lia. split; [reflexivity|].
    cbn [scan_bits].
    destruct (send_fast_scan_message peer st idn (Z.of_nat k) sub nxt) as [st1 [found|e|c]]; cbn [sbind]; try reflexivity.
    destruct found; reflexivity.
  Qed.

  (* ---- fast_scan, outer loop: condition and body (before / after the inner loop) ---- *)
  Lemma src_scan_parts_continue_eq n : (n <= 4)%nat ->
    src_scan_parts_continue (4 - Z.of_nat n) = match n with O => false | S _ => true end.
  Proof. intros H. unfold src_scan_parts_continue. destruct n; lia. Qed.

  (* one unfolding of scan_parts = lss_bit_check = 32, the inner loop (which ends at the only value reachable from
     32 that fails its condition, 0), lss_next = (lss_sub + 1) & 3, the confirmation probe with that bit_check and
     the new lss_next, `return False, None` when it is not answered, otherwise lss_sub += 1 *)
  Lemma src_scan_part_eq k (st : M) l sub nxt :
    src_scan_bits_continue 0 = false /\
    scan_parts peer (S k) st l sub nxt =
    sbind (scan_bits peer (Z.to_nat src_scan_part_pre) st (nth (Z.to_nat sub) l 0) sub nxt) (fun st idn =>
    sbind (send_fast_scan_message peer st idn 0 sub (snd (src_scan_part_post sub nxt true))) (fun st ok =>
    let '(go, sub', nxt') := src_scan_part_post sub nxt ok in
    if go then scan_parts peer k st (upd l sub idn) sub' nxt' else (st, Ok (false, None)))).
  Proof.
    split; [reflexivity|]. rewrite scan_parts_S.
    change (Z.to_nat src_scan_part_pre) with 32%nat.
    destruct (scan_bits peer 32 st (nth (Z.to_nat sub) l 0) sub nxt) as [st1 [idn|e|c]]; cbn [sbind]; try reflexivity.
    unfold src_scan_part_post. cbn [negb snd].
    destruct (send_fast_scan_message peer st1 idn 0 sub (Z.land (sub + 1) 3)) as [st2 [ok|e|c]]; cbn [sbind]; try reflexivity.
    destruct ok; reflexivity.
  Qed.

  (* ---- fast_scan: initial values and the first probe ---- *)
  Lemma src_fast_scan_init_eq (st : M) :
    let '(id0, bc, sub, nxt) := src_fast_scan_init in
    fast_scan peer st =
    sbind (send_fast_scan_message peer st id0 bc sub nxt) (fun st ok =>
    if ok then scan_parts peer 4 st [id0; id0; id0; id0] sub nxt else (st, Ok (false, None))).
  Proof. reflexivity. Qed.

  (* ---- __send_inquire_node_id ---- *)
  Lemma src_send_inquire_node_id_eq (st : M) :
    inquire_node_id peer st =
    match send_command peer st [fst (fst (src_send_inquire_node_id 0 0 0)); 0; 0; 0; 0; 0; 0; 0] with
    | (st1, Ok (Some (r0 :: r1 :: _))) =>
        let '(_, code, v) := src_send_inquire_node_id r0 r1 0 in
        if code =? 1 then (st1, Ok v) else (st1, Err E_LSS)
    | (st1, Ok (Some _)) => (st1, Err E_STRUCT)
    | (st1, Ok None) => (st1, Err E_TYPE)
    | (st1, Err k) => (st1, Err k)
    | (st1, Abort c) => (st1, Abort c)
    end.
  Proof.
    change (fst (fst (src_send_inquire_node_id 0 0 0))) with CS_INQUIRE_NODE_ID.
    unfold inquire_node_id, src_send_inquire_node_id.
    destruct (send_command peer st [CS_INQUIRE_NODE_ID; 0; 0; 0; 0; 0; 0; 0]) as [st1 [[[|r0 [|r1 t]]|]|k|c]];
      try reflexivity.
    cbn [sbind unpack_BB fst snd]. destruct (r0 =? CS_INQUIRE_NODE_ID); reflexivity.
  Qed.

  (* ---- __send_inquire_lss_address ---- *)
  Lemma src_send_inquire_lss_address_eq (st : M) cs : u8 cs ->
    (forall r0 r1 b, fst (fst (src_send_inquire_lss_address cs r0 r1 b)) = cs) /\
    inquire_lss_address peer st cs =
    match send_command peer st [cs; 0; 0; 0; 0; 0; 0; 0] with
    | (st1, Ok (Some l)) =>
        if 5 <=? zlen l then
          let '(_, code, v) := src_send_inquire_lss_address cs (nth 0 l 0) (le_decode (firstn 4 (skipn 1 l))) 0 in
          if code =? 1 then (st1, Ok v) else (st1, Err E_LSS)
        else (st1, Err E_STRUCT)
    | (st1, Ok None) => (st1, Err E_TYPE)
    | (st1, Err k) => (st1, Err k)
    | (st1, Abort c) => (st1, Abort c)
    end.
  Proof.
    intros Hc. unfold inquire_lss_address, src_send_inquire_lss_address. split.
    { intros r0 r1 b. destruct (negb (r0 =? cs)); reflexivity. }
    rewrite byte_arg_ok by assumption. cbn [sbind].
    destruct (send_command peer st [cs; 0; 0; 0; 0; 0; 0; 0]) as [st1 [[l|]|k|c]]; try reflexivity.
    cbn [sbind unpack_BI]. destruct (5 <=? zlen l); cbn [sbind fst snd]; [|reflexivity].
    destruct (nth 0 l 0 =? cs); reflexivity.
  Qed.

  (* ---- __send_configure: bytes 0..2 of the request, specifier check, error code check ---- *)
  Lemma src_send_configure_eq (st : M) cs v1 v2 : u8 cs -> u8 v1 -> u8 v2 ->
    (forall r0 r1 x y z, let '(b0, b1, b2, _) := src_send_configure cs v1 v2 r0 r1 x y z in (b0, b1, b2) = (cs, v1, v2)) /\
    send_configure peer st cs v1 v2 =
    match send_command peer st [cs; v1; v2; 0; 0; 0; 0; 0] with
    | (st1, Ok (Some (r0 :: r1 :: _))) =>
        let '(_, _, _, code) := src_send_configure cs v1 v2 r0 r1 0 0 0 in
        if code =? 1 then (st1, Ok tt) else (st1, Err E_LSS)
    | (st1, Ok (Some _)) => (st1, Err E_STRUCT)
    | (st1, Ok None) => (st1, Err E_TYPE)
    | (st1, Err k) => (st1, Err k)
    | (st1, Abort c) => (st1, Abort c)
    end.
  Proof.
    intros H0 H1 H2. unfold send_configure, src_send_configure. split.
    { intros r0 r1 x y z. destruct (negb (r0 =? cs)); [reflexivity|]. destruct (negb (r1 =? ERROR_NONE)); reflexivity. }
    rewrite !byte_arg_ok by assumption. cbn [sbind].
    destruct (send_command peer st [cs; v1; v2; 0; 0; 0; 0; 0]) as [st1 [[[|r0 [|r1 t]]|]|k|c]]; try reflexivity.
    cbn [sbind unpack_BB fst snd]. destruct (r0 =? cs); cbn [negb]; [|reflexivity].
    destruct (r1 =? ERROR_NONE); reflexivity.
  Qed.

  (* ---- the public configure services: what they hand to __send_configure ---- *)
  Lemma src_configure_services_eq (st : M) n :
    (let '(a0, a1, a2) := src_configure_node_id n in configure_node_id peer st n = send_configure peer st a0 a1 a2) /\
    (let '(a0, a1, a2) := src_configure_bit_timing n in configure_bit_timing peer st n = send_configure peer st a0 a1 a2) /\
    (let '(a0, a1, a2) := src_store_configuration in store_configuration peer st = send_configure peer st a0 a1 a2).
  Proof. repeat split. Qed.

  (* ---- __send_command: the queue is replaced (before the frame goes out) iff it is not empty, the frame goes out on
          LSS_TX_COBID, no answer is awaited unless message[0] is in ListMessageNeedResponse, an empty queue at
          the time-out is LssError, otherwise the head of the queue is returned ---- *)
  Lemma src_send_command_eq (st : M) msg :
    let q_empty := match responses st with [] => true | _ => false end in
    let '(flushed, _, cob, _) := src_send_command q_empty (nth 0 msg 0) true false false 0 in
    let st0 := if flushed then mkM [] (pst st) (bus st) else st in
    let st1 := send_message peer st0 cob msg in
    let timed_out := match responses st1 with [] => true | _ => false end in
    let '(_, sent, _, code) := src_send_command q_empty (nth 0 msg 0) timed_out false false 0 in
    sent = true /\
    send_command peer st msg =
    if code =? 1 then (st1, Ok None)
    else if code =? 2 then (mkM (tl (responses st1)) (pst st1) (bus st1), Ok (hd_error (responses st1)))
    else (st1, Err E_LSS).
  Proof.
    unfold send_command, src_send_command.
    destruct (responses st) as [|r q]; cbn [negb];
      destruct (zmem (nth 0 msg 0) ListMessageNeedResponse); cbn [negb];
      match goal with |- context [send_message peer ?s LSS_TX_COBID msg] =>
        destruct (responses (send_message peer s LSS_TX_COBID msg)) eqn:E end;
      split; reflexivity.
  Qed.
End AnyPeer.
