(* Tie (c) for C13: BlockUploadStream.read / _ack_block / _end_upload / readinto / close as translated from the CURRENT
   source text (Gen/SrcC13.v, state skeletons) determine the model functions of Model/BlockUl.v: the sequence check and
   when _retransmit is called, when the sub-block is acknowledged and with which numbers, the c bit, the trimming bound
   8 - n, when the CRC is fed and compared (abort 0x05040004), the size check (abort 0x06070010), _done / pos / _error. *)
From Coq Require Import ZArith List Bool Lia.
From CV Require Import Base.Val Base.Bytes Gen.SdoTables Gen.SrcC13 Model.Crc Model.RefBlockServer Model.BlockDl Model.BlockUl.
Import ListNotations.
Open Scope Z_scope.

Definition usome (o : option Z) : bool := match o with Some _ => true | None => false end.
Definition uget (o : option Z) : Z := match o with Some x => x | None => 0 end.

(* the skeleton of read(n), n >= 0, no _pending left over, on the stream state u *)
Definition SK (u : ul) (timed_out : bool) (cmd_d cmd_r ack_r n : Z) (cm : bool) (dl : Z) :=
  src_ul_read false false 7 (u_done u) timed_out cmd_d cmd_r ack_r (u_ackseq u) (u_blksize u) n (u_crcsup u) cm dl (u_pos u)
              (usome (u_size u)) (uget (u_size u)) (u_error u) 0 0 false 0 0 false 0.

Section Eq.
  Context {S : Type} (srv : S -> frame -> S * list frame).
  Notation net := (@net S).

  Theorem src_ul_ack_block_eq u (w : net) :
    ack_block srv u w =
    let '(b0, b1, b2, sent, a') := src_ul_ack_block (u_ackseq u) (u_blksize u) 0 0 0 false in
    (set_ackseq u a', if sent then send_request srv w [b0; b1; b2; 0; 0; 0; 0; 0] else w).
  Proof. reflexivity. Qed.

  Theorem src_ul_end_upload_eq u (w : net) :
    end_upload srv u w =
    match read_response w with
    | (Err k, w1) => (Err k, u, w1)
    | (Abort a, w1) => (Abort a, u, w1)
    | (Ok r, w1) =>
        let u1 := mkul (u_done u) (u_pos u) (u_crc u) (Some (fb r 1 + 256 * fb r 2)) (u_ackseq u)
                       (u_error u) (u_size u) (u_crcsup u) (u_blksize u) in
        let '(ok, v) := src_ul_end_upload (fb r 0) 0 in
        if ok =? 1 then (Ok v, u1, w1) else (Err E_SDOCOMM, set_error u1, client_abort srv w1 v)
    end.
  Proof.
    unfold end_upload, src_ul_end_upload. destruct (read_response w) as [[r|k|a] w1]; try reflexivity.
    destruct (negb (Z.land (fb r 0) 224 =? RESPONSE_BLOCK_UPLOAD)); [reflexivity|].
    destruct (negb (Z.land (fb r 0) 3 =? END_BLOCK_TRANSFER)); reflexivity.
  Qed.

  Theorem src_ul_close_eq u (w : net) :
    ul_close srv u w =
    (let '(b0, sent) := src_ul_close false (u_done u) (u_error u) 0 false in
     if sent then send_request srv w [b0; 0; 0; 0; 0; 0; 0; 0] else w) /\
    forall d e b s, src_ul_close true d e b s = (b, s).        (* an already closed stream sends nothing *)
  Proof.
    split; [|reflexivity]. unfold ul_close, src_ul_close. destruct (u_done u && negb (u_error u)); reflexivity.
  Qed.

  Lemma zlen_firstn_min (l : list Z) k : 0 <= k -> zlen (firstn (Z.to_nat k) l) = Z.min k (zlen l).
  Proof. intros H. unfold zlen. rewrite firstn_length. lia. Qed.

  Lemma zlen_skipn_min (l : list Z) k : 0 <= k -> zlen (skipn (Z.to_nat k) l) = zlen l - Z.min k (zlen l).
  Proof. intros H. unfold zlen. rewrite skipn_length. lia. Qed.

  (* readinto(b), len(b) = k: read(7) is called iff nothing is pending; min(k, available) bytes are handed out *)
  Theorem src_ul_readinto_eq k u pend (w : net) : 0 <= k ->
    match pend with
    | [] =>
        forall d u1 w1, ul_read srv u w = (Ok d, u1, w1) ->
        ul_readinto srv k u [] w = ((Ok (firstn (Z.to_nat k) d), u1, w1), skipn (Z.to_nat k) d) /\
        src_ul_readinto k 0 (zlen d) false = (true, zlen (firstn (Z.to_nat k) d), zlen (skipn (Z.to_nat k) d))
    | _ =>
        ul_readinto srv k u pend w = ((Ok (firstn (Z.to_nat k) pend), u, w), skipn (Z.to_nat k) pend) /\
        forall rlen, src_ul_readinto k (zlen pend) rlen false =
                     (false, zlen (firstn (Z.to_nat k) pend), zlen (skipn (Z.to_nat k) pend))
    end.
  Proof.
    intros Hk. destruct pend as [|p0 pend0].
    - intros d u1 w1 Hr. unfold ul_readinto. rewrite Hr. split; [reflexivity|].
      unfold src_ul_readinto. cbn [Z.eqb negb]. rewrite zlen_firstn_min, zlen_skipn_min by assumption. reflexivity.
    - split; [reflexivity|]. intros rlen. unfold src_ul_readinto.
      assert (Hz : (zlen (p0 :: pend0) =? 0) = false) by (unfold zlen; cbn [length]; lia).
      rewrite Hz. cbn [negb]. rewrite zlen_firstn_min, zlen_skipn_min by assumption. reflexivity.
  Qed.

  (* ---- read(): closed form of the skeleton once the segment has been obtained ---- *)
  Definition rd_out : Type := (Z * Z * Z * bool * Z * Z * bool * bool * Z * bool * Z)%type.
  Definition rd_code (t : rd_out) : Z := let '(x, _, _, _, _, _, _, _, _, _, _) := t in x.
  Definition rd_nretx (t : rd_out) : Z := let '(_, x, _, _, _, _, _, _, _, _, _) := t in x.
  Definition rd_ackseq (t : rd_out) : Z := let '(_, _, x, _, _, _, _, _, _, _, _) := t in x.
  Definition rd_acked (t : rd_out) : bool := let '(_, _, _, x, _, _, _, _, _, _, _) := t in x.
  Definition rd_rc (t : rd_out) : Z := let '(_, _, _, _, x, _, _, _, _, _, _) := t in x.
  Definition rd_hi (t : rd_out) : Z := let '(_, _, _, _, _, x, _, _, _, _, _) := t in x.
  Definition rd_done (t : rd_out) : bool := let '(_, _, _, _, _, _, x, _, _, _, _) := t in x.
  Definition rd_crcp (t : rd_out) : bool := let '(_, _, _, _, _, _, _, x, _, _, _) := t in x.
  Definition rd_pos (t : rd_out) : Z := let '(_, _, _, _, _, _, _, _, x, _, _) := t in x.
  Definition rd_err (t : rd_out) : bool := let '(_, _, _, _, _, _, _, _, _, x, _) := t in x.
  Definition rd_abort (t : rd_out) : Z := let '(_, _, _, _, _, _, _, _, _, _, x) := t in x.

  (* a = _ackseq (accounting for the segment), c = its command byte, n = unused bytes announced by the end frame,
     cm = "announced CRC = CRC of the data", dl = len(data) *)
  Definition rd_tail (a blk c n : Z) (crcsup cm : bool) (dl pos : Z) (szh : bool) (sz : Z) (err : bool) (nretx : Z) : rd_out :=
    let last := negb (Z.land c NO_MORE_BLOCKS =? 0) in
    let crcfail := crcsup && last && negb cm in
    let sizefail := negb crcfail && last && szh && negb (pos + dl =? sz) in
    (if crcfail || sizefail then 0 else 1, nretx, a, (blk <=? a) || last, c, if last then 8 - n else 8, last, crcsup,
     if crcfail then pos else pos + dl, crcfail || sizefail || err,
     if crcfail then 84148228 else if sizefail then 101122064 else 0).

  Ltac crunch6 a blk c pos dl sz :=
    destruct (blk <=? a); destruct (Z.land c NO_MORE_BLOCKS =? 0);
    repeat match goal with |- context [u_crcsup ?u] => destruct (u_crcsup u) end;
    repeat match goal with |- context [usome ?o] => destruct (usome o) end;
    destruct (pos + dl =? sz); cbn [negb andb orb];
    repeat match goal with |- context [negb ?b] => is_var b; destruct b end;
    repeat match goal with |- context [if ?b then _ else _] => is_var b; destruct b end;
    cbn [negb andb orb]; reflexivity.

  Lemma SK_timeout u cd c a n cm dl : u_done u = false ->
    SK u true cd c a n cm dl =
    rd_tail a (u_blksize u) c n (u_crcsup u) cm dl (u_pos u) (usome (u_size u)) (uget (u_size u)) (u_error u) 1.
  Proof.
    intros Hd. unfold SK, src_ul_read, rd_tail. rewrite Hd. cbn [negb orb andb Z.ltb Z.compare Z.add]. rewrite !Z.geb_leb.
    crunch6 a (u_blksize u) c (u_pos u) dl (uget (u_size u)).
  Qed.

  Lemma SK_direct u cd cr ar n cm dl : u_done u = false ->
    SK u false cd cr ar n cm dl =
    if Z.land cd 127 =? u_ackseq u + 1
    then rd_tail (Z.land cd 127) (u_blksize u) cd n (u_crcsup u) cm dl (u_pos u) (usome (u_size u)) (uget (u_size u)) (u_error u) 0
    else rd_tail ar (u_blksize u) cr n (u_crcsup u) cm dl (u_pos u) (usome (u_size u)) (uget (u_size u)) (u_error u) 1.
  Proof.
    intros Hd. unfold SK, src_ul_read, rd_tail. rewrite Hd. cbn [negb orb andb Z.ltb Z.compare Z.add]. rewrite !Z.geb_leb.
    destruct (Z.land cd 127 =? u_ackseq u + 1).
    - crunch6 (Z.land cd 127) (u_blksize u) cd (u_pos u) dl (uget (u_size u)).
    - crunch6 ar (u_blksize u) cr (u_pos u) dl (uget (u_size u)).
  Qed.

  Lemma SK_done u t cd cr ar n cm dl : u_done u = true -> rd_code (SK u t cd cr ar n cm dl) = 12.
  Proof. intros Hd. unfold SK, src_ul_read. rewrite Hd. reflexivity. Qed.

  (* read(): everything after the segment has been obtained (resp, command byte fb resp 0; _ackseq already accounts for
     it).  The skeleton is entered through its time-out branch with _retransmit() returning resp. *)
  Theorem src_ul_read_tail_eq u (w : net) resp : u_done u = false ->
    read_tail srv u w resp =
    let sk := SK u true 0 (fb resp 0) (u_ackseq u) in
    let t0 := sk 0 true 0 in
    let '(u1, w1) := if rd_acked t0 then ack_block srv u w else (u, w) in
    let fin n (u2 : ul) (w2 : net) : RU (list Z) :=
      let data := skipn 1 (firstn (Z.to_nat (rd_hi (sk n true 0))) resp) in
      let crc' := if u_crcsup u then crc_from (u_crc u) data else u_crc u in
      let cm := match u_scrc u2 with Some sc => sc =? crc' | None => false end in
      let t := sk n cm (zlen data) in
      let u3 := mkul (rd_done t) (rd_pos t) (if rd_crcp t then crc_from (u_crc u) data else u_crc u) (u_scrc u2)
                     (u_ackseq u2) (rd_err t) (u_size u) (u_crcsup u) (u_blksize u) in
      if rd_code t =? 0 then (Err E_SDOCOMM, u3, client_abort srv w2 (rd_abort t)) else (Ok data, u3, w2) in
    if negb (Z.land (rd_rc t0) NO_MORE_BLOCKS =? 0) then
      match end_upload srv u1 w1 with
      | (Ok n, u2, w2) => fin n u2 w2
      | (Err k, u2, w2) => (Err k, u2, w2)
      | (Abort a, u2, w2) => (Abort a, u2, w2)
      end
    else fin 0 u1 w1.
  Proof.
    intros Hd. cbv zeta. unfold read_tail.
    rewrite !(SK_timeout u 0 (fb resp 0) (u_ackseq u) 0 true 0 Hd).
    Ltac prj := cbn [rd_code rd_nretx rd_ackseq rd_acked rd_rc rd_hi rd_done rd_crcp rd_pos rd_err rd_abort].
    unfold rd_tail at 1 2. prj.
    destruct (Z.land (fb resp 0) NO_MORE_BLOCKS =? 0) eqn:El; cbn [negb orb andb].
    - rewrite orb_false_r. unfold ack_block.
      destruct (u_blksize u <=? u_ackseq u); cbv iota beta;
        cbn [set_ackseq u_crcsup u_crc u_scrc u_pos u_size u_error u_ackseq u_blksize u_done];
        rewrite !SK_timeout by assumption; unfold rd_tail; prj; rewrite El; cbn [negb andb orb Z.eqb];
        rewrite !andb_false_r; cbn [andb orb Z.eqb]; destruct (u_crcsup u); reflexivity.
    - rewrite orb_true_r. unfold end_upload, ack_block. cbv iota beta.
      destruct (read_response (send_request srv w (ul_ack_request u))) as [[r|k|a] w1]; try reflexivity.
      cbn [set_ackseq u_done u_pos u_crc u_scrc u_ackseq u_error u_size u_crcsup u_blksize].
      destruct (negb (Z.land (fb r 0) 224 =? RESPONSE_BLOCK_UPLOAD)); [reflexivity|].
      destruct (negb (Z.land (fb r 0) 3 =? END_BLOCK_TRANSFER)); [reflexivity|].
      cbn [set_ackseq u_done u_pos u_crc u_scrc u_ackseq u_error u_size u_crcsup u_blksize].
      rewrite !SK_timeout by assumption. unfold rd_tail. prj. rewrite El. cbn [negb andb orb].
      set (n := Z.land (Z.shiftr (fb r 0) 2) 7).
      set (data := skipn 1 (firstn (Z.to_nat (8 - n)) resp)).
      destruct (u_crcsup u) eqn:Ec; cbn [andb negb orb].
      + destruct (fb r 1 + 256 * fb r 2 =? crc_from (u_crc u) data) eqn:Em; cbn [negb andb orb Z.eqb set_error].
        * destruct (u_size u) as [s|] eqn:Es; cbn [usome uget andb orb].
          -- destruct (u_pos u + zlen data =? s); cbn [negb orb Z.eqb set_error]; reflexivity.
          -- reflexivity.
        * reflexivity.
      + destruct (u_size u) as [s|] eqn:Es; cbn [usome uget andb orb].
        * destruct (u_pos u + zlen data =? s); cbn [negb orb Z.eqb set_error]; reflexivity.
        * reflexivity.
  Qed.

  (* read(): how the segment is obtained - the sequence check and the two ways into _retransmit() *)
  Theorem src_ul_read_dispatch_eq u (w : net) :
    ul_read srv u w =
    if rd_code (SK u false 0 0 0 0 true 0) =? 12 then (Ok [], u, w)        (* _done: b"" *)
    else
      let via_retransmit w1 :=
        match ul_retransmit srv u w1 with
        | (Ok response', u2, w2) => read_tail srv u2 w2 response'
        | (Err k, u2, w2) => (Err k, u2, w2)
        | (Abort a, u2, w2) => (Abort a, u2, w2)
        end in
      match read_response w with
      | (Abort a, w1) => (Abort a, u, w1)
      | (Err _, w1) => via_retransmit w1                                   (* timed_out: skeleton's except branch *)
      | (Ok response, w1) =>
          let t := SK u false (fb response 0) 0 0 0 true 0 in
          if rd_nretx t =? 0 then read_tail srv (set_ackseq u (rd_ackseq t)) w1 response else via_retransmit w1
      end.
  Proof.
    unfold ul_read. destruct (u_done u) eqn:Hd.
    - rewrite (SK_done u false 0 0 0 0 true 0 Hd). reflexivity.
    - assert (H12 : (rd_code (SK u false 0 0 0 0 true 0) =? 12) = false).
      { rewrite SK_direct by assumption. destruct (Z.land 0 127 =? u_ackseq u + 1); unfold rd_tail, rd_code;
          match goal with |- ((if ?c then 0 else 1) =? 12) = false => destruct c; reflexivity end. }
      rewrite H12. cbv zeta.
      destruct (read_response w) as [[resp|k|a] w1]; try reflexivity.
      rewrite SK_direct by assumption.
      destruct (Z.land (fb resp 0) 127 =? u_ackseq u + 1); reflexivity.
  Qed.
End Eq.
