(* Proofs about Model/Lss.v against Model/RefLssSlave.v (C18). *)
From Coq Require Import ZArith List Bool Lia ZifyBool.
From CV Require Import Base.Val Base.Bytes Base.Tys Gen.LssTables Model.RefLssSlave Model.Lss.
Import ListNotations.
Open Scope Z_scope.
Ltac Zify.zify_post_hook ::= Z.to_euclidean_division_equations.

Definition u32 (x : Z) : Prop := 0 <= x < 4294967296.
Definition u16 (x : Z) : Prop := 0 <= x < 65536.
Definition u8 (x : Z) : Prop := 0 <= x < 256.

(* ------------------------------------------------------------------ packing *)
Lemma byte_arg_ok v : u8 v -> byte_arg v = Ok v.
Proof. unfold u8, byte_arg. intros H. destruct ((0 <=? v) && (v <? 256)) eqn:E; [reflexivity|lia]. Qed.

Lemma pack_u32_ok v : u32 v -> pack_u32 v = Ok (le_encode 4 v).
Proof. unfold u32, pack_u32. intros H. destruct ((0 <=? v) && (v <? 4294967296)) eqn:E; [reflexivity|lia]. Qed.

Lemma pack_u16_ok v : u16 v -> pack_u16 v = Ok (le_encode 2 v).
Proof. unfold u16, pack_u16. intros H. destruct ((0 <=? v) && (v <? 65536)) eqn:E; [reflexivity|lia]. Qed.

Lemma pack_fast_scan_ok idn bc sub nxt : u32 idn -> u8 bc -> u8 sub -> u8 nxt ->
  pack_fast_scan CS_FAST_SCAN idn bc sub nxt = Ok (CS_FAST_SCAN :: le_encode 4 idn ++ [bc; sub; nxt]).
Proof.
  unfold u32, u8, pack_fast_scan. intros.
  replace (0 <=? CS_FAST_SCAN) with true by reflexivity.
  replace (CS_FAST_SCAN <? 256) with true by reflexivity.
  destruct (true && true && (0 <=? idn) && (idn <? 4294967296) && (0 <=? bc) && (bc <? 256) && (0 <=? sub) && (sub <? 256)
            && (0 <=? nxt) && (nxt <? 256)) eqn:E; [reflexivity|lia].
Qed.

(* ------------------------------------------------------------------ frame fields *)
Lemma u32_at1 c x rest : u32 x -> u32_at 1 (c :: le_encode 4 x ++ rest) = x.
Proof.
  unfold u32, u32_at. intros H. cbn [skipn].
  rewrite firstn_app, le_encode_length. change (firstn (4 - 4) rest) with (@nil Z).
  rewrite app_nil_r, firstn_all2 by (rewrite le_encode_length; lia).
  rewrite le_decode_encode. change (2 ^ (8 * Z.of_nat 4)) with 4294967296. apply Z.mod_small. lia.
Qed.

Lemma u16_at1 c x rest : u16 x -> u16_at 1 (c :: le_encode 2 x ++ rest) = x.
Proof.
  unfold u16, u16_at. intros H. cbn [skipn].
  rewrite firstn_app, le_encode_length. change (firstn (2 - 2) rest) with (@nil Z).
  rewrite app_nil_r, firstn_all2 by (rewrite le_encode_length; lia).
  rewrite le_decode_encode. change (2 ^ (8 * Z.of_nat 2)) with 65536. apply Z.mod_small. lia.
Qed.

Lemma zlen_frame4 c x a b d : zlen (c :: le_encode 4 x ++ [a; b; d]) = 8.
Proof. reflexivity. Qed.

(* ------------------------------------------------------------------ __send_command, any peer *)
Definition rxq (rs : list (Z * list Z)) : list (list Z) :=
  map snd (filter (fun m => fst m =? LSS_RX_COBID) rs).

Definition rx_log (rs : list (Z * list Z)) : list busmsg := map (fun m => Rx (fst m) (snd m)) rs.

Section AnyPeer.
  Context {P : Type} (peer : P -> Z -> list Z -> P * list (Z * list Z)).

  Lemma fold_notify rs : forall q, fold_left notify rs q = q ++ rxq rs.
  Proof.
    induction rs as [|m rs IH]; intros q; cbn [fold_left].
    - unfold rxq. cbn. now rewrite app_nil_r.
    - rewrite IH. unfold notify, rxq. cbn [filter]. destruct (fst m =? LSS_RX_COBID); cbn [map].
      + now rewrite <- app_assoc.
      + reflexivity.
  Qed.

  (* the queue is flushed before the request goes out; the answer is the first frame the peer sends on the
     slave's COB-ID in reaction to this request *)
  Lemma send_command_eq (st : mstate P) msg :
    send_command peer st msg =
    let pr := peer (pst st) LSS_TX_COBID msg in
    let b' := bus st ++ Tx LSS_TX_COBID msg :: rx_log (snd pr) in
    if negb (zmem (nth 0 msg 0) ListMessageNeedResponse) then (mkM (rxq (snd pr)) (fst pr) b', Ok None)
    else match rxq (snd pr) with
         | [] => (mkM [] (fst pr) b', Err E_LSS)
         | r :: q => (mkM q (fst pr) b', Ok (Some r))
         end.
  Proof.
    unfold send_command, send_message.
    assert (E : pst (match responses st with [] => st | _ :: _ => mkM [] (pst st) (bus st) end) = pst st
                /\ bus (match responses st with [] => st | _ :: _ => mkM [] (pst st) (bus st) end) = bus st
                /\ responses (match responses st with [] => st | _ :: _ => mkM [] (pst st) (bus st) end) = []).
    { destruct st as [q p b]. cbn. destruct q; cbn; auto. }
    destruct E as (E1 & E2 & E3). rewrite E1, E2, E3.
    destruct (peer (pst st) LSS_TX_COBID msg) as [p' rs]. cbn [fst snd].
    rewrite fold_notify. cbn [app responses pst bus]. unfold rx_log.
    destruct (negb (zmem (nth 0 msg 0) ListMessageNeedResponse)); [reflexivity|].
    destruct (rxq rs); reflexivity.
  Qed.
End AnyPeer.

(* ------------------------------------------------------------------ bit facts for the scan *)
(* bits n.. of x, lower bits cleared: the accumulated id after bits 31..n of a part have been decided *)
Definition hi (x n : Z) : Z := Z.shiftl (Z.shiftr x n) n.

Lemma hi_bits x n i : 0 <= n -> 0 <= i -> Z.testbit (hi x n) i = (n <=? i) && Z.testbit x i.
Proof.
  intros Hn Hi. unfold hi. rewrite Z.shiftl_spec by lia.
  destruct (n <=? i) eqn:E.
  - rewrite Z.shiftr_spec by lia. cbn [andb]. f_equal. lia.
  - rewrite Z.testbit_neg_r by lia. reflexivity.
Qed.

Lemma hi_0 x : hi x 0 = x.
Proof. unfold hi. now rewrite Z.shiftr_0_r, Z.shiftl_0_r. Qed.

Lemma hi_32 x : u32 x -> hi x 32 = 0.
Proof.
  unfold u32, hi. intros H. rewrite Z.shiftr_div_pow2 by lia.
  change (2 ^ 32) with 4294967296. rewrite Z.div_small by lia. apply Z.shiftl_0_l.
Qed.

Lemma hi_u32 x n : 0 <= n -> u32 x -> u32 (hi x n).
Proof.
  unfold u32, hi. intros Hn H. rewrite Z.shiftr_div_pow2, Z.shiftl_mul_pow2 by lia.
  assert (0 < 2 ^ n) by (apply Z.pow_pos_nonneg; lia).
  remember (2 ^ n) as m. rewrite Z.mul_comm.
  pose proof (Z.mul_div_le x m ltac:(lia)). pose proof (Z.div_pos x m ltac:(lia) ltac:(lia)).
  pose proof (Z.mul_nonneg_nonneg m (x / m) ltac:(lia) ltac:(lia)). lia.
Qed.

Lemma fs_mask_bits k i : 0 <= k -> 0 <= i -> Z.testbit (fs_mask k) i = (k <=? i) && (i <? 32).
Proof.
  intros Hk Hi. unfold fs_mask. change 4294967295 with (Z.ones 32).
  rewrite Z.land_spec, Z.shiftl_spec by lia.
  destruct (i <? 32) eqn:E32.
  - rewrite (Z.ones_spec_low 32 i) by lia. rewrite andb_true_r.
    destruct (k <=? i) eqn:Ek.
    + apply Z.ones_spec_low. lia.
    + apply Z.testbit_neg_r. lia.
  - rewrite (Z.ones_spec_high 32 i) by lia. now rewrite !andb_false_r.
Qed.

(* the slave's mask compare at bit k, with the bits above k already right and bit k still 0 in the id,
   succeeds exactly when bit k of the slave's number is 0 *)
Lemma mask_test x k : 0 <= k < 32 ->
  (Z.land x (fs_mask k) =? Z.land (hi x (k + 1)) (fs_mask k)) = negb (Z.testbit x k).
Proof.
  intros Hk. destruct (Z.testbit x k) eqn:B; cbn [negb].
  - apply Z.eqb_neq. intros E.
    assert (F : Z.testbit (Z.land x (fs_mask k)) k = Z.testbit (Z.land (hi x (k + 1)) (fs_mask k)) k) by now rewrite E.
    rewrite !Z.land_spec, fs_mask_bits, hi_bits, B in F by lia.
    replace (k + 1 <=? k) with false in F by lia. replace (k <=? k) with true in F by lia.
    replace (k <? 32) with true in F by lia. discriminate.
  - apply Z.eqb_eq. apply Z.bits_inj'. intros i Hi.
    rewrite !Z.land_spec, fs_mask_bits, hi_bits by lia.
    destruct (k <=? i) eqn:E1; cbn [andb]; [|now rewrite !andb_false_r].
    destruct (Z.eq_dec i k) as [->|Hne].
    + rewrite B. replace (k + 1 <=? k) with false by lia. reflexivity.
    + replace (k + 1 <=? i) with true by lia. reflexivity.
Qed.

Lemma hi_step x k : 0 <= k ->
  hi x k = if negb (Z.testbit x k) then hi x (k + 1) else Z.lor (hi x (k + 1)) (Z.shiftl 1 k).
Proof.
  intros Hk. apply Z.bits_inj'. intros i Hi.
  destruct (Z.testbit x k) eqn:B; cbn [negb].
  - rewrite Z.lor_spec, !hi_bits by lia. rewrite Z.shiftl_1_l, Z.pow2_bits_eqb by lia.
    destruct (Z.eq_dec i k) as [->|Hne].
    + rewrite B. replace (k <=? k) with true by lia. rewrite Z.eqb_refl. now rewrite orb_true_r.
    + replace (k =? i) with false by lia. rewrite orb_false_r.
      destruct (k <=? i) eqn:E1; [replace (k + 1 <=? i) with true by lia|replace (k + 1 <=? i) with false by lia]; reflexivity.
  - rewrite !hi_bits by lia.
    destruct (Z.eq_dec i k) as [->|Hne].
    + rewrite B. now rewrite !andb_false_r.
    + destruct (k <=? i) eqn:E1; [replace (k + 1 <=? i) with true by lia|replace (k + 1 <=? i) with false by lia]; reflexivity.
Qed.

Lemma u32_lor a b : u32 a -> u32 b -> u32 (Z.lor a b).
Proof.
  unfold u32. intros Ha Hb.
  assert (Ea : a = Z.land a (Z.ones 32)) by (rewrite Z.land_ones by lia; change (2 ^ 32) with 4294967296; rewrite Z.mod_small; lia).
  assert (Eb : b = Z.land b (Z.ones 32)) by (rewrite Z.land_ones by lia; change (2 ^ 32) with 4294967296; rewrite Z.mod_small; lia).
  rewrite Ea, Eb, <- Z.land_lor_distr_l, Z.land_ones by lia. change (2 ^ 32) with 4294967296.
  apply Z.mod_pos_bound. lia.
Qed.

Lemma u32_bit k : 0 <= k < 32 -> u32 (Z.shiftl 1 k).
Proof.
  intros Hk. unfold u32. rewrite Z.shiftl_1_l. change 4294967296 with (2 ^ 32). split.
  - apply Z.pow_nonneg. lia.
  - apply Z.pow_lt_mono_r; lia.
Qed.

(* ------------------------------------------------------------------ the reference slave's reactions *)
Lemma slave_step_fastscan s f : byte_at 0 f = STD_FAST_SCAN -> zlen f = 8 ->
  slave_step s LSS_TX_COBID f = slave_fastscan s f.
Proof. intros H0 H8. unfold slave_step. rewrite H0, H8. reflexivity. Qed.

Lemma rxq_reply l : rxq (reply l) = [pad8 l].
Proof. reflexivity. Qed.

Section Scan.
  (* everything about the slave that the scan does not touch *)
  Context (ids : list Z) (sel idn0 bt dl sn sb se : Z).
  Definition SL (mode pos : Z) : slave := mkSlave ids mode NODE_UNCONFIGURED pos sel idn0 bt dl sn sb se.

  Lemma slave_fastscan_eq pos x bc sub nxt : u32 x ->
    slave_fastscan (SL ST_WAITING pos) (CS_FAST_SCAN :: le_encode 4 x ++ [bc; sub; nxt]) =
    if bc =? 128 then (SL ST_WAITING 0, reply [STD_IDENTIFY_SLAVE])
    else if (bc <? 32) && (sub <? 4) && (nxt <? 4) && (sub =? pos) then
      if Z.land (nth (Z.to_nat sub) ids 0) (fs_mask bc) =? Z.land x (fs_mask bc) then
        (SL (if (bc =? 0) && (nxt <? sub) then ST_CONFIGURATION else ST_WAITING) nxt, reply [STD_IDENTIFY_SLAVE])
      else (SL ST_WAITING pos, silent)
    else (SL ST_WAITING pos, silent).
  Proof.
    intros Hx. unfold slave_fastscan. cbv zeta. rewrite (u32_at1 _ _ _ Hx).
    change (byte_at 5 (CS_FAST_SCAN :: le_encode 4 x ++ [bc; sub; nxt])) with bc.
    change (byte_at 6 (CS_FAST_SCAN :: le_encode 4 x ++ [bc; sub; nxt])) with sub.
    change (byte_at 7 (CS_FAST_SCAN :: le_encode 4 x ++ [bc; sub; nxt])) with nxt.
    change (sl_mode (SL ST_WAITING pos) =? ST_WAITING) with true.
    change (sl_node (SL ST_WAITING pos) =? NODE_UNCONFIGURED) with true.
    cbn [andb]. change (sl_pos (SL ST_WAITING pos)) with pos.
    change (part (SL ST_WAITING pos) sub) with (nth (Z.to_nat sub) ids 0).
    change STD_BITCHECK_RESET with 128.
    destruct (bc =? 128); [reflexivity|].
    destruct ((bc <? 32) && (sub <? 4) && (nxt <? 4) && (sub =? pos)); [|reflexivity].
    destruct (Z.land (nth (Z.to_nat sub) ids 0) (fs_mask bc) =? Z.land x (fs_mask bc)); [|reflexivity].
    destruct ((bc =? 0) && (nxt <? sub)); reflexivity.
  Qed.

  (* one fast-scan message against the slave in waiting state, any queue content before *)
  Lemma sfm_slave q b pos x bc sub nxt : u32 x -> u8 bc -> u8 sub -> u8 nxt ->
    exists b',
    send_fast_scan_message slave_step (mkM q (SL ST_WAITING pos) b) x bc sub nxt =
    (let r := slave_fastscan (SL ST_WAITING pos) (CS_FAST_SCAN :: le_encode 4 x ++ [bc; sub; nxt]) in
     (mkM [] (fst r) b', Ok (match snd r with [] => false | _ => true end))).
  Proof.
    intros Hx Hbc Hsub Hnxt. unfold send_fast_scan_message.
    rewrite pack_fast_scan_ok by assumption. cbn [sbind].
    rewrite send_command_eq. cbn [pst bus].
    rewrite slave_step_fastscan by reflexivity.
    change (negb (zmem (nth 0 (CS_FAST_SCAN :: le_encode 4 x ++ [bc; sub; nxt]) 0) ListMessageNeedResponse)) with false.
    cbv iota. rewrite slave_fastscan_eq by assumption.
    destruct (bc =? 128).
    { eexists. cbv zeta. cbn [fst snd]. rewrite rxq_reply. reflexivity. }
    destruct ((bc <? 32) && (sub <? 4) && (nxt <? 4) && (sub =? pos)).
    2:{ eexists. cbv zeta. cbn [fst snd]. reflexivity. }
    destruct (Z.land (nth (Z.to_nat sub) ids 0) (fs_mask bc) =? Z.land x (fs_mask bc)).
    - eexists. cbv zeta. cbn [fst snd]. rewrite rxq_reply. reflexivity.
    - eexists. cbv zeta. cbn [fst snd]. reflexivity.
  Qed.

  Lemma reset_ok q b pos : exists b',
    send_fast_scan_message slave_step (mkM q (SL ST_WAITING pos) b) 0 128 0 0 = (mkM [] (SL ST_WAITING 0) b', Ok true).
  Proof.
    destruct (sfm_slave q b pos 0 128 0 0) as [b' E]; try (unfold u32, u8; lia).
    exists b'. rewrite E, slave_fastscan_eq by (unfold u32; lia). reflexivity.
  Qed.

  (* loop invariant of the inner loop: before bit n-1 is tried the id agrees with the slave on bits 31..n *)
  Lemma scan_bits_ok sub : 0 <= sub < 4 -> u32 (nth (Z.to_nat sub) ids 0) ->
    forall n q b, (n <= 32)%nat ->
    exists q' b',
    scan_bits slave_step n (mkM q (SL ST_WAITING sub) b) (hi (nth (Z.to_nat sub) ids 0) (Z.of_nat n)) sub sub =
    (mkM q' (SL ST_WAITING sub) b', Ok (nth (Z.to_nat sub) ids 0)).
  Proof.
    intros Hsub Hx. set (x := nth (Z.to_nat sub) ids 0) in *.
    induction n as [|k IH]; intros q b Hn.
    - exists q, b. cbn [scan_bits]. change (Z.of_nat 0) with 0. now rewrite hi_0.
    - cbn [scan_bits].
      destruct (sfm_slave q b sub (hi x (Z.of_nat (S k))) (Z.of_nat k) sub sub) as [b1 E];
        try (unfold u8; lia). { apply hi_u32; [lia|assumption]. }
      rewrite E. rewrite slave_fastscan_eq by (apply hi_u32; [lia|assumption]).
      replace (Z.of_nat k =? 128) with false by lia.
      replace ((Z.of_nat k <? 32) && (sub <? 4) && (sub <? 4) && (sub =? sub)) with true by lia.
      fold x. replace (Z.of_nat (S k)) with (Z.of_nat k + 1) by lia.
      rewrite mask_test by lia.
      rewrite Z.ltb_irrefl, andb_false_r.
      destruct (IH [] b1 ltac:(lia)) as (q' & b' & E').
      exists q', b'.
      rewrite (hi_step x (Z.of_nat k)) in E' by lia.
      destruct (Z.testbit x (Z.of_nat k)); cbn [negb fst snd sbind] in *; exact E'.
  Qed.

  (* the confirm step after the 32 bits of a part *)
  Lemma confirm_ok sub q b : 0 <= sub < 4 -> u32 (nth (Z.to_nat sub) ids 0) -> exists b',
    send_fast_scan_message slave_step (mkM q (SL ST_WAITING sub) b) (nth (Z.to_nat sub) ids 0) 0 sub (Z.land (sub + 1) 3) =
    (mkM [] (SL (if sub =? 3 then ST_CONFIGURATION else ST_WAITING) (Z.land (sub + 1) 3)) b', Ok true).
  Proof.
    intros Hsub Hx.
    assert (Hn : 0 <= Z.land (sub + 1) 3 < 4).
    { change 3 with (Z.ones 2). rewrite Z.land_ones by lia. change (2 ^ 2) with 4. lia. }
    destruct (sfm_slave q b sub (nth (Z.to_nat sub) ids 0) 0 sub (Z.land (sub + 1) 3)) as [b' E];
      try (unfold u8; lia); [assumption|].
    exists b'. rewrite E, slave_fastscan_eq by assumption.
    change (0 =? 128) with false. cbv iota.
    replace ((0 <? 32) && (sub <? 4) && (Z.land (sub + 1) 3 <? 4) && (sub =? sub)) with true by lia.
    rewrite Z.eqb_refl. change (0 =? 0) with true. cbn [andb].
    assert (C : sub = 0 \/ sub = 1 \/ sub = 2 \/ sub = 3) by lia.
    destruct C as [ -> | [ -> | [ -> | -> ] ] ]; reflexivity.
  Qed.
End Scan.

(* ------------------------------------------------------------------ fast scan finds the identity *)
Lemma scan_parts_S {P} (peer : P -> Z -> list Z -> P * list (Z * list Z)) k st l sub nxt :
  scan_parts peer (S k) st l sub nxt =
  sbind (scan_bits peer 32 st (nth (Z.to_nat sub) l 0) sub nxt) (fun st idn =>
  sbind (send_fast_scan_message peer st idn 0 sub (Z.land (sub + 1) 3)) (fun st ok =>
  if ok then scan_parts peer k st (upd l sub idn) (sub + 1) (Z.land (sub + 1) 3) else (st, Ok (false, None)))).
Proof. reflexivity. Qed.

(* one pass of the outer loop: 32 bit questions and the confirm *)
Lemma part_ok ids sel idn0 bt dl sn sb se sub k q b l :
  0 <= sub < 4 -> u32 (nth (Z.to_nat sub) ids 0) -> nth (Z.to_nat sub) l 0 = 0 ->
  exists b',
  scan_parts slave_step (S k) (mkM q (SL ids sel idn0 bt dl sn sb se ST_WAITING sub) b) l sub sub =
  scan_parts slave_step k
    (mkM [] (SL ids sel idn0 bt dl sn sb se (if sub =? 3 then ST_CONFIGURATION else ST_WAITING) (Z.land (sub + 1) 3)) b')
    (upd l sub (nth (Z.to_nat sub) ids 0)) (sub + 1) (Z.land (sub + 1) 3).
Proof.
  intros Hsub Hx Hl. rewrite scan_parts_S, Hl.
  destruct (scan_bits_ok ids sel idn0 bt dl sn sb se sub Hsub Hx 32%nat q b (le_n _)) as (q1 & b1 & E1).
  change (Z.of_nat 32) with 32 in E1. rewrite (hi_32 _ Hx) in E1. rewrite E1. cbn [sbind].
  destruct (confirm_ok ids sel idn0 bt dl sn sb se sub q1 b1 Hsub Hx) as (b2 & E2).
  rewrite E2. cbn [sbind]. exists b2. reflexivity.
Qed.

Lemma fast_scan_finds_identity v p r s q b pos sel idn0 bt dl sn sb se :
  u32 v -> u32 p -> u32 r -> u32 s ->
  exists b',
  fast_scan slave_step (mkM q (mkSlave [v; p; r; s] ST_WAITING NODE_UNCONFIGURED pos sel idn0 bt dl sn sb se) b) =
  (mkM [] (mkSlave [v; p; r; s] ST_CONFIGURATION NODE_UNCONFIGURED 0 sel idn0 bt dl sn sb se) b',
   Ok (true, Some [v; p; r; s])).
Proof.
  intros Hv Hp Hr Hs.
  change (mkSlave [v; p; r; s] ST_WAITING NODE_UNCONFIGURED pos sel idn0 bt dl sn sb se)
    with (SL [v; p; r; s] sel idn0 bt dl sn sb se ST_WAITING pos).
  unfold fast_scan.
  destruct (reset_ok [v; p; r; s] sel idn0 bt dl sn sb se q b pos) as [b0 E0]. rewrite E0. cbn [sbind].
  destruct (part_ok [v; p; r; s] sel idn0 bt dl sn sb se 0 3 [] b0 [0; 0; 0; 0]) as (b1 & E1);
    [lia|exact Hv|reflexivity|]. rewrite E1. clear E1.
  change (0 + 1) with 1. change (Z.land 1 3) with 1. change (0 =? 3) with false. cbv iota.
  destruct (part_ok [v; p; r; s] sel idn0 bt dl sn sb se 1 2 [] b1 (upd [0; 0; 0; 0] 0 v)) as (b2 & E2);
    [lia|exact Hp|reflexivity|].
  change (nth (Z.to_nat 0) [v; p; r; s] 0) with v. rewrite E2. clear E2.
  change (1 + 1) with 2. change (Z.land 2 3) with 2. change (1 =? 3) with false. cbv iota.
  destruct (part_ok [v; p; r; s] sel idn0 bt dl sn sb se 2 1 [] b2 (upd (upd [0; 0; 0; 0] 0 v) 1 p)) as (b3 & E3);
    [lia|exact Hr|reflexivity|].
  change (nth (Z.to_nat 1) [v; p; r; s] 0) with p. rewrite E3. clear E3.
  change (2 + 1) with 3. change (Z.land 3 3) with 3. change (2 =? 3) with false. cbv iota.
  destruct (part_ok [v; p; r; s] sel idn0 bt dl sn sb se 3 0 [] b3 (upd (upd (upd [0; 0; 0; 0] 0 v) 1 p) 2 r)) as (b4 & E4);
    [lia|exact Hs|reflexivity|].
  change (nth (Z.to_nat 2) [v; p; r; s] 0) with r. rewrite E4. clear E4.
  exists b4. reflexivity.
Qed.

(* ------------------------------------------------------------------ what the library puts on the bus *)
Definition sent (b : list busmsg) : list (Z * list Z) :=
  flat_map (fun m => match m with Tx c d => [(c, d)] | Rx _ _ => [] end) b.

Lemma sent_app a b : sent (a ++ b) = sent a ++ sent b.
Proof. apply flat_map_app. Qed.

Lemma sent_rx rs : sent (rx_log rs) = [].
Proof. induction rs as [|m rs IH]; [reflexivity|exact IH]. Qed.

(* side conditions on closed constants of Gen/LssTables.v *)
Ltac side := first [assumption | reflexivity | (unfold u8; split; [now vm_compute | now vm_compute])].

Lemma Forall_firstn' {A} (Q : A -> Prop) n : forall l, Forall Q l -> Forall Q (firstn n l).
Proof.
  induction n as [|n IH]; intros [|x l] H; cbn [firstn]; try constructor.
  - inversion H; assumption.
  - apply IH. inversion H; assumption.
Qed.

Lemma pad8_length l : length (pad8 l) = 8%nat.
Proof. unfold pad8. rewrite firstn_length, app_length, repeat_length. lia. Qed.

Lemma pad8_ok l : bytes_ok l -> bytes_ok (pad8 l).
Proof.
  intros H. unfold pad8. apply Forall_firstn'. apply Forall_app. split; [exact H|].
  apply Forall_forall. intros x Hx. apply repeat_spec in Hx. subst. unfold byte_ok. lia.
Qed.

Section AnyPeer2.
  Context {P : Type} (peer : P -> Z -> list Z -> P * list (Z * list Z)).
  Notation M := (mstate P).

  Lemma send_command_sent (st : M) msg :
    sent (bus (fst (send_command peer st msg))) = sent (bus st) ++ [(LSS_TX_COBID, msg)].
  Proof.
    rewrite send_command_eq. cbv zeta.
    destruct (negb (zmem (nth 0 msg 0) ListMessageNeedResponse)); [|destruct (rxq _)];
      cbn [fst bus]; rewrite sent_app; cbn [sent flat_map]; fold (sent (rx_log (snd (peer (pst st) LSS_TX_COBID msg))));
      rewrite sent_rx; reflexivity.
  Qed.

  Lemma sbind_keep {A B} (x : M * res A) (k : M -> A -> M * res B) :
    (forall st a, fst (k st a) = st) -> fst (sbind x k) = fst x.
  Proof. intros H. destruct x as [st [a|e|c]]; cbn [sbind fst]; [apply H|reflexivity|reflexivity]. Qed.

  (* a request that is not in ListMessageNeedResponse returns at once *)
  Lemma send_command_unawaited (st : M) msg : zmem (nth 0 msg 0) ListMessageNeedResponse = false ->
    send_command peer st msg = (fst (send_command peer st msg), Ok None).
  Proof. intros H. rewrite send_command_eq. cbv zeta. rewrite H. reflexivity. Qed.

  Lemma sla_unawaited (st : M) cs v : u8 cs -> u32 v -> zmem cs ListMessageNeedResponse = false ->
    send_lss_address peer st cs v = (fst (send_command peer st (cs :: le_encode 4 v ++ [0; 0; 0])), Ok None).
  Proof.
    intros Hc Hv H. unfold send_lss_address. rewrite byte_arg_ok, pack_u32_ok by assumption. cbn [sbind].
    apply send_command_unawaited. exact H.
  Qed.

  Lemma sla_sent (st : M) cs v : u8 cs -> u32 v ->
    sent (bus (fst (send_lss_address peer st cs v))) = sent (bus st) ++ [(LSS_TX_COBID, cs :: le_encode 4 v ++ [0; 0; 0])].
  Proof.
    intros Hc Hv. unfold send_lss_address. rewrite byte_arg_ok, pack_u32_ok by assumption. cbn [sbind].
    apply send_command_sent.
  Qed.

  (* ---- the frames CiA 305 prescribes for each call (pad8: specifier, little-endian fields, reserved bytes 0) *)
  Definition std_requests (o : lss_op) : list (list Z) :=
    match o with
    | OGlobal m => [pad8 [STD_SWITCH_GLOBAL; m]]
    | OSelective v p r s =>
        [pad8 (STD_SEL_VENDOR :: le_encode 4 v); pad8 (STD_SEL_PRODUCT :: le_encode 4 p);
         pad8 (STD_SEL_REVISION :: le_encode 4 r); pad8 (STD_SEL_SERIAL :: le_encode 4 s)]
    | OInqNode => [pad8 [STD_INQ_NODE_ID]]
    | OInqAddr cs => [pad8 [cs]]
    | OCfgNode n => [pad8 [STD_CFG_NODE_ID; n]]
    | OCfgBit b => [pad8 [STD_CFG_BIT_TIMING; 0; b]]
    | OActivate d => [pad8 (STD_ACTIVATE_BIT_TIMING :: le_encode 2 d)]
    | OStore => [pad8 [STD_STORE]]
    | OIdentRemote v p rl rh sl sh =>
        [pad8 (STD_IDENT_VENDOR :: le_encode 4 v); pad8 (STD_IDENT_PRODUCT :: le_encode 4 p);
         pad8 (STD_IDENT_REV_LOW :: le_encode 4 rl); pad8 (STD_IDENT_REV_HIGH :: le_encode 4 rh);
         pad8 (STD_IDENT_SER_LOW :: le_encode 4 sl); pad8 (STD_IDENT_SER_HIGH :: le_encode 4 sh)]
    | OIdentNonCfg => [pad8 [STD_IDENT_NON_CONFIGURED]]
    | OFastScan => []
    | OInject _ _ => []
    | ONet => []
    end.

  Definition op_in_range (o : lss_op) : Prop :=
    match o with
    | OGlobal m => u8 m
    | OSelective v p r s => u32 v /\ u32 p /\ u32 r /\ u32 s
    | OInqNode => True
    | OInqAddr cs => STD_INQ_VENDOR <= cs <= STD_INQ_SERIAL
    | OCfgNode n => u8 n
    | OCfgBit b => u8 b
    | OActivate d => u16 d
    | OStore => True
    | OIdentRemote v p rl rh sl sh => u32 v /\ u32 p /\ u32 rl /\ u32 rh /\ u32 sl /\ u32 sh
    | OIdentNonCfg => True
    | OFastScan => False
    | OInject _ _ => False
    | ONet => False
    end.

  Lemma send_configure_sent (st : M) cs v1 v2 : u8 cs -> u8 v1 -> u8 v2 ->
    sent (bus (fst (send_configure peer st cs v1 v2))) = sent (bus st) ++ [(LSS_TX_COBID, [cs; v1; v2; 0; 0; 0; 0; 0])].
  Proof.
    intros H0 H1 H2. unfold send_configure. rewrite !byte_arg_ok by assumption. cbn [sbind].
    rewrite sbind_keep.
    - apply send_command_sent.
    - intros st' a. destruct (unpack_BB a) as [[c e]|k|c]; cbn [sbind fst snd]; try reflexivity.
      destruct (negb (c =? cs)); [reflexivity|]. destruct (negb (e =? ERROR_NONE)); reflexivity.
  Qed.

  Lemma requests_exact (st : M) o : op_in_range o ->
    sent (bus (fst (run_op peer st o))) = sent (bus st) ++ map (fun f => (STD_MASTER_COBID, f)) (std_requests o).
  Proof.
    destruct o; cbn [op_in_range run_op fst std_requests map]; intros H.
    - (* switch state global *)
      unfold switch_state_global. rewrite byte_arg_ok by assumption. cbn [sbind].
      rewrite sbind_keep by reflexivity. apply send_command_sent.
    - (* switch state selective *)
      destruct H as (Hv & Hp & Hr & Hs). unfold switch_state_selective.
      rewrite sla_unawaited by side. cbn [sbind].
      rewrite sla_unawaited by side. cbn [sbind].
      rewrite sla_unawaited by side. cbn [sbind].
      rewrite sbind_keep.
      2:{ intros st' a. destruct (unpack_B a); reflexivity. }
      rewrite sla_sent by side.
      rewrite !send_command_sent. rewrite <- !app_assoc. reflexivity.
    - (* inquire node id *)
      unfold inquire_node_id. rewrite sbind_keep.
      + apply send_command_sent.
      + intros st' a. destruct (unpack_BB a) as [[c e]|k|c]; cbn [sbind fst snd]; try reflexivity.
        destruct (negb (c =? CS_INQUIRE_NODE_ID)); reflexivity.
    - (* inquire lss address *)
      unfold inquire_lss_address. rewrite byte_arg_ok by (unfold u8, STD_INQ_VENDOR, STD_INQ_SERIAL in *; lia).
      cbn [sbind]. rewrite sbind_keep.
      + apply send_command_sent.
      + intros st' a. destruct (unpack_BI a) as [[c e]|k|c']; cbn [sbind fst snd]; try reflexivity.
        destruct (negb (c =? cs)); reflexivity.
    - apply send_configure_sent; side.
    - apply send_configure_sent; side.
    - (* activate bit timing *)
      unfold activate_bit_timing. rewrite pack_u16_ok by assumption. cbn [sbind].
      rewrite sbind_keep by reflexivity. apply send_command_sent.
    - apply send_configure_sent; side.
    - (* identify remote slave *)
      destruct H as (H1 & H2 & H3 & H4 & H5 & H6). unfold identify_remote_slave.
      do 5 (rewrite sla_unawaited by side; cbn [sbind]).
      rewrite sbind_keep by reflexivity.
      rewrite sla_sent by side.
      rewrite !send_command_sent. rewrite <- !app_assoc. reflexivity.
    - (* identify non-configured remote slave *)
      unfold identify_non_configured. rewrite sbind_keep by reflexivity. apply send_command_sent.
    - contradiction.
    - contradiction.
    - contradiction.
  Qed.

End AnyPeer2.

  (* the prescribed frames are full 8-byte frames *)
  Lemma std_requests_shape o : op_in_range o -> Forall (fun f => length f = 8%nat /\ bytes_ok f) (std_requests o).
  Proof.
    assert (K : forall c l, 0 <= c < 256 -> bytes_ok l -> length (pad8 (c :: l)) = 8%nat /\ bytes_ok (pad8 (c :: l))).
    { intros c l Hc Hl. split; [apply pad8_length|]. apply pad8_ok. constructor; assumption. }
    assert (N : bytes_ok []) by constructor.
    assert (B : forall x, 0 <= x < 256 -> forall l, bytes_ok l -> bytes_ok (x :: l)) by (intros; constructor; assumption).
    destruct o; cbn [op_in_range std_requests]; intros H; unfold u8, u16, u32 in *;
      repeat match goal with H : _ /\ _ |- _ => destruct H end; try contradiction;
      repeat (apply Forall_cons; [apply K; [first [now vm_compute | (unfold STD_INQ_VENDOR, STD_INQ_SERIAL in *; lia)]|]|]);
      try apply Forall_nil; try apply le_encode_ok; repeat (apply B; [lia|]); exact N.
  Qed.

(* ------------------------------------------------------------------ fast scan against any peer *)
Definition fs_first : list Z := [STD_FAST_SCAN; 0; 0; 0; 0; STD_BITCHECK_RESET; 0; 0].

(* a well-formed fast-scan request (CiA 305): specifier 0x51, IDNumber little endian, BitCheck 0..31 or 0x80,
   LSSSub and LSSNext 0..3, on the master's COB-ID *)
Definition fs_wf (m : Z * list Z) : Prop :=
  fst m = STD_MASTER_COBID /\
  exists idn bc sub nxt,
    snd m = STD_FAST_SCAN :: le_encode 4 idn ++ [bc; sub; nxt] /\ u32 idn /\
    (bc = STD_BITCHECK_RESET \/ 0 <= bc < 32) /\ 0 <= sub < 4 /\ 0 <= nxt < 4.

Lemma Forall_skipn' {A} (Q : A -> Prop) n : forall l, Forall Q l -> Forall Q (skipn n l).
Proof.
  induction n as [|n IH]; intros [|x l] H; cbn [skipn]; try assumption.
  apply IH. inversion H; assumption.
Qed.

Lemma Forall_nth' {A} (Q : A -> Prop) d : Q d -> forall l n, Forall Q l -> Q (nth n l d).
Proof.
  intros Hd l. induction l as [|x l IH]; intros [|n] H; cbn [nth]; try assumption.
  - inversion H; assumption.
  - apply IH. inversion H; assumption.
Qed.

Lemma upd_u32 l i v : Forall u32 l -> u32 v -> Forall u32 (upd l i v).
Proof.
  intros Hl Hv. unfold upd. apply Forall_app. split; [apply Forall_firstn'; assumption|].
  constructor; [assumption|]. apply Forall_skipn'. assumption.
Qed.

Section AnyPeer3.
  Context {P : Type} (peer : P -> Z -> list Z -> P * list (Z * list Z)).
  Notation M := (mstate P).

  (* nobody answers the first frame: no slave *)
  Lemma fast_scan_no_answer (st : M) : rxq (snd (peer (pst st) LSS_TX_COBID fs_first)) = [] ->
    snd (fast_scan peer st) = Ok (false, None) /\
    sent (bus (fst (fast_scan peer st))) = sent (bus st) ++ [(STD_MASTER_COBID, fs_first)].
  Proof.
    intros H. unfold fast_scan, send_fast_scan_message.
    change (pack_fast_scan CS_FAST_SCAN 0 128 0 0) with (@Ok (list Z) fs_first). cbn [sbind].
    rewrite send_command_eq. cbv zeta.
    change (negb (zmem (nth 0 fs_first 0) ListMessageNeedResponse)) with false. cbv iota.
    rewrite H. split; [reflexivity|].
    change (E_LSS =? E_LSS) with true. cbv iota. cbn [sbind fst bus].
    rewrite sent_app. cbn [sent flat_map]. fold (sent (rx_log (snd (peer (pst st) LSS_TX_COBID fs_first)))).
    rewrite sent_rx. reflexivity.
  Qed.

  Definition extends (st st' : M) : Prop := exists l, sent (bus st') = sent (bus st) ++ l /\ Forall fs_wf l.

  Lemma extends_refl st : extends st st.
  Proof. exists []. split; [now rewrite app_nil_r|constructor]. Qed.

  Lemma extends_trans a b c : extends a b -> extends b c -> extends a c.
  Proof.
    intros (l1 & E1 & F1) (l2 & E2 & F2). exists (l1 ++ l2). split.
    - now rewrite E2, E1, app_assoc.
    - apply Forall_app. split; assumption.
  Qed.

  Lemma sfm_extends (st : M) idn bc sub nxt :
    u32 idn -> (bc = 128 \/ 0 <= bc < 32) -> 0 <= sub < 4 -> 0 <= nxt < 4 ->
    extends st (fst (send_fast_scan_message peer st idn bc sub nxt)).
  Proof.
    intros Hi Hb Hs Hn. unfold send_fast_scan_message.
    rewrite pack_fast_scan_ok by (try assumption; unfold u8; lia). cbn [sbind].
    pose proof (send_command_sent peer st (CS_FAST_SCAN :: le_encode 4 idn ++ [bc; sub; nxt])) as E.
    destruct (send_command peer st (CS_FAST_SCAN :: le_encode 4 idn ++ [bc; sub; nxt])) as [st1 r].
    cbn [fst] in E.
    assert (X : extends st st1).
    { eexists. split; [exact E|]. constructor; [|constructor]. split; [reflexivity|].
      exists idn, bc, sub, nxt. split; [reflexivity|]. split; [assumption|]. split; [exact Hb|]. split; assumption. }
    destruct r as [[rm|]|k|c]; cbn [unpack_B sbind fst].
    - destruct rm; exact X.
    - exact X.
    - destruct (k =? E_LSS); exact X.
    - exact X.
  Qed.

  Lemma scan_bits_extends sub nxt : 0 <= sub < 4 -> 0 <= nxt < 4 ->
    forall n (st : M) idn, (n <= 32)%nat -> u32 idn ->
    extends st (fst (scan_bits peer n st idn sub nxt)) /\
    (forall v, snd (scan_bits peer n st idn sub nxt) = Ok v -> u32 v).
  Proof.
    intros Hs Hn. induction n as [|k IH]; intros st idn Hk Hi; cbn [scan_bits].
    - split; [apply extends_refl|]. cbn [snd]. intros v E. injection E as <-. exact Hi.
    - pose proof (sfm_extends st idn (Z.of_nat k) sub nxt Hi ltac:(right; lia) Hs Hn) as X.
      destruct (send_fast_scan_message peer st idn (Z.of_nat k) sub nxt) as [st1 [found|e|c]]; cbn [sbind fst snd] in *.
      + assert (Hi' : u32 (if found then idn else Z.lor idn (Z.shiftl 1 (Z.of_nat k)))).
        { destruct found; [exact Hi|]. apply u32_lor; [exact Hi|]. apply u32_bit. lia. }
        destruct (IH st1 _ ltac:(lia) Hi') as [X2 V2]. split; [eapply extends_trans; eassumption|exact V2].
      + split; [exact X|discriminate].
      + split; [exact X|discriminate].
  Qed.

  Lemma scan_parts_extends : forall n (st : M) l sub nxt,
    Forall u32 l -> 0 <= sub -> sub + Z.of_nat n <= 4 -> 0 <= nxt < 4 ->
    extends st (fst (scan_parts peer n st l sub nxt)).
  Proof.
    induction n as [|k IH]; intros st l sub nxt Hl Hs Hn Hx.
    - apply extends_refl.
    - rewrite scan_parts_S.
      assert (H0 : u32 0) by (unfold u32; lia).
      destruct (scan_bits_extends sub nxt ltac:(lia) Hx 32%nat st (nth (Z.to_nat sub) l 0) (le_n _)
                  (Forall_nth' u32 0 H0 l _ Hl)) as [X1 V1].
      destruct (scan_bits peer 32 st (nth (Z.to_nat sub) l 0) sub nxt) as [st1 [idn|e|c]]; cbn [sbind fst snd] in *;
        try exact X1.
      specialize (V1 idn eq_refl).
      assert (Hn' : 0 <= Z.land (sub + 1) 3 < 4).
      { change 3 with (Z.ones 2). rewrite Z.land_ones by lia. change (2 ^ 2) with 4. lia. }
      pose proof (sfm_extends st1 idn 0 sub (Z.land (sub + 1) 3) V1 ltac:(right; lia) ltac:(lia) Hn') as X2.
      destruct (send_fast_scan_message peer st1 idn 0 sub (Z.land (sub + 1) 3)) as [st2 [ok|e|c]]; cbn [sbind fst snd] in *;
        try (eapply extends_trans; eassumption).
      destruct ok; [|eapply extends_trans; eassumption].
      eapply extends_trans; [exact X1|]. eapply extends_trans; [exact X2|].
      apply IH; try lia; try assumption. apply upd_u32; assumption.
  Qed.

  (* every frame the scan sends, whatever the rest of the bus does, is a well-formed fast-scan request *)
  Lemma fast_scan_requests_wellformed (st : M) : extends st (fst (fast_scan peer st)).
  Proof.
    unfold fast_scan.
    pose proof (sfm_extends st 0 128 0 0 ltac:(unfold u32; lia) ltac:(left; reflexivity) ltac:(lia) ltac:(lia)) as X.
    destruct (send_fast_scan_message peer st 0 128 0 0) as [st1 [ok|e|c]]; cbn [sbind fst] in *; try exact X.
    destruct ok; [|exact X].
    eapply extends_trans; [exact X|]. apply scan_parts_extends; try lia.
    repeat constructor; unfold u32; lia.
  Qed.
End AnyPeer3.

(* ------------------------------------------------------------------ service results, any peer *)
Section AnyPeer4.
  Context {P : Type} (peer : P -> Z -> list Z -> P * list (Z * list Z)).
  Notation M := (mstate P).

  (* the slave's answer to a request: the first frame sent on the slave's COB-ID in reaction to it
     (whatever was in the queue before the request is discarded by __send_command) *)
  Definition answer (st : M) (msg : list Z) : option (list Z) :=
    hd_error (rxq (snd (peer (pst st) LSS_TX_COBID msg))).

  Lemma send_command_awaited (st : M) msg : zmem (nth 0 msg 0) ListMessageNeedResponse = true ->
    snd (send_command peer st msg) = match answer st msg with None => Err E_LSS | Some r => Ok (Some r) end.
  Proof.
    intros H. rewrite send_command_eq. cbv zeta. rewrite H. cbn [negb]. unfold answer.
    destruct (rxq (snd (peer (pst st) LSS_TX_COBID msg))); reflexivity.
  Qed.

  (* configure node-id / configure bit timing / store configuration *)
  Definition cfg_result (cs : Z) (a : option (list Z)) : res unit :=
    match a with
    | None => Err E_LSS                                                  (* silence *)
    | Some (c :: e :: _) => if (c =? cs) && (e =? 0) then Ok tt else Err E_LSS   (* wrong specifier / error code *)
    | Some _ => Err E_STRUCT                                             (* a reply shorter than two bytes *)
    end.

  Lemma send_configure_result (st : M) cs v1 v2 : u8 cs -> u8 v1 -> u8 v2 -> zmem cs ListMessageNeedResponse = true ->
    snd (send_configure peer st cs v1 v2) = cfg_result cs (answer st [cs; v1; v2; 0; 0; 0; 0; 0]).
  Proof.
    intros H0 H1 H2 HL. unfold send_configure. rewrite !byte_arg_ok by assumption. cbn [sbind].
    pose proof (send_command_awaited st [cs; v1; v2; 0; 0; 0; 0; 0] HL) as E.
    destruct (send_command peer st [cs; v1; v2; 0; 0; 0; 0; 0]) as [st1 r]. cbn [snd] in E. subst r.
    destruct (answer st [cs; v1; v2; 0; 0; 0; 0; 0]) as [[|c [|e t]]|]; cbn [sbind unpack_BB cfg_result snd fst]; try reflexivity.
    change ERROR_NONE with 0.
    destruct (c =? cs); cbn [negb andb]; [|reflexivity]. destruct (e =? 0); reflexivity.
  Qed.

  Definition inq_node_result (a : option (list Z)) : res Z :=
    match a with
    | None => Err E_LSS
    | Some (c :: n :: _) => if c =? STD_INQ_NODE_ID then Ok n else Err E_LSS
    | Some _ => Err E_STRUCT
    end.

  Lemma inquire_node_id_result (st : M) :
    snd (inquire_node_id peer st) = inq_node_result (answer st (pad8 [STD_INQ_NODE_ID])).
  Proof.
    unfold inquire_node_id.
    pose proof (send_command_awaited st [CS_INQUIRE_NODE_ID; 0; 0; 0; 0; 0; 0; 0] eq_refl) as E.
    destruct (send_command peer st [CS_INQUIRE_NODE_ID; 0; 0; 0; 0; 0; 0; 0]) as [st1 r]. cbn [snd] in E. subst r.
    change (pad8 [STD_INQ_NODE_ID]) with [CS_INQUIRE_NODE_ID; 0; 0; 0; 0; 0; 0; 0].
    destruct (answer st [CS_INQUIRE_NODE_ID; 0; 0; 0; 0; 0; 0; 0]) as [[|c [|e t]]|];
      cbn [sbind unpack_BB inq_node_result snd fst]; try reflexivity.
    change STD_INQ_NODE_ID with CS_INQUIRE_NODE_ID.
    destruct (c =? CS_INQUIRE_NODE_ID); reflexivity.
  Qed.

  Definition inq_addr_result (cs : Z) (a : option (list Z)) : res Z :=
    match a with
    | None => Err E_LSS
    | Some l => if 5 <=? zlen l then (if nth 0 l 0 =? cs then Ok (le_decode (firstn 4 (skipn 1 l))) else Err E_LSS)
                else Err E_STRUCT
    end.

  Lemma inquire_lss_address_result (st : M) cs : STD_INQ_VENDOR <= cs <= STD_INQ_SERIAL ->
    snd (inquire_lss_address peer st cs) = inq_addr_result cs (answer st (pad8 [cs])).
  Proof.
    intros Hc. unfold inquire_lss_address.
    rewrite byte_arg_ok by (unfold u8, STD_INQ_VENDOR, STD_INQ_SERIAL in *; lia). cbn [sbind].
    assert (HL : zmem (nth 0 [cs; 0; 0; 0; 0; 0; 0; 0] 0) ListMessageNeedResponse = true).
    { cbn [nth]. unfold STD_INQ_VENDOR, STD_INQ_SERIAL in Hc.
      assert (C : cs = 90 \/ cs = 91 \/ cs = 92 \/ cs = 93) by lia.
      destruct C as [ -> | [ -> | [ -> | -> ] ] ]; reflexivity. }
    pose proof (send_command_awaited st [cs; 0; 0; 0; 0; 0; 0; 0] HL) as E.
    destruct (send_command peer st [cs; 0; 0; 0; 0; 0; 0; 0]) as [st1 r]. cbn [snd] in E. subst r.
    change (pad8 [cs]) with [cs; 0; 0; 0; 0; 0; 0; 0].
    destruct (answer st [cs; 0; 0; 0; 0; 0; 0; 0]) as [l|]; cbn [sbind unpack_BI inq_addr_result snd fst]; [|reflexivity].
    destruct (5 <=? zlen l); cbn [sbind fst snd]; [|reflexivity].
    destruct (nth 0 l 0 =? cs); reflexivity.
  Qed.

  (* switch state selective: confirmed exactly when the answer carries the response specifier *)
  Lemma switch_selective_result (st : M) v p r s : u32 v -> u32 p -> u32 r -> u32 s ->
    exists st3, sent (bus st3) = sent (bus st) ++ map (fun f => (STD_MASTER_COBID, f))
                   [pad8 (STD_SEL_VENDOR :: le_encode 4 v); pad8 (STD_SEL_PRODUCT :: le_encode 4 p);
                    pad8 (STD_SEL_REVISION :: le_encode 4 r)] /\
    snd (switch_state_selective peer st v p r s) =
    match answer st3 (pad8 (STD_SEL_SERIAL :: le_encode 4 s)) with
    | None => Err E_LSS
    | Some [] => Err E_STRUCT
    | Some (c :: _) => Ok (c =? STD_SEL_RESPONSE)
    end.
  Proof.
    intros Hv Hp Hr Hs. unfold switch_state_selective.
    rewrite sla_unawaited by side. cbn [sbind]. set (st1 := fst (send_command peer st _)).
    rewrite sla_unawaited by side. cbn [sbind]. set (st2 := fst (send_command peer st1 _)).
    rewrite sla_unawaited by side. cbn [sbind]. set (st3 := fst (send_command peer st2 _)).
    exists st3. split.
    - subst st3 st2 st1. rewrite !send_command_sent. rewrite <- !app_assoc. reflexivity.
    - unfold send_lss_address. rewrite byte_arg_ok, pack_u32_ok by side. cbn [sbind].
      pose proof (send_command_awaited st3 (CS_SWITCH_STATE_SELECTIVE_SERIAL_NUMBER :: le_encode 4 s ++ [0; 0; 0]) eq_refl) as E.
      destruct (send_command peer st3 (CS_SWITCH_STATE_SELECTIVE_SERIAL_NUMBER :: le_encode 4 s ++ [0; 0; 0])) as [st4 rr].
      cbn [snd] in E. subst rr.
      change (pad8 (STD_SEL_SERIAL :: le_encode 4 s)) with (CS_SWITCH_STATE_SELECTIVE_SERIAL_NUMBER :: le_encode 4 s ++ [0; 0; 0]).
      destruct (answer st3 (CS_SWITCH_STATE_SELECTIVE_SERIAL_NUMBER :: le_encode 4 s ++ [0; 0; 0])) as [[|c t]|];
        cbn [sbind unpack_B snd fst]; reflexivity.
  Qed.
End AnyPeer4.

(* ------------------------------------------------------------------ services against the reference slave *)
Lemma slave_step_selective s cs f :
  cs = STD_SEL_VENDOR \/ cs = STD_SEL_PRODUCT \/ cs = STD_SEL_REVISION \/ cs = STD_SEL_SERIAL ->
  byte_at 0 f = cs -> zlen f = 8 -> slave_step s LSS_TX_COBID f = slave_selective s cs f.
Proof.
  intros C H0 H8. unfold slave_step. rewrite H0, H8.
  destruct C as [ -> | [ -> | [ -> | -> ] ] ]; reflexivity.
Qed.

Section Services.
  Context (v p r s : Z) (Hv : u32 v) (Hp : u32 p) (Hr : u32 r) (Hs : u32 s).
  Context (pos idn0 bt dl sn sb se : Z).
  Definition SS (mode node sel : Z) : slave := mkSlave [v; p; r; s] mode node pos sel idn0 bt dl sn sb se.

  (* the four frames of switch state selective, slave in waiting state *)
  Lemma sel_step node sel k x : 0 <= k < 3 -> x = nth (Z.to_nat k) [v; p; r; s] 0 -> k = 0 \/ sel = k ->
    slave_step (SS ST_WAITING node sel) LSS_TX_COBID ((STD_SEL_VENDOR + k) :: le_encode 4 x ++ [0; 0; 0]) =
    (SS ST_WAITING node (k + 1), silent).
  Proof.
    intros Hk Hx Hsel.
    assert (Ux : u32 x).
    { assert (C : k = 0 \/ k = 1 \/ k = 2) by lia. destruct C as [ -> | [ -> | -> ] ]; subst x; assumption. }
    rewrite (slave_step_selective _ (STD_SEL_VENDOR + k)); try reflexivity.
    2:{ unfold STD_SEL_VENDOR, STD_SEL_PRODUCT, STD_SEL_REVISION, STD_SEL_SERIAL. lia. }
    unfold slave_selective. cbv zeta. rewrite (u32_at1 _ _ _ Ux).
    change (sl_mode (SS ST_WAITING node sel) =? ST_WAITING) with true. cbv iota.
    replace (STD_SEL_VENDOR + k - STD_SEL_VENDOR) with k by lia.
    replace (STD_SEL_VENDOR + k =? STD_SEL_SERIAL) with false by (unfold STD_SEL_VENDOR, STD_SEL_SERIAL; lia).
    change (part (SS ST_WAITING node sel) k) with (nth (Z.to_nat k) [v; p; r; s] 0). rewrite <- Hx, Z.eqb_refl.
    change (sl_sel (SS ST_WAITING node sel)) with sel.
    replace ((k =? 0) || (sel =? k)) with true by lia. reflexivity.
  Qed.

  Lemma sel_last node : 
    slave_step (SS ST_WAITING node 3) LSS_TX_COBID (STD_SEL_SERIAL :: le_encode 4 s ++ [0; 0; 0]) =
    (SS ST_CONFIGURATION node 0, reply [STD_SEL_RESPONSE]).
  Proof.
    rewrite (slave_step_selective _ STD_SEL_SERIAL); try reflexivity; [|auto].
    unfold slave_selective. cbv zeta. rewrite (u32_at1 _ _ _ Hs).
    change (part (SS ST_WAITING node 3) (STD_SEL_SERIAL - STD_SEL_VENDOR)) with s. rewrite (Z.eqb_refl s). reflexivity.
  Qed.

  (* a selective switch addressed to the slave's identity is confirmed and the slave is in configuration state *)
  Lemma switch_selective_confirmed q b node sel : exists b',
    switch_state_selective slave_step (mkM q (SS ST_WAITING node sel) b) v p r s =
    (mkM [] (SS ST_CONFIGURATION node 0) b', Ok true).
  Proof.
    unfold switch_state_selective, send_lss_address.
    rewrite !byte_arg_ok by side. rewrite !pack_u32_ok by assumption. cbn [sbind].
    rewrite send_command_eq. cbv zeta. cbn [pst].
    pose proof (sel_step node sel 0 v ltac:(lia) eq_refl (or_introl eq_refl)) as E0.
    change (STD_SEL_VENDOR + 0) with CS_SWITCH_STATE_SELECTIVE_VENDOR_ID in E0. rewrite E0.
    change (negb (zmem (nth 0 (CS_SWITCH_STATE_SELECTIVE_VENDOR_ID :: le_encode 4 v ++ [0; 0; 0]) 0) ListMessageNeedResponse)) with true.
    cbv iota. cbn [sbind fst snd].
    rewrite send_command_eq. cbv zeta. cbn [pst].
    pose proof (sel_step node 1 1 p ltac:(lia) eq_refl (or_intror eq_refl)) as E1.
    change (STD_SEL_VENDOR + 1) with CS_SWITCH_STATE_SELECTIVE_PRODUCT_CODE in E1. change (0 + 1) with 1. rewrite E1.
    change (negb (zmem (nth 0 (CS_SWITCH_STATE_SELECTIVE_PRODUCT_CODE :: le_encode 4 p ++ [0; 0; 0]) 0) ListMessageNeedResponse)) with true.
    cbv iota. cbn [sbind fst snd].
    rewrite send_command_eq. cbv zeta. cbn [pst].
    pose proof (sel_step node 2 2 r ltac:(lia) eq_refl (or_intror eq_refl)) as E2.
    change (STD_SEL_VENDOR + 2) with CS_SWITCH_STATE_SELECTIVE_REVISION_NUMBER in E2. change (1 + 1) with 2. rewrite E2.
    change (negb (zmem (nth 0 (CS_SWITCH_STATE_SELECTIVE_REVISION_NUMBER :: le_encode 4 r ++ [0; 0; 0]) 0) ListMessageNeedResponse)) with true.
    cbv iota. cbn [sbind fst snd].
    rewrite send_command_eq. cbv zeta. cbn [pst].
    change (2 + 1) with 3. pose proof (sel_last node) as E3.
    change STD_SEL_SERIAL with CS_SWITCH_STATE_SELECTIVE_SERIAL_NUMBER in E3 at 1. rewrite E3.
    change (negb (zmem (nth 0 (CS_SWITCH_STATE_SELECTIVE_SERIAL_NUMBER :: le_encode 4 s ++ [0; 0; 0]) 0) ListMessageNeedResponse)) with false.
    cbv iota. cbn [fst snd]. rewrite rxq_reply. cbn [sbind].
    eexists. reflexivity.
  Qed.

  (* ---- configuration state ---- *)
  Lemma inquire_node_id_slave q b node sel : exists b',
    inquire_node_id slave_step (mkM q (SS ST_CONFIGURATION node sel) b) = (mkM [] (SS ST_CONFIGURATION node sel) b', Ok node).
  Proof.
    unfold inquire_node_id. rewrite send_command_eq. cbv zeta. cbn [pst]. eexists. reflexivity.
  Qed.

  Lemma inq_addr_known (sl : slave) q b cs x :
    slave_step sl LSS_TX_COBID [cs; 0; 0; 0; 0; 0; 0; 0] = (sl, reply (cs :: le_encode 4 x)) ->
    u8 cs -> zmem cs ListMessageNeedResponse = true -> u32 x ->
    exists b', inquire_lss_address slave_step (mkM q sl b) cs = (mkM [] sl b', Ok x).
  Proof.
    intros R Hc HL Hx. unfold inquire_lss_address. rewrite byte_arg_ok by assumption. cbn [sbind].
    rewrite send_command_eq. cbv zeta. cbn [pst nth]. rewrite R, HL. cbn [negb fst snd]. rewrite rxq_reply.
    change (pad8 (cs :: le_encode 4 x)) with (cs :: le_encode 4 x ++ [0; 0; 0]).
    eexists. cbn [sbind]. unfold unpack_BI. rewrite zlen_frame4. change (5 <=? 8) with true. cbv iota.
    cbn [sbind fst snd nth]. rewrite Z.eqb_refl. cbn [negb].
    change (le_decode (firstn 4 (skipn 1 (cs :: le_encode 4 x ++ [0; 0; 0])))) with (u32_at 1 (cs :: le_encode 4 x ++ [0; 0; 0])).
    rewrite (u32_at1 _ _ _ Hx). reflexivity.
  Qed.

  Lemma inquire_lss_address_slave q b node sel i : 0 <= i < 4 -> exists b',
    inquire_lss_address slave_step (mkM q (SS ST_CONFIGURATION node sel) b) (STD_INQ_VENDOR + i) =
    (mkM [] (SS ST_CONFIGURATION node sel) b', Ok (nth (Z.to_nat i) [v; p; r; s] 0)).
  Proof.
    intros Hi. assert (C : i = 0 \/ i = 1 \/ i = 2 \/ i = 3) by lia.
    destruct C as [ -> | [ -> | [ -> | -> ] ] ]; apply inq_addr_known; try reflexivity; try assumption; side.
  Qed.

  Lemma configure_node_id_slave q b node sel n : u8 n -> exists b',
    configure_node_id slave_step (mkM q (SS ST_CONFIGURATION node sel) b) n =
    (mkM [] (SS ST_CONFIGURATION (if node_id_valid n then n else node) sel) b',
     if node_id_valid n then Ok tt else Err E_LSS).
  Proof.
    intros Hn. unfold configure_node_id, send_configure. rewrite !byte_arg_ok by side. cbn [sbind].
    rewrite send_command_eq. cbv zeta. cbn [pst].
    change (slave_step (SS ST_CONFIGURATION node sel) LSS_TX_COBID [CS_CONFIGURE_NODE_ID; n; 0; 0; 0; 0; 0; 0])
      with (if node_id_valid n then (SS ST_CONFIGURATION n sel, reply [STD_CFG_NODE_ID; 0])
            else (SS ST_CONFIGURATION node sel, reply [STD_CFG_NODE_ID; 1])).
    destruct (node_id_valid n); eexists; reflexivity.
  Qed.

  Lemma configure_bit_timing_slave q b node sel n : u8 n -> exists b',
    configure_bit_timing slave_step (mkM q (SS ST_CONFIGURATION node sel) b) n =
    (mkM [] (mkSlave [v; p; r; s] ST_CONFIGURATION node pos sel idn0 (if bit_timing_valid 0 n then n else bt) dl sn sb se) b',
     if bit_timing_valid 0 n then Ok tt else Err E_LSS).
  Proof.
    intros Hn. unfold configure_bit_timing, send_configure. rewrite !byte_arg_ok by side. cbn [sbind].
    rewrite send_command_eq. cbv zeta. cbn [pst].
    change (slave_step (SS ST_CONFIGURATION node sel) LSS_TX_COBID [CS_CONFIGURE_BIT_TIMING; 0; n; 0; 0; 0; 0; 0])
      with (if bit_timing_valid 0 n
            then (mkSlave [v; p; r; s] ST_CONFIGURATION node pos sel idn0 n dl sn sb se, reply [STD_CFG_BIT_TIMING; 0])
            else (SS ST_CONFIGURATION node sel, reply [STD_CFG_BIT_TIMING; 1])).
    destruct (bit_timing_valid 0 n); eexists; reflexivity.
  Qed.

  Lemma store_configuration_slave q b node sel : exists b',
    store_configuration slave_step (mkM q (SS ST_CONFIGURATION node sel) b) =
    (mkM [] (mkSlave [v; p; r; s] ST_CONFIGURATION node pos sel idn0 bt dl (if se =? 0 then node else sn) (if se =? 0 then bt else sb) se) b',
     if se =? 0 then Ok tt else Err E_LSS).
  Proof.
    unfold store_configuration, send_configure. rewrite !byte_arg_ok by side. cbn [sbind].
    rewrite send_command_eq. cbv zeta. cbn [pst].
    change (slave_step (SS ST_CONFIGURATION node sel) LSS_TX_COBID [CS_STORE_CONFIGURATION; 0; 0; 0; 0; 0; 0; 0])
      with ((if se =? 0 then mkSlave [v; p; r; s] ST_CONFIGURATION node pos sel idn0 bt dl node bt se
             else SS ST_CONFIGURATION node sel), reply [STD_STORE; se]).
    change (negb (zmem (nth 0 [CS_STORE_CONFIGURATION; 0; 0; 0; 0; 0; 0; 0] 0) ListMessageNeedResponse)) with false.
    cbv iota. cbn [fst snd]. rewrite rxq_reply.
    change (pad8 [STD_STORE; se]) with [STD_STORE; se; 0; 0; 0; 0; 0; 0].
    cbn [sbind unpack_BB fst snd].
    change (negb (STD_STORE =? CS_STORE_CONFIGURATION)) with false. cbv iota. change ERROR_NONE with 0.
    destruct (se =? 0); eexists; reflexivity.
  Qed.
End Services.

(* ------------------------------------------------------------------ remaining statements *)
Lemma configure_results {P} (peer : P -> Z -> list Z -> P * list (Z * list Z)) (st : mstate P) n : u8 n ->
  snd (configure_node_id peer st n) = cfg_result STD_CFG_NODE_ID (answer peer st (pad8 [STD_CFG_NODE_ID; n])) /\
  snd (configure_bit_timing peer st n) = cfg_result STD_CFG_BIT_TIMING (answer peer st (pad8 [STD_CFG_BIT_TIMING; 0; n])) /\
  snd (store_configuration peer st) = cfg_result STD_STORE (answer peer st (pad8 [STD_STORE])).
Proof.
  intros Hn. split; [|split].
  - exact (send_configure_result peer st CS_CONFIGURE_NODE_ID n 0 ltac:(side) Hn ltac:(side) eq_refl).
  - exact (send_configure_result peer st CS_CONFIGURE_BIT_TIMING 0 n ltac:(side) ltac:(side) Hn eq_refl).
  - exact (send_configure_result peer st CS_STORE_CONFIGURATION 0 0 ltac:(side) ltac:(side) ltac:(side) eq_refl).
Qed.

(* a slave that is configured, or already in configuration state, does not take part in the scan *)
Lemma fast_scan_slave_not_taking_part s q b :
  (sl_mode s =? ST_WAITING) && (sl_node s =? NODE_UNCONFIGURED) = false ->
  snd (fast_scan slave_step (mkM q s b)) = Ok (false, None).
Proof.
  intros H. apply fast_scan_no_answer. cbn [pst].
  change (slave_step s LSS_TX_COBID fs_first) with (slave_fastscan s fs_first).
  unfold slave_fastscan. rewrite H. reflexivity.
Qed.

(* the regenerated constants of lss.py are those of CiA 305 *)
Lemma tables_are_cia305 :
  LSS_TX_COBID = STD_MASTER_COBID /\ LSS_RX_COBID = STD_SLAVE_COBID /\
  [CS_SWITCH_STATE_GLOBAL; CS_CONFIGURE_NODE_ID; CS_CONFIGURE_BIT_TIMING; CS_ACTIVATE_BIT_TIMING; CS_STORE_CONFIGURATION] =
  [STD_SWITCH_GLOBAL; STD_CFG_NODE_ID; STD_CFG_BIT_TIMING; STD_ACTIVATE_BIT_TIMING; STD_STORE] /\
  [CS_SWITCH_STATE_SELECTIVE_VENDOR_ID; CS_SWITCH_STATE_SELECTIVE_PRODUCT_CODE; CS_SWITCH_STATE_SELECTIVE_REVISION_NUMBER;
   CS_SWITCH_STATE_SELECTIVE_SERIAL_NUMBER; CS_SWITCH_STATE_SELECTIVE_RESPONSE] =
  [STD_SEL_VENDOR; STD_SEL_PRODUCT; STD_SEL_REVISION; STD_SEL_SERIAL; STD_SEL_RESPONSE] /\
  [CS_IDENTIFY_REMOTE_SLAVE_VENDOR_ID; CS_IDENTIFY_REMOTE_SLAVE_PRODUCT_CODE; CS_IDENTIFY_REMOTE_SLAVE_REVISION_NUMBER_LOW;
   CS_IDENTIFY_REMOTE_SLAVE_REVISION_NUMBER_HIGH; CS_IDENTIFY_REMOTE_SLAVE_SERIAL_NUMBER_LOW;
   CS_IDENTIFY_REMOTE_SLAVE_SERIAL_NUMBER_HIGH; CS_IDENTIFY_NON_CONFIGURED_REMOTE_SLAVE; CS_IDENTIFY_SLAVE;
   CS_IDENTIFY_NON_CONFIGURED_SLAVE; CS_FAST_SCAN] =
  [STD_IDENT_VENDOR; STD_IDENT_PRODUCT; STD_IDENT_REV_LOW; STD_IDENT_REV_HIGH; STD_IDENT_SER_LOW; STD_IDENT_SER_HIGH;
   STD_IDENT_NON_CONFIGURED; STD_IDENTIFY_SLAVE; STD_IDENTIFY_NON_CONFIGURED_SLAVE; STD_FAST_SCAN] /\
  [CS_INQUIRE_VENDOR_ID; CS_INQUIRE_PRODUCT_CODE; CS_INQUIRE_REVISION_NUMBER; CS_INQUIRE_SERIAL_NUMBER; CS_INQUIRE_NODE_ID] =
  [STD_INQ_VENDOR; STD_INQ_VENDOR + 1; STD_INQ_VENDOR + 2; STD_INQ_SERIAL; STD_INQ_NODE_ID] /\
  ERROR_NONE = 0 /\ WAITING_STATE = ST_WAITING /\ CONFIGURATION_STATE = ST_CONFIGURATION.
Proof. repeat split; reflexivity. Qed.

(* the requests the master waits on are exactly the confirmed services of CiA 305 *)
Definition confirmed_service (cs : Z) : bool :=
  (cs =? STD_CFG_NODE_ID) || (cs =? STD_CFG_BIT_TIMING) || (cs =? STD_STORE) || (cs =? STD_SEL_SERIAL) ||
  (cs =? STD_FAST_SCAN) || ((STD_INQ_VENDOR <=? cs) && (cs <=? STD_INQ_NODE_ID)).

Lemma need_response_table cs : 0 <= cs < 256 -> zmem cs ListMessageNeedResponse = confirmed_service cs.
Proof.
  assert (H : forallb (fun n => Bool.eqb (zmem (Z.of_nat n) ListMessageNeedResponse) (confirmed_service (Z.of_nat n)))
                      (seq 0 256) = true) by (vm_compute; reflexivity).
  rewrite forallb_forall in H. intros Hcs.
  specialize (H (Z.to_nat cs)). rewrite Z2Nat.id in H by lia.
  apply eqb_prop, H, in_seq. lia.
Qed.

Lemma inquire_against_slave v p r s : u32 v -> u32 p -> u32 r -> u32 s ->
  forall pos idn0 bt dl sn sb se q b node sel,
  (exists b', inquire_node_id slave_step (mkM q (mkSlave [v; p; r; s] ST_CONFIGURATION node pos sel idn0 bt dl sn sb se) b) =
              (mkM [] (mkSlave [v; p; r; s] ST_CONFIGURATION node pos sel idn0 bt dl sn sb se) b', Ok node)) /\
  (forall i, 0 <= i < 4 -> exists b',
     inquire_lss_address slave_step (mkM q (mkSlave [v; p; r; s] ST_CONFIGURATION node pos sel idn0 bt dl sn sb se) b)
                         (STD_INQ_VENDOR + i) =
     (mkM [] (mkSlave [v; p; r; s] ST_CONFIGURATION node pos sel idn0 bt dl sn sb se) b', Ok (nth (Z.to_nat i) [v; p; r; s] 0))).
Proof.
  intros Hv Hp Hr Hs pos idn0 bt dl sn sb se q b node sel. split.
  - exact (inquire_node_id_slave v p r s pos idn0 bt dl sn sb se q b node sel).
  - exact (inquire_lss_address_slave v p r s Hv Hp Hr Hs pos idn0 bt dl sn sb se q b node sel).
Qed.
