(* Tie (c): PeriodicMessageTask.update, SyncProducer.start/stop and PdoMap.start/stop/update as translated from
   the CURRENT source text (Gen/SrcC17.v) determine the model functions of Model/Periodic.v (C17): which of
   stop / modify_data / _start / send_periodic is called, in which order relative to the period check, and what
   the period attribute and the task handle are afterwards. *)
From Coq Require Import ZArith List Bool Lia.
From CV Require Import Base.Val Base.Tys Base.PyLib Gen.PeriodicTables Gen.SrcC17 Model.Periodic.
Import ListNotations.
Open Scope Z_scope.

Definition osome {A} (o : option A) : bool := match o with Some _ => true | None => false end.
Definition oget (o : option Z) : Z := match o with Some x => x | None => 0 end.
Definition mkopt (h : bool) (v : Z) : option Z := if h then Some v else None.

Theorem src_pt_update_eq modify b pt d :
  pt_update modify b pt d =
  let '(stored, act) := src_pt_update modify (list_Z_eqb d (pt_data pt)) false 0 in
  let d' := if stored then d else pt_data pt in
  let pt1 tid := mkP tid (pt_can pt) d' (pt_period pt) (pt_remote pt) in
  if act =? 1 then (bus_modify b (pt_tid pt) d', pt1 (pt_tid pt))
  else if act =? 3 then
    (bus_stop b (pt_tid pt) ++ [mkB (pt_can pt) d' (pt_period pt) (pt_remote pt) true], pt1 (length b))
  else if act =? 0 then (b, pt1 (pt_tid pt))
  else (bus_stop b (pt_tid pt), pt1 (pt_tid pt)).
Proof.
  unfold pt_update, src_pt_update. destruct modify; [reflexivity|].
  destruct (list_Z_eqb d (pt_data pt)); reflexivity.
Qed.

Theorem src_sync_start_eq s p :
  let y := st_sync s in
  let '(stopped, ph, pv, out) :=
    src_sync_start (osome p) (oget p) (osome (sy_period y)) (oget (sy_period y)) false in
  let per := mkopt ph pv in
  let b1 := if stopped then stop_opt (st_bus s) (sy_task y) else st_bus s in
  sync_start s p =
  if out =? 0 then (set_sync s b1 (mkSy per (if stopped then None else sy_task y)), raised E_VALUE)
  else match send_periodic (st_conn s) b1 SYNC_COB_ID [] pv false with
       | Some (b2, pt) => (set_sync s b2 (mkSy per (Some pt)), ok)
       | None => (set_sync s b1 (mkSy per None), raised E_ATTR)
       end.
Proof.
  destruct s as [md cn bs [yp yt] pdos hb gd]. unfold sync_start, src_sync_start, set_sync. cbn [st_sync sy_period sy_task st_bus st_conn st_modify st_pdos st_hb st_guard].
  destruct p as [x|]; cbn [osome oget].
  - cbn [negb orb]. destruct (x =? 0) eqn:E; cbn [mkopt Z.eqb]; [reflexivity|].
    destruct (send_periodic cn (stop_opt bs yt) SYNC_COB_ID [] x false) as [[b2 pt]|]; reflexivity.
  - destruct yp as [x|]; cbn [osome oget negb orb]; [|reflexivity].
    destruct (x =? 0) eqn:E; cbn [mkopt Z.eqb]; [reflexivity|].
    destruct (send_periodic cn (stop_opt bs yt) SYNC_COB_ID [] x false) as [[b2 pt]|]; reflexivity.
Qed.

Theorem src_pdo_start_eq conn b pd p :
  let '(stopped, ph, pv, out) :=
    src_pdo_start (osome p) (oget p) (osome (pd_period pd)) (oget (pd_period pd)) false in
  let per := mkopt ph pv in
  let b1 := if stopped then stop_opt b (pd_task pd) else b in
  let pd1 := mkPd (pd_cob pd) (pd_nvars pd) (pd_data pd) per (if stopped then None else pd_task pd) in
  pdo_start1 conn b pd p =
  if out =? 0 then (b1, pd1, raised E_VALUE)
  else match send_periodic conn b1 (pd_cob pd) (pd_data pd) pv false with
       | Some (b2, pt) => (b2, mkPd (pd_cob pd) (pd_nvars pd) (pd_data pd) per (Some pt), ok)
       | None => (b1, pd1, raised E_ATTR)
       end.
Proof.
  destruct pd as [cob nv dat pp pt0]. unfold pdo_start1, src_pdo_start. cbn [pd_cob pd_nvars pd_data pd_period pd_task].
  destruct p as [x|]; cbn [osome oget].
  - cbn [negb orb]. destruct (x =? 0) eqn:E; cbn [mkopt Z.eqb]; [reflexivity|].
    destruct (send_periodic conn (stop_opt b pt0) cob dat x false) as [[b2 pt]|]; reflexivity.
  - destruct pp as [x|]; cbn [osome oget negb orb]; [|reflexivity].
    destruct (x =? 0) eqn:E; cbn [mkopt Z.eqb]; [reflexivity|].
    destruct (send_periodic conn (stop_opt b pt0) cob dat x false) as [[b2 pt]|]; reflexivity.
Qed.

Theorem src_pdo_update_eq modify b pd :
  pdo_update1 modify b pd =
  if src_pdo_update_calls (osome (pd_task pd)) false then
    match pd_task pd with
    | Some pt => let '(b1, pt1) := pt_update modify b pt (pd_data pd) in
                 (b1, mkPd (pd_cob pd) (pd_nvars pd) (pd_data pd) (pd_period pd) (Some pt1))
    | None => (b, pd)
    end
  else (b, pd).
Proof. unfold pdo_update1, src_pdo_update_calls. destruct (pd_task pd); reflexivity. Qed.

Theorem src_pdo_stop_eq b pd :
  pdo_stop1 b pd =
  let '(stopped, holds) := src_pdo_stop (osome (pd_task pd)) false true in
  (if stopped then stop_opt b (pd_task pd) else b,
   mkPd (pd_cob pd) (pd_nvars pd) (pd_data pd) (pd_period pd) (if holds then pd_task pd else None)).
Proof. unfold pdo_stop1, src_pdo_stop. destruct (pd_task pd); reflexivity. Qed.

Theorem src_sync_stop_eq s :
  sync_stop s =
  let y := st_sync s in
  let '(stopped, holds) := src_sync_stop (osome (sy_task y)) false true in
  set_sync s (if stopped then stop_opt (st_bus s) (sy_task y) else st_bus s)
           (mkSy (sy_period y) (if holds then sy_task y else None)).
Proof. unfold sync_stop, src_sync_stop. destruct (sy_task (st_sync s)); reflexivity. Qed.
