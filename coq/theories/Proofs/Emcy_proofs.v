(* Proofs about Model/Emcy.v (C16). *)
From Coq Require Import ZArith List Bool Lia ZifyBool.
From Coq Require String.
From CV Require Import Base.Val Base.Bytes Base.Tys Gen.EmcyTables Model.Emcy.
Import ListNotations.
Open Scope Z_scope.
Ltac Zify.zify_post_hook ::= Z.to_euclidean_division_equations.

(* ------------------------------------------------------------------ generic facts *)
Lemma list_Z_eqb_eq a b : list_Z_eqb a b = true -> a = b.
Proof.
  revert b. induction a as [|x a IH]; intros [|y b]; cbn; try discriminate; [reflexivity|].
  intros H. apply andb_true_iff in H as [H1 H2]. apply Z.eqb_eq in H1. subst y.
  f_equal. auto.
Qed.

Lemma fold_left_app_step {A B} (f : A -> B -> A) l x a : fold_left f (l ++ [x]) a = f (fold_left f l a) x.
Proof. rewrite fold_left_app. reflexivity. Qed.

(* ------------------------------------------------------------------ frame layout *)
(* the regenerated layout is the CiA 301 EMCY frame: 2 + 1 + 5 = 8 bytes *)
Lemma layout : EMCY_CODE_BYTES = 2 /\ EMCY_REG_BYTES = 1 /\ EMCY_DATA_BYTES = 5 /\ EMCY_SIZE = 8.
Proof. repeat split; reflexivity. Qed.

(* what an 8-byte frame means, written directly: bytes 0-1 code (little endian), byte 2 register,
   bytes 3-7 manufacturer specific *)
Definition frame_entry (f : list Z) (ts : Z) : entry :=
  mkE (nth 0 f 0 + 256 * nth 1 f 0) (nth 2 f 0)
      [nth 3 f 0; nth 4 f 0; nth 5 f 0; nth 6 f 0; nth 7 f 0] ts.

Lemma decode_unfold f ts : decode_emcy f ts =
  if zlen f =? 8 then Ok (mkE (le_decode (firstn 2 f)) (le_decode (firstn 1 (skipn 2 f))) (firstn 5 (skipn 3 f)) ts)
  else Err E_STRUCT.
Proof. reflexivity. Qed.

Lemma decode_spec f ts : zlen f = 8 -> decode_emcy f ts = Ok (frame_entry f ts).
Proof.
  unfold zlen. intros H.
  destruct f as [|b0 [|b1 [|b2 [|b3 [|b4 [|b5 [|b6 [|b7 [|b8 r]]]]]]]]]; cbn [length] in H; try lia.
  rewrite decode_unfold. unfold frame_entry, zlen. cbn [length firstn skipn le_decode nth].
  replace (Z.of_nat 8 =? 8) with true by reflexivity. f_equal. f_equal; ring.
Qed.

Lemma decode_rejects f ts : zlen f <> 8 -> decode_emcy f ts = Err E_STRUCT.
Proof.
  intros H. unfold decode_emcy. change EMCY_SIZE with 8.
  destruct (zlen f =? 8) eqn:E; [lia|reflexivity].
Qed.

Lemma decode_parts a b c ts : length a = 2%nat -> length b = 1%nat -> length c = 5%nat ->
  decode_emcy (a ++ b ++ c) ts = Ok (mkE (le_decode a) (le_decode b) c ts).
Proof.
  intros Ha Hb Hc.
  destruct a as [|a0 [|a1 [|a2 a]]]; cbn in Ha; try lia.
  destruct b as [|b0 [|b1 b]]; cbn in Hb; try lia.
  destruct c as [|c0 [|c1 [|c2 [|c3 [|c4 [|c5 c]]]]]]; cbn in Hc; try lia.
  rewrite decode_unfold. reflexivity.
Qed.

(* ------------------------------------------------------------------ consumer: log, active, callbacks *)
Definition feed_entries (s : cstate) (es : list entry) : cstate := fold_left record_entry es s.

Lemma feed_is_entries fs : forall s, feed s fs = feed_entries s (decoded fs).
Proof.
  unfold feed, feed_entries, decoded.
  induction fs as [|[f ts] r IH]; intros s; [reflexivity|].
  cbn [fold_left flat_map]. rewrite IH. unfold feed1, on_emcy. cbn [fst snd].
  destruct (decode_emcy f ts) as [e|k|c]; reflexivity.
Qed.

Lemma entries_ncb es : forall s, s_ncb (feed_entries s es) = s_ncb s.
Proof.
  unfold feed_entries. induction es as [|e r IH]; intros s; [reflexivity|].
  cbn [fold_left]. rewrite IH. reflexivity.
Qed.

Lemma entries_log es : forall s, s_log (feed_entries s es) = s_log s ++ es.
Proof.
  unfold feed_entries. induction es as [|e r IH]; intros s; cbn [fold_left].
  - now rewrite app_nil_r.
  - rewrite IH. cbn [record_entry s_log]. now rewrite <- app_assoc.
Qed.

Definition invocations (n : nat) (es : list entry) : list (Z * entry) :=
  flat_map (fun e => map (fun i => (i, e)) (cb_ids n)) es.

Lemma entries_cblog es : forall s, s_cblog (feed_entries s es) = s_cblog s ++ invocations (s_ncb s) es.
Proof.
  unfold feed_entries, invocations. induction es as [|e r IH]; intros s; cbn [fold_left flat_map].
  - now rewrite app_nil_r.
  - rewrite IH. cbn [record_entry s_cblog s_ncb]. now rewrite <- app_assoc.
Qed.

Lemma entries_active_noreset es : forall s, Forall (fun e => is_reset e = false) es ->
  s_active (feed_entries s es) = s_active s ++ es.
Proof.
  unfold feed_entries. induction es as [|e r IH]; intros s H; cbn [fold_left].
  - now rewrite app_nil_r.
  - inversion H as [|x y He Hr]; subst. rewrite IH by assumption.
    cbn [record_entry s_active]. rewrite He. now rewrite <- app_assoc.
Qed.

Lemma entries_app s a b : feed_entries s (a ++ b) = feed_entries (feed_entries s a) b.
Proof. unfold feed_entries. apply fold_left_app. Qed.

Lemma entries_active_reset s pre r post : is_reset r = true -> Forall (fun e => is_reset e = false) post ->
  s_active (feed_entries s (pre ++ r :: post)) = post.
Proof.
  intros Hr Hp. rewrite entries_app.
  change (r :: post) with ([r] ++ post). rewrite entries_app.
  rewrite entries_active_noreset by assumption.
  unfold feed_entries at 1. cbn [fold_left record_entry s_active]. rewrite Hr. reflexivity.
Qed.

Lemma log_mirrors s fs : s_log (feed s fs) = s_log s ++ decoded fs.
Proof. rewrite feed_is_entries. apply entries_log. Qed.

Lemma log_wellformed fs : Forall (fun ft => zlen (fst ft) = 8) fs ->
  decoded fs = map (fun ft => frame_entry (fst ft) (snd ft)) fs.
Proof.
  unfold decoded. induction 1 as [|[f ts] r H Hr IH]; [reflexivity|].
  cbn [flat_map map fst snd] in *. rewrite decode_spec by assumption. rewrite IH. reflexivity.
Qed.

Lemma log_is_frames n fs : Forall (fun ft => zlen (fst ft) = 8) fs ->
  s_log (feed (init n) fs) = map (fun ft => frame_entry (fst ft) (snd ft)) fs.
Proof. intros H. rewrite log_mirrors, log_wellformed by assumption. reflexivity. Qed.

Lemma malformed_ignored s f ts : zlen f <> 8 -> on_emcy s f ts = Err E_STRUCT /\ feed s [(f, ts)] = s.
Proof.
  intros H. unfold feed, feed1, on_emcy. cbn [fold_left fst snd]. rewrite decode_rejects by assumption.
  split; reflexivity.
Qed.

Lemma active_no_reset s fs : Forall (fun e => is_reset e = false) (decoded fs) ->
  s_active (feed s fs) = s_active s ++ decoded fs.
Proof. intros H. rewrite feed_is_entries. now apply entries_active_noreset. Qed.

Lemma active_since_reset s fs pre r post : decoded fs = pre ++ r :: post -> is_reset r = true ->
  Forall (fun e => is_reset e = false) post -> s_active (feed s fs) = post.
Proof. intros E Hr Hp. rewrite feed_is_entries, E. now apply entries_active_reset. Qed.

(* the reset test of on_emcy (code & 0xFF00 == 0) is the CiA 301 error class 00xx, on all 16-bit codes *)
Definition bytes256 : list Z := map Z.of_nat (seq 0 256).
Definition codes16 : list Z := flat_map (fun h => map (fun l => 256 * h + l) bytes256) bytes256.

Lemma in_bytes256 b : 0 <= b < 256 -> In b bytes256.
Proof.
  intros H. unfold bytes256. apply in_map_iff. exists (Z.to_nat b). split; [lia|].
  apply in_seq. lia.
Qed.

Lemma in_codes16 c : 0 <= c < 65536 -> In c codes16.
Proof.
  intros H. unfold codes16. apply in_flat_map. exists (c / 256). split.
  - apply in_bytes256. lia.
  - apply in_map_iff. exists (c mod 256). split; [lia|]. apply in_bytes256. lia.
Qed.

Lemma reset_all : forallb (fun c => Bool.eqb (is_reset_code c) (c <? 256)) codes16 = true.
Proof. vm_compute. reflexivity. Qed.

Lemma reset_is_class_00 c : 0 <= c < 65536 -> is_reset_code c = (c <? 256).
Proof.
  intros H. pose proof reset_all as A. rewrite forallb_forall in A.
  specialize (A c (in_codes16 c H)). now apply eqb_prop in A.
Qed.

(* every callback sees every entry once, in order *)
Lemma filter_ids i n : 0 <= i < Z.of_nat n -> filter (fun j => j =? i) (cb_ids n) = [i].
Proof.
  unfold cb_ids. induction n as [|n IH]; intros H; [lia|].
  rewrite seq_S, map_app, filter_app. cbn [map filter plus].
  destruct (Z.of_nat n =? i) eqn:E.
  - assert (Z.of_nat n = i) by lia. subst i.
    replace (filter (fun j => j =? Z.of_nat n) (map Z.of_nat (seq 0 n))) with (@nil Z); [reflexivity|].
    symmetry. clear. assert (G : forall k, (k <= n)%nat -> filter (fun j => j =? Z.of_nat n) (map Z.of_nat (seq 0 k)) = []).
    { induction k as [|k IHk]; intros Hk; [reflexivity|].
      rewrite seq_S, map_app, filter_app, IHk by lia. cbn [map filter plus].
      destruct (Z.of_nat k =? Z.of_nat n) eqn:E; [lia|reflexivity]. }
    apply G. lia.
  - rewrite IH by lia. reflexivity.
Qed.

Lemma filter_ids_none i n : ~ (0 <= i < Z.of_nat n) -> filter (fun j => j =? i) (cb_ids n) = [].
Proof.
  unfold cb_ids. induction n as [|n IH]; intros H; [reflexivity|].
  rewrite seq_S, map_app, filter_app, IH by lia. cbn [map filter plus].
  destruct (Z.of_nat n =? i) eqn:E; [lia|reflexivity].
Qed.

Lemma filter_pairs i (e : entry) l :
  filter (fun p : Z * entry => fst p =? i) (map (fun j => (j, e)) l) = map (fun j => (j, e)) (filter (fun j => j =? i) l).
Proof.
  induction l as [|x l IH]; [reflexivity|]. cbn [map filter fst]. destruct (x =? i); cbn [map]; now rewrite IH.
Qed.

Lemma invocations_of_callback i n es : 0 <= i < Z.of_nat n ->
  map snd (filter (fun p => fst p =? i) (invocations n es)) = es.
Proof.
  intros H. unfold invocations. induction es as [|e r IH]; [reflexivity|].
  cbn [flat_map]. rewrite filter_app, map_app, IH, filter_pairs, filter_ids by assumption. reflexivity.
Qed.

Lemma invocations_unregistered i n es : ~ (0 <= i < Z.of_nat n) ->
  filter (fun p => fst p =? i) (invocations n es) = [].
Proof.
  intros H. unfold invocations. induction es as [|e r IH]; [reflexivity|].
  cbn [flat_map]. rewrite filter_app, IH, filter_pairs, filter_ids_none by assumption. reflexivity.
Qed.

Lemma callbacks_in_order s fs : s_cblog (feed s fs) = s_cblog s ++ invocations (s_ncb s) (decoded fs).
Proof. rewrite feed_is_entries. apply entries_cblog. Qed.

Lemma callbacks_once_each n fs i : 0 <= i < Z.of_nat n ->
  map snd (filter (fun p => fst p =? i) (s_cblog (feed (init n) fs))) = decoded fs.
Proof.
  intros H. rewrite callbacks_in_order. cbn [init s_cblog s_ncb app].
  now apply invocations_of_callback.
Qed.

(* ------------------------------------------------------------------ producer -> consumer *)
Lemma pad_short data : (length data <= 5)%nat -> pad_data data = data ++ repeat 0 (5 - length data).
Proof.
  intros H. unfold pad_data. change (Z.to_nat EMCY_DATA_BYTES) with 5%nat.
  destruct data as [|d0 [|d1 [|d2 [|d3 [|d4 [|d5 r]]]]]]; cbn [length] in H; try lia; reflexivity.
Qed.

Lemma pad_length data : length (pad_data data) = 5%nat.
Proof.
  unfold pad_data. change (Z.to_nat EMCY_DATA_BYTES) with 5%nat.
  rewrite firstn_length, app_length, repeat_length. lia.
Qed.

Lemma encode_ok code reg data : 0 <= code < 65536 -> 0 <= reg < 256 ->
  encode_emcy code reg data = Ok (le_encode 2 code ++ le_encode 1 reg ++ pad_data data).
Proof.
  intros Hc Hr. unfold encode_emcy.
  change (2 ^ (8 * EMCY_CODE_BYTES)) with 65536. change (2 ^ (8 * EMCY_REG_BYTES)) with 256.
  replace ((0 <=? code) && (code <? 65536) && (0 <=? reg) && (reg <? 256)) with true by lia.
  reflexivity.
Qed.

Lemma encode_rejects code reg data : ~ (0 <= code < 65536 /\ 0 <= reg < 256) ->
  encode_emcy code reg data = Err E_STRUCT.
Proof.
  intros H. unfold encode_emcy.
  change (2 ^ (8 * EMCY_CODE_BYTES)) with 65536. change (2 ^ (8 * EMCY_REG_BYTES)) with 256.
  replace ((0 <=? code) && (code <? 65536) && (0 <=? reg) && (reg <? 256)) with false by lia.
  reflexivity.
Qed.

Lemma roundtrip_general code reg data ts : 0 <= code < 65536 -> 0 <= reg < 256 ->
  exists f, producer_send code reg data = Ok f /\ zlen f = 8 /\
            decode_emcy f ts = Ok (mkE code reg (pad_data data) ts).
Proof.
  intros Hc Hr. unfold producer_send. rewrite encode_ok by assumption.
  eexists. split; [reflexivity|]. split.
  - unfold zlen. rewrite !app_length, !le_encode_length, pad_length. reflexivity.
  - rewrite decode_parts by (rewrite ?le_encode_length, ?pad_length; reflexivity).
    rewrite !le_decode_encode.
    change (2 ^ (8 * Z.of_nat 2)) with 65536. change (2 ^ (8 * Z.of_nat 1)) with 256.
    rewrite !Z.mod_small by lia. reflexivity.
Qed.

Lemma producer_consumer_roundtrip code reg data ts : 0 <= code < 65536 -> 0 <= reg < 256 -> (length data <= 5)%nat ->
  exists f, producer_send code reg data = Ok f /\ zlen f = 8 /\
            decode_emcy f ts = Ok (mkE code reg (data ++ repeat 0 (5 - length data)) ts).
Proof.
  intros Hc Hr Hd. destruct (roundtrip_general code reg data ts Hc Hr) as [f [H1 [H2 H3]]].
  exists f. rewrite <- pad_short by assumption. auto.
Qed.

(* the consumer that receives the produced frame logs exactly that entry, and (unless it is a reset) holds it active *)
Lemma producer_into_consumer s code reg data ts : 0 <= code < 65536 -> 0 <= reg < 256 -> (length data <= 5)%nat ->
  exists f, producer_send code reg data = Ok f /\
    let e := mkE code reg (data ++ repeat 0 (5 - length data)) ts in
    on_emcy s f ts = Ok (record_entry s e) /\
    s_log (feed s [(f, ts)]) = s_log s ++ [e] /\
    s_active (feed s [(f, ts)]) = if code <? 256 then [] else s_active s ++ [e].
Proof.
  intros Hc Hr Hd. destruct (producer_consumer_roundtrip code reg data ts Hc Hr Hd) as [f [H1 [H2 H3]]].
  exists f. split; [assumption|]. cbn zeta.
  unfold feed, feed1, on_emcy. cbn [fold_left fst snd]. rewrite H3. cbn [rbind].
  split; [reflexivity|]. split; [reflexivity|].
  cbn [record_entry s_active]. unfold is_reset. cbn [e_code]. rewrite reset_is_class_00 by assumption. reflexivity.
Qed.

Lemma producer_reset_is_reset reg data ts : 0 <= reg < 256 ->
  producer_reset reg data = producer_send 0 reg data /\
  exists f e, producer_reset reg data = Ok f /\ decode_emcy f ts = Ok e /\ is_reset e = true /\
              e_reg e = reg /\ e_data e = pad_data data.
Proof.
  intros Hr. split; [reflexivity|].
  destruct (roundtrip_general 0 reg data ts ltac:(lia) Hr) as [f [H1 [H2 H3]]].
  exists f. eexists. split; [exact H1|]. split; [exact H3|]. repeat split; reflexivity.
Qed.

(* ------------------------------------------------------------------ descriptions *)
(* CiA 301 emergency error classes, by ranges of the error code (the class names are the library's
   wording of the CiA 301 table "emergency error code classes"):
     00xx error reset / no error, 10xx generic, 2xxx current, 3xxx voltage, 4xxx temperature,
     50xx device hardware, 6xxx device software, 70xx additional modules, 8xxx monitoring,
     90xx external error, F0xx additional functions, FFxx device specific; anything else has no class. *)
Module Cia301.
Import String.
Local Open Scope string_scope.
Local Open Scope Z_scope.
Definition class (c : Z) : string :=
  (if (0 <=? c) && (c <=? 255) then "Error Reset / No Error"
   else if (4096 <=? c) && (c <=? 4351) then "Generic Error"
   else if (8192 <=? c) && (c <=? 12287) then "Current"
   else if (12288 <=? c) && (c <=? 16383) then "Voltage"
   else if (16384 <=? c) && (c <=? 20479) then "Temperature"
   else if (20480 <=? c) && (c <=? 20735) then "Device Hardware"
   else if (24576 <=? c) && (c <=? 28671) then "Device Software"
   else if (28672 <=? c) && (c <=? 28927) then "Additional Modules"
   else if (32768 <=? c) && (c <=? 36863) then "Monitoring"
   else if (36864 <=? c) && (c <=? 37119) then "External Error"
   else if (61440 <=? c) && (c <=? 61695) then "Additional Functions"
   else if (65280 <=? c) && (c <=? 65535) then "Device Specific"
   else "").
End Cia301.
Definition cia301_class : Z -> String.string := Cia301.class.

Lemma desc_all : forallb (fun c => list_Z_eqb (get_desc c) (str_codes (cia301_class c))) codes16 = true.
Proof. vm_compute. reflexivity. Qed.

Lemma desc_table_is_cia301 c : 0 <= c < 65536 -> get_desc c = str_codes (cia301_class c).
Proof.
  intros H. pose proof desc_all as A. rewrite forallb_forall in A.
  apply list_Z_eqb_eq. exact (A c (in_codes16 c H)).
Qed.

(* ------------------------------------------------------------------ wait *)
(* every entry that arrives while the caller waits, up to the time-out (a wake-up with an unchanged log,
   a wake-up past the deadline, or nothing more) *)
Fixpoint arrivals (ws : list wake) : list entry :=
  match ws with
  | [] => []
  | WTimeout :: _ => []
  | WNew b late :: r => match b with [] => [] | _ => if late then [] else b ++ arrivals r end
  end.

Lemma find_app {A} (f : A -> bool) a b :
  find f (a ++ b) = match find f a with Some x => Some x | None => find f b end.
Proof. induction a as [|x a IH]; [reflexivity|]. cbn [app find]. destruct (f x); [reflexivity|exact IH]. Qed.

Lemma find_first {A} (f : A -> bool) l e : find f l = Some e ->
  exists pre post, l = pre ++ e :: post /\ f e = true /\ Forall (fun x => f x = false) pre.
Proof.
  induction l as [|x l IH]; [discriminate|]. cbn [find]. destruct (f x) eqn:E; intros H.
  - injection H as ->. exists [], l. repeat split; [assumption|constructor].
  - destruct (IH H) as [pre [post [H1 [H2 H3]]]]. exists (x :: pre), post. subst l.
    repeat split; [assumption|]. constructor; assumption.
Qed.

Lemma find_none_all {A} (f : A -> bool) l : find f l = None -> Forall (fun x => f x = false) l.
Proof.
  induction l as [|x l IH]; [constructor|]. cbn [find]. destruct (f x) eqn:E; [discriminate|].
  intros H. constructor; auto.
Qed.

Lemma skipn_app_all {A} (a b : list A) : skipn (length a) (a ++ b) = b.
Proof. induction a as [|x a IH]; [reflexivity|exact IH]. Qed.

(* for EVERY wake-up schedule and every older log: the caller is handed the first matching entry
   that arrives before the time-out, or nothing *)
Lemma wait_next_match filt ws : forall log, wait_scan filt log ws = find (matchb filt) (arrivals ws).
Proof.
  induction ws as [|[|b late] r IH]; intros log; [reflexivity|reflexivity|].
  cbn [wait_scan arrivals]. destruct b as [|x b].
  - rewrite app_nil_r, Nat.eqb_refl. reflexivity.
  - replace (length (log ++ x :: b) =? length log)%nat with false
      by (symmetry; apply Nat.eqb_neq; rewrite app_length; cbn [length]; lia).
    destruct late; [reflexivity|].
    rewrite skipn_app_all, find_app. destruct (find (matchb filt) (x :: b)); [reflexivity|]. apply IH.
Qed.

Lemma wait_handed_first_match filt log ws e : wait_scan filt log ws = Some e ->
  exists pre post, arrivals ws = pre ++ e :: post /\ matchb filt e = true /\
                   Forall (fun x => matchb filt x = false) pre.
Proof. rewrite wait_next_match. apply find_first. Qed.

Lemma wait_nothing filt log ws : wait_scan filt log ws = None ->
  Forall (fun x => matchb filt x = false) (arrivals ws).
Proof. rewrite wait_next_match. apply find_none_all. Qed.

(* the result does not depend on how the arrivals are spread over the wake-ups (as long as none is late) *)
Fixpoint in_time (ws : list wake) : list wake :=
  match ws with
  | WNew (x :: b) false :: r => WNew (x :: b) false :: in_time r
  | _ => []
  end.

Lemma arrivals_concat ws : arrivals ws = arrivals (in_time ws).
Proof.
  induction ws as [|[|b late] r IH]; [reflexivity|reflexivity|].
  destruct b as [|x b]; [reflexivity|]. destruct late; [reflexivity|].
  cbn [arrivals in_time]. rewrite IH. reflexivity.
Qed.

Lemma wait_schedule_independent filt log1 log2 ws1 ws2 : arrivals ws1 = arrivals ws2 ->
  wait_scan filt log1 ws1 = wait_scan filt log2 ws2.
Proof. intros H. rewrite !wait_next_match, H. reflexivity. Qed.

(* the deadline: whatever is logged at or after a wake-up past the deadline is never handed out *)
Lemma arrivals_app_stop pre s : arrivals s = [] -> arrivals (pre ++ s) = arrivals pre.
Proof.
  intros H. induction pre as [|[|b late] r IH]; cbn [app arrivals]; [assumption|reflexivity|].
  destruct b as [|x b]; [reflexivity|]. destruct late; [reflexivity|]. rewrite IH. reflexivity.
Qed.

Lemma wait_deadline filt log pre b r :
  wait_scan filt log (pre ++ WNew b true :: r) = wait_scan filt log pre.
Proof.
  rewrite !wait_next_match. rewrite arrivals_app_stop; [reflexivity|].
  cbn [arrivals]. destruct b; reflexivity.
Qed.

(* ------------------------------------------------------------------ sequences from one producer *)
Definition msg_args (m : prod_msg) : Z * Z * list Z :=
  match m with PSend c r d => (c, r, d) | PReset r d => (0, r, d) end.

Definition msg_ok (m : prod_msg) : Prop :=
  let '(c, r, _) := msg_args m in 0 <= c < 65536 /\ 0 <= r < 256.

Fixpoint msg_entries (ts : Z) (msgs : list prod_msg) : list entry :=
  match msgs with
  | [] => []
  | m :: r => let '(c, g, d) := msg_args m in mkE c g (pad_data d) ts :: msg_entries (ts + 1) r
  end.

(* every message is decoded with ITS OWN data, zero padded, whatever was sent before it *)
Lemma producer_sequence msgs : forall s ts, Forall msg_ok msgs ->
  s_log (produce_all s ts msgs) = s_log s ++ msg_entries ts msgs.
Proof.
  induction msgs as [|m r IH]; intros s ts H; cbn [produce_all msg_entries].
  - now rewrite app_nil_r.
  - inversion H as [|x y Hm Hr]; subst.
    assert (E : exists c g d, msg_args m = (c, g, d) /\ producer_msg m = producer_send c g d).
    { destruct m as [c g d|g d]; cbn; eauto. }
    destruct E as [c [g [d [Ea Ep]]]]. unfold msg_ok in Hm. rewrite Ea in *. destruct Hm as [Hc Hg].
    destruct (roundtrip_general c g d ts Hc Hg) as [f [H1 [H2 H3]]].
    rewrite Ep, H1, IH by assumption.
    unfold feed1, on_emcy. cbn [fst snd]. rewrite H3. cbn [rbind record_entry s_log].
    now rewrite <- app_assoc.
Qed.
