(* Proofs about Model/Crc.v: the fold law that makes the chunk-wise CrcXmodem.process calls of the
   block streams equal to the CRC of the whole payload, and range facts. *)
From Coq Require Import ZArith List Bool Lia ZifyBool.
From CV Require Import Model.Crc Model.RefBlockServer.
Import ListNotations.
Open Scope Z_scope.
Ltac Zify.zify_post_hook ::= Z.to_euclidean_division_equations.

(* processing a ++ b from c = processing b from the result of processing a from c *)
Lemma crc_from_app c a b : crc_from c (a ++ b) = crc_from (crc_from c a) b.
Proof. unfold crc_from. apply fold_left_app. Qed.

Lemma crc16_app a b : crc16 (a ++ b) = crc_from (crc16 a) b.
Proof. apply crc_from_app. Qed.

(* any sequence of process() calls over the pieces of a payload gives the CRC of the payload *)
Lemma crc_from_concat c chunks : fold_left crc_from chunks c = crc_from c (concat chunks).
Proof.
  revert c. induction chunks as [|x r IH]; intros c; cbn [fold_left concat]; [reflexivity|].
  rewrite IH, crc_from_app. reflexivity.
Qed.

Lemma crc_from_nil c : crc_from c [] = c.
Proof. reflexivity. Qed.

(* ---- CRC-16/XMODEM is linear over xor and never maps a non-zero register difference to zero ---- *)
Ltac xor_bits := apply Z.bits_inj'; intros n Hn; rewrite ?Z.lxor_spec;
  repeat match goal with |- context [Z.testbit ?a n] => destruct (Z.testbit a n) end; reflexivity.

Lemma land_lxor_distr a b m : Z.land (Z.lxor a b) m = Z.lxor (Z.land a m) (Z.land b m).
Proof.
  apply Z.bits_inj'; intros n Hn. rewrite !Z.lxor_spec, !Z.land_spec, Z.lxor_spec.
  destruct (Z.testbit a n), (Z.testbit b n), (Z.testbit m n); reflexivity.
Qed.

Lemma crc_bit_lxor x y : crc_bit (Z.lxor x y) = Z.lxor (crc_bit x) (crc_bit y).
Proof.
  unfold crc_bit. rewrite Z.lxor_spec, Z.shiftl_lxor, land_lxor_distr.
  set (A := Z.land (Z.shiftl x 1) 65535). set (B := Z.land (Z.shiftl y 1) 65535).
  destruct (Z.testbit x 15), (Z.testbit y 15); cbn [xorb]; xor_bits.
Qed.

Definition bit8 (c : Z) : Z := crc_bit (crc_bit (crc_bit (crc_bit (crc_bit (crc_bit (crc_bit (crc_bit c))))))).

Lemma bit8_lxor x y : bit8 (Z.lxor x y) = Z.lxor (bit8 x) (bit8 y).
Proof. unfold bit8. now rewrite !crc_bit_lxor. Qed.

Lemma crc_byte_bit8 c b : crc_byte c b = bit8 (Z.lxor c (Z.shiftl b 8)).
Proof. reflexivity. Qed.

(* a register difference d propagates through one byte as bit8 d *)
Lemma crc_byte_diff c d b : crc_byte (Z.lxor c d) b = Z.lxor (crc_byte c b) (bit8 d).
Proof.
  rewrite !crc_byte_bit8, <- bit8_lxor. f_equal. xor_bits.
Qed.

Lemma crc_byte_flip c b m : crc_byte c (Z.lxor b m) = Z.lxor (crc_byte c b) (bit8 (Z.shiftl m 8)).
Proof.
  rewrite !crc_byte_bit8, <- bit8_lxor, Z.shiftl_lxor. f_equal. xor_bits.
Qed.

Fixpoint iter_bit8 (n : nat) (d : Z) : Z := match n with O => d | S n' => iter_bit8 n' (bit8 d) end.

Lemma crc_from_diff : forall data c d, crc_from (Z.lxor c d) data = Z.lxor (crc_from c data) (iter_bit8 (length data) d).
Proof.
  induction data as [|b r IH]; intros c d; [reflexivity|].
  cbn [crc_from fold_left length iter_bit8]. fold (crc_from (crc_byte (Z.lxor c d) b) r) (crc_from (crc_byte c b) r).
  rewrite crc_byte_diff. apply IH.
Qed.

(* 16-bit registers *)
Definition r16 (c : Z) : Prop := 0 <= c < 65536.

Lemma land_r16 x : r16 (Z.land x 65535).
Proof. unfold r16. change 65535 with (Z.ones 16). rewrite Z.land_ones by lia. change (2 ^ 16) with 65536. lia. Qed.

Lemma lxor_r16 a b : r16 a -> r16 b -> r16 (Z.lxor a b).
Proof.
  unfold r16. intros Ha Hb. split; [apply Z.lxor_nonneg; lia|].
  destruct (Z.eq_dec (Z.lxor a b) 0) as [E|E]; [lia|].
  assert (H0 : 0 < Z.lxor a b) by (pose proof (proj2 (Z.lxor_nonneg a b) ltac:(lia)); lia).
  apply (Z.log2_lt_pow2 _ 16 H0).
  pose proof (Z.log2_lxor a b ltac:(lia) ltac:(lia)) as Hl.
  assert (La : Z.log2 a < 16) by (destruct (Z.eq_dec a 0); [subst; cbn; lia|apply Z.log2_lt_pow2; lia]).
  assert (Lb : Z.log2 b < 16) by (destruct (Z.eq_dec b 0); [subst; cbn; lia|apply Z.log2_lt_pow2; lia]).
  lia.
Qed.

Lemma crc_bit_r16 c : r16 (crc_bit c).
Proof.
  unfold crc_bit. destruct (Z.testbit c 15); [|apply land_r16].
  apply lxor_r16; [apply land_r16|unfold r16; lia].
Qed.

Lemma testbit15 c : r16 c -> Z.testbit c 15 = (32768 <=? c).
Proof.
  unfold r16. intros H. rewrite Z.testbit_eqb by lia. change (2 ^ 15) with 32768.
  destruct (32768 <=? c) eqn:E.
  - replace (c / 32768) with 1 by lia. reflexivity.
  - replace (c / 32768) with 0 by lia. reflexivity.
Qed.

(* the constant term of the polynomial is 1: shifting never annihilates a non-zero register *)
Lemma crc_bit_nonzero c : r16 c -> c <> 0 -> crc_bit c <> 0.
Proof.
  intros Hr Hc. unfold crc_bit. rewrite (testbit15 c Hr). unfold r16 in Hr.
  change 65535 with (Z.ones 16). rewrite Z.land_ones by lia. rewrite Z.shiftl_mul_pow2 by lia. change (2 ^ 1) with 2. change (2 ^ 16) with 65536.
  destruct (32768 <=? c) eqn:E.
  - (* bit 0 of the result is 1 *)
    intros H. apply (f_equal (fun z => Z.testbit z 0)) in H. rewrite Z.lxor_spec in H.
    rewrite !Z.bit0_odd in H. replace (Z.odd (c * 2 mod 65536)) with false in H.
    2:{ symmetry. rewrite <- Z.negb_even. replace (Z.even (c * 2 mod 65536)) with true; [reflexivity|].
        symmetry. apply Z.even_spec. exists (c - 32768). lia. }
    cbn in H. discriminate.
  - lia.
Qed.

Lemma bit8_r16 c : r16 (bit8 c).
Proof. unfold bit8. apply crc_bit_r16. Qed.

Lemma bit8_nonzero c : r16 c -> c <> 0 -> bit8 c <> 0.
Proof.
  intros Hr Hc. unfold bit8.
  repeat (apply crc_bit_nonzero; [apply crc_bit_r16|]).
  apply crc_bit_nonzero; assumption.
Qed.

Lemma iter_bit8_nonzero n : forall d, r16 d -> d <> 0 -> iter_bit8 n d <> 0.
Proof.
  induction n as [|n IH]; intros d Hr Hd; cbn [iter_bit8]; [exact Hd|].
  apply IH; [apply bit8_r16|apply bit8_nonzero; assumption].
Qed.

Lemma lxor_ne x d : d <> 0 -> Z.lxor x d <> x.
Proof.
  intros Hd H. apply Hd.
  assert (E : d = Z.lxor x (Z.lxor x d)) by (rewrite <- Z.lxor_assoc, Z.lxor_nilpotent, Z.lxor_0_l; reflexivity).
  rewrite H, Z.lxor_nilpotent in E. exact E.
Qed.

(* ---- every single-bit corruption of a byte string of any length changes the CRC ---- *)
Lemma crc_single_bit : forall data c i k,
  (i < length data)%nat -> 0 <= k < 8 ->
  crc_from c (xor_at data i (2 ^ k)) <> crc_from c data.
Proof.
  induction data as [|b r IH]; intros c i k Hi Hk; [cbn in Hi; lia|].
  destruct i as [|i'].
  - cbn [xor_at crc_from fold_left]. fold (crc_from (crc_byte c (Z.lxor b (2 ^ k))) r) (crc_from (crc_byte c b) r).
    rewrite crc_byte_flip, crc_from_diff. apply lxor_ne.
    apply iter_bit8_nonzero; [apply bit8_r16|].
    apply bit8_nonzero.
    + unfold r16. rewrite Z.shiftl_mul_pow2 by lia. rewrite <- Z.pow_add_r by lia.
      split; [apply Z.pow_nonneg; lia|]. change 65536 with (2 ^ 16). apply Z.pow_lt_mono_r; lia.
    + rewrite Z.shiftl_mul_pow2 by lia. pose proof (Z.pow_pos_nonneg 2 k ltac:(lia) ltac:(lia)). lia.
  - cbn [xor_at crc_from fold_left]. fold (crc_from (crc_byte c b) (xor_at r i' (2 ^ k))) (crc_from (crc_byte c b) r).
    apply IH; [cbn in Hi; lia|exact Hk].
Qed.
