(* Proofs about Model/SdoLink.v: the library client model run against the library server model (C03). *)
From Coq Require Import ZArith List Bool Lia ZifyBool Arith.
From CV Require Import Base.Val Base.Bytes Base.Tys Gen.Tables Gen.SdoTables Model.Codec Model.RefServer Model.SdoClient
  Proofs.SdoClient_proofs Model.SdoServer Model.SdoLink Proofs.Codec_proofs.
Import ListNotations.
Open Scope Z_scope.
Ltac Zify.zify_post_hook ::= Z.to_euclidean_division_equations.

(* ------------------------------------------------------------------ one exchange, any peer *)
Lemma rr_peer_body {S} (peer : S -> list Z -> S * list (list Z)) (w0 : @world S) req s' c t :
  w_q w0 = [] -> peer (w_s w0) req = (s', [c :: t]) -> c <> 128 ->
  exists w',
    (let w1 := send_request peer w0 req in
     let '(w2, r) := read_response w1 in
     match r with
     | Err k => if k =? E_SDOCOMM then (send_request peer w2 (SdoClient.abort_frame TIMEOUT_ABORT), r) else (w2, r)
     | _ => (w2, r)
     end) = (w', Ok (c :: t)) /\ w_s w' = s' /\ w_q w' = [].
Proof.
  intros Hq Hp Hc. destruct w0 as [s0 q0 l0]. cbn in Hq, Hp. subst q0.
  unfold send_request at 1. cbn [w_s w_q w_log]. rewrite Hp. cbn [app].
  unfold read_response. cbn [w_q]. unfold RESPONSE_ABORTED. replace (c =? 128) with false by lia.
  eexists. split; [reflexivity|]. cbn. auto.
Qed.

Lemma rr_peer_ok {S} (peer : S -> list Z -> S * list (list Z)) (w : @world S) req s' c t :
  peer (w_s w) req = (s', [c :: t]) -> c <> 128 ->
  exists w', request_response peer w req = (w', Ok (c :: t)) /\ w_s w' = s' /\ w_q w' = [].
Proof.
  intros Hp Hc. unfold request_response. destruct (w_q w) eqn:Eq.
  - apply (rr_peer_body peer w req s' c t Eq Hp Hc).
  - apply (rr_peer_body peer (set_q [] w) req s' c t eq_refl Hp Hc).
Qed.

(* ------------------------------------------------------------------ the library server, step by step *)
Lemma mux_recombine idx sub : mux_ok idx sub ->
  unpack_mux (64 :: mux_bytes idx sub ++ [0; 0; 0; 0]) = Ok (64, idx, sub) /\
  idx mod 256 + 256 * (idx / 256) = idx /\ le_encode 2 idx = [idx mod 256; idx / 256].
Proof.
  unfold mux_ok, mux_bytes. intros [H1 H2]. cbn [app unpack_mux le_encode].
  assert (E : idx mod 256 + 256 * (idx / 256) = idx) by lia.
  rewrite E. repeat split. f_equal. f_equal. lia.
Qed.

(* command bytes of the client's download segments, as the server reads them *)
Lemma seg_cmd_lands t last n : 0 <= n <= 7 ->
  let c := seg_cmd t last n in
  Z.land c 224 = 0 /\ Z.land c 16 = 16 * b2z t /\ Z.land (Z.shiftr c 1) 7 = 7 - n /\
  (Z.land c 1 =? 0) = negb last /\ Z.lor 32 (16 * b2z t) = 32 + 16 * b2z t.
Proof.
  intros H. assert (E : n = 0 \/ n = 1 \/ n = 2 \/ n = 3 \/ n = 4 \/ n = 5 \/ n = 6 \/ n = 7) by lia.
  destruct t, last; decompose [or] E; subst; vm_compute; repeat split; reflexivity.
Qed.

Definition dl_state (st : sstate) (idx sub : Z) (buf : list Z) (t : bool) : Prop :=
  s_buf st = Some buf /\ s_toggle st = 16 * b2z t /\ s_index st = idx /\ s_sub st = sub.

Lemma srv_init_dl d st idx sub z : mux_ok idx sub ->
  srv_peer d st ((33 :: mux_bytes idx sub) ++ le_encode 4 z) =
  (set_buf (set_mux st idx sub) (Some []) 0, [96 :: mux_bytes idx sub ++ [0; 0; 0; 0]]).
Proof.
  intros Hm. destruct (mux_recombine idx sub Hm) as (_ & E & E2).
  unfold srv_peer, on_request, mux_bytes. cbn [app le_encode].
  change (Z.land 33 224 =? REQUEST_UPLOAD) with false. change (Z.land 33 224 =? REQUEST_SEGMENT_UPLOAD) with false.
  change (Z.land 33 224 =? REQUEST_DOWNLOAD) with true. cbn iota.
  unfold init_download. cbn [unpack_mux]. rewrite E.
  change (negb (Z.land 33 EXPEDITED =? 0)) with false. cbn iota.
  change (negb (Z.land 33 SIZE_SPECIFIED =? 0)) with true. unfold zlen. cbn [length andb Z.of_nat].
  change (Z.pos (Pos.of_succ_nat 7) <? 8) with false. cbn iota.
  rewrite E2. reflexivity.
Qed.

Lemma set_data_ok d st idx sub v data : entry_rw d idx sub v -> length_ok v data = true ->
  set_data d st idx sub data true = (store_put (log_ev st (EvW idx sub data)) idx sub data, Ok tt).
Proof.
  intros (Hf & Hw & _) Hl. unfold set_data, check_set. rewrite Hf. cbn [rbind]. rewrite Hw. cbn [negb andb].
  unfold length_ok in Hl. destruct (is_number v); cbn [negb orb andb] in *; [rewrite Hl|]; reflexivity.
Qed.

(* a download segment as the client sends it *)
Lemma srv_seg_dl d st idx sub v buf t last (chunk : list Z) :
  dl_state st idx sub buf t -> (length chunk <= 7)%nat ->
  (last = true -> entry_rw d idx sub v /\ length_ok v (buf ++ chunk) = true) ->
  srv_peer d st (seg_cmd t last (zlen chunk) :: pad_to 7 chunk) =
  (let st1 := set_buf st (Some (buf ++ chunk)) (s_toggle st) in
   let st2 := if last then store_put (log_ev st1 (EvW idx sub (buf ++ chunk))) idx sub (buf ++ chunk) else st1 in
   set_buf st2 (s_buf st2) (16 * b2z (negb t)),
   [[32 + 16 * b2z t; 0; 0; 0; 0; 0; 0; 0]]).
Proof.
  intros (Hb & Ht & Hi & Hs) Hl Hlast.
  assert (Hn : 0 <= zlen chunk <= 7) by (unfold zlen; lia).
  destruct (seg_cmd_lands t last (zlen chunk) Hn) as (C1 & C2 & C3 & C4 & C5).
  unfold srv_peer, on_request.
  change (Z.land (seg_cmd t last (zlen chunk)) 224) with (Z.land (seg_cmd t last (zlen chunk)) 224). rewrite C1.
  change (0 =? REQUEST_UPLOAD) with false. change (0 =? REQUEST_SEGMENT_UPLOAD) with false.
  change (0 =? REQUEST_DOWNLOAD) with false. change (0 =? REQUEST_SEGMENT_DOWNLOAD) with true. cbn iota.
  unfold segmented_download, TOGGLE_BIT, NO_MORE_DATA, RESPONSE_SEGMENT_DOWNLOAD.
  rewrite C2, Ht, Z.eqb_refl, Hb, C3, C4. cbn [negb].
  replace (Z.to_nat (8 - (7 - zlen chunk) - 1)) with (length chunk) by (unfold zlen; lia).
  cbn [skipn]. rewrite firstn_pad_to, toggle_flip, C5.
  destruct last; cbn [negb].
  - destruct (Hlast eq_refl) as [He Hlen]. rewrite Hi, Hs.
    rewrite (set_data_ok d _ idx sub v (buf ++ chunk) He Hlen). reflexivity.
  - reflexivity.
Qed.

(* expedited download *)
Lemma srv_exp_dl d st idx sub v (b : list Z) : mux_ok idx sub -> 1 <= zlen b <= 4 ->
  entry_rw d idx sub v -> length_ok v b = true ->
  srv_peer d st ((exp_cmd (zlen b) :: mux_bytes idx sub) ++ pad_to 4 b) =
  (store_put (log_ev (set_mux st idx sub) (EvW idx sub b)) idx sub b, [96 :: mux_bytes idx sub ++ [0; 0; 0; 0]]).
Proof.
  intros Hm Hb He Hl. destruct (mux_recombine idx sub Hm) as (_ & E & E2).
  assert (Hx : forall z, 1 <= z <= 4 -> Z.land (exp_cmd z) 224 = 32 /\ negb (Z.land (exp_cmd z) EXPEDITED =? 0) = true /\
                 negb (Z.land (exp_cmd z) SIZE_SPECIFIED =? 0) = true /\ 4 - Z.land (Z.shiftr (exp_cmd z) 2) 3 = z).
  { intros z Hz. assert (Ez : z = 1 \/ z = 2 \/ z = 3 \/ z = 4) by lia.
    decompose [or] Ez; subst; vm_compute; repeat split; reflexivity. }
  destruct (Hx (zlen b) Hb) as (X1 & X2 & X3 & X4).
  unfold srv_peer, on_request, mux_bytes. cbn [app]. rewrite X1.
  change (32 =? REQUEST_UPLOAD) with false. change (32 =? REQUEST_SEGMENT_UPLOAD) with false.
  change (32 =? REQUEST_DOWNLOAD) with true. cbn iota.
  unfold init_download. cbn [unpack_mux]. rewrite E, X2, X3, X4. cbn iota.
  cbn [skipn]. unfold zlen. rewrite Nat2Z.id, firstn_pad_to.
  rewrite (set_data_ok d _ idx sub v b He Hl). rewrite E2. reflexivity.
Qed.

(* initiate upload of stored data: the answer is that of the conformant server of C01 in its default style *)
Lemma get_data_stored d st idx sub v data chk : entry_rw d idx sub v ->
  store_get (s_store st) idx sub = Some data ->
  get_data d no_rcb st idx sub chk = (log_ev st (EvR idx sub), Ok data).
Proof.
  intros (Hf & _ & Hr) Hg. unfold get_data. rewrite Hf, Hr. cbn [negb andb]. rewrite andb_false_r.
  unfold no_rcb. rewrite Hg. reflexivity.
Qed.

Lemma srv_init_ul d st idx sub v data : mux_ok idx sub -> entry_rw d idx sub v ->
  store_get (s_store st) idx sub = Some data -> zlen data < 2 ^ 32 ->
  srv_peer d st (ul_init_req idx sub) =
  (let st2 := log_ev (set_mux st idx sub) (EvR idx sub) in
   if (0 <? zlen data) && (zlen data <=? 4) then st2 else set_buf st2 (Some data) 0,
   [ul_init_resp default_style idx sub data]).
Proof.
  intros Hm He Hg Hl. destruct (mux_recombine idx sub Hm) as (Hu & E & E2).
  unfold srv_peer, on_request, ul_init_req. unfold mux_bytes at 1. cbn [app].
  change (Z.land 64 224 =? REQUEST_UPLOAD) with true. cbn iota.
  unfold init_upload. unfold ul_init_req, mux_bytes in Hu. cbn [app] in Hu. rewrite Hu.
  rewrite (get_data_stored d (set_mux st idx sub) idx sub v data true He) by exact Hg.
  unfold ul_init_resp, default_style. cbn [st_expedite st_exp_size st_size_ind andb].
  replace ((1 <=? zlen data) && (zlen data <=? 4)) with ((0 <? zlen data) && (zlen data <=? 4)) by lia.
  destruct ((0 <? zlen data) && (zlen data <=? 4)) eqn:Ee.
  - assert (Ez : zlen data = 1 \/ zlen data = 2 \/ zlen data = 3 \/ zlen data = 4) by lia.
    rewrite E2. unfold RESPONSE_UPLOAD, SIZE_SPECIFIED, EXPEDITED, mux_bytes, pad_to. cbn [app].
    replace (Z.lor (Z.lor (Z.lor 64 1) 2) (Z.shiftl (4 - zlen data) 2)) with (67 + 4 * (4 - zlen data))
      by (decompose [or] Ez; match goal with H : zlen data = _ |- _ => rewrite H end; reflexivity).
    reflexivity.
  - replace (zlen data <? 2 ^ 32) with true by lia. rewrite E2. reflexivity.
Qed.

Definition ul_state (st : sstate) (buf : list Z) (t : bool) : Prop :=
  s_buf st = Some buf /\ s_toggle st = 16 * b2z t.

Lemma srv_seg_ul d st buf t : ul_state st buf t ->
  srv_peer d st (ul_seg_req t) =
  (set_buf st (Some (skipn 7 buf)) (16 * b2z (negb t)),
   [seg_resp t (firstn 7 buf) (is_nil (skipn 7 buf))]).
Proof.
  intros (Hb & Ht). unfold srv_peer, on_request, ul_seg_req.
  replace (Z.land (Z.lor 96 (16 * b2z t)) 224 =? REQUEST_UPLOAD) with false by (destruct t; reflexivity).
  replace (Z.land (Z.lor 96 (16 * b2z t)) 224 =? REQUEST_SEGMENT_UPLOAD) with true by (destruct t; reflexivity).
  cbn iota. unfold segmented_upload, TOGGLE_BIT, RESPONSE_SEGMENT_UPLOAD, NO_MORE_DATA.
  replace (Z.land (Z.lor 96 (16 * b2z t)) 16) with (16 * b2z t) by (destruct t; reflexivity).
  rewrite Ht, Z.eqb_refl, Hb. cbn [negb]. rewrite toggle_flip. unfold seg_resp, pad_to.
  set (chunk := firstn 7 buf).
  assert (Hc : (length chunk <= 7)%nat) by (unfold chunk; rewrite firstn_length; lia).
  assert (Ez : zlen chunk = 0 \/ zlen chunk = 1 \/ zlen chunk = 2 \/ zlen chunk = 3 \/ zlen chunk = 4 \/
               zlen chunk = 5 \/ zlen chunk = 6 \/ zlen chunk = 7) by (unfold zlen; lia).
  f_equal. f_equal. f_equal.
  destruct (skipn 7 buf); cbn [is_nil b2z]; destruct t; cbn [b2z];
    decompose [or] Ez; match goal with H : zlen chunk = _ |- _ => rewrite H end; reflexivity.
Qed.

(* ------------------------------------------------------------------ client download against the library server *)
Section LinkDownload.
  Context (d : dict) (idx sub : Z) (v : var).
  Context (Hm : mux_ok idx sub) (He : entry_rw d idx sub v).
  Let peer := srv_peer d.

  Lemma l_ws_init_seg (w : lworld) z force : 0 <= z < 2 ^ 32 -> expedited (Some z) force = false ->
    exists w', ws_init peer w idx sub (Some z) force = (w', ws_new (Some z), Ok tt) /\
               w_s w' = set_buf (set_mux (w_s w) idx sub) (Some []) 0.
  Proof.
    intros Hz Hexp. unfold ws_init.
    replace ((z <? 1) || (4 <? z) || force) with true by (unfold expedited in Hexp; destruct force; lia).
    unfold REQUEST_DOWNLOAD, SIZE_SPECIFIED, RESPONSE_DOWNLOAD.
    replace ((0 <=? z) && (z <? 2 ^ 32)) with true by lia. change (Z.lor 32 1) with 33.
    rewrite pack_sdo_ok by (auto; lia).
    destruct (rr_peer_ok peer w ((33 :: mux_bytes idx sub) ++ le_encode 4 z) _ 96 _ (srv_init_dl d (w_s w) idx sub z Hm) ltac:(lia))
      as (w' & E & Hs & _).
    rewrite E. cbn [nth Z.eqb]. exists w'. auto.
  Qed.

  Lemma l_ws_write_seg (w : lworld) st b z buf t :
    dl_state (w_s w) idx sub buf t ->
    ws_exp st = None -> ws_done st = false -> ws_toggle st = 16 * b2z t -> ws_pos st = zlen buf ->
    ws_size st = Some z -> ws_error st = None ->
    let n := Z.min (zlen b) 7 in
    let last := z <=? zlen buf + n in
    let chunk := firstn (Z.to_nat n) b in
    (last = true -> length_ok v (buf ++ chunk) = true) ->
    exists w',
      ws_write peer w st b =
        (w', {| ws_size := Some z; ws_pos := zlen buf + n; ws_toggle := 16 * b2z (negb t); ws_exp := None;
                ws_done := last; ws_error := None |}, Ok n) /\
      w_s w' = (let st1 := set_buf (w_s w) (Some (buf ++ chunk)) (s_toggle (w_s w)) in
                let st2 := if last then store_put (log_ev st1 (EvW idx sub (buf ++ chunk))) idx sub (buf ++ chunk) else st1 in
                set_buf st2 (s_buf st2) (16 * b2z (negb t))).
  Proof.
    intros Hdl Hex Hd Ht Hp Hs Herr n last chunk Hlen.
    unfold ws_write. rewrite Hd, Hex, Ht, Hp, Hs, Herr. fold n. fold last. rewrite toggle_flip.
    unfold REQUEST_SEGMENT_DOWNLOAD, NO_MORE_DATA, TOGGLE_BIT, RESPONSE_SEGMENT_DOWNLOAD.
    change (Z.lor (if last then Z.lor (Z.lor 0 (16 * b2z t)) 1 else Z.lor 0 (16 * b2z t)) (Z.shiftl (7 - n) 1))
      with (seg_cmd t last n).
    fold chunk.
    assert (Hcl : zlen chunk = n) by apply zlen_firstn_min.
    assert (Hc7 : (length chunk <= 7)%nat) by (unfold zlen, n in *; lia).
    replace (seg_cmd t last n :: pad_to 7 chunk) with (seg_cmd t last (zlen chunk) :: pad_to 7 chunk)
      by (rewrite Hcl; reflexivity).
    pose proof (srv_seg_dl d (w_s w) idx sub v buf t last chunk Hdl Hc7 (fun H => conj He (Hlen H))) as Hsrv.
    destruct (rr_peer_ok peer w _ _ (32 + 16 * b2z t) _ Hsrv ltac:(destruct t; cbn; lia)) as (w' & E & Hs' & _).
    rewrite E. cbn [nth]. replace (Z.land (32 + 16 * b2z t) 224 =? 32) with true by (destruct t; reflexivity).
    exists w'. split; [reflexivity|exact Hs'].
  Qed.

  Lemma l_write_sched : forall sched data (w : lworld) st buf t z,
    dl_state (w_s w) idx sub buf t ->
    ws_exp st = None -> ws_done st = false -> ws_toggle st = 16 * b2z t -> ws_pos st = zlen buf ->
    ws_size st = Some z -> ws_error st = None -> z = zlen buf + zlen data ->
    valid_seg_sched sched (zlen data) -> length_ok v (buf ++ data) = true ->
    exists w' st', write_sched peer w st data sched = (w', st', Ok tt) /\
      match data with
      | [] => w' = w /\ st' = st
      | _ => ws_done st' = true /\ s_store (w_s w') = ((idx, sub), buf ++ data) :: s_store (w_s w)
      end.
  Proof.
    induction sched as [|k ks IH]; intros data w st buf t z Hdl Hex Hd Ht Hp Hs Herr Hz Hv Hlen.
    - cbn [valid_seg_sched] in Hv. apply zlen_nil_inv in Hv. subst data. exists w, st. cbn. auto.
    - cbn [valid_seg_sched] in Hv. destruct Hv as [Hk Hv]. cbn [write_sched].
      set (b := firstn (Z.to_nat k) data).
      assert (Hb : zlen b = k) by (unfold b; rewrite zlen_firstn; lia).
      pose proof (l_ws_write_seg w st b z buf t Hdl Hex Hd Ht Hp Hs Herr) as Hw. cbv zeta in Hw. rewrite Hb in Hw.
      set (n := Z.min k 7) in *.
      set (chunk := firstn (Z.to_nat n) b) in *.
      assert (Hchunk : chunk = firstn (Z.to_nat n) data).
      { unfold chunk, b. rewrite firstn_firstn. f_equal. unfold n. lia. }
      assert (Hcz : zlen chunk = n) by (rewrite Hchunk, zlen_firstn; unfold n; lia).
      assert (Hn : 1 <= n <= zlen data) by (unfold n; lia).
      assert (Hne : data <> []) by (intros ->; unfold zlen in Hn; cbn in Hn; lia).
      destruct (z <=? zlen buf + n) eqn:Elast.
      + (* last segment *)
        assert (Hdn : zlen data = n) by lia.
        assert (Hcd : chunk = data) by (rewrite Hchunk; apply firstn_all2; unfold zlen in *; lia).
        rewrite Hcd in Hw. destruct (Hw (fun _ => Hlen)) as (w1 & E & Hs1). rewrite E.
        replace (zlen data - n) with 0 in Hv by lia. apply valid_seg_nil in Hv. subst ks. cbn [write_sched].
        eexists _, _. split; [reflexivity|]. destruct data; [congruence|]. cbn [ws_done]. split; [reflexivity|].
        rewrite Hs1. reflexivity.
      + destruct (Hw ltac:(discriminate)) as (w1 & E & Hs1). rewrite E. cbn iota in Hs1.
        set (st1 := {| ws_size := Some z; ws_pos := zlen buf + n; ws_toggle := 16 * b2z (negb t); ws_exp := None;
                       ws_done := false; ws_error := None |}) in *.
        assert (Hdl1 : dl_state (w_s w1) idx sub (buf ++ chunk) (negb t)).
        { destruct Hdl as (_ & _ & Hi & Hsu). rewrite Hs1. unfold dl_state. cbn. auto. }
        assert (Hlen' : zlen (skipn (Z.to_nat n) data) = zlen data - n) by (rewrite zlen_skipn; lia).
        assert (Hjoin : (buf ++ chunk) ++ skipn (Z.to_nat n) data = buf ++ data).
        { rewrite <- app_assoc, Hchunk, firstn_skipn. reflexivity. }
        destruct (IH (skipn (Z.to_nat n) data) w1 st1 (buf ++ chunk) (negb t) z Hdl1 eq_refl eq_refl eq_refl
                     ltac:(cbn; rewrite zlen_app, Hcz; reflexivity) eq_refl eq_refl
                     ltac:(rewrite zlen_app, Hcz, Hlen'; lia) ltac:(rewrite Hlen'; exact Hv)
                     ltac:(rewrite Hjoin; exact Hlen)) as (w2 & st2 & E2 & Hfin).
        rewrite E2. exists w2, st2. split; [reflexivity|].
        destruct (skipn (Z.to_nat n) data) eqn:Esk.
        * exfalso. unfold zlen in Hlen' at 1. cbn in Hlen'. lia.
        * rewrite Hjoin in Hfin. destruct data; [congruence|].
          destruct Hfin as [Hd2 Hst2]. split; [auto|]. rewrite Hst2, Hs1. reflexivity.
  Qed.

  (* SdoClient.download(index, subindex, data, force_segment) *)
  Lemma link_download (w : lworld) data force sched :
    length_ok v data = true -> zlen data < 2 ^ 32 ->
    valid_sched (expedited (Some (zlen data)) force) sched (zlen data) ->
    exists w', sdo_download peer w idx sub data force sched = (w', Ok tt) /\
               s_store (w_s w') = ((idx, sub), data) :: s_store (w_s w).
  Proof.
    intros Hlen Hl Hv. pose proof (zlen_nonneg data) as H0.
    unfold sdo_download, with_write. destruct (expedited (Some (zlen data)) force) eqn:Eexp; unfold valid_sched in Hv.
    - (* expedited *)
      destruct (expedited_inv _ _ Eexp) as (z & Hz & Hr & ->). injection Hz as <-. subst sched.
      unfold ws_init. replace ((zlen data <? 1) || (4 <? zlen data) || false) with false by lia.
      unfold REQUEST_DOWNLOAD, EXPEDITED, SIZE_SPECIFIED. fold (exp_cmd (zlen data)).
      rewrite pack_sdo_ok; [|assert (E : zlen data = 1 \/ zlen data = 2 \/ zlen data = 3 \/ zlen data = 4) by lia;
                              decompose [or] E; match goal with H : zlen data = _ |- _ => rewrite H end; unfold exp_cmd; cbn; lia|auto].
      cbn [write_sched]. unfold ws_write. cbn [ws_done ws_exp ws_size].
      replace (firstn (Z.to_nat (zlen data)) data) with data by (symmetry; apply firstn_all2; unfold zlen; lia).
      replace (zlen data <? zlen data) with false by lia. replace (4 <? zlen data) with false by lia.
      destruct (rr_peer_ok peer w _ _ 96 _ (srv_exp_dl d (w_s w) idx sub v data Hm Hr He Hlen) ltac:(lia)) as (w1 & E & Hs1 & _).
      rewrite E. cbn [nth]. change (Z.land 96 224 =? RESPONSE_DOWNLOAD) with true. cbn iota.
      unfold ws_close. cbn [ws_done negb andb]. eexists. split; [reflexivity|]. rewrite Hs1. reflexivity.
    - destruct (l_ws_init_seg w (zlen data) force ltac:(lia) Eexp) as (w0 & E0 & Hs0). rewrite E0.
      assert (Hdl0 : dl_state (w_s w0) idx sub [] false) by (rewrite Hs0; unfold dl_state; cbn; auto).
      destruct (l_write_sched sched data w0 (ws_new (Some (zlen data))) [] false (zlen data) Hdl0
                  eq_refl eq_refl eq_refl eq_refl eq_refl eq_refl ltac:(cbn; lia) Hv Hlen) as (w1 & st1 & E1 & Hfin).
      rewrite E1. destruct data as [|x data].
      + (* empty payload: close() sends the empty final segment *)
        destruct Hfin as [-> ->]. unfold ws_close. cbn [ws_new ws_done ws_exp ws_toggle negb andb].
        unfold REQUEST_SEGMENT_DOWNLOAD, NO_MORE_DATA.
        change (Z.lor (Z.lor (Z.lor 0 1) 0) (Z.shiftl 7 1)) with (seg_cmd false true (zlen (@nil Z))).
        change [0; 0; 0; 0; 0; 0; 0] with (pad_to 7 []).
        pose proof (srv_seg_dl d (w_s w0) idx sub v [] false true [] Hdl0 ltac:(cbn; lia) (fun _ => conj He Hlen)) as Hsrv.
        destruct (rr_peer_ok peer w0 _ _ (32 + 16 * b2z false) _ Hsrv ltac:(cbn; lia)) as (w2 & E2 & Hs2 & _).
        rewrite E2. eexists. split; [reflexivity|]. rewrite Hs2, Hs0. reflexivity.
      + destruct Hfin as [Hd1 Hst1]. unfold ws_close. rewrite Hd1. cbn [negb andb].
        eexists. split; [reflexivity|]. rewrite Hst1, Hs0. reflexivity.
  Qed.
End LinkDownload.

(* ------------------------------------------------------------------ client upload against the library server *)
Lemma rs_init_unfold_gen {S} (peer : S -> list Z -> S * list (list Z)) (w : @world S) idx sub : mux_ok idx sub ->
  rs_init peer w idx sub =
  let '(w1, r) := request_response peer w (ul_init_req idx sub) in
  match r with
  | Ok resp => let '(st, r') := init_decode idx sub resp in (w1, st, r')
  | Err k => (w1, rs_new, Err k)
  | Abort c => (w1, rs_new, Abort c)
  end.
Proof.
  intros Hm. unfold rs_init, REQUEST_UPLOAD, RESPONSE_UPLOAD, EXPEDITED, SIZE_SPECIFIED.
  rewrite pack_sdo_ok by (auto; lia).
  change ((64 :: mux_bytes idx sub) ++ [0; 0; 0; 0]) with (ul_init_req idx sub).
  destruct (request_response peer w (ul_init_req idx sub)) as [w1 [resp|k|c]]; try reflexivity.
  unfold init_decode.
  repeat match goal with |- context [if ?c then _ else _] => destruct c end; reflexivity.
Qed.

Section LinkUpload.
  Context (d : dict) (idx sub : Z) (v : var).
  Context (Hm : mux_ok idx sub) (He : entry_rw d idx sub v).
  Let peer := srv_peer d.

  Lemma l_rs_init (w : lworld) data : store_get (s_store (w_s w)) idx sub = Some data -> zlen data < 2 ^ 32 ->
    exists w', rs_init peer w idx sub = (w', init_state default_style data, Ok tt) /\
      s_store (w_s w') = s_store (w_s w) /\
      ((0 <? zlen data) && (zlen data <=? 4) = false -> ul_state (w_s w') data false).
  Proof.
    intros Hg Hl. rewrite rs_init_unfold_gen by auto.
    pose proof (srv_init_ul d (w_s w) idx sub v data Hm He Hg Hl) as Hsrv. cbv zeta in Hsrv.
    destruct (ul_init_resp_shape default_style idx sub data (zlen_nonneg data)) as (c0 & dd & Hshape & _ & Hc0).
    rewrite Hshape in Hsrv.
    destruct (rr_peer_ok peer w _ _ c0 _ Hsrv ltac:(cbn in Hc0; decompose [or] Hc0; try contradiction; subst; discriminate))
      as (w' & E & Hs & _).
    rewrite E, <- Hshape, (init_decode_genuine default_style idx sub data Hm Hl).
    exists w'. split; [reflexivity|]. rewrite Hs.
    destruct ((0 <? zlen data) && (zlen data <=? 4)); cbn; split; auto; try discriminate.
    intros _. unfold ul_state. cbn. auto.
  Qed.

  Lemma l_rs_read (w : lworld) st buf t fuel :
    ul_state (w_s w) buf t -> rs_done st = false -> rs_exp st = None -> rs_pending st = [] ->
    rs_toggle st = 16 * b2z t ->
    exists w' st', rs_read peer (S fuel) w st = (w', st', Ok (firstn 7 buf)) /\
      rs_done st' = is_nil (skipn 7 buf) /\ rs_exp st' = None /\ rs_pending st' = [] /\
      rs_toggle st' = 16 * b2z (negb t) /\ ul_state (w_s w') (skipn 7 buf) (negb t) /\
      s_store (w_s w') = s_store (w_s w).
  Proof.
    intros Hul Hd Hex Hp Ht. cbn [rs_read]. rewrite Hp, Hd, Hex, Ht. cbn [is_nil negb].
    unfold REQUEST_SEGMENT_UPLOAD, RESPONSE_SEGMENT_UPLOAD, TOGGLE_BIT, NO_MORE_DATA. fold (ul_seg_req t).
    set (chunk := firstn 7 buf). set (last := is_nil (skipn 7 buf)).
    assert (Hck : (length chunk <= 7)%nat) by (unfold chunk; rewrite firstn_length; lia).
    destruct (seg_resp_bits t chunk last Hck) as (B1 & B2 & B3 & B4 & B5).
    pose proof (srv_seg_ul d (w_s w) buf t Hul) as Hsrv. fold chunk last in Hsrv. unfold seg_resp in Hsrv.
    destruct (rr_peer_ok peer w _ _ _ _ Hsrv B5) as (w' & E & Hs & _). rewrite E. cbn [nth].
    rewrite B1, B2, B3, B4. cbn [Z.eqb negb]. rewrite Z.eqb_refl. cbn [negb]. rewrite negb_involutive, toggle_flip.
    assert (Hnoempty : (zlen chunk =? 0) && negb last = false).
    { destruct (zlen chunk =? 0) eqn:E0; [|reflexivity]. cbn [andb].
      assert (E1 : chunk = []) by (apply zlen_nil_inv; lia).
      unfold chunk in E1. unfold last. destruct buf; [reflexivity|discriminate]. }
    rewrite Hnoempty. cbn [skipn].
    replace (firstn (Z.to_nat (zlen chunk)) (pad_to 7 chunk)) with chunk
      by (unfold zlen; rewrite Nat2Z.id; symmetry; apply firstn_pad_to).
    eexists _, _. split; [reflexivity|]. cbn [rs_done rs_exp rs_pending rs_toggle].
    rewrite Hs, negb_involutive. unfold ul_state.
    cbn [s_buf s_toggle s_store set_buf]. repeat split; reflexivity.
  Qed.

  Lemma l_readall : forall fuel rf (w : lworld) st buf t acc,
    ul_state (w_s w) buf t -> rs_done st = false -> rs_exp st = None -> rs_pending st = [] ->
    rs_toggle st = 16 * b2z t -> (length buf + 14 <= 7 * fuel)%nat ->
    exists w' st', readall peer (S rf) fuel w st acc = (w', st', Ok (acc ++ buf)) /\
                   s_store (w_s w') = s_store (w_s w).
  Proof.
    induction fuel as [|fuel IH]; intros rf w st buf t acc Hul Hd Hex Hp Ht Hf; [lia|].
    cbn [readall].
    destruct (l_rs_read w st buf t rf Hul Hd Hex Hp Ht) as (w1 & st1 & E & Hd1 & He1 & Hp1 & Ht1 & Hul1 & Hs1).
    rewrite E. destruct buf as [|x buf].
    - cbn [firstn]. rewrite app_nil_r. eauto.
    - destruct (firstn 7 (x :: buf)) as [|y ch] eqn:Ech; [discriminate|]. rewrite <- Ech.
      destruct (skipn 7 (x :: buf)) as [|z rest] eqn:Esk.
      + (* that was the last segment *)
        destruct fuel as [|fuel]; [cbn in Hf; lia|]. cbn [readall].
        assert (Hrd : rs_read peer (S rf) w1 st1 = (w1, st1, Ok [])).
        { cbn [rs_read]. rewrite Hp1, Hd1. reflexivity. }
        rewrite Hrd. exists w1, st1. split; [|auto].
        rewrite <- (firstn_skipn 7 (x :: buf)) at 2. rewrite Esk, app_nil_r. reflexivity.
      + rewrite <- Esk in *.
        assert (Hlen : (length (skipn 7 (x :: buf)) + 14 <= 7 * fuel)%nat).
        { assert (7 <= length (x :: buf))%nat by (pose proof (firstn_skipn 7 (x :: buf)) as Hfs; rewrite Esk in *;
            destruct (Nat.le_gt_cases 7 (length (x :: buf))) as [|Hlt]; [auto|]; rewrite skipn_all2 in Esk by lia; discriminate).
          rewrite skipn_length. lia. }
        assert (Hd1' : rs_done st1 = false) by (rewrite Hd1, Esk; reflexivity).
        destruct (IH rf w1 st1 (skipn 7 (x :: buf)) (negb t) (acc ++ firstn 7 (x :: buf)) Hul1 Hd1' He1 Hp1 Ht1 Hlen)
          as (w2 & st2 & E2 & Hs2).
        rewrite E2. exists w2, st2. rewrite <- app_assoc, firstn_skipn. split; [reflexivity|congruence].
  Qed.

  (* SdoClient.upload(index, subindex) *)
  Lemma link_upload (w : lworld) odt data :
    store_get (s_store (w_s w)) idx sub = Some data -> zlen data < 2 ^ 32 -> (length data + 14 <= 7 * FUEL)%nat ->
    trunc_ok odt data ->
    exists w', sdo_upload peer FUEL w idx sub odt = (w', Ok data) /\ s_store (w_s w') = s_store (w_s w).
  Proof.
    intros Hg Hl Hf Htr. unfold sdo_upload, read_whole.
    destruct (l_rs_init w data Hg Hl) as (w0 & E0 & Hs0 & Hul0). rewrite E0.
    assert (Htrunc : truncate odt (Some (zlen data)) data = data).
    { unfold truncate, trunc_ok in *. destruct odt as [t|]; [|reflexivity].
      destruct (od_var_size t) as [vs|]; [|reflexivity]. replace (vs <? zlen data) with false by lia. reflexivity. }
    unfold init_state, default_style. cbn [st_expedite st_exp_size st_size_ind andb].
    replace ((1 <=? zlen data) && (zlen data <=? 4)) with ((0 <? zlen data) && (zlen data <=? 4)) by lia.
    destruct ((0 <? zlen data) && (zlen data <=? 4)) eqn:Ee; cbn [rs_exp rs_size].
    - rewrite Htrunc. eauto.
    - assert (HF : exists f, FUEL = S f) by (unfold FUEL; exists (Z.to_nat 2999); lia).
      destruct HF as [f HF].
      pose proof (l_readall FUEL f w0 {| rs_done := false; rs_toggle := 0; rs_pos := 0; rs_size := Some (zlen data);
                                          rs_exp := None; rs_pending := [] |} data false []
                    (Hul0 eq_refl) eq_refl eq_refl eq_refl eq_refl Hf) as Hrd.
      rewrite <- HF in Hrd. destruct Hrd as (w1 & st1 & E1 & Hs1).
      rewrite E1. cbn [app]. rewrite Htrunc. exists w1. split; [reflexivity|congruence].
  Qed.
End LinkUpload.

(* ------------------------------------------------------------------ the typed layer *)
Lemma roundtrip_spec nd (w : lworld) a nv value sched data back :
  resolve nd a = Ok nv -> mux_ok (nv_index nv) (nv_sub nv) ->
  entry_rw (to_dict nd) (nv_index nv) (nv_sub nv) (nv_var nv) ->
  encode_raw (v_dt (nv_var nv)) value = Ok data -> decode_raw (v_dt (nv_var nv)) data = Ok back ->
  length_ok (nv_var nv) data = true -> zlen data < 2 ^ 32 -> (length data + 14 <= 7 * FUEL)%nat ->
  trunc_ok (od_type nd (nv_index nv) (nv_sub nv)) data ->
  valid_sched (expedited (Some (zlen data)) (match v_dt (nv_var nv) with Some t => t =? dt_DOMAIN | None => false end))
              sched (zlen data) ->
  exists w', roundtrip nd w a value sched = (w', VL [pyval_val back; pyval_val back; VB data]) /\
             store_get (s_store (w_s w')) (nv_index nv) (nv_sub nv) = Some data.
Proof.
  intros Hres Hm He Henc Hdec Hlen Hl Hf Htr Hv.
  assert (Hkey : forall st, store_get (((nv_index nv, nv_sub nv), data) :: st) (nv_index nv) (nv_sub nv) = Some data).
  { intros st. cbn [store_get]. unfold key_eqb. cbn [fst snd]. rewrite !Z.eqb_refl. reflexivity. }
  unfold roundtrip, remote_set. rewrite Hres, Henc.
  destruct (link_download (to_dict nd) _ _ _ Hm He w data _ sched Hlen Hl Hv) as (w1 & E1 & Hs1). rewrite E1.
  unfold remote_get. rewrite Hres.
  assert (Hg1 : store_get (s_store (w_s w1)) (nv_index nv) (nv_sub nv) = Some data) by (rewrite Hs1; apply Hkey).
  destruct (link_upload (to_dict nd) _ _ _ Hm He w1 _ data Hg1 Hl Hf Htr) as (w2 & E2 & Hs2). rewrite E2.
  cbn [rbind]. rewrite Hdec.
  unfold local_get. rewrite Hres.
  assert (Hg2 : store_get (s_store (w_s w2)) (nv_index nv) (nv_sub nv) = Some data) by (rewrite Hs2; exact Hg1).
  rewrite (get_data_stored (to_dict nd) (w_s w2) _ _ _ data false He Hg2). cbn [rbind]. rewrite Hdec.
  cbn [w_s log_ev s_store]. rewrite Hg2. eexists. split; [reflexivity|]. cbn. exact Hg2.
Qed.

(* how a variable registered in the named dictionary is found by the server and by get_variable *)
Lemma zassoc_to_dict nd idx : zassoc idx (to_dict nd) =
  match zassoc idx nd with
  | Some (NVar v) => Some (OVar (nv_var v))
  | Some (NRec _ ms) => Some (ORec (map (fun m => (nv_sub m, nv_var m)) ms))
  | None => None
  end.
Proof.
  induction nd as [|[i o] r IH]; cbn; [reflexivity|]. destruct (idx =? i); [destruct o; reflexivity|exact IH].
Qed.

Lemma zassoc_members sub ms : zassoc sub (map (fun m => (nv_sub m, nv_var m)) ms) =
  match member_by_sub sub ms with Some m => Some (nv_var m) | None => None end.
Proof.
  induction ms as [|m r IH]; cbn; [reflexivity|]. rewrite Z.eqb_sym. destruct (nv_sub m =? sub); [reflexivity|exact IH].
Qed.

Lemma rw_var_flags dt : writable (rw_var dt) = true /\ readable (rw_var dt) = true.
Proof. split; reflexivity. Qed.

Lemma holds_var_facts nd idx sub dt name : holds_var nd idx sub dt name ->
  entry_rw (to_dict nd) idx sub (rw_var dt) /\ od_type nd idx sub = Some dt /\
  exists a, resolve nd a = Ok {| nv_name := name; nv_index := idx; nv_sub := sub; nv_var := rw_var dt |}.
Proof.
  intros [[-> Hz]|(rname & ms & Hz & Hmem)].
  - split; [|split].
    + split; [|apply rw_var_flags]. unfold find_object. rewrite zassoc_to_dict, Hz. reflexivity.
    + unfold od_type. rewrite Hz. reflexivity.
    + exists (AIndex idx). cbn. rewrite Hz. reflexivity.
  - split; [|split].
    + split; [|apply rw_var_flags]. unfold find_object. rewrite zassoc_to_dict, Hz, zassoc_members, Hmem. reflexivity.
    + unfold od_type. rewrite Hz, Hmem. reflexivity.
    + exists (ARec idx sub). cbn. rewrite Hz, Hmem. reflexivity.
Qed.

Lemma struct_roundtrip nd (w : lworld) a idx sub t p value data back sched :
  registered nd a idx sub t -> mux_ok idx sub ->
  zassoc t STRUCT_TYPES = Some p -> zlen data = packer_bytes p ->
  encode_raw (Some t) value = Ok data -> decode_raw (Some t) data = Ok back ->
  valid_sched (expedited (Some (zlen data)) (t =? dt_DOMAIN)) sched (zlen data) ->
  exists w', roundtrip nd w a value sched = (w', VL [pyval_val back; pyval_val back; VB data]) /\
             store_get (s_store (w_s w')) idx sub = Some data.
Proof.
  intros ((name & Hres) & He & Hod) Hm Hp Hlen Henc Hdec Hv.
  assert (Hpb : 0 <= packer_bytes p <= 8).
  { pose proof (entry_ok_of _ _ Hp) as E. unfold entry_ok in E. destruct p; cbn [packer_bytes];
      unfold struct_width_ok, width_ok in E; lia. }
  apply (roundtrip_spec nd w a _ value sched data back Hres); cbn [nv_index nv_sub nv_var rw_var v_dt]; auto.
  - unfold length_ok, is_number. cbn [rw_var v_dt]. destruct (zmem t NUMBER_TYPES); [|reflexivity]. cbn [negb orb].
    unfold len_bits. rewrite Hp. destruct p; cbn [packer_bits packer_bytes] in *; lia.
  - lia.
  - unfold zlen in *. unfold FUEL. lia.
  - rewrite Hod. unfold trunc_ok, od_var_size. rewrite Hp. lia.
Qed.

Lemma int_packer_bytes p s w : int_packer p = Some (s, w) -> packer_bytes p = w / 8.
Proof. destruct p; cbn; intros H; inversion H; reflexivity. Qed.

Lemma typed_roundtrip nd (w : lworld) a idx sub t p s wd v sched :
  registered nd a idx sub t -> mux_ok idx sub ->
  zassoc t STRUCT_TYPES = Some p -> int_packer p = Some (s, wd) -> in_range s wd v = true ->
  valid_sched (expedited (Some (wd / 8)) (t =? dt_DOMAIN)) sched (wd / 8) ->
  exists w', roundtrip nd w a (PInt v) sched =
               (w', VL [VZ v; VZ v; VB (le_encode (Z.to_nat (wd / 8)) v)]) /\
             store_get (s_store (w_s w')) idx sub = Some (le_encode (Z.to_nat (wd / 8)) v).
Proof.
  intros Hreg Hm Hp Hip Hr Hv.
  destruct (packer_wf_of t p s wd Hp Hip) as (_ & Hw). pose proof (width_div wd Hw) as (Hd & _ & _).
  assert (Hz : zlen (le_encode (Z.to_nat (wd / 8)) v) = wd / 8) by (rewrite zlen_le_encode; lia).
  apply (struct_roundtrip nd w a idx sub t p (PInt v) _ (PInt v) sched Hreg Hm Hp).
  - rewrite Hz. symmetry. apply (int_packer_bytes p s wd Hip).
  - apply (encode_exact t p s wd v Hp Hip Hr).
  - apply (decode_encode t p s wd v Hp Hip Hr).
  - rewrite Hz. exact Hv.
Qed.

Lemma bool_roundtrip nd (w : lworld) a idx sub (b : bool) :
  registered nd a idx sub dt_BOOLEAN -> mux_ok idx sub -> zassoc dt_BOOLEAN STRUCT_TYPES = Some PBool ->
  exists w', roundtrip nd w a (PInt (if b then 1 else 0)) [1] =
               (w', VL [VZ (if b then 1 else 0); VZ (if b then 1 else 0); VB [if b then 1 else 0]]) /\
             store_get (s_store (w_s w')) idx sub = Some [if b then 1 else 0].
Proof.
  intros Hreg Hm Hp. destruct (bool_codec b Hp) as [Henc Hdec].
  apply (struct_roundtrip nd w a idx sub dt_BOOLEAN PBool _ _ (PInt (if b then 1 else 0)) [1] Hreg Hm Hp); auto.
  reflexivity.
Qed.

Lemma real_roundtrip nd (w : lworld) a idx sub t wd bits sched :
  registered nd a idx sub t -> mux_ok idx sub -> zassoc t STRUCT_TYPES = Some (PReal wd) -> 0 <= bits < 2 ^ wd ->
  valid_sched (expedited (Some (wd / 8)) (t =? dt_DOMAIN)) sched (wd / 8) ->
  exists w', roundtrip nd w a (PFloat bits) sched =
               (w', VL [VL [VZ bits]; VL [VZ bits]; VB (le_encode (Z.to_nat (wd / 8)) bits)]) /\
             store_get (s_store (w_s w')) idx sub = Some (le_encode (Z.to_nat (wd / 8)) bits).
Proof.
  intros Hreg Hm Hp Hb Hv. destruct (real_codec t wd bits Hp Hb) as [Henc Hdec].
  pose proof (entry_ok_of _ _ Hp) as E. unfold entry_ok in E.
  assert (Hw : wd = 32 \/ wd = 64) by lia.
  assert (Hz : zlen (le_encode (Z.to_nat (wd / 8)) bits) = wd / 8) by (rewrite zlen_le_encode; lia).
  apply (struct_roundtrip nd w a idx sub t (PReal wd) (PFloat bits) _ (PFloat bits) sched Hreg Hm Hp); auto.
  rewrite Hz. exact Hv.
Qed.

(* DOMAIN / OCTET_STRING: bytes of any length (up to the model's fuel) *)

Lemma bytes_roundtrip nd (w : lworld) a idx sub dt data sched :
  registered nd a idx sub dt -> dt = dt_DOMAIN \/ dt = dt_OCTET_STRING -> mux_ok idx sub ->
  zlen data < 2 ^ 32 -> (length data + 14 <= 7 * FUEL)%nat ->
  valid_sched (expedited (Some (zlen data)) (dt =? dt_DOMAIN)) sched (zlen data) ->
  exists w', roundtrip nd w a (PBytes data) sched = (w', VL [VB data; VB data; VB data]) /\
             store_get (s_store (w_s w')) idx sub = Some data.
Proof.
  intros ((name & Hres) & He & Hod) Hdt Hm Hl Hf Hv.
  apply (roundtrip_spec nd w a _ (PBytes data) sched data (PBytes data) Hres); cbn [nv_index nv_sub nv_var rw_var v_dt]; auto.
  - destruct Hdt as [-> | ->]; reflexivity.
  - destruct Hdt as [-> | ->]; reflexivity.
  - rewrite Hod. destruct Hdt as [-> | ->]; exact I.
Qed.

Lemma ascii_text_roundtrip nd (w : lworld) a idx sub s sched :
  registered nd a idx sub dt_VISIBLE_STRING -> mux_ok idx sub ->
  forallb is_ascii s = true -> last s 1 <> 0 -> (length s + 14 <= 7 * FUEL)%nat ->
  valid_sched (expedited (Some (zlen s)) false) sched (zlen s) ->
  exists w', roundtrip nd w a (PStr s) sched = (w', VL [VS s; VS s; VB s]) /\
             store_get (s_store (w_s w')) idx sub = Some s.
Proof.
  intros ((name & Hres) & He & Hod) Hm Ha Hlast Hf Hv. destruct (ascii_roundtrip s Ha Hlast) as [Henc Hdec].
  apply (roundtrip_spec nd w a _ (PStr s) sched s (PStr s) Hres); cbn [nv_index nv_sub nv_var rw_var v_dt]; auto.
  - unfold zlen, FUEL in *. lia.
  - rewrite Hod. exact I.
Qed.

(* any data type: whatever the codec makes of the value survives the trip *)
Lemma codec_roundtrip nd (w : lworld) a idx sub dt value data back sched :
  registered nd a idx sub dt -> mux_ok idx sub ->
  encode_raw (Some dt) value = Ok data -> decode_raw (Some dt) data = Ok back ->
  length_ok (rw_var dt) data = true -> zlen data < 2 ^ 32 -> (length data + 14 <= 7 * FUEL)%nat ->
  trunc_ok (Some dt) data ->
  valid_sched (expedited (Some (zlen data)) (dt =? dt_DOMAIN)) sched (zlen data) ->
  exists w', roundtrip nd w a value sched = (w', VL [pyval_val back; pyval_val back; VB data]) /\
             store_get (s_store (w_s w')) idx sub = Some data.
Proof.
  intros ((name & Hres) & He & Hod) Hm Henc Hdec Hlen Hl Hf Htr Hv.
  apply (roundtrip_spec nd w a _ value sched data back Hres); cbn [nv_index nv_sub nv_var rw_var v_dt]; auto.
  rewrite Hod. exact Htr.
Qed.

(* ------------------------------------------------------------------ channel isolation *)
Lemma delivered_app cob t1 t2 : delivered cob (t1 ++ t2) = delivered cob t1 ++ delivered cob t2.
Proof. unfold delivered. rewrite filter_app, map_app. reflexivity. Qed.

Lemma delivered_other cob cid fr t1 t2 : cid <> cob ->
  delivered cob (t1 ++ (cid, fr) :: t2) = delivered cob (t1 ++ t2).
Proof.
  intros H. rewrite !delivered_app. f_equal. unfold delivered. cbn [filter fst].
  replace (cid =? cob) with false by lia. reflexivity.
Qed.

Lemma notify_all_spec subs : forall trace queues,
  notify_all subs queues trace =
  map (fun '(c, q) => (c, if zmem c subs then q ++ delivered c trace else q)) queues.
Proof.
  induction trace as [|[cid fr] r IH]; intros queues.
  - cbn. rewrite <- (map_id queues) at 1. apply map_ext. intros [c q].
    destruct (zmem c subs); [rewrite app_nil_r|]; reflexivity.
  - cbn [notify_all]. rewrite IH, map_map. apply map_ext. intros [c q].
    unfold delivered. cbn [filter fst]. rewrite (Z.eqb_sym cid c).
    destruct (zmem c subs) eqn:Es; destruct (c =? cid) eqn:Ec; cbn [andb map snd]; rewrite ?Es; auto.
    rewrite <- app_assoc. reflexivity.
Qed.

Lemma channel_isolation subs queues trace c q : In (c, q) queues -> zmem c subs = true ->
  In (c, q ++ delivered c trace) (notify_all subs queues trace).
Proof.
  intros Hin Hs. rewrite notify_all_spec. apply in_map_iff. exists (c, q). rewrite Hs. auto.
Qed.

Lemma other_traffic_invisible subs queues tr1 tr2 :
  (forall c, zmem c subs = true -> delivered c tr1 = delivered c tr2) ->
  notify_all subs queues tr1 = notify_all subs queues tr2.
Proof.
  intros H. rewrite !notify_all_spec. apply map_ext. intros [c q].
  destruct (zmem c subs) eqn:Es; [rewrite (H c Es)|]; reflexivity.
Qed.
