(* Proofs for C02 / C06 about Model/SdoServer.v against the reference client Model/RefClient.v. *)
From Coq Require Import ZArith List Bool Lia ZifyBool.
From CV Require Import Base.Val Base.Bytes Base.Tys Gen.Tables Gen.SdoTables Model.Codec Model.RefClient Model.SdoServer.
Import ListNotations.
Open Scope Z_scope.
Ltac Zify.zify_post_hook ::= Z.to_euclidean_division_equations.

Arguments get_data : simpl never.
Arguments set_data : simpl never.
Arguments check_set : simpl never.
Arguments find_object : simpl never.
Arguments encode_raw : simpl never.
Arguments le_decode : simpl never.

(* ------------------------------------------------------------------ bytes by exhaustion *)
Definition bytes256 : list Z := map Z.of_nat (seq 0 256).

Lemma byte_in c : 0 <= c < 256 -> In c bytes256.
Proof.
  intros H. unfold bytes256. apply in_map_iff. exists (Z.to_nat c). split; [lia|].
  apply in_seq. lia.
Qed.

Lemma byte_forall (P : Z -> bool) : forallb P bytes256 = true -> forall c, 0 <= c < 256 -> P c = true.
Proof. intros H c Hc. rewrite forallb_forall in H. apply H, byte_in, Hc. Qed.

Definition byte_bits_b (c : Z) : bool :=
  (Z.land c 224 =? 32 * (c / 32)) && (Z.land c 16 =? 16 * ((c / 16) mod 2)) &&
  (Z.land c 2 =? 2 * ((c / 2) mod 2)) && (Z.land c 1 =? c mod 2) &&
  (Z.land (Z.shiftr c 2) 3 =? (c / 4) mod 4) && (Z.land (Z.shiftr c 1) 7 =? (c / 2) mod 8).

Lemma byte_bits c : 0 <= c < 256 ->
  Z.land c 224 = 32 * (c / 32) /\ Z.land c 16 = 16 * ((c / 16) mod 2) /\
  Z.land c 2 = 2 * ((c / 2) mod 2) /\ Z.land c 1 = c mod 2 /\
  Z.land (Z.shiftr c 2) 3 = (c / 4) mod 4 /\ Z.land (Z.shiftr c 1) 7 = (c / 2) mod 8.
Proof.
  intros H. assert (B : byte_bits_b c = true) by (apply byte_forall; [vm_compute; reflexivity|exact H]).
  unfold byte_bits_b in B. rewrite !andb_true_iff, !Z.eqb_eq in B. tauto.
Qed.

(* ------------------------------------------------------------------ small list / number facts *)
Lemma zlen_app {A} (a b : list A) : zlen (a ++ b) = zlen a + zlen b.
Proof. unfold zlen. rewrite app_length. lia. Qed.

Lemma zlen_nonneg {A} (a : list A) : 0 <= zlen a.
Proof. unfold zlen. lia. Qed.

Lemma le2_recombine x : 0 <= x < 65536 -> x mod 256 + 256 * ((x / 256) mod 256) = x.
Proof. lia. Qed.

Lemma le2_bytes lo hi : 0 <= lo < 256 -> 0 <= hi < 256 -> le_encode 2 (lo + 256 * hi) = [lo; hi].
Proof.
  intros H1 H2. cbn [le_encode]. f_equal; [lia|]. f_equal. lia.
Qed.

Lemma le4_roundtrip c : 0 <= c < 2 ^ 32 -> le_decode (le_encode 4 c) = c.
Proof. intros H. rewrite le_decode_encode. change (8 * Z.of_nat 4) with 32. apply Z.mod_small. exact H. Qed.

Lemma all_zero_repeat n : all_zero (repeat 0 n) = true.
Proof. induction n; cbn; auto. Qed.

(* ------------------------------------------------------------------ the reference client against the standard's frames *)
Lemma one_resp_8 a b c d e f g h : one_resp [[a; b; c; d; e; f; g; h]] false = Some [a; b; c; d; e; f; g; h].
Proof. reflexivity. Qed.

Section ClientRounds.
  Context {St : Type} (step : St -> frame -> St * list frame * bool).

  Lemma ul_round f s s1 idx sub t acc size tr data last :
    step s (segment_request t) = (s1, [seg_resp t data last], false) ->
    (length data <= 7)%nat -> (t = 0 \/ t = 1) ->
    ul_loop step (S f) s idx sub t acc size tr =
      let acc1 := acc ++ data in
      let tr1 := tr ++ [seg_resp t data last] in
      let complete := match size with Some sz => zlen acc1 =? sz | None => last end in
      let over := match size with Some sz => sz <? zlen acc1 | None => false end in
      if over || negb (Bool.eqb last complete) then (s1, Err V_SIZE, tr1)
      else if last then (s1, Ok acc1, tr1)
      else ul_loop step f s1 idx sub (1 - t) acc1 size tr1.
  Proof.
    intros Hs Hl Ht. cbn [ul_loop]. rewrite Hs.
    destruct data as [|a0 [|a1 [|a2 [|a3 [|a4 [|a5 [|a6 [|a7 r]]]]]]]]; cbn [length] in Hl; try lia;
      destruct Ht as [-> | ->]; destruct last; cbn; reflexivity.
  Qed.
End ClientRounds.

Section ClientRounds2.
  Context {St : Type} (step : St -> frame -> St * list frame * bool).

  Lemma le4_lit n : 0 <= n < 2 ^ 32 ->
    le_decode [n mod 256; n / 256 mod 256; n / 256 / 256 mod 256; n / 256 / 256 / 256 mod 256] = n.
  Proof. intros H. exact (le4_roundtrip n H). Qed.

  Lemma abort_result_ok idx sub code : 0 <= idx < 65536 -> 0 <= code < 2 ^ 32 ->
    abort_result idx sub (idx mod 256) ((idx / 256) mod 256) sub
       (code mod 256) (code / 256 mod 256) (code / 256 / 256 mod 256) (code / 256 / 256 / 256 mod 256) = Abort code.
  Proof.
    intros Hi Hc. unfold abort_result. rewrite le2_recombine by exact Hi. rewrite !Z.eqb_refl. cbn [andb].
    rewrite le4_lit by exact Hc. reflexivity.
  Qed.

  Lemma ref_upload_abort fuel s s1 idx sub code :
    0 <= idx < 65536 -> 0 <= code < 2 ^ 32 ->
    step s (upload_request idx sub) = (s1, [abort_frame_of idx sub code], false) ->
    ref_upload step fuel s idx sub = (s1, Abort code, [abort_frame_of idx sub code]).
  Proof.
    intros Hi Hc Hs. unfold ref_upload. rewrite Hs.
    unfold abort_frame_of, mux_bytes. cbn [app le_encode]. rewrite one_resp_8.
    change (128 =? 128) with true. cbn iota.
    rewrite abort_result_ok by assumption. reflexivity.
  Qed.
End ClientRounds2.

Section ClientRounds3.
  Context {St : Type} (step : St -> frame -> St * list frame * bool).

  (* the canonical initiate-upload response *)
  Definition init_frame (idx sub : Z) (data : list Z) : frame :=
    let n := zlen data in
    if (0 <? n) && (n <=? 4) then (67 + 4 * (4 - n)) :: mux_bytes idx sub ++ data ++ repeat 0 (4 - length data)
    else 65 :: mux_bytes idx sub ++ le_encode 4 n.

  Lemma upload_frames_eq idx sub data :
    upload_frames idx sub data =
      if (0 <? zlen data) && (zlen data <=? 4) then [init_frame idx sub data]
      else init_frame idx sub data :: seg_frames (S (length data)) 0 data.
  Proof. unfold upload_frames, init_frame. destruct ((0 <? zlen data) && (zlen data <=? 4)); reflexivity. Qed.

  Lemma ref_upload_expedited fuel s s1 idx sub data :
    0 <= idx < 65536 -> (0 <? zlen data) && (zlen data <=? 4) = true ->
    step s (upload_request idx sub) = (s1, [init_frame idx sub data], false) ->
    ref_upload step fuel s idx sub = (s1, Ok data, [init_frame idx sub data]).
  Proof.
    intros Hi Hn Hs. unfold ref_upload. rewrite Hs. unfold init_frame. rewrite Hn.
    destruct data as [|a0 [|a1 [|a2 [|a3 [|a4 r]]]]]; cbn in Hn; try discriminate;
      try (exfalso; unfold zlen in Hn; cbn [length] in Hn; lia);
      unfold mux_bytes; cbn [app repeat length Nat.sub zlen Z.of_nat]; rewrite one_resp_8; cbn;
      rewrite le2_recombine by exact Hi; rewrite !Z.eqb_refl; reflexivity.
  Qed.

  Lemma ref_upload_segmented fuel s s1 idx sub n :
    0 <= idx < 65536 -> 0 <= n < 2 ^ 32 ->
    step s (upload_request idx sub) = (s1, [65 :: mux_bytes idx sub ++ le_encode 4 n], false) ->
    ref_upload step fuel s idx sub =
      ul_loop step fuel s1 idx sub 0 [] (Some n) [65 :: mux_bytes idx sub ++ le_encode 4 n].
  Proof.
    intros Hi Hn Hs. unfold ref_upload. rewrite Hs. unfold mux_bytes. cbn [app le_encode]. rewrite one_resp_8.
    cbn. rewrite le2_recombine by exact Hi. rewrite !Z.eqb_refl. cbn.
    rewrite le4_lit by exact Hn. reflexivity.
  Qed.

  (* ---- download ---- *)
  Definition seg_req (t : Z) (chunk : list Z) (last : bool) : frame :=
    (16 * t + 2 * (7 - zlen chunk) + (if last then 1 else 0)) :: chunk ++ repeat 0 (7 - length chunk).

  Definition is_nil {A} (l : list A) : bool := match l with [] => true | _ => false end.

  Lemma dl_round f s s1 idx sub t rest tr :
    (t = 0 \/ t = 1) ->
    step s (seg_req t (firstn 7 rest) (is_nil (skipn 7 rest))) = (s1, [[32 + 16 * t; 0; 0; 0; 0; 0; 0; 0]], false) ->
    dl_loop step (S f) s idx sub t rest tr =
      let tr1 := tr ++ [[32 + 16 * t; 0; 0; 0; 0; 0; 0; 0]] in
      if is_nil (skipn 7 rest) then (s1, Ok [], tr1) else dl_loop step f s1 idx sub (1 - t) (skipn 7 rest) tr1.
  Proof.
    intros Ht Hs. cbn [dl_loop]. unfold seg_req, is_nil in Hs.
    destruct (skipn 7 rest) eqn:E; rewrite Hs; rewrite one_resp_8; destruct Ht as [-> | ->]; cbn; reflexivity.
  Qed.

  Lemma dl_round_abort f s s1 idx sub t rest tr code :
    0 <= idx < 65536 -> 0 <= code < 2 ^ 32 ->
    step s (seg_req t (firstn 7 rest) (is_nil (skipn 7 rest))) = (s1, [abort_frame_of idx sub code], false) ->
    dl_loop step (S f) s idx sub t rest tr = (s1, Abort code, tr ++ [abort_frame_of idx sub code]).
  Proof.
    intros Hi Hc Hs. cbn [dl_loop]. unfold seg_req, is_nil in Hs.
    destruct (skipn 7 rest) eqn:E; rewrite Hs; unfold abort_frame_of, mux_bytes; cbn [app le_encode]; rewrite one_resp_8;
      change (128 =? 128) with true; cbn iota; rewrite abort_result_ok by assumption; reflexivity.
  Qed.

  Lemma ref_download_abort fuel s s1 idx sub data mode req code :
    0 <= idx < 65536 -> 0 <= code < 2 ^ 32 ->
    download_request idx sub data mode = Some req ->
    step s req = (s1, [abort_frame_of idx sub code], false) ->
    ref_download step fuel s idx sub data mode = (s1, Abort code, [abort_frame_of idx sub code]).
  Proof.
    intros Hi Hc Hr Hs. unfold ref_download. rewrite Hr, Hs.
    unfold abort_frame_of, mux_bytes; cbn [app le_encode]; rewrite one_resp_8.
    change (128 =? 128) with true; cbn iota; rewrite abort_result_ok by assumption; reflexivity.
  Qed.

  Definition dl_ack (idx sub : Z) : frame := 96 :: mux_bytes idx sub ++ [0; 0; 0; 0].

  Lemma ref_download_ack fuel s s1 idx sub data mode req :
    0 <= idx < 65536 ->
    download_request idx sub data mode = Some req ->
    step s req = (s1, [dl_ack idx sub], false) ->
    ref_download step fuel s idx sub data mode =
      if mode <? 2 then (s1, Ok [], [dl_ack idx sub]) else dl_loop step fuel s1 idx sub 0 data [dl_ack idx sub].
  Proof.
    intros Hi Hr Hs. unfold ref_download. rewrite Hr, Hs.
    unfold dl_ack, mux_bytes; cbn [app]; rewrite one_resp_8. cbn.
    rewrite le2_recombine by exact Hi. rewrite !Z.eqb_refl. reflexivity.
  Qed.
End ClientRounds3.

(* ------------------------------------------------------------------ the server model, handler by handler *)
Section ServerSteps.
  Context (d : dict) (rcb : Z -> Z -> option pyval).
  Notation on_req := (on_request d rcb).

  (* what a step may change besides the protocol variables *)
  Definition same_node (st st' : sstate) : Prop :=
    s_store st' = s_store st /\ s_log st' = s_log st /\ s_lasterr st' = s_lasterr st.

  Lemma get_data_frame st i s chk st' r : get_data d rcb st i s chk = (st', r) ->
    s_buf st' = s_buf st /\ s_toggle st' = s_toggle st /\ s_index st' = s_index st /\ s_sub st' = s_sub st /\
    s_lasterr st' = s_lasterr st /\ s_store st' = s_store st /\
    (s_log st' = s_log st \/ s_log st' = s_log st ++ [EvR i s]).
  Proof.
    unfold get_data. destruct (find_object d i s) as [v|k|c]; [|intros [= <- <-]; tauto..].
    destruct (chk && negb (readable v)); [intros [= <- <-]; tauto|].
    destruct (rcb i s); [intros [= <- <-]; cbn; tauto|].
    destruct (store_get (s_store st) i s); [intros [= <- <-]; cbn; tauto|].
    destruct (v_value v); [intros [= <- <-]; cbn; tauto|].
    destruct (v_default v); intros [= <- <-]; cbn; tauto.
  Qed.

  Lemma get_data_abort_range st i s chk st' c : get_data d rcb st i s chk = (st', Abort c) ->
    (forall dt x c', encode_raw dt x <> Abort c') -> 0 <= c < 2 ^ 32.
  Proof.
    intros H Henc. unfold get_data in H.
    destruct (find_object d i s) as [v|k|c0] eqn:F.
    - destruct (chk && negb (readable v)); [injection H as <- <-; vm_compute; split; congruence|].
      destruct (rcb i s); [injection H as _ H; now apply Henc in H|].
      destruct (store_get (s_store st) i s); [discriminate|].
      destruct (v_value v); [injection H as _ H; now apply Henc in H|].
      destruct (v_default v); [injection H as _ H; now apply Henc in H|].
      injection H as <- <-; vm_compute; split; congruence.
    - discriminate.
    - injection H as <- <-. unfold find_object in F.
      destruct (zassoc i d) as [[v|subs|subs]|]; [destruct (s =? 0)|destruct (zassoc s subs)|destruct (zassoc s subs)|];
        try discriminate; try (injection F as <-; vm_compute; split; congruence).
      destruct ((0 <? s) && (s <? 256)); [destruct (zassoc 1 subs)|]; try discriminate;
        injection F as <-; vm_compute; split; congruence.
  Qed.
End ServerSteps.

(* ---- encode_raw raises or returns bytes; it never produces an SDO abort ---- *)
Lemma utf16_units_no_abort s : forall c, utf16_units s <> Abort c.
Proof.
  induction s as [|x r IH]; intros c; cbn [utf16_units]; [discriminate|].
  destruct (utf16_units r) as [us|k|c0]; cbn [rbind]; [|discriminate|exfalso; apply (IH c0); reflexivity].
  destruct ((x <? 0) || (1114112 <=? x) || is_hi x || is_lo x); [discriminate|].
  destruct (x <? 65536); discriminate.
Qed.

Lemma pack_no_abort p v c : pack p v <> Abort c.
Proof.
  destruct p, v; cbn [pack]; try discriminate; unfold pack_struct, packN, pack_struct, rbind;
    repeat match goal with |- context [if ?b then _ else _] => destruct b end; discriminate.
Qed.

Lemma encode_raw_no_abort dt x c : encode_raw dt x <> Abort c.
Proof.
  unfold encode_raw. destruct x; try discriminate; (destruct dt as [t|]; [|discriminate]);
    repeat match goal with
      | |- context [if ?b then _ else _] => destruct b
      end; try discriminate; unfold ascii_encode, utf16_encode;
    repeat match goal with
      | |- context [if ?b then _ else _] => destruct b
      | |- context [match zassoc ?a ?b with _ => _ end] => destruct (zassoc a b)
      end; try discriminate;
    try (match goal with |- context [utf16_units ?s] => pose proof (utf16_units_no_abort s c); destruct (utf16_units s) end; cbn [rbind]; congruence);
    try (match goal with |- context [pack ?p ?v] => pose proof (pack_no_abort p v c); destruct (pack p v) end;
         try congruence; repeat match goal with |- context [if ?b then _ else _] => destruct b end; congruence).
Qed.

Section ServerSteps2.
  Context (d : dict) (rcb : Z -> Z -> option pyval).
  Notation on_req := (on_request d rcb).

  Lemma abort_frame_eq st code : 0 <= s_index st < 65536 -> 0 <= s_sub st < 256 -> 0 <= code < 2 ^ 32 ->
    abort_frame st code = Some (abort_frame_of (s_index st) (s_sub st) code).
  Proof.
    unfold abort_frame. intros Hi Hs Hc.
    replace ((0 <=? s_index st) && (s_index st <? 65536) && (0 <=? s_sub st) && (s_sub st <? 256) &&
             (0 <=? code) && (code <? 2 ^ 32)) with true by lia.
    reflexivity.
  Qed.

  Lemma do_abort_eq st code : 0 <= s_index st < 65536 -> 0 <= s_sub st < 256 -> 0 <= code < 2 ^ 32 ->
    do_abort st code = (st, [abort_frame_of (s_index st) (s_sub st) code], false).
  Proof. intros H1 H2 H3. unfold do_abort. rewrite abort_frame_eq by assumption. reflexivity. Qed.

  Lemma exp_cmd n : 1 <= n <= 4 ->
    Z.lor (Z.lor (Z.lor RESPONSE_UPLOAD SIZE_SPECIFIED) EXPEDITED) (Z.shiftl (4 - n) 2) = 67 + 4 * (4 - n).
  Proof. intros H. assert (n = 1 \/ n = 2 \/ n = 3 \/ n = 4) as [-> | [-> | [-> | ->]]] by lia; reflexivity. Qed.

  Lemma on_upload st idx sub : 0 <= idx < 65536 ->
    on_req st (upload_request idx sub) =
      (let '(st2, r) := get_data d rcb (set_mux st idx sub) idx sub true in
       match r with
       | Ok data =>
           if (0 <? zlen data) && (zlen data <=? 4) then (st2, [init_frame idx sub data], false)
           else if zlen data <? 2 ^ 32 then (set_buf st2 (Some data) 0, [init_frame idx sub data], false)
           else do_abort st2 AB_GENERAL
       | Abort c => do_abort st2 c
       | Err k => do_abort st2 (if k =? E_KEY then AB_NOOBJECT else AB_GENERAL)
       end).
  Proof.
    intros Hi. unfold on_request, upload_request, mux_bytes. cbn [app].
    change (Z.land 64 224 =? REQUEST_UPLOAD) with true. cbn iota.
    unfold init_upload. cbn [unpack_mux]. rewrite le2_recombine by exact Hi.
    destruct (get_data d rcb (set_mux st idx sub) idx sub true) as [st2 [data|k|c]]; try reflexivity.
    unfold init_frame. destruct ((0 <? zlen data) && (zlen data <=? 4)) eqn:E.
    - rewrite exp_cmd by lia. reflexivity.
    - destruct (zlen data <? 2 ^ 32); reflexivity.
  Qed.
End ServerSteps2.

Lemma seg_frames_fuel f1 : forall f2 t buf, (length buf <= 7 * f1)%nat -> (length buf <= 7 * f2)%nat ->
  (1 <= f1)%nat -> (1 <= f2)%nat -> seg_frames f1 t buf = seg_frames f2 t buf.
Proof.
  induction f1 as [|f1 IH]; intros f2 t buf H1 H2 G1 G2; [lia|].
  destruct f2 as [|f2]; [lia|]. cbn [seg_frames].
  destruct (skipn 7 buf) as [|x r] eqn:E; [reflexivity|].
  f_equal. assert (L : length (skipn 7 buf) = (length buf - 7)%nat) by apply skipn_length.
  rewrite E in L. cbn [length] in L.
  apply IH; cbn [length]; lia.
Qed.


Section ServerSteps3.
  Context (d : dict) (rcb : Z -> Z -> option pyval).
  Notation on_req := (on_request d rcb).

  Lemma seg_upload_step st t buf :
    s_buf st = Some buf -> s_toggle st = 16 * t -> (t = 0 \/ t = 1) ->
    on_req st (segment_request t) =
      (set_buf st (Some (skipn 7 buf)) (16 * (1 - t)), [seg_resp t (firstn 7 buf) (is_nil (skipn 7 buf))], false).
  Proof.
    intros Hb Ht Ht01. unfold on_request, segment_request.
    destruct Ht01 as [-> | ->]; cbn -[firstn skipn]; unfold segmented_upload; rewrite Ht, Hb; cbn -[firstn skipn];
      destruct buf as [|a0 [|a1 [|a2 [|a3 [|a4 [|a5 [|a6 [|a7 r]]]]]]]]; reflexivity.
  Qed.

  (* the client's segment loop against the server holding [buf] *)
  Lemma ul_loop_server fuel : forall st t buf acc tr idx sub,
    s_buf st = Some buf -> s_toggle st = 16 * t -> (t = 0 \/ t = 1) ->
    (length buf <= 7 * fuel)%nat -> (1 <= fuel)%nat ->
    exists st', ul_loop on_req fuel st idx sub t acc (Some (zlen (acc ++ buf))) tr =
                  (st', Ok (acc ++ buf), tr ++ seg_frames fuel t buf) /\
                same_node st st' /\ s_index st' = s_index st /\ s_sub st' = s_sub st.
  Proof.
    induction fuel as [|f IH]; intros st t buf acc tr idx sub Hb Ht Ht01 Hl Hf; [lia|].
    rewrite (ul_round on_req f st _ idx sub t acc _ tr _ _ (seg_upload_step st t buf Hb Ht Ht01)).
    2:{ rewrite firstn_length. lia. }
    2:{ exact Ht01. }
    cbv zeta. cbn [seg_frames].
    pose proof (firstn_skipn 7 buf) as FS.
    destruct (skipn 7 buf) as [|x r] eqn:E.
    - (* last segment *)
      rewrite app_nil_r in FS. rewrite FS. cbn [is_nil].
      rewrite Z.eqb_refl, Z.ltb_irrefl. cbn.
      eexists. split; [reflexivity|]. unfold same_node. cbn. tauto.
    - cbn [is_nil].
      assert (L : zlen (acc ++ firstn 7 buf) < zlen (acc ++ buf)).
      { assert (Hz : zlen buf = zlen (firstn 7 buf) + zlen (x :: r)) by (rewrite <- zlen_app, FS; reflexivity).
        rewrite !zlen_app. unfold zlen in *. cbn [length] in *. lia. }
      replace (zlen (acc ++ firstn 7 buf) =? zlen (acc ++ buf)) with false by lia.
      replace (zlen (acc ++ buf) <? zlen (acc ++ firstn 7 buf)) with false by lia.
      cbn [orb negb Bool.eqb].
      assert (L2 : length (skipn 7 buf) = (length buf - 7)%nat) by apply skipn_length.
      rewrite E in L2. cbn [length] in L2.
      destruct (IH (set_buf st (Some (x :: r)) (16 * (1 - t))) (1 - t) (x :: r) (acc ++ firstn 7 buf)
                   (tr ++ [seg_resp t (firstn 7 buf) false]) idx sub) as (st' & Hrun & Hsame & Hi & Hs);
        try reflexivity; try (cbn [length]; lia).
      replace ((acc ++ firstn 7 buf) ++ x :: r) with (acc ++ buf) in Hrun by (rewrite <- app_assoc, FS; reflexivity).
      rewrite Hrun. eexists. split.
      + rewrite <- app_assoc. reflexivity.
      + unfold same_node in *. cbn in Hsame, Hi, Hs. tauto.
  Qed.
End ServerSteps3.

Section UploadExact.
  Context (d : dict) (rcb : Z -> Z -> option pyval).
  Notation on_req := (on_request d rcb).

  Lemma get_data_supplies st idx sub v data :
    find_object d idx sub = Ok v -> readable v = true -> supplies rcb st idx sub v data ->
    get_data d rcb st idx sub true = (log_ev st (EvR idx sub), Ok data).
  Proof.
    intros F R Sp. unfold get_data. rewrite F, R. cbn [negb andb].
    destruct Sp as [(r & H1 & H2) | [(H1 & H2) | [(H1 & H2 & x & H3 & H4) | (H1 & H2 & H3 & x & H4 & H5)]]].
    - rewrite H1, H2. reflexivity.
    - rewrite H1, H2. reflexivity.
    - rewrite H1, H2, H3, H4. reflexivity.
    - rewrite H1, H2, H3, H4, H5. reflexivity.
  Qed.

  Lemma upload_exact st idx sub v data fuel :
    0 <= idx < 65536 ->
    find_object d idx sub = Ok v -> readable v = true -> supplies rcb st idx sub v data ->
    zlen data < 2 ^ 32 -> (length data <= 7 * fuel)%nat -> (1 <= fuel)%nat ->
    exists st', ref_upload on_req fuel st idx sub = (st', Ok data, upload_frames idx sub data) /\
                s_store st' = s_store st /\ s_log st' = s_log st ++ [EvR idx sub] /\
                s_index st' = idx /\ s_sub st' = sub /\ s_lasterr st' = s_lasterr st.
  Proof.
    intros Hi F R Sp Hn Hf1 Hf2.
    pose proof (on_upload d rcb st idx sub Hi) as U.
    rewrite (get_data_supplies (set_mux st idx sub) idx sub v data F R Sp) in U.
    rewrite upload_frames_eq.
    destruct ((0 <? zlen data) && (zlen data <=? 4)) eqn:E.
    - rewrite (ref_upload_expedited on_req fuel st _ idx sub data Hi E U).
      eexists. split; [reflexivity|]. cbn. tauto.
    - replace (zlen data <? 2 ^ 32) with true in U by lia.
      unfold init_frame in U |- *. rewrite E in U |- *.
      pose proof (zlen_nonneg data) as Hn0.
      rewrite (ref_upload_segmented on_req fuel st _ idx sub (zlen data) Hi (conj Hn0 Hn) U).
      destruct (ul_loop_server d rcb fuel (set_buf (log_ev (set_mux st idx sub) (EvR idx sub)) (Some data) 0) 0 data []
                  [65 :: mux_bytes idx sub ++ le_encode 4 (zlen data)] idx sub)
        as (st' & Hrun & (Hs1 & Hs2 & Hs3) & Hi' & Hs'); try reflexivity; try assumption; [left; reflexivity|].
      cbn [app] in Hrun. rewrite Hrun.
      eexists. split.
      + rewrite (seg_frames_fuel fuel (S (length data)) 0 data) by lia. reflexivity.
      + cbn in Hs1, Hs2, Hs3, Hi', Hs'. tauto.
  Qed.
End UploadExact.

Section Download.
  Context (d : dict) (rcb : Z -> Z -> option pyval).
  Notation on_req := (on_request d rcb).

  Lemma find_object_not_err i s k : find_object d i s <> Err k.
  Proof.
    unfold find_object.
    destruct (zassoc i d) as [[v|subs|subs]|]; [destruct (s =? 0)|destruct (zassoc s subs)|destruct (zassoc s subs)|];
      try discriminate.
    destruct ((0 <? s) && (s <? 256)); [destruct (zassoc 1 subs)|]; discriminate.
  Qed.

  Lemma find_object_abort_range i s c : find_object d i s = Abort c -> 0 <= c < 2 ^ 32.
  Proof.
    unfold find_object.
    destruct (zassoc i d) as [[v|subs|subs]|]; [destruct (s =? 0)|destruct (zassoc s subs)|destruct (zassoc s subs)|];
      try discriminate; try (intros [= <-]; vm_compute; split; congruence).
    destruct ((0 <? s) && (s <? 256)); [destruct (zassoc 1 subs)|]; try discriminate;
      intros [= <-]; vm_compute; split; congruence.
  Qed.

  Lemma check_set_not_err i s data chk k : check_set d i s data chk <> Err k.
  Proof.
    unfold check_set. pose proof (find_object_not_err i s) as F.
    destruct (find_object d i s) as [v|k'|c]; cbn [rbind]; [|exfalso; apply (F k'); reflexivity|discriminate].
    destruct (chk && negb (writable v)); [discriminate|].
    destruct (is_number v && negb (8 * zlen data =? len_bits (v_dt v))); discriminate.
  Qed.

  Lemma check_set_abort_range i s data chk c : check_set d i s data chk = Abort c -> 0 <= c < 2 ^ 32.
  Proof.
    unfold check_set. pose proof (find_object_abort_range i s) as F.
    destruct (find_object d i s) as [v|k'|c']; cbn [rbind]; [|discriminate|intros [= <-]; apply F; reflexivity].
    destruct (chk && negb (writable v)); [intros [= <-]; vm_compute; split; congruence|].
    destruct (is_number v && negb (8 * zlen data =? len_bits (v_dt v))); [intros [= <-]; vm_compute; split; congruence|discriminate].
  Qed.

  Lemma check_set_ok i s data v :
    find_object d i s = Ok v -> writable v = true -> length_ok v data = true -> check_set d i s data true = Ok v.
  Proof.
    intros F W L. unfold check_set. rewrite F. cbn [rbind]. rewrite W. cbn [negb andb].
    unfold length_ok in L. destruct (is_number v); cbn [negb orb] in L; cbn [andb]; [rewrite L|]; reflexivity.
  Qed.

  Lemma set_data_ok st i s data v : check_set d i s data true = Ok v ->
    set_data d st i s data true = (store_put (log_ev st (EvW i s data)) i s data, Ok tt).
  Proof. intros H. unfold set_data. rewrite H. reflexivity. Qed.

  Lemma set_data_abort st i s data c : check_set d i s data true = Abort c ->
    set_data d st i s data true = (st, Abort c).
  Proof. intros H. unfold set_data. rewrite H. reflexivity. Qed.

  Definition after_set (x : sstate * res unit) (ack : frame) (fin : sstate -> sstate) : sstate * list frame * bool :=
    let '(st2, r) := x in
    match r with
    | Ok _ => (fin st2, [ack], false)
    | Abort c => do_abort st2 c
    | Err k => do_abort st2 (if k =? E_KEY then AB_NOOBJECT else AB_GENERAL)
    end.

  Lemma on_download_exp st idx sub data mode req : 0 <= idx < 65536 -> (mode = 0 \/ mode = 1) ->
    download_request idx sub data mode = Some req ->
    on_req st req = after_set (set_data d (set_mux st idx sub) idx sub data true) (dl_ack idx sub) (fun s => s).
  Proof.
    intros Hi Hm Hr. unfold download_request in Hr.
    destruct Hm as [-> | ->]; cbn [Z.eqb] in Hr.
    - destruct ((1 <=? zlen data) && (zlen data <=? 4)) eqn:E; [|discriminate]. injection Hr as <-.
      destruct data as [|a0 [|a1 [|a2 [|a3 [|a4 r]]]]];
        try (exfalso; unfold zlen in E; cbn [length] in E; lia);
        unfold on_request, mux_bytes, after_set, dl_ack; cbn -[set_data]; rewrite le2_recombine by exact Hi;
        destruct (set_data d (set_mux st idx sub) idx sub _ true) as [st2 [u|k|c]]; reflexivity.
    - destruct (zlen data =? 4) eqn:E; [|discriminate]. injection Hr as <-.
      destruct data as [|a0 [|a1 [|a2 [|a3 [|a4 r]]]]];
        try (exfalso; unfold zlen in E; cbn [length] in E; lia);
        unfold on_request, mux_bytes, after_set, dl_ack; cbn -[set_data]; rewrite le2_recombine by exact Hi;
        destruct (set_data d (set_mux st idx sub) idx sub _ true) as [st2 [u|k|c]]; reflexivity.
  Qed.

  Lemma on_download_seg st idx sub data mode req : 0 <= idx < 65536 -> (mode = 2 \/ mode = 3) ->
    download_request idx sub data mode = Some req ->
    on_req st req = (set_buf (set_mux st idx sub) (Some []) 0, [dl_ack idx sub], false).
  Proof.
    intros Hi Hm Hr. unfold download_request in Hr.
    destruct Hm as [-> | ->]; cbn [Z.eqb] in Hr.
    - destruct (zlen data <? 2 ^ 32); [|discriminate]. injection Hr as <-.
      unfold on_request, mux_bytes, dl_ack. cbn. rewrite le2_recombine by exact Hi. reflexivity.
    - injection Hr as <-.
      unfold on_request, mux_bytes, dl_ack. cbn. rewrite le2_recombine by exact Hi. reflexivity.
  Qed.

  Lemma seg_download_step st t buf chunk last :
    s_buf st = Some buf -> s_toggle st = 16 * t -> (t = 0 \/ t = 1) -> (length chunk <= 7)%nat ->
    on_req st (seg_req t chunk last) =
      if last then
        after_set (set_data d (set_buf st (Some (buf ++ chunk)) (16 * t)) (s_index st) (s_sub st) (buf ++ chunk) true)
                  [32 + 16 * t; 0; 0; 0; 0; 0; 0; 0] (fun s => set_buf s (s_buf s) (16 * (1 - t)))
      else (set_buf st (Some (buf ++ chunk)) (16 * (1 - t)), [[32 + 16 * t; 0; 0; 0; 0; 0; 0; 0]], false).
  Proof.
    intros Hb Ht Ht01 Hl. unfold on_request, seg_req, after_set.
    destruct chunk as [|a0 [|a1 [|a2 [|a3 [|a4 [|a5 [|a6 [|a7 r]]]]]]]]; cbn [length] in Hl; try lia;
      destruct Ht01 as [-> | ->]; cbn in Ht; destruct last; cbn -[set_data]; unfold segmented_download; rewrite Ht, Hb; cbn -[set_data];
      repeat match goal with |- context [Pos.to_nat ?p] => let n := eval compute in (Pos.to_nat p) in change (Pos.to_nat p) with n end;
      cbn [firstn];
      try reflexivity;
      match goal with |- context [set_data ?a ?b ?c ?e ?f ?g] => destruct (set_data a b c e f g) as [st2 [u|k|c0]] end; reflexivity.
  Qed.
End Download.

Section Download2.
  Context (d : dict) (rcb : Z -> Z -> option pyval).
  Notation on_req := (on_request d rcb).

  Definition stored (st st' : sstate) (idx sub : Z) (data : list Z) : Prop :=
    s_store st' = ((idx, sub), data) :: s_store st /\ s_log st' = s_log st ++ [EvW idx sub data] /\
    s_lasterr st' = s_lasterr st.

  Lemma dl_loop_server fuel : forall st t buf rest tr idx sub,
    s_buf st = Some buf -> s_toggle st = 16 * t -> (t = 0 \/ t = 1) ->
    s_index st = idx -> s_sub st = sub -> 0 <= idx < 65536 -> 0 <= sub < 256 ->
    (length rest <= 7 * fuel)%nat -> (1 <= fuel)%nat ->
    (forall v, check_set d idx sub (buf ++ rest) true = Ok v ->
       exists st' tr', dl_loop on_req fuel st idx sub t rest tr = (st', Ok [], tr') /\
                       stored st st' idx sub (buf ++ rest) /\ s_index st' = idx /\ s_sub st' = sub) /\
    (forall c, check_set d idx sub (buf ++ rest) true = Abort c ->
       exists st' tr', dl_loop on_req fuel st idx sub t rest tr = (st', Abort c, tr' ++ [abort_frame_of idx sub c]) /\
                       same_node st st' /\ s_index st' = idx /\ s_sub st' = sub).
  Proof.
    induction fuel as [|f IH]; intros st t buf rest tr idx sub Hb Ht Ht01 Hi Hs Ri Rs Hl Hf; [lia|].
    pose proof (firstn_skipn 7 rest) as FS.
    assert (Hl7 : (length (firstn 7 rest) <= 7)%nat) by (rewrite firstn_length; lia).
    pose proof (seg_download_step d rcb st t buf (firstn 7 rest) (is_nil (skipn 7 rest)) Hb Ht Ht01 Hl7) as Hstep.
    destruct (skipn 7 rest) as [|x r] eqn:E.
    - (* last segment *)
      rewrite app_nil_r in FS. rewrite FS in Hstep. cbn [is_nil] in Hstep. rewrite Hi, Hs in Hstep.
      split.
      + intros v Hc. rewrite (set_data_ok d _ idx sub _ v Hc) in Hstep. cbn [after_set] in Hstep.
        assert (E' : is_nil (skipn 7 rest) = true) by (rewrite E; reflexivity).
        rewrite <- FS in Hstep at 1. rewrite <- E' in Hstep at 1.
        rewrite (dl_round on_req f st _ idx sub t rest tr Ht01 Hstep). rewrite E'. cbv zeta. cbn iota.
        do 2 eexists. split; [reflexivity|]. unfold stored. cbn. tauto.
      + intros c Hc. rewrite (set_data_abort d _ idx sub _ c Hc) in Hstep. cbn [after_set] in Hstep.
        rewrite do_abort_eq in Hstep; cbn [s_index s_sub set_buf]; try (rewrite ?Hi, ?Hs; assumption).
        2:{ apply (check_set_abort_range d idx sub _ true c Hc). }
        cbn [s_index s_sub set_buf] in Hstep. rewrite Hi, Hs in Hstep.
        assert (E' : is_nil (skipn 7 rest) = true) by (rewrite E; reflexivity).
        rewrite <- FS in Hstep at 1. rewrite <- E' in Hstep at 1.
        rewrite (dl_round_abort on_req f st _ idx sub t rest tr c Ri (check_set_abort_range d idx sub _ true c Hc) Hstep).
        do 2 eexists. split; [reflexivity|]. unfold same_node. cbn. rewrite Hi, Hs. tauto.
    - cbn [is_nil] in Hstep.
      assert (E' : is_nil (skipn 7 rest) = false) by (rewrite E; reflexivity).
      rewrite <- E' in Hstep at 1.
      rewrite (dl_round on_req f st _ idx sub t rest tr Ht01 Hstep). rewrite E'. cbv zeta. cbn iota.
      assert (L2 : length (skipn 7 rest) = (length rest - 7)%nat) by apply skipn_length.
      rewrite E in L2 |- *. cbn [length] in L2.
      assert (A : (buf ++ firstn 7 rest) ++ x :: r = buf ++ rest) by (rewrite <- app_assoc, FS; reflexivity).
      destruct (IH (set_buf st (Some (buf ++ firstn 7 rest)) (16 * (1 - t))) (1 - t) (buf ++ firstn 7 rest) (x :: r)
                   (tr ++ [[32 + 16 * t; 0; 0; 0; 0; 0; 0; 0]]) idx sub) as [IH1 IH2];
        try reflexivity; try assumption; try (cbn [length]; lia).
      rewrite A in IH1, IH2.
      split.
      + intros v Hc. destruct (IH1 v Hc) as (st' & tr' & Hrun & (S1 & S2 & S3) & I1 & I2).
        exists st', tr'. split; [exact Hrun|]. unfold stored. cbn in S1, S2, S3. tauto.
      + intros c Hc. destruct (IH2 c Hc) as (st' & tr' & Hrun & (S1 & S2 & S3) & I1 & I2).
        exists st', tr'. split; [exact Hrun|]. unfold same_node. cbn in S1, S2, S3. tauto.
  Qed.
End Download2.

Section Download3.
  Context (d : dict) (rcb : Z -> Z -> option pyval).
  Notation on_req := (on_request d rcb).

  Lemma download_request_modes idx sub data mode req :
    download_request idx sub data mode = Some req -> mode = 0 \/ mode = 1 \/ mode = 2 \/ mode = 3.
  Proof.
    unfold download_request.
    destruct (mode =? 0) eqn:E0; [lia|]. destruct (mode =? 1) eqn:E1; [lia|].
    destruct (mode =? 2) eqn:E2; [lia|]. destruct (mode =? 3) eqn:E3; [lia|discriminate].
  Qed.

  Lemma download_accepted st idx sub data mode req v fuel :
    0 <= idx < 65536 -> 0 <= sub < 256 ->
    download_request idx sub data mode = Some req ->
    check_set d idx sub data true = Ok v ->
    (length data <= 7 * fuel)%nat -> (1 <= fuel)%nat ->
    exists st' tr, ref_download on_req fuel st idx sub data mode = (st', Ok [], tr) /\
                   stored st st' idx sub data /\ s_index st' = idx /\ s_sub st' = sub.
  Proof.
    intros Ri Rs Hr Hc Hf1 Hf2.
    destruct (download_request_modes idx sub data mode req Hr) as [M | [M | [M | M]]].
    - pose proof (on_download_exp d rcb st idx sub data mode req Ri (or_introl M) Hr) as Hstep.
      rewrite (set_data_ok d _ idx sub data v Hc) in Hstep. cbn [after_set] in Hstep.
      rewrite (ref_download_ack on_req fuel st _ idx sub data mode req Ri Hr Hstep). subst mode. cbn.
      do 2 eexists. split; [reflexivity|]. unfold stored. cbn. tauto.
    - pose proof (on_download_exp d rcb st idx sub data mode req Ri (or_intror M) Hr) as Hstep.
      rewrite (set_data_ok d _ idx sub data v Hc) in Hstep. cbn [after_set] in Hstep.
      rewrite (ref_download_ack on_req fuel st _ idx sub data mode req Ri Hr Hstep). subst mode. cbn.
      do 2 eexists. split; [reflexivity|]. unfold stored. cbn. tauto.
    - pose proof (on_download_seg d rcb st idx sub data mode req Ri (or_introl M) Hr) as Hstep.
      rewrite (ref_download_ack on_req fuel st _ idx sub data mode req Ri Hr Hstep). subst mode. cbn [Z.ltb Z.compare].
      destruct (dl_loop_server d rcb fuel (set_buf (set_mux st idx sub) (Some []) 0) 0 [] data [dl_ack idx sub] idx sub)
        as [D1 _]; try reflexivity; try assumption; [left; reflexivity|].
      destruct (D1 v Hc) as (st' & tr' & Hrun & (S1 & S2 & S3) & I1 & I2).
      exists st', tr'. split; [exact Hrun|]. unfold stored. cbn in S1, S2, S3. tauto.
    - pose proof (on_download_seg d rcb st idx sub data mode req Ri (or_intror M) Hr) as Hstep.
      rewrite (ref_download_ack on_req fuel st _ idx sub data mode req Ri Hr Hstep). subst mode. cbn [Z.ltb Z.compare].
      destruct (dl_loop_server d rcb fuel (set_buf (set_mux st idx sub) (Some []) 0) 0 [] data [dl_ack idx sub] idx sub)
        as [D1 _]; try reflexivity; try assumption; [left; reflexivity|].
      destruct (D1 v Hc) as (st' & tr' & Hrun & (S1 & S2 & S3) & I1 & I2).
      exists st', tr'. split; [exact Hrun|]. unfold stored. cbn in S1, S2, S3. tauto.
  Qed.

  Lemma download_refused st idx sub data mode req c fuel :
    0 <= idx < 65536 -> 0 <= sub < 256 ->
    download_request idx sub data mode = Some req ->
    check_set d idx sub data true = Abort c ->
    (length data <= 7 * fuel)%nat -> (1 <= fuel)%nat ->
    exists st' tr, ref_download on_req fuel st idx sub data mode = (st', Abort c, tr ++ [abort_frame_of idx sub c]) /\
                   same_node st st' /\ s_index st' = idx /\ s_sub st' = sub.
  Proof.
    intros Ri Rs Hr Hc Hf1 Hf2.
    pose proof (check_set_abort_range d idx sub data true c Hc) as Rc.
    destruct (download_request_modes idx sub data mode req Hr) as [M | [M | [M | M]]].
    - pose proof (on_download_exp d rcb st idx sub data mode req Ri (or_introl M) Hr) as Hstep.
      rewrite (set_data_abort d _ idx sub data c Hc) in Hstep. cbn [after_set] in Hstep.
      rewrite do_abort_eq in Hstep by (cbn; assumption). cbn [s_index s_sub set_mux] in Hstep.
      rewrite (ref_download_abort on_req fuel st _ idx sub data mode req c Ri Rc Hr Hstep).
      exists (set_mux st idx sub), []. split; [reflexivity|]. unfold same_node. cbn. tauto.
    - pose proof (on_download_exp d rcb st idx sub data mode req Ri (or_intror M) Hr) as Hstep.
      rewrite (set_data_abort d _ idx sub data c Hc) in Hstep. cbn [after_set] in Hstep.
      rewrite do_abort_eq in Hstep by (cbn; assumption). cbn [s_index s_sub set_mux] in Hstep.
      rewrite (ref_download_abort on_req fuel st _ idx sub data mode req c Ri Rc Hr Hstep).
      exists (set_mux st idx sub), []. split; [reflexivity|]. unfold same_node. cbn. tauto.
    - pose proof (on_download_seg d rcb st idx sub data mode req Ri (or_introl M) Hr) as Hstep.
      rewrite (ref_download_ack on_req fuel st _ idx sub data mode req Ri Hr Hstep). subst mode. cbn [Z.ltb Z.compare].
      destruct (dl_loop_server d rcb fuel (set_buf (set_mux st idx sub) (Some []) 0) 0 [] data [dl_ack idx sub] idx sub)
        as [_ D2]; try reflexivity; try assumption; [left; reflexivity|].
      destruct (D2 c Hc) as (st' & tr' & Hrun & (S1 & S2 & S3) & I1 & I2).
      exists st', tr'. split; [exact Hrun|]. unfold same_node. cbn in S1, S2, S3. tauto.
    - pose proof (on_download_seg d rcb st idx sub data mode req Ri (or_intror M) Hr) as Hstep.
      rewrite (ref_download_ack on_req fuel st _ idx sub data mode req Ri Hr Hstep). subst mode. cbn [Z.ltb Z.compare].
      destruct (dl_loop_server d rcb fuel (set_buf (set_mux st idx sub) (Some []) 0) 0 [] data [dl_ack idx sub] idx sub)
        as [_ D2]; try reflexivity; try assumption; [left; reflexivity|].
      destruct (D2 c Hc) as (st' & tr' & Hrun & (S1 & S2 & S3) & I1 & I2).
      exists st', tr'. split; [exact Hrun|]. unfold same_node. cbn in S1, S2, S3. tauto.
  Qed.
End Download3.

(* ------------------------------------------------------------------ well-formedness of each kind of response *)
Lemma mux_eqb_refl m : mux_eqb m m = true.
Proof. unfold mux_eqb. rewrite !Z.eqb_refl. reflexivity. Qed.

Lemma wf_upload_exp cur c lo hi sub rest' data :
  (c / 32 = 2 \/ c / 32 = 5) -> (0 <? zlen data) && (zlen data <=? 4) = true ->
  resp_wf cur (c :: lo :: hi :: sub :: rest')
    [Z.lor (Z.lor (Z.lor RESPONSE_UPLOAD SIZE_SPECIFIED) EXPEDITED) (Z.shiftl (4 - zlen data) 2)
       :: [lo; hi] ++ [sub] ++ data ++ repeat 0 (4 - length data)] false = true.
Proof.
  intros Hc Hn. unfold resp_wf.
  destruct data as [|a0 [|a1 [|a2 [|a3 [|a4 r]]]]]; try (exfalso; unfold zlen in Hn; cbn [length] in Hn; lia);
    destruct Hc as [-> | ->]; cbn -[Z.mul Z.add mux_eqb]; rewrite ?mux_eqb_refl; reflexivity.
Qed.

Lemma wf_upload_seg cur c lo hi sub rest' n :
  (c / 32 = 2 \/ c / 32 = 5) ->
  resp_wf cur (c :: lo :: hi :: sub :: rest')
    [Z.lor RESPONSE_UPLOAD SIZE_SPECIFIED :: [lo; hi] ++ [sub] ++ le_encode 4 n] false = true.
Proof.
  intros Hc. unfold resp_wf. destruct Hc as [-> | ->]; cbn -[Z.mul Z.add mux_eqb]; rewrite ?mux_eqb_refl; reflexivity.
Qed.

Lemma wf_seg_upload cur c rest tg buf :
  c / 32 = 3 -> (tg = 0 \/ tg = 16) -> 16 * ((c / 16) mod 2) = tg ->
  resp_wf cur (c :: rest)
    [ (let c2 := Z.lor (Z.lor RESPONSE_SEGMENT_UPLOAD tg) (Z.shiftl (7 - zlen (firstn 7 buf)) 1) in
       match skipn 7 buf with [] => Z.lor c2 NO_MORE_DATA | _ => c2 end)
      :: firstn 7 buf ++ repeat 0 (7 - length (firstn 7 buf)) ] false = true.
Proof.
  intros Hc Htg Ht. unfold resp_wf. rewrite Hc.
  destruct Htg as [-> | ->].
  - replace ((c / 16) mod 2) with 0 by lia.
    destruct buf as [|a0 [|a1 [|a2 [|a3 [|a4 [|a5 [|a6 [|a7 r]]]]]]]]; reflexivity.
  - replace ((c / 16) mod 2) with 1 by lia.
    destruct buf as [|a0 [|a1 [|a2 [|a3 [|a4 [|a5 [|a6 [|a7 r]]]]]]]]; reflexivity.
Qed.

Lemma wf_dl_ack cur c lo hi sub rest' :
  c / 32 = 1 ->
  resp_wf cur (c :: lo :: hi :: sub :: rest') [RESPONSE_DOWNLOAD :: [lo; hi] ++ [sub; 0; 0; 0; 0]] false = true.
Proof. intros Hc. unfold resp_wf. rewrite Hc. cbn -[Z.mul Z.add mux_eqb]. rewrite ?mux_eqb_refl. reflexivity. Qed.

Lemma wf_seg_dl_ack cur c rest tg :
  c / 32 = 0 -> (tg = 0 \/ tg = 16) -> 16 * ((c / 16) mod 2) = tg ->
  resp_wf cur (c :: rest) [[Z.lor RESPONSE_SEGMENT_DOWNLOAD tg; 0; 0; 0; 0; 0; 0; 0]] false = true.
Proof.
  intros Hc Htg Ht. unfold resp_wf. rewrite Hc.
  destruct Htg as [-> | ->].
  - replace ((c / 16) mod 2) with 0 by lia. reflexivity.
  - replace ((c / 16) mod 2) with 1 by lia. reflexivity.
Qed.

(* an abort naming the multiplexer that the model holds after the request *)
Lemma wf_abort cur c rest code :
  0 <= c < 256 -> bytes_ok rest -> 0 <= fst cur < 65536 -> 0 <= code < 2 ^ 32 ->
  (c / 32 <> 4 \/ zlen (c :: rest) < 8) ->
  let m := next_mux cur (c :: rest) in
  resp_wf cur (c :: rest) [abort_frame_of (fst m) (snd m) code] false = true.
Proof.
  intros Hc Hr Hcur Hcode Hallow.
  assert (K : c / 32 = 0 \/ c / 32 = 1 \/ c / 32 = 2 \/ c / 32 = 3 \/ c / 32 = 4 \/ c / 32 = 5 \/ c / 32 = 6 \/ c / 32 = 7) by lia.
  destruct cur as [ci cs]. cbn [fst] in Hcur.
  assert (Hrest : (exists lo hi sub r', rest = lo :: hi :: sub :: r' /\ 0 <= lo < 256 /\ 0 <= hi < 256) \/
                  frame_mux (c :: rest) = None).
  { destruct rest as [|lo [|hi [|sub r']]]; try (right; reflexivity).
    left. exists lo, hi, sub, r'. inversion Hr as [|? ? H1 H2]; subst. inversion H2 as [|? ? H3 H4]; subst.
    unfold byte_ok in *. tauto. }
  unfold resp_wf, next_mux, abort_frame_of, mux_bytes.
  destruct Hrest as [(lo & hi & sub & r' & -> & Hlo & Hhi) | Hnone].
  - cbn [frame_mux].
    destruct K as [K | [K | [K | [K | [K | [K | [K | K]]]]]]]; rewrite K; cbn [initiating Z.eqb Pos.eqb orb fst snd app le_encode negb andb];
      cbv zeta; cbn [fst snd];
      rewrite ?le2_recombine by lia; unfold abort_mux_ok, permissive_mux; cbn [initiating Z.eqb Pos.eqb orb frame_mux];
      rewrite ?mux_eqb_refl, ?orb_true_r; cbn [andb orb]; try reflexivity.
    destruct Hallow as [Hallow | Hallow]; [congruence|]. replace (zlen (c :: lo :: hi :: sub :: r') <? 8) with true by lia. reflexivity.
  - rewrite Hnone.
    destruct K as [K | [K | [K | [K | [K | [K | [K | K]]]]]]]; rewrite K; cbn [initiating Z.eqb Pos.eqb orb fst snd app le_encode negb andb];
      cbv zeta; cbn [fst snd];
      rewrite ?le2_recombine by lia; unfold abort_mux_ok, permissive_mux; cbn [initiating Z.eqb Pos.eqb orb]; rewrite ?Hnone;
      rewrite ?mux_eqb_refl, ?orb_true_r; cbn [andb orb]; try reflexivity.
    destruct Hallow as [Hallow | Hallow]; [congruence|]. replace (zlen (c :: rest) <? 8) with true by lia. reflexivity.
Qed.

(* ------------------------------------------------------------------ one well-formed response per request: the invariant *)
Lemma bytes_ok_cons a l : bytes_ok (a :: l) -> 0 <= a < 256 /\ bytes_ok l.
Proof. intros H. inversion H; subst. split; assumption. Qed.

Lemma next_mux_short cur c rest : frame_mux (c :: rest) = None -> next_mux cur (c :: rest) = cur.
Proof. intros H. unfold next_mux. rewrite H. destruct (initiating (c / 32)); reflexivity. Qed.

Lemma next_mux_init cur c lo hi sub r' : initiating (c / 32) = true ->
  next_mux cur (c :: lo :: hi :: sub :: r') = (lo + 256 * hi, sub).
Proof. intros H. unfold next_mux. rewrite H. reflexivity. Qed.

Lemma next_mux_other cur c rest : initiating (c / 32) = false -> next_mux cur (c :: rest) = cur.
Proof. intros H. unfold next_mux. rewrite H. reflexivity. Qed.

Section OneResponse.
  Context (d : dict) (rcb : Z -> Z -> option pyval).
  Notation on_req := (on_request d rcb).

  Definition cur_of (st : sstate) : Z * Z := (s_index st, s_sub st).

  Definition hres_ok (cur : Z * Z) (req : frame) (x : sstate * res (list frame)) : Prop :=
    mux_inv (fst x) /\ cur_of (fst x) = next_mux cur req /\
    match snd x with
    | Ok rs => resp_wf cur req rs false = true
    | Abort code => 0 <= code < 2 ^ 32
    | Err _ => True
    end.

  Lemma set_data_frame st i s data chk st' r : set_data d st i s data chk = (st', r) ->
    s_buf st' = s_buf st /\ s_toggle st' = s_toggle st /\ s_index st' = s_index st /\ s_sub st' = s_sub st /\
    match r with Abort c => 0 <= c < 2 ^ 32 | _ => True end.
  Proof.
    unfold set_data. destruct (check_set d i s data chk) as [v|k|c] eqn:C; intros [= <- <-]; cbn; try tauto.
    repeat split; try reflexivity; apply (check_set_abort_range d i s data chk c C).
  Qed.

  Lemma init_upload_ok st c rest :
    mux_inv st -> 0 <= c < 256 -> bytes_ok rest -> (c / 32 = 2 \/ c / 32 = 5) ->
    hres_ok (cur_of st) (c :: rest) (init_upload d rcb st (c :: rest)).
  Proof.
    intros (I1 & I2 & I3) Hc Hr K.
    assert (Hinit : initiating (c / 32) = true) by (destruct K as [-> | ->]; reflexivity).
    destruct rest as [|lo [|hi [|sub r']]];
      try (unfold init_upload, hres_ok; cbn [unpack_mux fst snd]; rewrite next_mux_short by reflexivity;
           unfold mux_inv, cur_of; tauto).
    apply bytes_ok_cons in Hr as (Hlo & Hr). apply bytes_ok_cons in Hr as (Hhi & Hr). apply bytes_ok_cons in Hr as (Hsub & Hr).
    unfold init_upload. cbn [unpack_mux].
    destruct (get_data d rcb (set_mux st (lo + 256 * hi) sub) (lo + 256 * hi) sub true) as [st2 r] eqn:G.
    pose proof (get_data_frame d rcb _ _ _ _ _ _ G) as (F1 & F2 & F3 & F4 & _). cbn [s_buf s_toggle s_index s_sub set_mux set_buf log_ev store_put] in F1, F2, F3, F4.
    assert (M2 : mux_inv st2) by (unfold mux_inv; rewrite F2, F3, F4; lia).
    assert (C2 : cur_of st2 = next_mux (cur_of st) (c :: lo :: hi :: sub :: r'))
      by (rewrite next_mux_init by exact Hinit; unfold cur_of; rewrite F3, F4; reflexivity).
    destruct r as [data|k|code].
    - destruct ((0 <? zlen data) && (zlen data <=? 4)) eqn:E.
      + unfold hres_ok. cbn [fst snd]. repeat split; try apply M2; try exact C2.
        rewrite le2_bytes by assumption. apply wf_upload_exp; assumption.
      + destruct (zlen data <? 2 ^ 32).
        * unfold hres_ok. cbn [fst snd]. split; [|split].
          -- unfold mux_inv. cbn [s_buf s_toggle s_index s_sub set_mux set_buf]. rewrite F3, F4. lia.
          -- exact C2.
          -- rewrite le2_bytes by assumption. apply wf_upload_seg; assumption.
        * unfold hres_ok. cbn [fst snd]. tauto.
    - unfold hres_ok. cbn [fst snd]. tauto.
    - unfold hres_ok. cbn [fst snd]. repeat split; try apply M2; try exact C2;
        apply (get_data_abort_range d rcb _ _ _ _ _ _ G encode_raw_no_abort).
  Qed.

  Lemma toggle_cases st c : mux_inv st -> 0 <= c < 256 ->
    (Z.land c TOGGLE_BIT =? s_toggle st) = true -> 16 * ((c / 16) mod 2) = s_toggle st.
  Proof.
    intros _ Hc H. pose proof (byte_bits c Hc) as (_ & B & _). unfold TOGGLE_BIT in H. rewrite B in H. lia.
  Qed.

  Lemma segmented_upload_ok st c rest :
    mux_inv st -> 0 <= c < 256 -> c / 32 = 3 ->
    hres_ok (cur_of st) (c :: rest) (segmented_upload st c).
  Proof.
    intros M Hc K. pose proof M as (I1 & I2 & I3).
    assert (Hinit : initiating (c / 32) = false) by (rewrite K; reflexivity).
    unfold segmented_upload.
    destruct (Z.land c TOGGLE_BIT =? s_toggle st) eqn:T; cbn [negb].
    2:{ unfold hres_ok. cbn [fst snd]. rewrite next_mux_other by exact Hinit. repeat split; try apply M; vm_compute; congruence. }
    destruct (s_buf st) as [buf|].
    2:{ unfold hres_ok. cbn [fst snd]. rewrite next_mux_other by exact Hinit. repeat split; apply M. }
    unfold hres_ok. cbn [fst snd]. rewrite next_mux_other by exact Hinit. split; [|split].
    - unfold mux_inv. cbn. destruct I3 as [-> | ->]; cbn; unfold TOGGLE_BIT; lia.
    - reflexivity.
    - apply (wf_seg_upload (cur_of st) c rest (s_toggle st) buf K I3). apply toggle_cases; assumption.
  Qed.

  Lemma init_download_ok st c rest :
    mux_inv st -> 0 <= c < 256 -> bytes_ok rest -> c / 32 = 1 ->
    hres_ok (cur_of st) (c :: rest) (init_download d st (c :: rest)).
  Proof.
    intros (I1 & I2 & I3) Hc Hr K.
    assert (Hinit : initiating (c / 32) = true) by (rewrite K; reflexivity).
    destruct rest as [|lo [|hi [|sub r']]];
      try (unfold init_download, hres_ok; cbn [unpack_mux fst snd]; rewrite next_mux_short by reflexivity;
           unfold mux_inv, cur_of; tauto).
    apply bytes_ok_cons in Hr as (Hlo & Hr). apply bytes_ok_cons in Hr as (Hhi & Hr). apply bytes_ok_cons in Hr as (Hsub & Hr).
    unfold init_download. cbn [unpack_mux].
    assert (C1 : forall st1, s_index st1 = lo + 256 * hi -> s_sub st1 = sub ->
                 cur_of st1 = next_mux (cur_of st) (c :: lo :: hi :: sub :: r'))
      by (intros st1 E1 E2; rewrite next_mux_init by exact Hinit; unfold cur_of; rewrite E1, E2; reflexivity).
    destruct (negb (Z.land c EXPEDITED =? 0)).
    - match goal with |- context [set_data d ?a ?b ?e ?f ?g] => destruct (set_data d a b e f g) as [st2 r] eqn:G end.
      pose proof (set_data_frame _ _ _ _ _ _ _ G) as (F1 & F2 & F3 & F4 & F5). cbn [s_buf s_toggle s_index s_sub set_mux set_buf log_ev store_put] in F1, F2, F3, F4.
      assert (M2 : mux_inv st2) by (unfold mux_inv; rewrite F2, F3, F4; lia).
      destruct r as [u|k|code]; unfold hres_ok; cbn [fst snd]; (split; [exact M2|split; [apply C1; assumption|]]); try exact I.
      + rewrite le2_bytes by assumption. apply wf_dl_ack; assumption.
      + exact F5.
    - destruct (negb (Z.land c SIZE_SPECIFIED =? 0) && (zlen (c :: lo :: hi :: sub :: r') <? 8)).
      + unfold hres_ok; cbn [fst snd]. split; [unfold mux_inv; cbn [s_buf s_toggle s_index s_sub set_mux set_buf]; lia|split; [apply C1; reflexivity|exact I]].
      + unfold hres_ok; cbn [fst snd]. split; [unfold mux_inv; cbn [s_buf s_toggle s_index s_sub set_mux set_buf]; lia|split; [apply C1; reflexivity|]].
        rewrite le2_bytes by assumption. apply wf_dl_ack; assumption.
  Qed.

  Lemma segmented_download_ok st c rest :
    mux_inv st -> 0 <= c < 256 -> c / 32 = 0 ->
    hres_ok (cur_of st) (c :: rest) (segmented_download d st c (c :: rest)).
  Proof.
    intros M Hc K. pose proof M as (I1 & I2 & I3).
    assert (Hinit : initiating (c / 32) = false) by (rewrite K; reflexivity).
    unfold segmented_download.
    destruct (Z.land c TOGGLE_BIT =? s_toggle st) eqn:T; cbn [negb].
    2:{ unfold hres_ok. cbn [fst snd]. rewrite next_mux_other by exact Hinit. repeat split; try apply M; vm_compute; congruence. }
    destruct (s_buf st) as [buf|].
    2:{ unfold hres_ok. cbn [fst snd]. rewrite next_mux_other by exact Hinit. repeat split; apply M. }
    match goal with |- context [if ?b then set_data d ?a1 ?a2 ?a3 ?a4 ?a5 else ?e] =>
      destruct (if b then set_data d a1 a2 a3 a4 a5 else e) as [st2 r] eqn:G end.
    assert (F : s_toggle st2 = s_toggle st /\ s_index st2 = s_index st /\ s_sub st2 = s_sub st /\
                match r with Abort c0 => 0 <= c0 < 2 ^ 32 | _ => True end).
    { destruct (negb (Z.land c NO_MORE_DATA =? 0)).
      - pose proof (set_data_frame _ _ _ _ _ _ _ G) as (F1 & F2 & F3 & F4 & F5). cbn [s_buf s_toggle s_index s_sub set_mux set_buf log_ev store_put] in F1, F2, F3, F4. tauto.
      - injection G as <- <-. cbn. tauto. }
    destruct F as (F2 & F3 & F4 & F5).
    assert (M2 : mux_inv st2) by (unfold mux_inv; rewrite F2, F3, F4; exact M).
    destruct r as [u|k|code]; unfold hres_ok; cbn [fst snd]; rewrite next_mux_other by exact Hinit.
    - split; [|split].
      + unfold mux_inv. cbn. rewrite F3, F4. destruct I3 as [-> | ->]; cbn; unfold TOGGLE_BIT; lia.
      + unfold cur_of. cbn. rewrite F3, F4. reflexivity.
      + apply (wf_seg_dl_ack (cur_of st) c rest (s_toggle st) K I3). apply toggle_cases; assumption.
    - split; [exact M2|split; [unfold cur_of; rewrite F3, F4; reflexivity|exact I]].
    - split; [exact M2|split; [unfold cur_of; rewrite F3, F4; reflexivity|exact F5]].
  Qed.
End OneResponse.

Arguments init_upload : simpl never.
Arguments segmented_upload : simpl never.
Arguments init_download : simpl never.
Arguments segmented_download : simpl never.
Arguments request_aborted : simpl never.
Arguments do_abort : simpl never.
Arguments resp_wf : simpl never.
Arguments next_mux : simpl never.

Section OneResponse2.
  Context (d : dict) (rcb : Z -> Z -> option pyval).
  Notation on_req := (on_request d rcb).

  Definition step_ok (st : sstate) (req : frame) (x : sstate * list frame * bool) : Prop :=
    mux_inv (fst (fst x)) /\ cur_of (fst (fst x)) = next_mux (cur_of st) req /\
    resp_wf (cur_of st) req (snd (fst x)) (snd x) = true.

  Lemma finish_ok st c rest st1 r :
    mux_inv st -> 0 <= c < 256 -> bytes_ok rest ->
    hres_ok (cur_of st) (c :: rest) (st1, r) ->
    match r with Ok _ => True | _ => c / 32 <> 4 \/ zlen (c :: rest) < 8 end ->
    step_ok st (c :: rest)
      match r with
      | Ok rs => (st1, rs, false)
      | Abort code => do_abort st1 code
      | Err k => do_abort st1 (if k =? E_KEY then AB_NOOBJECT else AB_GENERAL)
      end.
  Proof.
    intros M Hc Hr (M1 & C1 & R) Hallow. cbn [fst snd] in M1, C1, R. pose proof M as (I1 & I2 & I3). pose proof M1 as (J1 & J2 & J3).
    assert (A : forall code, 0 <= code < 2 ^ 32 -> c / 32 <> 4 \/ zlen (c :: rest) < 8 ->
                step_ok st (c :: rest) (do_abort st1 code)).
    { intros code Hcode Hal. rewrite do_abort_eq by assumption. unfold step_ok. cbn [fst snd].
      split; [exact M1|split; [exact C1|]].
      pose proof (wf_abort (cur_of st) c rest code Hc Hr I1 Hcode Hal) as W. cbv zeta in W.
      rewrite <- C1 in W. exact W. }
    destruct r as [rs|k|code].
    - unfold step_ok. cbn [fst snd]. tauto.
    - apply A; [destruct (k =? E_KEY); vm_compute; split; congruence|exact Hallow].
    - apply A; assumption.
  Qed.

  Lemma on_request_ok st req : mux_inv st -> frame_ok req -> step_ok st req (on_req st req).
  Proof.
    intros M (Hb & Hl).
    destruct req as [|c rest]; [cbn [length] in Hl; lia|].
    apply bytes_ok_cons in Hb as (Hc & Hr).
    assert (K : c / 32 = 0 \/ c / 32 = 1 \/ c / 32 = 2 \/ c / 32 = 3 \/ c / 32 = 4 \/ c / 32 = 5 \/ c / 32 = 6 \/ c / 32 = 7) by lia.
    pose proof (byte_bits c Hc) as (B1 & _).
    unfold on_request. cbv zeta. change 0xE0 with 224. rewrite B1.
    destruct K as [K | [K | [K | [K | [K | [K | [K | K]]]]]]]; rewrite K; cbn [Z.mul Pos.mul Z.eqb Pos.eqb REQUEST_UPLOAD
      REQUEST_SEGMENT_UPLOAD REQUEST_DOWNLOAD REQUEST_SEGMENT_DOWNLOAD REQUEST_BLOCK_UPLOAD REQUEST_BLOCK_DOWNLOAD REQUEST_ABORTED].
    - destruct (segmented_download d st c (c :: rest)) as [st1 r] eqn:H.
      apply finish_ok; try assumption; [rewrite <- H; apply segmented_download_ok; assumption|destruct r; auto; left; lia].
    - destruct (init_download d st (c :: rest)) as [st1 r] eqn:H.
      apply finish_ok; try assumption; [rewrite <- H; apply init_download_ok; assumption|destruct r; auto; left; lia].
    - destruct (init_upload d rcb st (c :: rest)) as [st1 r] eqn:H.
      apply finish_ok; try assumption; [rewrite <- H; apply init_upload_ok; auto|destruct r; auto; left; lia].
    - destruct (segmented_upload st c) as [st1 r] eqn:H.
      apply finish_ok; try assumption; [rewrite <- H; apply segmented_upload_ok; assumption|destruct r; auto; left; lia].
    - destruct (request_aborted st (c :: rest)) as [st1 r] eqn:H.
      unfold request_aborted in H.
      assert (Hinit : initiating (c / 32) = false) by (rewrite K; reflexivity).
      destruct (zlen (c :: rest) <? 8) eqn:E; injection H as <- <-.
      + apply (finish_ok st c rest st (Err E_STRUCT)); try assumption; [|right; lia].
        unfold hres_ok. cbn [fst snd]. rewrite next_mux_other by exact Hinit. repeat split; apply M.
      + apply (finish_ok st c rest (set_lasterr st (le_decode (firstn 4 (skipn 4 (c :: rest))))) (Ok [])); try assumption; [|exact I].
        unfold hres_ok. cbn [fst snd]. rewrite next_mux_other by exact Hinit.
        split; [exact M|split; [reflexivity|]]. unfold resp_wf. rewrite K. reflexivity.
    - destruct (init_upload d rcb st (c :: rest)) as [st1 r] eqn:H.
      apply finish_ok; try assumption; [rewrite <- H; apply init_upload_ok; auto|destruct r; auto; left; lia].
    - apply (finish_ok st c rest st (Abort AB_COMMAND)); try assumption; [|left; lia].
      assert (Hinit : initiating (c / 32) = false) by (rewrite K; reflexivity).
      unfold hres_ok. cbn [fst snd]. rewrite next_mux_other by exact Hinit. repeat split; try apply M; vm_compute; congruence.
    - apply (finish_ok st c rest st (Abort AB_COMMAND)); try assumption; [|left; lia].
      assert (Hinit : initiating (c / 32) = false) by (rewrite K; reflexivity).
      unfold hres_ok. cbn [fst snd]. rewrite next_mux_other by exact Hinit. repeat split; try apply M; vm_compute; congruence.
  Qed.

  Lemma run_frames_ok fs : forall st, mux_inv st -> Forall frame_ok fs ->
    check_hist (cur_of st) fs (snd (run_frames d rcb st fs)) = true.
  Proof.
    induction fs as [|f fs IH]; intros st M HF; [reflexivity|].
    inversion HF as [|? ? Hf HF']; subst.
    cbn [run_frames].
    pose proof (on_request_ok st f M Hf) as (M1 & C1 & W).
    destruct (on_req st f) as [[st1 rs] raised]. cbn [fst snd] in M1, C1, W.
    specialize (IH st1 M1 HF').
    destruct (run_frames d rcb st1 fs) as [st2 outs]. cbn [snd check_hist] in IH |- *.
    rewrite W, <- C1, IH. reflexivity.
  Qed.

  Lemma one_response_per_request st0 fs : Forall frame_ok fs ->
    check_hist (0, 0) fs (snd (run_frames d rcb (fresh_state st0) fs)) = true.
  Proof.
    intros HF. apply (run_frames_ok fs (fresh_state st0)); [|exact HF].
    unfold mux_inv, fresh_state. cbn. lia.
  Qed.
End OneResponse2.

(* ------------------------------------------------------------------ C06: refusals *)
Section Refusals.
  Context (d : dict) (rcb : Z -> Z -> option pyval).
  Notation on_req := (on_request d rcb).

  Lemma upload_refused st idx sub c st2 fuel :
    0 <= idx < 65536 -> 0 <= sub < 256 ->
    get_data d rcb (set_mux st idx sub) idx sub true = (st2, Abort c) ->
    ref_upload on_req fuel st idx sub = (st2, Abort c, [abort_frame_of idx sub c]).
  Proof.
    intros Ri Rs G.
    pose proof (on_upload d rcb st idx sub Ri) as U. rewrite G in U.
    pose proof (get_data_frame d rcb _ _ _ _ _ _ G) as (_ & _ & F3 & F4 & _). cbn in F3, F4.
    pose proof (get_data_abort_range d rcb _ _ _ _ _ _ G encode_raw_no_abort) as Rc.
    rewrite do_abort_eq in U by (rewrite ?F3, ?F4; assumption). rewrite F3, F4 in U.
    apply ref_upload_abort; assumption.
  Qed.

  (* read of a write-only entry *)
  Lemma read_write_only st idx sub v fuel :
    0 <= idx < 65536 -> 0 <= sub < 256 ->
    find_object d idx sub = Ok v -> readable v = false ->
    exists st', ref_upload on_req fuel st idx sub = (st', Abort 0x06010001, [abort_frame_of idx sub 0x06010001]) /\
                same_node st st'.
  Proof.
    intros Ri Rs F R. eexists. split.
    - apply upload_refused; try assumption. unfold get_data. rewrite F, R. reflexivity.
    - unfold same_node. cbn. tauto.
  Qed.

  (* an entry that has no value: the read callback is asked, nothing else happens *)
  Lemma read_no_value st idx sub v fuel :
    0 <= idx < 65536 -> 0 <= sub < 256 ->
    find_object d idx sub = Ok v -> readable v = true -> no_value rcb st idx sub v ->
    exists st', ref_upload on_req fuel st idx sub = (st', Abort 0x060A0023, [abort_frame_of idx sub 0x060A0023]) /\
                s_store st' = s_store st /\ s_log st' = s_log st ++ [EvR idx sub].
  Proof.
    intros Ri Rs F R (N1 & N2 & N3 & N4). eexists. split.
    - apply upload_refused; try assumption. unfold get_data. rewrite F, R. cbn [negb andb].
      rewrite N1. cbn [s_store set_mux]. rewrite N2, N3, N4. reflexivity.
    - cbn. tauto.
  Qed.

  (* missing index / sub-index on upload *)
  Lemma read_missing st idx sub c fuel :
    0 <= idx < 65536 -> 0 <= sub < 256 ->
    find_object d idx sub = Abort c ->
    exists st', ref_upload on_req fuel st idx sub = (st', Abort c, [abort_frame_of idx sub c]) /\ same_node st st'.
  Proof.
    intros Ri Rs F. eexists. split.
    - apply upload_refused; try assumption. unfold get_data. rewrite F. reflexivity.
    - unfold same_node. cbn. tauto.
  Qed.

  Lemma find_object_no_index idx sub : zassoc idx d = None -> find_object d idx sub = Abort 0x06020000.
  Proof. intros H. unfold find_object. rewrite H. reflexivity. Qed.

  Lemma find_object_no_sub idx sub : sub_missing d idx sub -> find_object d idx sub = Abort 0x06090011.
  Proof.
    unfold sub_missing, find_object.
    destruct (zassoc idx d) as [[v|subs|subs]|]; [| | |tauto].
    - intros H. replace (sub =? 0) with false by lia. reflexivity.
    - intros ->. reflexivity.
    - intros (-> & H). destruct ((0 <? sub) && (sub <? 256)) eqn:E; [|reflexivity].
      destruct H as [H | ->]; [lia|reflexivity].
  Qed.

  (* wrong toggle bit in a segment request: one abort naming the running transfer, state untouched *)
  Lemma wrong_toggle st c rest :
    0 <= c < 256 -> 0 <= s_index st < 65536 -> 0 <= s_sub st < 256 ->
    (c / 32 = 0 \/ c / 32 = 3) -> 16 * ((c / 16) mod 2) <> s_toggle st ->
    on_req st (c :: rest) = (st, [abort_frame_of (s_index st) (s_sub st) 0x05030000], false).
  Proof.
    intros Hc Ri Rs K T. pose proof (byte_bits c Hc) as (B1 & B2 & _).
    unfold on_request. cbv zeta. change 0xE0 with 224. rewrite B1.
    destruct K as [K | K]; rewrite K; cbn [Z.mul Pos.mul Z.eqb Pos.eqb REQUEST_UPLOAD
      REQUEST_SEGMENT_UPLOAD REQUEST_DOWNLOAD REQUEST_SEGMENT_DOWNLOAD REQUEST_BLOCK_UPLOAD REQUEST_BLOCK_DOWNLOAD REQUEST_ABORTED].
    - unfold segmented_download, TOGGLE_BIT. rewrite B2. replace (16 * ((c / 16) mod 2) =? s_toggle st) with false by lia.
      cbn [negb]. apply do_abort_eq; try assumption. vm_compute. split; congruence.
    - unfold segmented_upload, TOGGLE_BIT. rewrite B2. replace (16 * ((c / 16) mod 2) =? s_toggle st) with false by lia.
      cbn [negb]. apply do_abort_eq; try assumption. vm_compute. split; congruence.
  Qed.

  (* block download (not supported) and the unassigned command specifier 7 *)
  Lemma unknown_command st c rest :
    0 <= c < 256 -> 0 <= s_index st < 65536 -> 0 <= s_sub st < 256 ->
    (c / 32 = 6 \/ c / 32 = 7) ->
    on_req st (c :: rest) = (st, [abort_frame_of (s_index st) (s_sub st) 0x05040001], false).
  Proof.
    intros Hc Ri Rs K. pose proof (byte_bits c Hc) as (B1 & _).
    unfold on_request. cbv zeta. change 0xE0 with 224. rewrite B1.
    destruct K as [K | K]; rewrite K; cbn [Z.mul Pos.mul Z.eqb Pos.eqb REQUEST_UPLOAD
      REQUEST_SEGMENT_UPLOAD REQUEST_DOWNLOAD REQUEST_SEGMENT_DOWNLOAD REQUEST_BLOCK_UPLOAD REQUEST_BLOCK_DOWNLOAD REQUEST_ABORTED];
      apply do_abort_eq; try assumption; vm_compute; split; congruence.
  Qed.

  (* a CAN frame without data bytes is outside the property (1..8 bytes); the code raises on it *)
  Lemma empty_frame_raises st : on_req st [] = (st, [], true).
  Proof. reflexivity. Qed.
End Refusals.

(* the client side: an abort frame makes read_response raise SdoAbortedError with exactly the code *)
Lemma client_abort_decoding idx sub code : 0 <= code < 2 ^ 32 ->
  client_read_response (Some (abort_frame_of idx sub code)) = Abort code.
Proof.
  intros Hc. unfold client_read_response, abort_frame_of, mux_bytes. cbn [app le_encode].
  change (128 =? RESPONSE_ABORTED) with true. cbn iota.
  change (zlen [128; idx mod 256; (idx / 256) mod 256; sub; code mod 256; (code / 256) mod 256; (code / 256 / 256) mod 256;
                (code / 256 / 256 / 256) mod 256] <? 8) with false. cbn iota. cbn [skipn firstn].
  rewrite le4_lit by exact Hc. reflexivity.
Qed.

Lemma client_abort_decoding_bytes b1 b2 b3 c0 c1 c2 c3 :
  client_read_response (Some [128; b1; b2; b3; c0; c1; c2; c3]) = Abort (c0 + 256 * (c1 + 256 * (c2 + 256 * (c3 + 256 * 0)))).
Proof. reflexivity. Qed.

Definition codes_used : list Z :=
  [0x05030000; 0x05040001; 0x06010001; 0x06010002; 0x06020000; 0x06070010; 0x06090011; 0x060A0023; 0x08000000].

Lemma codes_in_table : forallb (fun c => zmem c ABORT_CODES) codes_used = true.
Proof. vm_compute. reflexivity. Qed.

Section Refusals2.
  Context (d : dict) (rcb : Z -> Z -> option pyval).
  Notation on_req := (on_request d rcb).

  Lemma check_set_read_only idx sub v data :
    find_object d idx sub = Ok v -> writable v = false -> check_set d idx sub data true = Abort 0x06010002.
  Proof. intros F W. unfold check_set. rewrite F. cbn [rbind]. rewrite W. reflexivity. Qed.

  Lemma check_set_missing idx sub c data : find_object d idx sub = Abort c -> check_set d idx sub data true = Abort c.
  Proof. intros F. unfold check_set. rewrite F. reflexivity. Qed.

  Lemma check_set_wrong_length idx sub v data :
    find_object d idx sub = Ok v -> writable v = true -> is_number v = true -> 8 * zlen data <> len_bits (v_dt v) ->
    check_set d idx sub data true = Abort 0x06070010.
  Proof.
    intros F W N L. unfold check_set. rewrite F. cbn [rbind]. rewrite W, N. cbn [negb andb].
    replace (8 * zlen data =? len_bits (v_dt v)) with false by lia. reflexivity.
  Qed.

  (* an accepted download is what a later upload returns and what the write callback saw *)
  Lemma download_then_upload st idx sub v data mode req fuel :
    0 <= idx < 65536 -> 0 <= sub < 256 ->
    download_request idx sub data mode = Some req ->
    find_object d idx sub = Ok v -> writable v = true -> length_ok v data = true ->
    readable v = true -> rcb idx sub = None -> zlen data < 2 ^ 32 ->
    (length data <= 7 * fuel)%nat -> (1 <= fuel)%nat ->
    exists st1 tr1 st2,
      ref_download on_req fuel st idx sub data mode = (st1, Ok [], tr1) /\
      s_log st1 = s_log st ++ [EvW idx sub data] /\
      ref_upload on_req fuel st1 idx sub = (st2, Ok data, upload_frames idx sub data).
  Proof.
    intros Ri Rs Hr F W L R Hcb Hn Hf1 Hf2.
    destruct (download_accepted d rcb st idx sub data mode req v fuel Ri Rs Hr (check_set_ok d idx sub data v F W L) Hf1 Hf2)
      as (st1 & tr1 & Hd & (S1 & S2 & S3) & _).
    assert (Sp : supplies rcb st1 idx sub v data).
    { right. left. split; [exact Hcb|]. rewrite S1. cbn [store_get]. unfold key_eqb. cbn [fst snd]. rewrite !Z.eqb_refl. reflexivity. }
    destruct (upload_exact d rcb st1 idx sub v data fuel Ri F R Sp Hn Hf1 Hf2) as (st2 & Hu & _).
    exists st1, tr1, st2. repeat split; assumption.
  Qed.
End Refusals2.

(* ------------------------------------------------------------------ statements in the shape used by Properties/C02.v, C06.v *)
Section Final.
  Context (d : dict) (rcb : Z -> Z -> option pyval).
  Notation on_req := (on_request d rcb).

  Lemma download_exact st idx sub v data mode req fuel :
    0 <= idx < 65536 -> 0 <= sub < 256 ->
    download_request idx sub data mode = Some req ->
    find_object d idx sub = Ok v -> writable v = true -> length_ok v data = true ->
    (length data <= 7 * fuel)%nat -> (1 <= fuel)%nat ->
    exists st' tr, ref_download on_req fuel st idx sub data mode = (st', Ok [], tr) /\
                   s_store st' = ((idx, sub), data) :: s_store st /\
                   s_log st' = s_log st ++ [EvW idx sub data].
  Proof.
    intros Ri Rs Hr F W L Hf1 Hf2.
    destruct (download_accepted d rcb st idx sub data mode req v fuel Ri Rs Hr (check_set_ok d idx sub data v F W L) Hf1 Hf2)
      as (st1 & tr1 & Hd & (S1 & S2 & S3) & _).
    exists st1, tr1. tauto.
  Qed.

  Definition refused_download (st : sstate) (idx sub : Z) (data : list Z) (mode : Z) (fuel : nat) (code : Z) : Prop :=
    exists st' tr, ref_download on_req fuel st idx sub data mode = (st', Abort code, tr ++ [abort_frame_of idx sub code]) /\
                   s_store st' = s_store st /\ s_log st' = s_log st.

  Lemma download_refused' st idx sub data mode req c fuel :
    0 <= idx < 65536 -> 0 <= sub < 256 ->
    download_request idx sub data mode = Some req ->
    check_set d idx sub data true = Abort c ->
    (length data <= 7 * fuel)%nat -> (1 <= fuel)%nat ->
    refused_download st idx sub data mode fuel c.
  Proof.
    intros Ri Rs Hr Hc Hf1 Hf2.
    destruct (download_refused d rcb st idx sub data mode req c fuel Ri Rs Hr Hc Hf1 Hf2) as (st' & tr & H & (S1 & S2 & _) & _).
    exists st', tr. tauto.
  Qed.

  Lemma write_read_only st idx sub v data mode req fuel :
    0 <= idx < 65536 -> 0 <= sub < 256 ->
    download_request idx sub data mode = Some req ->
    find_object d idx sub = Ok v -> writable v = false ->
    (length data <= 7 * fuel)%nat -> (1 <= fuel)%nat ->
    refused_download st idx sub data mode fuel 0x06010002.
  Proof.
    intros Ri Rs Hr F W Hf1 Hf2.
    apply (download_refused' st idx sub data mode req _ fuel Ri Rs Hr (check_set_read_only d idx sub v data F W) Hf1 Hf2).
  Qed.

  Lemma write_wrong_length st idx sub v data mode req fuel :
    0 <= idx < 65536 -> 0 <= sub < 256 ->
    download_request idx sub data mode = Some req ->
    find_object d idx sub = Ok v -> writable v = true -> is_number v = true -> 8 * zlen data <> len_bits (v_dt v) ->
    (length data <= 7 * fuel)%nat -> (1 <= fuel)%nat ->
    refused_download st idx sub data mode fuel 0x06070010.
  Proof.
    intros Ri Rs Hr F W N L Hf1 Hf2.
    apply (download_refused' st idx sub data mode req _ fuel Ri Rs Hr (check_set_wrong_length d rcb idx sub v data F W N L) Hf1 Hf2).
  Qed.

  Definition refused_upload (st : sstate) (idx sub : Z) (fuel : nat) (code : Z) : Prop :=
    exists st', ref_upload on_req fuel st idx sub = (st', Abort code, [abort_frame_of idx sub code]) /\
                s_store st' = s_store st /\ s_log st' = s_log st.

  Lemma missing_index st idx sub fuel :
    0 <= idx < 65536 -> 0 <= sub < 256 -> zassoc idx d = None ->
    refused_upload st idx sub fuel 0x06020000 /\
    forall data mode req, download_request idx sub data mode = Some req ->
      (length data <= 7 * fuel)%nat -> (1 <= fuel)%nat -> refused_download st idx sub data mode fuel 0x06020000.
  Proof.
    intros Ri Rs H. pose proof (find_object_no_index d idx sub H) as F. split.
    - destruct (read_missing d rcb st idx sub _ fuel Ri Rs F) as (st' & Hu & (S1 & S2 & _)). exists st'. tauto.
    - intros data mode req Hr Hf1 Hf2.
      apply (download_refused' st idx sub data mode req _ fuel Ri Rs Hr (check_set_missing d idx sub _ data F) Hf1 Hf2).
  Qed.

  Lemma missing_subindex st idx sub fuel :
    0 <= idx < 65536 -> 0 <= sub < 256 -> sub_missing d idx sub ->
    refused_upload st idx sub fuel 0x06090011 /\
    forall data mode req, download_request idx sub data mode = Some req ->
      (length data <= 7 * fuel)%nat -> (1 <= fuel)%nat -> refused_download st idx sub data mode fuel 0x06090011.
  Proof.
    intros Ri Rs H. pose proof (find_object_no_sub d rcb idx sub H) as F. split.
    - destruct (read_missing d rcb st idx sub _ fuel Ri Rs F) as (st' & Hu & (S1 & S2 & _)). exists st'. tauto.
    - intros data mode req Hr Hf1 Hf2.
      apply (download_refused' st idx sub data mode req _ fuel Ri Rs Hr (check_set_missing d idx sub _ data F) Hf1 Hf2).
  Qed.

  Lemma read_write_only' st idx sub v fuel :
    0 <= idx < 65536 -> 0 <= sub < 256 ->
    find_object d idx sub = Ok v -> readable v = false -> refused_upload st idx sub fuel 0x06010001.
  Proof.
    intros Ri Rs F R. destruct (read_write_only d rcb st idx sub v fuel Ri Rs F R) as (st' & Hu & (S1 & S2 & _)).
    exists st'. tauto.
  Qed.
End Final.

Lemma reachable_in_range d rcb st req :
  mux_inv st -> frame_ok req -> mux_inv (fst (fst (on_request d rcb st req))).
Proof. intros M F. exact (proj1 (on_request_ok d rcb st req M F)). Qed.

(* ------------------------------------------------------------------ concrete inputs for the non-vacuity examples *)
(* ---- non-vacuity: concrete non-trivial inputs meet the hypotheses, and the conclusions compute ---- *)
Definition nv_data : list Z := [10; 11; 12; 13; 14; 15; 16; 17; 18; 19; 20; 21; 22; 23; 24; 25; 26; 27; 28; 29].
Definition nv_var : var := mkVar (Some dt_DOMAIN) [114; 119] (Some (PBytes [1; 2; 3])) (Some (PBytes nv_data)).
Definition nv_dict : dict := [(0x2000, OVar nv_var); (0x2001, OVar (mkVar (Some dt_UNSIGNED16) [114; 119] None None))].
Definition nv_rcb : Z -> Z -> option pyval := fun _ _ => None.
Definition nv_hist : list frame :=
  [[0x60; 0; 0; 0; 0; 0; 0; 0]; [0xE0]; [0x40; 0; 0x20]; [0x40; 0; 0x20; 0; 0; 0; 0; 0]; [0x70; 0; 0; 0; 0; 0; 0; 0];
   [0x60; 0; 0; 0; 0; 0; 0; 0]; [0xC0; 1; 0x20; 0; 0; 0; 0; 0]; [0x80; 0; 0x20; 0; 0; 0; 4; 5]; [0x80; 0; 0x20];
   [0x2F; 1; 0x20; 0; 9; 0; 0; 0]; [0x2B; 1; 0x20; 0; 9; 1; 0; 0]].
