(* Tie (c) for C06: the refusal logic of LocalNode._find_object / get_data / set_data and of SdoServer.on_request /
   segmented_download / abort as translated from the CURRENT source text (Gen/SrcC06.v, tools/tables/src_c06.py)
   determines the model functions of Model/SdoServer.v: which abort code is raised under which condition and in which
   ORDER, that a refusal happens before any callback / store / state change, which handler a command specifier
   selects, and what abort() packs. *)
From Coq Require Import ZArith List Bool Lia.
From CV Require Import Base.Val Base.Bytes Base.Tys Gen.Tables Gen.SdoTables Gen.SrcC06 Model.Codec Model.RefClient
  Model.SdoServer Proofs.SdoServer_proofs.
Import ListNotations.
Open Scope Z_scope.

Definition code_of {A} (r : res A) : Z := match r with Ok _ => 0 | Abort c => c | Err _ => -1 end.
Definition osome6 {A} (o : option A) : bool := match o with Some _ => true | None => false end.

(* what the skeleton of _find_object reads *)
Definition has_index (d : dict) (idx : Z) : bool := osome6 (zassoc idx d).
Definition is_var (d : dict) (idx : Z) : bool := match zassoc idx d with Some (OVar _) => true | _ => false end.
(* `subindex in obj` for records (membership) and arrays (Mapping.__contains__ through ODArray.__getitem__) *)
Definition has_sub (d : dict) (idx sub : Z) : bool :=
  match zassoc idx d with
  | Some (ORec subs) => osome6 (zassoc sub subs)
  | Some (OArr subs) => osome6 (zassoc sub subs) || ((0 <? sub) && (sub <? 256) && osome6 (zassoc 1 subs))
  | _ => false
  end.

Theorem src_find_object_eq d idx sub :
  code_of (find_object d idx sub) = src_find_object (has_index d idx) (is_var d idx) (has_sub d idx sub) sub /\
  (forall k, find_object d idx sub <> Err k).
Proof.
  split; [|apply find_object_not_err].
  unfold find_object, src_find_object, has_index, is_var, has_sub.
  destruct (zassoc idx d) as [[v|subs|subs]|]; cbn [osome6 negb].
  - destruct (sub =? 0); reflexivity.
  - destruct (zassoc sub subs); reflexivity.
  - destruct (zassoc sub subs); cbn [osome6 orb negb]; [reflexivity|].
    destruct ((0 <? sub) && (sub <? 256)); cbn [andb]; [destruct (zassoc 1 subs)|]; reflexivity.
  - reflexivity.
Qed.

Lemma find_abort_nonzero d idx sub c : find_object d idx sub = Abort c -> c <> 0.
Proof.
  unfold find_object.
  destruct (zassoc idx d) as [[v|subs|subs]|]; [destruct (sub =? 0)|destruct (zassoc sub subs)|destruct (zassoc sub subs)|];
    try discriminate; try (intros [= <-]; discriminate).
  destruct ((0 <? sub) && (sub <? 256)); [destruct (zassoc 1 subs)|]; try discriminate; intros [= <-]; discriminate.
Qed.

(* the value that source number [src] supplies *)
Definition value_from (rcb : Z -> Z -> option pyval) (st : sstate) (idx sub : Z) (v : var) (src : Z) : res (list Z) :=
  if src =? 1 then match rcb idx sub with Some r => encode_raw (v_dt v) r | None => Err E_FUEL end
  else if src =? 2 then match store_get (s_store st) idx sub with Some b => Ok b | None => Err E_FUEL end
  else if src =? 3 then match v_value v with Some x => encode_raw (v_dt v) x | None => Err E_FUEL end
  else match v_default v with Some x => encode_raw (v_dt v) x | None => Err E_FUEL end.

Theorem src_get_data_eq d rcb st idx sub chk :
  match find_object d idx sub with
  | Ok v =>
      let '(code, src, cbrun) :=
        src_get_data 0 chk (readable v) (osome6 (rcb idx sub)) (osome6 (store_get (s_store st) idx sub))
                     (osome6 (v_value v)) (osome6 (v_default v)) false in
      get_data d rcb st idx sub chk =
        (if cbrun then log_ev st (EvR idx sub) else st,
         if code =? 0 then value_from rcb st idx sub v src else Abort code)
  | Abort c =>
      get_data d rcb st idx sub chk = (st, Abort c) /\
      forall r h s a b, src_get_data c chk r h s a b false = (c, 0, false)
  | Err _ => False
  end.
Proof.
  pose proof (find_object_not_err d idx sub) as NE. pose proof (find_abort_nonzero d idx sub) as NZ.
  unfold get_data, src_get_data, value_from.
  destruct (find_object d idx sub) as [v|k|c].
  - cbn [Z.eqb negb]. destruct (chk && negb (readable v)); [reflexivity|].
    destruct (rcb idx sub); cbn [osome6]; [reflexivity|].
    destruct (store_get (s_store st) idx sub); cbn [osome6 negb]; [reflexivity|].
    destruct (v_value v); cbn [osome6]; [reflexivity|].
    destruct (v_default v); reflexivity.
  - exact (NE k eq_refl).
  - split; [reflexivity|]. intros. specialize (NZ c eq_refl).
    replace (c =? 0) with false by lia. reflexivity.
Qed.

Definition dt_or (v : var) : Z := match v_dt v with Some t => t | None => -1 end.

Theorem src_set_data_eq d st idx sub data chk :
  match find_object d idx sub with
  | Ok v =>
      let '(code, stored, cbrun, cbfirst) :=
        src_set_data 0 chk (writable v) (dt_or v) (zlen data) (len_bits (v_dt v)) 0 false false false in
      set_data d st idx sub data chk =
        (if code =? 0 then (store_put (log_ev st (EvW idx sub data)) idx sub data, Ok tt) else (st, Abort code)) /\
      (if code =? 0 then stored = true /\ cbrun = true /\ cbfirst = true else stored = false /\ cbrun = false)
  | Abort c =>
      set_data d st idx sub data chk = (st, Abort c) /\
      forall w t n l, src_set_data c chk w t n l 0 false false false = (c, false, false, false)
  | Err _ => False
  end.
Proof.
  pose proof (find_object_not_err d idx sub) as NE. pose proof (find_abort_nonzero d idx sub) as NZ.
  assert (M1 : zmem (-1) NUMBER_TYPES = false) by (vm_compute; reflexivity).
  unfold set_data, check_set, src_set_data, is_number, dt_or.
  destruct (find_object d idx sub) as [v|k|c]; cbn [rbind].
  - cbn [Z.eqb negb]. destruct (chk && negb (writable v)); [split; [reflexivity|split; reflexivity]|].
    destruct (v_dt v) as [t|].
    + destruct (zmem t NUMBER_TYPES && negb (8 * zlen data =? len_bits (Some t)));
        (split; [reflexivity|repeat split; reflexivity]).
    + rewrite M1. cbn [andb]. split; [reflexivity|repeat split; reflexivity].
  - exact (NE k eq_refl).
  - split; [reflexivity|]. intros. specialize (NZ c eq_refl).
    replace (c =? 0) with false by lia. reflexivity.
Qed.

(* on_request: the handler selected by the command specifier; the except clauses (pinned by their source text in
   tools/tables/src_c06.py) turn SdoAbortedError(code) into abort(code), KeyError into abort(0x06020000) and anything
   else into abort() = abort(src_abort_default) *)
Theorem src_dispatch_eq d rcb st c rest :
  on_request d rcb st (c :: rest) =
  let h := src_dispatch c 0 in
  let '(st1, r) :=
    if h =? 1 then init_upload d rcb st (c :: rest)
    else if h =? 2 then segmented_upload st c
    else if h =? 3 then init_download d st (c :: rest)
    else if h =? 4 then segmented_download d st c (c :: rest)
    else if h =? 5 then (if src_block_upload 0 =? 1 then init_upload d rcb st (c :: rest) else (st, Err E_FUEL))
    else if h =? 6 then (st, Abort (src_block_download 0))
    else if h =? 7 then request_aborted st (c :: rest)
    else (st, Abort 0x05040001) in
  match r with
  | Ok rs => (st1, rs, false)
  | Abort code => do_abort st1 code
  | Err k => do_abort st1 (if k =? E_KEY then 0x06020000 else src_abort_default)
  end.
Proof.
  unfold on_request, src_dispatch. cbv zeta.
  destruct (Z.land c 224 =? REQUEST_UPLOAD); [reflexivity|].
  destruct (Z.land c 224 =? REQUEST_SEGMENT_UPLOAD); [reflexivity|].
  destruct (Z.land c 224 =? REQUEST_DOWNLOAD); [reflexivity|].
  destruct (Z.land c 224 =? REQUEST_SEGMENT_DOWNLOAD); [reflexivity|].
  destruct (Z.land c 224 =? REQUEST_BLOCK_UPLOAD); [reflexivity|].
  destruct (Z.land c 224 =? REQUEST_BLOCK_DOWNLOAD); [reflexivity|].
  destruct (Z.land c 224 =? REQUEST_ABORTED); reflexivity.
Qed.

Lemma check_set_abort_nonzero d i s data chk c : check_set d i s data chk = Abort c -> c <> 0.
Proof.
  unfold check_set. pose proof (find_abort_nonzero d i s) as F.
  destruct (find_object d i s) as [v|k'|c']; cbn [rbind]; [|discriminate|intros [= <-]; apply F; reflexivity].
  destruct (chk && negb (writable v)); [intros [= <-]; discriminate|].
  destruct (is_number v && negb (8 * zlen data =? len_bits (v_dt v))); [intros [= <-]; discriminate|discriminate].
Qed.

(* segmented_download: the toggle check comes first and leaves the whole state alone; otherwise the buffer is extended by
   request[1:last_byte] BEFORE set_data is asked (only on the last segment), and toggle / response follow only on success *)
Theorem src_segmented_download_eq d st command req buf : s_buf st = Some buf ->
  let lb := 8 - Z.land (Z.shiftr command 1) 7 in
  let buf1 := buf ++ firstn (Z.to_nat (lb - 1)) (skipn 1 req) in
  let st1 := set_buf st (Some buf1) (s_toggle st) in
  let sd := set_data d st1 (s_index st) (s_sub st) buf1 true in
  let '(code, extended, last_byte, setcalled, resc, tg) :=
    src_segmented_download command (s_toggle st) (code_of (snd sd)) false false in
  if negb extended then code = 0x05030000 /\ segmented_download d st command req = (st, Abort code)
  else last_byte = lb /\
       if code =? 0 then
         let st2 := if setcalled then fst sd else st1 in
         segmented_download d st command req = (set_buf st2 (s_buf st2) tg, Ok [[resc; 0; 0; 0; 0; 0; 0; 0]])
       else setcalled = true /\ segmented_download d st command req = (fst sd, Abort code).
Proof.
  intros Hb. cbv zeta. unfold src_segmented_download, segmented_download. rewrite Hb.
  destruct (negb (Z.land command TOGGLE_BIT =? s_toggle st)); cbv beta iota zeta; cbn [negb]; [split; reflexivity|].
  destruct (negb (Z.land command NO_MORE_DATA =? 0)); cbv beta iota zeta; cbn [negb]; [|split; reflexivity].
  unfold set_data.
  pose proof (check_set_not_err d (s_index st) (s_sub st)
                (buf ++ firstn (Z.to_nat (8 - Z.land (Z.shiftr command 1) 7 - 1)) (skipn 1 req)) true) as NE.
  pose proof (check_set_abort_nonzero d (s_index st) (s_sub st)
                (buf ++ firstn (Z.to_nat (8 - Z.land (Z.shiftr command 1) 7 - 1)) (skipn 1 req)) true) as NZ.
  destruct (check_set d (s_index st) (s_sub st)
              (buf ++ firstn (Z.to_nat (8 - Z.land (Z.shiftr command 1) 7 - 1)) (skipn 1 req)) true) as [v|k|c].
  - cbn [snd fst code_of Z.eqb negb]. cbv beta iota zeta. cbn [negb Z.eqb]. split; reflexivity.
  - exfalso. exact (NE k eq_refl).
  - cbn [snd fst code_of]. specialize (NZ c eq_refl). replace (c =? 0) with false by lia. cbn [negb]. cbv beta iota zeta.
    cbn [negb]. replace (c =? 0) with false by lia.
    split; [reflexivity|]. split; reflexivity.
Qed.

(* abort(): command byte 0x80, the multiplexer of the running transfer, the code, packed as <BHBL, and sent *)
Theorem src_abort_frame_eq st code :
  0 <= s_index st < 65536 -> 0 <= s_sub st < 256 -> 0 <= code < 2 ^ 32 ->
  let '(b0, i, s, c, sent) := src_abort_frame (s_index st) (s_sub st) code false in
  abort_frame st code = Some (b0 :: le_encode 2 i ++ [s] ++ le_encode 4 c) /\ sent = true /\
  do_abort st code = (st, [abort_frame_of (s_index st) (s_sub st) code], false).
Proof.
  intros Hi Hs Hc. unfold src_abort_frame. split; [|split; [reflexivity|apply (do_abort_eq (fun _ _ => None)); assumption]].
  unfold abort_frame.
  replace ((0 <=? s_index st) && (s_index st <? 65536) && (0 <=? s_sub st) && (s_sub st <? 256) &&
           (0 <=? code) && (code <? 2 ^ 32)) with true by lia.
  reflexivity.
Qed.
