(* Proofs about Model/BlockDl.v, Model/BlockUl.v against Model/RefBlockServer.v (C12, C13). *)
From Coq Require Import ZArith List Bool Lia ZifyBool Arith.
From CV Require Import Base.Val Base.Bytes Gen.SdoTables Model.Crc Model.RefBlockServer Model.BlockDl Model.BlockUl
  Proofs.Crc_proofs.
Import ListNotations.
Open Scope Z_scope.
Ltac Zify.zify_post_hook ::= Z.to_euclidean_division_equations.

(* ------------------------------------------------------------------ small helpers *)
Lemma range_forall (p : Z -> bool) (lo : Z) (n : nat) :
  forallb p (map (fun i => lo + Z.of_nat i) (seq 0 n)) = true ->
  forall x, lo <= x < lo + Z.of_nat n -> p x = true.
Proof.
  intros H x Hx. rewrite forallb_forall in H. apply H.
  apply in_map_iff. exists (Z.to_nat (x - lo)). split; [lia|]. apply in_seq. lia.
Qed.

(* command-byte facts for sequence numbers 1..127 *)
Definition seq_facts (x : Z) : bool :=
  (Z.land x 127 =? x) && negb (Z.testbit x 7) && negb (x =? 128) &&
  (Z.lor x 128 =? x + 128) && (Z.land (x + 128) 127 =? x) && Z.testbit (x + 128) 7 && negb (x + 128 =? 128) &&
  (Z.land x 128 =? 0) && negb (Z.land (x + 128) 128 =? 0).

Lemma seq_facts_ok x : 1 <= x <= 127 -> seq_facts x = true.
Proof. intros H. apply (range_forall seq_facts 1 127); [vm_compute; reflexivity | lia]. Qed.

Lemma seq_bits x : 1 <= x <= 127 ->
  Z.land x 127 = x /\ Z.testbit x 7 = false /\ (x =? 128) = false /\ Z.lor x 128 = x + 128 /\
  Z.land (x + 128) 127 = x /\ Z.testbit (x + 128) 7 = true /\ (x + 128 =? 128) = false /\
  Z.land x 128 = 0 /\ (Z.land (x + 128) 128 =? 0) = false.
Proof.
  intros H. pose proof (seq_facts_ok x H) as F. unfold seq_facts in F.
  repeat (apply andb_prop in F; destruct F as [F ?]).
  repeat split; try lia.
  - destruct (Z.testbit x 7); [discriminate|reflexivity].
  - destruct (Z.testbit (x + 128) 7); [reflexivity|discriminate].
Qed.

Lemma zlen_app {A} (a b : list A) : zlen (a ++ b) = zlen a + zlen b.
Proof. unfold zlen. rewrite app_length. lia. Qed.

Lemma zlen_nonneg {A} (l : list A) : 0 <= zlen l.
Proof. unfold zlen. lia. Qed.

Lemma zlen_cons {A} (a : A) l : zlen (a :: l) = 1 + zlen l.
Proof. unfold zlen. cbn [length]. lia. Qed.

Lemma pad8_full (l : list Z) : length l = 8%nat -> pad8 l = l.
Proof. intros H. unfold pad8. rewrite H. cbn. apply app_nil_r. Qed.

Lemma pad8_length (l : list Z) : (length l <= 8)%nat -> length (pad8 l) = 8%nat.
Proof. intros H. unfold pad8. rewrite app_length, repeat_length. lia. Qed.

Lemma pad8_cons c (d : list Z) : (length d <= 7)%nat -> pad8 (c :: d) = c :: d ++ repeat 0 (7 - length d).
Proof. intros H. unfold pad8. cbn [length app]. replace (8 - S (length d))%nat with (7 - length d)%nat by lia. reflexivity. Qed.

(* ------------------------------------------------------------------ fault injector with lost client frames only *)
Definition only_dropc (faults : list fault) : Prop :=
  Forall (fun f => match f with FDropC _ => True | _ => False end) faults.

Lemma mangle1_dropc faults j frs : only_dropc faults -> mangle1 faults j frs = frs.
Proof.
  induction 1 as [|f r Hf Hr IH]; cbn [mangle1]; [reflexivity|].
  destruct f; try contradiction. exact IH.
Qed.

Lemma mangle_dropc faults ns outs : only_dropc faults -> mangle faults ns outs = outs.
Proof.
  intros H. revert ns. induction outs as [|fr r IH]; intros ns; cbn [mangle]; [reflexivity|].
  rewrite mangle1_dropc by assumption. rewrite IH. reflexivity.
Qed.

Lemma faulty_dropc {S} (srv : S -> bool -> frame -> S * list frame) s nc ns faults fr s' outs :
  only_dropc faults ->
  srv s (lostb faults (nc + 1)) fr = (s', outs) ->
  faulty srv (mkfs s nc ns faults) fr = (mkfs s' (nc + 1) (ns + zlen outs) faults, outs).
Proof.
  intros Hf Hs. unfold faulty. cbn [f_inner f_nc f_ns f_faults]. rewrite Hs.
  rewrite mangle_dropc by assumption. reflexivity.
Qed.

(* =====================================================================================
   C12: block download against the reference server
   ===================================================================================== *)
Section Download.
  (* static parameters of one transfer *)
  Context (P : list Z) (faults : list fault) (crc_en cc : bool) (mux : list Z)
          (store0 : option (list Z)) (bad0 : Z) (aborted0 : bool).
  Context (Hfaults : only_dropc faults).

  Notation sys := (faulty dl_srv).
  Notation NetD := (@net (fstate dsrv)).

  (* client and server in the sub-block phase, and the network between them (queue empty) *)
  Definition CL (pos seqno crc : Z) (cur : list (list Z)) (retx : bool) (B : Z) : dl :=
    mkdl (Some (zlen P)) pos false seqno crc 0 cur retx B crc_en false.
  Definition SV (blks : list Z) (B j0 : Z) (buf sbase : list Z) (lost : bool) : dsrv :=
    mkds 1 blks crc_en cc true (zlen P) mux B j0 buf sbase false lost store0 bad0 aborted0.
  Definition NW (sv : dsrv) (nc ns : Z) (log : list frame) : NetD := mknet (mkfs sv nc ns faults) [] log.

  (* ---- the server on a segment frame ---- *)
  Lemma srv_segment blks B j0 buf sbase lost l seq (last : bool) data :
    1 <= seq <= 127 -> (length data <= 7)%nat ->
    let accept := negb l && (seq =? j0 + 1) && negb lost in
    let j1 := if accept then seq else j0 in
    let buf1 := if accept then buf ++ data ++ repeat 0 (7 - length data) else buf in
    (accept || l || lost = true) ->
    dl_srv (SV blks B j0 buf sbase lost) l (pad8 ((seq + (if last then 128 else 0)) :: data)) =
    if (seq =? B) || last then
      (mkds (if (if accept then last else false) && (j1 =? seq) then 2 else 1)
            (snd (next_blk blks)) crc_en cc true (zlen P) mux (fst (next_blk blks)) 0 [] (sbase ++ buf1)
            ((if accept then last else false) && (j1 =? seq)) false store0 bad0 aborted0,
       [[162; j1; fst (next_blk blks); 0; 0; 0; 0; 0]])
    else
      (SV blks B j1 buf1 sbase (if accept then lost else true), []).
  Proof.
    intros Hseq Hd accept j1 buf1 Hbad.
    destruct (seq_bits seq Hseq) as (L127 & T7 & N128 & LOR & L127' & T7' & N128' & _).
    unfold dl_srv. rewrite pad8_length by (cbn [length]; lia). cbn [Nat.eqb negb].
    rewrite pad8_cons by assumption. unfold fb. cbn [nth SV ds_state Z.eqb Pos.eqb].
    assert (Hfirst : firstn 7 (skipn 1 ((seq + (if last then 128 else 0)) :: data ++ repeat 0 (7 - length data)))
                     = data ++ repeat 0 (7 - length data)).
    { cbn [skipn]. apply firstn_all2. rewrite app_length, repeat_length. lia. }
    assert (Hcmd : (seq + (if last then 128 else 0) =? 128) = false) by (destruct last; lia).
    rewrite Hcmd. unfold ds_segment, fb. cbn [nth ds_ackseq ds_lost ds_buf ds_lastflag ds_bad ds_blksize ds_blks
      ds_crc_en ds_cc ds_sizeind ds_size ds_mux ds_committed ds_store ds_aborted SV].
    rewrite Hfirst.
    assert (Hl : Z.land (seq + (if last then 128 else 0)) 127 = seq) by (destruct last; [assumption|now rewrite Z.add_0_r]).
    assert (Ht : Z.testbit (seq + (if last then 128 else 0)) 7 = last) by (destruct last; [assumption|now rewrite Z.add_0_r]).
    rewrite Hl, Ht. fold accept.
    assert (Hb : (if accept || l || lost then bad0 else bad1 bad0 BAD_SEQ) = bad0) by (rewrite Hbad; reflexivity).
    rewrite Hb.
    destruct (next_blk blks) as [nb blks'] eqn:Enb. cbn [fst snd].
    destruct ((seq =? B) || last) eqn:Eend.
    - fold j1 buf1. reflexivity.
    - apply orb_false_elim in Eend. destruct Eend as [_ El]. subst last.
      unfold SV. fold j1 buf1. destruct accept; reflexivity.
  Qed.

  Lemma send_request_NW sv nc ns log fr sv' outs :
    dl_srv sv (lostb faults (nc + 1)) fr = (sv', outs) ->
    send_request sys (NW sv nc ns log) fr =
    mknet (mkfs sv' (nc + 1) (ns + zlen outs) faults) outs (rev (map (cons 1) outs) ++ (0 :: fr) :: log).
  Proof.
    intros H. unfold send_request, NW. cbn [n_srv n_q n_log].
    rewrite (faulty_dropc dl_srv sv nc ns faults fr sv' outs Hfaults H). reflexivity.
  Qed.

  Lemma eqb_succ a b : (a + 1 =? b + 1) = (a =? b).
  Proof. destruct (a =? b) eqn:E; lia. Qed.

  (* did the server take the segment with number seqno + 1 ? *)
  Definition acc (l lost : bool) (seqno j0 : Z) : bool := negb l && (seqno =? j0) && negb lost.

  (* ---- send(): a full segment that does not complete the sub-block ---- *)
  Lemma send_mid rec pos seqno crc cur retx B blks j0 buf sbase lost nc ns log chunk :
    0 <= seqno -> seqno + 1 < B -> B <= 127 -> length chunk = 7%nat ->
    let l := lostb faults (nc + 1) in
    let a := acc l lost seqno j0 in
    (a || l || lost = true) ->
    exists log',
    send sys rec (CL pos seqno crc cur retx B) (NW (SV blks B j0 buf sbase lost) nc ns log) chunk false =
    (Ok tt,
     CL (pos + 7) (seqno + 1) (if crc_en && negb retx then crc_from crc chunk else crc) (cur ++ [chunk]) retx B,
     NW (SV blks B (if a then seqno + 1 else j0) (if a then buf ++ chunk else buf) sbase (if a then lost else true))
        (nc + 1) ns log').
  Proof.
    intros H0 H1 H2 Hc l a Hbad.
    unfold send. cbn [CL d_seqno d_done d_blksize d_last d_crcsup d_retx d_crc d_size d_pos d_cur d_closed].
    pose proof (srv_segment blks B j0 buf sbase lost l (seqno + 1) false chunk ltac:(lia) ltac:(lia)) as Hs.
    cbn zeta in Hs. rewrite eqb_succ in Hs. fold (acc l lost seqno j0) in Hs. fold a in Hs.
    specialize (Hs Hbad). rewrite Z.add_0_r in Hs.
    replace ((seqno + 1 =? B) || false) with false in Hs by lia.
    rewrite Hc, Nat.sub_diag in Hs. cbn [repeat] in Hs. rewrite app_nil_r in Hs.
    rewrite (send_request_NW _ nc ns log _ _ _ Hs).
    replace (B <=? seqno + 1) with false by lia.
    eexists. unfold NW, CL. cbn [zlen length]. rewrite Z.add_0_r.
    replace (zlen chunk) with 7 by (unfold zlen; rewrite Hc; reflexivity).
    reflexivity.
  Qed.

  (* ---- _block_ack on the acknowledge the server has just queued ---- *)
  Lemma block_ack_read rec c (fs : fstate dsrv) log j1 nb :
    block_ack sys rec c (mknet fs [[162; j1; nb; 0; 0; 0; 0; 0]] log) =
    if negb (j1 =? d_blksize c) then retransmit rec c (mknet fs [] log) j1 nb
    else (Ok tt, mkdl (d_size c) (d_pos c) (d_done c) 0 (d_crc c) (d_last c) [] (d_retx c) nb (d_crcsup c) (d_closed c),
          mknet fs [] log).
  Proof. reflexivity. Qed.

  (* ---- send(): a full segment that completes the sub-block (not the last segment) ---- *)
  Lemma send_edge rec pos seqno crc cur retx B blks j0 buf sbase lost nc ns log chunk :
    0 <= j0 <= seqno -> seqno + 1 = B -> B <= 127 -> length chunk = 7%nat ->
    let l := lostb faults (nc + 1) in
    let a := acc l lost seqno j0 in
    (a || l || lost = true) ->
    let crc' := if crc_en && negb retx then crc_from crc chunk else crc in
    let nb := fst (next_blk blks) in
    let blks' := snd (next_blk blks) in
    exists log',
    send sys rec (CL pos seqno crc cur retx B) (NW (SV blks B j0 buf sbase lost) nc ns log) chunk false =
    if a then
      (Ok tt, CL (pos + 7) 0 crc' [] retx nb, NW (SV blks' nb 0 [] (sbase ++ buf ++ chunk) false) (nc + 1) (ns + 1) log')
    else
      retransmit rec (CL (pos + 7) B crc' (cur ++ [chunk]) retx B)
                 (NW (SV blks' nb 0 [] (sbase ++ buf) false) (nc + 1) (ns + 1) log') j0 nb.
  Proof.
    intros H0 H1 H2 Hc l a Hbad crc' nb blks'.
    unfold send. cbn [CL d_seqno d_done d_blksize d_last d_crcsup d_retx d_crc d_size d_pos d_cur d_closed].
    pose proof (srv_segment blks B j0 buf sbase lost l (seqno + 1) false chunk ltac:(lia) ltac:(lia)) as Hs.
    cbn zeta in Hs. rewrite eqb_succ in Hs. fold (acc l lost seqno j0) in Hs. fold a in Hs.
    specialize (Hs Hbad). rewrite Z.add_0_r in Hs.
    replace ((seqno + 1 =? B) || false) with true in Hs by lia.
    rewrite Hc, Nat.sub_diag in Hs. cbn [repeat] in Hs. rewrite app_nil_r in Hs.
    fold nb blks' in Hs.
    replace ((if a then false else false) && ((if a then seqno + 1 else j0) =? seqno + 1)) with false in Hs
      by (destruct a; reflexivity).
    rewrite (send_request_NW _ nc ns log _ _ _ Hs).
    replace (B <=? seqno + 1) with true by lia.
    rewrite block_ack_read. cbn [d_blksize d_size d_pos d_done d_crc d_last d_retx d_crcsup d_closed].
    fold crc'.
    replace (zlen chunk) with 7 by (unfold zlen; rewrite Hc; reflexivity).
    replace (zlen [[162; (if a then seqno + 1 else j0); nb; 0; 0; 0; 0; 0]]) with 1 by reflexivity.
    destruct a.
    - replace (negb (seqno + 1 =? B)) with false by lia. eexists. unfold CL, NW, SV. reflexivity.
    - replace (negb (j0 =? B)) with true by lia. eexists. unfold CL, NW, SV. rewrite H1. reflexivity.
  Qed.

  (* the states after the segment with the c bit has been acknowledged *)
  Definition CLF (pos crc last : Z) (retx : bool) (B : Z) : dl :=
    mkdl (Some (zlen P)) pos true 0 crc last [] retx B crc_en false.
  Definition SVF (blks : list Z) (B : Z) (committed : list Z) : dsrv :=
    mkds 2 blks crc_en cc true (zlen P) mux B 0 [] committed true false store0 bad0 aborted0.

  (* ---- send(): the last segment ---- *)
  Lemma send_last rec pos seqno crc cur retx B blks j0 buf sbase lost nc ns log data :
    0 <= j0 <= seqno -> seqno + 1 <= 127 -> (length data <= 7)%nat ->
    let l := lostb faults (nc + 1) in
    let a := acc l lost seqno j0 in
    (a || l || lost = true) ->
    let crc' := if crc_en && negb retx then crc_from crc data else crc in
    let nb := fst (next_blk blks) in
    let blks' := snd (next_blk blks) in
    exists log',
    send sys rec (CL pos seqno crc cur retx B) (NW (SV blks B j0 buf sbase lost) nc ns log) data true =
    if a then
      (Ok tt, CLF (pos + zlen data) crc' (zlen data) retx nb,
       mknet (mkfs (SVF blks' nb (sbase ++ buf ++ data ++ repeat 0 (7 - length data))) (nc + 1) (ns + 1) faults) [] log')
    else
      retransmit rec (mkdl (Some (zlen P)) (pos + zlen data) true (seqno + 1) crc' (zlen data) (cur ++ [data]) retx
                               (seqno + 1) crc_en false)
                 (NW (SV blks' nb 0 [] (sbase ++ buf) false) (nc + 1) (ns + 1) log') j0 nb.
  Proof.
    intros H0 H2 Hc l a Hbad crc' nb blks'.
    unfold send. cbn [CL d_seqno d_done d_blksize d_last d_crcsup d_retx d_crc d_size d_pos d_cur d_closed].
    destruct (seq_bits (seqno + 1) ltac:(lia)) as (_ & _ & _ & LOR & _).
    change NO_MORE_BLOCKS with 128. rewrite LOR.
    pose proof (srv_segment blks B j0 buf sbase lost l (seqno + 1) true data ltac:(lia) Hc) as Hs.
    cbn zeta in Hs. rewrite eqb_succ in Hs. fold (acc l lost seqno j0) in Hs. fold a in Hs.
    specialize (Hs Hbad). rewrite orb_true_r in Hs. fold nb blks' in Hs.
    rewrite (send_request_NW _ nc ns log _ _ _ Hs).
    replace (seqno + 1 <=? seqno + 1) with true by lia.
    rewrite block_ack_read. cbn [d_blksize d_size d_pos d_done d_crc d_last d_retx d_crcsup d_closed].
    fold crc'.
    replace (zlen [[162; (if a then seqno + 1 else j0); nb; 0; 0; 0; 0; 0]]) with 1 by reflexivity.
    destruct a.
    - replace (negb (seqno + 1 =? seqno + 1)) with false by lia.
      replace (true && (seqno + 1 =? seqno + 1)) with true by lia.
      eexists. unfold CLF, SVF. reflexivity.
    - replace (negb (j0 =? seqno + 1)) with true by lia. cbn [andb]. eexists. unfold NW, SV. reflexivity.
  Qed.

  (* ---- write(): which send() it performs ---- *)
  Lemma write_body_mid rec pos seqno crc cur retx B w b :
    zlen (firstn 7 b) = 7 -> pos + 7 < zlen P ->
    write_body sys rec (CL pos seqno crc cur retx B) w b =
    match send sys rec (CL pos seqno crc cur retx B) w (firstn 7 b) false with
    | (Ok _, c', w') => (Ok (Some 7), c', w')
    | (Err k, c', w') => (Err k, c', w')
    | (Abort a, c', w') => (Abort a, c', w')
    end.
  Proof.
    intros H7 Hp. unfold write_body. cbn [CL d_done d_size d_pos]. rewrite H7.
    replace (zlen P <=? pos + 7) with false by lia. replace (7 <? 7) with false by lia. reflexivity.
  Qed.

  Lemma write_body_end rec pos seqno crc cur retx B w b :
    zlen P <= pos + zlen (firstn 7 b) ->
    write_body sys rec (CL pos seqno crc cur retx B) w b =
    match send sys rec (CL pos seqno crc cur retx B) w (firstn 7 b) true with
    | (Ok _, c', w') => (Ok (Some (zlen (firstn 7 b))), c', w')
    | (Err k, c', w') => (Err k, c', w')
    | (Abort a, c', w') => (Abort a, c', w')
    end.
  Proof.
    intros Hp. unfold write_body. cbn [CL d_done d_size d_pos].
    replace (zlen P <=? pos + zlen (firstn 7 b)) with true by lia. reflexivity.
  Qed.

  (* ---- block sizes announced by a conformant server ---- *)
  Definition blks_ok (blks : list Z) : Prop := blks <> [] /\ Forall (fun b => 1 <= b <= 127) blks.

  Lemma next_blk_ok blks : blks_ok blks ->
    1 <= fst (next_blk blks) <= 127 /\ blks_ok (snd (next_blk blks)).
  Proof.
    intros [Hne Hall]. destruct blks as [|a [|b r]]; [contradiction| |]; cbn [next_blk fst snd].
    - inversion Hall; subst. split; [assumption|]. split; [discriminate|assumption].
    - inversion Hall; subst. split; [assumption|]. split; [discriminate|assumption].
  Qed.

  Lemma len7_zlen (l : list Z) : length l = 7%nat -> zlen l = 7.
  Proof. intros H. unfold zlen. rewrite H. reflexivity. Qed.

  Lemma firstn7_full (rest : list Z) : (7 <= length rest)%nat -> length (firstn 7 rest) = 7%nat.
  Proof. intros H. rewrite firstn_length. lia. Qed.

  (* final configuration reached by an accepted last segment: what close() and the server need *)
  Definition final_cfg (retx : bool) (nc0 : Z) (c : dl) (w : NetD) : Prop :=
    exists (data : list Z) crc nb blks' nc ns log,
      (1 <= length data <= 7)%nat /\ nc0 <= nc /\
      c = CLF (zlen P) crc (zlen data) retx nb /\
      (crc_en = true -> retx = false -> crc = crc16 P) /\
      w = mknet (mkfs (SVF blks' nb (P ++ repeat 0 (7 - length data))) nc ns faults) [] log.

  Lemma final_cfg_weaken retx n0 n1 c w : n0 <= n1 -> final_cfg retx n1 c w -> final_cfg retx n0 c w.
  Proof.
    intros H (data & crc & nb & blks' & nc & ns & log & Hd & Hnc & Hc & Hcrc & Hw).
    exists data, crc, nb, blks', nc, ns, log. repeat split; try assumption; lia.
  Qed.

  Lemma ex_final_weaken retx n0 n1 (r : R unit) : n0 <= n1 ->
    (exists c' w', r = (Ok tt, c', w') /\ final_cfg retx n1 c' w') ->
    exists c' w', r = (Ok tt, c', w') /\ final_cfg retx n0 c' w'.
  Proof.
    intros H (c' & w' & Hr & Hf). exists c', w'. split; [exact Hr|]. exact (final_cfg_weaken retx n0 n1 c' w' H Hf).
  Qed.

  (* ---- the write-all loop when no further client frame is lost ---- *)
  Lemma write_all_clean : forall fuel depth rest pre cur seqno B blks sbase nc ns log crc,
    P = pre ++ rest -> rest <> [] -> (length rest <= fuel)%nat -> (1 <= depth)%nat ->
    sbase ++ concat cur = pre -> seqno = zlen cur -> seqno < B -> B <= 127 -> blks_ok blks ->
    Forall (fun ch => length ch = 7%nat) cur ->
    (forall k, nc < k -> lostb faults k = false) ->
    (crc_en = true -> crc = crc16 pre) ->
    exists c' w',
      write_all sys fuel depth (CL (zlen pre) seqno crc cur false B)
                (NW (SV blks B seqno (concat cur) sbase false) nc ns log) rest = (Ok tt, c', w') /\
      final_cfg false nc c' w'.
  Proof.
    induction fuel as [|f IH]; intros depth rest pre cur seqno B blks sbase nc ns log crc
      HP Hne Hfuel Hdepth Hpre Hseq HB HB127 Hblks Hcur Hclean Hcrc.
    { destruct rest; [contradiction|cbn in Hfuel; lia]. }
    destruct depth as [|d]; [lia|].
    assert (Hs0 : 0 <= seqno) by (subst seqno; apply zlen_nonneg).
    assert (Hl : lostb faults (nc + 1) = false) by (apply Hclean; lia).
    assert (Ha : acc false false seqno seqno = true) by (unfold acc; cbn; lia).
    destruct (next_blk_ok blks Hblks) as [Hnb Hblks'].
    destruct rest as [|x0 rest0] eqn:Erest; [contradiction|]. rewrite <- Erest in *.
    assert (Hwa : forall c w, write_all sys (S f) (S d) c w rest =
              match write_body sys (write sys d) c w rest with
              | (Ok (Some n), c', w') => write_all sys f (S d) c' w' (skipn (Z.to_nat n) rest)
              | (Ok None, c', w') => (Err E_IO, c', w')
              | (Err k, c', w') => (Err k, c', w')
              | (Abort a, c', w') => (Abort a, c', w')
              end).
    { intros c w. rewrite Erest. reflexivity. }
    rewrite Hwa. clear Hwa.
    assert (HlenP : zlen P = zlen pre + zlen rest) by (rewrite HP; apply zlen_app).
    destruct (Nat.le_gt_cases (length rest) 7) as [Hshort|Hlong].
    - (* the last segment *)
      assert (Hf : firstn 7 rest = rest) by (apply firstn_all2; assumption).
      rewrite write_body_end by (rewrite Hf; lia).
      rewrite Hf.
      destruct (send_last (write sys d) (zlen pre) seqno crc cur false B blks seqno (concat cur) sbase false nc ns log rest
                  ltac:(lia) ltac:(lia) Hshort) as [log' Hsend].
      { rewrite Hl. rewrite Ha. reflexivity. }
      rewrite Hl, Ha in Hsend. rewrite Hsend.
      replace (Z.to_nat (zlen rest)) with (length rest) by (unfold zlen; lia).
      rewrite skipn_all. destruct f; cbn [write_all].
      + eexists _, _. split; [reflexivity|].
        exists rest, (if crc_en && negb false then crc_from crc rest else crc),
          (fst (next_blk blks)), (snd (next_blk blks)), (nc + 1), (ns + 1), log'.
        split; [rewrite Erest in *; cbn [length] in *; lia|]. split; [lia|].
        split; [f_equal; lia|]. split.
        * intros He _. rewrite He. cbn [andb negb]. rewrite (Hcrc He), HP. symmetry. apply crc_from_app.
        * rewrite HP, <- Hpre. rewrite <- !app_assoc. reflexivity.
      + eexists _, _. split; [reflexivity|].
        exists rest, (if crc_en && negb false then crc_from crc rest else crc),
          (fst (next_blk blks)), (snd (next_blk blks)), (nc + 1), (ns + 1), log'.
        split; [rewrite Erest in *; cbn [length] in *; lia|]. split; [lia|].
        split; [f_equal; lia|]. split.
        * intros He _. rewrite He. cbn [andb negb]. rewrite (Hcrc He), HP. symmetry. apply crc_from_app.
        * rewrite HP, <- Hpre. rewrite <- !app_assoc. reflexivity.
    - (* a full segment, more to come *)
      pose proof (firstn7_full rest ltac:(lia)) as H7.
      set (chunk := firstn 7 rest) in *.
      assert (Hrest : rest = chunk ++ skipn 7 rest) by (symmetry; apply firstn_skipn).
      assert (Hne' : skipn 7 rest <> []).
      { intros E. apply (f_equal (@length Z)) in E. rewrite skipn_length in E. cbn in E. lia. }
      assert (Hz7 : zlen rest = 7 + zlen (skipn 7 rest)).
      { rewrite Hrest at 1. rewrite zlen_app, (len7_zlen chunk H7). reflexivity. }
      assert (Hpos : zlen pre + 7 < zlen P).
      { pose proof (zlen_nonneg (skipn 7 rest)). assert (zlen (skipn 7 rest) <> 0).
        { unfold zlen. destruct (skipn 7 rest); [contradiction|cbn; lia]. } lia. }
      rewrite write_body_mid by (first [apply len7_zlen; exact H7 | exact Hpos]).
      fold chunk.
      assert (Hcrc' : crc_en = true -> (if crc_en && negb false then crc_from crc chunk else crc) = crc16 (pre ++ chunk)).
      { intros He. rewrite He. cbn [andb negb]. rewrite (Hcrc He). symmetry. apply crc_from_app. }
      assert (HP' : P = (pre ++ chunk) ++ skipn 7 rest) by (rewrite <- app_assoc, <- Hrest; exact HP).
      assert (Hlen' : (length (skipn 7 rest) <= f)%nat) by (rewrite skipn_length; lia).
      destruct (Z.lt_ge_cases (seqno + 1) B) as [Hmid|Hedge].
      + destruct (send_mid (write sys d) (zlen pre) seqno crc cur false B blks seqno (concat cur) sbase false nc ns log chunk
                    Hs0 Hmid HB127 H7) as [log' Hsend].
        { rewrite Hl, Ha. reflexivity. }
        rewrite Hl, Ha in Hsend. rewrite Hsend.
        change (Z.to_nat 7) with 7%nat.
        replace (zlen pre + 7) with (zlen (pre ++ chunk)) by (rewrite zlen_app, (len7_zlen chunk H7); reflexivity).
        replace (concat cur ++ chunk) with (concat (cur ++ [chunk])) by (rewrite concat_app; cbn; now rewrite app_nil_r).
        apply (ex_final_weaken false nc (nc + 1)); [lia|].
        apply (IH (S d) (skipn 7 rest) (pre ++ chunk) (cur ++ [chunk]) (seqno + 1) B blks sbase (nc + 1) ns log'); try assumption; try lia.
        * rewrite concat_app. cbn [concat]. rewrite app_nil_r, app_assoc, Hpre. reflexivity.
        * rewrite zlen_app. cbn. lia.
        * apply Forall_app. split; [assumption|]. constructor; [assumption|constructor].
        * intros k Hk. apply Hclean. lia.
      + destruct (send_edge (write sys d) (zlen pre) seqno crc cur false B blks seqno (concat cur) sbase false nc ns log chunk
                    ltac:(lia) ltac:(lia) HB127 H7) as [log' Hsend].
        { rewrite Hl, Ha. reflexivity. }
        rewrite Hl, Ha in Hsend. rewrite Hsend.
        change (Z.to_nat 7) with 7%nat.
        replace (zlen pre + 7) with (zlen (pre ++ chunk)) by (rewrite zlen_app, (len7_zlen chunk H7); reflexivity).
        change (@nil Z) with (concat (@nil (list Z))).
        apply (ex_final_weaken false nc (nc + 1)); [lia|].
        apply (IH (S d) (skipn 7 rest) (pre ++ chunk) [] 0 (fst (next_blk blks)) (snd (next_blk blks))
                  (sbase ++ concat cur ++ chunk) (nc + 1) (ns + 1) log'); try assumption; try lia.
        * cbn [concat]. rewrite app_nil_r, app_assoc, Hpre. reflexivity.
        * reflexivity.
        * constructor.
        * intros k Hk. apply Hclean. lia.
  Qed.

  (* ---- __init__ against the idle server ---- *)
  Lemma dl_init_ok index sub crc_client blks :
    cc = crc_client && crc_en -> mux = [index mod 256; index / 256; sub] ->
    zlen P < 4294967296 -> lostb faults 1 = false ->
    exists log,
      dl_init sys (mknet (fs_init (mkds 0 blks crc_en false false 0 [] 0 0 [] [] false false store0 bad0 aborted0) faults) [] [])
              index sub (Some (zlen P)) crc_client =
      (Ok (CL 0 0 0 [] false (fst (next_blk blks))),
       NW (SV (snd (next_blk blks)) (fst (next_blk blks)) 0 [] [] false) 1 1 log).
  Proof.
    intros Hcc Hmux Hsz Hl1.
    pose proof (zlen_nonneg P) as HP0.
    unfold dl_init, size_ok. replace ((0 <=? zlen P) && (zlen P <? 4294967296)) with true by lia. cbn [negb].
    unfold request_response. cbn [n_q].
    unfold fs_init.
    set (req := dl_init_request index sub (Some (zlen P)) crc_client).
    assert (Hreq : req = [(if crc_client then 198 else 194); index mod 256; index / 256; sub] ++ le_encode 4 (zlen P)).
    { unfold req, dl_init_request. destruct crc_client; reflexivity. }
    assert (Hdec : le_decode (le_encode 4 (zlen P)) = zlen P).
    { rewrite le_decode_encode. apply Z.mod_small. change (2 ^ (8 * Z.of_nat 4)) with 4294967296. lia. }
    assert (Hsrv : dl_srv (mkds 0 blks crc_en false false 0 [] 0 0 [] [] false false store0 bad0 aborted0) (lostb faults (0 + 1)) req =
                   (SV (snd (next_blk blks)) (fst (next_blk blks)) 0 [] [] false,
                    [(160 + (if crc_en then 4 else 0)) :: mux ++ [fst (next_blk blks); 0; 0; 0]])).
    { change (0 + 1) with 1. rewrite Hl1. rewrite Hreq. unfold SV. rewrite Hcc, Hmux. cbn [le_encode app] in Hdec |- *.
      unfold dl_srv, fb.
      destruct crc_client; cbn -[Z.modulo Z.div le_decode zlen Z.add next_blk];
        destruct (next_blk blks) as [nb blks']; cbn [fst snd]; rewrite Hdec; reflexivity. }
    pose proof (send_request_NW _ 0 0 [] req _ _ Hsrv) as Hsend. unfold NW in Hsend.
    rewrite Hsend. clear Hsend.
    assert (Hidx : (index mod 256 + 256 * (index / 256) =? index) = true) by lia.
    unfold read_response. cbn [n_q n_srv n_log]. unfold fb at 1. cbn [nth].
    replace (160 + (if crc_en then 4 else 0) =? RESPONSE_ABORTED) with false by (destruct crc_en; reflexivity).
    cbv beta iota. unfold fb. rewrite Hmux. cbn [nth app].
    replace (Z.land (160 + (if crc_en then 4 else 0)) 224 =? RESPONSE_BLOCK_DOWNLOAD) with true by (destruct crc_en; reflexivity).
    rewrite Hidx, Z.eqb_refl. cbn [negb orb].
    replace (negb (Z.land (160 + (if crc_en then 4 else 0)) CRC_SUPPORTED =? 0)) with crc_en by (destruct crc_en; reflexivity).
    eexists. unfold CL, NW, SV. rewrite Hmux. reflexivity.
  Qed.

  (* ---- close(): the end request ---- *)
  Definition end_facts (k : Z) : bool :=
    (Z.lor (Z.lor REQUEST_BLOCK_DOWNLOAD END_BLOCK_TRANSFER) (Z.shiftl k 2) =? 193 + 4 * k) &&
    (Z.land (193 + 4 * k) 227 =? 193) && (Z.land (Z.shiftr (193 + 4 * k) 2) 7 =? k) && negb (193 + 4 * k =? 128).

  Lemma end_bits k : 0 <= k <= 7 ->
    Z.lor (Z.lor REQUEST_BLOCK_DOWNLOAD END_BLOCK_TRANSFER) (Z.shiftl k 2) = 193 + 4 * k /\
    Z.land (193 + 4 * k) 227 = 193 /\ Z.land (Z.shiftr (193 + 4 * k) 2) 7 = k /\ (193 + 4 * k =? 128) = false.
  Proof.
    intros H. pose proof (range_forall end_facts 0 8 ltac:(vm_compute; reflexivity) k ltac:(lia)) as F.
    unfold end_facts in F. repeat (apply andb_prop in F; destruct F as [F ?]). repeat split; lia.
  Qed.

  Lemma dl_close_ok nc0 c w : final_cfg false nc0 c w ->
    (cc = true -> crc_en = true) ->
    (forall nc, nc0 <= nc -> lostb faults (nc + 1) = false) ->
    exists w', dl_close sys c w = (Ok tt, w') /\
      ds_store (f_inner (n_srv w')) = Some P /\ ds_bad (f_inner (n_srv w')) = bad0.
  Proof.
    intros (data & crc & nb & blks' & nc & ns & log & Hd & Hnc & Hc & Hcrc & Hw) Hcc Hl.
    subst c w. specialize (Hl nc Hnc).
    assert (Hk : 0 <= 7 - zlen data <= 7) by (unfold zlen; lia).
    destruct (end_bits _ Hk) as (LOR & L227 & LN & N128).
    unfold dl_close. cbn [CLF d_closed].
    set (req := dl_end_request (CLF (zlen P) crc (zlen data) false nb)).
    assert (Hreq : req = [193 + 4 * (7 - zlen data); (if crc_en then crc mod 256 else 0); (if crc_en then crc / 256 else 0); 0; 0; 0; 0; 0]).
    { unfold req, dl_end_request. cbn [CLF d_last d_crcsup d_crc]. rewrite LOR. destruct crc_en; reflexivity. }
    assert (Hfirst : firstn (length (P ++ repeat 0 (7 - length data)) - Z.to_nat (7 - zlen data)) (P ++ repeat 0 (7 - length data)) = P).
    { rewrite app_length, repeat_length. replace (Z.to_nat (7 - zlen data)) with (7 - length data)%nat by (unfold zlen; lia).
      replace (length P + (7 - length data) - (7 - length data))%nat with (length P) by lia.
      rewrite firstn_app, Nat.sub_diag, firstn_all. cbn [firstn]. apply app_nil_r. }
    assert (Hsrv : dl_srv (SVF blks' nb (P ++ repeat 0 (7 - length data))) (lostb faults (nc + 1)) req =
                   (mkds 0 blks' crc_en cc true (zlen P) mux nb 0 [] (P ++ repeat 0 (7 - length data)) true false (Some P) bad0 aborted0,
                    [[161; 0; 0; 0; 0; 0; 0; 0]])).
    { rewrite Hl, Hreq. unfold dl_srv, fb. cbn [length Nat.eqb negb nth SVF ds_state].
      change (2 =? 1) with false. cbv iota. rewrite N128. cbn [andb].
      change (2 =? 0) with false. rewrite andb_false_r. change (2 =? 2) with true. rewrite L227. cbn [Z.eqb Pos.eqb andb].
      rewrite LN. cbn [SVF ds_committed ds_cc ds_sizeind ds_size ds_mux ds_bad ds_aborted ds_blks ds_crc_en ds_blksize ds_ackseq
                        ds_buf ds_lastflag ds_lost].
      rewrite Hfirst. rewrite Z.eqb_refl. cbn [negb andb].
      assert (Hcheck : cc && negb ((if crc_en then crc mod 256 else 0) + 256 * (if crc_en then crc / 256 else 0) =? crc16 P) = false).
      { destruct cc eqn:Ec; [|reflexivity]. rewrite (Hcc eq_refl) in *. rewrite (Hcrc eq_refl eq_refl). cbn [andb]. lia. }
      rewrite Hcheck. reflexivity. }
    unfold request_response. cbn [n_q].
    pose proof (send_request_NW _ nc ns log req _ _ Hsrv) as Hsend. unfold NW in Hsend. rewrite Hsend.
    unfold read_response. cbn [n_q n_srv n_log]. unfold fb. cbn [nth].
    change (161 =? RESPONSE_ABORTED) with false. cbv beta iota.
    change (Z.land 161 END_BLOCK_TRANSFER =? 0) with false. cbv iota.
    eexists. split; [reflexivity|]. cbn [n_srv f_inner ds_store ds_bad]. split; reflexivity.
  Qed.
  (* ---- the retransmission loop when no further client frame is lost ---- *)
  Definition len7 (ch : list Z) : Prop := length ch = 7%nat.

  Lemma feed_clean : forall bl d pos1 s crc cur1 B1 blks1 sb1 nc ns log,
    (1 <= d)%nat -> Forall len7 bl -> Forall len7 cur1 -> s = zlen cur1 -> s < B1 -> B1 <= 127 -> blks_ok blks1 ->
    (forall k, nc < k -> lostb faults k = false) -> pos1 + 7 * zlen bl < zlen P ->
    exists s' cur' B' blks' sb' nc' ns' log',
      retransmit_loop (write sys d) bl (CL pos1 s crc cur1 true B1) (NW (SV blks1 B1 s (concat cur1) sb1 false) nc ns log) =
      (Ok tt, CL (pos1 + 7 * zlen bl) s' crc cur' false B', NW (SV blks' B' s' (concat cur') sb' false) nc' ns' log') /\
      Forall len7 cur' /\ s' = zlen cur' /\ s' < B' /\ B' <= 127 /\ blks_ok blks' /\ nc <= nc' /\
      sb' ++ concat cur' = sb1 ++ concat cur1 ++ concat bl.
  Proof.
    induction bl as [|b r IH]; intros d pos1 s crc cur1 B1 blks1 sb1 nc ns log Hd Hbl Hcur Hs HB HB127 Hblks Hclean Hpos.
    - cbn [retransmit_loop]. exists s, cur1, B1, blks1, sb1, nc, ns, log.
      cbn [CL d_size d_pos d_done d_seqno d_crc d_last d_cur d_blksize d_crcsup d_closed].
      change (zlen (@nil (list Z))) with 0. rewrite Z.mul_0_r, Z.add_0_r. cbn [concat]. rewrite app_nil_r.
      split; [reflexivity|]. split; [assumption|]. split; [assumption|]. split; [assumption|]. split; [assumption|].
      split; [assumption|]. split; [lia|]. reflexivity.
    - inversion Hbl as [|? ? Hb Hr]; subst.
      destruct d as [|d']; [lia|].
      assert (Hs0 : 0 <= zlen cur1) by apply zlen_nonneg.
      assert (Hl : lostb faults (nc + 1) = false) by (apply Hclean; lia).
      assert (Ha : acc false false (zlen cur1) (zlen cur1) = true) by (unfold acc; cbn; lia).
      destruct (next_blk_ok blks1 Hblks) as [Hnb Hblks'].
      rewrite zlen_cons in Hpos. pose proof (zlen_nonneg r) as Hr0.
      cbn [retransmit_loop write].
      assert (Hfb : firstn 7 b = b) by (apply firstn_all2; unfold len7 in Hb; lia).
      rewrite write_body_mid by (rewrite ?Hfb; first [apply len7_zlen; exact Hb | lia]).
      rewrite Hfb.
      assert (Hcrc : (if crc_en && negb true then crc_from crc b else crc) = crc) by (cbn [negb]; rewrite andb_false_r; reflexivity).
      destruct (Z.lt_ge_cases (zlen cur1 + 1) B1) as [Hmid|Hedge].
      + destruct (send_mid (write sys d') pos1 (zlen cur1) crc cur1 true B1 blks1 (zlen cur1) (concat cur1) sb1 false nc ns log b
                    Hs0 Hmid HB127 Hb) as [log' Hsend].
        { rewrite Hl, Ha. reflexivity. }
        rewrite Hl, Ha, Hcrc in Hsend. cbv iota in Hsend. rewrite Hsend. cbv beta iota.
        replace (concat cur1 ++ b) with (concat (cur1 ++ [b])) by (rewrite concat_app; cbn; now rewrite app_nil_r).
        destruct (IH (S d') (pos1 + 7) (zlen cur1 + 1) crc (cur1 ++ [b]) B1 blks1 sb1 (nc + 1) ns log')
          as (s' & cur' & B' & blks' & sb' & nc' & ns' & log'' & Hrun & H1 & H2 & H3 & H4 & H5 & H6 & H7);
          try assumption; try lia.
        * apply Forall_app. split; [assumption|]. constructor; [assumption|constructor].
        * rewrite zlen_app. cbn. lia.
        * intros k Hk. apply Hclean. lia.
        * exists s', cur', B', blks', sb', nc', ns', log''.
          replace (pos1 + 7 + 7 * zlen r) with (pos1 + 7 * (1 + zlen r)) in Hrun by lia.
          rewrite zlen_cons. split; [exact Hrun|]. split; [assumption|]. split; [assumption|]. split; [assumption|]. split; [assumption|].
          split; [assumption|]. split; [lia|].
          rewrite H7. rewrite concat_app. cbn [concat]. rewrite app_nil_r, <- !app_assoc. reflexivity.
      + destruct (send_edge (write sys d') pos1 (zlen cur1) crc cur1 true B1 blks1 (zlen cur1) (concat cur1) sb1 false nc ns log b
                    ltac:(lia) ltac:(lia) HB127 Hb) as [log' Hsend].
        { rewrite Hl, Ha. reflexivity. }
        rewrite Hl, Ha, Hcrc in Hsend. cbv iota in Hsend. rewrite Hsend. cbv beta iota.
        change (@nil Z) with (concat (@nil (list Z))).
        destruct (IH (S d') (pos1 + 7) 0 crc [] (fst (next_blk blks1)) (snd (next_blk blks1)) (sb1 ++ concat cur1 ++ b) (nc + 1) (ns + 1) log')
          as (s' & cur' & B' & blks' & sb' & nc' & ns' & log'' & Hrun & H1 & H2 & H3 & H4 & H5 & H6 & H7);
          try assumption; try lia; try reflexivity.
        * constructor.
        * intros k Hk. apply Hclean. lia.
        * exists s', cur', B', blks', sb', nc', ns', log''.
          replace (pos1 + 7 + 7 * zlen r) with (pos1 + 7 * (1 + zlen r)) in Hrun by lia.
          rewrite zlen_cons. split; [exact Hrun|]. split; [assumption|]. split; [assumption|]. split; [assumption|]. split; [assumption|].
          split; [assumption|]. split; [lia|].
          rewrite H7. cbn [concat]. rewrite <- !app_assoc. reflexivity.
  Qed.

  (* ---- _retransmit after an incomplete sub-block, no further loss ---- *)
  Lemma retransmit_finish d cur' pos' crc' B j0 nb blks' sbase' nc ns log :
    (1 <= d)%nat -> 0 <= j0 -> Forall len7 cur' -> pos' < zlen P -> 1 <= nb <= 127 -> blks_ok blks' ->
    (forall k, nc < k -> lostb faults k = false) ->
    exists s' cur'' B' blks'' sb' nc' ns' log',
      retransmit (write sys d) (CL pos' B crc' cur' false B) (NW (SV blks' nb 0 [] sbase' false) nc ns log) j0 nb =
      (Ok tt, CL pos' s' crc' cur'' false B', NW (SV blks'' B' s' (concat cur'') sb' false) nc' ns' log') /\
      Forall len7 cur'' /\ s' = zlen cur'' /\ s' < B' /\ B' <= 127 /\ blks_ok blks'' /\ nc <= nc' /\
      sb' ++ concat cur'' = sbase' ++ concat (skipn (Z.to_nat j0) cur').
  Proof.
    intros Hd Hj Hcur Hpos Hnb Hblks Hclean.
    unfold retransmit. cbn [CL d_cur d_size d_pos d_done d_crc d_last d_crcsup d_closed].
    set (block := skipn (Z.to_nat j0) cur').
    assert (Hblock : Forall len7 block).
    { unfold block. rewrite <- (firstn_skipn (Z.to_nat j0) cur') in Hcur. apply Forall_app in Hcur. apply Hcur. }
    pose proof (zlen_nonneg block) as Hb0.
    destruct (feed_clean block d (pos' - zlen block * 7) 0 crc' [] nb blks' sbase' nc ns log Hd Hblock)
      as (s' & cur'' & B' & blks'' & sb' & nc' & ns' & log' & Hrun & H1 & H2 & H3 & H4 & H5 & H6 & H7);
      try assumption; try lia; try reflexivity.
    - constructor.
    - exists s', cur'', B', blks'', sb', nc', ns', log'.
      replace (pos' - zlen block * 7 + 7 * zlen block) with pos' in Hrun by lia.
      cbn [concat app] in H7. unfold CL in Hrun |- *. cbn [concat] in Hrun.
      split; [exact Hrun|]. split; [assumption|]. split; [assumption|]. split; [assumption|]. split; [assumption|].
      split; [assumption|]. split; [assumption|]. exact H7.
  Qed.

  (* ---- where may one segment be lost so that the sub-block it belongs to is not the final one ----
     room = segments the current sub-block can still take, m = segments still to be sent,
     d = distance to the segment that will be lost (1 = the next one) *)
  Fixpoint loss_ok (fuel : nat) (room : Z) (blks : list Z) (m d : Z) : bool :=
    match fuel with
    | O => false
    | S f => if m <=? room then false else if d <=? room then true
             else loss_ok f (fst (next_blk blks)) (snd (next_blk blks)) (m - room) (d - room)
    end.

  Lemma loss_ok_more F room blks m d : loss_ok F room blks m d = true -> room < m.
  Proof. destruct F; cbn [loss_ok]; [discriminate|]. destruct (m <=? room) eqn:E; [discriminate|]. lia. Qed.

  Lemma loss_ok_mid F room blks m d : loss_ok F room blks m d = true -> 1 < d -> 1 < room ->
    loss_ok F (room - 1) blks (m - 1) (d - 1) = true.
  Proof.
    destruct F; cbn [loss_ok]; [discriminate|]. intros H Hd Hr.
    replace (m - 1 <=? room - 1) with (m <=? room) by lia.
    replace (d - 1 <=? room - 1) with (d <=? room) by lia.
    replace (m - 1 - (room - 1)) with (m - room) by lia.
    replace (d - 1 - (room - 1)) with (d - room) by lia. exact H.
  Qed.

  Lemma loss_ok_edge F blks m d : loss_ok F 1 blks m d = true -> 1 < d ->
    exists F', loss_ok F' (fst (next_blk blks)) (snd (next_blk blks)) (m - 1) (d - 1) = true.
  Proof.
    destruct F; cbn [loss_ok]; [discriminate|]. intros H Hd.
    destruct (m <=? 1); [discriminate|]. replace (d <=? 1) with false in H by lia. exists F. exact H.
  Qed.

  (* ---- the write-all loop with exactly one lost client frame kk, in a sub-block that is not the final one ---- *)
  Lemma firstn_app_le {A} (n : nat) (a b : list A) : (n <= length a)%nat -> firstn n (a ++ b) = firstn n a.
  Proof.
    intros H. rewrite firstn_app. replace (n - length a)%nat with 0%nat by lia. cbn [firstn]. apply app_nil_r.
  Qed.

  Lemma write_all_loss (kk : Z) (Hkk : forall k, lostb faults k = (k =? kk)) :
    forall fuel depth rest pre cur seqno B blks sbase nc ns log crc j0 lostflag,
    P = pre ++ rest -> rest <> [] -> (length rest <= fuel)%nat -> (2 <= depth)%nat ->
    sbase ++ concat cur = pre -> seqno = zlen cur -> seqno < B -> B <= 127 -> blks_ok blks -> Forall len7 cur ->
    (crc_en = true -> crc = crc16 pre) ->
    ( (j0 = seqno /\ lostflag = false /\ nc < kk /\
       exists F, loss_ok F (B - seqno) blks ((zlen rest + 6) / 7) (kk - nc) = true)
      \/ (0 <= j0 < seqno /\ lostflag = true /\ kk <= nc /\ B - seqno < (zlen rest + 6) / 7) ) ->
    exists c' w',
      write_all sys fuel depth (CL (zlen pre) seqno crc cur false B)
                (NW (SV blks B j0 (concat (firstn (Z.to_nat j0) cur)) sbase lostflag) nc ns log) rest = (Ok tt, c', w') /\
      final_cfg false (Z.max nc kk) c' w'.
  Proof.
    induction fuel as [|f IH]; intros depth rest pre cur seqno B blks sbase nc ns log crc j0 lostflag
      HP Hne Hfuel Hdepth Hpre Hseq HB HB127 Hblks Hcur Hcrc Hmode.
    { destruct rest; [contradiction|cbn in Hfuel; lia]. }
    destruct depth as [|d]; [lia|].
    assert (Hs0 : 0 <= seqno) by (subst seqno; apply zlen_nonneg).
    destruct (next_blk_ok blks Hblks) as [Hnb Hblks'].
    (* in both modes more than one segment remains: the next one is full and not the last *)
    assert (Hm : 1 < (zlen rest + 6) / 7).
    { destruct Hmode as [(_ & _ & _ & F & HF)|(_ & _ & _ & Hmm)]; [apply loss_ok_more in HF|]; lia. }
    assert (Hlong : (7 < length rest)%nat) by (unfold zlen in Hm; lia).
    destruct rest as [|x0 rest0] eqn:Erest; [contradiction|]. rewrite <- Erest in *.
    assert (Hwa : forall c w, write_all sys (S f) (S d) c w rest =
              match write_body sys (write sys d) c w rest with
              | (Ok (Some n), c', w') => write_all sys f (S d) c' w' (skipn (Z.to_nat n) rest)
              | (Ok None, c', w') => (Err E_IO, c', w')
              | (Err k, c', w') => (Err k, c', w')
              | (Abort a, c', w') => (Abort a, c', w')
              end).
    { intros c w. rewrite Erest. reflexivity. }
    rewrite Hwa. clear Hwa.
    assert (HlenP : zlen P = zlen pre + zlen rest) by (rewrite HP; apply zlen_app).
    pose proof (firstn7_full rest ltac:(lia)) as H7.
    set (chunk := firstn 7 rest) in *.
    assert (Hrest : rest = chunk ++ skipn 7 rest) by (symmetry; apply firstn_skipn).
    assert (Hne' : skipn 7 rest <> []).
    { intros E. apply (f_equal (@length Z)) in E. rewrite skipn_length in E. cbn in E. lia. }
    assert (Hz7 : zlen rest = 7 + zlen (skipn 7 rest)).
    { rewrite Hrest at 1. rewrite zlen_app, (len7_zlen chunk H7). reflexivity. }
    assert (Hpos : zlen pre + 7 < zlen P).
    { pose proof (zlen_nonneg (skipn 7 rest)). assert (zlen (skipn 7 rest) <> 0).
      { unfold zlen. destruct (skipn 7 rest); [contradiction|cbn; lia]. } lia. }
    rewrite write_body_mid by (first [apply len7_zlen; exact H7 | exact Hpos]).
    fold chunk.
    set (crc' := if crc_en && negb false then crc_from crc chunk else crc).
    assert (Hcrc' : crc_en = true -> crc' = crc16 (pre ++ chunk)).
    { intros He. unfold crc'. rewrite He. cbn [andb negb]. rewrite (Hcrc He). symmetry. apply crc_from_app. }
    assert (HP' : P = (pre ++ chunk) ++ skipn 7 rest) by (rewrite <- app_assoc, <- Hrest; exact HP).
    assert (Hlen' : (length (skipn 7 rest) <= f)%nat) by (rewrite skipn_length; lia).
    assert (Hm' : (zlen (skipn 7 rest) + 6) / 7 = (zlen rest + 6) / 7 - 1) by lia.
    assert (Hzp : zlen pre + 7 = zlen (pre ++ chunk)) by (rewrite zlen_app, (len7_zlen chunk H7); reflexivity).
    assert (Hcur' : Forall len7 (cur ++ [chunk])).
    { apply Forall_app. split; [assumption|]. constructor; [exact H7|constructor]. }
    assert (Hlencur : Z.to_nat seqno = length cur) by (subst seqno; unfold zlen; lia).
    (* what happens after an incomplete sub-block has been acknowledged with j0 (shared by both modes) *)
    assert (Hfinish : forall log1, 0 <= j0 <= seqno -> seqno + 1 = B -> kk <= nc + 1 ->
      exists c' w',
        match retransmit (write sys d) (CL (zlen pre + 7) B crc' (cur ++ [chunk]) false B)
                (NW (SV (snd (next_blk blks)) (fst (next_blk blks)) 0 [] (sbase ++ concat (firstn (Z.to_nat j0) cur)) false)
                    (nc + 1) (ns + 1) log1) j0 (fst (next_blk blks)) with
        | (Ok _, c1, w1) => write_all sys f (S d) c1 w1 (skipn (Z.to_nat 7) rest)
        | (Err k, c1, w1) => (Err k, c1, w1)
        | (Abort a, c1, w1) => (Abort a, c1, w1)
        end = (Ok tt, c', w') /\ final_cfg false (Z.max nc kk) c' w').
    { intros log1 Hj0 HeB Hk.
      destruct (retransmit_finish d (cur ++ [chunk]) (zlen pre + 7) crc' B j0 (fst (next_blk blks)) (snd (next_blk blks))
                  (sbase ++ concat (firstn (Z.to_nat j0) cur)) (nc + 1) (ns + 1) log1)
        as (s' & cur'' & B' & blks'' & sb' & nc' & ns' & log' & Hrun & H1 & H2 & H3 & H4 & H5 & H6 & H7');
        try assumption; try lia.
      { intros k Hk'. rewrite Hkk. lia. }
      rewrite Hrun. change (Z.to_nat 7) with 7%nat. rewrite Hzp.
      apply (ex_final_weaken false (Z.max nc kk) nc'); [lia|].
      apply (write_all_clean f (S d) (skipn 7 rest) (pre ++ chunk) cur'' s' B' blks'' sb' nc' ns' log' crc');
        try assumption; try lia.
      - rewrite H7'. rewrite <- app_assoc.
        rewrite <- (firstn_app_le (Z.to_nat j0) cur [chunk]) by lia.
        rewrite <- concat_app, firstn_skipn. rewrite concat_app. cbn [concat]. rewrite app_nil_r, app_assoc, Hpre. reflexivity.
      - intros k Hk'. rewrite Hkk. lia. }
    destruct Hmode as [(Hj & Hlf & Hnck & F & HF)|(Hj & Hlf & Hnck & Hmm)].
    - (* nothing lost so far *)
      subst j0 lostflag. rewrite Hlencur, firstn_all.
      pose proof (loss_ok_more _ _ _ _ _ HF) as Hroom.
      destruct (Z.eq_dec kk (nc + 1)) as [Hnow|Hlater].
      + (* this segment is lost *)
        assert (Hl : lostb faults (nc + 1) = true) by (rewrite Hkk; lia).
        assert (Ha : acc true false seqno seqno = false) by reflexivity.
        destruct (Z.lt_ge_cases (seqno + 1) B) as [Hmid|Hedge].
        * destruct (send_mid (write sys d) (zlen pre) seqno crc cur false B blks seqno (concat cur) sbase false nc ns log chunk
                      Hs0 Hmid HB127 H7) as [log' Hsend].
          { rewrite Hl, Ha. reflexivity. }
          rewrite Hl, Ha in Hsend. cbv iota in Hsend. fold crc' in Hsend. rewrite Hsend. cbv beta iota.
          change (Z.to_nat 7) with 7%nat. rewrite Hzp.
          apply (ex_final_weaken false (Z.max nc kk) (Z.max (nc + 1) kk)); [lia|].
          replace (concat cur) with (concat (firstn (Z.to_nat seqno) (cur ++ [chunk])))
            by (rewrite firstn_app_le by lia; rewrite Hlencur, firstn_all; reflexivity).
          apply (IH (S d) (skipn 7 rest) (pre ++ chunk) (cur ++ [chunk]) (seqno + 1) B blks sbase (nc + 1) ns log' crc' seqno true);
            try assumption; try lia;
            try (rewrite concat_app; cbn [concat]; rewrite app_nil_r, app_assoc, Hpre; reflexivity);
            try (rewrite zlen_app; cbn; lia).
        * destruct (send_edge (write sys d) (zlen pre) seqno crc cur false B blks seqno (concat cur) sbase false nc ns log chunk
                      ltac:(lia) ltac:(lia) HB127 H7) as [log' Hsend].
          { rewrite Hl, Ha. reflexivity. }
          rewrite Hl, Ha in Hsend. cbv iota in Hsend. fold crc' in Hsend. rewrite Hsend.
          destruct (Hfinish log' ltac:(lia) ltac:(lia) ltac:(lia)) as (c' & w' & Hr & Hf).
          rewrite Hlencur, firstn_all in Hr.
          exists c', w'. split; [|exact Hf].
          destruct (retransmit (write sys d) _ _ seqno (fst (next_blk blks))) as [[[u|k|a0] c1] w1]; exact Hr.
      + (* this segment arrives *)
        assert (Hl : lostb faults (nc + 1) = false) by (rewrite Hkk; lia).
        assert (Ha : acc false false seqno seqno = true) by (unfold acc; cbn; lia).
        destruct (Z.lt_ge_cases (seqno + 1) B) as [Hmid|Hedge].
        * destruct (send_mid (write sys d) (zlen pre) seqno crc cur false B blks seqno (concat cur) sbase false nc ns log chunk
                      Hs0 Hmid HB127 H7) as [log' Hsend].
          { rewrite Hl, Ha. reflexivity. }
          rewrite Hl, Ha in Hsend. cbv iota in Hsend. fold crc' in Hsend. rewrite Hsend. cbv beta iota.
          change (Z.to_nat 7) with 7%nat. rewrite Hzp.
          apply (ex_final_weaken false (Z.max nc kk) (Z.max (nc + 1) kk)); [lia|].
          replace (concat cur ++ chunk) with (concat (firstn (Z.to_nat (seqno + 1)) (cur ++ [chunk]))).
          2:{ replace (Z.to_nat (seqno + 1)) with (length (cur ++ [chunk])) by (rewrite app_length; cbn; lia).
              rewrite firstn_all, concat_app. cbn [concat]. now rewrite app_nil_r. }
          apply (IH (S d) (skipn 7 rest) (pre ++ chunk) (cur ++ [chunk]) (seqno + 1) B blks sbase (nc + 1) ns log' crc' (seqno + 1) false);
            try assumption; try lia;
            try (rewrite concat_app; cbn [concat]; rewrite app_nil_r, app_assoc, Hpre; reflexivity);
            try (rewrite zlen_app; cbn; lia).
          left. split; [reflexivity|]. split; [reflexivity|]. split; [lia|].
             exists F. rewrite Hm'.
             replace (B - (seqno + 1)) with (B - seqno - 1) by lia. replace (kk - (nc + 1)) with (kk - nc - 1) by lia.
             apply loss_ok_mid; [exact HF|lia|lia].
        * destruct (send_edge (write sys d) (zlen pre) seqno crc cur false B blks seqno (concat cur) sbase false nc ns log chunk
                      ltac:(lia) ltac:(lia) HB127 H7) as [log' Hsend].
          { rewrite Hl, Ha. reflexivity. }
          rewrite Hl, Ha in Hsend. cbv iota in Hsend. fold crc' in Hsend. rewrite Hsend. cbv beta iota.
          change (Z.to_nat 7) with 7%nat. rewrite Hzp.
          apply (ex_final_weaken false (Z.max nc kk) (Z.max (nc + 1) kk)); [lia|].
          replace (B - seqno) with 1 in HF by lia.
          destruct (loss_ok_edge _ _ _ _ HF ltac:(lia)) as [F' HF'].
          change (@nil Z) with (concat (firstn (Z.to_nat 0) (@nil (list Z)))).
          apply (IH (S d) (skipn 7 rest) (pre ++ chunk) [] 0 (fst (next_blk blks)) (snd (next_blk blks))
                    (sbase ++ concat cur ++ chunk) (nc + 1) (ns + 1) log' crc' 0 false); try assumption; try lia;
            try (cbn [concat]; rewrite app_nil_r, app_assoc, Hpre; reflexivity); try reflexivity; try (constructor; fail).
          left. split; [reflexivity|]. split; [reflexivity|]. split; [lia|].
             exists F'. rewrite Hm'. rewrite Z.sub_0_r. replace (kk - (nc + 1)) with (kk - nc - 1) by lia. exact HF'.
    - (* a segment of this sub-block has been lost: the server ignores the rest of it *)
      subst lostflag.
      assert (Hl : lostb faults (nc + 1) = false) by (rewrite Hkk; lia).
      assert (Ha : acc false true seqno j0 = false) by (unfold acc; cbn; apply andb_false_r).
      destruct (Z.lt_ge_cases (seqno + 1) B) as [Hmid|Hedge].
      + destruct (send_mid (write sys d) (zlen pre) seqno crc cur false B blks j0 (concat (firstn (Z.to_nat j0) cur)) sbase true nc ns log chunk
                    Hs0 Hmid HB127 H7) as [log' Hsend].
        { rewrite Hl, Ha. reflexivity. }
        rewrite Hl, Ha in Hsend. cbv iota in Hsend. fold crc' in Hsend. rewrite Hsend. cbv beta iota.
        change (Z.to_nat 7) with 7%nat. rewrite Hzp.
        apply (ex_final_weaken false (Z.max nc kk) (Z.max (nc + 1) kk)); [lia|].
        rewrite <- (firstn_app_le (Z.to_nat j0) cur [chunk]) by lia.
        apply (IH (S d) (skipn 7 rest) (pre ++ chunk) (cur ++ [chunk]) (seqno + 1) B blks sbase (nc + 1) ns log' crc' j0 true);
          try assumption; try lia;
            try (rewrite concat_app; cbn [concat]; rewrite app_nil_r, app_assoc, Hpre; reflexivity);
            try (rewrite zlen_app; cbn; lia).
      + destruct (send_edge (write sys d) (zlen pre) seqno crc cur false B blks j0 (concat (firstn (Z.to_nat j0) cur)) sbase true nc ns log chunk
                    ltac:(lia) ltac:(lia) HB127 H7) as [log' Hsend].
        { rewrite Hl, Ha. reflexivity. }
        rewrite Hl, Ha in Hsend. cbv iota in Hsend. fold crc' in Hsend. rewrite Hsend.
        destruct (Hfinish log' ltac:(lia) ltac:(lia) ltac:(lia)) as (c' & w' & Hr & Hf).
        exists c', w'. split; [|exact Hf].
        destruct (retransmit (write sys d) _ _ j0 (fst (next_blk blks))) as [[[u|k|a0] c1] w1]; exact Hr.
  Qed.

  (* =================================================================================
     Safety under ANY pattern of lost client frames: a normal return has committed the payload
     ================================================================================= *)
  (* client and server agree on the sub-block; the server has taken the first j0 segments of it *)
  Definition GS (nc0 : Z) (pre : list Z) (c : dl) (w : NetD) : Prop :=
    exists seqno crc cur retx B blks j0 sbase nc ns log,
      c = CL (zlen pre) seqno crc cur retx B /\
      w = NW (SV blks B j0 (concat (firstn (Z.to_nat j0) cur)) sbase (negb (j0 =? seqno))) nc ns log /\
      sbase ++ concat cur = pre /\ seqno = zlen cur /\ 0 <= j0 <= seqno /\ seqno < B /\ B <= 127 /\
      blks_ok blks /\ Forall len7 cur /\ nc0 <= nc.

  Definition FIN (nc0 : Z) (c : dl) (w : NetD) : Prop :=
    exists (data : list Z) crc retx nb blks' nc ns log,
      (1 <= length data <= 7)%nat /\ nc0 <= nc /\
      c = CLF (zlen P) crc (zlen data) retx nb /\
      w = mknet (mkfs (SVF blks' nb (P ++ repeat 0 (7 - length data))) nc ns faults) [] log.

  Definition wpost (nc0 : Z) (pre rest : list Z) (r : R (option Z)) : Prop :=
    match r with
    | (Ok (Some n), c', w') =>
        n = zlen (firstn 7 rest) /\
        (if 7 <? zlen rest then GS nc0 (pre ++ firstn 7 rest) c' w' else FIN nc0 c' w')
    | (Ok None, _, _) => False
    | _ => True
    end.

  Lemma acc_bad l seqno j0 : acc l (negb (j0 =? seqno)) seqno j0 || l || negb (j0 =? seqno) = true.
  Proof.
    unfold acc. destruct l; cbn [negb andb orb]; [try reflexivity; apply orb_true_r|].
    destruct (j0 =? seqno) eqn:E; cbn [negb andb orb]; [|try reflexivity; apply orb_true_r].
    replace (seqno =? j0) with true by lia. reflexivity.
  Qed.

  Lemma zlen_concat7 (l : list (list Z)) : Forall len7 l -> zlen (concat l) = 7 * zlen l.
  Proof.
    induction 1 as [|x r Hx Hr IH]; [reflexivity|]. cbn [concat]. rewrite zlen_app, IH, zlen_cons, (len7_zlen x Hx). lia.
  Qed.

  Lemma write_done_err d c w b : d_done c = true -> exists k, write sys d c w b = (Err k, c, w).
  Proof. intros H. destruct d; cbn [write]; [eexists; reflexivity|]. unfold write_body. rewrite H. eexists; reflexivity. Qed.

  Lemma GS_weaken n0 n1 pre c w : n0 <= n1 -> GS n1 pre c w -> GS n0 pre c w.
  Proof.
    intros H (seqno & crc & cur & retx & B & blks & j0 & sbase & nc & ns & log & H1 & H2 & H3 & H4 & H5 & H6 & H7 & H8 & H9 & H10).
    exists seqno, crc, cur, retx, B, blks, j0, sbase, nc, ns, log. repeat (split; [assumption|]). lia.
  Qed.

  (* the retransmission loop, given that the recursive write() is safe *)
  Lemma loop_safe (rec : dl -> NetD -> list Z -> R (option Z)) (nc0 : Z) :
    (forall pre rest c w b, P = pre ++ rest -> rest <> [] -> firstn 7 b = firstn 7 rest -> GS nc0 pre c w ->
                            wpost nc0 pre rest (rec c w b)) ->
    forall bl pre1 rest1 c w,
      P = pre1 ++ concat bl ++ rest1 -> rest1 <> [] -> Forall len7 bl -> GS nc0 pre1 c w ->
      match retransmit_loop rec bl c w with
      | (Ok _, c', w') => GS nc0 (pre1 ++ concat bl) c' w'
      | _ => True
      end.
  Proof.
    intros Hrec. induction bl as [|b r IH]; intros pre1 rest1 c w HP Hne Hbl HG.
    - cbn [retransmit_loop concat]. rewrite app_nil_r.
      destruct HG as (seqno & crc & cur & retx & B & blks & j0 & sbase & nc & ns & log & H1 & H2 & H3 & H4 & H5 & H6 & H7 & H8 & H9 & H10).
      subst c. exists seqno, crc, cur, false, B, blks, j0, sbase, nc, ns, log.
      split; [reflexivity|]. repeat (split; [assumption|]). assumption.
    - inversion Hbl as [|? ? Hb Hr]; subst.
      cbn [retransmit_loop concat].
      assert (Hrest : rest1 <> [] -> zlen rest1 > 0).
      { intros _. destruct rest1; [contradiction|]. rewrite zlen_cons. pose proof (zlen_nonneg rest1). lia. }
      specialize (Hrest Hne).
      assert (Hfb : firstn 7 (b ++ concat r ++ rest1) = b).
      { rewrite firstn_app. unfold len7 in Hb. rewrite Hb, Nat.sub_diag, firstn_O, app_nil_r. apply firstn_all2. lia. }
      pose proof (Hrec pre1 (b ++ concat r ++ rest1) c w b) as Hw.
      cbn [concat] in HP. rewrite <- app_assoc in HP.
      specialize (Hw HP). 
      assert (Hne2 : b ++ concat r ++ rest1 <> []) by (destruct b; [discriminate Hb|discriminate]).
      specialize (Hw Hne2). rewrite Hfb in Hw. specialize (Hw (firstn_all2 (n := 7) b ltac:(unfold len7 in Hb; lia)) HG).
      destruct (rec c w b) as [[[[n|]|k|a] c'] w']; cbn [wpost] in Hw; try exact I; [|contradiction].
      destruct Hw as (_ & Hw).
      replace (7 <? zlen (b ++ concat r ++ rest1)) with true in Hw.
      2:{ rewrite !zlen_app, (len7_zlen b Hb). pose proof (zlen_nonneg (concat r)). lia. }
      rewrite Hfb in Hw. specialize (IH (pre1 ++ b) rest1 c' w').
      rewrite <- app_assoc in IH. specialize (IH HP Hne Hr Hw).
      rewrite app_assoc. exact IH.
  Qed.

  (* _retransmit is safe when the recursive write() is *)
  Lemma retransmit_safe (rec : dl -> NetD -> list Z -> R (option Z)) (nc0 : Z) :
    (forall pre rest c w b, P = pre ++ rest -> rest <> [] -> firstn 7 b = firstn 7 rest -> GS nc0 pre c w ->
                            wpost nc0 pre rest (rec c w b)) ->
    forall pre' rest' cur' crc' retx B j0 nb blks' sbase nc ns log,
      P = pre' ++ rest' -> rest' <> [] -> sbase ++ concat cur' = pre' -> Forall len7 cur' ->
      0 <= j0 <= zlen cur' -> 1 <= nb <= 127 -> blks_ok blks' -> nc0 <= nc ->
      match retransmit rec (CL (zlen pre') B crc' cur' retx B)
              (NW (SV blks' nb 0 [] (sbase ++ concat (firstn (Z.to_nat j0) cur')) false) nc ns log) j0 nb with
      | (Ok _, c', w') => GS nc0 pre' c' w'
      | _ => True
      end.
  Proof.
    intros Hrec pre' rest' cur' crc' retx B j0 nb blks' sbase nc ns log HP Hne Hpre Hcur Hj Hnb Hblks Hnc.
    unfold retransmit. cbn [CL d_cur d_size d_pos d_done d_crc d_last d_crcsup d_closed].
    set (block := skipn (Z.to_nat j0) cur').
    assert (Hsplit : cur' = firstn (Z.to_nat j0) cur' ++ block) by (symmetry; apply firstn_skipn).
    assert (Hblock : Forall len7 block).
    { rewrite Hsplit in Hcur. apply Forall_app in Hcur. apply Hcur. }
    set (pre1 := sbase ++ concat (firstn (Z.to_nat j0) cur')).
    assert (Hpre1 : pre' = pre1 ++ concat block).
    { unfold pre1. rewrite <- app_assoc, <- concat_app, <- Hsplit. symmetry. exact Hpre. }
    assert (Hz : zlen pre' - zlen block * 7 = zlen pre1).
    { rewrite Hpre1, zlen_app, (zlen_concat7 block Hblock). lia. }
    rewrite Hz.
    pose proof (loop_safe rec nc0 Hrec block pre1 rest' (CL (zlen pre1) 0 crc' [] true nb)
                  (NW (SV blks' nb 0 [] pre1 false) nc ns log)) as HL.
    rewrite <- Hpre1 in HL. apply HL; try assumption.
    - rewrite app_assoc, <- Hpre1. exact HP.
    - exists 0, crc', [], true, nb, blks', 0, pre1, nc, ns, log.
      split; [reflexivity|]. split; [reflexivity|]. split; [cbn [concat]; apply app_nil_r|].
      split; [reflexivity|]. split; [lia|]. split; [lia|]. split; [lia|]. split; [assumption|]. split; [constructor|assumption].
  Qed.

  Lemma retransmit_done_err rec (c : dl) (w : NetD) j0 nb :
    d_done c = true -> (Z.to_nat j0 < length (d_cur c))%nat ->
    (forall c1 w1 b, d_done c1 = true -> exists k, rec c1 w1 b = (Err k, c1, w1)) ->
    exists k c' w', retransmit rec c w j0 nb = (Err k, c', w').
  Proof.
    intros Hd Hj Hrec. unfold retransmit.
    destruct (skipn (Z.to_nat j0) (d_cur c)) as [|b r] eqn:E.
    - apply (f_equal (@length (list Z))) in E. rewrite skipn_length in E. cbn in E. lia.
    - cbn [retransmit_loop].
      match goal with |- context [rec ?c1 w b] => destruct (Hrec c1 w b Hd) as [k Hk]; rewrite Hk end.
      eexists _, _, _. reflexivity.
  Qed.

  (* ---- write() is safe, whatever is lost ---- *)
  Lemma write_safe (nc0 : Z) : forall d pre rest c w b,
    P = pre ++ rest -> rest <> [] -> firstn 7 b = firstn 7 rest -> GS nc0 pre c w ->
    wpost nc0 pre rest (write sys d c w b).
  Proof.
    induction d as [|d IH]; intros pre rest c w b HP Hne Hb HG; [exact I|].
    cbn [write].
    destruct HG as (seqno & crc & cur & retx & B & blks & j0 & sbase & nc & ns & log & Hc & Hw & Hpre & Hseq & Hj & HB & HB127 & Hblks & Hcur & Hnc).
    subst c w.
    assert (Hs0 : 0 <= seqno) by (subst seqno; apply zlen_nonneg).
    destruct (next_blk_ok blks Hblks) as [Hnb Hblks'].
    assert (HlenP : zlen P = zlen pre + zlen rest) by (rewrite HP; apply zlen_app).
    assert (Hlencur : Z.to_nat seqno = length cur) by (subst seqno; unfold zlen; lia).
    pose proof (acc_bad (lostb faults (nc + 1)) seqno j0) as Hbad.
    set (l := lostb faults (nc + 1)) in *.
    set (a := acc l (negb (j0 =? seqno)) seqno j0) in *.
    assert (Ha_true : a = true -> j0 = seqno).
    { unfold a, acc. intros H. apply andb_prop in H. destruct H as [H _]. apply andb_prop in H. destruct H as [_ H]. lia. }
    set (buf := concat (firstn (Z.to_nat j0) cur)) in *.
    assert (Hbuf_true : a = true -> buf = concat cur).
    { intros H. unfold buf. rewrite (Ha_true H), Hlencur, firstn_all. reflexivity. }
    destruct (Z.lt_ge_cases 7 (zlen rest)) as [Hlong|Hshort].
    - (* a full segment that is not the last one *)
      assert (Hlong' : (7 < length rest)%nat) by (unfold zlen in Hlong; lia).
      pose proof (firstn7_full rest ltac:(lia)) as H7.
      set (chunk := firstn 7 rest) in *.
      rewrite write_body_mid by (rewrite ?Hb; first [apply len7_zlen; exact H7 | lia]).
      rewrite Hb. fold chunk.
      assert (Hpre' : sbase ++ concat (cur ++ [chunk]) = pre ++ chunk).
      { rewrite concat_app. cbn [concat]. rewrite app_nil_r, app_assoc, Hpre. reflexivity. }
      assert (Hcur' : Forall len7 (cur ++ [chunk])).
      { apply Forall_app. split; [assumption|]. constructor; [exact H7|constructor]. }
      assert (Hzp : zlen pre + 7 = zlen (pre ++ chunk)) by (rewrite zlen_app, (len7_zlen chunk H7); reflexivity).
      assert (Hrest : rest = chunk ++ skipn 7 rest) by (symmetry; apply firstn_skipn).
      assert (Hne' : skipn 7 rest <> []).
      { intros E. apply (f_equal (@length Z)) in E. rewrite skipn_length in E. cbn in E. lia. }
      destruct (Z.lt_ge_cases (seqno + 1) B) as [Hmid|Hedge].
      + destruct (send_mid (write sys d) (zlen pre) seqno crc cur retx B blks j0 buf sbase (negb (j0 =? seqno)) nc ns log chunk
                    Hs0 Hmid HB127 H7 Hbad) as [log' Hsend].
        fold l a in Hsend. rewrite Hsend. cbn [wpost].
        split; [symmetry; apply len7_zlen; exact H7|].
        replace (7 <? zlen rest) with true by lia.
        rewrite Hzp.
        exists (seqno + 1), (if crc_en && negb retx then crc_from crc chunk else crc), (cur ++ [chunk]), retx, B, blks,
          (if a then seqno + 1 else j0), sbase, (nc + 1), ns, log'.
        split; [reflexivity|]. split.
        { f_equal. destruct a eqn:Ea.
          - replace (Z.to_nat (seqno + 1)) with (length (cur ++ [chunk])) by (rewrite app_length; cbn; lia).
            rewrite firstn_all, concat_app, (Hbuf_true eq_refl). cbn [concat]. rewrite app_nil_r.
            replace (negb (seqno + 1 =? seqno + 1)) with false by lia.
            rewrite (Ha_true eq_refl). replace (negb (seqno =? seqno)) with false by lia. reflexivity.
          - rewrite firstn_app_le by lia. fold buf. replace (negb (j0 =? seqno + 1)) with true by lia. reflexivity. }
        split; [exact Hpre'|]. split; [rewrite zlen_app; cbn; lia|].
        split; [destruct a; lia|]. split; [lia|]. split; [lia|]. split; [assumption|]. split; [assumption|lia].
      + destruct (send_edge (write sys d) (zlen pre) seqno crc cur retx B blks j0 buf sbase (negb (j0 =? seqno)) nc ns log chunk
                    ltac:(lia) ltac:(lia) HB127 H7 Hbad) as [log' Hsend].
        fold l a in Hsend. rewrite Hsend. clear Hsend.
        destruct a eqn:Ea.
        * cbn [wpost]. split; [symmetry; apply len7_zlen; exact H7|].
          replace (7 <? zlen rest) with true by lia. rewrite Hzp.
          exists 0, (if crc_en && negb retx then crc_from crc chunk else crc), [], retx,
            (fst (next_blk blks)), (snd (next_blk blks)), 0, (sbase ++ buf ++ chunk), (nc + 1), (ns + 1), log'.
          split; [reflexivity|]. split; [reflexivity|]. split.
          { cbn [concat]. rewrite app_nil_r, (Hbuf_true eq_refl), app_assoc, Hpre. reflexivity. }
          split; [reflexivity|]. split; [lia|]. split; [lia|]. split; [lia|]. split; [assumption|]. split; [constructor|lia].
        * pose proof (retransmit_safe (write sys d) nc0 (IH) (pre ++ chunk) (skipn 7 rest) (cur ++ [chunk])
                        (if crc_en && negb retx then crc_from crc chunk else crc) retx B j0 (fst (next_blk blks))
                        (snd (next_blk blks)) sbase (nc + 1) (ns + 1) log') as HR.
          rewrite firstn_app_le in HR by lia. fold buf in HR. rewrite <- Hzp in HR.
          replace (seqno + 1) with B in HR by lia.
          specialize (HR ltac:(rewrite <- app_assoc, <- Hrest; exact HP) Hne' Hpre' Hcur'
                         ltac:(rewrite zlen_app; cbn; lia) Hnb Hblks' ltac:(lia)).
          destruct (retransmit (write sys d) _ _ j0 (fst (next_blk blks))) as [[[u|k|a0] c1] w1]; cbn [wpost]; try exact I.
          split; [symmetry; apply len7_zlen; exact H7|].
          replace (7 <? zlen rest) with true by lia. exact HR.
    - (* the last segment *)
      assert (Hshort' : (length rest <= 7)%nat) by (unfold zlen in Hshort; lia).
      assert (Hf : firstn 7 rest = rest) by (apply firstn_all2; assumption).
      assert (Hlen1 : (1 <= length rest)%nat) by (destruct rest; [contradiction|cbn; lia]).
      rewrite write_body_end by (rewrite Hb, Hf; lia).
      rewrite Hb, Hf.
      destruct (send_last (write sys d) (zlen pre) seqno crc cur retx B blks j0 buf sbase (negb (j0 =? seqno)) nc ns log rest
                  ltac:(lia) ltac:(lia) Hshort' Hbad) as [log' Hsend].
      fold l a in Hsend. rewrite Hsend. clear Hsend.
      destruct a eqn:Ea.
      + cbn [wpost]. split; [rewrite Hf; reflexivity|]. replace (7 <? zlen rest) with false by lia.
        exists rest, (if crc_en && negb retx then crc_from crc rest else crc), retx, (fst (next_blk blks)), (snd (next_blk blks)),
          (nc + 1), (ns + 1), log'.
        split; [lia|]. split; [lia|]. split; [f_equal; lia|].
        rewrite (Hbuf_true eq_refl), HP, <- Hpre, <- !app_assoc. reflexivity.
      + destruct (retransmit_done_err (write sys d)
                    (mkdl (Some (zlen P)) (zlen pre + zlen rest) true (seqno + 1)
                          (if crc_en && negb retx then crc_from crc rest else crc) (zlen rest) (cur ++ [rest]) retx (seqno + 1) crc_en false)
                    (NW (SV (snd (next_blk blks)) (fst (next_blk blks)) 0 [] (sbase ++ buf) false) (nc + 1) (ns + 1) log')
                    j0 (fst (next_blk blks)) eq_refl) as (k & c' & w' & Hk).
        * cbn [d_cur]. rewrite app_length. cbn. lia.
        * intros c1 w1 b1 Hd1. apply write_done_err. exact Hd1.
        * rewrite Hk. exact I.
  Qed.

  (* ---- the write-all loop is safe ---- *)
  Lemma write_all_safe (nc0 : Z) : forall fuel depth pre rest c w,
    P = pre ++ rest -> rest <> [] -> GS nc0 pre c w ->
    match write_all sys fuel depth c w rest with
    | (Ok _, c', w') => FIN nc0 c' w'
    | _ => True
    end.
  Proof.
    induction fuel as [|f IH]; intros depth pre rest c w HP Hne HG.
    { destruct rest; [contradiction|exact I]. }
    destruct rest as [|x0 rest0] eqn:Erest; [contradiction|]. rewrite <- Erest in *.
    assert (Hwa : write_all sys (S f) depth c w rest =
              match write sys depth c w rest with
              | (Ok (Some n), c', w') => write_all sys f depth c' w' (skipn (Z.to_nat n) rest)
              | (Ok None, c', w') => (Err E_IO, c', w')
              | (Err k, c', w') => (Err k, c', w')
              | (Abort a, c', w') => (Abort a, c', w')
              end).
    { rewrite Erest. reflexivity. }
    rewrite Hwa. clear Hwa.
    pose proof (write_safe nc0 depth pre rest c w rest HP Hne eq_refl HG) as Hw.
    destruct (write sys depth c w rest) as [[[[n|]|k|a] c'] w']; cbn [wpost] in Hw; try exact I.
    destruct Hw as (Hn & Hw). subst n.
    destruct (Z.lt_ge_cases 7 (zlen rest)) as [Hlong|Hshort].
    - replace (7 <? zlen rest) with true in Hw by lia.
      assert (Hlong' : (7 < length rest)%nat) by (unfold zlen in Hlong; lia).
      rewrite (len7_zlen _ (firstn7_full rest ltac:(lia))). change (Z.to_nat 7) with 7%nat.
      apply (IH depth (pre ++ firstn 7 rest) (skipn 7 rest) c' w'); [|  |exact Hw].
      + rewrite <- app_assoc, firstn_skipn. exact HP.
      + intros E. apply (f_equal (@length Z)) in E. rewrite skipn_length in E. cbn in E. lia.
    - replace (7 <? zlen rest) with false in Hw by lia.
      assert (Hshort' : (length rest <= 7)%nat) by (unfold zlen in Hshort; lia).
      rewrite firstn_all2 by assumption.
      replace (Z.to_nat (zlen rest)) with (length rest) by (unfold zlen; lia).
      rewrite skipn_all. destruct f; cbn [write_all]; exact Hw.
  Qed.

  (* ---- close(): a normal return means the server committed ---- *)
  Lemma dl_close_safe nc0 c w w' : FIN nc0 c w -> dl_close sys c w = (Ok tt, w') ->
    ds_store (f_inner (n_srv w')) = Some P.
  Proof.
    intros (data & crc & retx & nb & blks' & nc & ns & log & Hd & Hnc & Hc & Hw). subst c w.
    assert (Hk : 0 <= 7 - zlen data <= 7) by (unfold zlen; lia).
    destruct (end_bits _ Hk) as (LOR & L227 & LN & N128).
    unfold dl_close. cbn [CLF d_closed].
    set (req := dl_end_request (CLF (zlen P) crc (zlen data) retx nb)).
    assert (Hreq : req = [193 + 4 * (7 - zlen data); (if crc_en then crc mod 256 else 0); (if crc_en then crc / 256 else 0); 0; 0; 0; 0; 0]).
    { unfold req, dl_end_request. cbn [CLF d_last d_crcsup d_crc]. rewrite LOR.
      destruct crc_en; reflexivity. }
    assert (Hfirst : firstn (length (P ++ repeat 0 (7 - length data)) - Z.to_nat (7 - zlen data)) (P ++ repeat 0 (7 - length data)) = P).
    { rewrite app_length, repeat_length. replace (Z.to_nat (7 - zlen data)) with (7 - length data)%nat by (unfold zlen; lia).
      replace (length P + (7 - length data) - (7 - length data))%nat with (length P) by lia.
      rewrite firstn_app, Nat.sub_diag, firstn_all. cbn [firstn]. apply app_nil_r. }
    unfold request_response. cbn [n_q].
    destruct (dl_srv (SVF blks' nb (P ++ repeat 0 (7 - length data))) (lostb faults (nc + 1)) req) as [sv' outs] eqn:Hsrv.
    pose proof (send_request_NW _ nc ns log req _ _ Hsrv) as Hsend. unfold NW in Hsend. rewrite Hsend. clear Hsend.
    revert Hsrv. rewrite Hreq. unfold dl_srv, fb. cbn [length Nat.eqb negb nth SVF ds_state].
    change (2 =? 1) with false. cbv iota.
    destruct (lostb faults (nc + 1)).
    - (* the end request is lost: no answer *)
      intros Hsrv. inversion Hsrv; subst sv' outs. unfold read_response. cbn [n_q]. discriminate.
    - rewrite N128. cbn [andb]. change (2 =? 0) with false. rewrite andb_false_r. change (2 =? 2) with true. rewrite L227.
      cbn [Z.eqb Pos.eqb andb]. rewrite LN.
      cbn [SVF ds_committed ds_cc ds_sizeind ds_size ds_mux ds_bad ds_aborted ds_blks ds_crc_en ds_blksize ds_ackseq
               ds_buf ds_lastflag ds_lost].
      rewrite Hfirst. rewrite Z.eqb_refl. cbn [negb andb].
      destruct (cc && negb ((if crc_en then crc mod 256 else 0) + 256 * (if crc_en then crc / 256 else 0) =? crc16 P)).
      + (* CRC refused: the client sees an abort *)
        intros Hsrv. inversion Hsrv; subst sv' outs. unfold read_response, abort_frame. cbn [n_q fb nth].
        change (128 =? RESPONSE_ABORTED) with true. cbv iota. discriminate.
      + intros Hsrv. inversion Hsrv; subst sv' outs.
        unfold read_response. cbn [n_q n_srv n_log fb nth].
        change (161 =? RESPONSE_ABORTED) with false. cbv beta iota.
        change (Z.land (fb [161; 0; 0; 0; 0; 0; 0; 0] 0) END_BLOCK_TRANSFER =? 0) with false. cbv iota.
        intros H. inversion H; subst w'. reflexivity.
  Qed.

  Lemma dl_srv_lost_idle s fr : ds_state s <> 1 -> dl_srv s true fr = (s, []).
  Proof.
    intros H. unfold dl_srv. destruct (negb (length fr =? 8)%nat); [reflexivity|].
    replace (ds_state s =? 1) with false by lia. reflexivity.
  Qed.

  Lemma dl_init_safe index sub crc_client blks c w1 :
    cc = crc_client && crc_en -> mux = [index mod 256; index / 256; sub] -> zlen P < 4294967296 -> blks_ok blks ->
    dl_init sys (mknet (fs_init (mkds 0 blks crc_en false false 0 [] 0 0 [] [] false false store0 bad0 aborted0) faults) [] [])
            index sub (Some (zlen P)) crc_client = (Ok c, w1) ->
    GS 1 [] c w1.
  Proof.
    intros Hcc Hmux Hsz Hblks H.
    destruct (lostb faults 1) eqn:El.
    - exfalso. revert H. unfold dl_init. destruct (negb (size_ok (Some (zlen P)))); [discriminate|].
      unfold request_response, fs_init. cbn [n_q].
      assert (Hsrv : dl_srv (mkds 0 blks crc_en false false 0 [] 0 0 [] [] false false store0 bad0 aborted0)
                       (lostb faults (0 + 1)) (dl_init_request index sub (Some (zlen P)) crc_client) =
                     (mkds 0 blks crc_en false false 0 [] 0 0 [] [] false false store0 bad0 aborted0, [])).
      { change (0 + 1) with 1. rewrite El. apply dl_srv_lost_idle. cbn. lia. }
      pose proof (send_request_NW _ 0 0 [] _ _ _ Hsrv) as Hsend. unfold NW in Hsend. rewrite Hsend.
      unfold read_response. cbn [n_q]. discriminate.
    - destruct (dl_init_ok index sub crc_client blks Hcc Hmux Hsz El) as [log Hok].
      rewrite Hok in H. inversion H; subst c w1.
      destruct (next_blk_ok blks Hblks) as [Hnb Hblks'].
      exists 0, 0, [], false, (fst (next_blk blks)), (snd (next_blk blks)), 0, [], 1, 1, log.
      split; [reflexivity|]. split; [reflexivity|]. split; [reflexivity|]. split; [reflexivity|].
      split; [lia|]. split; [lia|]. split; [lia|]. split; [assumption|]. split; [constructor|lia].
  Qed.
End Download.

(* ------------------------------------------------------------------ C12 block_download_exact *)
Lemma lostb_nil k : lostb [] k = false.
Proof. reflexivity. Qed.

Lemma block_download_exact : forall (P blks : list Z) (index sub : Z) (crc_client crc_server : bool) (depth : nat),
  1 <= zlen P < 4294967296 -> blks <> [] -> Forall (fun b => 1 <= b <= 127) blks -> (1 <= depth)%nat ->
  exists w,
    dl_transfer (faulty dl_srv) depth (mknet (fs_init (ds_init blks crc_server) []) [] [])
                index sub (Some (zlen P)) crc_client P = (Ok tt, w) /\
    ds_store (f_inner (n_srv w)) = Some P /\ ds_bad (f_inner (n_srv w)) = 0.
Proof.
  intros P blks index sub crc_client crc_server depth HP Hne Hall Hdepth.
  set (cc := crc_client && crc_server).
  set (mux := [index mod 256; index / 256; sub]).
  assert (Hf : only_dropc []) by constructor.
  destruct (dl_init_ok P [] crc_server cc mux None 0 false Hf index sub crc_client blks eq_refl eq_refl ltac:(lia) eq_refl)
    as [log0 Hinit].
  unfold dl_transfer. unfold ds_init. rewrite Hinit.
  destruct (next_blk_ok blks (conj Hne Hall)) as [Hnb Hblks'].
  destruct (write_all_clean P [] crc_server cc mux None 0 false Hf (S (length P)) depth P [] [] 0
              (fst (next_blk blks)) (snd (next_blk blks)) [] 1 1 log0 0) as (c' & w' & Hw & Hfin);
    try reflexivity; try lia; try assumption.
  - intros E. subst P. cbn in HP. lia.
  - constructor.
  - change (zlen (@nil Z)) with 0 in Hw. change (concat (@nil (list Z))) with (@nil Z) in Hw.
    rewrite Hw.
    destruct (dl_close_ok P [] crc_server cc mux None 0 false Hf 1 c' w' Hfin) as (w'' & Hc & Hs & Hb).
    + unfold cc. destruct crc_client, crc_server; intros; try reflexivity; discriminate.
    + intros; reflexivity.
    + rewrite Hc. exists w''. split; [reflexivity|]. split; assumption.
Qed.

(* ------------------------------------------------------------------ C12 single_loss_repaired *)
(* segment k (1 = first) of a transfer of nseg segments lies in a sub-block that is not the final one,
   for the block sizes the server announces *)
Definition nonfinal_segment (blks : list Z) (nseg k : Z) : bool :=
  loss_ok (S (Z.to_nat nseg)) (fst (next_blk blks)) (snd (next_blk blks)) nseg k.

Lemma lostb_single kk k : lostb [FDropC kk] k = (k =? kk).
Proof. cbn. rewrite orb_false_r. destruct (kk =? k) eqn:E; lia. Qed.

Lemma single_loss_repaired : forall (P blks : list Z) (index sub : Z) (crc_client crc_server : bool) (depth : nat) (k : Z),
  1 <= zlen P < 4294967296 -> blks <> [] -> Forall (fun b => 1 <= b <= 127) blks -> (2 <= depth)%nat ->
  1 <= k -> nonfinal_segment blks ((zlen P + 6) / 7) k = true ->
  exists w,
    dl_transfer (faulty dl_srv) depth (mknet (fs_init (ds_init blks crc_server) [FDropC (k + 1)]) [] [])
                index sub (Some (zlen P)) crc_client P = (Ok tt, w) /\
    ds_store (f_inner (n_srv w)) = Some P /\ ds_bad (f_inner (n_srv w)) = 0.
Proof.
  intros P blks index sub crc_client crc_server depth k HP Hne Hall Hdepth Hk Hnf.
  set (cc := crc_client && crc_server).
  set (mux := [index mod 256; index / 256; sub]).
  set (faults := [FDropC (k + 1)]).
  assert (Hf : only_dropc faults) by (repeat constructor).
  assert (Hkk : forall x, lostb faults x = (x =? k + 1)) by (intros x; apply lostb_single).
  destruct (dl_init_ok P faults crc_server cc mux None 0 false Hf index sub crc_client blks eq_refl eq_refl ltac:(lia))
    as [log0 Hinit].
  { rewrite Hkk. lia. }
  unfold dl_transfer. unfold ds_init. rewrite Hinit.
  destruct (next_blk_ok blks (conj Hne Hall)) as [Hnb Hblks'].
  destruct (write_all_loss P faults crc_server cc mux None 0 false Hf (k + 1) Hkk (S (length P)) depth P [] [] 0
              (fst (next_blk blks)) (snd (next_blk blks)) [] 1 1 log0 0 0 false) as (c' & w' & Hw & Hfin);
    try reflexivity; try lia; try assumption.
  - intros E. subst P. cbn in HP. lia.
  - constructor.
  - left. split; [reflexivity|]. split; [reflexivity|]. split; [lia|].
    exists (S (Z.to_nat ((zlen P + 6) / 7))). rewrite Z.sub_0_r. replace (k + 1 - 1) with k by lia. exact Hnf.
  - change (zlen (@nil Z)) with 0 in Hw. change (concat (firstn (Z.to_nat 0) (@nil (list Z)))) with (@nil Z) in Hw.
    rewrite Hw.
    destruct (dl_close_ok P faults crc_server cc mux None 0 false Hf (Z.max 1 (k + 1)) c' w' Hfin) as (w'' & Hc & Hs & Hb).
    + unfold cc. destruct crc_client, crc_server; intros; try reflexivity; discriminate.
    + intros nc Hnc. rewrite Hkk. lia.
    + rewrite Hc. exists w''. split; [reflexivity|]. split; assumption.
Qed.

(* =====================================================================================
   C13: block upload
   ===================================================================================== *)
(* ---- guards that hold against ANY peer: what a normal return of read() / readall implies ---- *)
Section UploadGuards.
  Context {S : Type} (srv : S -> frame -> S * list frame).
  Notation net := (@net S).

  (* the per-stream facts that never change after __init__ *)
  Definition same_cfg (u u' : ul) : Prop :=
    u_crcsup u' = u_crcsup u /\ u_size u' = u_size u /\ u_blksize u' = u_blksize u.

  Lemma same_cfg_refl u : same_cfg u u. Proof. repeat split. Qed.
  Lemma same_cfg_trans a b c : same_cfg a b -> same_cfg b c -> same_cfg a c.
  Proof. unfold same_cfg. intros (A1 & A2 & A3) (B1 & B2 & B3). repeat split; congruence. Qed.

  Lemma ack_block_cfg u w : same_cfg u (fst (ack_block srv u w)) /\
    u_done (fst (ack_block srv u w)) = u_done u /\ u_crc (fst (ack_block srv u w)) = u_crc u /\
    u_pos (fst (ack_block srv u w)) = u_pos u /\ u_error (fst (ack_block srv u w)) = u_error u.
  Proof. unfold ack_block, set_ackseq, same_cfg. cbn. repeat split. Qed.

  Lemma retx_loop_cfg fuel : forall u (w : net) r u' w', retx_loop fuel u w = (Ok r, u', w') ->
    same_cfg u u' /\ u_done u' = u_done u /\ u_crc u' = u_crc u /\ u_pos u' = u_pos u /\ u_error u' = u_error u.
  Proof.
    induction fuel as [|f IH]; intros u w r u' w' H; cbn [retx_loop] in H; [discriminate|].
    destruct (read_response w) as [[r0|k|a] w1]; try discriminate.
    destruct (Z.land (fb r0 0) 127 =? u_ackseq u + 1).
    - inversion H; subst. unfold set_ackseq, same_cfg. cbn. repeat split.
    - exact (IH _ _ _ _ _ H).
  Qed.

  Lemma ul_retransmit_cfg u w r u' w' : ul_retransmit srv u w = (Ok r, u', w') ->
    same_cfg u u' /\ u_done u' = u_done u /\ u_crc u' = u_crc u /\ u_pos u' = u_pos u /\ u_error u' = u_error u.
  Proof.
    unfold ul_retransmit. pose proof (ack_block_cfg u w) as Ha.
    destruct (ack_block srv u w) as [u1 w1]. cbn [fst] in Ha. intros H.
    apply retx_loop_cfg in H. destruct Ha as (A1 & A2 & A3 & A4 & A5). destruct H as (B1 & B2 & B3 & B4 & B5).
    split; [eapply same_cfg_trans; eassumption|]. repeat split; congruence.
  Qed.

  Lemma end_upload_cfg u w n u' w' : end_upload srv u w = (Ok n, u', w') ->
    same_cfg u u' /\ u_done u' = u_done u /\ u_crc u' = u_crc u /\ u_pos u' = u_pos u /\ u_error u' = u_error u /\
    exists sc, u_scrc u' = Some sc.
  Proof.
    unfold end_upload. destruct (read_response w) as [[r0|k|a] w1]; try discriminate.
    destruct (negb (Z.land (fb r0 0) 224 =? RESPONSE_BLOCK_UPLOAD)); [discriminate|].
    destruct (negb (Z.land (fb r0 0) 3 =? END_BLOCK_TRANSFER)); [discriminate|].
    intros H. inversion H; subst. unfold same_cfg. cbn. repeat split. eexists. reflexivity.
  Qed.

  (* read_tail: the data handed out extends the running CRC and the position; a final segment
     is only handed out when the announced CRC (if negotiated) and the announced size (if any) match *)
  Lemma read_tail_guard u w resp data u' w' : read_tail srv u w resp = (Ok data, u', w') ->
    same_cfg u u' /\ u_error u' = u_error u /\
    u_pos u' = u_pos u + zlen data /\
    (u_crcsup u = true -> u_crc u' = crc_from (u_crc u) data) /\
    (u_done u' = true ->
       (u_crcsup u = true -> u_scrc u' = Some (u_crc u')) /\
       (forall s, u_size u = Some s -> u_pos u' = s)).
  Proof.
    unfold read_tail.
    set (last := negb (Z.land (fb resp 0) NO_MORE_BLOCKS =? 0)).
    pose proof (ack_block_cfg u w) as Ha.
    destruct ((u_blksize u <=? u_ackseq u) || last) eqn:Eack.
    - destruct (ack_block srv u w) as [u1 w1]. cbn [fst] in Ha. destruct Ha as (A1 & A2 & A3 & A4 & A5).
      destruct last eqn:El.
      + destruct (end_upload srv u1 w1) as [[[n|k|a] u2] w2] eqn:Ee; try discriminate.
        apply end_upload_cfg in Ee. destruct Ee as (B1 & B2 & B3 & B4 & B5 & sc & B6).
        assert (C : same_cfg u u2) by (eapply same_cfg_trans; eassumption).
        destruct C as (C1 & C2 & C3).
        set (d := skipn 1 (firstn (Z.to_nat (8 - n)) resp)).
        rewrite B6.
        destruct (u_crcsup u2 && true && negb (sc =? (if u_crcsup u2 then crc_from (u_crc u2) d else u_crc u2))) eqn:Ecrc;
          [discriminate|].
        cbn [u_pos u_size andb].
        destruct (match u_size u2 with Some s => negb (u_pos u2 + zlen d =? s) | None => false end) eqn:Esz; [discriminate|].
        intros H. inversion H; subst data u' w'. cbn [u_crcsup u_size u_blksize u_error u_pos u_crc u_done u_scrc].
        unfold same_cfg. cbn [u_crcsup u_size u_blksize].
        repeat split; try congruence.
        * intros Hc. rewrite C1, Hc. congruence.
        * intros Hc. rewrite C1, Hc in *. cbn [andb] in Ecrc. f_equal. lia.
        * intros s Hs. rewrite C2, Hs in Esz. lia.
      + cbn [andb].
        set (d := skipn 1 (firstn 8 resp)).
        rewrite andb_false_r. cbn [andb].
        intros H. inversion H; subst data u' w'. cbn [u_crcsup u_size u_blksize u_error u_pos u_crc u_done u_scrc].
        destruct A1 as (C1 & C2 & C3). unfold same_cfg. cbn [u_crcsup u_size u_blksize].
        repeat split; try congruence; try discriminate.
        intros Hc. rewrite C1, Hc. congruence.
    - apply orb_false_elim in Eack. destruct Eack as [_ El]. rewrite El.
      set (d := skipn 1 (firstn 8 resp)).
      rewrite andb_false_r. cbn [andb].
      intros H. inversion H; subst data u' w'. cbn [u_crcsup u_size u_blksize u_error u_pos u_crc u_done u_scrc].
      unfold same_cfg. cbn [u_crcsup u_size u_blksize].
      repeat split; try congruence; try discriminate.
      intros Hc. rewrite Hc. reflexivity.
  Qed.

  (* what is known about the stream after the bytes [acc] have been handed out *)
  Definition ul_inv (u : ul) (acc : list Z) : Prop :=
    (u_crcsup u = true -> u_crc u = crc16 acc) /\ u_pos u = zlen acc /\
    (u_done u = true ->
       (u_crcsup u = true -> u_scrc u = Some (u_crc u)) /\ (forall s, u_size u = Some s -> u_pos u = s)).

  Lemma read_tail_inv u0 u w resp data u' w' acc :
    ul_inv u0 acc -> u_done u0 = false ->
    same_cfg u0 u -> u_done u = u_done u0 -> u_crc u = u_crc u0 -> u_pos u = u_pos u0 -> u_error u = u_error u0 ->
    read_tail srv u w resp = (Ok data, u', w') ->
    ul_inv u' (acc ++ data) /\ same_cfg u0 u' /\ u_error u' = u_error u0.
  Proof.
    intros (I1 & I2 & I3) Hd0 Hc Hd Hcrc Hpos Herr H.
    apply read_tail_guard in H. destruct H as (G1 & G2 & G3 & G4 & G5).
    destruct Hc as (C1 & C2 & C3).
    assert (Hs : same_cfg u0 u') by (eapply same_cfg_trans; [split; [|split]; eassumption|exact G1]).
    split; [|split; [exact Hs|congruence]].
    destruct Hs as (S1 & S2 & S3).
    split; [|split].
    - intros Hsup. rewrite S1 in Hsup. rewrite G4 by congruence. rewrite Hcrc, (I1 Hsup). symmetry. apply crc_from_app.
    - rewrite G3, Hpos, I2, zlen_app. reflexivity.
    - intros Hdone. destruct (G5 Hdone) as (G5a & G5b). split.
      + intros Hsup. apply G5a. congruence.
      + intros s Hs. apply G5b. congruence.
  Qed.

  Lemma ul_read_inv u w data u' w' acc :
    ul_inv u acc -> ul_read srv u w = (Ok data, u', w') ->
    ul_inv u' (acc ++ data) /\ same_cfg u u' /\ u_error u' = u_error u.
  Proof.
    intros HI. unfold ul_read. destruct (u_done u) eqn:Ed.
    - intros H. inversion H; subst. rewrite app_nil_r. split; [exact HI|]. split; [apply same_cfg_refl|reflexivity].
    - destruct (read_response w) as [[resp|k|a] w1]; try discriminate.
      + destruct (Z.land (fb resp 0) 127 =? u_ackseq u + 1).
        * intros H. eapply (read_tail_inv u (set_ackseq u (Z.land (fb resp 0) 127))); try eassumption; try reflexivity.
          unfold same_cfg, set_ackseq. cbn. repeat split.
        * destruct (ul_retransmit srv u w1) as [[[resp'|k|a] u2] w2] eqn:Er; try discriminate.
          apply ul_retransmit_cfg in Er. destruct Er as (A1 & A2 & A3 & A4 & A5).
          intros H. eapply (read_tail_inv u u2); try eassumption.
      + destruct (ul_retransmit srv u w1) as [[[resp'|k'|a] u2] w2] eqn:Er; try discriminate.
        apply ul_retransmit_cfg in Er. destruct Er as (A1 & A2 & A3 & A4 & A5).
        intros H. eapply (read_tail_inv u u2); try eassumption.
  Qed.

  Lemma readall_inv fuel : forall u w acc out u' w',
    ul_inv u acc -> readall srv fuel u w acc = (Ok out, u', w') ->
    ul_inv u' out /\ same_cfg u u' /\ u_error u' = u_error u.
  Proof.
    induction fuel as [|f IH]; intros u w acc out u' w' HI H; cbn [readall] in H; [discriminate|].
    destruct (ul_read srv u w) as [[[data|k|a] u1] w1] eqn:Er; try discriminate.
    destruct (ul_read_inv _ _ _ _ _ _ HI Er) as (I1 & C1 & E1).
    destruct data as [|x data'].
    - inversion H; subst. rewrite app_nil_r in I1. split; [exact I1|]. split; assumption.
    - destruct (IH _ _ _ _ _ _ I1 H) as (I2 & C2 & E2).
      split; [exact I2|]. split; [eapply same_cfg_trans; eassumption|congruence].
  Qed.

  (* ---- C13 crc_guard / size_guard: any peer whatsoever ---- *)
  Lemma ul_init_fresh w index sub blksize crc u w1 :
    ul_init srv w index sub blksize crc = (Ok u, w1) ->
    ul_inv u [] /\ u_done u = false /\ u_error u = false /\ (u_crcsup u = true -> crc = true).
  Proof.
    unfold ul_init. destruct (request_response srv w _) as [[r|k|a] w0]; try discriminate.
    destruct (negb (Z.land (fb r 0) 224 =? RESPONSE_BLOCK_UPLOAD)); [discriminate|].
    destruct (negb (fb r 1 + 256 * fb r 2 =? index) || negb (fb r 3 =? sub)); [discriminate|].
    intros H. inversion H; subst. cbn [u_done u_error u_crcsup]. split; [|split; [reflexivity|split; [reflexivity|]]].
    - unfold ul_inv. cbn [u_crcsup u_crc u_pos u_done]. split; [reflexivity|]. split; [reflexivity|discriminate].
    - destruct crc; [reflexivity|discriminate].
  Qed.

  Lemma crc_size_guard fuel w index sub blksize crc data u w' :
    ul_transfer srv fuel w index sub blksize crc = (Ok data, u, w') ->
    u_done u = true ->
    (u_crcsup u = true -> u_scrc u = Some (crc16 data)) /\
    (forall s, u_size u = Some s -> zlen data = s).
  Proof.
    unfold ul_transfer. destruct (ul_init srv w index sub blksize crc) as [[u0|k|a] w1] eqn:Ei; try discriminate.
    destruct (ul_init_fresh _ _ _ _ _ _ _ Ei) as (I0 & _).
    destruct (readall srv fuel u0 w1 []) as [[r u2] w2] eqn:Er.
    intros H. inversion H; subst r u2 w'. clear H.
    destruct (readall_inv _ _ _ _ _ _ _ I0 Er) as ((J1 & J2 & J3) & _ & _).
    intros Hdone. destruct (J3 Hdone) as (K1 & K2). split.
    - intros Hsup. rewrite (K1 Hsup), (J1 Hsup). reflexivity.
    - intros s Hs. rewrite <- J2. apply K2. exact Hs.
  Qed.
End UploadGuards.

(* ---- helpers about the segments the reference upload server queues ---- *)
Lemma us_segments_cons k seq rest : rest <> [] ->
  us_segments (S k) seq rest =
  match skipn 7 rest with
  | [] => [pad8 ((seq + 128) :: firstn 7 rest)]
  | _ => pad8 (seq :: firstn 7 rest) :: us_segments k (seq + 1) (skipn 7 rest)
  end.
Proof. intros H. destruct rest; [contradiction|reflexivity]. Qed.

Lemma us_segments_nil k seq : us_segments k seq [] = [].
Proof. destruct k; reflexivity. Qed.

Definition endf_facts (n : Z) : bool :=
  negb (193 + 4 * n =? 128) && (Z.land (193 + 4 * n) 224 =? 192) && (Z.land (193 + 4 * n) 3 =? 1) &&
  (Z.land (Z.shiftr (193 + 4 * n) 2) 7 =? n).
Lemma endf_bits n : 0 <= n <= 6 ->
  (193 + 4 * n =? 128) = false /\ Z.land (193 + 4 * n) 224 = 192 /\ Z.land (193 + 4 * n) 3 = 1 /\
  Z.land (Z.shiftr (193 + 4 * n) 2) 7 = n.
Proof.
  intros H. pose proof (range_forall endf_facts 0 7 ltac:(vm_compute; reflexivity) n ltac:(lia)) as F.
  unfold endf_facts in F. repeat (apply andb_prop in F; destruct F as [F ?]). repeat split; lia.
Qed.

Lemma skipn_app_exact {A} (a b : list A) n : n = length a -> skipn n (a ++ b) = b.
Proof. intros ->. rewrite skipn_app, skipn_all, Nat.sub_diag. reflexivity. Qed.

Lemma readall_step fuel u (w : @net (fstate usrv)) acc data u1 w1 : data <> [] ->
  ul_read (faulty ul_srv) u w = (Ok data, u1, w1) ->
  readall (faulty ul_srv) (S fuel) u w acc = readall (faulty ul_srv) fuel u1 w1 (acc ++ data).
Proof. intros Hne H. cbn [readall]. rewrite H. destruct data; [contradiction|reflexivity]. Qed.

(* ------------------------------------------------------------------ C12 normal_return_means_committed *)
Lemma only_dropc_map drops : only_dropc (map FDropC drops).
Proof. induction drops; constructor; [exact I|assumption]. Qed.

Lemma normal_return_means_committed :
  forall (P blks : list Z) (index sub : Z) (crc_client crc_server : bool) (depth : nat) (drops : list Z) w,
  1 <= zlen P < 4294967296 -> blks <> [] -> Forall (fun b => 1 <= b <= 127) blks ->
  dl_transfer (faulty dl_srv) depth (mknet (fs_init (ds_init blks crc_server) (map FDropC drops)) [] [])
              index sub (Some (zlen P)) crc_client P = (Ok tt, w) ->
  ds_store (f_inner (n_srv w)) = Some P.
Proof.
  intros P blks index sub crc_client crc_server depth drops w HP Hne Hall H.
  set (cc := crc_client && crc_server).
  set (mux := [index mod 256; index / 256; sub]).
  pose proof (only_dropc_map drops) as Hf.
  revert H. unfold dl_transfer, ds_init.
  destruct (dl_init (faulty dl_srv) _ index sub (Some (zlen P)) crc_client) as [[c|k|a] w1] eqn:Ei; try discriminate.
  pose proof (dl_init_safe P (map FDropC drops) crc_server cc mux None 0 false Hf index sub crc_client blks c w1
                eq_refl eq_refl ltac:(lia) (conj Hne Hall) Ei) as HG.
  pose proof (write_all_safe P (map FDropC drops) crc_server cc mux None 0 false Hf 1 (S (length P)) depth [] P c w1 eq_refl) as HW.
  assert (HPne : P <> []) by (intros E; subst P; cbn in HP; lia).
  specialize (HW HPne HG).
  destruct (write_all (faulty dl_srv) (S (length P)) depth c w1 P) as [[r1 c2] w2].
  destruct (dl_close (faulty dl_srv) c2 w2) as [[u|k|a] w3] eqn:Ec; try discriminate.
  intros H. inversion H; subst r1 w3. destruct u.
  exact (dl_close_safe P (map FDropC drops) crc_server cc mux None 0 false Hf 1 c2 w2 w HW Ec).
Qed.

(* =====================================================================================
   C13: a normal return is a completed transfer (reference server, any faults)
   ===================================================================================== *)

(* ---- with a peer that only ever delivers 8-byte frames, readall returns only after the transfer completed ---- *)
Definition len8 (fr : frame) : Prop := length fr = 8%nat.

Section Frames8.
  Context {S : Type} (srv : S -> frame -> S * list frame).
  Context (Hsrv8 : forall s fr, Forall len8 (snd (srv s fr))).
  Notation net := (@net S).
  Definition q8 (w : net) : Prop := Forall len8 (n_q w).

  Lemma send_request_q8 w fr : q8 w -> q8 (send_request srv w fr).
  Proof.
    unfold q8, send_request. intros H. pose proof (Hsrv8 (n_srv w) fr) as H8.
    destruct (srv (n_srv w) fr) as [s' rs]. cbn [snd] in H8. cbn [n_q]. apply Forall_app. split; assumption.
  Qed.

  Lemma read_response_q8 w r w' : q8 w -> read_response w = (Ok r, w') -> q8 w' /\ len8 r.
  Proof.
    unfold q8, read_response. destruct (n_q w) as [|x q] eqn:E; [discriminate|].
    intros H. inversion H; subst. destruct (fb x 0 =? RESPONSE_ABORTED); [discriminate|].
    intros H'. inversion H'; subst. cbn [n_q]. split; assumption.
  Qed.

  Lemma read_response_q8_any w r w' : q8 w -> read_response w = (r, w') -> q8 w'.
  Proof.
    unfold q8, read_response. destruct (n_q w) as [|x q] eqn:E.
    - intros _ H. inversion H; subst. rewrite E. constructor.
    - intros H. inversion H; subst. destruct (fb x 0 =? RESPONSE_ABORTED); intros H'; inversion H'; subst; cbn [n_q]; assumption.
  Qed.

  Lemma ack_block_q8 u w : q8 w -> q8 (snd (ack_block srv u w)).
  Proof. intros H. unfold ack_block. cbn [snd]. apply send_request_q8. exact H. Qed.

  Lemma retx_loop_q8 fuel : forall u (w : net) r u' w', q8 w -> retx_loop fuel u w = (Ok r, u', w') -> q8 w' /\ len8 r.
  Proof.
    induction fuel as [|f IH]; intros u w r u' w' Hq H; cbn [retx_loop] in H; [discriminate|].
    destruct (read_response w) as [[r0|k|a] w1] eqn:Er; try discriminate.
    destruct (read_response_q8 _ _ _ Hq Er) as [Hq1 Hr0].
    destruct (Z.land (fb r0 0) 127 =? u_ackseq u + 1).
    - inversion H; subst. split; assumption.
    - exact (IH _ _ _ _ _ Hq1 H).
  Qed.

  Lemma ul_retransmit_q8 u w r u' w' : q8 w -> ul_retransmit srv u w = (Ok r, u', w') -> q8 w' /\ len8 r.
  Proof.
    unfold ul_retransmit. intros Hq. pose proof (ack_block_q8 u w Hq) as Ha.
    destruct (ack_block srv u w) as [u1 w1]. cbn [snd] in Ha. apply retx_loop_q8. exact Ha.
  Qed.

  Lemma end_upload_q8 u w n u' w' : q8 w -> end_upload srv u w = (Ok n, u', w') -> q8 w'.
  Proof.
    unfold end_upload. intros Hq. destruct (read_response w) as [[r0|k|a] w1] eqn:Er; try discriminate.
    destruct (read_response_q8 _ _ _ Hq Er) as [Hq1 _].
    destruct (negb (Z.land (fb r0 0) 224 =? RESPONSE_BLOCK_UPLOAD)); [discriminate|].
    destruct (negb (Z.land (fb r0 0) 3 =? END_BLOCK_TRANSFER)); [discriminate|].
    intros H. inversion H; subst. exact Hq1.
  Qed.

  (* an 8-byte segment that is not the last one carries 7 bytes *)
  Lemma read_tail_q8 u w resp data u' w' : q8 w -> len8 resp ->
    read_tail srv u w resp = (Ok data, u', w') ->
    q8 w' /\ (data = [] -> u_done u' = true).
  Proof.
    intros Hq Hr. unfold read_tail.
    set (last := negb (Z.land (fb resp 0) NO_MORE_BLOCKS =? 0)).
    assert (Hnl : skipn 1 (firstn 8 resp) <> []).
    { unfold len8 in Hr. rewrite firstn_all2 by lia. destruct resp as [|x [|y r]]; cbn in Hr; try lia. cbn. discriminate. }
    pose proof (ack_block_q8 u w Hq) as Ha.
    destruct ((u_blksize u <=? u_ackseq u) || last) eqn:Eack.
    - destruct (ack_block srv u w) as [u1 w1]. cbn [snd] in Ha.
      destruct last eqn:El.
      + destruct (end_upload srv u1 w1) as [[[n|k|a] u2] w2] eqn:Ee; try discriminate.
        pose proof (end_upload_q8 _ _ _ _ _ Ha Ee) as Hq2.
        match goal with |- context [if ?c then _ else _] => destruct c end; [discriminate|].
        match goal with |- context [if ?c then _ else _] => destruct c end; [discriminate|].
        intros H. inversion H; subst. cbn [u_done]. split; [exact Hq2|reflexivity].
      + match goal with |- context [if ?c then _ else _] => destruct c end; [discriminate|].
        match goal with |- context [if ?c then _ else _] => destruct c end; [discriminate|].
        intros H. inversion H; subst. split; [exact Ha|]. intros E. contradiction.
    - apply orb_false_elim in Eack. destruct Eack as [_ El]. rewrite El.
      match goal with |- context [if ?c then _ else _] => destruct c end; [discriminate|].
      match goal with |- context [if ?c then _ else _] => destruct c end; [discriminate|].
      intros H. inversion H; subst. split; [exact Hq|]. intros E. contradiction.
  Qed.

  Lemma ul_read_q8 u w data u' w' : q8 w -> ul_read srv u w = (Ok data, u', w') ->
    q8 w' /\ (data = [] -> u_done u' = true).
  Proof.
    intros Hq. unfold ul_read. destruct (u_done u) eqn:Ed.
    - intros H. inversion H; subst. split; [exact Hq|]. intros _. exact Ed.
    - destruct (read_response w) as [[resp|k|a] w1] eqn:Er; try discriminate.
      + destruct (read_response_q8 _ _ _ Hq Er) as [Hq1 Hr].
        destruct (Z.land (fb resp 0) 127 =? u_ackseq u + 1).
        * apply read_tail_q8; assumption.
        * destruct (ul_retransmit srv u w1) as [[[resp'|k|a] u2] w2] eqn:Et; try discriminate.
          destruct (ul_retransmit_q8 _ _ _ _ _ Hq1 Et) as [Hq2 Hr2]. apply read_tail_q8; assumption.
      + pose proof (read_response_q8_any _ _ _ Hq Er) as Hq1.
        destruct (ul_retransmit srv u w1) as [[[resp'|k'|a] u2] w2] eqn:Et; try discriminate.
        destruct (ul_retransmit_q8 _ _ _ _ _ Hq1 Et) as [Hq2 Hr2]. apply read_tail_q8; assumption.
  Qed.

  Lemma readall_done fuel : forall u w acc out u' w', q8 w -> readall srv fuel u w acc = (Ok out, u', w') -> u_done u' = true.
  Proof.
    induction fuel as [|f IH]; intros u w acc out u' w' Hq H; cbn [readall] in H; [discriminate|].
    destruct (ul_read srv u w) as [[[data|k|a] u1] w1] eqn:Er; try discriminate.
    destruct (ul_read_q8 _ _ _ _ _ Hq Er) as [Hq1 Hd].
    destruct data as [|x data'].
    - inversion H; subst. apply Hd. reflexivity.
    - exact (IH _ _ _ _ _ _ Hq1 H).
  Qed.

  Lemma request_response_q8 w fr r w' : request_response srv w fr = (r, w') -> q8 w'.
  Proof.
    unfold request_response.
    set (w0 := match n_q w with [] => w | _ => mknet (n_srv w) [] (n_log w) end).
    assert (H0 : q8 w0) by (unfold w0, q8; destruct (n_q w) eqn:E; [rewrite E|cbn [n_q]]; constructor).
    pose proof (send_request_q8 w0 fr H0) as H1.
    destruct (read_response (send_request srv w0 fr)) as [[r0|k|a] w2] eqn:Er; intros H; inversion H; subst.
    - exact (read_response_q8_any _ _ _ H1 Er).
    - unfold client_abort. apply send_request_q8. exact (read_response_q8_any _ _ _ H1 Er).
    - exact (read_response_q8_any _ _ _ H1 Er).
  Qed.

  Lemma ul_transfer_done fuel w index sub blksize crc data u w' :
    ul_transfer srv fuel w index sub blksize crc = (Ok data, u, w') -> u_done u = true.
  Proof.
    unfold ul_transfer. destruct (ul_init srv w index sub blksize crc) as [[u0|k|a] w1] eqn:Ei; try discriminate.
    assert (Hq1 : q8 w1).
    { revert Ei. unfold ul_init. destruct (request_response srv w _) as [[r|k|a] w0] eqn:Err; try discriminate.
      pose proof (request_response_q8 _ _ _ _ Err) as Hq0.
      destruct (negb (Z.land (fb r 0) 224 =? RESPONSE_BLOCK_UPLOAD)); [discriminate|].
      destruct (negb (fb r 1 + 256 * fb r 2 =? index) || negb (fb r 3 =? sub)); [discriminate|].
      intros H. inversion H; subst. apply send_request_q8. exact Hq0. }
    destruct (readall srv fuel u0 w1 []) as [[r u2] w2] eqn:Er.
    intros H. inversion H; subst. exact (readall_done _ _ _ _ _ _ _ Hq1 Er).
  Qed.
End Frames8.

(* ---- the reference upload server behind the fault injector only delivers 8-byte frames ---- *)
Lemma xor_at_length fr i m : length (xor_at fr i m) = length fr.
Proof. revert i. induction fr as [|b r IH]; intros i; [destruct i; reflexivity|]. destruct i; cbn; [reflexivity|now rewrite IH]. Qed.

Lemma abort_frame_len8 (fr : frame) code : len8 fr -> len8 (abort_frame (firstn 3 (skipn 1 fr)) code).
Proof.
  unfold len8, abort_frame. intros H. cbn [length]. rewrite app_length, le_encode_length, firstn_length, skipn_length. lia.
Qed.

Lemma mangle1_len8 faults j frs : Forall len8 frs -> Forall len8 (mangle1 faults j frs).
Proof.
  revert frs. induction faults as [|f r IH]; intros frs H; cbn [mangle1]; [exact H|].
  apply IH. destruct f; try exact H.
  - destruct (j0 =? j); [constructor|exact H].
  - destruct (j0 =? j); [|exact H]. apply Forall_forall. intros x Hx. apply in_map_iff in Hx. destruct Hx as (y & <- & Hy).
    rewrite Forall_forall in H. unfold len8. rewrite xor_at_length. apply H. exact Hy.
  - destruct (j0 =? j); [|exact H]. apply Forall_forall. intros x Hx. apply in_map_iff in Hx. destruct Hx as (y & <- & Hy).
    rewrite Forall_forall in H. apply abort_frame_len8. apply H. exact Hy.
  - destruct (j0 =? j); [|exact H]. apply Forall_app. split; exact H.
Qed.

Lemma mangle_len8 faults ns outs : Forall len8 outs -> Forall len8 (mangle faults ns outs).
Proof.
  revert ns. induction outs as [|fr r IH]; intros ns H; cbn [mangle]; [constructor|].
  inversion H; subst. apply Forall_app. split; [apply mangle1_len8; repeat constructor; assumption|apply IH; assumption].
Qed.

Lemma faulty_len8 {S} (srv : S -> bool -> frame -> S * list frame) :
  (forall s l fr, Forall len8 (snd (srv s l fr))) -> forall fs fr, Forall len8 (snd (faulty srv fs fr)).
Proof.
  intros H fs fr. unfold faulty. pose proof (H (f_inner fs) (lostb (f_faults fs) (f_nc fs + 1)) fr) as H8.
  destruct (srv (f_inner fs) (lostb (f_faults fs) (f_nc fs + 1)) fr) as [s' outs]. cbn [snd] in *.
  apply mangle_len8. exact H8.
Qed.

Lemma us_segments_len8 k : forall seq rest, Forall len8 (us_segments k seq rest).
Proof.
  induction k as [|k IH]; intros seq rest; cbn [us_segments]; [constructor|].
  destruct rest as [|x r]; [constructor|].
  assert (H7 : (length (firstn 7 (x :: r)) <= 7)%nat) by (rewrite firstn_length; lia).
  destruct (skipn 7 (x :: r)) eqn:E.
  - constructor; [|constructor]. unfold len8. apply pad8_length. cbn [length]. lia.
  - constructor; [|apply IH]. unfold len8. apply pad8_length. cbn [length]. lia.
Qed.

Lemma ul_srv_len8 s l fr : Forall len8 (snd (ul_srv s l fr)).
Proof.
  unfold ul_srv. destruct l; [constructor|].
  destruct (negb (length fr =? 8)%nat) eqn:El; [constructor|].
  assert (H8 : len8 fr) by (unfold len8; apply Nat.eqb_eq; destruct (length fr =? 8)%nat; [reflexivity|discriminate]).
  destruct (fb fr 0 =? 128); [constructor|].
  destruct (negb (Z.land (fb fr 0) 224 =? 160)); [cbn [snd]; constructor; [apply abort_frame_len8; exact H8|constructor]|].
  assert (Hmux : length (firstn 3 (skipn 1 fr)) = 3%nat) by (unfold len8 in H8; rewrite firstn_length, skipn_length; lia).
  destruct ((Z.land (fb fr 0) 3 =? 0) && (us_state s =? 0)).
  { cbn [snd]. constructor; [|constructor]. unfold len8. cbn [length]. rewrite app_length, Hmux.
    destruct (us_sizeind s); [rewrite le_encode_length|]; reflexivity. }
  destruct ((Z.land (fb fr 0) 3 =? 3) && (us_state s =? 1)).
  { unfold us_send_block. cbn [snd]. apply us_segments_len8. }
  destruct ((Z.land (fb fr 0) 3 =? 2) && (us_state s =? 2)).
  { destruct (zlen (us_value s) <=? us_start s + 7 * fb fr 1).
    - cbn [snd]. constructor; [reflexivity|constructor].
    - unfold us_send_block. cbn [snd]. apply us_segments_len8. }
  destruct ((Z.land (fb fr 0) 3 =? 1) && (us_state s =? 3)); [constructor|].
  cbn [snd]. constructor; [apply abort_frame_len8; exact H8|constructor].
Qed.

(* C13 crc_guard for the reference server under ANY fault list: a normal return is a completed transfer,
   its data have the announced CRC (when negotiated) and the announced length *)
Lemma crc_guard_ref : forall (V : list Z) (crc_server size_ind : bool) (faults : list fault) fuel index sub blksize crc data u w',
  ul_transfer (faulty ul_srv) fuel (mknet (fs_init (us_init V crc_server size_ind) faults) [] []) index sub blksize crc = (Ok data, u, w') ->
  u_done u = true /\
  (u_crcsup u = true -> u_scrc u = Some (crc16 data)) /\
  (forall s, u_size u = Some s -> zlen data = s).
Proof.
  intros V crc_server size_ind faults fuel index sub blksize crc data u w' H.
  assert (Hd : u_done u = true).
  { eapply (ul_transfer_done (faulty ul_srv)); [|exact H]. apply faulty_len8. apply ul_srv_len8. }
  split; [exact Hd|]. exact (crc_size_guard (faulty ul_srv) _ _ _ _ _ _ _ _ _ H Hd).
Qed.

(* =====================================================================================
   C13: one lost segment is repaired (upload section generalised over the fault list)
   ===================================================================================== *)

(* ---- one lost server frame ---- *)
Definition remove_nth {A} (n : nat) (l : list A) : list A := firstn n l ++ skipn (S n) l.

Lemma remove_nth_S {A} n (x : A) l : remove_nth (S n) (x :: l) = x :: remove_nth n l.
Proof. reflexivity. Qed.

Lemma mangle_single_drop j : forall outs ns,
  mangle [FDropS j] ns outs =
  if (ns <? j) && (j <=? ns + zlen outs) then remove_nth (Z.to_nat (j - ns - 1)) outs else outs.
Proof.
  induction outs as [|fr r IH]; intros ns.
  - cbn [mangle]. destruct ((ns <? j) && (j <=? ns + zlen (@nil frame))); [|reflexivity].
    unfold remove_nth. rewrite firstn_nil, skipn_nil. reflexivity.
  - cbn [mangle mangle1]. rewrite IH. rewrite zlen_cons.
    destruct (Z.eq_dec j (ns + 1)) as [E|E].
    + replace (j =? ns + 1) with true by lia. cbn [app].
      replace ((ns + 1 <? j) && (j <=? ns + 1 + zlen r)) with false by lia.
      pose proof (zlen_nonneg r).
      replace ((ns <? j) && (j <=? ns + (1 + zlen r))) with true by lia.
      replace (Z.to_nat (j - ns - 1)) with 0%nat by lia. reflexivity.
    + replace (j =? ns + 1) with false by lia. cbn [app].
      replace ((ns <? j) && (j <=? ns + (1 + zlen r))) with ((ns + 1 <? j) && (j <=? ns + 1 + zlen r)) by lia.
      destruct ((ns + 1 <? j) && (j <=? ns + 1 + zlen r)) eqn:C; [|reflexivity].
      replace (Z.to_nat (j - ns - 1)) with (S (Z.to_nat (j - (ns + 1) - 1))) by lia.
      rewrite remove_nth_S. reflexivity.
Qed.

Lemma lostb_drops j k : lostb [FDropS j] k = false.
Proof. reflexivity. Qed.

Section UploadF.
  Context (V : list Z) (B : Z) (crc_client crc_en si : bool) (faults : list fault).
  Context (HB : 1 <= B <= 127).
  Context (Hnl : forall k, lostb faults k = false).

  Notation usys := (faulty ul_srv).
  Notation NetU := (@net (fstate usrv)).
  Let cc := crc_client && crc_en.

  Definition UCF (done : bool) (pos crc : Z) (scrc : option Z) (a : Z) : ul :=
    mkul done pos crc scrc a false (if si then Some (zlen V) else None) cc B.
  Definition USF (st start sent : Z) (ex : bool) : usrv := mkus st V crc_en cc B start sent ex false 0 false si.
  Definition NUF (sv : usrv) (q : list frame) (nc ns : Z) (log : list frame) : NetU := mknet (mkfs sv nc ns faults) q log.

  Lemma usend_requestF sv (q : list frame) nc ns log fr sv' outs :
    ul_srv sv false fr = (sv', outs) ->
    send_request usys (NUF sv q nc ns log) fr =
    NUF sv' (q ++ mangle faults ns outs) (nc + 1) (ns + zlen outs)
       (rev (map (cons 1) (mangle faults ns outs)) ++ (0 :: fr) :: log).
  Proof.
    intros H. unfold send_request, NUF, faulty. cbn [n_srv n_q n_log f_inner f_nc f_ns f_faults].
    rewrite Hnl, H. reflexivity.
  Qed.

  (* ---- the server on an acknowledge ---- *)
  Definition burst_at (pos : Z) : list frame := us_segments (Z.to_nat B) 1 (skipn (Z.to_nat pos) V).

  Lemma ack_more start sent ex a' :
    a' <= sent -> start + 7 * a' < zlen V ->
    ul_srv (USF 2 start sent ex) false [Z.lor REQUEST_BLOCK_UPLOAD BLOCK_TRANSFER_RESPONSE; a'; B; 0; 0; 0; 0; 0] =
    (USF 2 (start + 7 * a') (zlen (burst_at (start + 7 * a'))) (ex && (a' =? sent)), burst_at (start + 7 * a')).
  Proof.
    intros Ha Hm. change (Z.lor REQUEST_BLOCK_UPLOAD BLOCK_TRANSFER_RESPONSE) with 162.
    unfold ul_srv, fb. cbn [length Nat.eqb negb nth].
    change (162 =? 128) with false. change (Z.land 162 224 =? 160) with true. change (Z.land 162 3) with 2.
    change (2 =? 0) with false. change (2 =? 3) with false. change (2 =? 2) with true. cbn [negb andb].
    cbn [USF us_state us_sent us_start us_acks_exact us_bad us_value]. change (2 =? 2) with true. cbn [andb].
    replace (sent <? a') with false by lia.
    replace ((1 <=? B) && (B <=? 127)) with true by lia.
    replace (zlen V <=? start + 7 * a') with false by lia.
    unfold us_send_block, burst_at. cbn [us_value us_crc_en us_cc us_ended us_aborted]. reflexivity.
  Qed.

  Lemma ack_end start sent ex a' :
    a' <= sent -> zlen V <= start + 7 * a' ->
    let n := (7 - zlen V mod 7) mod 7 in
    let crcv := if cc then crc16 V else 0 in
    ul_srv (USF 2 start sent ex) false [Z.lor REQUEST_BLOCK_UPLOAD BLOCK_TRANSFER_RESPONSE; a'; B; 0; 0; 0; 0; 0] =
    (USF 3 (start + 7 * a') 0 (ex && (a' =? sent)), [[193 + 4 * n; crcv mod 256; crcv / 256; 0; 0; 0; 0; 0]]).
  Proof.
    intros Ha Hm n crcv. change (Z.lor REQUEST_BLOCK_UPLOAD BLOCK_TRANSFER_RESPONSE) with 162.
    unfold ul_srv, fb. cbn [length Nat.eqb negb nth].
    change (162 =? 128) with false. change (Z.land 162 224 =? 160) with true. change (Z.land 162 3) with 2.
    change (2 =? 0) with false. change (2 =? 3) with false. change (2 =? 2) with true. cbn [negb andb].
    cbn [USF us_state us_sent us_start us_acks_exact us_bad us_value]. change (2 =? 2) with true. cbn [andb].
    replace (sent <? a') with false by lia.
    replace ((1 <=? B) && (B <=? 127)) with true by lia.
    replace (zlen V <=? start + 7 * a') with true by lia.
    cbn [us_cc us_crc_en us_ended us_aborted us_value]. reflexivity.
  Qed.

  (* ---- read(): the part after the segment has been obtained (ackseq already advanced to s) ---- *)
  Lemma tail_mid pos crc s (q : list frame) start sent ex nc ns log chunk :
    1 <= s <= B -> length chunk = 7%nat ->
    (s = B -> s <= sent /\ start + 7 * B < zlen V) ->
    exists log',
    read_tail usys (UCF false pos crc None s) (NUF (USF 2 start sent ex) q nc ns log) (pad8 (s :: chunk)) =
    (Ok chunk, UCF false (pos + 7) (if cc then crc_from crc chunk else crc) None (if s =? B then 0 else s),
     if s =? B
     then NUF (USF 2 (start + 7 * B) (zlen (burst_at (start + 7 * B))) (ex && (B =? sent)))
             (q ++ mangle faults ns (burst_at (start + 7 * B))) (nc + 1) (ns + zlen (burst_at (start + 7 * B))) log'
     else NUF (USF 2 start sent ex) q nc ns log).
  Proof.
    intros Hs Hc Hedge.
    destruct (seq_bits s ltac:(lia)) as (L127 & _ & N128 & _ & _ & _ & _ & L128 & _).
    rewrite pad8_cons by lia. rewrite Hc, Nat.sub_diag. cbn [repeat]. rewrite app_nil_r.
    unfold read_tail, fb. cbn [nth]. change NO_MORE_BLOCKS with 128. rewrite L128. cbn [Z.eqb negb].
    rewrite orb_false_r. cbn [UCF u_blksize u_ackseq].
    assert (Hdata : skipn 1 (firstn 8 (s :: chunk)) = chunk).
    { change (firstn 8 (s :: chunk)) with (s :: firstn 7 chunk). cbn [skipn]. apply firstn_all2. lia. }
    rewrite Hdata.
    assert (Hz : zlen chunk = 7) by (unfold zlen; rewrite Hc; reflexivity).
    destruct (Z.eq_dec s B) as [He|Hne].
    - destruct (Hedge He) as (Hsent & Hmore).
      replace (B <=? s) with true by lia. replace (s =? B) with true by lia.
      unfold ack_block, ul_ack_request. cbn [set_ackseq u_ackseq u_blksize u_done u_pos u_crc u_scrc u_error u_size u_crcsup].
      pose proof (ack_more start sent ex s ltac:(lia) ltac:(subst s; lia)) as Hsrv. rewrite He in Hsrv.
      rewrite He. rewrite (usend_requestF _ _ _ _ _ _ _ _ Hsrv).
      cbn [u_crcsup u_scrc u_crc u_pos u_size u_done u_ackseq u_error u_blksize].
      rewrite andb_false_r. cbn [andb]. rewrite Hz.
      eexists. unfold UCF, NUF. reflexivity.
    - replace (B <=? s) with false by lia. replace (s =? B) with false by lia.
      cbn [set_ackseq u_crcsup u_scrc u_crc u_pos u_size u_done u_ackseq u_error u_blksize].
      rewrite andb_false_r. cbn [andb]. rewrite Hz.
      eexists log. unfold UCF, NUF. reflexivity.
  Qed.

  (* nothing the server emits from ordinal ns on is touched by a fault *)
  Definition past (ns : Z) : Prop := forall ns' outs, ns <= ns' -> mangle faults ns' outs = outs.

  Lemma past_mono ns ns' : ns <= ns' -> past ns -> past ns'.
  Proof. intros H Hp n outs Hn. apply Hp. lia. Qed.

  Lemma tail_last pos crc s start sent ex nc ns log chunk :
    1 <= s <= B -> (1 <= length chunk <= 7)%nat -> s <= sent ->
    zlen V <= start + 7 * s -> pos + zlen chunk = zlen V -> pos mod 7 = 0 -> past ns ->
    (cc = true -> crc_from crc chunk = crc16 V) ->
    exists log',
    read_tail usys (UCF false pos crc None s) (NUF (USF 2 start sent ex) [] nc ns log) (pad8 ((s + 128) :: chunk)) =
    (Ok chunk, UCF true (zlen V) (if cc then crc16 V else crc) (Some (if cc then crc16 V else 0)) 0,
     NUF (USF 3 (start + 7 * s) 0 (ex && (s =? sent))) [] (nc + 1) (ns + 1) log').
  Proof.
    intros Hs Hc Hsent Hend Hpos Hmod Hpast Hcrc.
    destruct (seq_bits s ltac:(lia)) as (_ & _ & _ & _ & L127 & _ & N128 & _ & L128).
    set (n := 7 - zlen chunk).
    assert (Hn : 0 <= n <= 6) by (unfold n, zlen; lia).
    assert (Hn' : (7 - zlen V mod 7) mod 7 = n) by (unfold n; unfold zlen in *; lia).
    destruct (endf_bits n Hn) as (E128 & E224 & E3 & En).
    set (crcv := if cc then crc16 V else 0).
    rewrite pad8_cons by lia.
    unfold read_tail, fb. cbn [nth]. change NO_MORE_BLOCKS with 128. rewrite L128. cbn [negb]. rewrite orb_true_r.
    unfold ack_block, ul_ack_request.
    cbn [UCF set_ackseq u_ackseq u_blksize u_done u_pos u_crc u_scrc u_error u_size u_crcsup].
    pose proof (ack_end start sent ex s Hsent Hend) as Hsrv. cbn zeta in Hsrv. rewrite Hn' in Hsrv. fold crcv in Hsrv.
    rewrite (usend_requestF _ _ _ _ _ _ _ _ Hsrv). rewrite (Hpast ns _ ltac:(lia)).
    cbn [app]. unfold end_upload, read_response. cbn [NUF n_q n_srv n_log]. unfold fb. cbn [nth].
    change RESPONSE_ABORTED with 128. rewrite E128. cbv beta iota. cbn [nth].
    change RESPONSE_BLOCK_UPLOAD with 192. change END_BLOCK_TRANSFER with 1. rewrite E224, E3, En.
    cbn [Z.eqb Pos.eqb negb].
    assert (Hdata : skipn 1 (firstn (Z.to_nat (8 - n)) ((s + 128) :: chunk ++ repeat 0 (7 - length chunk))) = chunk).
    { replace (Z.to_nat (8 - n)) with (S (length chunk)) by (unfold n, zlen; lia).
      cbn [firstn skipn]. rewrite firstn_app, Nat.sub_diag, firstn_all. cbn [firstn]. apply app_nil_r. }
    rewrite Hdata.
    cbn [u_crcsup u_scrc u_crc u_pos u_size u_done u_ackseq u_error u_blksize].
    assert (Hsc : crcv mod 256 + 256 * (crcv / 256) = crcv) by lia. rewrite Hsc.
    assert (Hchk : cc && true && negb (crcv =? (if cc then crc_from crc chunk else crc)) = false).
    { unfold crcv. destruct cc eqn:Ecc; [|reflexivity]. rewrite (Hcrc eq_refl). cbn [andb]. lia. }
    cbn [UCF set_ackseq u_crcsup u_scrc u_crc u_pos u_size u_done u_ackseq u_error u_blksize]. rewrite Hchk. cbn [andb]. rewrite Hpos.
    assert (Hszchk : match (if si then Some (zlen V) else None) with Some s0 => negb (zlen V =? s0) | None => false end = false).
    { destruct si; [rewrite Z.eqb_refl|]; reflexivity. }
    rewrite Hszchk.
    change (zlen [[193 + 4 * n; crcv mod 256; crcv / 256; 0; 0; 0; 0; 0]]) with 1.
    eexists. unfold UCF, NUF.
    replace (if cc then crc_from crc chunk else crc) with (if cc then crc16 V else crc)
      by (destruct cc eqn:Ecc; [symmetry; apply Hcrc; reflexivity|reflexivity]).
    reflexivity.
  Qed.

  (* ---- read(): how the segment is obtained ---- *)
  Lemma read_direct pos crc a sv (fr : frame) (q0 q : list frame) nc ns log :
    q0 = fr :: q -> (fb fr 0 =? 128) = false -> Z.land (fb fr 0) 127 = a + 1 ->
    ul_read usys (UCF false pos crc None a) (NUF sv q0 nc ns log) =
    read_tail usys (UCF false pos crc None (a + 1)) (NUF sv q nc ns log) fr.
  Proof.
    intros Hq H128 Hseq. subst q0. unfold ul_read. cbn [UCF u_done]. unfold read_response. cbn [NUF n_q n_srv n_log].
    change RESPONSE_ABORTED with 128. rewrite H128. cbv beta iota. rewrite Hseq. cbn [UCF u_ackseq]. rewrite Z.eqb_refl.
    reflexivity.
  Qed.

  Lemma read_gap pos crc a sv (fr : frame) (q0 q : list frame) nc ns log :
    q0 = fr :: q -> (fb fr 0 =? 128) = false -> Z.land (fb fr 0) 127 <> a + 1 ->
    ul_read usys (UCF false pos crc None a) (NUF sv q0 nc ns log) =
    match ul_retransmit usys (UCF false pos crc None a) (NUF sv q nc ns log) with
    | (Ok response', u2, w2) => read_tail usys u2 w2 response'
    | (Err k, u2, w2) => (Err k, u2, w2)
    | (Abort a0, u2, w2) => (Abort a0, u2, w2)
    end.
  Proof.
    intros Hq H128 Hseq. subst q0. unfold ul_read. cbn [UCF u_done]. unfold read_response. cbn [NUF n_q n_srv n_log].
    change RESPONSE_ABORTED with 128. rewrite H128. cbv beta iota. cbn [UCF u_ackseq].
    replace (Z.land (fb fr 0) 127 =? a + 1) with false by lia. reflexivity.
  Qed.

  Lemma read_timeout pos crc a sv nc ns log :
    ul_read usys (UCF false pos crc None a) (NUF sv [] nc ns log) =
    match ul_retransmit usys (UCF false pos crc None a) (NUF sv [] nc ns log) with
    | (Ok response', u2, w2) => read_tail usys u2 w2 response'
    | (Err k, u2, w2) => (Err k, u2, w2)
    | (Abort a0, u2, w2) => (Abort a0, u2, w2)
    end.
  Proof. reflexivity. Qed.

  (* ---- _retransmit: acknowledge a, skip the stale frames, take the first frame of the new sub-block ---- *)
  Definition stale_ok (fr : frame) : Prop := (fb fr 0 =? 128) = false /\ Z.land (fb fr 0) 127 <> 1.

  Lemma retx_skip (sv : usrv) nc ns log pos crc : forall (stale : list frame) fuel (h : frame) (fresh : list frame),
    Forall stale_ok stale -> (fb h 0 =? 128) = false -> Z.land (fb h 0) 127 = 1 -> (length stale < fuel)%nat ->
    retx_loop fuel (UCF false pos crc None 0) (NUF sv (stale ++ h :: fresh) nc ns log) =
    (Ok h, UCF false pos crc None 1, NUF sv fresh nc ns log).
  Proof.
    induction stale as [|x r IH]; intros fuel h fresh Hst H128 Hseq Hfuel.
    - destruct fuel as [|f]; [cbn in Hfuel; lia|]. cbn [retx_loop app]. unfold read_response. cbn [NUF n_q n_srv n_log].
      change RESPONSE_ABORTED with 128. rewrite H128. cbv beta iota. rewrite Hseq. cbn [UCF u_ackseq Z.add Z.eqb Pos.eqb].
      reflexivity.
    - inversion Hst as [|? ? (X128 & Xseq) Hr]; subst.
      destruct fuel as [|f]; [cbn in Hfuel; lia|]. cbn [retx_loop app]. unfold read_response. cbn [NUF n_q n_srv n_log].
      change RESPONSE_ABORTED with 128. rewrite X128. cbv beta iota. cbn [UCF u_ackseq]. change (0 + 1) with 1.
      replace (Z.land (fb x 0) 127 =? 1) with false by lia.
      apply (IH f h fresh Hr H128 Hseq). cbn in Hfuel. lia.
  Qed.

  Lemma retransmit_step pos crc a start sent ex (stale : list frame) nc ns log (h : frame) (fresh : list frame) :
    0 <= a <= sent -> a <= 127 -> start + 7 * a < zlen V -> past ns -> Forall stale_ok stale ->
    burst_at (start + 7 * a) = h :: fresh -> (fb h 0 =? 128) = false -> Z.land (fb h 0) 127 = 1 ->
    exists log',
    ul_retransmit usys (UCF false pos crc None a) (NUF (USF 2 start sent ex) stale nc ns log) =
    (Ok h, UCF false pos crc None 1,
     NUF (USF 2 (start + 7 * a) (zlen (burst_at (start + 7 * a))) (ex && (a =? sent))) fresh (nc + 1)
        (ns + zlen (burst_at (start + 7 * a))) log').
  Proof.
    intros Ha Ha127 Hmore Hpast Hst Hb H128 Hseq.
    unfold ul_retransmit, ack_block, ul_ack_request.
    cbn [UCF set_ackseq u_ackseq u_blksize u_done u_pos u_crc u_scrc u_error u_size u_crcsup].
    pose proof (ack_more start sent ex a ltac:(lia) Hmore) as Hsrv.
    rewrite (usend_requestF _ _ _ _ _ _ _ _ Hsrv). rewrite (Hpast ns _ ltac:(lia)). rewrite Hb.
    eexists. unfold NUF at 1. cbn [n_q].
    fold (NUF (USF 2 (start + 7 * a) (zlen (h :: fresh)) (ex && (a =? sent))) (stale ++ h :: fresh) (nc + 1) (ns + zlen (h :: fresh))
             (rev (map (cons 1) (h :: fresh)) ++ (0 :: [Z.lor REQUEST_BLOCK_UPLOAD BLOCK_TRANSFER_RESPONSE; a; B; 0; 0; 0; 0; 0]) :: log)).
    fold (UCF false pos crc None 0).
    rewrite (retx_skip _ _ _ _ pos crc stale _ h fresh Hst H128 Hseq); [reflexivity|].
    rewrite app_length. cbn. lia.
  Qed.

  (* ---- shape of the queued segments ---- *)
  Lemma seg_head_mid (s : Z) (chunk : list Z) : 1 <= s <= 127 -> (length chunk <= 7)%nat ->
    (fb (pad8 (s :: chunk)) 0 =? 128) = false /\ Z.land (fb (pad8 (s :: chunk)) 0) 127 = s.
  Proof.
    intros Hs Hc. destruct (seq_bits s Hs) as (L127 & _ & N128 & _). rewrite pad8_cons by assumption.
    unfold fb. cbn [nth]. split; assumption.
  Qed.

  Lemma seg_head_last (s : Z) (chunk : list Z) : 1 <= s <= 127 -> (length chunk <= 7)%nat ->
    (fb (pad8 ((s + 128) :: chunk)) 0 =? 128) = false /\ Z.land (fb (pad8 ((s + 128) :: chunk)) 0) 127 = s.
  Proof.
    intros Hs Hc. destruct (seq_bits s Hs) as (_ & _ & _ & _ & L127 & _ & N128 & _). rewrite pad8_cons by assumption.
    unfold fb. cbn [nth]. split; assumption.
  Qed.

  Lemma us_segments_stale : forall k s rest, 2 <= s -> s + Z.of_nat k <= 128 -> Forall stale_ok (us_segments k s rest).
  Proof.
    induction k as [|k IH]; intros s rest Hs Hk; cbn [us_segments]; [constructor|].
    destruct rest as [|x r]; [constructor|].
    assert (H7 : (length (firstn 7 (x :: r)) <= 7)%nat) by (rewrite firstn_length; lia).
    destruct (skipn 7 (x :: r)) eqn:E.
    - constructor; [|constructor]. destruct (seg_head_last s (firstn 7 (x :: r)) ltac:(lia) H7) as [A Bq].
      split; [exact A|]. rewrite Bq. lia.
    - constructor; [|apply IH; lia]. destruct (seg_head_mid s (firstn 7 (x :: r)) ltac:(lia) H7) as [A Bq].
      split; [exact A|]. rewrite Bq. lia.
  Qed.

  Lemma burst_at_pre pre rest : V = pre ++ rest -> burst_at (zlen pre) = us_segments (Z.to_nat B) 1 rest.
  Proof. intros HV. unfold burst_at. rewrite HV. rewrite skipn_app_exact by (unfold zlen; lia). reflexivity. Qed.

  (* ---- readall over the remaining value when nothing more is disturbed ---- *)
  Lemma readall_cleanF : forall fuel rest pre a start sent ex nc ns log crc (q : list frame),
    V = pre ++ rest -> rest <> [] -> (length rest < fuel)%nat ->
    zlen pre mod 7 = 0 -> 0 <= a < B -> start + 7 * a = zlen pre ->
    q = us_segments (Z.to_nat (B - a)) (a + 1) rest -> sent = a + zlen q -> past ns ->
    (cc = true -> crc = crc16 pre) ->
    exists nc' ns' log' start',
      readall usys fuel (UCF false (zlen pre) crc None a) (NUF (USF 2 start sent ex) q nc ns log) pre =
      (Ok V, UCF true (zlen V) (if cc then crc16 V else crc) (Some (if cc then crc16 V else 0)) 0,
       NUF (USF 3 start' 0 ex) [] nc' ns' log').
  Proof.
    induction fuel as [|f IH]; intros rest pre a start sent ex nc ns log crc q HV Hne Hfuel Hmod Ha Hstart Hq Hsent Hpast Hcrc; [lia|].
    assert (HlenV : zlen V = zlen pre + zlen rest) by (rewrite HV; apply zlen_app).
    replace (Z.to_nat (B - a)) with (S (Z.to_nat (B - a - 1))) in Hq by lia.
    rewrite us_segments_cons in Hq by assumption.
    destruct (skipn 7 rest) as [|y0 more0] eqn:Emore.
    - (* the last segment *)
      assert (Hshort : (length rest <= 7)%nat).
      { apply (f_equal (@length Z)) in Emore. rewrite skipn_length in Emore. cbn in Emore. lia. }
      assert (Hf : firstn 7 rest = rest) by (apply firstn_all2; assumption).
      rewrite Hf in Hq. assert (Hzq : zlen q = 1) by (rewrite Hq; reflexivity). rewrite Hzq in Hsent. subst sent.
      assert (Hlen1 : (1 <= length rest)%nat) by (destruct rest; [contradiction|cbn; lia]).
      destruct (seg_head_last (a + 1) rest ltac:(lia) Hshort) as [H128 Hseq].
      pose proof (read_direct (zlen pre) crc a (USF 2 start (a + 1) ex) _ q [] nc ns log Hq H128 Hseq) as Hrd.
      destruct (tail_last (zlen pre) crc (a + 1) start (a + 1) ex nc ns log rest ltac:(lia) ltac:(lia) ltac:(lia))
        as (log' & Hread); try (unfold zlen in *; lia); try assumption.
      { intros Hc. rewrite (Hcrc Hc), HV. symmetry. apply crc_from_app. }
      rewrite Hread in Hrd.
      rewrite (readall_step f _ _ pre rest _ _ Hne Hrd).
      destruct f as [|f']; [lia|]. cbn [readall ul_read UCF u_done].
      exists (nc + 1), (ns + 1), log', (start + 7 * (a + 1)). rewrite <- HV.
      replace (ex && (a + 1 =? a + 1)) with ex by (rewrite Z.eqb_refl, andb_true_r; reflexivity). reflexivity.
    - (* a full segment, more follow *)
      assert (Hlong : (7 < length rest)%nat).
      { apply (f_equal (@length Z)) in Emore. rewrite skipn_length in Emore. cbn in Emore. lia. }
      pose proof (firstn7_full rest ltac:(lia)) as H7.
      set (chunk := firstn 7 rest) in *.
      assert (Hrest : rest = chunk ++ skipn 7 rest) by (symmetry; apply firstn_skipn).
      rewrite Emore in Hrest.
      assert (Hz7 : zlen rest = 7 + zlen (y0 :: more0)).
      { rewrite Hrest at 1. rewrite zlen_app, (len7_zlen chunk H7). reflexivity. }
      pose proof (zlen_nonneg more0) as Hm0. rewrite zlen_cons in Hz7.
      remember (us_segments (Z.to_nat (B - a - 1)) (a + 1 + 1) (y0 :: more0)) as q' eqn:Eq'.
      assert (Hzq : zlen q = 1 + zlen q') by (rewrite Hq; apply zlen_cons). rewrite Hzq in Hsent.
      assert (Hchunk_ne : chunk <> []) by (intros E; rewrite E in H7; discriminate).
      assert (HV' : V = (pre ++ chunk) ++ (y0 :: more0)) by (rewrite <- app_assoc, <- Hrest; exact HV).
      assert (Hmod' : zlen (pre ++ chunk) mod 7 = 0) by (rewrite zlen_app, (len7_zlen chunk H7); lia).
      assert (Hcrc' : cc = true -> (if cc then crc_from crc chunk else crc) = crc16 (pre ++ chunk)).
      { intros Hc. rewrite Hc, (Hcrc Hc). symmetry. apply crc_from_app. }
      assert (Hzp : zlen pre + 7 = zlen (pre ++ chunk)) by (rewrite zlen_app, (len7_zlen chunk H7); reflexivity).
      destruct (seg_head_mid (a + 1) chunk ltac:(lia) ltac:(lia)) as [H128 Hseq].
      pose proof (read_direct (zlen pre) crc a (USF 2 start sent ex) _ q q' nc ns log Hq H128 Hseq) as Hrd.
      pose proof (zlen_nonneg q') as Hq0.
      assert (Hedge : a + 1 = B -> a + 1 <= sent /\ start + 7 * B < zlen V) by (intros He; split; lia).
      destruct (tail_mid (zlen pre) crc (a + 1) q' start sent ex nc ns log chunk ltac:(lia) H7 Hedge) as (log' & Hread).
      rewrite Hread in Hrd.
      rewrite (readall_step f _ _ pre chunk _ _ Hchunk_ne Hrd). rewrite Hzp.
      assert (Hfuel' : (length (y0 :: more0) < f)%nat).
      { apply (f_equal (@length Z)) in Hrest. rewrite app_length, H7 in Hrest. lia. }
      destruct (Z.eq_dec (a + 1) B) as [He|Hne'].
      + replace (a + 1 =? B) with true by lia.
        assert (Hk0 : Z.to_nat (B - a - 1) = 0%nat) by lia. rewrite Hk0 in Eq'. cbn [us_segments] in Eq'. subst q'.
        change (zlen (@nil frame)) with 0 in Hsent.
        rewrite (Hpast ns _ ltac:(lia)). cbn [app].
        replace (start + 7 * B) with (zlen (pre ++ chunk)) by lia.
        rewrite (burst_at_pre (pre ++ chunk) (y0 :: more0) HV').
        replace (ex && (B =? sent)) with ex by (replace (B =? sent) with true by lia; rewrite andb_true_r; reflexivity).
        destruct (IH (y0 :: more0) (pre ++ chunk) 0 (zlen (pre ++ chunk))
                     (zlen (us_segments (Z.to_nat B) 1 (y0 :: more0))) ex (nc + 1)
                     (ns + zlen (us_segments (Z.to_nat B) 1 (y0 :: more0))) log'
                     (if cc then crc_from crc chunk else crc) (us_segments (Z.to_nat B) 1 (y0 :: more0)))
          as (nc'' & ns'' & log'' & start'' & Hrun); try assumption; try lia; try discriminate.
        * rewrite Z.sub_0_r. reflexivity.
        * apply (past_mono ns); [pose proof (zlen_nonneg (us_segments (Z.to_nat B) 1 (y0 :: more0))); lia|exact Hpast].
        * exists nc'', ns'', log'', start''. rewrite Hrun. destruct cc eqn:Ecc; reflexivity.
      + replace (a + 1 =? B) with false by lia.
        destruct (IH (y0 :: more0) (pre ++ chunk) (a + 1) start sent ex nc ns log
                     (if cc then crc_from crc chunk else crc) q')
          as (nc'' & ns'' & log'' & start'' & Hrun); try assumption; try lia; try discriminate.
        * rewrite Eq'. f_equal. lia.
        * exists nc'', ns'', log'', start''. rewrite Hrun. destruct cc eqn:Ecc; reflexivity.
  Qed.

  (* ---- the sub-block with the hole: [i] segments arrive, the next one is missing ---- *)
  Lemma readall_hole : forall (i : nat) fuel rest pre a start sent ex nc ns log crc (q : list frame),
    V = pre ++ rest -> rest <> [] -> (length rest < fuel)%nat ->
    zlen pre mod 7 = 0 -> 0 <= a < B -> start + 7 * a = zlen pre ->
    q = remove_nth i (us_segments (Z.to_nat (B - a)) (a + 1) rest) ->
    (i < length (us_segments (Z.to_nat (B - a)) (a + 1) rest))%nat ->
    sent = a + zlen (us_segments (Z.to_nat (B - a)) (a + 1) rest) -> past ns ->
    (cc = true -> crc = crc16 pre) ->
    exists nc' ns' log' start' ex',
      readall usys fuel (UCF false (zlen pre) crc None a) (NUF (USF 2 start sent ex) q nc ns log) pre =
      (Ok V, UCF true (zlen V) (if cc then crc16 V else crc) (Some (if cc then crc16 V else 0)) 0,
       NUF (USF 3 start' 0 ex') [] nc' ns' log').
  Proof.
    induction i as [|i IHi]; intros fuel rest pre a start sent ex nc ns log crc q HV Hne Hfuel Hmod Ha Hstart Hq Hi Hsent Hpast Hcrc.
    - (* the next segment is the missing one *)
      destruct fuel as [|f]; [lia|].
      assert (HlenV : zlen V = zlen pre + zlen rest) by (rewrite HV; apply zlen_app).
      replace (Z.to_nat (B - a)) with (S (Z.to_nat (B - a - 1))) in * by lia.
      assert (Hrest_pos : 0 < zlen rest) by (destruct rest; [contradiction|rewrite zlen_cons; pose proof (zlen_nonneg rest); lia]).
      (* the frame that comes back after the acknowledge *)
      assert (Hnb : exists h fresh, burst_at (start + 7 * a) = h :: fresh /\ (fb h 0 =? 128) = false /\ Z.land (fb h 0) 127 = 1 /\
                     h :: fresh = us_segments (Z.to_nat B) 1 rest).
      { rewrite Hstart, (burst_at_pre pre rest HV).
        replace (Z.to_nat B) with (S (Z.to_nat (B - 1))) by lia. rewrite us_segments_cons by assumption.
        assert (H7 : (length (firstn 7 rest) <= 7)%nat) by (rewrite firstn_length; lia).
        destruct (skipn 7 rest) eqn:E.
        - eexists _, _. split; [reflexivity|]. destruct (seg_head_last 1 (firstn 7 rest) ltac:(lia) H7) as [A Bq].
          split; [exact A|]. split; [exact Bq|reflexivity].
        - eexists _, _. split; [reflexivity|]. destruct (seg_head_mid 1 (firstn 7 rest) ltac:(lia) H7) as [A Bq].
          split; [exact A|]. split; [exact Bq|reflexivity]. }
      destruct Hnb as (h & fresh & Hb & H128 & Hseq1 & Hhf).
      (* the stale part of the old sub-block *)
      rewrite us_segments_cons in Hq, Hsent, Hi by assumption.
      assert (Hstale : exists stale : list frame, Forall stale_ok stale /\
                 ul_read usys (UCF false (zlen pre) crc None a) (NUF (USF 2 start sent ex) q nc ns log) =
                 match ul_retransmit usys (UCF false (zlen pre) crc None a) (NUF (USF 2 start sent ex) stale nc ns log) with
                 | (Ok response', u2, w2) => read_tail usys u2 w2 response'
                 | (Err k, u2, w2) => (Err k, u2, w2)
                 | (Abort a0, u2, w2) => (Abort a0, u2, w2)
                 end).
      { destruct (skipn 7 rest) as [|y0 more0] eqn:Emore.
        - (* nothing follows the missing frame: time-out *)
          unfold remove_nth in Hq. cbn [firstn skipn app] in Hq. subst q. exists []. split; [constructor|]. apply read_timeout.
        - unfold remove_nth in Hq. cbn [firstn skipn app] in Hq.
          destruct (Z.to_nat (B - a - 1)) as [|k2] eqn:Ek.
          { cbn [us_segments] in Hq. subst q. exists []. split; [constructor|]. apply read_timeout. }
          rewrite us_segments_cons in Hq by discriminate.
          assert (H7' : (length (firstn 7 (y0 :: more0)) <= 7)%nat) by (rewrite firstn_length; lia).
          destruct (skipn 7 (y0 :: more0)) eqn:E2.
          + exists []. split; [constructor|].
            destruct (seg_head_last (a + 1 + 1) (firstn 7 (y0 :: more0)) ltac:(lia) H7') as [A Bq].
            apply (read_gap _ _ _ _ _ q [] nc ns log Hq A). rewrite Bq. lia.
          + eexists. split; [|destruct (seg_head_mid (a + 1 + 1) (firstn 7 (y0 :: more0)) ltac:(lia) H7') as [A Bq];
                               apply (read_gap _ _ _ _ _ q _ nc ns log Hq A); rewrite Bq; lia].
            apply us_segments_stale; lia. }
      destruct Hstale as (stale & Hst & Hrd).
      assert (Hsent_ge : a + 1 <= sent).
      { destruct (skipn 7 rest); rewrite Hsent; [change (zlen [pad8 (a + 1 + 128 :: firstn 7 rest)]) with 1; lia|].
        rewrite zlen_cons. pose proof (zlen_nonneg (us_segments (Z.to_nat (B - a - 1)) (a + 1 + 1) (z :: l))). lia. }
      destruct (retransmit_step (zlen pre) crc a start sent ex stale nc ns log h fresh ltac:(lia) ltac:(lia) ltac:(lia)
                  Hpast Hst Hb H128 Hseq1) as (log1 & Hretx).
      rewrite Hretx in Hrd. clear Hretx.
      rewrite Hb, Hstart in Hrd. rewrite Hhf in Hrd.
      (* now the recovered frame is processed like any other first frame of a sub-block *)
      replace (Z.to_nat B) with (S (Z.to_nat (B - 1))) in Hhf, Hrd by lia.
      rewrite us_segments_cons in Hhf, Hrd by assumption.
      destruct (skipn 7 rest) as [|y0 more0] eqn:Emore.
      + (* it is the last segment of the value *)
        assert (Hshort : (length rest <= 7)%nat).
        { apply (f_equal (@length Z)) in Emore. rewrite skipn_length in Emore. cbn in Emore. lia. }
        assert (Hf : firstn 7 rest = rest) by (apply firstn_all2; assumption). rewrite Hf in Hhf, Hrd.
        inversion Hhf; subst h fresh.
        assert (Hlen1 : (1 <= length rest)%nat) by (destruct rest; [contradiction|cbn; lia]).
        change (zlen [pad8 (1 + 128 :: rest)]) with 1 in Hrd.
        destruct (tail_last (zlen pre) crc 1 (zlen pre) 1 (ex && (a =? sent)) (nc + 1) (ns + 1) log1 rest
                    ltac:(lia) ltac:(lia) ltac:(lia)) as (log' & Hread); try (unfold zlen in *; lia); try assumption.
        { apply (past_mono ns); [lia|exact Hpast]. }
        { intros Hc. rewrite (Hcrc Hc), HV. symmetry. apply crc_from_app. }
        pose proof (eq_trans Hrd Hread) as Hrd2.
        rewrite (readall_step f _ _ pre rest _ _ Hne Hrd2).
        destruct f as [|f']; [lia|]. cbn [readall ul_read UCF u_done].
        eexists _, _, _, _, _. rewrite <- HV. reflexivity.
      + (* more segments follow: continue undisturbed *)
        assert (Hlong : (7 < length rest)%nat).
        { apply (f_equal (@length Z)) in Emore. rewrite skipn_length in Emore. cbn in Emore. lia. }
        pose proof (firstn7_full rest ltac:(lia)) as H7.
        set (chunk := firstn 7 rest) in *.
        assert (Hrest : rest = chunk ++ skipn 7 rest) by (symmetry; apply firstn_skipn).
        rewrite Emore in Hrest.
        inversion Hhf; subst h fresh.
        assert (Hz7 : zlen rest = 7 + zlen (y0 :: more0)).
        { rewrite Hrest at 1. rewrite zlen_app, (len7_zlen chunk H7). reflexivity. }
        pose proof (zlen_nonneg more0) as Hm0. rewrite zlen_cons in Hz7.
        remember (us_segments (Z.to_nat (B - 1)) (1 + 1) (y0 :: more0)) as q' eqn:Eq'.
        assert (Hchunk_ne : chunk <> []) by (intros E; rewrite E in H7; discriminate).
        assert (HV' : V = (pre ++ chunk) ++ (y0 :: more0)) by (rewrite <- app_assoc, <- Hrest; exact HV).
        assert (Hmod' : zlen (pre ++ chunk) mod 7 = 0) by (rewrite zlen_app, (len7_zlen chunk H7); lia).
        assert (Hcrc' : cc = true -> (if cc then crc_from crc chunk else crc) = crc16 (pre ++ chunk)).
        { intros Hc. rewrite Hc, (Hcrc Hc). symmetry. apply crc_from_app. }
        assert (Hzp : zlen pre + 7 = zlen (pre ++ chunk)) by (rewrite zlen_app, (len7_zlen chunk H7); reflexivity).
        rewrite zlen_cons in Hrd. pose proof (zlen_nonneg q') as Hq0.
        assert (Hedge : 1 = B -> 1 <= 1 + zlen q' /\ zlen pre + 7 * B < zlen V) by (intros He; split; lia).
        destruct (tail_mid (zlen pre) crc 1 q' (zlen pre) (1 + zlen q') (ex && (a =? sent)) (nc + 1) (ns + (1 + zlen q')) log1 chunk
                    ltac:(lia) H7 Hedge) as (log' & Hread).
        assert (Eq2 : us_segments (Z.to_nat (B - 1)) 2 (y0 :: more0) = q') by (rewrite Eq'; reflexivity).
        rewrite Eq2 in Hrd.
        pose proof (eq_trans Hrd Hread) as Hrd2.
        rewrite (readall_step f _ _ pre chunk _ _ Hchunk_ne Hrd2). rewrite Hzp.
        assert (Hfuel' : (length (y0 :: more0) < f)%nat).
        { apply (f_equal (@length Z)) in Hrest. rewrite app_length, H7 in Hrest. lia. }
        assert (Hpast1 : past (ns + (1 + zlen q'))) by (apply (past_mono ns); [lia|exact Hpast]).
        destruct (Z.eq_dec 1 B) as [He|Hne'].
        * replace (1 =? B) with true by lia.
          assert (Hk0 : Z.to_nat (B - 1) = 0%nat) by lia. rewrite Hk0 in Eq'. cbn [us_segments] in Eq'. subst q'.
          rewrite (Hpast1 _ _ (Z.le_refl _)). cbn [app].
          replace (zlen pre + 7 * B) with (zlen (pre ++ chunk)) by lia.
          rewrite (burst_at_pre (pre ++ chunk) (y0 :: more0) HV').
          destruct (readall_cleanF f (y0 :: more0) (pre ++ chunk) 0 (zlen (pre ++ chunk))
                      (zlen (us_segments (Z.to_nat B) 1 (y0 :: more0))) (ex && (a =? sent) && (B =? 1 + zlen (@nil frame))) (nc + 1 + 1)
                      (ns + (1 + zlen (@nil frame)) + zlen (us_segments (Z.to_nat B) 1 (y0 :: more0))) log'
                      (if cc then crc_from crc chunk else crc) (us_segments (Z.to_nat B) 1 (y0 :: more0)))
            as (nc'' & ns'' & log'' & start'' & Hrun); try assumption; try lia; try discriminate.
          -- rewrite Z.sub_0_r. reflexivity.
          -- apply (past_mono ns); [pose proof (zlen_nonneg (us_segments (Z.to_nat B) 1 (y0 :: more0))); change (zlen (@nil frame)) with 0; lia|exact Hpast].
          -- eexists _, _, _, _, _. rewrite Hrun. destruct cc eqn:Ecc; reflexivity.
        * replace (1 =? B) with false by lia.
          destruct (readall_cleanF f (y0 :: more0) (pre ++ chunk) 1 (zlen pre) (1 + zlen q') (ex && (a =? sent)) (nc + 1)
                      (ns + (1 + zlen q')) log1 (if cc then crc_from crc chunk else crc) q')
            as (nc'' & ns'' & log'' & start'' & Hrun); try assumption; try lia; try discriminate.
          eexists _, _, _, _, _. rewrite Hrun. destruct cc eqn:Ecc; reflexivity.
    - (* the next segment arrives *)
      destruct fuel as [|f]; [lia|].
      assert (HlenV : zlen V = zlen pre + zlen rest) by (rewrite HV; apply zlen_app).
      replace (Z.to_nat (B - a)) with (S (Z.to_nat (B - a - 1))) in * by lia.
      rewrite us_segments_cons in Hq, Hi, Hsent by assumption.
      destruct (skipn 7 rest) as [|y0 more0] eqn:Emore; [cbn [length] in Hi; lia|].
      assert (Hlong : (7 < length rest)%nat).
      { apply (f_equal (@length Z)) in Emore. rewrite skipn_length in Emore. cbn in Emore. lia. }
      pose proof (firstn7_full rest ltac:(lia)) as H7.
      set (chunk := firstn 7 rest) in *.
      assert (Hrest : rest = chunk ++ skipn 7 rest) by (symmetry; apply firstn_skipn).
      rewrite Emore in Hrest.
      assert (Hz7 : zlen rest = 7 + zlen (y0 :: more0)).
      { rewrite Hrest at 1. rewrite zlen_app, (len7_zlen chunk H7). reflexivity. }
      pose proof (zlen_nonneg more0) as Hm0. rewrite zlen_cons in Hz7.
      remember (us_segments (Z.to_nat (B - a - 1)) (a + 1 + 1) (y0 :: more0)) as q' eqn:Eq'.
      rewrite remove_nth_S in Hq. cbn [length] in Hi. rewrite zlen_cons in Hsent.
      assert (Hq'ne : q' <> []) by (intros E; rewrite E in Hi; cbn in Hi; lia).
      assert (HaB : a + 1 < B).
      { destruct (Z.to_nat (B - a - 1)) eqn:E; [cbn [us_segments] in Eq'; contradiction|lia]. }
      assert (Hchunk_ne : chunk <> []) by (intros E; rewrite E in H7; discriminate).
      assert (HV' : V = (pre ++ chunk) ++ (y0 :: more0)) by (rewrite <- app_assoc, <- Hrest; exact HV).
      assert (Hmod' : zlen (pre ++ chunk) mod 7 = 0) by (rewrite zlen_app, (len7_zlen chunk H7); lia).
      assert (Hcrc' : cc = true -> (if cc then crc_from crc chunk else crc) = crc16 (pre ++ chunk)).
      { intros Hc. rewrite Hc, (Hcrc Hc). symmetry. apply crc_from_app. }
      assert (Hzp : zlen pre + 7 = zlen (pre ++ chunk)) by (rewrite zlen_app, (len7_zlen chunk H7); reflexivity).
      destruct (seg_head_mid (a + 1) chunk ltac:(lia) ltac:(lia)) as [H128 Hseq].
      pose proof (read_direct (zlen pre) crc a (USF 2 start sent ex) _ q (remove_nth i q') nc ns log Hq H128 Hseq) as Hrd.
      assert (Hedge : a + 1 = B -> a + 1 <= sent /\ start + 7 * B < zlen V) by (intros He; lia).
      destruct (tail_mid (zlen pre) crc (a + 1) (remove_nth i q') start sent ex nc ns log chunk ltac:(lia) H7 Hedge) as (log' & Hread).
      rewrite Hread in Hrd. replace (a + 1 =? B) with false in Hrd by lia.
      rewrite (readall_step f _ _ pre chunk _ _ Hchunk_ne Hrd). rewrite Hzp.
      assert (Hfuel' : (length (y0 :: more0) < f)%nat).
      { apply (f_equal (@length Z)) in Hrest. rewrite app_length, H7 in Hrest. lia. }
      assert (Eq'' : q' = us_segments (Z.to_nat (B - (a + 1))) (a + 1 + 1) (y0 :: more0)) by (rewrite Eq'; f_equal; lia).
      destruct (IHi f (y0 :: more0) (pre ++ chunk) (a + 1) start sent ex nc ns log (if cc then crc_from crc chunk else crc)
                    (remove_nth i q')) as (nc'' & ns'' & log'' & start'' & ex'' & Hrun);
        try assumption; try lia; try discriminate.
      + rewrite <- Eq''. reflexivity.
      + rewrite <- Eq''. lia.
      + rewrite <- Eq''. lia.
      + eexists _, _, _, _, _. rewrite Hrun. destruct cc eqn:Ecc; reflexivity.
  Qed.

  (* ---- __init__ and the start request; the initiate response (server frame 1) arrives unharmed ---- *)
  Lemma ul_init_okF index sub : zlen V < 4294967296 ->
    (forall outs : list frame, zlen outs = 1 -> mangle faults 0 outs = outs) ->
    exists log,
      ul_init usys (mknet (fs_init (us_init V crc_en si) faults) [] []) index sub B crc_client =
      (Ok (UCF false 0 0 None 0),
       NUF (USF 2 0 (zlen (us_segments (Z.to_nat B) 1 V)) true) (mangle faults 1 (us_segments (Z.to_nat B) 1 V)) 2
          (1 + zlen (us_segments (Z.to_nat B) 1 V)) log).
  Proof.
    intros Hsz Hpass0. pose proof (zlen_nonneg V) as HV0.
    unfold ul_init, request_response, fs_init, us_init. cbn [n_q].
    set (req := ul_init_request index sub B crc_client).
    assert (Hreq : req = [(if crc_client then 164 else 160); index mod 256; index / 256; sub; B; 0; 0; 0]).
    { unfold req, ul_init_request. destruct crc_client; reflexivity. }
    assert (Hdec : le_decode (le_encode 4 (zlen V)) = zlen V).
    { rewrite le_decode_encode. apply Z.mod_small. change (2 ^ (8 * Z.of_nat 4)) with 4294967296. lia. }
    set (r0 := 192 + (if si then 2 else 0) + (if crc_en then 4 else 0)).
    set (szb := if si then le_encode 4 (zlen V) else [0; 0; 0; 0]).
    assert (Hsrv : ul_srv (mkus 0 V crc_en false 0 0 0 true false 0 false si) false req =
                   (mkus 1 V crc_en cc B 0 0 true false 0 false si,
                    [r0 :: [index mod 256; index / 256; sub] ++ szb])).
    { rewrite Hreq. unfold ul_srv, fb. cbn [length Nat.eqb negb nth].
      replace ((if crc_client then 164 else 160) =? 128) with false by (destruct crc_client; reflexivity).
      replace (Z.land (if crc_client then 164 else 160) 224 =? 160) with true by (destruct crc_client; reflexivity).
      replace (Z.land (if crc_client then 164 else 160) 3) with 0 by (destruct crc_client; reflexivity).
      replace (Z.testbit (if crc_client then 164 else 160) 2) with crc_client by (destruct crc_client; reflexivity).
      cbn [negb us_state Z.eqb andb us_value us_crc_en us_bad us_aborted us_sizeind firstn skipn].
      replace ((1 <=? B) && (B <=? 127)) with true by lia. reflexivity. }
    pose proof (usend_requestF _ [] 0 0 [] req _ _ Hsrv) as Hsend. unfold NUF in Hsend. rewrite Hsend. clear Hsend.
    rewrite !Hpass0 by reflexivity.
    unfold read_response. cbn [app n_q n_srv n_log]. unfold fb at 1. cbn [nth].
    replace (r0 =? RESPONSE_ABORTED) with false by (unfold r0; destruct si, crc_en; reflexivity).
    cbv beta iota. unfold fb. cbn [nth].
    replace (Z.land r0 224 =? RESPONSE_BLOCK_UPLOAD) with true by (unfold r0; destruct si, crc_en; reflexivity).
    replace (index mod 256 + 256 * (index / 256) =? index) with true by lia.
    rewrite Z.eqb_refl. cbn [negb orb].
    replace (Z.land r0 BLOCK_SIZE_SPECIFIED =? 0) with (negb si) by (unfold r0; destruct si, crc_en; reflexivity).
    replace (negb (Z.land r0 CRC_SUPPORTED =? 0)) with crc_en by (unfold r0; destruct si, crc_en; reflexivity).
    change (skipn 4 (r0 :: index mod 256 :: index / 256 :: sub :: szb)) with szb.
    assert (Hsize : (if negb si then None else Some (le_decode (firstn 4 szb))) = (if si then Some (zlen V) else None)).
    { unfold szb. destruct si; cbn [negb]; [|reflexivity].
      rewrite (firstn_all2 (n := 4) (le_encode 4 (zlen V))) by (rewrite le_encode_length; lia). rewrite Hdec. reflexivity. }
    rewrite Hsize.
    assert (Hsrv2 : ul_srv (mkus 1 V crc_en cc B 0 0 true false 0 false si) false ul_start_request =
                    (USF 2 0 (zlen (us_segments (Z.to_nat B) 1 V)) true, us_segments (Z.to_nat B) 1 V)).
    { unfold ul_srv, ul_start_request, fb. cbn [length Nat.eqb negb nth].
      change (Z.lor REQUEST_BLOCK_UPLOAD START_BLOCK_UPLOAD) with 163.
      change (163 =? 128) with false. change (Z.land 163 224 =? 160) with true. change (Z.land 163 3) with 3.
      cbn [negb us_state Z.eqb Pos.eqb andb]. unfold us_send_block.
      cbn [us_blksize us_acks_exact us_bad us_value us_crc_en us_cc us_ended us_aborted us_sizeind skipn Z.to_nat]. reflexivity. }
    match goal with
    | |- context [send_request usys (mknet (mkfs ?sv ?nc ?ns faults) ?q ?log) ul_start_request] =>
        pose proof (usend_requestF sv q nc ns log ul_start_request _ _ Hsrv2) as Hsend
    end.
    unfold NUF in Hsend. rewrite Hsend. clear Hsend.
    eexists. unfold UCF, NUF. reflexivity.
  Qed.

  (* ---- close() after a completed transfer ---- *)
  Lemma ul_close_ok pos crc scrc start ex nc ns log :
    exists w, ul_close usys (UCF true pos crc scrc 0) (NUF (USF 3 start 0 ex) [] nc ns log) = w /\
      us_ended (f_inner (n_srv w)) = true /\ us_bad (f_inner (n_srv w)) = 0 /\ us_acks_exact (f_inner (n_srv w)) = ex.
  Proof.
    unfold ul_close. cbn [UCF u_done u_error negb andb].
    assert (Hsrv : ul_srv (USF 3 start 0 ex) false ul_end_request =
                   (mkus 0 V crc_en cc B start 0 ex true 0 false si, [])).
    { unfold ul_srv, ul_end_request, fb. cbn [length Nat.eqb negb nth].
      change (Z.lor REQUEST_BLOCK_UPLOAD END_BLOCK_TRANSFER) with 161.
      change (161 =? 128) with false. change (Z.land 161 224 =? 160) with true. change (Z.land 161 3) with 1.
      cbn [negb USF us_state Z.eqb Pos.eqb andb]. reflexivity. }
    rewrite (usend_requestF _ _ _ _ _ _ _ _ Hsrv). eexists. split; [reflexivity|]. cbn. repeat split; reflexivity.
  Qed.

  (* ---- undisturbed: nothing the server emits is touched ---- *)
  Lemma upload_exact_section index sub fuel :
    1 <= zlen V < 4294967296 -> past 0 -> (length V + 1 < fuel)%nat ->
    exists u w,
      ul_transfer usys fuel (mknet (fs_init (us_init V crc_en si) faults) [] []) index sub B crc_client = (Ok V, u, w) /\
      u_done u = true /\ u_error u = false /\
      us_ended (f_inner (n_srv w)) = true /\ us_acks_exact (f_inner (n_srv w)) = true /\ us_bad (f_inner (n_srv w)) = 0.
  Proof.
    intros HV Hpast Hfuel.
    destruct (ul_init_okF index sub ltac:(lia) (fun outs _ => Hpast 0 outs (Z.le_refl 0))) as (log & Hinit).
    unfold ul_transfer. rewrite Hinit. rewrite (Hpast 1 _ ltac:(lia)).
    assert (HVne : V <> []) by (intros E; rewrite E in HV; cbn in HV; lia).
    destruct (readall_cleanF fuel V [] 0 0 (zlen (us_segments (Z.to_nat B) 1 V)) true 2
                (1 + zlen (us_segments (Z.to_nat B) 1 V)) log 0 (us_segments (Z.to_nat B) 1 V) eq_refl HVne)
      as (nc' & ns' & log' & start' & Hrun); try reflexivity; try lia.
    - rewrite Z.sub_0_r. reflexivity.
    - apply (past_mono 0); [pose proof (zlen_nonneg (us_segments (Z.to_nat B) 1 V)); lia|exact Hpast].
    - change (zlen (@nil Z)) with 0 in Hrun. rewrite Hrun.
      destruct (ul_close_ok (zlen V) (if cc then crc16 V else 0) (Some (if cc then crc16 V else 0)) start' true nc' ns' log')
        as (w & Hw & He & Hb & Hx).
      rewrite Hw. eexists _, w. split; [reflexivity|]. repeat split; assumption.
  Qed.

  (* ---- exactly one server frame, the j-th, is lost ---- *)
  Context (j : Z).
  Context (Hdrop : forall ns outs, mangle faults ns outs =
             if (ns <? j) && (j <=? ns + zlen outs) then remove_nth (Z.to_nat (j - ns - 1)) outs else outs).

  Lemma past_of_j ns : j <= ns -> past ns.
  Proof. intros H ns' outs Hn. rewrite Hdrop. replace (ns' <? j) with false by lia. reflexivity. Qed.

  (* ---- readall before the loss: nothing disturbed yet, ns frames sent by the server so far ---- *)
  Lemma readall_pre : forall fuel rest pre a start sent ex nc ns log crc (q : list frame),
    V = pre ++ rest -> rest <> [] -> (length rest < fuel)%nat ->
    zlen pre mod 7 = 0 -> 0 <= a < B -> start + 7 * a = zlen pre ->
    q = us_segments (Z.to_nat (B - a)) (a + 1) rest -> sent = a + zlen q ->
    ns < j -> j <= 1 + (zlen V + 6) / 7 -> ns = 1 + start / 7 + sent -> start mod 7 = 0 ->
    (cc = true -> crc = crc16 pre) ->
    exists nc' ns' log' start' ex',
      readall usys fuel (UCF false (zlen pre) crc None a) (NUF (USF 2 start sent ex) q nc ns log) pre =
      (Ok V, UCF true (zlen V) (if cc then crc16 V else crc) (Some (if cc then crc16 V else 0)) 0,
       NUF (USF 3 start' 0 ex') [] nc' ns' log').
  Proof.
    induction fuel as [|f IH]; intros rest pre a start sent ex nc ns log crc q HV Hne Hfuel Hmod Ha Hstart Hq Hsent
      Hnsj Hjmax Hns Hsmod Hcrc; [lia|].
    assert (HlenV : zlen V = zlen pre + zlen rest) by (rewrite HV; apply zlen_app).
    replace (Z.to_nat (B - a)) with (S (Z.to_nat (B - a - 1))) in Hq by lia.
    rewrite us_segments_cons in Hq by assumption.
    destruct (skipn 7 rest) as [|y0 more0] eqn:Emore.
    - (* the last segment cannot be reached before the loss: all segments have been sent *)
      exfalso.
      assert (Hshort : (length rest <= 7)%nat).
      { apply (f_equal (@length Z)) in Emore. rewrite skipn_length in Emore. cbn in Emore. lia. }
      assert (Hlen1 : (1 <= length rest)%nat) by (destruct rest; [contradiction|cbn; lia]).
      assert (Hzq : zlen q = 1) by (rewrite Hq; reflexivity).
      unfold zlen in *. lia.
    - assert (Hlong : (7 < length rest)%nat).
      { apply (f_equal (@length Z)) in Emore. rewrite skipn_length in Emore. cbn in Emore. lia. }
      pose proof (firstn7_full rest ltac:(lia)) as H7.
      set (chunk := firstn 7 rest) in *.
      assert (Hrest : rest = chunk ++ skipn 7 rest) by (symmetry; apply firstn_skipn).
      rewrite Emore in Hrest.
      assert (Hz7 : zlen rest = 7 + zlen (y0 :: more0)).
      { rewrite Hrest at 1. rewrite zlen_app, (len7_zlen chunk H7). reflexivity. }
      pose proof (zlen_nonneg more0) as Hm0. rewrite zlen_cons in Hz7.
      remember (us_segments (Z.to_nat (B - a - 1)) (a + 1 + 1) (y0 :: more0)) as q' eqn:Eq'.
      assert (Hzq : zlen q = 1 + zlen q') by (rewrite Hq; apply zlen_cons). rewrite Hzq in Hsent.
      assert (Hchunk_ne : chunk <> []) by (intros E; rewrite E in H7; discriminate).
      assert (HV' : V = (pre ++ chunk) ++ (y0 :: more0)) by (rewrite <- app_assoc, <- Hrest; exact HV).
      assert (Hmod' : zlen (pre ++ chunk) mod 7 = 0) by (rewrite zlen_app, (len7_zlen chunk H7); lia).
      assert (Hcrc' : cc = true -> (if cc then crc_from crc chunk else crc) = crc16 (pre ++ chunk)).
      { intros Hc. rewrite Hc, (Hcrc Hc). symmetry. apply crc_from_app. }
      assert (Hzp : zlen pre + 7 = zlen (pre ++ chunk)) by (rewrite zlen_app, (len7_zlen chunk H7); reflexivity).
      destruct (seg_head_mid (a + 1) chunk ltac:(lia) ltac:(lia)) as [H128 Hseq].
      pose proof (read_direct (zlen pre) crc a (USF 2 start sent ex) _ q q' nc ns log Hq H128 Hseq) as Hrd.
      pose proof (zlen_nonneg q') as Hq0.
      assert (Hedge : a + 1 = B -> a + 1 <= sent /\ start + 7 * B < zlen V) by (intros He; split; lia).
      destruct (tail_mid (zlen pre) crc (a + 1) q' start sent ex nc ns log chunk ltac:(lia) H7 Hedge) as (log' & Hread).
      rewrite Hread in Hrd.
      rewrite (readall_step f _ _ pre chunk _ _ Hchunk_ne Hrd). rewrite Hzp.
      assert (Hfuel' : (length (y0 :: more0) < f)%nat).
      { apply (f_equal (@length Z)) in Hrest. rewrite app_length, H7 in Hrest. lia. }
      destruct (Z.eq_dec (a + 1) B) as [He|Hne'].
      + replace (a + 1 =? B) with true by lia.
        assert (Hk0 : Z.to_nat (B - a - 1) = 0%nat) by lia. rewrite Hk0 in Eq'. cbn [us_segments] in Eq'. subst q'.
        change (zlen (@nil frame)) with 0 in Hsent.
        cbn [app].
        replace (start + 7 * B) with (zlen (pre ++ chunk)) by lia.
        rewrite (burst_at_pre (pre ++ chunk) (y0 :: more0) HV').
        set (nb := us_segments (Z.to_nat B) 1 (y0 :: more0)).
        pose proof (zlen_nonneg nb) as Hnb0.
        rewrite Hdrop.
        destruct ((ns <? j) && (j <=? ns + zlen nb)) eqn:Ehit.
        * (* the lost frame is in this sub-block *)
          destruct (readall_hole (Z.to_nat (j - ns - 1)) f (y0 :: more0) (pre ++ chunk) 0 (zlen (pre ++ chunk)) (zlen nb)
                      (ex && (B =? sent)) (nc + 1) (ns + zlen nb) log' (if cc then crc_from crc chunk else crc)
                      (remove_nth (Z.to_nat (j - ns - 1)) nb))
            as (nc'' & ns'' & log'' & start'' & ex'' & Hrun); try assumption; try lia; try discriminate.
          -- rewrite Z.sub_0_r. reflexivity.
          -- rewrite Z.sub_0_r. change (0 + 1) with 1. fold nb. apply andb_prop in Ehit. unfold zlen in *. lia.
          -- rewrite Z.sub_0_r. reflexivity.
          -- apply past_of_j. lia.
          -- eexists _, _, _, _, _. rewrite Hrun. destruct cc eqn:Ecc; reflexivity.
        * destruct (IH (y0 :: more0) (pre ++ chunk) 0 (zlen (pre ++ chunk)) (zlen nb) (ex && (B =? sent)) (nc + 1)
                       (ns + zlen nb) log' (if cc then crc_from crc chunk else crc) nb)
            as (nc'' & ns'' & log'' & start'' & ex'' & Hrun); try assumption; try lia; try discriminate.
          -- rewrite Z.sub_0_r. reflexivity.
          -- eexists _, _, _, _, _. rewrite Hrun. destruct cc eqn:Ecc; reflexivity.
      + replace (a + 1 =? B) with false by lia.
        destruct (IH (y0 :: more0) (pre ++ chunk) (a + 1) start sent ex nc ns log
                     (if cc then crc_from crc chunk else crc) q')
          as (nc'' & ns'' & log'' & start'' & ex'' & Hrun); try assumption; try lia; try discriminate.
        * rewrite Eq'. f_equal. lia.
        * eexists _, _, _, _, _. rewrite Hrun. destruct cc eqn:Ecc; reflexivity.
  Qed.

  Lemma upload_single_loss_section index sub fuel :
    1 <= zlen V < 4294967296 -> 2 <= j <= 1 + (zlen V + 6) / 7 -> (length V + 1 < fuel)%nat ->
    exists u w,
      ul_transfer usys fuel (mknet (fs_init (us_init V crc_en si) faults) [] []) index sub B crc_client = (Ok V, u, w) /\
      u_done u = true /\ u_error u = false /\ us_ended (f_inner (n_srv w)) = true /\ us_bad (f_inner (n_srv w)) = 0.
  Proof.
    intros HV Hj Hfuel.
    assert (Hpass0 : forall outs : list frame, zlen outs = 1 -> mangle faults 0 outs = outs).
    { intros outs Ho. rewrite Hdrop, Ho. replace ((0 <? j) && (j <=? 0 + 1)) with false by lia. reflexivity. }
    destruct (ul_init_okF index sub ltac:(lia) Hpass0) as (log & Hinit).
    unfold ul_transfer. rewrite Hinit.
    assert (HVne : V <> []) by (intros E; rewrite E in HV; cbn in HV; lia).
    set (nb := us_segments (Z.to_nat B) 1 V) in *.
    pose proof (zlen_nonneg nb) as Hnb0.
    assert (Hrun : exists nc' ns' log' start' ex',
               readall usys fuel (UCF false 0 0 None 0) (NUF (USF 2 0 (zlen nb) true) (mangle faults 1 nb) 2 (1 + zlen nb) log) [] =
               (Ok V, UCF true (zlen V) (if cc then crc16 V else 0) (Some (if cc then crc16 V else 0)) 0,
                NUF (USF 3 start' 0 ex') [] nc' ns' log')).
    { rewrite Hdrop. destruct ((1 <? j) && (j <=? 1 + zlen nb)) eqn:Ehit.
      - apply andb_prop in Ehit.
        apply (readall_hole (Z.to_nat (j - 1 - 1)) fuel V [] 0 0 (zlen nb) true 2 (1 + zlen nb) log 0 _ eq_refl HVne);
          try reflexivity; try lia.
        + rewrite Z.sub_0_r. reflexivity.
        + rewrite Z.sub_0_r. change (0 + 1) with 1. fold nb. unfold zlen in *. lia.
        + rewrite Z.sub_0_r. reflexivity.
        + apply past_of_j. lia.
      - apply (readall_pre fuel V [] 0 0 (zlen nb) true 2 (1 + zlen nb) log 0 nb eq_refl HVne); try reflexivity; try lia.
        rewrite Z.sub_0_r. reflexivity. }
    destruct Hrun as (nc' & ns' & log' & start' & ex' & Hrun).
    change (zlen (@nil Z)) with 0 in Hrun. rewrite Hrun.
    destruct (ul_close_ok (zlen V) (if cc then crc16 V else 0) (Some (if cc then crc16 V else 0)) start' ex' nc' ns' log')
      as (w & Hw & He & Hb & Hx).
    rewrite Hw. eexists _, w. split; [reflexivity|]. repeat split; assumption.
  Qed.
End UploadF.

(* ------------------------------------------------------------------ C13 block_upload_exact *)
Lemma mangle_nil ns outs : mangle [] ns outs = outs.
Proof. revert ns. induction outs as [|fr r IH]; intros ns; cbn [mangle mangle1 app]; [reflexivity|]. now rewrite IH. Qed.

Lemma block_upload_exact : forall (V : list Z) (B index sub : Z) (crc_client crc_server size_ind : bool) (fuel : nat),
  1 <= zlen V < 4294967296 -> 1 <= B <= 127 -> (length V + 1 < fuel)%nat ->
  exists u w,
    ul_transfer (faulty ul_srv) fuel (mknet (fs_init (us_init V crc_server size_ind) []) [] []) index sub B crc_client = (Ok V, u, w) /\
    u_done u = true /\ u_error u = false /\
    us_ended (f_inner (n_srv w)) = true /\ us_acks_exact (f_inner (n_srv w)) = true /\ us_bad (f_inner (n_srv w)) = 0.
Proof.
  intros V B index sub crc_client crc_server size_ind fuel HV HB Hfuel.
  apply (upload_exact_section V B crc_client crc_server size_ind [] HB (fun _ => eq_refl) index sub fuel HV); [|exact Hfuel].
  intros ns outs _. apply mangle_nil.
Qed.

(* ------------------------------------------------------------------ C13 single_loss_repaired *)
Lemma upload_single_loss_repaired :
  forall (V : list Z) (B index sub : Z) (crc_client crc_server size_ind : bool) (fuel : nat) (j : Z),
  1 <= zlen V < 4294967296 -> 1 <= B <= 127 -> (length V + 1 < fuel)%nat ->
  2 <= j <= 1 + (zlen V + 6) / 7 ->
  exists u w,
    ul_transfer (faulty ul_srv) fuel (mknet (fs_init (us_init V crc_server size_ind) [FDropS j]) [] []) index sub B crc_client = (Ok V, u, w) /\
    u_done u = true /\ u_error u = false /\ us_ended (f_inner (n_srv w)) = true /\ us_bad (f_inner (n_srv w)) = 0.
Proof.
  intros V B index sub crc_client crc_server size_ind fuel j HV HB Hfuel Hj.
  exact (upload_single_loss_section V B crc_client crc_server size_ind [FDropS j] HB (lostb_drops j) j
           (fun ns outs => mangle_single_drop j outs ns) index sub fuel HV Hj Hfuel).
Qed.

(* =====================================================================================
   C13: other callers of the upload stream
   ===================================================================================== *)
(* ---- the readinto()-then-read() caller hands out the same byte stream as read() alone ---- *)
Section ReadInto.
  Context {S : Type} (srv : S -> frame -> S * list frame).
  Context (Hsrv8 : forall s fr, Forall len8 (snd (srv s fr))).
  Notation net := (@net S).

  Definition ri_post (u : ul) (w : net) (start : list Z) (x : RU (list Z) * list Z) : Prop :=
    match x with
    | ((Ok acc', u', w'), pend') =>
        q8 w' /\ exists n, forall fuel, readall srv (n + Datatypes.S fuel) u w start = readall srv (Datatypes.S fuel) u' w' (acc' ++ pend')
    | ((Err k, u', w'), _) => exists n, forall fuel, readall srv (n + Datatypes.S fuel) u w start = (Err k, u', w')
    | ((Abort a, u', w'), _) => exists n, forall fuel, readall srv (n + Datatypes.S fuel) u w start = (Abort a, u', w')
    end.

  Lemma readinto_all_equiv : forall ks u pend (w : net) acc,
    q8 w -> ri_post u w (acc ++ pend) (ul_readinto_all srv ks u pend w acc).
  Proof.
    induction ks as [|k r IH]; intros u pend w acc Hq.
    - cbn [ul_readinto_all ri_post]. split; [exact Hq|]. exists 0%nat. intros fuel. reflexivity.
    - cbn [ul_readinto_all]. unfold ul_readinto.
      destruct pend as [|p0 pend0].
      + rewrite app_nil_r.
        destruct (ul_read srv u w) as [[[d|e|a] u1] w1] eqn:Er.
        * destruct (ul_read_q8 srv Hsrv8 _ _ _ _ _ Hq Er) as [Hq1 Hdone].
          specialize (IH u1 (skipn (Z.to_nat k) d) w1 (acc ++ firstn (Z.to_nat k) d) Hq1).
          rewrite <- app_assoc, firstn_skipn in IH.
          destruct (ul_readinto_all srv r u1 (skipn (Z.to_nat k) d) w1 (acc ++ firstn (Z.to_nat k) d)) as [[[[acc'|e'|a'] u'] w'] pend'] eqn:Ea;
            cbn [ri_post] in IH |- *.
          -- destruct IH as [Hq' [n Hn]]. split; [exact Hq'|].
             destruct d as [|x d'].
             ++ (* nothing handed out: the stream is finished *)
                specialize (Hdone eq_refl). rewrite app_nil_r in Hn.
                exists n. intros fuel. rewrite <- Hn.
                (* reading once more from the finished stream changes nothing *)
                assert (Hfix : ul_read srv u1 w1 = (Ok [], u1, w1)) by (unfold ul_read; rewrite Hdone; reflexivity).
                destruct n as [|n']; cbn [Nat.add readall]; rewrite Er; [rewrite Hfix|]; try reflexivity.
                rewrite Hfix. reflexivity.
             ++ exists (Datatypes.S n). intros fuel. cbn [Nat.add readall]. rewrite Er. apply Hn.
          -- destruct IH as [n Hn]. destruct d as [|x d'].
             ++ specialize (Hdone eq_refl). rewrite app_nil_r in Hn.
                assert (Hfix : ul_read srv u1 w1 = (Ok [], u1, w1)) by (unfold ul_read; rewrite Hdone; reflexivity).
                exfalso. specialize (Hn 0%nat). destruct n; cbn [Nat.add readall] in Hn; rewrite Hfix in Hn; discriminate.
             ++ exists (Datatypes.S n). intros fuel. cbn [Nat.add readall]. rewrite Er. apply Hn.
          -- destruct IH as [n Hn]. destruct d as [|x d'].
             ++ specialize (Hdone eq_refl). rewrite app_nil_r in Hn.
                assert (Hfix : ul_read srv u1 w1 = (Ok [], u1, w1)) by (unfold ul_read; rewrite Hdone; reflexivity).
                exfalso. specialize (Hn 0%nat). destruct n; cbn [Nat.add readall] in Hn; rewrite Hfix in Hn; discriminate.
             ++ exists (Datatypes.S n). intros fuel. cbn [Nat.add readall]. rewrite Er. apply Hn.
        * cbn [ri_post]. exists 0%nat. intros fuel. cbn [Nat.add readall]. rewrite Er. reflexivity.
        * cbn [ri_post]. exists 0%nat. intros fuel. cbn [Nat.add readall]. rewrite Er. reflexivity.
      + specialize (IH u (skipn (Z.to_nat k) (p0 :: pend0)) w (acc ++ firstn (Z.to_nat k) (p0 :: pend0)) Hq).
        rewrite <- app_assoc, firstn_skipn in IH. exact IH.
  Qed.

  (* the with-block: same result as f.read() alone with a little more fuel *)
  Lemma transfer_ri_equiv fuel w index sub blksize crc ks :
    exists n, ul_transfer_ri srv (Datatypes.S fuel) w index sub blksize crc ks =
              ul_transfer srv (n + Datatypes.S fuel) w index sub blksize crc.
  Proof.
    unfold ul_transfer_ri, ul_transfer.
    destruct (ul_init srv w index sub blksize crc) as [[u0|e|a] w1] eqn:Ei; try (exists 0%nat; reflexivity).
    assert (Hq1 : q8 w1).
    { revert Ei. unfold ul_init. destruct (request_response srv w _) as [[r|k|a] w0] eqn:Err; try discriminate.
      pose proof (request_response_q8 srv Hsrv8 _ _ _ _ Err) as Hq0.
      destruct (negb (Z.land (fb r 0) 224 =? RESPONSE_BLOCK_UPLOAD)); [discriminate|].
      destruct (negb (fb r 1 + 256 * fb r 2 =? index) || negb (fb r 3 =? sub)); [discriminate|].
      intros H. inversion H; subst. apply send_request_q8; assumption. }
    pose proof (readinto_all_equiv ks u0 [] w1 [] Hq1) as H. cbn [app] in H.
    destruct (ul_readinto_all srv ks u0 [] w1 []) as [[[[acc'|e'|a'] u'] w'] pend']; cbn [ri_post] in H.
    - destruct H as [_ [n Hn]]. exists n. unfold ul_read_rest. rewrite Hn. reflexivity.
    - destruct H as [n Hn]. exists n. rewrite Hn. reflexivity.
    - destruct H as [n Hn]. exists n. rewrite Hn. reflexivity.
  Qed.
End ReadInto.

(* C13 readinto_exact: the undisturbed transfer read through readinto() with arbitrary (small) buffers and a final
   read() returns exactly the value as well *)
Lemma readinto_exact : forall (V : list Z) (B index sub : Z) (crc_client crc_server size_ind : bool) (fuel : nat) (ks : list Z),
  1 <= zlen V < 4294967296 -> 1 <= B <= 127 -> (length V + 1 < fuel)%nat ->
  exists u w,
    ul_transfer_ri (faulty ul_srv) fuel (mknet (fs_init (us_init V crc_server size_ind) []) [] []) index sub B crc_client ks = (Ok V, u, w) /\
    u_done u = true /\ u_error u = false /\
    us_ended (f_inner (n_srv w)) = true /\ us_acks_exact (f_inner (n_srv w)) = true /\ us_bad (f_inner (n_srv w)) = 0.
Proof.
  intros V B index sub crc_client crc_server size_ind fuel ks HV HB Hfuel.
  destruct fuel as [|f]; [lia|].
  destruct (transfer_ri_equiv (faulty ul_srv) (faulty_len8 ul_srv ul_srv_len8) f
              (mknet (fs_init (us_init V crc_server size_ind) []) [] []) index sub B crc_client ks) as [n Hn].
  rewrite Hn. apply block_upload_exact; try assumption. lia.
Qed.
