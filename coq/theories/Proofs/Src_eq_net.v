(* Tie (c): NodeScanner.on_message_received as translated from the CURRENT source text equals the
   model's scan_step (Model/Net.v), on which C10's scanner theorems rest. *)
From Coq Require Import ZArith List Bool Lia.
From CV Require Import Base.Tys Base.PyLib Gen.SrcC10 Gen.NetTables Model.Net.
Import ListNotations.
Open Scope Z_scope.

Theorem src_scanner_step_eq found can_id :
  src_scanner_step SERVICES found can_id = scan_step found can_id.
Proof. unfold src_scanner_step, scan_step. cbv zeta. rewrite andb_assoc. reflexivity. Qed.
