(* Tie (c): ODVariable.decode_bits / encode_bits as translated from the CURRENT source text (Gen/SrcC20.v)
   equal the model functions of Model/Views.v (C20). *)
From Coq Require Import ZArith List Bool Lia String.
From CV Require Import Base.Val Base.Tys Base.PyLib Gen.SrcC20 Model.Views.
Import ListNotations.
Open Scope Z_scope.

Lemma mask_of_fold bits : Forall (fun b => 0 <= b) bits -> forall mask,
  mask_of bits mask = Ok (fold_left (fun mask bit => Z.lor mask (Z.shiftl 1 bit)) bits mask).
Proof.
  induction 1 as [|b r Hb Hr IH]; intros mask; cbn [mask_of fold_left]; [reflexivity|].
  replace (b <? 0) with false by lia. apply IH.
Qed.

Theorem src_decode_bits_eq value bits : bits <> [] -> Forall (fun b => 0 <= b) bits ->
  decode_bits_list value bits = Ok (src_decode_bits value bits).
Proof.
  intros Hne Hpos. unfold decode_bits_list, src_decode_bits. rewrite (mask_of_fold bits Hpos). cbn [rbind].
  destruct bits as [|x r]; [congruence|]. reflexivity.
Qed.

Theorem src_encode_bits_eq original bits bit_value : bits <> [] -> Forall (fun b => 0 <= b) bits ->
  encode_bits_list original bits bit_value = Ok (src_encode_bits original bits bit_value).
Proof.
  intros Hne Hpos. unfold encode_bits_list, src_encode_bits. rewrite (mask_of_fold bits Hpos). cbn [rbind].
  destruct bits as [|x r]; [congruence|]. reflexivity.
Qed.

(* Variable.read / Variable.write: the dispatch on fmt as translated from the source text is the model's rw_route
   (the methods do nothing else than go through the raw / phys / desc property that the format names). *)
Theorem src_read_route_eq fmt : src_read_route fmt = rw_route fmt.
Proof. unfold src_read_route, rw_route, FMT_RAW, FMT_PHYS, FMT_DESC. reflexivity. Qed.

Theorem src_write_route_eq fmt : src_write_route fmt 0 = rw_route fmt.
Proof.
  unfold src_write_route, rw_route, FMT_RAW, FMT_PHYS, FMT_DESC.
  destruct (fmt =? 0); [reflexivity|]. destruct (fmt =? 1); [reflexivity|]. destruct (fmt =? 2); reflexivity.
Qed.
