(* Tie (c): BaseNode402.state as translated from the CURRENT source text (Gen/SrcC19.v) equals the model
   function of Model/P402.v (C19). *)
From Coq Require Import ZArith List Bool Lia String.
From CV Require Import Base.Val Base.Tys Base.PyLib Gen.SrcC19 Gen.P402Tables Model.P402.
Import ListNotations.
Open Scope Z_scope.

Lemma src_state_decode_in tbl sw : src_p402_state tbl sw = decode_in tbl sw.
Proof.
  unfold src_p402_state. cbv zeta.
  induction tbl as [|[name [m v]] r IH]; cbn [find decode_in]; [reflexivity|].
  destruct (Z.land sw m =? v); [reflexivity|exact IH].
Qed.

Theorem src_p402_state_eq sw : src_p402_state SW_MASK sw = decode_state sw.
Proof. apply src_state_decode_in. Qed.
