(* Proofs about Model/P402.v against Model/RefDrive.v (C19). *)
From Coq Require Import ZArith List Bool String Lia ZifyBool.
From CV Require Import Base.Val Base.Tys Gen.P402Tables Model.RefDrive Model.P402.
Import ListNotations.
Open Scope Z_scope.
Ltac Zify.zify_post_hook ::= Z.to_euclidean_division_equations.

(* ================================================================== A. statusword decoding *)

(* all pattern bits live in 0x6F = 111 *)
Definition masks_ok (tbl : list (string * (Z * Z))) : bool :=
  forallb (fun e => Z.land (fst (snd e)) 111 =? fst (snd e)) tbl.

Lemma land_mask_absorb : forall sw m, Z.land m 111 = m -> Z.land (Z.land sw 111) m = Z.land sw m.
Proof.
  intros sw m H. rewrite <- Z.land_assoc. rewrite (Z.land_comm 111 m). rewrite H. reflexivity.
Qed.

Lemma decode_in_low : forall tbl sw, masks_ok tbl = true ->
  decode_in tbl (Z.land sw 111) = decode_in tbl sw.
Proof.
  induction tbl as [|[name [m v]] r IH]; intros sw H; [reflexivity|].
  cbn [masks_ok forallb fst snd] in H. apply andb_true_iff in H. destruct H as [Hm Hr].
  apply Z.eqb_eq in Hm. cbn [decode_in]. rewrite (land_mask_absorb sw m Hm).
  rewrite (IH sw Hr). reflexivity.
Qed.

Lemma sw_mask_ok : masks_ok SW_MASK = true.
Proof. vm_compute. reflexivity. Qed.

Lemma decode_state_low : forall sw, decode_state (Z.land sw 111) = decode_state sw.
Proof. intro sw. apply decode_in_low. exact sw_mask_ok. Qed.

Lemma low_range : forall sw, 0 <= Z.land sw 111 < 128.
Proof.
  intro sw.
  assert (E : Z.land sw 111 = (Z.land sw 111) mod 2 ^ 7).
  { rewrite <- Z.land_ones by lia. rewrite <- Z.land_assoc. reflexivity. }
  rewrite E. apply Z.mod_pos_bound. reflexivity.
Qed.

Lemma sw_matches_low : forall sw s, sw_matches (Z.land sw 111) s = sw_matches sw s.
Proof.
  intros sw s. unfold sw_matches. destruct s; cbn [sw_pattern];
    rewrite land_mask_absorb by reflexivity; reflexivity.
Qed.

Lemma cia_states_low : forall sw, cia_states_of (Z.land sw 111) = cia_states_of sw.
Proof. intro sw. unfold cia_states_of. apply filter_ext. intro s. apply sw_matches_low. Qed.

Lemma cia_decode_low : forall sw, cia_decode (Z.land sw 111) = cia_decode sw.
Proof. intro sw. unfold cia_decode. rewrite cia_states_low. reflexivity. Qed.

Definition range128 : list Z := map Z.of_nat (seq 0 128).

Lemma in_range128 : forall k, 0 <= k < 128 -> In k range128.
Proof.
  intros k H. unfold range128. apply in_map_iff. exists (Z.to_nat k). split; [lia|].
  apply in_seq. lia.
Qed.

Definition decode_check (k : Z) : bool :=
  String.eqb (decode_state k) (cia_decode k) && (List.length (cia_states_of k) <=? 1)%nat.

Lemma decode_check_128 : forallb decode_check range128 = true.
Proof. vm_compute. reflexivity. Qed.

(* for EVERY integer: the decoded state is the CiA 402 state whose pattern matches, UNKNOWN when
   none does, and at most one pattern matches *)
Lemma statusword_decoding_any : forall sw : Z,
  decode_state sw = cia_decode sw /\ (List.length (cia_states_of sw) <= 1)%nat.
Proof.
  intro sw.
  pose proof (proj1 (forallb_forall _ _) decode_check_128 _ (in_range128 _ (low_range sw))) as H.
  unfold decode_check in H. apply andb_true_iff in H. destruct H as [H1 H2].
  apply String.eqb_eq in H1. apply Nat.leb_le in H2.
  rewrite decode_state_low, cia_decode_low in H1. rewrite cia_states_low in H2. split; assumption.
Qed.

Lemma statusword_decoding : forall sw : Z, 0 <= sw < 65536 ->
  decode_state sw = cia_decode sw /\ (List.length (cia_states_of sw) <= 1)%nat.
Proof. intros sw _. apply statusword_decoding_any. Qed.

Lemma decode_ignores_extra_bits : forall sw extra : Z,
  Z.land extra 111 = 0 -> decode_state (Z.lor sw extra) = decode_state sw.
Proof.
  intros sw e H. rewrite <- (decode_state_low (Z.lor sw e)), <- (decode_state_low sw).
  rewrite Z.land_lor_distr_l, H, Z.lor_0_r. reflexivity.
Qed.

(* every statusword that a drive in state s may report decodes to the name of s *)
Lemma pattern_embed : forall v m e, Z.land v m = v -> Z.land (Z.lor v (Z.land e (Z.lnot m))) m = v.
Proof.
  intros v m e H. rewrite Z.land_lor_distr_l, H, <- Z.land_assoc.
  rewrite (Z.land_comm (Z.lnot m) m), Z.land_lnot_diag, Z.land_0_r, Z.lor_0_r. reflexivity.
Qed.

Lemma sw_of_matches : forall s e, sw_matches (sw_of s e) s = true.
Proof.
  intros s e. unfold sw_matches, sw_of. destruct s; cbn [sw_pattern];
    rewrite pattern_embed by reflexivity; reflexivity.
Qed.

Lemma length_le1_in : forall (A : Type) (l : list A) x, In x l -> (List.length l <= 1)%nat -> l = [x].
Proof.
  intros A l x Hin Hlen. destruct l as [|a [|b r]].
  - contradiction.
  - destruct Hin as [->|[]]. reflexivity.
  - cbn in Hlen. lia.
Qed.

Lemma decode_sw_of : forall s e, decode_state (sw_of s e) = dstate_name s.
Proof.
  intros s e. destruct (statusword_decoding_any (sw_of s e)) as [H1 H2]. rewrite H1.
  unfold cia_decode.
  assert (Hin : In s (cia_states_of (sw_of s e))).
  { unfold cia_states_of. apply filter_In. split; [destruct s; cbn; tauto | apply sw_of_matches]. }
  rewrite (length_le1_in _ _ _ Hin H2). reflexivity.
Qed.

(* ================================================================== B. equality tests *)
Lemma dstate_eqb_eq : forall a b, dstate_eqb a b = true -> a = b.
Proof. intros a b; destruct a, b; cbn; intro H; try reflexivity; discriminate. Qed.

Lemma dstate_eqb_refl : forall a, dstate_eqb a a = true.
Proof. destruct a; reflexivity. Qed.

Lemma name_eqb : forall a b, String.eqb (dstate_name a) (dstate_name b) = dstate_eqb a b.
Proof. intros a b; destruct a, b; reflexivity. Qed.

Lemma ostr_eqb_eq : forall a b, ostr_eqb a b = true -> a = b.
Proof.
  intros [a|] [b|]; cbn; intro H; try discriminate; try reflexivity.
  apply String.eqb_eq in H. congruence.
Qed.

Definition pc_eqb (a b : pc) : bool :=
  match a, b with
  | PLoop, PLoop | PNext, PNext | PDone, PDone => true
  | PChange x, PChange y | PWait x, PWait y | PCheck x, PCheck y => ostr_eqb x y
  | PFail x, PFail y => x =? y
  | _, _ => false
  end.

Lemma pc_eqb_eq : forall a b, pc_eqb a b = true -> a = b.
Proof.
  intros a b; destruct a, b; cbn; intro H; try discriminate; try reflexivity;
    try (apply ostr_eqb_eq in H; congruence).
  apply Z.eqb_eq in H. congruence.
Qed.

(* ================================================================== C. the abstract machine *)
(* what matters of the drive for the run: its state and the remembered bit 7 *)
Definition acfg : Type := pc * dstate * bool.

Definition acfg_eqb (a b : acfg) : bool :=
  let '(p, s, l) := a in let '(p', s', l') := b in
  dstate_eqb s s' && Bool.eqb l l' && pc_eqb p p'.

Lemma acfg_eqb_eq : forall a b, acfg_eqb a b = true -> a = b.
Proof.
  intros [[p s] l] [[p' s'] l']. cbn. intro H.
  apply andb_true_iff in H. destruct H as [H H3]. apply andb_true_iff in H. destruct H as [H1 H2].
  apply dstate_eqb_eq in H1. apply Bool.eqb_prop in H2. apply pc_eqb_eq in H3. congruence.
Qed.

Definition amem (a : acfg) (l : list acfg) : bool := existsb (acfg_eqb a) l.

Lemma amem_in : forall a l, amem a l = true -> In a l.
Proof.
  intros a l H. apply existsb_exists in H. destruct H as [x [Hin He]].
  apply acfg_eqb_eq in He. subst. exact Hin.
Qed.

Definition astep (target : string) (a : acfg) (fire : bool) : acfg * option Z :=
  let '(p, s, l7) := a in
  if is_final p then (a, None)
  else
    let s1 := if fire then auto s else s in
    match p with
    | PCheck n => ((PWait n, s1, l7), None)
    | _ =>
        let '(p', cw) := lib_step target p (dstate_name s1) in
        match cw with
        | Some c => ((p', command s1 c l7, cw_bit7 c), Some c)
        | None => ((p', s1, l7), None)
        end
    end.

Definition ocons (o : option Z) (l : list Z) : list Z := match o with Some c => c :: l | None => l end.

Fixpoint arun (fuel : nat) (target : string) (a : acfg) (s : list bool) (acc : list Z) : acfg * list Z :=
  if is_final (fst (fst a)) then (a, acc)
  else match fuel with
       | O => ((PFail E_FUEL, snd (fst a), snd a), acc)
       | S f => let '(a', cw) := astep target a (hd true s) in arun f target a' (tl s) (ocons cw acc)
       end.

(* the concrete step on the reference drive is the abstract step *)
Lemma step_sdo_abs : forall target p d, is_final p = false ->
  let '(p', d') := step sdo_ops target p d in
  let '(a', cw) := astep target (p, d_st d, d_last7 d) (hd true (d_sched d)) in
  a' = (p', d_st d', d_last7 d') /\ d_sched d' = tl (d_sched d) /\ d_extra d' = d_extra d /\
  d_cws d' = ocons cw (d_cws d).
Proof.
  intros target p d Hf.
  assert (Hfire : match d_sched d with [] => true | b :: _ => b end = hd true (d_sched d))
    by (destruct (d_sched d); reflexivity).
  unfold astep. rewrite Hf.
  destruct p; try discriminate Hf; unfold step; cbn [sdo_ops w_sw w_check w_cw];
    unfold rd_status; rewrite Hfire; cbn [fst snd d_st d_sched d_extra d_last7 d_cws];
    try rewrite decode_sw_of;
    try (match goal with |- context [lib_step ?t ?q ?c] => destruct (lib_step t q c) as [p' [c'|]] end);
    unfold wr_cw, command; cbn [fst snd d_st d_sched d_extra d_last7 d_cws ocons]; repeat split; reflexivity.
Qed.

Lemma run_sdo_abs : forall n target p d,
  let '(p', d') := run sdo_ops n target p d in
  arun n target (p, d_st d, d_last7 d) (d_sched d) (d_cws d) = ((p', d_st d', d_last7 d'), d_cws d') /\
  d_extra d' = d_extra d.
Proof.
  induction n as [|n IH]; intros target p d; cbn [run arun fst snd].
  - destruct (is_final p); split; reflexivity.
  - destruct (is_final p) eqn:Hf; [split; reflexivity|].
    pose proof (step_sdo_abs target p d Hf) as Hs.
    destruct (step sdo_ops target p d) as [p1 d1].
    destruct (astep target (p, d_st d, d_last7 d) (hd true (d_sched d))) as [a1 cw].
    destruct Hs as [Ha [Hsch [Hex Hcw]]]. subst a1.
    specialize (IH target p1 d1). destruct (run sdo_ops n target p1 d1) as [p' d'].
    destruct IH as [IH1 IH2]. rewrite <- Hsch, <- Hcw. split; [exact IH1 | congruence].
Qed.

(* ---- reachable abstract configurations, by breadth-first search *)
Definition succs (target : string) (a : acfg) : list acfg :=
  [fst (astep target a true); fst (astep target a false)].

Fixpoint add_new (xs seen fresh : list acfg) : list acfg * list acfg :=
  match xs with
  | [] => (seen, fresh)
  | x :: r => if amem x seen then add_new r seen fresh else add_new r (x :: seen) (x :: fresh)
  end.

Fixpoint bfs (n : nat) (target : string) (seen frontier : list acfg) : list acfg :=
  match n with
  | O => seen
  | S n' =>
      match frontier with
      | [] => seen
      | _ => let '(seen', fresh) := add_new (flat_map (succs target) frontier) seen [] in
             bfs n' target seen' fresh
      end
  end.

Definition reach (t : dstate) : list acfg :=
  let init := map (fun x => (PLoop, x, false)) all_dstates in
  bfs 200 (dstate_name t) init init.

(* the targets that can be commanded *)
Definition commandable (t : dstate) : bool :=
  match t with
  | SwitchOnDisabled | ReadyToSwitchOn | SwitchedOn | OperationEnabled | QuickStopActive => true
  | _ => false
  end.
Definition commandable_targets : list dstate :=
  [SwitchOnDisabled; ReadyToSwitchOn; SwitchedOn; OperationEnabled; QuickStopActive].

Lemma commandable_in : forall t, commandable t = true -> In t commandable_targets.
Proof. destruct t; cbn; intro H; try discriminate; tauto. Qed.

(* a controlword is harmless for target t unless it carries the enable-operation command and the
   target is neither OPERATION ENABLED nor QUICK STOP ACTIVE *)
Definition may_enable (t : dstate) : bool :=
  match t with OperationEnabled | QuickStopActive => true | _ => false end.
Definition cw_safe (t : dstate) (c : Z) : bool := may_enable t || negb (is_enable_operation c).
Definition ocw_safe (t : dstate) (o : option Z) : bool := match o with Some c => cw_safe t c | None => true end.

(* number of steps that suffice once the automatic transitions fire immediately *)
Definition K : nat := 40.

Definition closed_check (t : dstate) : bool :=
  forallb (fun a => forallb (fun b => let '(a', cw) := astep (dstate_name t) a b in
                                      amem a' (reach t) && ocw_safe t cw) [true; false]) (reach t).

Definition term_check (t : dstate) : bool :=
  forallb (fun a => match arun K (dstate_name t) a [] [] with
                    | ((PDone, s, _), _) => dstate_eqb s t
                    | _ => false
                    end) (reach t).

Definition init_check (t : dstate) : bool :=
  forallb (fun x => amem (PLoop, x, false) (reach t)) all_dstates.

Lemma machine_checks :
  forallb (fun t => closed_check t && term_check t && init_check t) commandable_targets = true.
Proof. vm_compute. reflexivity. Qed.

Section Target.
  Context (t : dstate) (Ht : commandable t = true).
  Let tn := dstate_name t.

  Lemma checks_t : closed_check t = true /\ term_check t = true /\ init_check t = true.
  Proof.
    pose proof (proj1 (forallb_forall _ _) machine_checks t (commandable_in t Ht)) as H.
    apply andb_true_iff in H. destruct H as [H H3]. apply andb_true_iff in H. tauto.
  Qed.

  Lemma reach_closed : forall a b, In a (reach t) ->
    In (fst (astep tn a b)) (reach t) /\ ocw_safe t (snd (astep tn a b)) = true.
  Proof.
    intros a b Hin. destruct checks_t as [Hc _]. unfold closed_check in Hc.
    pose proof (proj1 (forallb_forall _ _) Hc a Hin) as H1.
    assert (Hb : In b [true; false]) by (destruct b; cbn; tauto).
    pose proof (proj1 (forallb_forall _ _) H1 b Hb) as H2. cbv beta in H2. unfold tn.
    destruct (astep (dstate_name t) a b) as [a' cw]. apply andb_true_iff in H2. destruct H2 as [H2 H3].
    split; [apply amem_in; exact H2 | exact H3].
  Qed.

  Lemma reach_term : forall a, In a (reach t) ->
    exists l7 acc, arun K tn a [] [] = ((PDone, t, l7), acc).
  Proof.
    intros a Hin. destruct checks_t as [_ [Hc _]]. unfold term_check in Hc.
    pose proof (proj1 (forallb_forall _ _) Hc a Hin) as H. cbv beta in H. unfold tn.
    destruct (arun K (dstate_name t) a [] []) as [[[p s] l7] acc].
    destruct p; try discriminate H. apply dstate_eqb_eq in H. subst s. eauto.
  Qed.

  Lemma reach_init : forall x, In (PLoop, x, false) (reach t).
  Proof.
    intro x. destruct checks_t as [_ [_ Hc]]. unfold init_check in Hc. apply amem_in.
    apply (proj1 (forallb_forall _ _) Hc x). destruct x; cbn; tauto.
  Qed.

  (* the accumulator does not influence the run *)
  Lemma arun_acc : forall n a s acc, fst (arun n tn a s acc) = fst (arun n tn a s []).
  Proof.
    induction n as [|n IH]; intros a s acc; cbn [arun].
    - destruct (is_final (fst (fst a))); reflexivity.
    - destruct (is_final (fst (fst a))); [reflexivity|].
      destruct (astep tn a (hd true s)) as [a' cw].
      rewrite (IH a' (tl s) (ocons cw acc)), (IH a' (tl s) (ocons cw [])). reflexivity.
  Qed.

  Lemma arun_final : forall n a s acc, is_final (fst (fst a)) = true -> arun n tn a s acc = (a, acc).
  Proof. intros n a s acc H. destruct n; cbn [arun]; rewrite H; reflexivity. Qed.

  (* every controlword emitted from a reachable configuration is safe *)
  Lemma arun_safe : forall n a s acc, In a (reach t) -> forallb (cw_safe t) acc = true ->
    forallb (cw_safe t) (snd (arun n tn a s acc)) = true.
  Proof.
    induction n as [|n IH]; intros a s acc Hin Hacc; cbn [arun].
    - destruct (is_final (fst (fst a))); exact Hacc.
    - destruct (is_final (fst (fst a))); [exact Hacc|].
      destruct (reach_closed a (hd true s) Hin) as [H1 H2].
      destruct (astep tn a (hd true s)) as [a' cw]. cbn [fst snd] in H1, H2.
      apply IH; [exact H1|]. destruct cw as [c|]; cbn [ocons forallb]; [|exact Hacc].
      cbn [ocw_safe] in H2. rewrite H2. exact Hacc.
  Qed.

  (* from a reachable configuration the run ends in the target within K + |s| status reads *)
  Lemma arun_terminates : forall s a, In a (reach t) ->
    exists l7, fst (arun (K + List.length s) tn a s []) = (PDone, t, l7).
  Proof.
    induction s as [|b s IH]; intros a Hin.
    - cbn [List.length]. rewrite Nat.add_0_r. destruct (reach_term a Hin) as [l7 [acc H]].
      exists l7. rewrite H. reflexivity.
    - cbn [List.length]. rewrite Nat.add_succ_r. cbn [arun].
      destruct (is_final (fst (fst a))) eqn:Hf.
      + destruct (reach_term a Hin) as [l7 [acc H]]. rewrite arun_final in H by exact Hf.
        exists l7. cbn [fst]. congruence.
      + cbn [hd tl]. destruct (reach_closed a b Hin) as [H1 _].
        destruct (astep tn a b) as [a' cw]. cbn [fst] in H1.
        rewrite arun_acc. apply IH. exact H1.
  Qed.
End Target.

(* ================================================================== D. statusword in a TPDO *)
Lemma tpdo_sync : forall d0 d', d_extra d' = d_extra d0 ->
  tpdo_update d0 d' (sw_of (d_st d0) (d_extra d0)) = sw_of (d_st d') (d_extra d').
Proof.
  intros d0 d' He. unfold tpdo_update. destruct (dstate_eqb (d_st d0) (d_st d')) eqn:E; [|reflexivity].
  apply dstate_eqb_eq in E. congruence.
Qed.

Lemma step_pdo_sdo : forall target p d,
  step pdo_ops target p (d, sw_of (d_st d) (d_extra d)) =
  let '(p', d') := step sdo_ops target p d in (p', (d', sw_of (d_st d') (d_extra d'))).
Proof.
  intros target p d.
  destruct (rd_status d) as [d1 v] eqn:Erd.
  assert (He1 : d_extra d1 = d_extra d) by (unfold rd_status in Erd; inversion Erd; reflexivity).
  assert (Hv : v = sw_of (d_st d1) (d_extra d1)) by (unfold rd_status in Erd; inversion Erd; reflexivity).
  subst v.
  destruct p; unfold step; cbn [pdo_ops sdo_ops w_sw w_check w_cw]; try reflexivity;
    rewrite Erd; cbn [fst snd]; rewrite (tpdo_sync d d1 He1); try reflexivity;
    (match goal with |- context [lib_step ?t ?q ?c] => destruct (lib_step t q c) as [p' [c'|]] end;
     [rewrite tpdo_sync by reflexivity|]; reflexivity).
Qed.

Lemma run_pdo_sdo : forall n target p d,
  run pdo_ops n target p (d, sw_of (d_st d) (d_extra d)) =
  let '(p', d') := run sdo_ops n target p d in (p', (d', sw_of (d_st d') (d_extra d'))).
Proof.
  induction n as [|n IH]; intros target p d; cbn [run].
  - destruct (is_final p); reflexivity.
  - destruct (is_final p); [reflexivity|].
    rewrite step_pdo_sdo. destruct (step sdo_ops target p d) as [p1 d1]. apply IH.
Qed.

(* ================================================================== E. main theorems on the setter *)
(* the world of a transport and the drive inside it *)
Definition run_setter (by_pdo : bool) (fuel : nat) (target : string) (d : drive) : pc * drive :=
  if by_pdo then let '(p, (d', _)) := set_state pdo_ops fuel target (d, sw_of (d_st d) (d_extra d)) in (p, d')
  else set_state sdo_ops fuel target d.

Lemma run_setter_sdo : forall by_pdo fuel target d,
  run_setter by_pdo fuel target d = set_state sdo_ops fuel target d.
Proof.
  intros [|] fuel target d; [|reflexivity]. unfold run_setter, set_state.
  rewrite run_pdo_sdo. destruct (run sdo_ops fuel target PLoop d). reflexivity.
Qed.

Lemma commanded_transitions : forall (by_pdo : bool) (x t : dstate) (s : list bool) (extra : Z),
  commandable t = true ->
  let '(p, d) := run_setter by_pdo (K + List.length s) (dstate_name t) (drive_init x s extra) in
  p = PDone /\ d_st d = t /\
  (may_enable t = false -> forall c, In c (d_cws d) -> is_enable_operation c = false).
Proof.
  intros by_pdo x t s extra Ht. rewrite run_setter_sdo. unfold set_state.
  pose proof (run_sdo_abs (K + List.length s) (dstate_name t) PLoop (drive_init x s extra)) as H.
  destruct (run sdo_ops (K + List.length s) (dstate_name t) PLoop (drive_init x s extra)) as [p d].
  cbn [drive_init d_st d_last7 d_sched d_cws d_extra] in H. destruct H as [H _].
  destruct (arun_terminates t Ht s _ (reach_init t Ht x)) as [l7 Hterm].
  pose proof (arun_safe t Ht (K + List.length s) _ s [] (reach_init t Ht x) eq_refl) as Hsafe.
  rewrite H in Hterm, Hsafe. cbn [fst snd] in Hterm, Hsafe.
  inversion Hterm; subst. repeat split.
  intros Hme c Hin. pose proof (proj1 (forallb_forall _ _) Hsafe c Hin) as Hc.
  unfold cw_safe in Hc. rewrite Hme in Hc. cbn in Hc. destruct (is_enable_operation c); [discriminate|reflexivity].
Qed.

Lemma uncommandable_name : forall t, uncommandable (dstate_name t) = negb (commandable t).
Proof. destruct t; reflexivity. Qed.

Lemma uncommandable_refused : forall (by_pdo : bool) (x t : dstate) (s : list bool) (extra : Z) (n : nat),
  commandable t = false ->
  let first := if hd true s then auto x else x in
  let '(p, d) := run_setter by_pdo (S n) (dstate_name t) (drive_init x s extra) in
  p = (if dstate_eqb first t then PDone else PFail E_VALUE) /\ d_cws d = [] /\ d_reads d = 1 /\ d_st d = first.
Proof.
  intros by_pdo x t s extra n Ht first. rewrite run_setter_sdo. unfold set_state.
  cbn [run is_final]. unfold step. cbn [sdo_ops w_sw]. unfold rd_status.
  cbn [drive_init d_st d_sched d_extra d_last7 d_cws d_trace d_reads].
  assert (Hfire : match s with [] => true | b :: _ => b end = hd true s) by (destruct s; reflexivity).
  rewrite Hfire. fold first. rewrite decode_sw_of. cbn [lib_step].
  rewrite name_eqb, uncommandable_name, Ht. cbn [negb].
  destruct (dstate_eqb first t); (destruct n; cbn [run is_final d_cws d_reads d_st]; repeat split; reflexivity).
Qed.

(* ================================================================== F. operation modes *)
Lemma land_pow2_testbit : forall s i, 0 <= i -> (Z.land s (2 ^ i) =? 2 ^ i) = Z.testbit s i.
Proof.
  intros s i Hi. destruct (Z.testbit s i) eqn:E.
  - apply Z.eqb_eq. apply Z.bits_inj'. intros n Hn. rewrite Z.land_spec, Z.pow2_bits_eqb by lia.
    destruct (Z.eqb_spec i n); [subst; rewrite E; reflexivity | apply andb_false_r].
  - apply Z.eqb_neq. intro H. assert (Hb : Z.testbit (Z.land s (2 ^ i)) i = true).
    { rewrite H. apply Z.pow2_bits_true. exact Hi. }
    rewrite Z.land_spec, E in Hb. discriminate.
Qed.

Definition mode_bits (bit : option Z) : Z := match bit with Some i => 2 ^ i | None => 0 end.

Definition mode_entry_check (e : string * (Z * option Z)) : bool :=
  let '(name, (code, bit)) := e in
  match sassoc name OM_SUPPORTED, sassoc name OM_NAME2CODE, zassoc code OM_CODE2NAME with
  | Some b, Some c, Some n => (b =? mode_bits bit) && (c =? code) && String.eqb n name &&
                              match bit with Some i => 0 <=? i | None => true end
  | _, _, _ => false
  end.

Lemma mode_tables_ok : forallb mode_entry_check cia402_modes = true.
Proof. vm_compute. reflexivity. Qed.

Lemma mode_entry : forall name code bit, In (name, (code, bit)) cia402_modes ->
  sassoc name OM_SUPPORTED = Some (mode_bits bit) /\ sassoc name OM_NAME2CODE = Some code /\
  zassoc code OM_CODE2NAME = Some name /\ match bit with Some i => 0 <= i | None => True end.
Proof.
  intros name code bit Hin.
  pose proof (proj1 (forallb_forall _ _) mode_tables_ok _ Hin) as H. unfold mode_entry_check in H.
  destruct (sassoc name OM_SUPPORTED) as [b|]; [|discriminate].
  destruct (sassoc name OM_NAME2CODE) as [c|]; [|discriminate].
  destruct (zassoc code OM_CODE2NAME) as [n|]; [|discriminate].
  repeat (apply andb_true_iff in H; destruct H as [H ?]).
  apply Z.eqb_eq in H. apply String.eqb_eq in H1. apply Z.eqb_eq in H2. subst.
  repeat split. destruct bit; [lia|exact I].
Qed.

Lemma supported_spec : forall name code bit support, In (name, (code, bit)) cia402_modes ->
  is_op_mode_supported name support = Ok (mode_advertised support bit).
Proof.
  intros name code bit support Hin. destruct (mode_entry _ _ _ Hin) as [H1 [_ [_ H4]]].
  unfold is_op_mode_supported. rewrite H1. f_equal. destruct bit as [i|]; cbn [mode_bits mode_advertised].
  - apply land_pow2_testbit. exact H4.
  - rewrite Z.land_0_r. reflexivity.
Qed.

Lemma op_mode_value_spec : forall name code bit support, In (name, (code, bit)) cia402_modes ->
  op_mode_value name support = if mode_advertised support bit then Ok code else Err E_TYPE.
Proof.
  intros name code bit support Hin. unfold op_mode_value.
  rewrite (supported_spec _ _ _ support Hin). cbn [rbind].
  destruct (mode_entry _ _ _ Hin) as [_ [H2 _]]. rewrite H2. reflexivity.
Qed.

Lemma read_display_writes : forall d, m_writes (fst (m_read_display d)) = m_writes d.
Proof. intro d. unfold m_read_display. destruct (m_pending d), (m_wait d); reflexivity. Qed.

Lemma confirm_writes : forall fuel mode d, m_writes (snd (op_mode_confirm fuel mode d)) = m_writes d.
Proof.
  induction fuel as [|f IH]; intros mode d; cbn [op_mode_confirm]; [reflexivity|].
  pose proof (read_display_writes d) as Hw. destruct (m_read_display d) as [d1 code]. cbn [fst] in Hw.
  destruct (op_mode_name code) as [n|k|c]; cbn [snd]; try exact Hw.
  destruct (String.eqb n mode); cbn [snd]; [exact Hw|]. rewrite IH. exact Hw.
Qed.

(* a displayed mode whose code the library knows *)
Definition display_known (code : Z) : Prop := exists n, zassoc code OM_CODE2NAME = Some n.

Lemma confirm_pending : forall w fuel mode code d, (w < fuel)%nat ->
  m_pending d = Some code -> m_wait d = w -> display_known (m_display d) ->
  zassoc code OM_CODE2NAME = Some mode ->
  fst (op_mode_confirm fuel mode d) = Ok tt.
Proof.
  induction w as [|w IH]; intros fuel mode code d Hf Hp Hw Hd Hc;
    (destruct fuel as [|f]; [lia|]); cbn [op_mode_confirm]; unfold m_read_display; rewrite Hp, Hw.
  - unfold op_mode_name. rewrite Hc, String.eqb_refl. reflexivity.
  - destruct Hd as [n Hn]. unfold op_mode_name. rewrite Hn.
    destruct (String.eqb n mode); [reflexivity|].
    apply (IH f mode code); cbn; try reflexivity; try lia; try exact Hc. exists n. exact Hn.
Qed.

Lemma op_mode_rules : forall name code bit support display lag,
  In (name, (code, bit)) cia402_modes ->
  let '(r, d) := set_op_mode (S lag) name (mdrive_init support display lag) in
  if mode_advertised support bit
  then m_writes d = [code] /\ (display_known display -> r = Ok tt)
  else r = Err E_TYPE /\ m_writes d = [].
Proof.
  intros name code bit support display lag Hin. unfold set_op_mode.
  cbn [mdrive_init m_support]. rewrite (op_mode_value_spec _ _ _ support Hin).
  destruct (mode_entry _ _ _ Hin) as [_ [_ [H3 _]]].
  destruct (mode_advertised support bit); [|split; reflexivity].
  pose proof (confirm_writes (S lag) name (m_write (mdrive_init support display lag) code)) as Hw.
  destruct (op_mode_confirm (S lag) name (m_write (mdrive_init support display lag) code)) as [r d] eqn:E.
  cbn [snd] in Hw. split.
  - rewrite Hw. unfold m_write, mdrive_init. cbn. destruct lag; reflexivity.
  - intro Hd. change r with (fst (r, d)). rewrite <- E. destruct lag as [|l].
    + cbn [op_mode_confirm m_write mdrive_init m_lag]. unfold m_read_display. cbn.
      unfold op_mode_name. rewrite H3, String.eqb_refl. reflexivity.
    + apply (confirm_pending (S l) (S (S l)) name code); cbn; try reflexivity; try lia; assumption.
Qed.
