(* Proofs about Model/PdoLink.v (C15). *)
From Coq Require Import ZArith List Bool Lia ZifyBool.
From CV Require Import Base.Val Base.Bytes Base.Bits Base.Tys Gen.Tables Model.Codec Model.Pdo Model.PdoLink
  Proofs.Codec_proofs Proofs.Pdo_proofs.
Import ListNotations.
Open Scope Z_scope.

Definition accepts (m : pmap) (c : Z) : bool := (c =? m_cob m) && negb (m_task m).
Definition recv (m : pmap) (c : Z) (d : list Z) (ts : Z) : pmap := fst (on_message m c d ts).

Lemma recv_not_accepted m c d ts : accepts m c = false -> recv m c d ts = m.
Proof. unfold recv, on_message, accepts. intros ->. reflexivity. Qed.

Lemma recv_accepted m c d ts : accepts m c = true ->
  let m' := recv m c d ts in
  m_data m' = d /\ m_ts m' = Some ts /\ m_received m' = true /\
  m_period m' = match m_ts m with Some old => Some (ts - old) | None => m_period m end /\
  m_cob m' = m_cob m /\ m_layout m' = m_layout m /\ m_cbs m' = m_cbs m /\ m_task m' = m_task m /\
  m_enabled m' = m_enabled m /\ m_rtr m' = m_rtr m.
Proof. unfold recv, on_message, accepts. intros ->. cbn. repeat split; reflexivity. Qed.

Lemma cbs_invoked m c d ts : snd (on_message m c d ts) = if accepts m c then m_cbs m else [].
Proof. unfold on_message, accepts. destruct ((c =? m_cob m) && negb (m_task m)); reflexivity. Qed.

(* ---- upd ---- *)
Lemma upd_length {A} (l : list A) k x : length (upd l k x) = length l.
Proof. revert k. induction l as [|y r IH]; intros [|k]; cbn; auto. Qed.

Lemma nth_upd_same {A} (l : list A) k x m : nth_error l k = Some m -> nth_error (upd l k x) k = Some x.
Proof. revert k. induction l as [|y r IH]; intros [|k] H; cbn in *; try discriminate; auto. Qed.

Lemma nth_upd_other {A} (l : list A) k j x : j <> k -> nth_error (upd l k x) j = nth_error l j.
Proof.
  revert k j. induction l as [|y r IH]; intros [|k] [|j] H; cbn; try reflexivity; try congruence.
  apply IH. congruence.
Qed.

(* ---- delivery ---- *)
Lemma has_sub_In subs c k : has_sub subs c k = true <-> In (c, k) subs.
Proof.
  induction subs as [|[c' k'] r IH]; cbn; [split; [discriminate|tauto]|].
  rewrite orb_true_iff, andb_true_iff, IH, Z.eqb_eq, Nat.eqb_eq. split.
  - intros [[-> ->]|H]; auto.
  - intros [H|H]; [injection H as -> ->; auto|auto].
Qed.

Lemma deliver_maps subs : NoDup subs -> forall maps c d ts j,
  nth_error (fst (deliver maps subs c d ts)) j =
  option_map (fun m => if has_sub subs c j then recv m c d ts else m) (nth_error maps j).
Proof.
  induction 1 as [|[c0 k] r Hnin Hnd IH]; intros maps c d ts j; cbn [deliver has_sub].
  - cbn [fst]. destruct (nth_error maps j); reflexivity.
  - destruct (c0 =? c) eqn:Ec.
    + assert (c0 = c) by lia. subst c0.
      destruct (nth_error maps k) as [m|] eqn:Hk.
      * destruct (on_message m c d ts) as [m1 cbs] eqn:Hom.
        specialize (IH (upd maps k m1) c d ts j).
        destruct (deliver (upd maps k m1) r c d ts) as [maps' log] eqn:Hd. cbn [fst] in *.
        rewrite IH. destruct (Nat.eq_dec j k) as [->|Hjk].
        -- rewrite (nth_upd_same maps k m1 m Hk), Hk. cbn [option_map].
           replace (has_sub r c k) with false
             by (symmetry; apply not_true_iff_false; rewrite has_sub_In; exact Hnin).
           rewrite Z.eqb_refl, Nat.eqb_refl. cbn. unfold recv. now rewrite Hom.
        -- rewrite nth_upd_other by assumption.
           replace (Nat.eqb j k) with false by (symmetry; apply Nat.eqb_neq; assumption).
           now rewrite andb_false_r.
      * rewrite IH. destruct (Nat.eq_dec j k) as [->|Hjk].
        -- now rewrite Hk.
        -- replace (Nat.eqb j k) with false by (symmetry; apply Nat.eqb_neq; assumption).
           now rewrite andb_false_r.
    + rewrite IH. replace (c =? c0) with false by lia. reflexivity.
Qed.

Lemma flat_map_ext_in_l {A B} (f g : A -> list B) l : (forall a, In a l -> f a = g a) -> flat_map f l = flat_map g l.
Proof.
  induction l as [|x r IH]; intros H; cbn; [reflexivity|].
  rewrite (H x (or_introl eq_refl)), IH; [reflexivity|]. intros a Ha. apply H. now right.
Qed.

Definition sub_log (maps : list pmap) (c : Z) (d : list Z) (ts : Z) (s : Z * nat) : list (nat * Z) :=
  let '(c0, k) := s in
  if c0 =? c then
    match nth_error maps k with
    | Some m => map (fun cb => (k, cb)) (if accepts m c then m_cbs m else [])
    | None => []
    end
  else [].

Lemma deliver_log subs : NoDup subs -> forall maps c d ts,
  snd (deliver maps subs c d ts) = flat_map (sub_log maps c d ts) subs.
Proof.
  induction 1 as [|[c0 k] r Hnin Hnd IH]; intros maps c d ts; cbn [deliver flat_map sub_log]; [reflexivity|].
  destruct (c0 =? c) eqn:Ec.
  - assert (c0 = c) by lia. subst c0.
    destruct (nth_error maps k) as [m|] eqn:Hk.
    + pose proof (cbs_invoked m c d ts) as Hc.
      destruct (on_message m c d ts) as [m1 cbs] eqn:Hom. cbn [snd] in Hc. subst cbs.
      specialize (IH (upd maps k m1) c d ts).
      destruct (deliver (upd maps k m1) r c d ts) as [maps' log]. cbn [snd] in *. subst log.
      f_equal. apply flat_map_ext_in_l. intros [c1 k1] Hin. unfold sub_log.
      destruct (c1 =? c) eqn:E1; [|reflexivity].
      assert (c1 = c) by lia. subst c1.
      assert (k1 <> k) by (intros ->; contradiction).
      now rewrite nth_upd_other by assumption.
    + cbn [app]. apply IH.
  - cbn [app]. apply IH.
Qed.


(* ---- the steps of the property ---- *)
Definition wf_world (w : world) : Prop := NoDup (w_subs w).

Lemma NoDup_snoc {A} (l : list A) x : NoDup l -> ~ In x l -> NoDup (l ++ [x]).
Proof.
  induction 1 as [|y r Hy Hr IH]; intros Hx; cbn.
  - constructor; [intros []|constructor].
  - constructor.
    + rewrite in_app_iff. intros [H|[H|[]]]; [contradiction|]. subst. apply Hx. now left.
    + apply IH. intros H. apply Hx. now right.
Qed.

Lemma subscribe_keeps_wf w k : wf_world w -> wf_world (fst (step w (LSubscribe k))).
Proof.
  unfold wf_world, step, with_map. intros H. destruct (nth_error (w_maps w) k) as [m|]; [|exact H].
  destruct (m_enabled m && negb (has_sub (w_subs w) (m_cob m) k)) eqn:E; [|exact H].
  cbn. apply andb_prop in E as [_ E]. rewrite negb_true_iff in E.
  apply NoDup_snoc; [exact H|]. intros Hx. apply has_sub_In in Hx. congruence.
Qed.

Lemma step_wf w op : wf_world w -> wf_world (fst (step w op)).
Proof.
  intros H. destruct op; try (apply subscribe_keeps_wf; exact H);
    unfold wf_world, step, with_map, put, arrive in *;
    repeat match goal with
           | |- context [match ?x with _ => _ end] => destruct x
           | |- context [if ?x then _ else _] => destruct x
           end; cbn; exact H.
Qed.

Theorem wf_preserved ops : forall w, wf_world w -> wf_world (fst (run_steps w ops)).
Proof.
  induction ops as [|op r IH]; intros w H; cbn [run_steps]; [exact H|].
  pose proof (step_wf w op H) as H1. destruct (step w op) as [w1 v]. cbn [fst] in H1.
  specialize (IH w1 H1). destruct (run_steps w1 r). exact IH.
Qed.

(* ---- arrival of a frame on the bus ---- *)
Lemma arrive_spec w c d ts : wf_world w ->
  let w' := arrive w c d ts in
  (forall j, nth_error (w_maps w') j =
             option_map (fun m => if has_sub (w_subs w) c j then recv m c d ts else m) (nth_error (w_maps w) j)) /\
  w_cblog w' = w_cblog w ++ flat_map (sub_log (w_maps w) c d ts) (w_subs w) /\
  w_sent w' = w_sent w /\ w_subs w' = w_subs w.
Proof.
  intros H. unfold arrive.
  pose proof (deliver_maps (w_subs w) H (w_maps w) c d ts) as Hm.
  pose proof (deliver_log (w_subs w) H (w_maps w) c d ts) as Hl.
  destruct (deliver (w_maps w) (w_subs w) c d ts) as [maps' log]. cbn [fst snd] in *. cbn.
  repeat split; auto. now rewrite Hl.
Qed.

(* a received frame updates only the maps subscribed to its COB-ID (and configured for it, and not
   transmitting themselves); these take the frame's data and timestamp *)
Theorem reception_updates_exactly_subscribers w c d ts j m : wf_world w ->
  nth_error (w_maps w) j = Some m ->
  let w' := arrive w c d ts in
  (has_sub (w_subs w) c j && accepts m c = false -> nth_error (w_maps w') j = Some m) /\
  (has_sub (w_subs w) c j && accepts m c = true ->
     exists m', nth_error (w_maps w') j = Some m' /\ m_data m' = d /\ m_ts m' = Some ts /\
                m_received m' = true /\ m_layout m' = m_layout m /\ m_cob m' = m_cob m).
Proof.
  intros H Hj. destruct (arrive_spec w c d ts H) as (Hm & _). cbn zeta. rewrite Hm, Hj. cbn [option_map].
  split; intros Hc.
  - destruct (has_sub (w_subs w) c j); [|reflexivity]. cbn in Hc. now rewrite recv_not_accepted.
  - apply andb_prop in Hc as [Hs Ha]. rewrite Hs. eexists. split; [reflexivity|].
    destruct (recv_accepted m c d ts Ha) as (A & B & C & _ & E & F & _). auto.
Qed.

(* every callback of every updated map is invoked exactly once, in subscription and registration order *)
Theorem reception_callbacks w c d ts : wf_world w ->
  w_cblog (arrive w c d ts) = w_cblog w ++ flat_map (sub_log (w_maps w) c d ts) (w_subs w).
Proof. intros H. now destruct (arrive_spec w c d ts H) as (_ & Hl & _). Qed.

(* transmission sends exactly the map's COB-ID and current data *)
Theorem transmit_sends w k ts m : nth_error (w_maps w) k = Some m -> wf_world w ->
  w_sent (fst (step w (LTransmit k ts))) = w_sent w ++ [(m_cob m, m_data m, false)].
Proof.
  intros Hk H. unfold step, with_map. rewrite Hk. cbn [fst].
  set (w1 := {| w_maps := w_maps w; w_subs := w_subs w; w_sent := w_sent w ++ [(m_cob m, m_data m, false)];
                w_cblog := w_cblog w |}).
  assert (H1 : wf_world w1) by exact H.
  now destruct (arrive_spec w1 (m_cob m) (m_data m) ts H1) as (_ & _ & Hs & _).
Qed.

(* a remote request is sent only for an enabled map that allows RTR *)
Theorem rtr_rule w k m : nth_error (w_maps w) k = Some m ->
  w_sent (fst (step w (LRtr k))) =
  if m_enabled m && m_rtr m then w_sent w ++ [(m_cob m, [], true)] else w_sent w.
Proof. intros Hk. unfold step, with_map. rewrite Hk. destruct (m_enabled m && m_rtr m); reflexivity. Qed.

(* ---- end to end: producer writes and transmits, consumer reads ---- *)
Theorem pdo_end_to_end w kp kc var v ts mp mc e off ft :
  wf_world w -> kp <> kc ->
  nth_error (w_maps w) kp = Some mp -> nth_error (w_maps w) kc = Some mc ->
  m_layout mc = m_layout mp ->
  nth_error (m_layout mp) var = Some e -> nth_error (offsets (m_layout mp)) var = Some off ->
  entry_is (e_dt e) (e_len e) ft -> fits ft v ->
  bytes_ok (m_data mp) -> 0 <= off -> off + e_len e <= 8 * zlen (m_data mp) ->
  has_sub (w_subs w) (m_cob mp) kc = true -> accepts mc (m_cob mp) = true ->
  let '(w1, r1) := step w (LWrite kp var (write_value ft v)) in
  let '(w2, r2) := step w1 (LTransmit kp ts) in
  let '(w3, r3) := step w2 (LRead kc var) in
  r1 = VNone /\ r2 = VNone /\
  r3 = pyval_val (field_value ft (e_len e) (v mod 2 ^ e_len e)) /\
  exists mc', nth_error (w_maps w3) kc = Some mc' /\ m_ts mc' = Some ts /\ m_received mc' = true.
Proof.
  intros H Hne Hp Hc Hlay He Hoff Hent Hfit Hok Ho Hin Hsub Hacc.
  destruct (pdo_write_spec (m_data mp) (e_dt e) off (e_len e) ft v Hok Hent Hfit Ho Hin)
    as (f' & Hw & Hl & Hok' & Hd).
  cbn [step]. unfold with_map at 1. rewrite Hp, He, Hoff, Hw.
  set (w1 := put w kp (set_data mp f')).
  assert (H1 : wf_world w1) by exact H.
  assert (Hp1 : nth_error (w_maps w1) kp = Some (set_data mp f'))
    by (unfold w1, put; cbn; eapply nth_upd_same; exact Hp).
  assert (Hc1 : nth_error (w_maps w1) kc = Some mc)
    by (unfold w1, put; cbn; rewrite nth_upd_other by congruence; exact Hc).
  unfold with_map at 1. rewrite Hp1. cbn [m_cob m_data set_data].
  set (w1s := {| w_maps := w_maps w1; w_subs := w_subs w1;
                 w_sent := w_sent w1 ++ [(m_cob mp, f', false)]; w_cblog := w_cblog w1 |}).
  assert (H1s : wf_world w1s) by exact H.
  destruct (reception_updates_exactly_subscribers w1s (m_cob mp) f' ts kc mc H1s Hc1) as (_ & Hupd).
  assert (Hs1 : has_sub (w_subs w1s) (m_cob mp) kc && accepts mc (m_cob mp) = true)
    by (cbn; unfold w1, put; cbn; now rewrite Hsub, Hacc).
  destruct (Hupd Hs1) as (mc' & Hmc' & Hdata & Hts & Hrec & Hlay' & _).
  set (w2 := arrive w1s (m_cob mp) f' ts) in *.
  unfold with_map. rewrite Hmc', Hlay', Hlay, He, Hoff, Hdata.
  destruct (pdo_read_after_write (m_data mp) (e_dt e) off (e_len e) ft v Hok Hent Hfit Ho Hin) as (f'' & Hw' & Hr).
  rewrite Hw in Hw'. injection Hw' as <-. rewrite Hr. cbn [res_val].
  repeat split; try reflexivity. exists mc'. auto.
Qed.
