(* Proofs about Model/Nmt.v against the reference Model/RefNmt.v and the regenerated
   tables Gen/NmtTables.v.  Table-driven facts are proved by case analysis on the keys of
   the generated tables / complete evaluation, so they are re-checked against the source. *)
From Coq Require Import ZArith List Bool Lia ZifyBool String.
From CV Require Import Base.Val Base.Tys Gen.NmtTables Model.RefNmt Model.Nmt.
Import ListNotations.
Open Scope string_scope.
Open Scope list_scope.
Open Scope Z_scope.
Ltac Zify.zify_post_hook ::= Z.to_euclidean_division_equations.

(* ------------------------------------------------------------------ generic lookups *)
Lemma list_Z_eqb_eq : forall a b, list_Z_eqb a b = true -> a = b.
Proof.
  induction a as [|x a IH]; destruct b as [|y b]; cbn; intros H; try discriminate; auto.
  apply andb_true_iff in H. destruct H as [H1 H2]. apply Z.eqb_eq in H1. f_equal; auto.
Qed.

Lemma list_Z_eqb_refl : forall a, list_Z_eqb a a = true.
Proof. induction a; cbn; auto. rewrite Z.eqb_refl. auto. Qed.

Lemma zassoc_in : forall A k (l : list (Z * A)) v, zassoc k l = Some v -> In (k, v) l.
Proof.
  induction l as [|[k' a] l IH]; cbn; intros v H; try discriminate.
  destruct (Z.eqb_spec k k').
  - inversion H; subst; auto.
  - right; auto.
Qed.

Lemma sassoc_in : forall A k (l : list (list Z * A)) v, sassoc k l = Some v -> In (k, v) l.
Proof.
  induction l as [|[k' a] l IH]; cbn; intros v H; try discriminate.
  destruct (list_Z_eqb k k') eqn:E.
  - apply list_Z_eqb_eq in E. inversion H; subst; auto.
  - right; auto.
Qed.

Lemma sassoc_none : forall A k (l : list (list Z * A)) v, sassoc k l = None -> ~ In (k, v) l.
Proof.
  induction l as [|[k' a] l IH]; cbn; intros v H; auto.
  destruct (list_Z_eqb k k') eqn:E; try discriminate.
  intros [H1 | H1].
  - inversion H1; subst. rewrite list_Z_eqb_refl in E. discriminate.
  - eapply IH; eauto.
Qed.

Lemma sassoc_none_key : forall A k (l : list (list Z * A)), sassoc k l = None -> ~ In k (map fst l).
Proof.
  induction l as [|[k' a] l IH]; cbn; intros H; auto.
  destruct (list_Z_eqb k k') eqn:E; try discriminate.
  intros [H1 | H1].
  - subst. rewrite list_Z_eqb_refl in E. discriminate.
  - apply IH; auto.
Qed.

(* ------------------------------------------------------------------ table facts *)
(* every state COMMAND_TO_STATE maps to has a name: NMT_STATES[new_state] never raises *)
Lemma cts_known_all : forallb (fun p => known (snd p)) COMMAND_TO_STATE = true.
Proof. vm_compute. reflexivity. Qed.

Lemma cts_known : forall c s, zassoc c COMMAND_TO_STATE = Some s -> known s = true.
Proof.
  intros c s H. apply zassoc_in in H.
  pose proof cts_known_all as A. rewrite forallb_forall in A. apply (A (c, s) H).
Qed.

(* every command specifier in the table fits in a byte *)
Lemma cts_keys_byte_all : forallb (fun p => is_byte (fst p)) COMMAND_TO_STATE = true.
Proof. vm_compute. reflexivity. Qed.

Lemma cts_keys_byte : forall c s, zassoc c COMMAND_TO_STATE = Some s -> is_byte c = true.
Proof.
  intros c s H. apply zassoc_in in H.
  pose proof cts_keys_byte_all as A. rewrite forallb_forall in A. apply (A (c, s) H).
Qed.

(* the table lookup as a total function on the state *)
Definition tbl (st code : Z) : Z :=
  match zassoc code COMMAND_TO_STATE with Some s => s | None => st end.

Lemma base_send_tbl : forall st code, base_send st code = Some (tbl st code).
Proof.
  intros. unfold base_send, tbl. destruct (zassoc code COMMAND_TO_STATE) eqn:E; auto.
  rewrite (cts_known _ _ E). reflexivity.
Qed.

Definition capply (id st cmd nid : Z) : Z :=
  if (nid =? id) || (nid =? 0) then tbl st cmd else st.

Lemma cmd_apply_capply : forall id st cmd nid, cmd_apply id st cmd nid = Some (capply id st cmd nid).
Proof.
  intros. unfold cmd_apply, capply, tbl. destruct ((nid =? id) || (nid =? 0)); auto.
  destruct (zassoc cmd COMMAND_TO_STATE) eqn:E; auto.
  rewrite (cts_known _ _ E). rewrite orb_true_r. reflexivity.
Qed.

(* THE tie between the regenerated COMMAND_TO_STATE table and the hand-written CiA 301
   transition function: case analysis on every key comparison of both sides *)
Lemma tbl_spec : forall s c, tbl (st_code s) c = st_code (cs_step s c).
Proof.
  intros s c. unfold tbl, cs_step, COMMAND_TO_STATE. cbn [zassoc].
  repeat match goal with
         | |- context [Z.eqb c ?k] =>
             destruct (Z.eqb_spec c k); [subst c; vm_compute; reflexivity | ]
         end.
  reflexivity.
Qed.

Lemma capply_spec : forall own s c nid, capply own (st_code s) c nid = st_code (ref_cmd own s c nid).
Proof.
  intros. unfold capply, ref_cmd, ref_addressed. destruct ((nid =? own) || (nid =? 0)); auto.
  apply tbl_spec.
Qed.

Lemma tbl_idem : forall st c, tbl (tbl st c) c = tbl st c.
Proof. intros. unfold tbl. destruct (zassoc c COMMAND_TO_STATE); auto. Qed.

Lemma tbl_nonbyte : forall st c, is_byte c = false -> tbl st c = st.
Proof.
  intros. unfold tbl. destruct (zassoc c COMMAND_TO_STATE) eqn:E; auto.
  apply cts_keys_byte in E. congruence.
Qed.

(* state names: NMT_STATES against the reference names *)
Lemma state_name_spec : forall s, state_name (st_code s) = str_codes (st_name s).
Proof. destruct s; vm_compute; reflexivity. Qed.

(* names: NMT_COMMANDS against the reference list, both directions, by complete evaluation *)
Lemma names_fwd_all :
  forallb (fun p => match ref_name_cs (fst p) with Some c => c =? snd p | None => false end) NMT_COMMANDS = true.
Proof. vm_compute. reflexivity. Qed.

Lemma names_bwd_all :
  forallb (fun p => match sassoc (str_codes (fst p)) NMT_COMMANDS with Some c => c =? snd p | None => false end) ref_names = true.
Proof. vm_compute. reflexivity. Qed.

Lemma name_code_ref : forall name,
  name_code name = match ref_name_cs name with Some cs => Ok cs | None => Err E_VALUE end.
Proof.
  intros name. unfold name_code.
  destruct (sassoc name NMT_COMMANDS) eqn:E.
  - apply sassoc_in in E. pose proof names_fwd_all as A. rewrite forallb_forall in A.
    specialize (A _ E). cbn [fst snd] in A. destruct (ref_name_cs name); try discriminate.
    apply Z.eqb_eq in A. subst. reflexivity.
  - destruct (ref_name_cs name) eqn:R; auto. exfalso.
    unfold ref_name_cs in R. destruct (find _ ref_names) eqn:F; try discriminate.
    apply find_some in F. destruct F as [F1 F2]. apply list_Z_eqb_eq in F2.
    pose proof names_bwd_all as A. rewrite forallb_forall in A. specialize (A _ F1).
    rewrite <- F2 in A. rewrite E in A. discriminate.
Qed.

Lemma ref_name_in : forall n cs, In (n, cs) ref_names -> ref_name_cs (str_codes n) = Some cs.
Proof.
  intros n cs H.
  assert (A : forallb (fun p => match ref_name_cs (str_codes (fst p)) with Some c => c =? snd p | None => false end) ref_names = true)
    by (vm_compute; reflexivity).
  rewrite forallb_forall in A. specialize (A _ H). cbn [fst snd] in A.
  destruct (ref_name_cs (str_codes n)); try discriminate. apply Z.eqb_eq in A. subst. reflexivity.
Qed.

Lemma ref_name_none : forall name,
  (forall n cs, In (n, cs) ref_names -> name <> str_codes n) -> ref_name_cs name = None.
Proof.
  intros name H. unfold ref_name_cs. destruct (find _ ref_names) eqn:F; auto.
  apply find_some in F. destruct F as [F1 F2]. apply list_Z_eqb_eq in F2.
  destruct p as [n cs]. exfalso. apply (H n cs F1). exact F2.
Qed.

(* ------------------------------------------------------------------ heartbeat decoding *)
Lemma land127 : forall b, Z.land b 127 = b mod 128.
Proof. intros. change 127 with (Z.ones 7). rewrite Z.land_ones by lia. reflexivity. Qed.

Lemma hb_state_ref : forall b, hb_state b = ref_hb_code b.
Proof. intros. unfold hb_state, ref_hb_code. rewrite land127. reflexivity. Qed.

Definition bytes256 : list Z := map Z.of_nat (seq 0 256).

Lemma in_bytes256 : forall b, 0 <= b < 256 -> In b bytes256.
Proof.
  intros b H. unfold bytes256. apply in_map_iff. exists (Z.to_nat b). split; try lia.
  apply in_seq. lia.
Qed.

(* complete evaluation over all 256 bytes: low seven bits, toggle bit irrelevant,
   state field 0 (boot-up) reported as PRE-OPERATIONAL, defined state bytes get their names *)
Definition hb_check (b : Z) : bool :=
  (hb_state b =? (if b mod 128 =? 0 then 127 else b mod 128)) &&
  (hb_state (Z.lxor b 128) =? hb_state b) &&
  (Z.land (Z.lxor b 128) 127 =? Z.land b 127) &&
  (if b mod 128 =? 0 then list_Z_eqb (state_name (hb_state b)) (str_codes "PRE-OPERATIONAL") else true) &&
  forallb (fun s => if (b mod 128 =? st_code s) && negb (st_code s =? 0)
                    then list_Z_eqb (state_name (hb_state b)) (str_codes (st_name s)) else true) all_states.

Lemma hb_check_all : forallb hb_check bytes256 = true.
Proof. vm_compute. reflexivity. Qed.

Lemma hb_check_byte : forall b, 0 <= b < 256 -> hb_check b = true.
Proof. intros b H. pose proof hb_check_all as A. rewrite forallb_forall in A. apply A. apply in_bytes256. exact H. Qed.

Lemma all_states_in : forall s, In s all_states.
Proof. destruct s; cbn; auto 10. Qed.

(* ------------------------------------------------------------------ closed form of a frame delivery on CAN id 0 *)
Definition upd_task (t : option (list Z * Z)) (s : Z) : option (list Z * Z) :=
  match t with Some (_, p) => Some ([s], p) | None => None end.

Lemma deliver0_cons2 : forall own oth w c n rest,
  deliver0 own oth w (c :: n :: rest) =
  (mkW (capply own (w_m w) c n) (w_recv w) (capply oth (w_o w) c n) (w_b w)
       (capply own (w_s w) c n) (upd_task (w_task w) (capply own (w_s w) c n)) (w_od w), None).
Proof.
  intros. unfold deliver0, unpack_BB. rewrite cmd_apply_capply.
  destruct w as [m r o b s t od]. cbn [w_s w_m w_o w_b w_recv w_task w_od set_s].
  unfold update_hb; cbn [w_task w_s].
  destruct t as [[d p]|]; cbn [set_task set_master w_s w_m w_o w_b w_recv w_task w_od upd_task];
    rewrite !cmd_apply_capply; cbn [set_task set_master w_s w_m w_o w_b w_recv w_task w_od]; reflexivity.
Qed.

Lemma deliver0_short : forall own oth w data, (List.length data < 2)%nat ->
  deliver0 own oth w data = (w, Some E_STRUCT).
Proof.
  intros. destruct data as [|c [|n rest]]; cbn in *; try lia; reflexivity.
Qed.

Lemma set_master_s : forall w m st, w_s (set_master w m st) = w_s w.
Proof. destruct m; reflexivity. Qed.
Lemma set_master_task : forall w m st, w_task (set_master w m st) = w_task w.
Proof. destruct m; reflexivity. Qed.
Lemma set_master_od : forall w m st, w_od (set_master w m st) = w_od w.
Proof. destruct m; reflexivity. Qed.
Lemma set_master_recv : forall w m st, w_recv (set_master w m st) = w_recv w.
Proof. destruct m; reflexivity. Qed.

(* closed form of NmtMaster.send_command *)
Lemma master_send_byte : forall lp own oth w m code, is_byte code = true ->
  master_send lp own oth w m code =
  ((if lp then fst (deliver0 own oth (set_master w m (tbl (get_master w m) code)) [code; mid own oth m])
    else set_master w m (tbl (get_master w m) code)),
   ([(0, [code; mid own oth m])], [], None)).
Proof.
  intros. unfold master_send. rewrite base_send_tbl, H. destruct lp; [rewrite deliver0_cons2|]; reflexivity.
Qed.

Lemma master_send_nonbyte : forall lp own oth w m code, is_byte code = false ->
  master_send lp own oth w m code = (w, ([], [], Some E_VALUE)).
Proof.
  intros. unfold master_send. rewrite base_send_tbl, H. rewrite tbl_nonbyte by exact H.
  destruct w, m; reflexivity.
Qed.

(* deliver_hb never fails on a non-empty frame *)
Lemma deliver_hb_cons : forall w b rest,
  deliver_hb w (b :: rest) = (set_m w (hb_state b, Some (Z.land b 127)), [Z.land b 127], None).
Proof. reflexivity. Qed.

Lemma update_hb_s : forall w, w_s (update_hb w) = w_s w.
Proof. intros. unfold update_hb. destruct (w_task w) as [[d p]|]; reflexivity. Qed.
Lemma start_hb_s : forall w t, w_s (start_hb w t) = w_s w.
Proof. reflexivity. Qed.

Lemma ws_branch : forall (c : bool) w2, w_s (if c then start_hb w2 (w_od w2) else update_hb w2) = w_s w2.
Proof. intros. destruct c; rewrite ?update_hb_s; reflexivity. Qed.

(* ------------------------------------------------------------------ master frame *)
Lemma master_frame : forall lp own oth w m code, 0 <= code < 256 ->
  snd (step lp own oth w (ECmd m code)) = ([(0, [code; mid own oth m])], [], None).
Proof.
  intros. cbn [step]. rewrite master_send_byte; [reflexivity|]. unfold is_byte. lia.
Qed.

Lemma master_frame_name : forall lp own oth w m n cs, In (n, cs) ref_names ->
  0 <= cs < 256 /\
  snd (step lp own oth w (EName m (str_codes n))) = ([(0, [cs; mid own oth m])], [], None).
Proof.
  intros lp own oth w m n cs H.
  assert (B : forallb (fun p => is_byte (snd p)) ref_names = true) by (vm_compute; reflexivity).
  rewrite forallb_forall in B. specialize (B _ H). cbn [snd] in B.
  split; [unfold is_byte in B; lia|].
  cbn [step]. rewrite name_code_ref, (ref_name_in _ _ H). rewrite master_send_byte by exact B. reflexivity.
Qed.

Lemma invalid_name_rejected : forall lp own oth w name,
  (forall n cs, In (n, cs) ref_names -> name <> str_codes n) ->
  (forall m, step lp own oth w (EName m name) = (w, ([], [], Some E_VALUE))) /\
  step lp own oth w (ESName name) = (w, ([], [], Some E_VALUE)).
Proof.
  intros lp own oth w name H. apply ref_name_none in H.
  split; [intros m|]; cbn [step]; rewrite name_code_ref, H; reflexivity.
Qed.

(* ------------------------------------------------------------------ slave follows the spec: received frames *)
Definition ref_frame (own : Z) (s : nmt_st) (data : list Z) : nmt_st :=
  match data with cs :: nid :: _ => ref_cmd own s cs nid | _ => s end.

Lemma on_command_spec : forall own s data,
  match on_command own (st_code s) data with Ok s' => s' | _ => st_code s end =
  st_code (ref_frame own s data).
Proof.
  intros. destruct data as [|c [|n rest]]; try reflexivity.
  unfold on_command, unpack_BB, rbind. cbn [fst snd]. rewrite cmd_apply_capply. apply capply_spec.
Qed.

Lemma slave_follows_spec : forall own frames s,
  rx_fold own (st_code s) frames = st_code (fold_left (ref_frame own) frames s).
Proof.
  intros own frames. induction frames as [|d r IH]; intros s; [reflexivity|].
  unfold rx_fold in *. cbn [fold_left]. rewrite on_command_spec. apply IH.
Qed.

(* the slave object inside the system does exactly rx_fold on a received frame *)
Lemma deliver0_is_on_command : forall own oth w data,
  w_s (fst (deliver0 own oth w data)) = rx_fold own (w_s w) [data].
Proof.
  intros. unfold rx_fold. cbn [fold_left]. destruct data as [|c [|n rest]]; try reflexivity.
  rewrite deliver0_cons2. unfold on_command, unpack_BB, rbind. cbn [fst snd w_s]. rewrite cmd_apply_capply. reflexivity.
Qed.

Lemma other_ids_noop : forall own frames st,
  Forall (fun d => match d with _ :: nid :: _ => nid <> own /\ nid <> 0 | _ => True end) frames ->
  rx_fold own st frames = st.
Proof.
  intros own frames. induction frames as [|d r IH]; intros st H; [reflexivity|].
  inversion H as [|x l H1 H2]; subst. unfold rx_fold in *. cbn [fold_left].
  replace (match on_command own st d with Ok s' => s' | _ => st end) with st; [apply IH; exact H2|].
  destruct d as [|c [|n rest]]; try reflexivity.
  unfold on_command, unpack_BB, rbind. cbn [fst snd]. rewrite cmd_apply_capply. unfold capply.
  destruct H1 as [A B]. destruct (Z.eqb_spec n own); try contradiction. destruct (Z.eqb_spec n 0); try contradiction.
  reflexivity.
Qed.

(* ------------------------------------------------------------------ the whole system, event by event *)
Lemma step_slave : forall own oth w s e, w_s w = st_code s ->
  w_s (fst (step true own oth w e)) = st_code (ref_slave_event own oth s e).
Proof.
  intros own oth w s e Hs.
  assert (CMD : forall m code, w_s (fst (master_send true own oth w m code)) =
                 st_code (if is_byte code then ref_cmd own s code (mid own oth m) else s)).
  { intros m code. destruct (is_byte code) eqn:B.
    - rewrite master_send_byte by exact B. rewrite deliver0_cons2. cbn [fst w_s].
      rewrite set_master_s, Hs. apply capply_spec.
    - rewrite master_send_nonbyte by exact B. exact Hs. }
  assert (LOC : forall code, w_s (fst (slave_send true own w code)) = st_code (cs_step s code)).
  { intros code. unfold slave_send. rewrite base_send_tbl, Hs, tbl_spec.
    destruct (st_code (cs_step s code) =? 0).
    - rewrite deliver_hb_cons. cbn [fst]. rewrite ws_branch. reflexivity.
    - cbn [fst]. rewrite ws_branch. reflexivity. }
  destruct e as [m code|m name|data|data|code|name|t|]; cbn [step ref_slave_event].
  - apply CMD.
  - rewrite name_code_ref. destruct (ref_name_cs name) as [cs|] eqn:R; [|exact Hs].
    rewrite CMD.
    assert (B : is_byte cs = true).
    { unfold ref_name_cs in R. destruct (find _ ref_names) eqn:F; try discriminate. inversion R; subst.
      apply find_some in F. destruct F as [F _].
      assert (A : forallb (fun p => is_byte (snd p)) ref_names = true) by (vm_compute; reflexivity).
      rewrite forallb_forall in A. apply (A _ F). }
    rewrite B. reflexivity.
  - destruct data as [|c [|n rest]]; try exact Hs.
    rewrite deliver0_cons2. cbn [fst w_s]. rewrite Hs. apply capply_spec.
  - destruct data as [|b rest]; [exact Hs|]. rewrite deliver_hb_cons. exact Hs.
  - apply LOC.
  - rewrite name_code_ref. destruct (ref_name_cs name) as [cs|]; [apply LOC | exact Hs].
  - unfold slave_set_hb. destruct ((0 <=? t) && (t <? 65536)); [|exact Hs].
    destruct (t =? 0); exact Hs.
  - destruct (w_task w) as [[d p]|]; [|exact Hs].
    destruct d as [|b rest]; [exact Hs|]. rewrite deliver_hb_cons. exact Hs.
Qed.

Lemma system_follows_spec : forall own oth evs w s, w_s w = st_code s ->
  w_s (run true own oth w evs) = st_code (ref_slave_run own oth s evs) /\
  state_name (w_s (run true own oth w evs)) = str_codes (st_name (ref_slave_run own oth s evs)).
Proof.
  intros own oth evs.
  assert (A : forall w s, w_s w = st_code s -> w_s (run true own oth w evs) = st_code (ref_slave_run own oth s evs)).
  { induction evs as [|e r IH]; intros w s H; [exact H|].
    unfold run, ref_slave_run in *. cbn [fold_left]. apply IH. apply step_slave. exact H. }
  intros w s H. split; [apply A; exact H|]. rewrite (A w s H). apply state_name_spec.
Qed.

(* ------------------------------------------------------------------ master and slave agree *)
Definition master_driven (e : event) : Prop :=
  match e with ECmd _ _ | EName _ _ | ERaw _ => True | _ => False end.

Lemma deliver0_agree : forall own oth w data, w_m w = w_s w ->
  w_m (fst (deliver0 own oth w data)) = w_s (fst (deliver0 own oth w data)).
Proof.
  intros. destruct data as [|c [|n rest]]; try exact H.
  rewrite deliver0_cons2. cbn [fst w_m w_s]. rewrite H. reflexivity.
Qed.

Lemma master_send_agree : forall own oth w m code, w_m w = w_s w ->
  w_m (fst (master_send true own oth w m code)) = w_s (fst (master_send true own oth w m code)).
Proof.
  intros own oth w m code H. destruct (is_byte code) eqn:B.
  - rewrite master_send_byte by exact B. rewrite deliver0_cons2. cbn [fst w_m w_s].
    rewrite set_master_s. destruct m; cbn [set_master get_master w_m mid].
    + unfold capply. rewrite Z.eqb_refl. cbn [orb]. rewrite tbl_idem. rewrite H. reflexivity.
    + rewrite H. reflexivity.
    + rewrite H. reflexivity.
  - rewrite master_send_nonbyte by exact B. exact H.
Qed.

Lemma step_agree : forall own oth w e, master_driven e -> w_m w = w_s w ->
  w_m (fst (step true own oth w e)) = w_s (fst (step true own oth w e)).
Proof.
  intros own oth w e D H. destruct e; try contradiction; cbn [step].
  - apply master_send_agree. exact H.
  - destruct (name_code name); try exact H. apply master_send_agree. exact H.
  - pose proof (deliver0_agree own oth w data H) as A.
    destruct (deliver0 own oth w data). exact A.
Qed.

Lemma run_agree : forall own oth evs w, Forall master_driven evs -> w_m w = w_s w ->
  w_m (run true own oth w evs) = w_s (run true own oth w evs).
Proof.
  intros own oth evs. induction evs as [|e r IH]; intros w F H; [exact H|].
  inversion F; subst. unfold run in *. cbn [fold_left]. apply IH; auto. apply step_agree; auto.
Qed.

Lemma Forall_firstn_ : forall A (P : A -> Prop) k l, Forall P l -> Forall P (firstn k l).
Proof.
  intros A P k l H. rewrite <- (firstn_skipn k l) in H. apply Forall_app in H. tauto.
Qed.

Lemma master_slave_agree : forall own oth evs w k, Forall master_driven evs -> w_m w = w_s w ->
  let w' := run true own oth w (firstn k evs) in
  w_m w' = w_s w' /\ state_name (w_m w') = state_name (w_s w').
Proof.
  intros own oth evs w k F H w'.
  assert (A : w_m w' = w_s w') by (apply run_agree; [apply Forall_firstn_; exact F | exact H]).
  split; [exact A | rewrite A; reflexivity].
Qed.

(* the sender's view after a command is the state the command assigns, whether or not the bus
   hands the frame back to the sender's Network, and whatever the view was before (e.g. an
   undefined state number received in a heartbeat) *)
Lemma master_assumes_commanded : forall lp own oth w code, 0 <= code < 256 ->
  w_m (fst (step lp own oth w (ECmd MOwn code))) = tbl (w_m w) code /\
  (forall s, w_m w = st_code s -> w_m (fst (step lp own oth w (ECmd MOwn code))) = st_code (cs_step s code)) /\
  (forall st, zassoc code COMMAND_TO_STATE = Some st -> w_m (fst (step lp own oth w (ECmd MOwn code))) = st).
Proof.
  intros lp own oth w code H.
  assert (A : w_m (fst (step lp own oth w (ECmd MOwn code))) = tbl (w_m w) code).
  { cbn [step]. rewrite master_send_byte by (unfold is_byte; lia). destruct lp; cbn [fst].
    - rewrite deliver0_cons2. cbn [fst w_m set_master get_master mid]. unfold capply.
      rewrite Z.eqb_refl. cbn [orb]. apply tbl_idem.
    - reflexivity. }
  split; [exact A|]. split.
  - intros s E. rewrite A, E. apply tbl_spec.
  - intros st E. rewrite A. unfold tbl. rewrite E. reflexivity.
Qed.

(* ------------------------------------------------------------------ the heartbeat reports the slave's state *)
Definition task_ok (w : world) : Prop := forall d p, w_task w = Some (d, p) -> d = [w_s w].

Lemma upd_task_ok : forall t s d p, upd_task t s = Some (d, p) -> d = [s].
Proof. intros t s d p H. destruct t as [[d' p']|]; cbn in H; try discriminate. inversion H; reflexivity. Qed.

Lemma step_task_ok : forall lp own oth w e, task_ok w -> task_ok (fst (step lp own oth w e)).
Proof.
  intros lp own oth w e T.
  assert (CMD : forall m code, task_ok (fst (master_send lp own oth w m code))).
  { intros m code. destruct (is_byte code) eqn:B.
    - rewrite master_send_byte by exact B. destruct lp; cbn [fst].
      + rewrite deliver0_cons2. cbn [fst].
        intros d p H. cbn [w_task w_s] in *. eapply upd_task_ok; eauto.
      + intros d p H. rewrite set_master_task in H. rewrite set_master_s. apply (T d p H).
    - rewrite master_send_nonbyte by exact B. exact T. }
  assert (LOC : forall code, task_ok (fst (slave_send lp own w code))).
  { intros code. unfold slave_send. rewrite base_send_tbl.
    set (new := tbl (w_s w) code).
    assert (G : forall w2, w_s w2 = new ->
                 task_ok (if (w_s w =? 0) && (new =? 127) then start_hb w2 (w_od w2) else update_hb w2)).
    { intros w2 E. destruct ((w_s w =? 0) && (new =? 127)).
      - unfold start_hb. intros d p H. cbn [set_task w_task w_s] in H.
        destruct (0 <? w_od w2); try discriminate. inversion H; subst. reflexivity.
      - unfold update_hb. destruct (w_task w2) as [[d' p']|] eqn:E2.
        + intros d p H. cbn [set_task w_task w_s] in H. inversion H; subst. reflexivity.
        + intros d p H. rewrite E2 in H. discriminate. }
    destruct (new =? 0).
    - destruct lp; [rewrite deliver_hb_cons|]; cbn [fst]; apply G; reflexivity.
    - cbn [fst]. apply G. reflexivity. }
  destruct e as [m code|m name|data|data|code|name|t|]; cbn [step].
  - apply CMD.
  - destruct (name_code name); try exact T. apply CMD.
  - destruct data as [|c [|n rest]]; try exact T.
    rewrite deliver0_cons2. cbn [fst]. intros d p H. cbn [w_task w_s] in *. eapply upd_task_ok; eauto.
  - destruct data as [|b rest]; [exact T|]. rewrite deliver_hb_cons. exact T.
  - apply LOC.
  - destruct (name_code name); try exact T. apply LOC.
  - unfold slave_set_hb. destruct ((0 <=? t) && (t <? 65536)); [|exact T]. cbn [fst].
    destruct (t =? 0).
    + intros d p H. cbn in H. discriminate.
    + unfold start_hb. intros d p H. cbn [set_od set_task w_task w_s] in H.
      destruct (0 <? t); try discriminate. inversion H; subst. reflexivity.
  - destruct (w_task w) as [[d p]|]; [|exact T]. destruct lp; [|exact T].
    destruct d as [|b rest]; [exact T|]. rewrite deliver_hb_cons. exact T.
Qed.

Lemma run_task_ok : forall lp own oth evs w, task_ok w -> task_ok (run lp own oth w evs).
Proof.
  intros lp own oth evs. induction evs as [|e r IH]; intros w T; [exact T|].
  unfold run in *. cbn [fold_left]. apply IH. apply step_task_ok. exact T.
Qed.

Lemma init_task_ok : forall od0, task_ok (init_world od0).
Proof. intros od0 d p H. discriminate. Qed.

(* after any history, a heartbeat tick carries the state of the reference machine and the
   master then reports that state (INITIALISING, state byte 0, reads as a boot-up message) *)
Lemma heartbeat_reports_slave : forall own oth od0 evs p d,
  let w := run true own oth (init_world od0) evs in
  let s := ref_slave_run own oth Initialising evs in
  w_task w = Some (d, p) ->
  snd (step true own oth w ETick) = ([(1792 + own, [st_code s])], [st_code s], None) /\
  state_name (w_m (fst (step true own oth w ETick))) =
    str_codes (st_name (match s with Initialising => PreOperational | _ => s end)).
Proof.
  intros own oth od0 evs p d w s H.
  assert (S : w_s w = st_code s) by (apply system_follows_spec; reflexivity).
  assert (T : d = [w_s w]) by (eapply (run_task_ok true own oth evs (init_world od0) (init_task_ok od0)); exact H).
  subst d. cbn [step]. rewrite H, deliver_hb_cons. cbn [fst snd w_m set_m]. rewrite S.
  split.
  - destruct s; reflexivity.
  - destruct s; vm_compute; reflexivity.
Qed.

(* ------------------------------------------------------------------ heartbeat decoding in the system *)
Lemma heartbeat_decoding : forall lp own oth w b rest, 0 <= b < 256 ->
  let w' := fst (step lp own oth w (EHb (b :: rest))) in
  w_m w' = ref_hb_code b /\
  w_m w' = (if b mod 128 =? 0 then 127 else b mod 128) /\
  step lp own oth w (EHb (Z.lxor b 128 :: rest)) = step lp own oth w (EHb (b :: rest)) /\
  w_s w' = w_s w /\
  (b mod 128 = 0 -> state_name (w_m w') = str_codes "PRE-OPERATIONAL") /\
  (forall s, b mod 128 = st_code s -> s <> Initialising -> state_name (w_m w') = str_codes (st_name s)).
Proof.
  intros lp own oth w b rest H w'. subst w'. cbn [step]. rewrite !deliver_hb_cons. cbn [fst w_m w_s set_m].
  pose proof (hb_check_byte b H) as C. unfold hb_check in C.
  repeat rewrite andb_true_iff in C. destruct C as [[[[C1 C2] C3] C4] C5].
  apply Z.eqb_eq in C1, C2, C3.
  split; [apply hb_state_ref|]. split; [exact C1|]. split; [rewrite C2, C3; reflexivity|]. split; [reflexivity|].
  split.
  - intros Z0. rewrite Z0 in C4. cbn in C4. apply list_Z_eqb_eq in C4. exact C4.
  - intros s E NI. rewrite forallb_forall in C5. specialize (C5 s (all_states_in s)).
    rewrite E, Z.eqb_refl in C5. cbn [andb] in C5.
    assert (N : (st_code s =? 0) = false) by (destruct s; try reflexivity; contradiction).
    rewrite N in C5. cbn [negb] in C5. apply list_Z_eqb_eq in C5. exact C5.
Qed.

(* ------------------------------------------------------------------ waits (scan models) *)
Lemma hb_fold_app : forall m l b, hb_fold m (l ++ [b]) = (hb_state b, Some (Z.land b 127)).
Proof. intros. unfold hb_fold. rewrite fold_left_app. reflexivity. Qed.

Lemma hb_fold_nil : forall m, hb_fold m [] = m.
Proof. reflexivity. Qed.

Lemma wait_heartbeat_spec : forall m arrivals,
  (arrivals = [] -> wait_for_heartbeat m arrivals = ((fst m, None), Err E_NMT)) /\
  (forall l b, arrivals = l ++ [b] ->
     wait_for_heartbeat m arrivals =
       ((ref_hb_code b, Some (b mod 128)), Ok (state_name (ref_hb_code b)))).
Proof.
  intros m arrivals. split.
  - intros ->. reflexivity.
  - intros l b ->. unfold wait_for_heartbeat. rewrite hb_fold_app. cbn [fst snd].
    rewrite hb_state_ref, land127. reflexivity.
Qed.

Definition quiet (sl : bool * list Z) : Prop := fst sl = false /\ woken_by_bootup (snd sl) = false.

Lemma hb_fold_recv : forall st arr,
  snd (hb_fold (st, None) arr) = Some 0 <-> woken_by_bootup arr = true.
Proof.
  intros st arr. unfold woken_by_bootup, is_bootup.
  destruct arr as [|a r] using rev_ind.
  - cbn. split; discriminate.
  - rewrite hb_fold_app, rev_unit. cbn [snd]. rewrite land127. split.
    + intros E. inversion E as [E1]. rewrite E1. reflexivity.
    + intros E. apply Z.eqb_eq in E. rewrite E. reflexivity.
Qed.

Lemma hb_fold_boot_state : forall st arr, woken_by_bootup arr = true -> fst (hb_fold (st, None) arr) = 127.
Proof.
  intros st arr. unfold woken_by_bootup, is_bootup. destruct arr as [|a r] using rev_ind.
  - cbn. discriminate.
  - rewrite hb_fold_app, rev_unit. cbn [fst]. intros E. apply Z.eqb_eq in E.
    unfold hb_state. rewrite land127, E. reflexivity.
Qed.

Lemma wait_bootup_spec : forall pre m,
  Forall quiet pre ->
  (forall arr post, woken_by_bootup arr = true ->
     snd (wait_for_bootup m (pre ++ (false, arr) :: post)) = Ok tt /\
     fst (fst (wait_for_bootup m (pre ++ (false, arr) :: post))) = 127) /\
  (forall arr post, snd (wait_for_bootup m (pre ++ (true, arr) :: post)) = Err E_NMT) /\
  snd (wait_for_bootup m pre) = Err E_FUEL.
Proof.
  induction pre as [|[late a] r IH]; intros m Q.
  - split; [|split].
    + intros arr post W. cbn [app wait_for_bootup].
      pose proof (proj2 (hb_fold_recv (fst m) arr) W) as R.
      pose proof (hb_fold_boot_state (fst m) arr W) as B.
      destruct (hb_fold (fst m, None) arr) as [st rc]. cbn [snd fst] in *. subst. split; reflexivity.
    + intros arr post. cbn [app wait_for_bootup]. reflexivity.
    + reflexivity.
  - inversion Q as [|x l [Q1 Q2] Q3]; subst. cbn [fst snd] in Q1, Q2. subst late.
    assert (NB : snd (hb_fold (fst m, None) a) <> Some 0).
    { intros E. apply hb_fold_recv in E. congruence. }
    assert (U : forall rest, wait_for_bootup m ((false, a) :: rest) =
                             wait_for_bootup (hb_fold (fst m, None) a) rest).
    { intros rest. cbn [wait_for_bootup]. destruct (snd (hb_fold (fst m, None) a)) as [z|] eqn:E; auto.
      destruct z; auto. contradiction. }
    specialize (IH (hb_fold (fst m, None) a) Q3). destruct IH as [I1 [I2 I3]].
    split; [|split].
    + intros arr post W. rewrite <- app_comm_cons, U. apply I1. exact W.
    + intros arr post. rewrite <- app_comm_cons, U. apply I2.
    + rewrite U. apply I3.
Qed.
