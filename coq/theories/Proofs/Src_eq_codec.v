(* Tie (c): the range tests of IntegerN.pack / UnsignedN.pack as translated from the CURRENT source text
   (Gen/Src.v) are the model's in_range (Model/Codec.v, C04). *)
From Coq Require Import ZArith List Bool Lia.
From CV Require Import Base.Val Base.Tys Base.PyLib Gen.SrcC04 Model.Codec.
Open Scope Z_scope.

Theorem src_integerN_accepts_eq v w : 1 <= w -> src_integerN_accepts v w = in_range true w v.
Proof.
  intros Hw. unfold src_integerN_accepts, in_range. cbv zeta. rewrite !Z.shiftl_1_l.
  destruct ((- 2 ^ (w - 1) <=? v) && (v <? 2 ^ (w - 1))); reflexivity.
Qed.

Theorem src_unsignedN_accepts_eq v w : 0 <= w -> src_unsignedN_accepts v w = in_range false w v.
Proof.
  intros Hw. unfold src_unsignedN_accepts, in_range. cbv zeta. rewrite !Z.shiftl_1_l.
  destruct ((0 <=? v) && (v <? 2 ^ w)); reflexivity.
Qed.
